(* DnsProofs.v — specification vocabulary and proofs for DnsModel.v (C37). *)
Require Import SquidV.Bytes SquidV.gen.Dns_gen SquidV.DnsModel.
Require Import ZifyBool ZifyN ZifyNat.
Local Open Scope N_scope.

(* ================= small list facts ================= *)
Lemma nthN_some {A} (l : list A) (i : N) : i < lenN l -> exists b, nthN i l = Some b.
Proof.
  revert i. induction l as [|x l IH]; intros i Hi; cbn [lenN nthN] in *; [lia|].
  destruct (i =? 0) eqn:E; [eexists; reflexivity|]. apply IH. lia.
Qed.

Lemma nthN_in_range {A} (l : list A) (i : N) x : nthN i l = Some x -> i < lenN l.
Proof.
  revert i. induction l as [|y l IH]; intros i H; cbn [lenN nthN] in *; [discriminate|].
  destruct (i =? 0) eqn:E; [lia|]. apply IH in H. lia.
Qed.

Lemma nthN_app_l {A} (a b : list A) i : i < lenN a -> nthN i (a ++ b) = nthN i a.
Proof.
  revert i. induction a as [|x a IH]; intros i Hi; cbn [lenN nthN app] in *; [lia|].
  destruct (i =? 0) eqn:E; [reflexivity|]. apply IH. lia.
Qed.

Lemma nthN_app_r {A} (a b : list A) i : lenN a <= i -> nthN i (a ++ b) = nthN (i - lenN a) b.
Proof.
  revert i. induction a as [|x a IH]; intros i Hi; cbn [lenN nthN app] in *; [f_equal; lia|].
  destruct (i =? 0) eqn:E; [lia|]. rewrite IH by lia. f_equal. lia.
Qed.

Lemma dropN_app_len {A} (a b : list A) : dropN (lenN a) (a ++ b) = b.
Proof.
  induction a as [|x a IH]; cbn [lenN dropN app].
  - destruct b; cbn [dropN]; reflexivity.
  - destruct (N.succ (lenN a) =? 0) eqn:E; [lia|]. rewrite N.pred_succ. exact IH.
Qed.

Lemma dropN_app_ge {A} (a b : list A) n : lenN a <= n -> dropN n (a ++ b) = dropN (n - lenN a) b.
Proof.
  revert n. induction a as [|x a IH]; intros n Hn; cbn [lenN dropN app] in *.
  - f_equal. lia.
  - destruct (n =? 0) eqn:E; [lia|]. rewrite IH by lia. f_equal. lia.
Qed.

Lemma takeN_app_len {A} (a b : list A) : takeN (lenN a) (a ++ b) = a.
Proof.
  induction a as [|x a IH]; cbn [lenN takeN app].
  - destruct b; cbn [takeN]; reflexivity.
  - destruct (N.succ (lenN a) =? 0) eqn:E; [lia|]. rewrite N.pred_succ, IH. reflexivity.
Qed.

Lemma takeN_all {A} (l : list A) n : lenN l <= n -> takeN n l = l.
Proof.
  revert n. induction l as [|x l IH]; intros n Hn; cbn [lenN takeN] in *; [reflexivity|].
  destruct (n =? 0) eqn:E; [lia|]. rewrite IH by lia. reflexivity.
Qed.

Lemma lenN_dropN {A} (l : list A) n : lenN (dropN n l) = lenN l - n.
Proof.
  revert n. induction l as [|x l IH]; intros n; cbn [lenN dropN]; [lia|].
  destruct (n =? 0) eqn:E; cbn [lenN]; [lia|]. rewrite IH. lia.
Qed.


Lemma lenN_removelast {A} (l : list A) : lenN (removelast l) = lenN l - 1.
Proof.
  induction l as [|x l IH]; [reflexivity|]. destruct l as [|y l]; [reflexivity|].
  change (removelast (x :: y :: l)) with (x :: removelast (y :: l)). cbn [lenN] in *. rewrite IH. lia.
Qed.

Lemma lenN_setN i v l : lenN (setN i v l) = lenN l.
Proof.
  revert i. induction l as [|x l IH]; intros i; cbn [setN]; [reflexivity|].
  destruct (i =? 0); cbn [lenN]; [reflexivity|]. rewrite IH. reflexivity.
Qed.

(* ================= C strings ================= *)
Definition nz (c : N) : bool := negb (c =? 0).

Lemma cstr_nz s : forallb nz (cstr s) = true.
Proof. unfold cstr. apply (span_all nz s). Qed.

Lemma cstr_id s : forallb nz s = true -> cstr s = s.
Proof.
  unfold cstr, nz. induction s as [|c r IH]; intros H; [reflexivity|].
  cbn [forallb] in H. apply andb_prop in H as [Hc Hr].
  cbn [span]. rewrite Hc. specialize (IH Hr).
  destruct (span (fun c0 : N => negb (c0 =? 0)) r) as [a b] eqn:E. cbn [fst] in *. rewrite IH. reflexivity.
Qed.

Lemma forallb_app' {A} (p : A -> bool) a b : forallb p (a ++ b) = forallb p a && forallb p b.
Proof. induction a as [|x a IH]; cbn [app forallb]; [reflexivity|]. rewrite IH, andb_assoc. reflexivity. Qed.

Lemma join_dots_nz labels : Forall (fun t => forallb nz t = true) labels -> forallb nz (join_dots labels) = true.
Proof.
  induction 1 as [|l r Hl Hr IH]; [reflexivity|].
  destruct r as [|l2 r]; [exact Hl|].
  change (join_dots (l :: l2 :: r)) with (l ++ [46] ++ join_dots (l2 :: r)).
  rewrite !forallb_app', Hl, IH. reflexivity.
Qed.


Definition labels_nz (labels : list bytes) : Prop := Forall (fun l => forallb nz l = true) labels.

Lemma cstr_fix_nz s : cstr s = s -> forallb nz s = true.
Proof. intros H. rewrite <- H. apply cstr_nz. Qed.

Lemma join_dots_nz_inv labels : forallb nz (join_dots labels) = true -> labels_nz labels.
Proof.
  induction labels as [|l r IH]; intros H; [constructor|].
  destruct r as [|l2 r]; [constructor; [exact H|constructor]|].
  change (join_dots (l :: l2 :: r)) with (l ++ [46] ++ join_dots (l2 :: r)) in H.
  rewrite !forallb_app' in H. apply andb_prop in H as [H1 H2]. apply andb_prop in H2 as [_ H3].
  constructor; [exact H1|]. apply IH. exact H3.
Qed.

(* ================= checked reads succeed inside the datagram ================= *)
Lemma rd16_some buf off : off + 2 <= lenN buf -> exists v, rd16 buf off = Some v.
Proof.
  intros H. unfold rd16.
  destruct (nthN_some buf off) as [a Ha]; [lia|].
  destruct (nthN_some buf (off + 1)) as [b Hb]; [lia|].
  rewrite Ha, Hb. eexists; reflexivity.
Qed.

Lemma rd32_some buf off : off + 4 <= lenN buf -> exists v, rd32 buf off = Some v.
Proof.
  intros H. unfold rd32.
  destruct (rd16_some buf off) as [a Ha]; [lia|].
  destruct (rd16_some buf (off + 2)) as [b Hb]; [lia|].
  rewrite Ha, Hb. eexists; reflexivity.
Qed.

Lemma rd_range_some buf off len : off + len <= lenN buf -> exists d, rd_range buf off len = Some d.
Proof.
  intros H. unfold rd_range. destruct (off + len <=? lenN buf) eqn:E; [eexists; reflexivity|lia].
Qed.

(* ================= Part A: decoding never leaves the datagram and terminates ================= *)
(* "the outcome is not one of the bad ones, and a returned offset is inside the datagram" *)
Definition name_res_ok (sz : N) (r : outcome (bytes * N * N)) : Prop :=
  match r with
  | Bad _ => False
  | Err => True
  | Ok (_, off', _) => off' <= sz
  end.

(* ... and the destination holds at least what was there before (minus the dot a finishing activation turns into NUL) *)
Definition name_res_ok2 (sz : N) (acc : bytes) (no : N) (r : outcome (bytes * N * N)) : Prop :=
  match r with
  | Bad _ => False
  | Err => True
  | Ok (nm, off', _) => off' <= sz /\ lenN acc <= lenN nm + (if no =? 0 then 0 else 1)
  end.

Lemma name_finish_safe acc no ns cap off rdl sz :
  no <= ns -> ns <= cap -> 0 < ns -> off <= sz -> name_res_ok2 sz acc no (name_finish acc no ns cap off rdl).
Proof.
  intros H1 H2 H3 H4. unfold name_finish.
  destruct (no =? 0) eqn:E0.
  - destruct (cap =? 0) eqn:E1; [lia|]. cbn [name_res_ok2]. rewrite E0. lia.
  - destruct (cap <? no) eqn:E1; [lia|]. destruct (ns <? no) eqn:E2; [lia|].
    cbn [name_res_ok2]. rewrite E0, lenN_removelast. lia.
Qed.

Lemma name_loop_safe2 : forall fuel buf off rdl acc no ns cap rdepth,
  no < ns -> ns <= cap ->
  (ns - no) + (66 - rdepth) < N.of_nat fuel ->
  name_res_ok2 (lenN buf) acc no (name_loop fuel buf (lenN buf) off rdl acc no ns cap rdepth).
Proof.
  induction fuel as [|f IH]; intros buf off rdl acc no ns cap rdepth Hno Hcap Hfuel; [lia|].
  cbn [name_loop].
  destruct (lenN buf <=? off) eqn:Eoff; [exact I|].
  destruct (nthN_some buf off) as [c Hc]; [lia|]. rewrite Hc.
  destruct (191 <? c) eqn:Eptr.
  - destruct (64 <? rdepth) eqn:Erd; [exact I|].
    unfold dns_sizeof_ushort.
    destruct (lenN buf <? off + 2) eqn:Esz; [exact I|].
    destruct (rd16_some buf off) as [s Hs]; [lia|]. rewrite Hs.
    destruct (lenN buf <=? s mod 16384) eqn:Ep; [exact I|].
    destruct (ns <? no) eqn:E1; [lia|].
    destruct (cap <? no) eqn:E2; [lia|].
    destruct (ns - no =? 0) eqn:E3; [lia|].
    specialize (IH buf (s mod 16384) rdl acc 0 (ns - no) (cap - no) (rdepth + 1)).
    assert (H0 : 0 < ns - no) by lia.
    assert (H1 : ns - no <= cap - no) by lia.
    assert (H2 : (ns - no - 0) + (66 - (rdepth + 1)) < N.of_nat f) by lia.
    specialize (IH H0 H1 H2).
    destruct (name_loop f buf (lenN buf) (s mod 16384) rdl acc 0 (ns - no) (cap - no) (rdepth + 1)) as [[[nm o'] r']| |b];
      cbn [name_res_ok2] in *; [|exact I|exact IH].
    destruct IH as [_ IHlen]. change (0 =? 0) with true in IHlen. cbv iota in IHlen.
    destruct (0 <? no) eqn:Eno.
    + destruct (cap <=? no) eqn:E4; [lia|].
      destruct (nthN_some (nm ++ [0]) (lenN acc)) as [b0 Hb0]; [rewrite lenN_app; cbn [lenN]; lia|].
      rewrite Hb0. destruct (no =? 0) eqn:En0; [lia|].
      destruct (b0 =? 0); cbn [name_res_ok2]; rewrite En0; [|lia].
      destruct (lenN nm =? lenN acc); [rewrite lenN_removelast|rewrite lenN_setN]; lia.
    + cbn [name_res_ok2]. destruct (no =? 0); lia.
  - unfold dns_MAXLABELSZ.
    destruct (63 <? c) eqn:Elab; [exact I|].
    destruct (c =? 0) eqn:Ec0.
    + apply name_finish_safe; lia.
    + destruct (ns <? no + 1) eqn:E1; [lia|].
      destruct (ns - no - 1 <? c) eqn:E2; [exact I|].
      destruct (lenN buf <=? off + 1 + c) eqn:E3; [exact I|].
      destruct (rd_range_some buf (off + 1) c) as [lbl Hl]; [lia|]. rewrite Hl.
      destruct (cap <? no + c + 1) eqn:E4; [lia|].
      assert (Hacc : lenN acc + 1 <= lenN (acc ++ lbl ++ [46])) by (rewrite !lenN_app; cbn [lenN]; lia).
      assert (Hweak : forall r, name_res_ok2 (lenN buf) (acc ++ lbl ++ [46]) (no + c + 1) r -> name_res_ok2 (lenN buf) acc no r).
      { intros [[[nm o'] r']| |b]; cbn [name_res_ok2]; try tauto.
        destruct (no + c + 1 =? 0) eqn:E9; [lia|]. destruct (no =? 0); lia. }
      apply Hweak.
      destruct (no + c + 1 <? ns) eqn:E5.
      * apply IH; lia.
      * apply name_finish_safe; lia.
Qed.

Lemma name_res_ok2_weaken sz acc no r : name_res_ok2 sz acc no r -> name_res_ok sz r.
Proof. destruct r as [[[nm o'] r']| |b]; cbn [name_res_ok2 name_res_ok]; tauto. Qed.

Lemma name_loop_safe : forall fuel buf off rdl acc no ns cap rdepth,
  no < ns -> ns <= cap ->
  (ns - no) + (66 - rdepth) < N.of_nat fuel ->
  name_res_ok (lenN buf) (name_loop fuel buf (lenN buf) off rdl acc no ns cap rdepth).
Proof. intros. eapply name_res_ok2_weaken. apply name_loop_safe2; assumption. Qed.

Lemma name_unpack_safe buf off ns cap rdepth :
  0 < ns -> ns <= cap -> name_res_ok (lenN buf) (name_unpack buf (lenN buf) off ns cap rdepth).
Proof.
  intros Hns Hcap. unfold name_unpack. destruct (ns =? 0) eqn:E; [lia|].
  apply name_loop_safe; [lia|lia|]. unfold name_fuel. lia.
Qed.

Definition res_ok {A} (sz : N) (r : outcome (A * N)) : Prop :=
  match r with Bad _ => False | Err => True | Ok (_, off') => off' <= sz end.

Lemma hostsz_pos : 0 < dns_MAXHOSTNAMESZ. Proof. reflexivity. Qed.
Lemma hostsz_query : dns_MAXHOSTNAMESZ <= dns_sizeof_query_name. Proof. discriminate. Qed.
Lemma hostsz_rr : dns_MAXHOSTNAMESZ <= dns_sizeof_rr_name. Proof. discriminate. Qed.

Lemma query_unpack_safe buf off : res_ok (lenN buf) (query_unpack buf (lenN buf) off).
Proof.
  unfold query_unpack.
  pose proof (name_unpack_safe buf off dns_MAXHOSTNAMESZ dns_sizeof_query_name 0 hostsz_pos hostsz_query) as H.
  destruct (name_unpack buf (lenN buf) off dns_MAXHOSTNAMESZ dns_sizeof_query_name 0) as [[[nm off1] r]| |b];
    cbn [name_res_ok res_ok] in *; [|exact I|exact H].
  destruct (lenN buf <? off1 + 4) eqn:E; [exact I|].
  destruct (rd16_some buf off1) as [t Ht]; [lia|].
  destruct (rd16_some buf (off1 + 2)) as [c Hc]; [lia|].
  rewrite Ht, Hc. cbn [res_ok]. lia.
Qed.

Lemma rr_unpack_safe buf off : res_ok (lenN buf) (rr_unpack buf (lenN buf) off).
Proof.
  unfold rr_unpack.
  pose proof (name_unpack_safe buf off dns_MAXHOSTNAMESZ dns_sizeof_rr_name 0 hostsz_pos hostsz_rr) as H.
  destruct (name_unpack buf (lenN buf) off dns_MAXHOSTNAMESZ dns_sizeof_rr_name 0) as [[[nm off1] r]| |b];
    cbn [name_res_ok res_ok] in *; [|exact I|exact H].
  destruct (lenN buf <? off1 + 10) eqn:E; [exact I|].
  destruct (rd16_some buf off1) as [ty Hty]; [lia|].
  destruct (rd16_some buf (off1 + 2)) as [cl Hcl]; [lia|].
  destruct (rd32_some buf (off1 + 4)) as [ttl Httl]; [lia|].
  destruct (rd16_some buf (off1 + 8)) as [rdl Hrdl]; [lia|].
  rewrite Hty, Hcl, Httl, Hrdl.
  destruct (lenN buf <? off1 + 10 + rdl) eqn:E2; [exact I|].
  destruct (ty =? dns_TYPE_PTR) eqn:Ety.
  - pose proof (name_unpack_safe buf (off1 + 10) dns_MAXHOSTNAMESZ dns_MAXHOSTNAMESZ 0 hostsz_pos (N.le_refl _)) as H2.
    destruct (name_unpack buf (lenN buf) (off1 + 10) dns_MAXHOSTNAMESZ dns_MAXHOSTNAMESZ 0) as [[[pn o2] r2]| |b];
      cbn [name_res_ok res_ok] in *; [|exact I|exact H2].
    destruct (off1 + 10 + rdl <? o2) eqn:E3; [exact I|].
    cbn [res_ok]. lia.
  - destruct (rd_range_some buf (off1 + 10) rdl) as [d Hd]; [lia|]. rewrite Hd. cbn [res_ok]. lia.
Qed.

Definition list_res_ok {A} (r : outcome (list A)) : Prop :=
  match r with Bad _ => False | Err => False | Ok _ => True end.

Lemma rrs_loop_safe n buf off : list_res_ok (rrs_loop n buf (lenN buf) off).
Proof.
  revert off. induction n as [|k IH]; intros off; cbn [rrs_loop]; [exact I|].
  destruct (lenN buf <=? off) eqn:E; [exact I|].
  pose proof (rr_unpack_safe buf off) as H.
  destruct (rr_unpack buf (lenN buf) off) as [[r off']| |b]; cbn [res_ok] in H; [|exact I|exact H].
  specialize (IH off').
  destruct (rrs_loop k buf (lenN buf) off') as [l| |b]; cbn [list_res_ok] in *; [exact I|exact IH|exact IH].
Qed.

Lemma rrs_loop_count n buf sz off l : rrs_loop n buf sz off = Ok l -> lenN l <= N.of_nat n.
Proof.
  revert off l. induction n as [|k IH]; intros off l H; cbn [rrs_loop] in H.
  - injection H as <-. cbn [lenN]. lia.
  - destruct (sz <=? off); [injection H as <-; cbn [lenN]; lia|].
    destruct (rr_unpack buf sz off) as [[r off']| |b]; [|injection H as <-; cbn [lenN]; lia|discriminate].
    destruct (rrs_loop k buf sz off') as [l'| |b] eqn:E; try discriminate.
    injection H as <-. apply IH in E. cbn [lenN]. lia.
Qed.

Lemma header_unpack_safe buf : match header_unpack buf (lenN buf) with Bad _ => False | _ => True end.
Proof.
  unfold header_unpack. destruct (lenN buf <? 12) eqn:E; [exact I|].
  destruct (rd16_some buf 0) as [a Ha]; [lia|].
  destruct (rd16_some buf 2) as [b Hb]; [lia|].
  destruct (rd16_some buf 4) as [c Hc]; [lia|].
  destruct (rd16_some buf 6) as [d Hd]; [lia|].
  destruct (rd16_some buf 8) as [e He]; [lia|].
  destruct (rd16_some buf 10) as [f Hf]; [lia|].
  rewrite Ha, Hb, Hc, Hd, He, Hf. exact I.
Qed.

(* what a caller may rely on for ANY datagram *)
Definition unpacked_sane (u : unpacked) : Prop :=
  match u with
  | UFail => True
  | URcode h q => h_qd h = 1 /\ h_rcode h <> 0
  | UAnswers h q rrs => h_qd h = 1 /\ h_rcode h = 0 /\ lenN rrs <= h_an h /\ (h_an h <> 0 -> rrs <> [])
  end.

Theorem message_unpack_total : forall buf, exists u, message_unpack buf = Ok u /\ unpacked_sane u.
Proof.
  intros buf. unfold message_unpack.
  pose proof (header_unpack_safe buf) as Hh.
  destruct (header_unpack buf (lenN buf)) as [h| |b]; [|eexists; split; [reflexivity|exact I]|contradiction].
  destruct (h_qd h =? 1) eqn:Eqd; cbn [negb]; [|eexists; split; [reflexivity|exact I]].
  pose proof (query_unpack_safe buf 12) as Hq.
  destruct (query_unpack buf (lenN buf) 12) as [[q off]| |b]; cbn [res_ok] in Hq;
    [|eexists; split; [reflexivity|exact I]|contradiction].
  destruct (h_rcode h =? 0) eqn:Erc; cbn [negb].
  2:{ eexists; split; [reflexivity|]. cbn [unpacked_sane]. lia. }
  destruct (h_an h =? 0) eqn:Ean.
  { eexists; split; [reflexivity|]. cbn [unpacked_sane lenN]. repeat split; try lia. }
  pose proof (rrs_loop_safe (N.to_nat (h_an h)) buf off) as Hl.
  destruct (rrs_loop (N.to_nat (h_an h)) buf (lenN buf) off) as [l| |b] eqn:El; cbn [list_res_ok] in Hl; try contradiction.
  apply rrs_loop_count in El.
  destruct l as [|r l]; [eexists; split; [reflexivity|exact I]|].
  eexists; split; [reflexivity|]. cbn [unpacked_sane]. repeat split; try lia. discriminate.
Qed.

(* ================= Part B: names laid out in a datagram decode to their labels ================= *)
(* Specification vocabulary (independent of the decoder): `name_at buf d off labels e` — the datagram holds at
   offset `off` an RFC 1035 encoding of the name `labels`: labels stored in line, ended either by the root label or
   by a compression pointer to an offset where the REST of the name (possibly nothing but the root label) is encoded;
   at most `d` pointers in a row are followed; `e` is the offset behind the part stored in line. *)
Inductive name_at (buf : bytes) : nat -> N -> list bytes -> N -> Prop :=
| na_root : forall d off, nthN off buf = Some 0 -> name_at buf d off [] (off + 1)
| na_label : forall d off l rest e,
    1 <= lenN l -> lenN l <= 63 ->
    nthN off buf = Some (lenN l) ->
    rd_range buf (off + 1) (lenN l) = Some l ->
    name_at buf d (off + 1 + lenN l) rest e ->
    name_at buf d off (l :: rest) e
| na_ptr : forall d off a b labels e',
    nthN off buf = Some a -> 191 < a -> nthN (off + 1) buf = Some b ->
    name_at buf d ((a * 256 + b) mod 16384) labels e' ->
    name_at buf (S d) off labels (off + 2).

(* octets the labels occupy in a name buffer / on the wire without the root: sum of (length + 1) *)
Fixpoint wire (labels : list bytes) : N :=
  match labels with [] => 0 | l :: r => lenN l + 1 + wire r end.

Fixpoint dotted (labels : list bytes) : bytes :=
  match labels with [] => [] | l :: r => l ++ [46] ++ dotted r end.

Lemma name_at_start buf d off labels e : name_at buf d off labels e -> off < lenN buf.
Proof. intros H. destruct H; eapply nthN_in_range; eassumption. Qed.

Lemma name_at_labels_nonempty buf d off labels e :
  name_at buf d off labels e -> Forall (fun l => 1 <= lenN l) labels.
Proof. induction 1; [constructor|constructor; assumption|assumption]. Qed.

Lemma removelast_dotted acc l r : removelast (acc ++ dotted (l :: r)) = acc ++ join_dots (l :: r).
Proof.
  revert acc l. induction r as [|l2 r IH]; intros acc l.
  - cbn [dotted join_dots app]. rewrite app_assoc. apply removelast_last.
  - change (dotted (l :: l2 :: r)) with (l ++ [46] ++ dotted (l2 :: r)).
    change (join_dots (l :: l2 :: r)) with (l ++ [46] ++ join_dots (l2 :: r)).
    rewrite !app_assoc. rewrite <- (app_assoc acc l [46]). rewrite (IH (acc ++ l ++ [46]) l2).
    reflexivity.
Qed.

(* the destination contents the decoder must produce *)
Definition name_result (acc : bytes) (no : N) (labels : list bytes) : bytes :=
  match labels with
  | [] => if no =? 0 then acc else removelast acc
  | _ => removelast (acc ++ dotted labels)
  end.

Lemma nthN_mid {A} (a : list A) x b : nthN (lenN a) (a ++ x :: b) = Some x.
Proof. rewrite nthN_app_r by lia. rewrite N.sub_diag. reflexivity. Qed.

Lemma name_loop_decodes : forall buf d off labels e,
  name_at buf d off labels e ->
  forall fuel rdl acc no ns cap rdepth,
    labels_nz labels ->
    no + wire labels < ns -> ns <= cap ->
    N.of_nat d + rdepth <= 65 ->
    rdl + wire labels < 65536 ->
    (ns - no) + (66 - rdepth) < N.of_nat fuel ->
    name_loop fuel buf (lenN buf) off rdl acc no ns cap rdepth =
    Ok (name_result acc no labels, e, rdl + wire labels).
Proof.
  intros buf d off labels e H.
  induction H as [d off Hc | d off l rest e Hl1 Hl2 Hc Hr Hrest IH | d off a b labels e' Ha Hgt Hb Htgt IH];
    intros fuel rdl acc no ns cap rdepth Hnz Hfit Hcap Hdepth Hrdl Hfuel;
    (destruct fuel as [|f]; [lia|]); cbn [name_loop].
  - (* root label *)
    pose proof (nthN_in_range _ _ _ Hc) as Hin.
    destruct (lenN buf <=? off) eqn:E0; [lia|]. rewrite Hc.
    cbn [wire] in *.
    change (191 <? 0) with false. cbv iota.
    change (dns_MAXLABELSZ <? 0) with false. cbv iota.
    change (0 =? 0) with true. cbv iota.
    unfold name_finish, name_result.
    destruct (no =? 0) eqn:En.
    + destruct (cap =? 0) eqn:Ec; [lia|]. repeat f_equal; lia.
    + destruct (cap <? no) eqn:Ec; [lia|]. destruct (ns <? no) eqn:Ec2; [lia|]. repeat f_equal; lia.
  - (* a label *)
    pose proof (nthN_in_range _ _ _ Hc) as Hin.
    pose proof (name_at_start _ _ _ _ _ Hrest) as Hnext.
    inversion Hnz as [|? ? Hnzl Hnzr]; subst.
    destruct (lenN buf <=? off) eqn:E0; [lia|]. rewrite Hc.
    cbn [wire] in *.
    destruct (191 <? lenN l) eqn:E1; [lia|].
    unfold dns_MAXLABELSZ. destruct (63 <? lenN l) eqn:E2; [lia|].
    destruct (lenN l =? 0) eqn:E3; [lia|].
    destruct (ns <? no + 1) eqn:E4; [lia|].
    destruct (ns - no - 1 <? lenN l) eqn:E5; [lia|].
    destruct (lenN buf <=? off + 1 + lenN l) eqn:E6; [lia|].
    rewrite Hr.
    destruct (cap <? no + lenN l + 1) eqn:E7; [lia|].
    destruct (no + lenN l + 1 <? ns) eqn:E8; [|lia].
    assert (Hm : (rdl + lenN l + 1) mod 65536 = rdl + lenN l + 1) by (apply N.mod_small; lia).
    rewrite Hm.
    rewrite (IH f (rdl + lenN l + 1) (acc ++ l ++ [46]) (no + lenN l + 1) ns cap rdepth) by (try assumption; lia).
    f_equal. f_equal; [|lia]. f_equal.
    unfold name_result.
    destruct (no + lenN l + 1 =? 0) eqn:E9; [lia|].
    destruct rest as [|l2 rest].
    + cbn [dotted app]. reflexivity.
    + change (dotted (l :: l2 :: rest)) with (l ++ [46] ++ dotted (l2 :: rest)).
      rewrite !app_assoc. reflexivity.
  - (* a compression pointer *)
    pose proof (nthN_in_range _ _ _ Hb) as Hin.
    pose proof (name_at_start _ _ _ _ _ Htgt) as Hp.
    pose proof (name_at_labels_nonempty _ _ _ _ _ Htgt) as Hne.
    destruct (lenN buf <=? off) eqn:E0; [lia|]. rewrite Ha.
    destruct (191 <? a) eqn:Eg; [|lia].
    destruct (64 <? rdepth) eqn:E1; [lia|].
    unfold dns_sizeof_ushort.
    destruct (lenN buf <? off + 2) eqn:E2; [lia|].
    unfold rd16. rewrite Ha, Hb.
    destruct (lenN buf <=? (a * 256 + b) mod 16384) eqn:E3; [lia|].
    destruct (ns <? no) eqn:E4; [lia|].
    destruct (cap <? no) eqn:E5; [lia|].
    destruct (ns - no =? 0) eqn:E6; [lia|].
    rewrite (IH f rdl acc 0 (ns - no) (cap - no) (rdepth + 1)) by (try assumption; lia).
    destruct (0 <? no) eqn:Eno.
    + (* the fix-up after the recursive call *)
      destruct (cap <=? no) eqn:E7; [lia|].
      destruct (no =? 0) eqn:En0; [lia|].
      destruct labels as [|l r].
      * (* the pointer led to the root label: the dot behind our last label goes *)
        cbn [name_result]. change (0 =? 0) with true. cbv iota.
        rewrite nthN_mid. change (0 =? 0) with true. cbv iota.
        rewrite N.eqb_refl. rewrite En0. reflexivity.
      * inversion Hne as [|? ? Hl1 _]; subst. inversion Hnz as [|? ? Hnzl _]; subst.
        destruct l as [|x l']; [cbn [lenN] in Hl1; lia|].
        cbn [forallb] in Hnzl. apply andb_prop in Hnzl as [Hx _]. unfold nz in Hx.
        unfold name_result. rewrite (removelast_dotted acc (x :: l') r).
        destruct (x =? 0) eqn:Ex; [discriminate|].
        destruct r as [|l2 r']; cbn [join_dots]; rewrite <- ?app_assoc; cbn [app];
          rewrite nthN_mid, Ex; reflexivity.
    + assert (no = 0) by lia. subst no.
      unfold name_result. destruct labels; reflexivity.
Qed.

Theorem name_unpack_decodes : forall buf d off labels e ns cap,
  name_at buf d off labels e -> labels_nz labels ->
  (d <= 65)%nat -> wire labels < ns -> ns <= cap -> ns <= 65536 ->
  name_unpack buf (lenN buf) off ns cap 0 = Ok (join_dots labels, e, wire labels).
Proof.
  intros buf d off labels e ns cap H Hnz Hd Hw Hcap Hns.
  unfold name_unpack. destruct (ns =? 0) eqn:E; [lia|].
  rewrite (name_loop_decodes buf d off labels e H) by (try assumption; unfold name_fuel; lia).
  replace (0 + wire labels) with (wire labels) by lia.
  unfold name_result. destruct labels as [|l r]; [reflexivity|].
  rewrite (removelast_dotted [] l r). reflexivity.
Qed.

(* regression for the repaired defect: labels followed by a pointer to a root label lose their dot *)
Definition ptr_root_buf : bytes := [22;246;129;128;0;1;0;0;0;0;0;0; 3;119;119;119;192;4; 0;1;0;1].

Lemma ptr_root_layout : name_at ptr_root_buf 1 12 [[119;119;119]] 18.
Proof.
  apply na_label with (l := [119;119;119]); try (cbn; lia); try reflexivity.
  apply (na_ptr ptr_root_buf 0 16 192 4 [] 5); try reflexivity.
  apply (na_root ptr_root_buf 0 4). reflexivity.
Qed.

(* ================= Part C: messages laid out in a datagram decode to what was encoded ================= *)
(* the text form is a C string (no NUL octet inside a label) *)
Definition text_ok (labels : list bytes) : Prop := cstr (join_dots labels) = join_dots labels.

Definition header_wf (h : header) : Prop :=
  h_id h < 65536 /\ h_qr h < 2 /\ h_opcode h < 16 /\ h_aa h < 2 /\ h_tc h < 2 /\ h_rd h < 2 /\ h_ra h < 2 /\
  h_rcode h < 16 /\ h_qd h < 65536 /\ h_an h < 65536 /\ h_ns h < 65536 /\ h_ar h < 65536.

(* header with the reserved Z bits set to z *)
Definition enc_header_z (h : header) (z : N) : bytes :=
  be16 (h_id h) ++
  be16 (h_qr h * 32768 + h_opcode h * 2048 + h_aa h * 1024 + h_tc h * 512 + h_rd h * 256 + h_ra h * 128 + z * 16 + h_rcode h) ++
  be16 (h_qd h) ++ be16 (h_an h) ++ be16 (h_ns h) ++ be16 (h_ar h).

Definition hdr_at (buf : bytes) (h : header) : Prop :=
  header_wf h /\ exists z, z < 8 /\ takeN 12 buf = enc_header_z h z.

Definition rr_at (buf : bytes) (off : N) (r : rr) (off' : N) : Prop :=
  exists d labels e rdlen,
    name_at buf d off labels e /\ (d <= 65)%nat /\ wire labels < 256 /\ text_ok labels /\
    rr_name r = join_dots labels /\
    rd16 buf e = Some (rr_type r) /\ rd16 buf (e + 2) = Some (rr_class r) /\
    rd32 buf (e + 4) = Some (rr_ttl r) /\ rd16 buf (e + 8) = Some rdlen /\
    off' = e + 10 + rdlen /\ off' <= lenN buf /\
    if rr_type r =? dns_TYPE_PTR then
      exists pd pl pe, name_at buf pd (e + 10) pl pe /\ (pd <= 65)%nat /\ wire pl < 256 /\ text_ok pl /\
        pe <= off' /\ rr_rdata r = join_dots pl /\ rr_rdlength r = wire pl
    else rd_range buf (e + 10) rdlen = Some (rr_rdata r) /\ rr_rdlength r = rdlen.

Inductive rrs_at (buf : bytes) : N -> list rr -> N -> Prop :=
| rrs_at_nil : forall off, rrs_at buf off [] off
| rrs_at_cons : forall off r off1 rest off2,
    rr_at buf off r off1 -> rrs_at buf off1 rest off2 -> rrs_at buf off (r :: rest) off2.

Definition msg_at (buf : bytes) (h : header) (q : query) (rrs : list rr) : Prop :=
  hdr_at buf h /\ h_qd h = 1 /\
  exists d ql e,
    name_at buf d 12 ql e /\ (d <= 65)%nat /\ wire ql < 256 /\ text_ok ql /\
    q_name q = join_dots ql /\ rd16 buf e = Some (q_type q) /\ rd16 buf (e + 2) = Some (q_class q) /\
    (h_rcode h = 0 -> exists eoff, rrs_at buf (e + 4) rrs eoff /\ lenN rrs = h_an h).

Lemma text_ok_nz labels : text_ok labels -> labels_nz labels.
Proof. intros H. apply join_dots_nz_inv. apply cstr_fix_nz. exact H. Qed.

Lemma hostsz_256 : dns_MAXHOSTNAMESZ = 256. Proof. reflexivity. Qed.
Lemma qname_256 : dns_sizeof_query_name = 256. Proof. reflexivity. Qed.
Lemma rrname_256 : dns_sizeof_rr_name = 256. Proof. reflexivity. Qed.

Lemma rd16_in_range buf off v : rd16 buf off = Some v -> off + 2 <= lenN buf.
Proof.
  unfold rd16. destruct (nthN off buf) eqn:E1; [|discriminate].
  destruct (nthN (off + 1) buf) eqn:E2; [|discriminate]. intros _.
  apply nthN_in_range in E2. lia.
Qed.

Lemma rr_unpack_at buf off r off' : rr_at buf off r off' -> rr_unpack buf (lenN buf) off = Ok (r, off').
Proof.
  intros (d & labels & e & rdlen & Hn & Hd & Hw & Htxt & Hname & Hty & Hcl & Httl & Hrdl & Hoff & Hin & Hrd).
  unfold rr_unpack.
  rewrite (name_unpack_decodes buf d off labels e dns_MAXHOSTNAMESZ dns_sizeof_rr_name Hn (text_ok_nz _ Htxt) Hd)
    by (rewrite ?hostsz_256, ?rrname_256; lia).
  destruct (lenN buf <? e + 10) eqn:E1; [lia|].
  rewrite Hty, Hcl, Httl, Hrdl.
  destruct (lenN buf <? e + 10 + rdlen) eqn:E2; [lia|].
  destruct r as [rn rt rc rtl rl rd]. cbn [rr_name rr_type rr_class rr_ttl rr_rdlength rr_rdata] in *.
  destruct (rt =? dns_TYPE_PTR) eqn:Ety.
  - destruct Hrd as (pd & pl & pe & Hpn & Hpd & Hpw & Hptxt & Hpe & Hrdata & Hrlen).
    rewrite (name_unpack_decodes buf pd (e + 10) pl pe dns_MAXHOSTNAMESZ dns_MAXHOSTNAMESZ Hpn (text_ok_nz _ Hptxt) Hpd)
      by (rewrite ?hostsz_256; lia).
    destruct (e + 10 + rdlen <? pe) eqn:E3; [lia|].
    unfold text_ok in *. rewrite Htxt, Hptxt. subst. reflexivity.
  - destruct Hrd as (Hrdata & Hrlen). rewrite Hrdata.
    unfold text_ok in *. rewrite Htxt. subst. reflexivity.
Qed.

Lemma rr_at_start buf off r off' : rr_at buf off r off' -> off < lenN buf.
Proof. intros (d & labels & e & rdlen & Hn & _). eapply name_at_start; exact Hn. Qed.

Lemma rrs_loop_at buf off rrs eoff :
  rrs_at buf off rrs eoff -> rrs_loop (N.to_nat (lenN rrs)) buf (lenN buf) off = Ok rrs.
Proof.
  intros H. induction H as [off | off r off1 rest off2 Hr Hrest IH]; [reflexivity|].
  cbn [lenN]. rewrite N2Nat.inj_succ. cbn [rrs_loop].
  pose proof (rr_at_start _ _ _ _ Hr) as Hs.
  destruct (lenN buf <=? off) eqn:E; [lia|].
  rewrite (rr_unpack_at _ _ _ _ Hr), IH. reflexivity.
Qed.

Lemma be16_rd a b : a < 256 -> b < 256 -> forall v, v < 65536 -> [a; b] = be16 v -> a * 256 + b = v.
Proof.
  intros Ha Hb v Hv H. unfold be16 in H. injection H as H1 H2. subst a b.
  Ltac Zify.zify_post_hook ::= Z.div_mod_to_equations. lia.
Qed.

Lemma takeN_nth {A} (l : list A) k i : i < k -> nthN i (takeN k l) = nthN i l.
Proof.
  revert k i. induction l as [|x l IH]; intros k i Hi; cbn [takeN nthN]; [reflexivity|].
  destruct (k =? 0) eqn:Ek; [lia|]. cbn [nthN].
  destruct (i =? 0) eqn:E; [reflexivity|]. apply IH. lia.
Qed.

Lemma header_unpack_at buf h : hdr_at buf h -> header_unpack buf (lenN buf) = Ok h.
Proof.
  intros (Hwf & z & Hz & Ht).
  destruct Hwf as (H1 & H2 & H3 & H4 & H5 & H6 & H7 & H8 & H9 & H10 & H11 & H12).
  assert (Hnth : forall i, i < 12 -> nthN i buf = nthN i (enc_header_z h z)).
  { intros i Hi. rewrite <- Ht. symmetry. apply takeN_nth. exact Hi. }
  assert (Hlen : 12 <= lenN buf).
  { assert (E : nthN 11 buf = nthN 11 (enc_header_z h z)) by (apply Hnth; lia).
    unfold enc_header_z, be16 in E. cbn [app nthN N.eqb N.pred Pos.pred_N Pos.pred_double] in E.
    apply nthN_in_range in E. lia. }
  unfold header_unpack. destruct (lenN buf <? 12) eqn:E; [lia|].
  unfold rd16.
  rewrite !Hnth by lia.
  unfold enc_header_z, be16.
  cbn [app nthN N.eqb N.pred N.add Pos.add Pos.succ Pos.pred_N Pos.pred_double].
  destruct h as [id qr op aa tc rd ra rc qd an ns ar].
  cbn [h_id h_qr h_opcode h_aa h_tc h_rd h_ra h_rcode h_qd h_an h_ns h_ar] in *.
  f_equal.
  Ltac Zify.zify_post_hook ::= Z.div_mod_to_equations.
  f_equal; lia.
Qed.

Theorem message_unpack_at : forall buf h q rrs,
  msg_at buf h q rrs ->
  message_unpack buf = Ok (if h_rcode h =? 0 then UAnswers h q rrs else URcode h q).
Proof.
  intros buf h q rrs (Hh & Hqd & d & ql & e & Hn & Hd & Hw & Htxt & Hqn & Hqt & Hqc & Hrrs).
  unfold message_unpack. rewrite (header_unpack_at _ _ Hh).
  rewrite Hqd. cbn [N.eqb Pos.eqb negb].
  unfold query_unpack.
  rewrite (name_unpack_decodes buf d 12 ql e dns_MAXHOSTNAMESZ dns_sizeof_query_name Hn (text_ok_nz _ Htxt) Hd)
    by (rewrite ?hostsz_256, ?qname_256; lia).
  pose proof (rd16_in_range _ _ _ Hqc) as Hin.
  destruct (lenN buf <? e + 4) eqn:E1; [lia|].
  rewrite Hqt, Hqc.
  assert (Hq : mkQ (cstr (join_dots ql)) (q_type q) (q_class q) = q).
  { unfold text_ok in Htxt. rewrite Htxt. destruct q; cbn in *; subst; reflexivity. }
  rewrite Hq.
  destruct (h_rcode h =? 0) eqn:Erc; cbn [negb]; [|reflexivity].
  destruct Hrrs as (eoff & Hat & Hlen); [lia|].
  destruct (h_an h =? 0) eqn:Ean.
  - destruct rrs; [reflexivity|cbn [lenN] in Hlen; lia].
  - rewrite <- Hlen. rewrite (rrs_loop_at _ _ _ _ Hat).
    destruct rrs; [cbn [lenN] in Hlen; lia|reflexivity].
Qed.

(* ================= Part C2: the reference encoders produce such layouts ================= *)
Definition labels_wf (labels : list bytes) : Prop := Forall (fun l => 1 <= lenN l /\ lenN l <= 63) labels.

Lemma lenN_be16 v : lenN (be16 v) = 2. Proof. reflexivity. Qed.
Lemma lenN_be32 v : lenN (be32 v) = 4. Proof. reflexivity. Qed.

Lemma lenN_enc_labels labels : lenN (enc_labels labels) = wire labels.
Proof.
  induction labels as [|l r IH]; [reflexivity|].
  cbn [enc_labels wire lenN]. rewrite lenN_app, IH. lia.
Qed.

Lemma lenN_enc_name labels : lenN (enc_name labels) = wire labels + 1.
Proof. unfold enc_name. rewrite lenN_app, lenN_enc_labels. reflexivity. Qed.

Lemma nthN_at {A} (buf a : list A) x b off : buf = a ++ x :: b -> off = lenN a -> nthN off buf = Some x.
Proof.
  intros -> ->. rewrite nthN_app_r by lia. rewrite N.sub_diag. reflexivity.
Qed.

Lemma rd_range_at buf a d b off n : buf = a ++ d ++ b -> off = lenN a -> n = lenN d -> rd_range buf off n = Some d.
Proof.
  intros -> -> ->. unfold rd_range. rewrite !lenN_app.
  destruct (lenN a + lenN d <=? lenN a + (lenN d + lenN b)) eqn:E; [|lia].
  rewrite dropN_app_len, takeN_app_len. reflexivity.
Qed.

Lemma rd16_at buf a v b off : buf = a ++ be16 v ++ b -> off = lenN a -> v < 65536 -> rd16 buf off = Some v.
Proof.
  intros -> -> Hv. unfold rd16.
  rewrite (nthN_at _ a ((v / 256) mod 256) (v mod 256 :: b) (lenN a)) by reflexivity.
  rewrite (nthN_at _ (a ++ [(v / 256) mod 256]) (v mod 256) b (lenN a + 1)).
  - f_equal. Ltac Zify.zify_post_hook ::= Z.div_mod_to_equations. lia.
  - rewrite <- app_assoc. reflexivity.
  - rewrite lenN_app. reflexivity.
Qed.

Lemma rd32_at buf a v b off : buf = a ++ be32 v ++ b -> off = lenN a -> v < 4294967296 -> rd32 buf off = Some v.
Proof.
  intros -> -> Hv. unfold rd32, be32.
  rewrite (rd16_at _ a ((v / 65536) mod 65536) (be16 (v mod 65536) ++ b) (lenN a)).
  - rewrite (rd16_at _ (a ++ be16 ((v / 65536) mod 65536)) (v mod 65536) b (lenN a + 2)).
    + f_equal. Ltac Zify.zify_post_hook ::= Z.div_mod_to_equations. lia.
    + rewrite <- !app_assoc. reflexivity.
    + rewrite lenN_app, lenN_be16. reflexivity.
    + apply N.mod_lt. discriminate.
  - rewrite <- !app_assoc. reflexivity.
  - reflexivity.
  - apply N.mod_lt. discriminate.
Qed.

Lemma name_at_enc_labels : forall labels buf pre post,
  labels_wf labels ->
  buf = pre ++ enc_labels labels ++ 0 :: post ->
  name_at buf 0 (lenN pre) labels (lenN pre + wire labels + 1).
Proof.
  induction labels as [|l r IH]; intros buf pre post Hwf Hbuf.
  - cbn [enc_labels app wire] in *. replace (lenN pre + 0 + 1) with (lenN pre + 1) by lia.
    apply na_root. eapply nthN_at; [exact Hbuf|reflexivity].
  - inversion Hwf as [|? ? [Hl1 Hl2] Hwf']; subst.
    cbn [enc_labels wire].
    apply na_label; try assumption.
    + eapply nthN_at; [|reflexivity]. cbn [app]. reflexivity.
    + apply (rd_range_at _ (pre ++ [lenN l]) l (enc_labels r ++ 0 :: post)).
      * cbn [app]. rewrite <- !app_assoc. cbn [app]. reflexivity.
      * rewrite lenN_app. reflexivity.
      * reflexivity.
    + replace (lenN pre + (lenN l + 1 + wire r) + 1) with (lenN (pre ++ lenN l :: l) + wire r + 1)
        by (rewrite lenN_app; cbn [lenN]; lia).
      replace (lenN pre + 1 + lenN l) with (lenN (pre ++ lenN l :: l)) by (rewrite lenN_app; cbn [lenN]; lia).
      apply (IH _ (pre ++ lenN l :: l) post Hwf').
      cbn [app]. rewrite <- !app_assoc. cbn [app]. reflexivity.
Qed.

Lemma name_at_enc_name labels buf pre post :
  labels_wf labels -> buf = pre ++ enc_name labels ++ post ->
  name_at buf 0 (lenN pre) labels (lenN pre + lenN (enc_name labels)).
Proof.
  intros Hwf ->. rewrite lenN_enc_name. rewrite N.add_assoc.
  apply (name_at_enc_labels labels _ pre post Hwf).
  unfold enc_name. rewrite <- app_assoc. reflexivity.
Qed.

(* a record as the reference encoder sees it *)
Record rrspec := mkRS {
  rs_compress : bool;        (* emit the owner name as a pointer to the question name (offset 12) *)
  rs_owner : list bytes; rs_type : N; rs_class : N; rs_ttl : N;
  rs_target : list bytes;    (* rdata of a PTR record: a domain name *)
  rs_data : bytes }.         (* rdata of any other record (A, AAAA, CNAME, ...): opaque octets *)

Definition enc_rdata (r : rrspec) : bytes :=
  if rs_type r =? dns_TYPE_PTR then enc_name (rs_target r) else rs_data r.

Definition enc_rr (r : rrspec) : bytes :=
  (if rs_compress r then [192; 12] else enc_name (rs_owner r)) ++
  be16 (rs_type r) ++ be16 (rs_class r) ++ be32 (rs_ttl r) ++ be16 (lenN (enc_rdata r)) ++ enc_rdata r.

Definition dec_rr (r : rrspec) : rr :=
  mkRR (join_dots (rs_owner r)) (rs_type r) (rs_class r) (rs_ttl r)
       (if rs_type r =? dns_TYPE_PTR then wire (rs_target r) else lenN (rs_data r))
       (if rs_type r =? dns_TYPE_PTR then join_dots (rs_target r) else rs_data r).

Definition rr_wf (ql : list bytes) (r : rrspec) : Prop :=
  labels_wf (rs_owner r) /\ wire (rs_owner r) < 256 /\ text_ok (rs_owner r) /\
  rs_type r < 65536 /\ rs_class r < 65536 /\ rs_ttl r < 4294967296 /\
  (rs_compress r = true -> rs_owner r = ql /\ ql <> []) /\
  if rs_type r =? dns_TYPE_PTR
  then labels_wf (rs_target r) /\ wire (rs_target r) < 256 /\ text_ok (rs_target r)
  else lenN (rs_data r) < 65536.

Definition enc_msg (h : header) (z : N) (ql : list bytes) (qt qc : N) (rrs : list rrspec) (trailer : bytes) : bytes :=
  enc_header_z h z ++ enc_name ql ++ be16 qt ++ be16 qc ++ concat (map enc_rr rrs) ++ trailer.

Lemma rr_at_enc buf ql qe r pre post :
  name_at buf 0 12 ql qe -> rr_wf ql r ->
  buf = pre ++ enc_rr r ++ post ->
  rr_at buf (lenN pre) (dec_rr r) (lenN pre + lenN (enc_rr r)).
Proof.
  intros Hq (Hwf & Hw & Htxt & Hty & Hcl & Httl & Hcomp & Hrd) Hbuf.
  set (o := if rs_compress r then [192; 12] else enc_name (rs_owner r)) in *.
  assert (Hbuf' : buf = pre ++ o ++ be16 (rs_type r) ++ be16 (rs_class r) ++ be32 (rs_ttl r) ++
                        be16 (lenN (enc_rdata r)) ++ enc_rdata r ++ post).
  { rewrite Hbuf. unfold enc_rr. fold o. rewrite <- !app_assoc. reflexivity. }
  assert (Hlen : lenN (enc_rr r) = lenN o + 10 + lenN (enc_rdata r)).
  { unfold enc_rr. fold o. rewrite !lenN_app, !lenN_be16, lenN_be32. lia. }
  assert (Hname : exists d, name_at buf d (lenN pre) (rs_owner r) (lenN pre + lenN o) /\ (d <= 65)%nat).
  { subst o. destruct (rs_compress r) eqn:Ec.
    - destruct (Hcomp eq_refl) as [Heq Hne]. exists 1%nat. split; [|lia].
      replace (lenN pre + lenN [192; 12]) with (lenN pre + 2) by reflexivity.
      apply (na_ptr buf 0 (lenN pre) 192 12 (rs_owner r) qe).
      + eapply nthN_at; [exact Hbuf'|reflexivity].
      + reflexivity.
      + apply (nthN_at buf (pre ++ [192]) 12 (be16 (rs_type r) ++ be16 (rs_class r) ++ be32 (rs_ttl r) ++
                        be16 (lenN (enc_rdata r)) ++ enc_rdata r ++ post)).
        * rewrite Hbuf'. rewrite <- app_assoc. reflexivity.
        * rewrite lenN_app. reflexivity.
      + rewrite Heq. exact Hq.
    - exists 0%nat. split; [|lia]. apply (name_at_enc_name _ _ pre _ Hwf Hbuf'). }
  destruct Hname as (d & Hn & Hd).
  assert (Hrdl : lenN (enc_rdata r) < 65536).
  { unfold enc_rdata. destruct (rs_type r =? dns_TYPE_PTR); [|exact Hrd].
    destruct Hrd as (_ & Hw2 & _). rewrite lenN_enc_name. lia. }
  exists d, (rs_owner r), (lenN pre + lenN o), (lenN (enc_rdata r)).
  split; [exact Hn|]. split; [exact Hd|]. split; [exact Hw|]. split; [exact Htxt|]. split; [reflexivity|].
  cbn [dec_rr rr_type rr_class rr_ttl rr_rdata rr_rdlength].
  split. { apply (rd16_at buf (pre ++ o) _ (be16 (rs_class r) ++ be32 (rs_ttl r) ++ be16 (lenN (enc_rdata r)) ++ enc_rdata r ++ post));
           [rewrite Hbuf', <- !app_assoc; reflexivity|rewrite lenN_app; reflexivity|exact Hty]. }
  split. { apply (rd16_at buf ((pre ++ o) ++ be16 (rs_type r)) _ (be32 (rs_ttl r) ++ be16 (lenN (enc_rdata r)) ++ enc_rdata r ++ post));
           [rewrite Hbuf', <- !app_assoc; reflexivity|rewrite !lenN_app, lenN_be16; lia|exact Hcl]. }
  split. { apply (rd32_at buf (((pre ++ o) ++ be16 (rs_type r)) ++ be16 (rs_class r)) _ (be16 (lenN (enc_rdata r)) ++ enc_rdata r ++ post));
           [rewrite Hbuf', <- !app_assoc; reflexivity|rewrite !lenN_app, !lenN_be16; lia|exact Httl]. }
  split. { apply (rd16_at buf ((((pre ++ o) ++ be16 (rs_type r)) ++ be16 (rs_class r)) ++ be32 (rs_ttl r)) _ (enc_rdata r ++ post));
           [rewrite Hbuf', <- !app_assoc; reflexivity|rewrite !lenN_app, !lenN_be16, lenN_be32; lia|exact Hrdl]. }
  split; [lia|].
  split. { rewrite Hbuf. rewrite !lenN_app. lia. }
  set (pre5 := ((((pre ++ o) ++ be16 (rs_type r)) ++ be16 (rs_class r)) ++ be32 (rs_ttl r)) ++ be16 (lenN (enc_rdata r))).
  assert (Hbuf5 : buf = pre5 ++ enc_rdata r ++ post).
  { subst pre5. rewrite Hbuf', <- !app_assoc. reflexivity. }
  assert (Hoff5 : lenN pre + lenN o + 10 = lenN pre5).
  { subst pre5. rewrite !lenN_app, !lenN_be16, lenN_be32. lia. }
  unfold enc_rdata in *.
  destruct (rs_type r =? dns_TYPE_PTR) eqn:Ety.
  - destruct Hrd as (Hwf2 & Hw2 & Htxt2).
    exists 0%nat, (rs_target r), (lenN pre5 + lenN (enc_name (rs_target r))).
    split. { rewrite Hoff5. apply (name_at_enc_name _ _ pre5 post Hwf2 Hbuf5). }
    split; [lia|]. split; [exact Hw2|]. split; [exact Htxt2|]. split; [lia|]. split; reflexivity.
  - split; [|reflexivity]. apply (rd_range_at buf pre5 (rs_data r) post); [exact Hbuf5|lia|reflexivity].
Qed.

Lemma rrs_at_enc buf ql qe : name_at buf 0 12 ql qe ->
  forall rrs pre post, Forall (rr_wf ql) rrs ->
  buf = pre ++ concat (map enc_rr rrs) ++ post ->
  rrs_at buf (lenN pre) (map dec_rr rrs) (lenN pre + lenN (concat (map enc_rr rrs))).
Proof.
  intros Hq. induction rrs as [|r rest IH]; intros pre post Hwf Hbuf.
  - cbn [map concat lenN]. rewrite N.add_0_r. constructor.
  - inversion Hwf as [|? ? Hr Hrest]; subst.
    cbn [map concat]. rewrite lenN_app, N.add_assoc.
    apply rrs_at_cons with (off1 := lenN pre + lenN (enc_rr r)).
    + apply (rr_at_enc _ ql qe r pre (concat (map enc_rr rest) ++ post) Hq Hr).
      cbn [map concat]. rewrite <- !app_assoc. reflexivity.
    + rewrite <- lenN_app. apply (IH (pre ++ enc_rr r) post Hrest).
      cbn [map concat]. rewrite <- !app_assoc. reflexivity.
Qed.

Lemma lenN_enc_header_z h z : lenN (enc_header_z h z) = 12. Proof. reflexivity. Qed.

Theorem enc_msg_decodes : forall h z ql qt qc rrs trailer,
  header_wf h -> z < 8 -> h_qd h = 1 -> h_an h = lenN rrs ->
  labels_wf ql -> wire ql < 256 -> text_ok ql -> qt < 65536 -> qc < 65536 ->
  Forall (rr_wf ql) rrs ->
  message_unpack (enc_msg h z ql qt qc rrs trailer) =
  Ok (if h_rcode h =? 0 then UAnswers h (mkQ (join_dots ql) qt qc) (map dec_rr rrs)
      else URcode h (mkQ (join_dots ql) qt qc)).
Proof.
  intros h z ql qt qc rrs trailer Hh Hz Hqd Han Hwf Hw Htxt Hqt Hqc Hrrs.
  set (buf := enc_msg h z ql qt qc rrs trailer).
  assert (Hq : name_at buf 0 12 ql (12 + lenN (enc_name ql))).
  { change 12 with (lenN (enc_header_z h z)).
    apply (name_at_enc_name ql buf (enc_header_z h z) (be16 qt ++ be16 qc ++ concat (map enc_rr rrs) ++ trailer) Hwf).
    reflexivity. }
  apply message_unpack_at.
  split.
  { split; [exact Hh|]. exists z. split; [exact Hz|].
    subst buf. unfold enc_msg.
    rewrite <- (lenN_enc_header_z h z) at 1. apply takeN_app_len. }
  split; [exact Hqd|].
  exists 0%nat, ql, (12 + lenN (enc_name ql)).
  split; [exact Hq|]. split; [lia|]. split; [exact Hw|]. split; [exact Htxt|]. split; [reflexivity|].
  cbn [q_type q_class].
  split. { apply (rd16_at buf (enc_header_z h z ++ enc_name ql) qt (be16 qc ++ concat (map enc_rr rrs) ++ trailer));
           [subst buf; unfold enc_msg; rewrite <- !app_assoc; reflexivity|rewrite lenN_app; reflexivity|exact Hqt]. }
  split. { apply (rd16_at buf ((enc_header_z h z ++ enc_name ql) ++ be16 qt) qc (concat (map enc_rr rrs) ++ trailer));
           [subst buf; unfold enc_msg; rewrite <- !app_assoc; reflexivity|rewrite !lenN_app, lenN_be16; cbn [lenN_enc_header_z]; rewrite lenN_enc_header_z; lia|exact Hqc]. }
  intros _.
  set (pre := ((enc_header_z h z ++ enc_name ql) ++ be16 qt) ++ be16 qc).
  assert (Hpre : 12 + lenN (enc_name ql) + 4 = lenN pre).
  { subst pre. rewrite !lenN_app, !lenN_be16, lenN_enc_header_z. lia. }
  exists (lenN pre + lenN (concat (map enc_rr rrs))). split.
  - rewrite Hpre. apply (rrs_at_enc buf ql _ Hq rrs pre trailer Hrrs).
    subst buf pre. unfold enc_msg. rewrite <- !app_assoc. reflexivity.
  - rewrite Han. clear. induction rrs as [|r rest IH]; [reflexivity|]. cbn [map lenN]. rewrite IH. reflexivity.
Qed.

(* ================= Part D: a packed query decodes back to itself ================= *)
(* every token is non-empty and made of non-NUL octets (when the string is) *)
Lemma tokens_from_ok : forall s cur,
  forallb nz cur = true -> forallb nz s = true ->
  Forall (fun t => 1 <= lenN t /\ forallb nz t = true) (tokens_from cur s).
Proof.
  induction s as [|c r IH]; intros cur Hcur Hs; cbn [tokens_from].
  - destruct cur as [|x cur']; [constructor|]. constructor; [|constructor].
    split; [cbn [lenN]; lia|exact Hcur].
  - cbn [forallb] in Hs. apply andb_prop in Hs as [Hc Hr].
    destruct (c =? 46) eqn:E.
    + destruct cur as [|x cur'].
      * apply IH; [reflexivity|exact Hr].
      * constructor; [split; [cbn [lenN]; lia|exact Hcur]|]. apply IH; [reflexivity|exact Hr].
    + apply IH; [|exact Hr]. rewrite forallb_app'. rewrite Hcur. cbn [forallb]. rewrite Hc. reflexivity.
Qed.

Lemma takeN_min {A} (t : list A) n : takeN (N.min (lenN t) n) t = takeN n t.
Proof.
  destruct (N.le_gt_cases (lenN t) n) as [H|H].
  - rewrite N.min_l by exact H. rewrite !takeN_all by lia. reflexivity.
  - rewrite N.min_r by lia. reflexivity.
Qed.

Lemma forallb_takeN {A} (p : A -> bool) (l : list A) n : forallb p l = true -> forallb p (takeN n l) = true.
Proof.
  revert n. induction l as [|x l IH]; intros n H; cbn [takeN]; [reflexivity|].
  destruct (n =? 0); [reflexivity|]. cbn [forallb] in *. apply andb_prop in H as [H1 H2].
  rewrite H1, (IH _ H2). reflexivity.
Qed.

Definition cut63 (toks : list bytes) : list bytes := map (takeN dns_MAXLABELSZ) toks.

Lemma labels_pack_enc : forall toks sz off out out' off',
  labels_pack sz off toks out = Ok (out', off') ->
  out' = out ++ enc_labels (cut63 toks) /\ off' = off + wire (cut63 toks).
Proof.
  induction toks as [|t r IH]; intros sz off out out' off' H; cbn [labels_pack] in H.
  - injection H as <- <-. cbn [cut63 map enc_labels wire]. rewrite app_nil_r. split; [reflexivity|lia].
  - destruct (sz <? off); [discriminate|].
    unfold label_pack in H.
    destruct (sz - off <? N.min (lenN t) dns_MAXLABELSZ + 1); [discriminate|].
    apply IH in H as [-> ->].
    rewrite takeN_min.
    assert (Hlen : lenN (takeN dns_MAXLABELSZ t) = N.min (lenN t) dns_MAXLABELSZ).
    { rewrite lenN_takeN. apply N.min_comm. }
    cbn [cut63 map enc_labels wire lenN]. fold (cut63 r). rewrite Hlen.
    split.
    + rewrite <- app_assoc. reflexivity.
    + rewrite <- Hlen at 1. lia.
Qed.

Lemma name_pack_enc sz name out off :
  name_pack sz name = Ok (out, off) ->
  out = enc_name (cut63 (tokens (cstr name))) /\ off = lenN out.
Proof.
  unfold name_pack.
  destruct (labels_pack sz 0 (tokens (cstr name)) []) as [[o f]| |b] eqn:E; try discriminate.
  apply labels_pack_enc in E as [-> ->].
  destruct (sz <=? 0 + wire (cut63 (tokens (cstr name)))); [discriminate|].
  intros H. injection H as <- <-. cbn [app]. split; [reflexivity|].
  fold (enc_name (cut63 (tokens (cstr name)))). rewrite lenN_enc_name. lia.
Qed.

Lemma cut63_wf toks : Forall (fun t => 1 <= lenN t /\ forallb nz t = true) toks ->
  labels_wf (cut63 toks) /\ Forall (fun t => forallb nz t = true) (cut63 toks).
Proof.
  induction 1 as [|t r [H1 H2] Hr [IH1 IH2]]; cbn [cut63 map]; [split; constructor|].
  split; constructor; try assumption.
  - rewrite lenN_takeN. unfold dns_MAXLABELSZ. lia.
  - apply forallb_takeN. exact H2.
Qed.

(* the labels a host name is packed as: strtok tokens, each cut to 63 octets *)
Definition host_labels (hostname : bytes) : list bytes := cut63 (tokens (cstr hostname)).

Lemma host_labels_ok hostname : labels_wf (host_labels hostname) /\ text_ok (host_labels hostname).
Proof.
  unfold host_labels, tokens.
  destruct (cut63_wf (tokens_from [] (cstr hostname))) as [H1 H2].
  { apply tokens_from_ok; [reflexivity|apply cstr_nz]. }
  split; [exact H1|]. unfold text_ok. apply cstr_id. apply join_dots_nz. exact H2.
Qed.

Lemma cstr_cstr s : cstr (cstr s) = cstr s.
Proof. apply cstr_id. apply cstr_nz. Qed.

Definition query_header (qid edns : N) : header := mkHdr qid 0 0 0 0 1 0 0 1 0 0 (if 0 <? edns then 1 else 0).

Theorem build_query_roundtrip : forall sz hostname qid qtype edns msg q,
  build_query sz hostname qid qtype edns = Ok (msg, q) ->
  qid < 65536 -> wire (host_labels hostname) < 256 ->
  q = mkQ (takeN (dns_sizeof_query_name - 1) (cstr hostname)) (qtype mod 65536) dns_CLASS_IN /\
  message_unpack msg =
    Ok (UAnswers (query_header qid edns) (mkQ (join_dots (host_labels hostname)) (qtype mod 65536) dns_CLASS_IN) []).
Proof.
  intros sz hostname qid qtype edns msg q H Hqid Hw.
  unfold build_query in H.
  fold (query_header qid edns) in H.
  unfold header_pack in H. destruct (sz <? 12); [discriminate|].
  unfold question_pack in H.
  destruct (name_pack (sz - 12) (cstr hostname)) as [[nb noff]| |b] eqn:En; try discriminate.
  apply name_pack_enc in En as [Hnb Hnoff]. rewrite cstr_cstr in Hnb. fold (host_labels hostname) in Hnb.
  destruct (sz - 12 <? noff + 4); [discriminate|].
  destruct (host_labels_ok hostname) as [Hwf Htxt].
  assert (Hdec : forall tail,
    message_unpack (enc_msg (query_header qid edns) 0 (host_labels hostname) (qtype mod 65536) dns_CLASS_IN [] tail) =
    Ok (UAnswers (query_header qid edns) (mkQ (join_dots (host_labels hostname)) (qtype mod 65536) dns_CLASS_IN) [])).
  { intros tail.
    rewrite (enc_msg_decodes (query_header qid edns) 0 (host_labels hostname) (qtype mod 65536) dns_CLASS_IN [] tail);
      try assumption; try reflexivity; try (constructor; fail).
    - unfold header_wf, query_header. cbn [h_id h_qr h_opcode h_aa h_tc h_rd h_ra h_rcode h_qd h_an h_ns h_ar].
      destruct (0 <? edns); lia.
    - apply N.mod_lt. discriminate. }
  assert (Hshape : forall tail,
    (be16 (h_id (query_header qid edns)) ++
       be16 (h_qr (query_header qid edns) * 32768 + h_opcode (query_header qid edns) * 2048 +
             h_aa (query_header qid edns) * 1024 + h_tc (query_header qid edns) * 512 +
             h_rd (query_header qid edns) * 256 + h_ra (query_header qid edns) * 128 + h_rcode (query_header qid edns)) ++
       be16 (h_qd (query_header qid edns)) ++ be16 (h_an (query_header qid edns)) ++
       be16 (h_ns (query_header qid edns)) ++ be16 (h_ar (query_header qid edns))) ++
    (nb ++ be16 (qtype mod 65536) ++ be16 dns_CLASS_IN) ++ tail =
    enc_msg (query_header qid edns) 0 (host_labels hostname) (qtype mod 65536) dns_CLASS_IN [] tail).
  { intros tail. unfold enc_msg. rewrite Hnb. cbn [map concat app]. rewrite <- !app_assoc. reflexivity. }
  destruct (0 <? edns) eqn:Ee.
  - destruct (opt_pack (sz - (12 + lenN (nb ++ be16 (qtype mod 65536) ++ be16 dns_CLASS_IN))) edns) as [ob| |b];
      try discriminate.
    destruct (sz <? 12 + lenN (nb ++ be16 (qtype mod 65536) ++ be16 dns_CLASS_IN) + lenN ob); [discriminate|].
    injection H as <- <-. split; [reflexivity|].
    rewrite <- (Hdec ob). f_equal. rewrite <- Hshape. rewrite <- !app_assoc. reflexivity.
  - destruct (sz <? 12 + lenN (nb ++ be16 (qtype mod 65536) ++ be16 dns_CLASS_IN)); [discriminate|].
    injection H as <- <-. split; [reflexivity|].
    rewrite <- (Hdec []). f_equal. rewrite <- Hshape. rewrite <- !app_assoc. rewrite ?app_nil_r. reflexivity.
Qed.

(* --- the hypothesis `wire (host_labels hostname) < 256` holds for every host name of at most 254 octets --- *)
Lemma wire_cut63_le toks : wire (cut63 toks) <= wire toks.
Proof.
  induction toks as [|t r IH]; [cbn; lia|]. cbn [cut63 map wire]. fold (cut63 r).
  rewrite lenN_takeN. lia.
Qed.

Lemma wire_tokens_from_le : forall s cur, wire (tokens_from cur s) <= lenN cur + lenN s + 1.
Proof.
  induction s as [|c r IH]; intros cur; cbn [tokens_from lenN].
  - destruct cur; cbn [wire lenN]; lia.
  - destruct (c =? 46).
    + destruct cur as [|x cur'].
      * specialize (IH []). cbn [lenN] in *. lia.
      * specialize (IH []). cbn [wire lenN] in *. lia.
    + specialize (IH (cur ++ [c])). rewrite lenN_app in IH. cbn [lenN] in IH. lia.
Qed.

Lemma host_labels_wire hostname : wire (host_labels hostname) <= lenN (cstr hostname) + 1.
Proof.
  unfold host_labels, tokens. pose proof (wire_cut63_le (tokens_from [] (cstr hostname))).
  pose proof (wire_tokens_from_le (cstr hostname) []). cbn [lenN] in *. lia.
Qed.

Theorem build_query_roundtrip_len : forall sz hostname qid qtype edns msg q,
  build_query sz hostname qid qtype edns = Ok (msg, q) ->
  qid < 65536 -> lenN (cstr hostname) <= 254 ->
  message_unpack msg =
    Ok (UAnswers (query_header qid edns) (mkQ (join_dots (host_labels hostname)) (qtype mod 65536) dns_CLASS_IN) []).
Proof.
  intros sz hostname qid qtype edns msg q H Hqid Hlen.
  apply (build_query_roundtrip sz hostname qid qtype edns msg q H Hqid).
  pose proof (host_labels_wire hostname). lia.
Qed.

(* --- well-formed host names: the decoded name is the name itself, and rfc1035QueryCompare says "same query" --- *)
Definition nodot (l : bytes) : bool := forallb (fun c => negb (c =? 46)) l.

Definition hostname_wf (labels : list bytes) : Prop :=
  labels <> [] /\ Forall (fun l => 1 <= lenN l /\ lenN l <= 63 /\ nodot l = true /\ forallb nz l = true) labels.

Lemma tokens_from_label : forall l cur s, nodot l = true -> tokens_from cur (l ++ s) = tokens_from (cur ++ l) s.
Proof.
  induction l as [|c l IH]; intros cur s H; cbn [app].
  - rewrite app_nil_r. reflexivity.
  - cbn [nodot forallb] in H. apply andb_prop in H as [Hc Hl].
    cbn [tokens_from]. destruct (c =? 46) eqn:E; [discriminate|].
    rewrite (IH (cur ++ [c]) s Hl). rewrite <- app_assoc. reflexivity.
Qed.

Lemma tokens_join_dots : forall labels, hostname_wf labels -> tokens (join_dots labels) = labels.
Proof.
  intros labels [Hne Hall]. unfold tokens.
  induction Hall as [|l r (H1 & H2 & H3 & H4) Hr IH]; [contradiction|].
  destruct r as [|l2 r].
  - cbn [join_dots]. rewrite <- (app_nil_r l) at 1. rewrite (tokens_from_label l [] [] H3).
    cbn [app tokens_from]. destruct l; [cbn [lenN] in H1; lia|reflexivity].
  - change (join_dots (l :: l2 :: r)) with (l ++ 46 :: join_dots (l2 :: r)).
    rewrite (tokens_from_label l [] _ H3). cbn [app tokens_from N.eqb Pos.eqb].
    destruct l as [|x l']; [cbn [lenN] in H1; lia|].
    rewrite IH by discriminate. reflexivity.
Qed.

Lemma cut63_id labels : Forall (fun l => lenN l <= 63) labels -> cut63 labels = labels.
Proof.
  induction 1 as [|l r Hl Hr IH]; [reflexivity|]. cbn [cut63 map]. fold (cut63 r).
  rewrite IH. rewrite takeN_all by (unfold dns_MAXLABELSZ; lia). reflexivity.
Qed.

Lemma host_labels_wf labels : hostname_wf labels -> host_labels (join_dots labels) = labels.
Proof.
  intros H. pose proof H as [Hne Hall]. unfold host_labels.
  rewrite cstr_id.
  - rewrite (tokens_join_dots labels H). apply cut63_id.
    eapply Forall_impl; [|exact Hall]. intros l (H1 & H2 & _). exact H2.
  - apply join_dots_nz. eapply Forall_impl; [|exact Hall]. intros l (_ & _ & _ & H4). exact H4.
Qed.

Lemma list_eqb_refl l : list_eqb l l = true.
Proof. induction l as [|x l IH]; [reflexivity|]. cbn [list_eqb]. rewrite N.eqb_refl, IH. reflexivity. Qed.

Lemma query_compare_refl q : query_compare q q = true.
Proof.
  unfold query_compare. rewrite !N.eqb_refl. cbn [negb]. cbv zeta. rewrite ?N.eqb_refl. cbn [negb].
  apply list_eqb_refl.
Qed.

Lemma lenN_join_dots_le labels : lenN (join_dots labels) <= wire labels.
Proof.
  induction labels as [|l r IH]; [cbn; lia|].
  destruct r as [|l2 r]; [cbn [join_dots wire]; lia|].
  change (join_dots (l :: l2 :: r)) with (l ++ [46] ++ join_dots (l2 :: r)).
  rewrite !lenN_app. cbn [wire lenN] in *. lia.
Qed.

Theorem build_query_wellformed_roundtrip : forall sz labels qid qtype edns msg q,
  hostname_wf labels -> wire labels < 256 -> qid < 65536 ->
  build_query sz (join_dots labels) qid qtype edns = Ok (msg, q) ->
  q = mkQ (join_dots labels) (qtype mod 65536) dns_CLASS_IN /\
  message_unpack msg = Ok (UAnswers (query_header qid edns) q []) /\
  query_compare q q = true.
Proof.
  intros sz labels qid qtype edns msg q Hwf Hw Hqid H.
  pose proof (host_labels_wf labels Hwf) as Hl.
  destruct (build_query_roundtrip sz (join_dots labels) qid qtype edns msg q H Hqid) as [Hq Hm].
  { rewrite Hl. exact Hw. }
  assert (Hc : cstr (join_dots labels) = join_dots labels).
  { destruct Hwf as [_ Hall]. apply cstr_id. apply join_dots_nz.
    eapply Forall_impl; [|exact Hall]. intros l (_ & _ & _ & H4). exact H4. }
  assert (Hq' : q = mkQ (join_dots labels) (qtype mod 65536) dns_CLASS_IN).
  { rewrite Hq, Hc. rewrite takeN_all; [reflexivity|].
    pose proof (lenN_join_dots_le labels). unfold dns_sizeof_query_name. lia. }
  split; [exact Hq'|]. split; [|apply query_compare_refl].
  rewrite Hm, Hl, Hq'. reflexivity.
Qed.

(* builders do succeed when the buffer is large enough (so the round-trip theorems are not vacuous) *)
Lemma labels_pack_fits : forall toks sz off out,
  off + wire (cut63 toks) <= sz ->
  labels_pack sz off toks out = Ok (out ++ enc_labels (cut63 toks), off + wire (cut63 toks)).
Proof.
  induction toks as [|t r IH]; intros sz off out H; cbn [labels_pack cut63 map enc_labels wire].
  - rewrite app_nil_r, N.add_0_r. reflexivity.
  - fold (cut63 r). cbn [cut63 map wire] in H. fold (cut63 r) in H.
    assert (Hlen : lenN (takeN dns_MAXLABELSZ t) = N.min (lenN t) dns_MAXLABELSZ).
    { rewrite lenN_takeN. apply N.min_comm. }
    destruct (sz <? off) eqn:E1; [lia|].
    unfold label_pack.
    destruct (sz - off <? N.min (lenN t) dns_MAXLABELSZ + 1) eqn:E2; [lia|].
    rewrite takeN_min.
    rewrite IH by (cbn [lenN]; lia).
    f_equal. f_equal.
    + rewrite <- app_assoc. rewrite Hlen. reflexivity.
    + cbn [lenN]. lia.
Qed.

Theorem build_query_succeeds : forall sz hostname qid qtype,
  12 + wire (host_labels hostname) + 5 <= sz ->
  exists msg q, build_query sz hostname qid qtype 0 = Ok (msg, q).
Proof.
  intros sz hostname qid qtype Hsz.
  unfold build_query. unfold header_pack. destruct (sz <? 12) eqn:E0; [lia|].
  unfold question_pack, name_pack. rewrite cstr_cstr. fold (host_labels hostname).
  unfold host_labels in *.
  rewrite (labels_pack_fits (tokens (cstr hostname)) (sz - 12) 0 []) by lia.
  destruct (sz - 12 <=? 0 + wire (cut63 (tokens (cstr hostname)))) eqn:E1; [lia|].
  destruct (sz - 12 <? 0 + wire (cut63 (tokens (cstr hostname))) + 1 + 4) eqn:E2; [lia|].
  change (0 <? 0) with false. cbv iota.
  match goal with |- context [if ?c then _ else _] => destruct c eqn:E3 end.
  - exfalso. rewrite !lenN_app, !lenN_be16, lenN_enc_labels in E3. cbn [lenN app] in E3. lia.
  - eexists. eexists. reflexivity.
Qed.
