(* DiskcrashProofs.v — proofs about DiskcrashModel.v (C16, C17). *)
Require Import SquidV.Bytes.
Require Import SquidV.gen.DiskCrash_gen.
Require Import SquidV.DiskcrashModel.
Require Import ZifyBool ZifyNat.
Local Open Scope Z_scope.

(* ------------------------------------------------------------------------------------------------------------
   Part 1. What the properties ask for, stated on the model.
   ------------------------------------------------------------------------------------------------------------ *)

(* the session's last slot write is among the first n writes of the workload *)
Fixpoint writes_before (P : Z) (ss : list session) (s : session) : option nat :=
  match ss with
  | [] => None
  | x :: r => if s_obj x =? s_obj s then Some O
              else match writes_before P r s with Some k => Some (nwrites P x + k)%nat | None => None end
  end.

Definition completed (P : Z) (ss : list session) (n : nat) (s : session) : Prop :=
  In s ss /\ exists b, writes_before P ss s = Some b /\ (b + nwrites P s <= n)%nat.

(* C16 on the model: whatever is served as a hit after the crash is the complete stream of one session with that
   key whose last write completed before the crash *)
Definition crash_consistent (N P : Z) (ss : list session) (n : nat) (torn : option Z) : Prop :=
  forall k c, hit_after N P ss n torn k = Some c ->
    exists s, completed P ss n s /\ s_key s = k /\ c = full_stream s.

(* C17 on the model: after ALL writes (clean shutdown), the entry last stored under a key and not purged is a hit
   with its complete stream *)
Definition survives (N P : Z) (ss : list session) (s : session) : Prop :=
  hit_after N P ss (length (all_writes P ss)) None (s_key s) = Some (full_stream s).

(* ------------------------------------------------------------------------------------------------------------
   Part 2. Refutations (witnesses found by running the extracted model over small workloads; each is replayed
   against the real binary by the checks: corpus/C16/known.jsonl, corpus/C17/known.jsonl).
   8 slots, 4 payload bytes per slot, 10-byte objects = 3 slots.
   ------------------------------------------------------------------------------------------------------------ *)
Definition w_ops : list op := [OStore (1, 0) 1 5 10 2 0; OStore (1, 0) 2 6 10 2 0].

Lemma w_ops_slots : map s_slots (sessions_of 8 4 w_ops) = [[1; 0; 2]; [1; 0; 2]].
Proof. vm_compute. reflexivity. Qed.

(* F12: version 2 of the same key goes into the recycled slots of version 1 in the same order; killed after 5 of
   the 6 slot writes, the rebuild accepts the chain new, new, OLD (versions are never compared) *)
Lemma overwrite_crash_mixes :
  hit_after 8 4 (sessions_of 8 4 w_ops) 5 None (1, 0)
  = Some [(2,0);(2,1);(2,2);(2,3);(2,4);(2,5);(2,6);(2,7);(1,8);(1,9)].
Proof. vm_compute. reflexivity. Qed.

Lemma crash_consistent_refuted :
  exists N P ops n, ~ crash_consistent N P (sessions_of N P ops) n None.
Proof.
  exists 8, 4, w_ops, 5%nat. intros H.
  destruct (H (1, 0) _ overwrite_crash_mixes) as (s & (Hin & _) & _ & Hc).
  vm_compute in Hin. destruct Hin as [<- | [<- | []]]; vm_compute in Hc; discriminate Hc.
Qed.

(* a torn write: a one-slot object whose only write is cut after the header and 2 of its 3 payload bytes: the
   header (entrySize, payloadSize) is complete, so the entry is accepted and the never-written byte is served *)
Definition t_ops : list op := [OStore (1, 0) 1 5 3 2 0].

Lemma torn_write_serves_unwritten_bytes :
  hit_after 8 4 (sessions_of 8 4 t_ops) 0 (Some 42) (1, 0) = Some [(1,0);(1,1);(0,0)].
Proof. vm_compute. reflexivity. Qed.

Lemma torn_crash_consistent_refuted :
  exists N P ops n t, ~ crash_consistent N P (sessions_of N P ops) n (Some t).
Proof.
  exists 8, 4, t_ops, 0%nat, 42. intros H.
  destruct (H (1, 0) _ torn_write_serves_unwritten_bytes) as (s & (Hin & _) & _ & Hc).
  vm_compute in Hin. destruct Hin as [<- | []]; vm_compute in Hc; discriminate Hc.
Qed.

(* C17: a completed overwrite by an object that needs FEWER slots leaves the old chain's extra slot on disk with the
   same key; after a clean restart the rebuild counts it into the entry (le.size), the chain walk comes up short,
   and the complete new entry is dropped *)
Definition l_ops : list op := [OStore (1, 0) 1 5 10 2 0; OStore (1, 0) 2 6 7 2 0].

Lemma overwrite_by_smaller_lost :
  hit_after 8 4 (sessions_of 8 4 l_ops) (length (all_writes 4 (sessions_of 8 4 l_ops))) None (1, 0) = None.
Proof. vm_compute. reflexivity. Qed.

Lemma survives_refuted :
  exists N P ops s, last (sessions_of N P ops) s = s /\ In s (sessions_of N P ops) /\
                    ~ survives N P (sessions_of N P ops) s.
Proof.
  exists 8, 4, l_ops, (mkSess (1, 0) 2 6 7 2 0 [1; 0]).
  split; [vm_compute; reflexivity|]. split; [vm_compute; auto|].
  unfold survives. cbn [s_key]. rewrite overwrite_by_smaller_lost. discriminate.
Qed.

(* ------------------------------------------------------------------------------------------------------------
   Part 4. Workloads that write every slot at most once: for ALL such workloads and ALL crash points at write
   boundaries, recovery makes readable exactly the sessions whose last write completed, with their full streams.
   ------------------------------------------------------------------------------------------------------------ *)

(* ---- 4.1 lists ---- *)
Lemma zseq_in : forall n a c, In c (zseq a n) <-> a <= c < a + Z.of_nat n.
Proof.
  induction n as [|n IH]; intros a c; cbn [zseq In].
  - lia.
  - rewrite IH. lia.
Qed.

Lemma zseq_length : forall n a, length (zseq a n) = n.
Proof. induction n as [|n IH]; intros a; cbn [zseq length]; [reflexivity| now rewrite IH]. Qed.

Lemma firstn_zseq : forall n m a, (n <= m)%nat -> firstn n (zseq a m) = zseq a n.
Proof.
  induction n as [|n IH]; intros m a Hle; [reflexivity|].
  destruct m as [|m]; [lia|]. cbn [zseq firstn]. rewrite IH by lia. reflexivity.
Qed.

Lemma stream_length : forall o len, length (stream o len) = Z.to_nat len.
Proof. intros. unfold stream. now rewrite map_length, zseq_length. Qed.

Lemma firstn_stream : forall o len n, 0 <= n <= len -> firstn (Z.to_nat n) (stream o len) = stream o n.
Proof. intros o len n H. unfold stream. rewrite firstn_map, firstn_zseq by lia. reflexivity. Qed.

Lemma is_run_firstn : forall n o off l,
  firstn n l = map (fun i => (o, i)) (zseq off n) -> is_run o off n l = true.
Proof.
  induction n as [|n IH]; intros o off l H; [reflexivity|].
  destruct l as [|a l]; [discriminate H|]. cbn [firstn zseq map] in H. injection H as Ha Hl.
  cbn [is_run]. rewrite (IH _ _ _ Hl). subst a. unfold atom_eqb. cbn [fst snd]. rewrite !Z.eqb_refl. reflexivity.
Qed.

Lemma parse_meta_stream : forall oi o info buf,
  oi o = Some info -> 0 < o_mlen info ->
  firstn (Z.to_nat (o_mlen info)) buf = stream o (o_mlen info) ->
  parse_meta oi buf = Some info.
Proof.
  intros oi o info buf Hoi Hm Hf. unfold parse_meta.
  assert (Hrun : is_run o 0 (Z.to_nat (o_mlen info)) buf = true) by (apply is_run_firstn; exact Hf).
  destruct buf as [|[o' i'] buf'].
  - unfold stream in Hf. destruct (Z.to_nat (o_mlen info)) eqn:E; [lia| discriminate Hf].
  - unfold stream in Hf. destruct (Z.to_nat (o_mlen info)) eqn:E; [lia|].
    cbn [firstn zseq map] in Hf. injection Hf as Ho Hi _. subst o' i'.
    rewrite Hoi. assert (0 <? o_mlen info = true) as -> by lia. rewrite E, Hrun. reflexivity.
Qed.

Lemma zeroed_false : forall o i buf, 0 < o -> zeroed ((o, i) :: buf) = false.
Proof.
  intros o i buf Ho. unfold zeroed. cbn [firstn forallb fst].
  assert (o =? 0 = false) as -> by lia. cbn [andb]. apply andb_false_r.
Qed.

Lemma read_area_exact : forall a, read_area (Z.of_nat (length a)) a = a.
Proof.
  intros a. unfold read_area. rewrite Nat2Z.id, firstn_all, Nat.sub_diag. cbn [repeat]. apply app_nil_r.
Qed.

(* ---- 4.2 chunks ---- *)
Lemma chunks_aux_concat : forall fuel p l, (0 < p)%nat -> (length l <= fuel)%nat -> concat (chunks_aux fuel p l) = l.
Proof.
  induction fuel as [|fuel IH]; intros p l Hp Hl.
  - destruct l; [reflexivity| cbn [length] in Hl; lia].
  - destruct l as [|a l]; [reflexivity|]. cbn [chunks_aux concat].
    rewrite IH; [apply firstn_skipn| exact Hp|].
    rewrite skipn_length. cbn [length] in *. lia.
Qed.

Lemma chunks_aux_sizes : forall fuel p l ch, (0 < p)%nat -> In ch (chunks_aux fuel p l) -> (0 < length ch <= p)%nat.
Proof.
  induction fuel as [|fuel IH]; intros p l ch Hp Hin; [destruct Hin|].
  destruct l as [|a l]; [destruct Hin|]. cbn [chunks_aux In] in Hin. destruct Hin as [<- | Hin].
  - rewrite firstn_length. cbn [length]. lia.
  - eapply IH; eauto.
Qed.

Lemma chunks_aux_first : forall fuel p l ch r, chunks_aux fuel p l = ch :: r -> ch = firstn p l.
Proof.
  intros [|fuel] p l ch r H; [discriminate H|]. destruct l; [discriminate H|]. cbn [chunks_aux] in H. now injection H as <- _.
Qed.

Lemma chunks_nonempty : forall P l, l <> [] -> chunks P l <> [].
Proof. intros P [|a l] H; [congruence|]. unfold chunks. cbn [length chunks_aux]. discriminate. Qed.

(* ---- 4.3 the writes of a session ---- *)
Fixpoint linked_to (ws : list wr) (e : Z) : Prop :=
  match ws with
  | [] => True
  | w :: r => h_next (w_hdr w) = match r with w' :: _ => w_slot w' | [] => e end /\ linked_to r e
  end.

Definition psz_sum (l : list wr) : Z := fold_right (fun w a => h_psz (w_hdr w) + a) 0 l.

Lemma mk_writes_facts : forall chs slots k ver first total,
  length chs = length slots ->
  let ws := mk_writes k ver first total chs slots in
  map w_slot ws = slots /\ map w_data ws = chs /\
  (forall w, In w ws -> h_key (w_hdr w) = k /\ h_ver (w_hdr w) = ver /\ h_first (w_hdr w) = first /\
                        h_psz (w_hdr w) = Z.of_nat (length (w_data w))) /\
  linked_to ws (-1) /\
  (forall w r, ws = w :: r -> h_esz (w_hdr w) = match r with [] => total | _ :: _ => 0 end).
Proof.
  induction chs as [|ch chs IH]; intros slots k ver first total Hlen; destruct slots as [|c slots]; try discriminate Hlen.
  - cbn. split; [reflexivity|]. split; [reflexivity|]. split; [intros ? []|]. split; [exact I|].
    intros w r H. discriminate H.
  - cbn [length] in Hlen. injection Hlen as Hlen.
    specialize (IH slots k ver first total Hlen). cbv zeta in IH. destruct IH as (I1 & I2 & I3 & I4 & I5).
    cbn [mk_writes]. cbv zeta. cbn [map w_slot w_data]. rewrite I1, I2.
    split; [reflexivity|]. split; [reflexivity|]. split; [|split].
    + intros w [<- | Hin]; [cbn; auto| apply I3, Hin].
    + cbn [linked_to w_hdr h_next]. split; [|exact I4].
      destruct chs as [|ch' chs']; destruct slots as [|c' slots']; try discriminate Hlen; reflexivity.
    + intros w r H. injection H as <- <-. cbn [w_hdr h_esz].
      destruct chs as [|ch' chs']; destruct slots as [|c' slots']; try discriminate Hlen; reflexivity.
Qed.

Lemma linked_firstn : forall ws e m d, linked_to ws e -> (m < length ws)%nat ->
  linked_to (firstn m ws) (w_slot (nth m ws d)).
Proof.
  induction ws as [|w ws IH]; intros e m d Hl Hm; [cbn in Hm; lia|].
  destruct m as [|m]; [exact I|]. cbn [firstn nth linked_to]. destruct Hl as [Hn Hl]. cbn [length] in Hm.
  split; [| apply (IH e); [exact Hl| lia]].
  destruct ws as [|w' ws']; [cbn in Hm; lia|]. destruct m; cbn [firstn nth]; exact Hn.
Qed.

(* ---- 4.4 the image of a set of writes that touch every slot at most once ---- *)
Definition cell_of (w : wr) : cell := mkCell (w_hdr w) (w_data w).

Lemma fold_apply_spec : forall W d, NoDup (map w_slot W) ->
  (forall w, In w W -> c_area (d (w_slot w)) = []) ->
  (forall w, In w W -> fold_left apply_wr W d (w_slot w) = cell_of w) /\
  (forall c, ~ In c (map w_slot W) -> fold_left apply_wr W d c = d c).
Proof.
  induction W as [|w W IH]; intros d Hnd Hz; [split; [intros ? []| reflexivity]|].
  cbn [map] in Hnd. inversion Hnd as [|? ? Hnin Hnd']; subst. cbn [fold_left].
  assert (Hz' : forall w', In w' W -> c_area (apply_wr d w (w_slot w')) = []).
  { intros w' Hin. unfold apply_wr, upd. destruct (w_slot w' =? w_slot w) eqn:E.
    - exfalso. apply Hnin. apply Z.eqb_eq in E. rewrite <- E. apply in_map, Hin.
    - apply Hz. right. exact Hin. }
  destruct (IH (apply_wr d w) Hnd' Hz') as [A B]. split.
  - intros w' [<- | Hin]; [|apply A, Hin].
    rewrite B by exact Hnin. unfold apply_wr, upd. rewrite Z.eqb_refl.
    rewrite (Hz w (or_introl eq_refl)). unfold cell_of. f_equal. rewrite skipn_nil. apply app_nil_r.
  - intros c Hc. cbn [map In] in Hc. rewrite B by tauto. unfold apply_wr, upd.
    destruct (c =? w_slot w) eqn:E; [apply Z.eqb_eq in E; subst; tauto| reflexivity].
Qed.

Lemma disk_after_spec : forall W, NoDup (map w_slot W) ->
  (forall w, In w W -> disk_after W (w_slot w) = cell_of w) /\
  (forall c, ~ In c (map w_slot W) -> disk_after W c = cell0).
Proof. intros W H. unfold disk_after. apply (fold_apply_spec W disk0 H). intros; reflexivity. Qed.
