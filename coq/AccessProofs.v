(* AccessProofs.v — proofs for C45: the http_access decision path (AccessModel.v) refines the
   reference first-match evaluation over set-semantics ACLs.

   1. bookkeeping: byte-string equality, find_acl / set_data, the four parse() routines continue where the
      previous line of the same ACL stopped (…_app).
   2. cfg_parse: after reading the lines, every named ACL object holds exactly what parsing ALL tokens of
      its name from scratch yields, and the rule list is the list of non-empty http_access lines (or the
      default "deny all").
   3. semantic invariants of the four kinds of ACL data (from C41, C42, C43 and, for methods, here) and
      their preservation by every lookup.
   4. the walk: literal, rule, tree; a request; a sequence of requests.
   5. the method-prefix defect: witness.
   6. the C44 checklist machine on the same tree decides the same. *)
Require Import SquidV.Bytes SquidV.SplayModel SquidV.TokModel SquidV.IntrangeModel SquidV.IntrangeProofs SquidV.AccessModel.
Require SquidV.AcldomModel SquidV.AclipModel SquidV.AcldomProofs SquidV.AclipProofs.
Require Import SquidV.gen.AccessMeth_gen.
Require Import Lia ZifyBool ZifyN.
Local Open Scope N_scope.

(* ================================================================== *)
(* 1. bookkeeping                                                      *)
Lemma list_eqb_spec (a : bytes) : forall b, list_eqb a b = true <-> a = b.
Proof.
  induction a as [|x a IH]; intros [|y b]; cbn [list_eqb]; try (split; [discriminate|discriminate]); [tauto|].
  rewrite Bool.andb_true_iff, N.eqb_eq, IH. split; [intros [-> ->]; reflexivity| intros H; inversion H; auto].
Qed.
Lemma list_eqb_refl (a : bytes) : list_eqb a a = true.
Proof. apply list_eqb_spec. reflexivity. Qed.
Lemma list_eqb_neq (a b : bytes) : list_eqb a b = false <-> a <> b.
Proof.
  split.
  - intros H E. apply list_eqb_spec in E. congruence.
  - intros H. destruct (list_eqb a b) eqn:E; [apply list_eqb_spec in E; contradiction| reflexivity].
Qed.
Lemma list_eqb_sym (a b : bytes) : list_eqb a b = list_eqb b a.
Proof.
  destruct (list_eqb a b) eqn:E.
  - apply list_eqb_spec in E. subst. symmetry. apply list_eqb_refl.
  - apply list_eqb_neq in E. symmetry. apply list_eqb_neq. congruence.
Qed.

Lemma find_acl_name name acls a : find_acl name acls = Some a -> a_name a = name.
Proof.
  induction acls as [|x r IH]; cbn [find_acl]; [discriminate|].
  destruct (list_eqb (a_name x) name) eqn:E; [|exact IH].
  intros H. inversion H; subst. apply list_eqb_spec, E.
Qed.

Lemma find_acl_app name acls x :
  find_acl name (acls ++ [x]) =
  match find_acl name acls with
  | Some a => Some a
  | None => if list_eqb (a_name x) name then Some x else None
  end.
Proof.
  induction acls as [|y r IH]; cbn [find_acl app]; [reflexivity|].
  destruct (list_eqb (a_name y) name); [reflexivity| exact IH].
Qed.

Lemma find_set name' name d acls :
  find_acl name' (set_data name d acls) =
  if list_eqb name' name
  then match find_acl name acls with Some a => Some (mkAcl (a_name a) (a_type a) d) | None => None end
  else find_acl name' acls.
Proof.
  induction acls as [|x r IH]; cbn [find_acl set_data].
  - destruct (list_eqb name' name); reflexivity.
  - destruct (list_eqb (a_name x) name) eqn:E1.
    + apply list_eqb_spec in E1. cbn [find_acl a_name]. rewrite E1.
      destruct (list_eqb name' name) eqn:E2.
      * apply list_eqb_spec in E2. subst. rewrite list_eqb_refl. reflexivity.
      * rewrite (list_eqb_sym name name'), E2. reflexivity.
    + cbn [find_acl]. destruct (list_eqb (a_name x) name') eqn:E3.
      * apply list_eqb_spec in E3. subst name'. rewrite E1. reflexivity.
      * exact IH.
Qed.

(* ---- parse() continues where the previous line stopped ---- *)
Lemma ip_parse_app A : forall B f4 f6 t n,
  AclipModel.acl_parse_from f4 f6 t n (A ++ B) =
  match AclipModel.acl_parse_from f4 f6 t n A with
  | AclipModel.POk f4' f6' t' n' => AclipModel.acl_parse_from f4' f6' t' n' B
  | bad => bad
  end.
Proof.
  induction A as [|[tok sp] A IH]; intros B f4 f6 t n; cbn [app AclipModel.acl_parse_from]; [reflexivity|].
  destruct (AclipModel.parse_global tok) as [[g4 g6]|]; [apply IH|].
  destruct sp as [| |vals]; try reflexivity.
  destruct (AclipModel.merge_all t n vals); try reflexivity. apply IH.
Qed.

Lemma dom_parse_app A : forall B t n,
  AcldomModel.acl_parse_from t n (A ++ B) =
  match AcldomModel.acl_parse_from t n A with
  | AcldomModel.MOk t' n' => AcldomModel.acl_parse_from t' n' B
  | bad => bad
  end.
Proof.
  induction A as [|tok A IH]; intros B t n; cbn [app AcldomModel.acl_parse_from]; [reflexivity|].
  destruct (AcldomModel.merge _ t n _); try reflexivity. apply IH.
Qed.

Lemma ir_parse_ub toks : forall acc ub ub', fst (ir_parse toks acc ub) = fst (ir_parse toks acc ub').
Proof.
  induction toks as [|t r IH]; intros acc ub ub'; cbn [ir_parse]; [reflexivity|].
  destruct (ir_parse_token t) as [[rg|] o]; cbn [fst]; [apply IH| reflexivity].
Qed.

Lemma ir_parse_app A : forall B acc ub rs,
  fst (ir_parse A acc ub) = Some rs ->
  fst (ir_parse (A ++ B) acc ub) = fst (ir_parse B (rev rs) false).
Proof.
  induction A as [|t r IH]; intros B acc ub rs; cbn [ir_parse app].
  - cbn [fst]. intros H. inversion H; subst. rewrite rev_involutive. apply ir_parse_ub.
  - destruct (ir_parse_token t) as [[rg|] o]; cbn [fst]; [apply IH| discriminate].
Qed.

Lemma parse_into_app d0 ips1 txt1 d1 ips2 txt2 :
  parse_into d0 ips1 txt1 = Some d1 ->
  parse_into d1 ips2 txt2 = parse_into d0 (ips1 ++ ips2) (txt1 ++ txt2).
Proof.
  destruct d0 as [f4 f6 t n|t n|rs|vs]; cbn [parse_into].
  - rewrite map_app, ip_parse_app.
    destruct (AclipModel.acl_parse_from f4 f6 t n (map ip_spec ips1)); try discriminate.
    intros H. inversion H; subst. reflexivity.
  - rewrite dom_parse_app. destruct (AcldomModel.acl_parse_from t n txt1); try discriminate.
    intros H. inversion H; subst. reflexivity.
  - destruct (ir_parse txt1 (rev rs) false) as [[rs1|] u1] eqn:E1; [|discriminate].
    intros H. inversion H; subst. cbn [parse_into].
    pose proof (ir_parse_app txt1 txt2 (rev rs) false rs1 ltac:(rewrite E1; reflexivity)) as E.
    destruct (ir_parse txt2 (rev rs1) false) as [[x|] ?]; destruct (ir_parse (txt1 ++ txt2) (rev rs) false) as [[y|] ?];
      cbn [fst] in E; congruence.
  - intros H. inversion H; subst. cbn [parse_into]. rewrite map_app, app_assoc. reflexivity.
Qed.

(* ================================================================== *)
(* 2. what the lines of a configuration say (reference vocabulary)     *)
Definition line_ips (name : bytes) (l : line) : list iptok :=
  match l with LAcl n _ ips _ => if list_eqb n name then ips else [] | _ => [] end.
Definition line_txt (name : bytes) (l : line) : list bytes :=
  match l with LAcl n _ _ txt => if list_eqb n name then txt else [] | _ => [] end.
(* all values given for a name, in the order of the lines *)
Definition acl_ips (cfg : list line) (name : bytes) : list iptok := flat_map (line_ips name) cfg.
Definition acl_txt (cfg : list line) (name : bytes) : list bytes := flat_map (line_txt name) cfg.
(* the type of a name is the type of its first acl line *)
Fixpoint acl_type (cfg : list line) (name : bytes) : option atype :=
  match cfg with
  | [] => None
  | LAcl n ty _ _ :: r => if list_eqb n name then Some ty else acl_type r name
  | _ :: r => acl_type r name
  end.
(* the http_access lines that name at least one ACL *)
Definition line_rule (l : line) : list rule :=
  match l with LAccess allow (t :: ts) => [(allow, t :: ts)] | _ => [] end.
Definition raw_rules (cfg : list line) : list rule := flat_map line_rule cfg.

Lemma acl_ips_app a b name : acl_ips (a ++ b) name = acl_ips a name ++ acl_ips b name.
Proof. unfold acl_ips. apply flat_map_app. Qed.
Lemma acl_txt_app a b name : acl_txt (a ++ b) name = acl_txt a name ++ acl_txt b name.
Proof. unfold acl_txt. apply flat_map_app. Qed.
Lemma raw_rules_app a b : raw_rules (a ++ b) = raw_rules a ++ raw_rules b.
Proof. unfold raw_rules. apply flat_map_app. Qed.
Lemma acl_type_app a b name :
  acl_type (a ++ b) name = match acl_type a name with Some ty => Some ty | None => acl_type b name end.
Proof.
  induction a as [|l a IH]; cbn [app acl_type]; [reflexivity|].
  destruct l as [n ty ips txt|al ts]; [|exact IH]. destruct (list_eqb n name); [reflexivity| exact IH].
Qed.

(* the state of the parser after the lines [pre] *)
Definition acl_parsed (pre : list line) (name : bytes) (a : aclobj) : Prop :=
  a_name a = name /\ acl_type pre name = Some (a_type a) /\ parse_into (empty_data (a_type a)) (acl_ips pre name) (acl_txt pre name) = Some (a_data a).

Definition parsed (pre : list line) (s : cstate) : Prop :=
  (forall name, match find_acl name (c_acls s) with
                | Some a => acl_parsed pre name a
                | None => acl_type pre name = None
                end) /\ c_rules s = raw_rules pre /\ (forall r t, In r (c_rules s) -> In t (snd r) -> find_acl (snd t) (c_acls s) <> None).

Lemma parsed_nil : parsed [] (mkC [] []).
Proof. split; [intros name; reflexivity|]. split; [reflexivity|]. intros r t []. Qed.

Lemma empty_data_parse_shape ty ips txt d :
  parse_into (empty_data ty) ips txt = Some d ->
  match ty, d with
  | (TSrc | TDst), DIp _ _ _ _ | TDom, DDom _ _ | TPort, DPort _ | TMeth, DMeth _ => True
  | _, _ => False
  end.
Proof.
  destruct ty; cbn [empty_data parse_into].
  1,2: destruct (AclipModel.acl_parse_from _ _ _ _ _); try discriminate; intros H; inversion H; exact I.
  - destruct (AcldomModel.acl_parse_from _ _ _); try discriminate; intros H; inversion H; exact I.
  - destruct (ir_parse _ _ _) as [[?|] ?]; try discriminate; intros H; inversion H; exact I.
  - intros H; inversion H; exact I.
Qed.

Lemma cfg_step_parsed pre s l s' : parsed pre s -> cfg_step s l = Some s' -> parsed (pre ++ [l]) s'.
Proof.
  intros (HA & HR & HN) Hs. destruct l as [name ty ips txt|allow terms]; cbn [cfg_step] in Hs.
  - (* acl line *)
    pose proof (HA name) as Hn.
    destruct (find_acl name (c_acls s)) as [a|] eqn:Ef.
    + destruct (atype_eqb (a_type a) ty) eqn:Et; [|discriminate].
      assert (Ety : a_type a = ty) by (destruct (a_type a), ty; cbn in Et; congruence).
      destruct (parse_into (a_data a) ips txt) as [d|] eqn:Ep; [|discriminate]. inversion Hs; subst s'. clear Hs.
      destruct Hn as (N1 & N2 & N3).
      split; [|split].
      * intros name'. cbn [c_acls]. rewrite find_set.
        destruct (list_eqb name' name) eqn:E.
        -- apply list_eqb_spec in E. subst name'. rewrite Ef. unfold acl_parsed. cbn [a_name a_type a_data].
           split; [exact N1|]. split; [rewrite acl_type_app, N2; reflexivity|].
           rewrite acl_ips_app, acl_txt_app. unfold acl_ips at 2, acl_txt at 2. cbn [flat_map line_ips line_txt].
           rewrite list_eqb_refl, !app_nil_r. rewrite <- (parse_into_app _ _ _ _ ips txt N3). exact Ep.
        -- apply list_eqb_neq in E. specialize (HA name').
           assert (Ei : acl_ips (pre ++ [LAcl name ty ips txt]) name' = acl_ips pre name').
           { rewrite acl_ips_app. unfold acl_ips at 2. cbn [flat_map line_ips].
             rewrite (proj2 (list_eqb_neq name name') ltac:(congruence)). rewrite !app_nil_r. reflexivity. }
           assert (Ex : acl_txt (pre ++ [LAcl name ty ips txt]) name' = acl_txt pre name').
           { rewrite acl_txt_app. unfold acl_txt at 2. cbn [flat_map line_txt].
             rewrite (proj2 (list_eqb_neq name name') ltac:(congruence)). rewrite !app_nil_r. reflexivity. }
           assert (Ey : acl_type (pre ++ [LAcl name ty ips txt]) name' = acl_type pre name').
           { rewrite acl_type_app. cbn [acl_type]. rewrite (proj2 (list_eqb_neq name name') ltac:(congruence)).
             destruct (acl_type pre name'); reflexivity. }
           destruct (find_acl name' (c_acls s)) as [b|]; [|rewrite Ey; exact HA].
           unfold acl_parsed in *. rewrite Ei, Ex, Ey. exact HA.
      * cbn [c_rules]. rewrite raw_rules_app. cbn [raw_rules flat_map line_rule]. rewrite app_nil_r. exact HR.
      * cbn [c_rules c_acls]. intros r t Hr Ht. rewrite find_set. specialize (HN r t Hr Ht).
        destruct (list_eqb (snd t) name); [rewrite Ef; discriminate| exact HN].
    + destruct (parse_into (empty_data ty) ips txt) as [d|] eqn:Ep; [|discriminate]. inversion Hs; subst s'. clear Hs.
      split; [|split].
      * intros name'. cbn [c_acls]. rewrite find_acl_app. specialize (HA name').
        destruct (find_acl name' (c_acls s)) as [b|] eqn:Eb.
        -- assert (Hne : name <> name').
           { intros ->. rewrite Ef in Eb. discriminate. }
           unfold acl_parsed in *. rewrite acl_ips_app, acl_txt_app, acl_type_app.
           unfold acl_ips at 2, acl_txt at 2. cbn [flat_map line_ips line_txt].
           rewrite (proj2 (list_eqb_neq name name') Hne), !app_nil_r.
           destruct HA as (H1 & H2 & H3). rewrite H2. auto.
        -- cbn [a_name]. destruct (list_eqb name name') eqn:E.
           ++ apply list_eqb_spec in E. subst name'. unfold acl_parsed. cbn [a_name a_type a_data].
              split; [reflexivity|]. rewrite acl_type_app, HA. cbn [acl_type]. rewrite list_eqb_refl.
              split; [reflexivity|].
              assert (Ei : acl_ips pre name = []).
              { clear -HA. induction pre as [|l pre IH]; [reflexivity|]. cbn [acl_type] in HA. unfold acl_ips. cbn [flat_map].
                destruct l as [n ty' i x|? ?]; cbn [line_ips].
                - destruct (list_eqb n name); [discriminate|]. apply IH, HA.
                - apply IH, HA. }
              assert (Ex : acl_txt pre name = []).
              { clear -HA. induction pre as [|l pre IH]; [reflexivity|]. cbn [acl_type] in HA. unfold acl_txt. cbn [flat_map].
                destruct l as [n ty' i x|? ?]; cbn [line_txt].
                - destruct (list_eqb n name); [discriminate|]. apply IH, HA.
                - apply IH, HA. }
              rewrite acl_ips_app, acl_txt_app, Ei, Ex. unfold acl_ips, acl_txt. cbn [flat_map line_ips line_txt app].
              rewrite list_eqb_refl, !app_nil_r. exact Ep.
           ++ rewrite acl_type_app, HA. cbn [acl_type]. rewrite E. reflexivity.
      * cbn [c_rules]. rewrite raw_rules_app. cbn [raw_rules flat_map line_rule]. rewrite app_nil_r. exact HR.
      * cbn [c_rules c_acls]. intros r t Hr Ht. rewrite find_acl_app. specialize (HN r t Hr Ht).
        destruct (find_acl (snd t) (c_acls s)); [discriminate| contradiction].
  - (* http_access line *)
    destruct (forallb _ terms) eqn:Ef; [|discriminate].
    assert (HAcc : forall pre' : unit, (forall name, acl_ips (pre ++ [LAccess allow terms]) name = acl_ips pre name) /\                        (forall name, acl_txt (pre ++ [LAccess allow terms]) name = acl_txt pre name) /\                        (forall name, acl_type (pre ++ [LAccess allow terms]) name = acl_type pre name)).
    { intros _. repeat split; intros name.
      - rewrite acl_ips_app. unfold acl_ips at 2. cbn. apply app_nil_r.
      - rewrite acl_txt_app. unfold acl_txt at 2. cbn. apply app_nil_r.
      - rewrite acl_type_app. cbn [acl_type]. destruct (acl_type pre name); reflexivity. }
    destruct (HAcc tt) as (Ei & Ex & Ey).
    assert (HA' : forall name, match find_acl name (c_acls s) with
                               | Some a => acl_parsed (pre ++ [LAccess allow terms]) name a
                               | None => acl_type (pre ++ [LAccess allow terms]) name = None end).
    { intros name. specialize (HA name). destruct (find_acl name (c_acls s)); [|rewrite Ey; exact HA].
      unfold acl_parsed in *. rewrite Ei, Ex, Ey. exact HA. }
    destruct terms as [|t ts].
    + inversion Hs; subst s'. split; [exact HA'|]. split.
      * rewrite raw_rules_app. cbn [raw_rules flat_map line_rule]. rewrite app_nil_r. exact HR.
      * exact HN.
    + inversion Hs; subst s'. cbn [c_acls c_rules]. split; [exact HA'|]. split.
      * rewrite raw_rules_app, HR. reflexivity.
      * intros r t' Hr Ht. apply in_app_or in Hr. destruct Hr as [Hr|[<-|[]]]; [exact (HN r t' Hr Ht)|].
        cbn [snd] in Ht. cbn [c_acls]. rewrite forallb_forall in Ef. specialize (Ef t' Ht).
        destruct (find_acl (snd t') (c_acls s)); [discriminate| discriminate Ef].
Qed.

Lemma cfg_steps_parsed rest : forall pre s s', parsed pre s -> cfg_steps s rest = Some s' -> parsed (pre ++ rest) s'.
Proof.
  induction rest as [|l rest IH]; intros pre s s' HP Hs; cbn [cfg_steps] in Hs.
  - inversion Hs; subst. rewrite app_nil_r. exact HP.
  - destruct (cfg_step s l) as [s1|] eqn:E; [|discriminate].
    replace (pre ++ l :: rest) with ((pre ++ [l]) ++ rest) by (rewrite <- app_assoc; reflexivity).
    apply (IH _ s1); [apply (cfg_step_parsed pre s l s1 HP E)| exact Hs].
Qed.

(* the rule list of the reference: the non-empty http_access lines, or "deny all" when there is none *)
Definition ref_rules (cfg : list line) : list rule :=
  match raw_rules cfg with [] => [(false, [(false, s_all)])] | rs => rs end.

Definition full (cfg : list line) : list line := predefined ++ cfg.

Theorem cfg_parse_parsed cfg s : cfg_parse cfg = Some s ->
  (forall name, match find_acl name (c_acls s) with
                | Some a => acl_parsed (full cfg) name a
                | None => acl_type (full cfg) name = None
                end) /\ c_rules s = ref_rules (full cfg) /\ (forall r t, In r (c_rules s) -> In t (snd r) -> find_acl (snd t) (c_acls s) <> None).
Proof.
  unfold cfg_parse, full. intros H.
  destruct (cfg_steps (mkC [] []) (predefined ++ cfg)) as [s1|] eqn:E1; [|discriminate].
  pose proof (cfg_steps_parsed _ [] _ _ parsed_nil E1) as P1. cbn [app] in P1.
  destruct (c_rules s1) as [|r0 rs0] eqn:ER.
  - pose proof (cfg_step_parsed _ _ _ _ P1 H) as (PA & PR & PN).
    destruct P1 as (PA1 & PR1 & _). rewrite ER in PR1.
    split; [|split].
    + intros name. specialize (PA name). destruct (find_acl name (c_acls s)) as [a|].
      * unfold acl_parsed in *. rewrite acl_ips_app, acl_txt_app, acl_type_app in PA.
        unfold acl_ips at 2, acl_txt at 2 in PA. cbn [flat_map line_ips line_txt default_rule acl_type] in PA.
        rewrite !app_nil_r in PA. destruct PA as (Q1 & Q2 & Q3). split; [exact Q1|]. split; [|exact Q3].
        destruct (acl_type (predefined ++ cfg) name); [exact Q2| discriminate].
      * rewrite acl_type_app in PA. destruct (acl_type (predefined ++ cfg) name); [discriminate| reflexivity].
    + rewrite PR, raw_rules_app. unfold ref_rules. cbn [app] in PR1 |- *. rewrite <- PR1. reflexivity.
    + exact PN.
  - inversion H; subst s1. destruct P1 as (PA & PR & PN). split; [exact PA|]. split; [|exact PN].
    unfold ref_rules. cbn [app] in PR |- *. rewrite <- PR, ER. reflexivity.
Qed.

(* ================================================================== *)
(* 3a. IP values (src, dst): C42                                       *)
Module IP := SquidV.AclipProofs.
Module IM := SquidV.AclipModel.

Definition W32 : N := 4294967296.

(* the values the property quantifies over: IPv4, ends ordered, prefix length 1..32, no host bits *)
Definition iptok_ok (t : iptok) : Prop :=
  match t with
  | IWord w => IM.parse_global w <> None
  | ISingle a => a < W32
  | ICidr a n => a < W32 /\ 1 <= n <= 32 /\ a mod 2 ^ (32 - n) = 0
  | IRange a b => a <= b /\ b < W32
  | IRangeCidr a b n => a <= b /\ b < W32 /\ 1 <= n <= 32 /\ a mod 2 ^ (32 - n) = 0 /\ b mod 2 ^ (32 - n) = 0
  end.

(* the set of (32-bit) addresses a value stands for *)
Definition ip_in (x : N) (t : iptok) : Prop :=
  match t with
  | IWord w => exists g6, IM.parse_global w = Some (true, g6)          (* all, ipv4 and the legacy spellings of all *)
  | ISingle a => x = a
  | ICidr a n => a <= x <= a + (2 ^ (32 - n) - 1)
  | IRange a b => a <= x <= b
  | IRangeCidr a b n => a <= x <= b + (2 ^ (32 - n) - 1)
  end.

Definition cv_of (t : iptok) : list IP.cval :=
  match t with
  | IWord _ => []
  | ISingle a => [IP.CNet (v4 a) 0]
  | ICidr a n => [IP.CNet (v4 a) (32 - n)]
  | IRange a b => [IP.CRange (v4 a) (v4 b) 0]
  | IRangeCidr a b n => [IP.CRange (v4 a) (v4 b) (32 - n)]
  end.

Lemma V4ANY_eq : IM.V4ANY = 65535 * W32. Proof. reflexivity. Qed.
Lemma TOP_big : W32 * W32 * W32 * W32 = IM.TOP. Proof. reflexivity. Qed.

Lemma pow_le_32 h : h <= 32 -> 0 < 2 ^ h /\ W32 = 2 ^ (32 - h) * 2 ^ h.
Proof.
  intros H. split; [apply IP.pow2_pos|]. rewrite <- N.pow_add_r. replace (32 - h + h) with 32 by lia. reflexivity.
Qed.

Lemma v4_aligned a h : h <= 32 -> a mod 2 ^ h = 0 -> v4 a mod 2 ^ h = 0.
Proof.
  intros Hh Ha. destruct (pow_le_32 h Hh) as [HP E]. unfold v4. rewrite V4ANY_eq, E.
  rewrite N.mul_assoc, N.add_comm, N.mod_add by lia. exact Ha.
Qed.

Lemma aligned_bound a P M : 0 < P -> a mod P = 0 -> M mod P = 0 -> a < M -> a + P <= M.
Proof.
  intros HP Ha HM Hlt.
  assert (Ea : a = P * (a / P)) by (apply N.div_exact; lia).
  assert (Em : M = P * (M / P)) by (apply N.div_exact; lia).
  set (q := a / P) in *. set (r := M / P) in *. clearbody q r. clear Ha HM.
  assert (Hq : q < r) by (apply (N.mul_lt_mono_pos_l P); lia).
  assert (Hm : P * (q + 1) <= P * r) by (apply N.mul_le_mono_l; lia).
  rewrite N.mul_add_distr_l, N.mul_1_r in Hm. lia.
Qed.

Lemma w32_aligned h : h <= 32 -> W32 mod 2 ^ h = 0.
Proof.
  intros Hh. destruct (pow_le_32 h Hh) as [HP E]. rewrite E. apply N.mod_mul. lia.
Qed.

Lemma v4_lt_top a : a < W32 -> v4 a < IM.TOP.
Proof. intros H. unfold v4. rewrite V4ANY_eq, <- TOP_big. unfold W32 in *. lia. Qed.

Lemma v4_is_v4 a : a < W32 -> IM.isIPv4 (v4 a) = true.
Proof. intros H. apply IP.isIPv4_range. unfold v4, IM.V4NO. rewrite V4ANY_eq. unfold W32 in *. lia. Qed.

Lemma tok_plain_not_global : IM.parse_global tok_plain = None. Proof. reflexivity. Qed.

Lemma cidr_val a n : a < W32 -> 1 <= n <= 32 -> a mod 2 ^ (32 - n) = 0 ->
  IM.mask_of_cidr n true = Some (IP.pmask (32 - n)) /\ IM.applyMask (v4 a) (IP.pmask (32 - n)) = v4 a.
Proof.
  intros Ha Hn Hal. split; [apply (IP.mask_of_cidr_pmask n true); lia|].
  unfold IM.applyMask. rewrite IP.land_pmask by (try apply v4_lt_top; lia).
  symmetry. apply IP.aligned_mul; [pose proof (IP.pow2_pos (32 - n)); lia|]. apply v4_aligned; [lia| exact Hal].
Qed.

(* FactoryParse() stores for a well-formed value exactly the triple C42 reasons about *)
Lemma ip_spec_cv t : iptok_ok t ->
  IP.tok_parsed (ip_spec t) /\ IP.tok_vals (ip_spec t) = map IP.cv_val (cv_of t) /\
  Forall IP.cv_ok (cv_of t) /\ Forall IP.v4_only (cv_of t).
Proof.
  destruct t as [w|a|a n|a b|a b n]; cbn [iptok_ok ip_spec cv_of map]; intros H.
  - destruct (IM.parse_global w) as [g|] eqn:E; [|contradiction].
    split; [left; cbn [fst]; rewrite E; discriminate|]. unfold IP.tok_vals. cbn [fst]. rewrite E. auto.
  - split; [right; eexists; reflexivity|]. unfold IP.tok_vals. cbn [fst snd]. rewrite tok_plain_not_global.
    split; [cbn [IP.cv_val]; rewrite IP.pmask_0; reflexivity|].
    pose proof (v4_lt_top a H). split; constructor; try constructor.
    + cbn [IP.cv_ok]. rewrite N.pow_0_r, N.mod_1_r. lia.
    + unfold IP.v4_only. cbn [IP.cv_lo IP.cv_hi]. rewrite N.pow_0_r, N.add_0_r. split; apply v4_is_v4, H.
  - destruct H as (Ha & Hn & Hal). destruct (cidr_val a n Ha Hn Hal) as [Em Ev]. rewrite Em, Ev.
    split; [right; eexists; reflexivity|]. unfold IP.tok_vals. cbn [fst snd]. rewrite tok_plain_not_global.
    unfold IM.applyMask. rewrite N.land_0_l. split; [reflexivity|].
    destruct (pow_le_32 (32 - n) ltac:(lia)) as [HP _].
    pose proof (aligned_bound a (2 ^ (32 - n)) W32 HP Hal (w32_aligned _ ltac:(lia)) Ha) as Hb.
    split; constructor; try constructor.
    + cbn [IP.cv_ok]. split; [lia|]. split; [apply v4_lt_top, Ha|]. apply v4_aligned; [lia| exact Hal].
    + unfold IP.v4_only. cbn [IP.cv_lo IP.cv_hi]. split; [apply v4_is_v4, Ha|].
      replace (v4 a + (2 ^ (32 - n) - 1)) with (v4 (a + (2 ^ (32 - n) - 1))) by (unfold v4; lia). apply v4_is_v4. lia.
  - destruct H as (Hab & Hb).
    split; [right; eexists; reflexivity|]. unfold IP.tok_vals. cbn [fst snd]. rewrite tok_plain_not_global.
    split; [cbn [IP.cv_val]; rewrite IP.pmask_0; reflexivity|].
    pose proof (v4_lt_top b Hb). split; constructor; try constructor.
    + cbn [IP.cv_ok]. rewrite N.pow_0_r, !N.mod_1_r. unfold v4 in *. repeat split; try lia.
    + unfold IP.v4_only. cbn [IP.cv_lo IP.cv_hi]. rewrite N.pow_0_r, N.add_0_r. split; apply v4_is_v4; lia.
  - destruct H as (Hab & Hb & Hn & Hala & Halb). assert (Ha : a < W32) by lia.
    destruct (cidr_val a n Ha Hn Hala) as [Em Eva]. destruct (cidr_val b n Hb Hn Halb) as [_ Evb]. rewrite Em, Eva, Evb.
    split; [right; eexists; reflexivity|]. unfold IP.tok_vals. cbn [fst snd]. rewrite tok_plain_not_global.
    split; [reflexivity|].
    destruct (pow_le_32 (32 - n) ltac:(lia)) as [HP _].
    pose proof (aligned_bound b (2 ^ (32 - n)) W32 HP Halb (w32_aligned _ ltac:(lia)) Hb) as Hbb.
    split; constructor; try constructor.
    + cbn [IP.cv_ok]. pose proof (v4_lt_top b Hb). pose proof (v4_aligned a (32 - n) ltac:(lia) Hala).
      pose proof (v4_aligned b (32 - n) ltac:(lia) Halb). unfold v4 in *. repeat split; try lia.
    + unfold IP.v4_only. cbn [IP.cv_lo IP.cv_hi]. split; [apply v4_is_v4, Ha|].
      replace (v4 b + (2 ^ (32 - n) - 1)) with (v4 (b + (2 ^ (32 - n) - 1))) by (unfold v4; lia). apply v4_is_v4. lia.
Qed.

Lemma ip_in_cv x t : iptok_ok t ->
  (ip_in x t <-> (exists w g6, t = IWord w /\ IM.parse_global w = Some (true, g6)) \/
                 (exists c, In c (cv_of t) /\ IP.cv_in (v4 x) c)).
Proof.
  destruct t as [w|a|a n|a b|a b n]; cbn [iptok_ok ip_in cv_of In]; intros H.
  - split.
    + intros [g6 E]. left. exists w, g6. auto.
    + intros [(w' & g6 & E1 & E2)|(c & [] & _)]. inversion E1; subst. exists g6. exact E2.
  - split.
    + intros ->. right. eexists. split; [left; reflexivity|]. unfold IP.cv_in. cbn [IP.cv_lo IP.cv_hi]. rewrite N.pow_0_r. lia.
    + intros [(w & g6 & E & _)|(c & [<-|[]] & Hc)]; [discriminate|]. unfold IP.cv_in in Hc. cbn [IP.cv_lo IP.cv_hi] in Hc.
      rewrite N.pow_0_r in Hc. unfold v4 in Hc. lia.
  - split.
    + intros Hx. right. eexists. split; [left; reflexivity|]. unfold IP.cv_in. cbn [IP.cv_lo IP.cv_hi]. unfold v4. lia.
    + intros [(w & g6 & E & _)|(c & [<-|[]] & Hc)]; [discriminate|]. unfold IP.cv_in in Hc. cbn [IP.cv_lo IP.cv_hi] in Hc.
      unfold v4 in Hc. lia.
  - split.
    + intros Hx. right. eexists. split; [left; reflexivity|]. unfold IP.cv_in. cbn [IP.cv_lo IP.cv_hi]. rewrite N.pow_0_r. unfold v4. lia.
    + intros [(w & g6 & E & _)|(c & [<-|[]] & Hc)]; [discriminate|]. unfold IP.cv_in in Hc. cbn [IP.cv_lo IP.cv_hi] in Hc.
      rewrite N.pow_0_r in Hc. unfold v4 in Hc. lia.
  - split.
    + intros Hx. right. eexists. split; [left; reflexivity|]. unfold IP.cv_in. cbn [IP.cv_lo IP.cv_hi]. unfold v4. lia.
    + intros [(w & g6 & E & _)|(c & [<-|[]] & Hc)]; [discriminate|]. unfold IP.cv_in in Hc. cbn [IP.cv_lo IP.cv_hi] in Hc.
      unfold v4 in Hc. lia.
Qed.

Definition cvs (ips : list iptok) : list IP.cval := flat_map cv_of ips.

Lemma ips_facts ips : Forall iptok_ok ips ->
  Forall IP.tok_parsed (map ip_spec ips) /\ IP.vals_of (map ip_spec ips) = map IP.cv_val (cvs ips) /\
  Forall IP.cv_ok (cvs ips) /\ Forall IP.v4_only (cvs ips) /\
  (IP.any4 (map ip_spec ips) = true <-> exists w g6, In (IWord w) ips /\ IM.parse_global w = Some (true, g6)).
Proof.
  induction ips as [|t ips IH]; intros H.
  - cbn. repeat split; try constructor; [discriminate| intros (w & g6 & [] & _)].
  - inversion H as [|? ? Ht Hr]; subst. destruct (IH Hr) as (I1 & I2 & I3 & I4 & I5).
    destruct (ip_spec_cv t Ht) as (S1 & S2 & S3 & S4).
    split; [constructor; assumption|]. split.
    { unfold IP.vals_of, cvs in *. cbn [map flat_map]. rewrite map_app, <- S2, <- I2. reflexivity. }
    split; [unfold cvs; cbn [flat_map]; apply Forall_app; auto|].
    split; [unfold cvs; cbn [flat_map]; apply Forall_app; auto|].
    unfold IP.any4 in *. cbn [map existsb]. rewrite Bool.orb_true_iff, I5. split.
    + intros [Hh|(w & g6 & Hin & E)]; [|exists w, g6; split; [right; exact Hin| exact E]].
      destruct t as [w|a|a n|a b|a b n]; cbn [ip_spec fst] in Hh; try (rewrite tok_plain_not_global in Hh; discriminate).
      destruct (IM.parse_global w) as [[g4 g6]|] eqn:E; [|discriminate]. subst g4. exists w, g6. split; [left; reflexivity| exact E].
    + intros (w & g6 & [->|Hin] & E); [left; cbn [ip_spec fst]; rewrite E; reflexivity| right; exists w, g6; auto].
Qed.

(* the invariant of an ACLIP object whose lines listed [ips] *)
Definition ip_inv (ips : list iptok) (f4 f6 : bool) (t : tree IM.ipval) : Prop :=
  f4 = IP.any4 (map ip_spec ips) /\ f6 = IP.any6 (map ip_spec ips) /\ IP.stored_ok (cvs ips) t.

Lemma ip_parse_inv ips f4 f6 t n : Forall iptok_ok ips ->
  IM.acl_parse_from false false (@Leaf _) 0%Z (map ip_spec ips) = IM.POk f4 f6 t n -> ip_inv ips f4 f6 t.
Proof.
  intros H E. destruct (ips_facts ips H) as (I1 & I2 & I3 & I4 & _).
  pose proof (IP.v4_lists_quirk_free (cvs ips) 0 I3 I4) as Q.
  destruct (IP.acl_parse_ok _ _ I1 I2 I3 (IP.quirk_free_vals_of _ _ Q)) as (t' & n' & E' & St).
  unfold IM.acl_parse in E'. rewrite E in E'. inversion E'; subst. split; [reflexivity|]. split; [reflexivity| exact St].
Qed.

(* ACLIP::match(address): the invariant survives, the answer is membership in the union *)
Lemma ip_lookup ips f4 f6 t x : Forall iptok_ok ips -> ip_inv ips f4 f6 t -> x < W32 ->
  ip_inv ips f4 f6 (fst (IM.acl_match f4 f6 t (v4 x))) /\
  (snd (IM.acl_match f4 f6 t (v4 x)) = true <-> exists tk, In tk ips /\ ip_in x tk).
Proof.
  intros H (E4 & E6 & St) Hx. destruct (ips_facts ips H) as (I1 & I2 & I3 & I4 & I5).
  pose proof (IP.v4_lists_quirk_free (cvs ips) (v4 x) I3 I4) as Q.
  destruct (IP.acl_match_ok (cvs ips) t f4 f6 (v4 x) I3 St (v4_lt_top x Hx) Q) as [St' Hm].
  split; [split; [exact E4|]; split; [exact E6| exact St']|].
  rewrite Hm. unfold IP.acl_spec. rewrite (v4_is_v4 x Hx). rewrite Forall_forall in H. split.
  - intros [[F _]|[[F _]|[[_ F]|(c & Hc & Hin)]]]; try discriminate.
    1,2: rewrite E4 in F; apply I5 in F; destruct F as (w & g6 & Hw & E); exists (IWord w); split; [exact Hw| exists g6; exact E].
    unfold cvs in Hc. apply in_flat_map in Hc. destruct Hc as (tk & Htk & Hc). exists tk. split; [exact Htk|].
    apply (ip_in_cv x tk (H tk Htk)). right. exists c. auto.
  - intros (tk & Htk & Hin). apply (ip_in_cv x tk (H tk Htk)) in Hin.
    destruct Hin as [(w & g6 & -> & E)|(c & Hc & Hin)].
    + right. left. split; [|reflexivity]. rewrite E4. apply I5. exists w, g6. auto.
    + right. right. right. exists c. split; [|exact Hin]. unfold cvs. apply in_flat_map. exists tk. auto.
Qed.
