(* handlers for the reuse area (C11).
   lists of byte strings: "." = empty list, otherwise comma-separated hex ("-" = empty string) *)
let blist (s : string) : n list list =
  if s = "." then [] else List.map bytes_of_hex (String.split_on_char ',' s)
let t0 : z = z_of_string "1700000000"
let zadd = Z.add
let opt_time (s : string) : z option = if s = "none" then None else Some (zadd t0 (z_of_string s))
let zopt = function None -> "-" | Some v -> string_of_z v
let show_cc (c : cc) : string =
  let b x = if x then "1" else "0" in
  Printf.sprintf "pub=%s priv=%s nc=%s ns=%s nt=%s mr=%s pr=%s oic=%s imm=%s ma=%s sma=%s ms=%s mf=%s sie=%s pp=%s ncp=%s ncwo=%s%s"
    (b c.m_public) (b c.m_private) (b c.m_no_cache) (b c.m_no_store) (b c.m_no_transform) (b c.m_must_revalidate)
    (b c.m_proxy_revalidate) (b c.m_only_if_cached) (b c.m_immutable) (zopt c.v_max_age) (zopt c.v_s_maxage)
    (zopt c.v_max_stale) (zopt c.v_min_fresh) (zopt c.v_stale_if_error) (b c.private_has_params) (b (c.m_no_cache && c.no_cache_has_params))
    (b (c.m_no_cache && not c.no_cache_has_params)) (if c.fuel_out then " FUEL" else "")
let outcome_s = function
  | NotForwarded -> "none" | Hit -> "none" | Refused -> "none" | Revalidate -> "cond" | Miss -> "plain"

let () =
  (* reuse.cc <values>: HttpHeader::getCc over the given Cache-Control field values *)
  reg "reuse.cc" (fun [vals] ->
    match cc_of_values (blist vals) with None -> "null" | Some c -> show_cc c);
  reg "reuse.items" (fun [v] -> String.concat "|" (List.map hex_of_bytes (cc_items (bytes_of_hex v))));
  reg "reuse.int" (fun [v] -> match parse_int (bytes_of_hex v) with None -> "fail" | Some z -> "ok " ^ string_of_z z);
  reg "reuse.member" (fun [vals; m] -> b2s (has_list_member (blist vals) (bytes_of_hex m)));
  (* reuse.e2e method status auth req_pragma req_cc resp_cc date expires lm ctype clen resp_pragma negative_ttl(0 = default) *)
  reg "reuse.e2e" (fun [m; st; auth; qpr; qcc; pcc; date; exp; lm; ct; cl; ppr; negttl] ->
    let q = { q_method = bytes_of_hex m; q_cc_vals = blist qcc; q_pragma_vals = blist qpr;
              q_has_authorization = (auth = "1"); q_has_userinfo = false; q_ims = false } in
    let p = { p_status = n_of_string st; p_cc_vals = blist pcc; p_pragma_vals = blist ppr; p_date = opt_time date;
              p_expires = (if exp = "none" then ExpAbsent else if exp = "bad" then ExpInvalid
                           else ExpAt (zadd t0 (z_of_string exp)));
              p_last_modified = opt_time lm;
              p_content_type = (if ct = "none" then None else Some (bytes_of_hex ct));
              p_content_length = z_of_string cl } in
    let cf = { default_config with negative_ttl = (if negttl = "0" then default_config.negative_ttl else z_of_string negttl) } in
    let o = two_requests cf plain_hstate q p t0 (z_of_string "1") in
    "first=" ^ string_of_n (first_arrivals q) ^ " second=" ^ outcome_s o)
