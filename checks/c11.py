"""C11: responses forbidden to be stored are never served from cache (end to end through the real squid)."""
import concurrent.futures, json, os, random, time
from vlib import std, lab, common

PID = "C11"
META = {
    "text": "TODO",
    "note": "TODO",
    "technique": "TODO",
}

# ------------------------------------------------------------------ scenarios
# A scenario is one URL requested twice with identical request headers:
#   method, req_cc [Cache-Control field values], auth (Authorization value or None), req_pragma (value or None),
#   status, resp_cc [Cache-Control field values], date / lm (offset in seconds from "now" or None),
#   expires (offset, "bad" for an unparsable value, or None), ctype, blen (body length), resp_pragma, etag
RESP_EXT = ["foo", "foo=bar", "x-ext=\"a,b\"", "community=\"UCI\"", "stale-while-revalidate=30", "no-storex", "xno-store",
            "privately", "\"no-store\"", "\"private\""]
REQ_EXT = ["foo", "x-req=\"a, b\"", "no-storey", "stale-if-error=10", "no-transform"]
CTYPES = [None, "text/plain", "text/html; charset=utf-8", "multipart/x-mixed-replace; boundary=x",
          "Multipart/X-Mixed-Replace", "multipart/x-mixed-replaced", "multipart/mixed"]
STATUSES_OK = [200, 200, 200, 200, 200, 200, 203, 300, 301, 308, 410]
STATUSES_OTHER = [302, 307, 204, 303, 400, 401, 403, 404, 405, 414, 500, 501, 502, 503, 504, 206, 406, 409, 201, 202, 451, 299]


def randcase(rng, s):
    k = rng.random()
    if k < 0.55: return s
    if k < 0.7: return s.upper()
    if k < 0.8: return s.capitalize()
    return "".join(c.upper() if rng.random() < 0.5 else c.lower() for c in s)


def case_name(rng, d):
    """random letter case for the directive name only (the argument keeps its case)"""
    if "=" in d:
        n, v = d.split("=", 1)
        return randcase(rng, n) + "=" + v
    return randcase(rng, d)


def join_fields(rng, ds):
    """split a directive list into 1..3 field values with random separators / OWS / empty elements"""
    if not ds:
        return []
    nf = 1 if rng.random() < 0.7 else rng.randrange(1, 4)
    fields = [[] for _ in range(nf)]
    for d in ds:
        fields[rng.randrange(nf)].append(d)
    out = []
    for f in fields:
        v = ""
        if rng.random() < 0.08: v += rng.choice([",", ", ", " ,"])
        for i, d in enumerate(f):
            v += d
            if i + 1 < len(f):
                v += rng.choice([",", ", ", ", ", ", ", " ,", " , ", ",,", ", ,", ",\t"])
        if rng.random() < 0.08: v += rng.choice([",", " ,", ", ,"])
        out.append(v.strip(" \t"))
    return out


def gen_one(rng, k):
    s = {"method": "GET", "req_cc": [], "auth": None, "req_pragma": None, "status": 200, "resp_cc": [], "date": 0,
         "expires": None, "lm": None, "ctype": None, "blen": rng.choice([0, 1, 5, 5, 5, 20, 20, 300]), "resp_pragma": None,
         "etag": rng.random() < 0.3}
    # ---- status
    s["status"] = rng.choice(STATUSES_OK) if rng.random() < 0.78 else rng.choice(STATUSES_OTHER)
    if s["status"] in (204,):
        s["blen"] = 0
    # ---- freshness information (most scenarios would be hits if nothing forbids it)
    rd = []
    f = rng.random()
    if f < 0.30: rd.append("max-age=%d" % rng.choice([3600, 86400, 600, 31536000]))
    elif f < 0.42: rd.append("s-maxage=%d" % rng.choice([3600, 7200]))
    elif f < 0.60: s["expires"] = rng.choice([3600, 86400, 7200])
    elif f < 0.72: s["lm"] = -rng.choice([864000, 8640000, 4000000])
    elif f < 0.78: rd.append("max-age=%d" % rng.choice([3600, 600])); s["expires"] = -1000
    elif f < 0.84: s["expires"] = rng.choice([-1000, 0, "bad", -100000])
    elif f < 0.89: rd.append(rng.choice(["max-age=0", "s-maxage=0", "max-age=-1", "max-age=abc", "max-age", "max-age=99999999999",
                                         "max-age=\"3600\"", "max-age= 3600", "max-age=3600x", "s-maxage=+3600"]))
    # else: no freshness information at all
    if rng.random() < 0.25 and s["lm"] is None:
        s["lm"] = -rng.choice([864000, 100000, 50])
    d = rng.random()
    if d < 0.80: s["date"] = 0
    elif d < 0.87: s["date"] = None
    elif d < 0.93: s["date"] = -rng.choice([1000, 7200, 90000, 200000])
    else: s["date"] = rng.choice([1000, 7200, 100000])
    # ---- response directives
    if rng.random() < 0.16: rd.append(rng.choice(["no-store", "no-store", "no-store=x", "no-store=\"y\""]))
    if rng.random() < 0.16: rd.append(rng.choice(["private", "private", "private=\"set-cookie\"", "private=\"a, b\"", "private=x",
                                                 "private=\"", "private=\"\""]))
    if rng.random() < 0.14: rd.append(rng.choice(["no-cache", "no-cache", "no-cache=\"set-cookie\"", "no-cache=\"\"", "no-cache=x",
                                                 "no-cache=\"a,b\"", "no-cache=\"x"]))
    if rng.random() < 0.20: rd.append("public")
    if rng.random() < 0.12: rd.append("must-revalidate")
    if rng.random() < 0.08: rd.append("proxy-revalidate")
    if rng.random() < 0.05: rd.append("immutable")
    if rng.random() < 0.05: rd.append("no-transform")
    if rng.random() < 0.20: rd.append(rng.choice(RESP_EXT))
    if rd and rng.random() < 0.15: rd.append(rng.choice(rd))          # duplicate
    if rng.random() < 0.04: rd.append(rng.choice(["max-age=0", "max-age=7200", "s-maxage=0", "s-maxage=100000"]))
    rng.shuffle(rd)
    s["resp_cc"] = join_fields(rng, [case_name(rng, x) for x in rd])
    if rng.random() < 0.04: s["resp_cc"].append("")
    if rng.random() < 0.06: s["resp_pragma"] = rng.choice(["no-cache", "No-Cache", "no-cache, x", "x, no-cache", "no-cachex", "foo"])
    if rng.random() < 0.12: s["ctype"] = rng.choice(CTYPES[1:])
    # ---- request
    qd = []
    if rng.random() < 0.12: qd.append(rng.choice(["no-store", "no-store", "no-store=1"]))
    if rng.random() < 0.10: qd.append(rng.choice(["no-cache", "no-cache", "no-cache=\"x\"", "no-cache=x"]))
    if rng.random() < 0.10: qd.append(rng.choice(["max-age=0", "max-age=100000", "max-age=3600", "max-age=x", "max-age"]))
    if rng.random() < 0.08: qd.append(rng.choice(["max-stale", "max-stale=100000", "max-stale=0", "max-stale=x"]))
    if rng.random() < 0.08: qd.append(rng.choice(["min-fresh=0", "min-fresh=100", "min-fresh=1000000", "min-fresh=x"]))
    if rng.random() < 0.03: qd.append("only-if-cached")
    if rng.random() < 0.10: qd.append(rng.choice(REQ_EXT))
    if qd and rng.random() < 0.1: qd.append(rng.choice(qd))
    rng.shuffle(qd)
    s["req_cc"] = join_fields(rng, [case_name(rng, x) for x in qd])
    if rng.random() < 0.05: s["req_pragma"] = rng.choice(["no-cache", "NO-CACHE", "no-cache , x", "x, no-cache", "foo", "no-cache=1"])
    if rng.random() < 0.28: s["auth"] = rng.choice(["Basic YTpi", "Bearer abc.def", "Digest username=\"a\""])
    if rng.random() < 0.04: s["method"] = rng.choice(["HEAD", "POST", "OPTIONS"]) if False else "GET"
    return s


def gen_scenarios(rng, n):
    return [gen_one(rng, k) for k in range(n)]


# ------------------------------------------------------------------ model case line
def hexs(s):
    b = s.encode("latin1")
    return b.hex() if b else "-"


def hexlist(l):
    return ",".join(hexs(x) for x in l) if l else "."


def opt(x):
    return "none" if x is None else str(x)


def to_case(s):
    return "reuse.e2e %s %d %d %s %s %s %s %s %s %s %d %s" % (
        hexs(s["method"]), s["status"], 1 if s["auth"] else 0,
        hexlist([s["req_pragma"]] if s["req_pragma"] is not None else []), hexlist(s["req_cc"]), hexlist(s["resp_cc"]),
        opt(s["date"]), opt(s["expires"]), opt(s["lm"]), "none" if s["ctype"] is None else hexs(s["ctype"]), s["blen"],
        hexlist([s["resp_pragma"]] if s["resp_pragma"] is not None else []))


# ------------------------------------------------------------------ implementation side
_state = {}


def _one(args):
    sq, org, s, rid = args
    t0 = int(time.time())
    hs = []
    if s["date"] is not None:
        hs.append(["Date", lab.http_date(t0 + s["date"])])
    if s["expires"] is not None:
        hs.append(["Expires", "0" if s["expires"] == "bad" else lab.http_date(t0 + s["expires"])])
    if s["lm"] is not None:
        hs.append(["Last-Modified", lab.http_date(t0 + s["lm"])])
    for v in s["resp_cc"]:
        hs.append(["Cache-Control", v])
    if s["resp_pragma"] is not None:
        hs.append(["Pragma", s["resp_pragma"]])
    if s["ctype"] is not None:
        hs.append(["Content-Type", s["ctype"]])
    if s.get("etag"):
        hs.append(["ETag", "\"e-%s\"" % rid])
    spec = {"status": s["status"], "headers": hs, "body": "b" * s["blen"]}
    if s["date"] is None:
        spec["nodate"] = True
    url = org.url(spec, rid)
    rh = []
    for v in s["req_cc"]:
        rh.append(("Cache-Control", v))
    if s["req_pragma"] is not None:
        rh.append(("Pragma", s["req_pragma"]))
    if s["auth"]:
        rh.append(("Authorization", s["auth"]))
    r1, _ = lab.get(sq.port, url, headers=rh, method=s["method"])
    n1 = len(org.arrivals(rid))
    r2, _ = lab.get(sq.port, url, headers=rh, method=s["method"])
    arr = org.arrivals(rid)
    if len(arr) == n1:
        second = "none"
    else:
        h = set(n.lower() for n, _ in arr[n1]["headers"])
        second = "cond" if ("if-modified-since" in h or "if-none-match" in h) else "plain"
    _state.setdefault("detail", {})[rid] = (r1.status if r1 else None, r2.status if r2 else None)
    return "first=%d second=%s" % (n1, second)


def run_impl(L, scenarios):
    if "sq" not in _state or not _state["sq"].alive():
        _state["org"] = L.origin()
        _state["sq"] = L.squid(cache_mem="64 MB")
        _state["n"] = 0
    sq, org = _state["sq"], _state["org"]
    jobs = []
    for s in scenarios:
        _state["n"] += 1
        jobs.append((sq, org, s, "r%d" % _state["n"]))
    with concurrent.futures.ThreadPoolExecutor(max_workers=8) as ex:
        return list(ex.map(_one, jobs))


# ------------------------------------------------------------------ oracle (the property, on what squid did)
def directives(values):
    """independent reading of Cache-Control field values: comma-separated elements outside quoted strings,
    OWS-trimmed; returns {lower-case name: argument text or None}"""
    out = {}
    for v in values:
        cur, q, i, elems = "", False, 0, []
        while i < len(v):
            c = v[i]
            if q:
                cur += c
                if c == "\\" and i + 1 < len(v):
                    cur += v[i + 1]; i += 1
                elif c == '"':
                    q = False
            elif c == '"':
                q = True; cur += c
            elif c == ",":
                elems.append(cur); cur = ""
            else:
                cur += c
            i += 1
        elems.append(cur)
        for e in elems:
            e = e.strip(" \t")
            if not e:
                continue
            n, _, a = e.partition("=")
            out.setdefault(n.lower(), a if "=" in e else None)
    return out


def forbidden_reason(s):
    rd, qd = directives(s["resp_cc"]), directives(s["req_cc"])
    if "no-store" in rd: return "resp-no-store"
    if "private" in rd: return "resp-private"
    if "no-store" in qd: return "req-no-store"
    if s["auth"]:
        smax = rd.get("s-maxage")
        if not ("public" in rd or "must-revalidate" in rd or (smax is not None and smax.isdigit())):
            return "auth"
    return None


def oracle(s, obs):
    if not obs.startswith("first="):
        return ("oracle:no-transaction", "the transaction did not complete: " + obs)
    why = forbidden_reason(s)
    if why and obs.endswith("second=none") and not obs.startswith("first=0 "):
        return ("oracle:served-from-cache:" + why,
                "the second identical request was answered without contacting the origin although storing was forbidden (%s)" % why)
    return None


def run(res, tier):
    res.rule = ("TODO")
    std.run_lab(res, PID, tier, area="reuse", gens=["hdrtable", "reuse", "reusecfg"], gen_scenarios=gen_scenarios,
                run_impl=run_impl, to_case=to_case, oracle=oracle, corr_name="ReuseModel (second_request) vs the running squid",
                n_quick=300, n_thorough=8000, seed_salt=11,
                kind_fn=lambda s, o: o.split()[-1] + (":forbidden" if forbidden_reason(s) else ":allowed"),
                nontrivial_fn=lambda s, o: forbidden_reason(s) is not None)
    _state.clear()


# ------------------------------------------------------------------ unit-level correspondence (Cache-Control reader)
UNIT_NAMES = ["public", "private", "no-cache", "no-store", "no-transform", "must-revalidate", "proxy-revalidate", "max-age",
              "s-maxage", "max-stale", "min-fresh", "only-if-cached", "stale-if-error", "immutable", "Other", "Other,", "foo",
              "no-stor", "no-storee", "x-no-store", "privat", "", "max_age"]
UNIT_ARGS = ["", "0", "5", "3600", "-1", "-0", "+7", " 9", "9 ", "12x", "x12", "abc", "2147483647", "2147483648", "-2147483648",
             "-2147483649", "4294967396", "9223372036854775807", "9223372036854775808", "99999999999999999999999", "0x10",
             "\"\"", "\"x\"", "\"a,b\"", "\"a, no-store\"", "\"a\\\"b\"", "\"a\\\\\"", "\"a\\", "\"unterminated", "\"x\"y", "x\"y\"",
             "\" \"", "\"\t\"", "\"a\x01b\"", "\"a\x7fb\"", "\"\\", "\"", "=", "\"=\"", "1,5", "\"é\""]
UNIT_SEPS = [",", ", ", " ,", " , ", ",,", ", ,", ",\t", "\t,", ";", " ", ",\x0b", ",\x0c,", "\r\n ,", ",\n"]


def gen_unit_cases(rng, n):
    out = []
    for k in range(n):
        r = rng.random()
        if r < 0.70:
            nv = rng.choice([1, 1, 1, 2, 3])
            vals = []
            for _ in range(nv):
                v = ""
                if rng.random() < 0.1: v += rng.choice(UNIT_SEPS)
                for i in range(rng.randrange(0, 5)):
                    d = randcase(rng, rng.choice(UNIT_NAMES))
                    if rng.random() < 0.45:
                        d += rng.choice(["=", "=", "=", " =", "= "]) + rng.choice(UNIT_ARGS)
                    v += d + rng.choice(UNIT_SEPS)
                if rng.random() < 0.5: v = v.rstrip(", \t")
                if rng.random() < 0.03: v += "\x00no-store"
                vals.append(v)
            out.append("reuse.cc " + hexlist(vals))
        elif r < 0.80:
            out.append("reuse.int " + hexs(rng.choice(UNIT_ARGS) if rng.random() < 0.6 else
                                          rng.choice(["", " ", "\t", "-", "+", "- 1", "+-1"]) + str(rng.randrange(0, 1 << rng.choice([4, 31, 32, 33, 63, 64, 70])))
                                          + rng.choice(["", "", " ", "x", ","])))
        elif r < 0.90:
            v = ""
            for i in range(rng.randrange(0, 5)):
                v += rng.choice(["a", "b c", "\"q,r\"", "x=\"1,2\"", "", " ", "\"open", "no-cache"]) + rng.choice(UNIT_SEPS)
            out.append("reuse.items " + hexs(v))
        else:
            vals = [rng.choice(["no-cache", "No-Cache", "no-cache , x", "x, no-cache", "no-cachex", "no-cache=1", "no-cache;q", "x,no-cache,y",
                                "no-cach", "", "\"no-cache\"", "a\"b,no-cache\"", " no-cache"]) for _ in range(rng.choice([1, 1, 2]))]
            out.append("reuse.member %s %s" % (hexlist(vals), hexs("no-cache")))
    return out
