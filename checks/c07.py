"""C07: non-idempotent requests are not resent after reaching the origin (end to end through the real squid).

Implementation side: the squid binary built from /repo's working tree, between raw-socket clients, a DNS stub that
gives every scenario its own host name with 1-3 loopback addresses (= forwarding paths), and an origin stub that owns
one listening socket per path and applies a scripted behaviour to every attempt it sees on that path
(lab/retry_stub.py). Model side: the extracted FwdState attempt machine (coq/RetryModel.v) driven against the same
scripted environment."""
import concurrent.futures, importlib.util, json, os, random, threading, time
from vlib import std, lab, common

PID = "C07"
META = {
    "text": "Theorems (Properties_C07.v, closed under the global context) about the FwdState attempt machine transcribed "
            "from src/FwdState.cc (checkRetry, checkRetriable, retryOrBail, reforward incl. its `err && !checkRetriable()` test, "
            "complete, fail/reactToZeroSizeObject, noteDestination*, useDestinations, connectStart, noteConnection, dispatch, "
            "usePinned), the HappyConnOpener attempt loop, PconnPool::pop's close-if-not-retriable rule, "
            "ResolvedPeers::reinstatePath, bodyNibbled and the failure exits of HttpStateData, with isHttpSafe/isIdempotent and "
            "IsReforwardableStatus regenerated from the code each run: for EVERY configuration and EVERY sequence of environment "
            "events (destinations arriving at any time, idle persistent connections, connects failing or succeeding, zero-size "
            "replies, read/write errors, timeouts, truncated headers, replies cut in the body, the persistent-connection race, "
            "pinned connections, aborts, shutdown, time running out) in which no COMPLETE re-forwardable reply arrived, a request "
            "that checkRetriable() rejects -- method neither safe nor idempotent, or a body present -- is written on a connection "
            "at most once; in general sends <= 1 + number of completely received replies (every reforward() decision for such a "
            "request needs a whole reply) and sends <= 1 + reforward() decisions; POST and extension methods (PATCH is one in "
            "this tree) are such methods per the regenerated table; once request body bytes were consumed the request is never "
            "sent again; a failed connect (nothing sent) may still be followed by one send; GET is retried on another path and "
            "after a pconn race (non-vacuity). Stated as outside the property: a completely received 502/504 (403/500/501/503 "
            "with retry_on_error) reply is not a connection failure and is re-forwarded whatever the method.",
    "note": "partial: the theorems are about the transcribed decision machine; that the event-driven proxy follows it "
            "(AsyncCall order, comm, HttpStateData internals, peer selection delivering all addresses before the first "
            "connect result) rests on the end-to-end correspondence. One address family / no cache_peer, so HappyConnOpener "
            "spare attempts do not occur; CONNECT tunnels (tunnel.cc) and FTP/whois are outside the model. Events the lab "
            "cannot inject (timeouts, shutdown, abort, pinned connections, closure while noteConnection is queued, header "
            "too large) are covered by the theorems only. Trusted: Coq kernel, extraction, gen/gen_retrymethods.cc, "
            "vlib/lab.py, lab/retry_stub.py.",
    "technique": "Coq proof (inductive invariant of the attempt machine over all event sequences; vm_compute sweep of the "
                 "regenerated method table) + end-to-end differential correspondence of the extracted machine against the "
                 "running squid under scripted origin failures + independent oracle on origin arrival counts",
}

_spec = importlib.util.spec_from_file_location("retry_stub", os.path.join(common.VERIF, "lab", "retry_stub.py"))
rs = importlib.util.module_from_spec(_spec)
_spec.loader.exec_module(rs)

CFGS = {
    # name: (extra squid.conf, forward_max_tries, server_pconn_for_nonretriable allows, retry_on_error)
    "A": ("", 25, 0, 0),
    "B": ("server_pconn_for_nonretriable allow all\nretry_on_error on\n", 25, 1, 1),
    "C": ("forward_max_tries 2\n", 2, 0, 0),
}

# RFC 9110 9.2: the oracle's own method classes (not squid's table)
SAFE = {"GET", "HEAD", "OPTIONS", "TRACE"}
IDEMPOTENT = SAFE | {"PUT", "DELETE"}

FAIL_BEH = ["AC", "ACr", "HR", "FF", "FR", "PH"]
STATUSES = [200, 404, 403, 500, 502, 503, 504]


def is_failure(b):
    """does this scripted origin behaviour make the upstream connection fail (as opposed to a complete reply)"""
    return b in FAIL_BEH or (b.startswith("R") and b[-1] in "fr")


def model_beh(b):
    return "AC" if b == "ACr" else b


def stub_beh(b):
    if b == "AC": return {"b": "accept_fin"}
    if b == "ACr": return {"b": "accept_rst"}
    if b == "HR": return {"b": "head_rst"}
    if b == "FF": return {"b": "full_fin"}
    if b == "FR": return {"b": "full_rst"}
    if b == "PH": return {"b": "partial_head"}
    end = b[-1] if b[-1] in "fr" else None
    status = int(b[1:-1] if end else b[1:])
    d = {"b": "reply", "status": status, "blen": 64}
    if end:
        d["cut"] = 9
        d["end"] = "rst" if end == "r" else "fin"
        d["keep"] = True
    return d


# ------------------------------------------------------------------ scenarios
METHODS = ["GET", "HEAD", "PUT", "DELETE", "POST", "PATCH", "VERIFEXT", "OPTIONS"]


def gen_beh(rng, method, first_on_warm):
    k = rng.random()
    if k < 0.45:
        pool = ["FF", "FR", "PH"] if first_on_warm else FAIL_BEH
        return rng.choice(pool)
    st = rng.choice(STATUSES)
    if method == "HEAD":
        return "R%d" % st
    k = rng.random()
    if k < 0.5:
        return "R%d" % st
    return "R%d%s" % (st, "f" if k < 0.8 else "r")


def gen_one(rng, k):
    method = rng.choice(METHODS + ["POST", "POST", "GET", "PATCH"])
    body = None
    if method in ("POST", "PUT", "PATCH", "VERIFEXT"):
        body = ("b%d-" % k + "x" * rng.choice([1, 7, 300])) if rng.random() < 0.55 else ""
    elif method == "DELETE" and rng.random() < 0.2:
        body = "del%d" % k
    cfg = rng.choice(["A", "A", "B", "B", "C"])
    warm = rng.random() < 0.4
    npaths = rng.choice([1, 2, 2, 3, 3])
    paths = []
    for i in range(npaths):
        if rng.random() < 0.15 and not (warm and i == 0):
            paths.append(None)
            continue
        n = rng.choice([1, 1, 2])
        sc = []
        for j in range(n):
            if i == npaths - 1 and j == n - 1 and rng.random() < 0.6:
                sc.append("R200")
            else:
                sc.append(gen_beh(rng, method, warm and i == 0 and j == 0))
        paths.append(sc)
    return {"method": method, "body": body, "cfg": cfg, "warm": warm, "paths": paths}


def gen_scenarios(rng, n):
    return [gen_one(rng, k) for k in range(n)]


def to_case(s):
    ext, maxt, pnr, onerr = CFGS[s["cfg"]]
    ps = []
    for i, p in enumerate(s["paths"]):
        if p is None:
            ps.append("0:0:-")
        else:
            ps.append("1:%d:%s" % (1 if (s["warm"] and i == 0) else 0, ",".join(model_beh(b) for b in p) if p else "-"))
    return "retry.drive %s %d %d %d %d %s" % (s["method"].encode().hex(), 1 if s["body"] else 0, maxt, pnr, onerr, " ".join(ps))


# ------------------------------------------------------------------ implementation side
_state = {}
_seen = {}     # scenario -> every observation made of it in this run (to report timing-dependent ones)


def _setup(L):
    if "sq" in _state and all(q.alive() for q in _state["sq"].values()):
        return
    dns = rs.DnsStub()
    org = rs.PathOrigin()
    org.choose_port("127.70.0.1")
    _state.update({"dns": dns, "org": org, "n": _state.get("n", 0), "sq": {}})
    for name, (ext, maxt, pnr, onerr) in CFGS.items():
        _state["sq"][name] = L.squid(preconf="dns_nameservers %s\n" % dns.addr, extra_conf=ext, name="vc07%s%d" % (name.lower(), os.getpid()))


def _one(args):
    s, n = args
    dns, org = _state["dns"], _state["org"]
    sq = _state["sq"][s["cfg"]]
    host = "h%d.c07.test" % n
    addrs = []
    paths = []
    try:
        for i, sc in enumerate(s["paths"]):
            a = "127.%d.%d.%d" % (70 + i, (n // 250) % 250, n % 250 + 1)
            addrs.append(a)
            if sc is None:
                paths.append(None)
            else:
                script = [stub_beh(b) for b in sc]
                if s["warm"] and i == 0:
                    script = [{"b": "reply", "status": 200}] + script
                paths.append(org.add_path(a, script))
        dns.set(host, addrs)
        url = "http://%s:%d/r%d" % (host, org.port, n)
        skip = 0
        if s["warm"]:
            r, raw = lab.get(sq.port, url + "/warm")
            if r is None or r.status != 200:
                return "WARMFAIL %s" % (r.status if r else "none")
            skip = 1
            time.sleep(0.08)
        body = s["body"].encode() if s["body"] is not None else None
        r, raw = lab.get(sq.port, url, method=s["method"], body=body, total=20)
        time.sleep(0.05)
        atts = []
        closed = []
        for i, p in enumerate(paths):
            if p is None:
                continue
            with p.lock:
                al = list(p.attempts)
            for a in al:
                if i == 0 and a.k < skip:
                    continue
                atts.append((a.t, i, a))
        atts.sort(key=lambda x: x[0])
        alist = ["%d%s" % (i, "R" if a.reused else "F") for _, i, a in atts]
        heads = sum(1 for _, i, a in atts if a.got_head)
        bodies = sum(1 for _, i, a in atts if a.got_full and len(a.body) > 0)
        # an idle connection that squid closed without sending a second request on it
        if s["warm"] and paths[0] is not None:
            reused_any = any(a.reused for _, i, a in atts if i == 0)
            fresh_any = any((not a.reused) for _, i, a in atts if i == 0)
            if not reused_any and fresh_any:
                closed.append("0")
        if r is None:
            client = "NONE"
        else:
            xe = r.get("X-Squid-Error")
            if xe:
                nm = xe.split()[0]
                client = "E:" + ("CONN" if nm in ("ERR_ZERO_SIZE_OBJECT", "ERR_READ_ERROR", "ERR_WRITE_ERROR") else nm)
            elif r.complete:
                client = "%d" % r.status
            else:
                client = "T%d" % r.status
        return "A %s K %s C %s H %d B %d" % (",".join(alist) if alist else "-", ",".join(closed) if closed else "-",
                                             client, heads, bodies)
    finally:
        for a in addrs:
            org.drop_path(a)


def run_impl(L, scenarios):
    _setup(L)
    jobs = []
    for s in scenarios:
        _state["n"] += 1
        jobs.append((s, _state["n"]))
    with concurrent.futures.ThreadPoolExecutor(max_workers=8) as ex:
        obs = list(ex.map(_one, jobs))
    for s, o in zip(scenarios, obs):
        _seen.setdefault(json.dumps(s, sort_keys=True), []).append(o)
    return obs


# ------------------------------------------------------------------ oracle
def attempt_behaviours(s, alist):
    """the scripted behaviour each observed attempt met (k-th attempt on a path meets the k-th entry of its script)"""
    seen = {}
    out = []
    for a in alist:
        i = int(a[:-1])
        k = seen.get(i, 0)
        seen[i] = k + 1
        sc = s["paths"][i] or []
        out.append(sc[k] if k < len(sc) else "R200")
    return out


def oracle(s, obs):
    """The property on what squid did: a request whose method is neither safe nor idempotent (RFC 9110) must not be
    put on a second upstream connection -- and its body must not arrive at the origin a second time -- after an attempt
    on which it was sent ended in a connection failure."""
    f = obs.split()
    if len(f) != 10 or f[0] != "A":
        return ("oracle:no-transaction", "the transaction did not complete: " + obs)
    if f[5] == "NONE":
        return ("oracle:no-transaction", "the client got no response: " + obs)
    alist = [] if f[1] == "-" else f[1].split(",")
    heads, bodies = int(f[7]), int(f[9])
    m = s["method"]
    if m in IDEMPOTENT:
        return None
    if len(alist) >= 2:
        behs = attempt_behaviours(s, alist)
        for j, b in enumerate(behs[:-1]):
            if is_failure(b):
                what = ("%s request was sent on %d upstream connections (%s); attempt %d (origin behaviour %s) had failed after "
                        "the request was sent; the origin read %d request heads and %d complete bodies"
                        % (m, len(alist), ",".join(alist), j + 1, b, heads, bodies))
                return ("oracle:nonidempotent-resent", what)
    if bodies >= 2:
        return ("oracle:request-body-arrived-twice", "%s request body arrived %d times at the origin (%s)" % (m, bodies, obs))
    return None


def kind_fn(s, o):
    f = o.split()
    n = 0 if len(f) < 2 or f[1] == "-" else len(f[1].split(","))
    cls = "safe/idem" if s["method"] in IDEMPOTENT else "nonidem"
    return "%s:%s:sends=%d" % (cls, "body" if s["body"] else "nobody", min(n, 3))


def nontrivial_fn(s, o):
    """at least one attempt on which the request was sent met a connection failure"""
    f = o.split()
    if len(f) < 2 or f[1] == "-":
        return False
    return any(is_failure(b) for b in attempt_behaviours(s, f[1].split(",")))


def prebuild():
    pass


def run(res, tier):
    res.rule = ("random fault scripts: method in GET/HEAD/OPTIONS/PUT/DELETE/POST/PATCH/extension, with or without a request "
                "body, 1-3 origin addresses (paths) each refusing connections or meeting 1-2 scripted attempt behaviours (close at "
                "accept with FIN or RST, RST after the head, FIN or RST after the whole request, truncated reply header, replies "
                "200/403/404/500/502/503/504 complete or cut in the body by FIN or RST), optionally an idle persistent connection "
                "to the first address that the origin closes when the request arrives (pconn race); three squid configurations "
                "(default; server_pconn_for_nonretriable + retry_on_error; forward_max_tries 2). Observed: order and kind "
                "(reused/fresh) of the connections the request was sent on, idle connections closed unused, what the client got, "
                "request heads and bodies read by the origin. non-trivial = an attempt on which the request was sent failed")
    try:
        std.run_lab(res, PID, tier, area="retry", gens=["retrymethods"], gen_scenarios=gen_scenarios, run_impl=run_impl,
                    to_case=to_case, oracle=oracle, corr_name="RetryModel (FwdState attempt machine, drive) vs the running squid",
                    n_quick=150, n_thorough=3000, seed_salt=7, kind_fn=kind_fn, nontrivial_fn=nontrivial_fn)
    finally:
        unstable = {k: v for k, v in _seen.items() if len(set(v)) > 1}
        res.extra["timing_dependent_scenarios"] = [{"scenario": json.loads(k), "observations": v} for k, v in list(unstable.items())[:20]]
        _seen.clear()
        for k in ("dns", "org"):
            if k in _state:
                try:
                    _state[k].close()
                except Exception:
                    pass
        _state.clear()
