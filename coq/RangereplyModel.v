(* RangereplyModel.v — C15: what Squid sends in answer to a Range request.
   Transcribes, from /repo:
     src/http/Stream.cc         Http::Stream::getNextRangeOffset, canPackMoreRanges, socketState (range part),
                                sendStartOfMessage / sendBody (body part), lengthToSend, noteSentBodyBytes,
                                clientIfRangeMatch (entity-tag part), buildRangeHeader, packRange, pullData
     src/HttpHdrRange.cc        HttpHdrRange::isComplex, firstOffset, lowestOffset, offsetLimitExceeded,
                                HttpHdrRangeIter::currentSpec / updateSpec / debt
                                (parseInit / canonize are RangeModel.v, property C28)
     src/client_side_request.cc ClientHttpRequest::prepPartialResponseGeneration (lowestOffset(0), which
                                clientInterpretRequestHeaders stores in readBuffer.offset, is modelled for the unit tie)
     src/client_side_reply.cc   clientReplyContext::processReplyAccessResult (first body buffer handed to the
                                client stream), pushStreamData's offset contract, replyStatus/checkTransferDone
                                (out.offset >= body size)
     src/client_side.cc         clientPackRangeHdr, clientPackTermBound, ClientHttpRequest::mRangeCLen,
                                rangeBoundaryStr
     src/HttpHdrContRange.cc    httpHdrRangeRespSpecPackInto, httpHdrContRangePackInto
     src/http.cc                HttpStateData::decideIfWeDoRanges and the multipart `ignoreRange` in
                                httpBuildRequestHeader (request side of a miss)
     src/ETag.cc                etagParseInit, etagIsStrongEqual
   A failed assert() (or a null dereference) raises the `bad` flag of the iterator state; running out of loop fuel
   raises it too.  Offsets are int64_t values as Z (no wrap: every value is bounded by the body length).
   Executable definitions only. *)
Require Import SquidV.Bytes SquidV.TokModel SquidV.HopModel SquidV.RangeModel.
Require Import SquidV.gen.Rangereply_gen.
Local Open Scope Z_scope.

Definition rspec2 := (Z * Z)%type.                       (* HttpHdrRangeSpec: (offset, length) *)

Definition zlen (l : bytes) : Z := Z.of_N (lenN l).
Definition rr_drop (n : Z) (l : bytes) : bytes := dropN (Z.to_N n) l.          (* buf += n *)
Definition rr_take (n : Z) (l : bytes) : bytes := takeN (Z.to_N n) l.
Definition rr_slice (obj : bytes) (off len : Z) : bytes := rr_take len (rr_drop off obj).

(* ================= HttpHdrRange helpers (src/HttpHdrRange.cc) ================= *)
(* isComplex(): requires canonized specs *)
Fixpoint is_complex_from (offset : Z) (specs : list rspec2) : bool :=
  match specs with
  | [] => false
  | (o, l) :: r => if o <? offset then true else is_complex_from (o + l) r
  end.
Definition is_complex (specs : list rspec2) : bool := is_complex_from 0 specs.

(* firstOffset() *)
Fixpoint first_offset_from (offset : Z) (specs : list rspec2) : Z :=
  match specs with
  | [] => offset
  | (o, _) :: r => first_offset_from (if (o <? offset) || negb (known_spec offset) then o else offset) r
  end.
Definition first_offset (specs : list rspec2) : Z := first_offset_from unknown_pos specs.

(* lowestOffset(size) *)
Fixpoint lowest_offset_from (size offset : Z) (specs : list rspec2) : Z :=
  match specs with
  | [] => if known_spec offset then offset else 0
  | (o, l) :: r =>
      if negb (known_spec o) then
        if (l >? size) || negb (known_spec l) then 0                 (* Unknown. Assume start of file *)
        else
          let current := size - l in
          lowest_offset_from size (if (current <? offset) || negb (known_spec offset) then current else offset) r
      else
        lowest_offset_from size (if (o <? offset) || negb (known_spec offset) then o else offset) r
  end.
Definition lowest_offset (size : Z) (specs : list rspec2) : Z := lowest_offset_from size unknown_pos specs.

(* offsetLimitExceeded(limit) *)
Definition offset_limit_exceeded (specs : list rspec2) (limit : Z) : bool :=
  if limit =? 0 then true
  else if limit =? -1 then false
  else if first_offset specs =? -1 then true
  else if limit >=? first_offset specs then false
  else true.

(* ================= ETag / If-Range (src/ETag.cc, clientIfRangeMatch) ================= *)
(* etagParseInit: Some (weak, opaque text incl. quotes) *)
Definition etag_parse (value : bytes) : option (bool * bytes) :=
  let s := c_str value in
  let weak := starts_with s [87; 47]%N in                               (* W/ *)
  let t := if weak then dropN 2 s else s in
  match t, rev t with
  | c0 :: _, cl :: _ => if (2 <=? lenN t)%N && (c0 =? 34)%N && (cl =? 34)%N then Some (weak, t) else None
  | _, _ => None
  end.

(* clientIfRangeMatch for an If-Range value that is an entity tag; None = the value is not an entity tag
   (the HTTP-date branch is outside this model) *)
Definition if_range_tag_match (if_range : bytes) (rep_etag : option bytes) : option bool :=
  match etag_parse if_range with
  | None => None
  | Some (sweak, stag) =>
      match rep_etag with
      | None => Some false                                              (* entity has no etag to compare with *)
      | Some ev =>
          match etag_parse ev with
          | None => Some false
          | Some (rweak, rtag) => if sweak || rweak then Some false else Some (list_eqb rtag stag)
          end
      end
  end.

(* ================= the iterator and the stream counters ================= *)
(* it_rest = [pos, end): its head is *pos (currentSpec), [] means pos == end *)
Record riter := mkIt { it_rest : list rspec2; it_debt : Z; it_out : Z; it_bad : bool }.

Definition rflag (s : riter) (b : bool) : riter := mkIt (it_rest s) (it_debt s) (it_out s) (it_bad s || b).
Definition set_debt (s : riter) (d : Z) : riter := mkIt (it_rest s) d (it_out s) (it_bad s).
Definition set_out (s : riter) (o : Z) : riter := mkIt (it_rest s) (it_debt s) o (it_bad s).
Definition set_rest (s : riter) (r : list rspec2) : riter := mkIt r (it_debt s) (it_out s) (it_bad s).
Definition current_spec (s : riter) : option rspec2 := match it_rest s with [] => None | c :: _ => Some c end.
Definition at_end (s : riter) : bool := match it_rest s with [] => true | _ => false end.

(* HttpHdrRangeIter::updateSpec(): assert(debt_size == 0); if (pos != end) debt(currentSpec()->length) *)
Definition update_spec (s : riter) : riter :=
  let s := rflag s (negb (it_debt s =? 0)) in
  match it_rest s with
  | [] => s
  | c :: _ => set_debt s (snd c)
  end.

(* Http::Stream::canPackMoreRanges() *)
Definition can_pack_more (s : riter) : riter * bool :=
  let s1 := if it_debt s =? 0
            then update_spec (match it_rest s with [] => s | _ :: r => set_rest s r end)   (* if (pos != end) ++pos *)
            else s in
  let s2 := rflag s1 (negb (Bool.eqb (it_debt s1 =? 0) (at_end s1))) in      (* assert(!debt() == !currentSpec()) *)
  (s2, negb (at_end s2)).

(* Http::Stream::getNextRangeOffset() when request->range is set *)
Definition get_next_range_offset (s : riter) : riter * Z :=
  let '(s1, more) := can_pack_more s in
  let s2 := rflag s1 (negb more) in                                            (* assert(canPackMoreRanges()) *)
  match current_spec s2 with
  | None => (rflag s2 true, it_out s2)                                         (* assert(currentSpec()) *)
  | Some (o, l) =>
      let start := o + l - it_debt s2 in
      (rflag s2 (negb (l =? -1) && (start <? it_out s2)), start)               (* assert(out.offset <= start) *)
  end.

(* Http::Stream::lengthToSend(available) when request->range is set *)
Definition length_to_send (s : riter) (astart asize : Z) : riter * Z :=
  let '(s1, more) := can_pack_more s in
  let s2 := rflag s1 (negb more) in                                            (* assert(canPackMoreRanges()) *)
  if it_debt s2 =? -1 then (s2, asize)
  else
    let s3 := rflag s2 (negb (0 <? it_debt s2)) in                             (* assert(debt() > 0) *)
    match current_spec s3 with
    | None => (rflag s3 true, 0)
    | Some (o, _) => if astart <? o then (s3, 0) else (s3, Z.min (it_debt s3) asize)
    end.

(* Http::Stream::noteSentBodyBytes(bytes) when request->range is set *)
Definition note_sent (s : riter) (n : Z) : riter :=
  let s1 := set_out s (it_out s + n) in
  let s2 := if it_debt s1 =? -1 then s1
            else let s' := set_debt s1 (it_debt s1 - n) in rflag s' (it_debt s' <? 0) in
  rflag s2 (it_debt s2 <? -1).

(* ================= multipart framing (src/client_side.cc, src/HttpHdrContRange.cc) ================= *)
Definition rr_crlf : bytes := [13; 10]%N.
Definition rr_dd : bytes := [45; 45]%N.
Definition rr_colon_sp : bytes := [58; 32]%N.

(* PRId64 *)
Fixpoint dec_digits_rr (fuel : nat) (n : N) : bytes :=
  match fuel with
  | O => []
  | S k => if (n <? 10)%N then [48 + n]%N else dec_digits_rr k (n / 10)%N ++ [48 + n mod 10]%N
  end.
Definition dec_print (v : Z) : bytes :=
  if v <? 0 then 45%N :: dec_digits_rr 20 (Z.to_N (- v)) else dec_digits_rr 20 (Z.to_N v).

(* httpHdrContRangePackInto after httpHdrContRangeSet(cr, spec, ent_len) *)
Definition cont_range_value (sp : rspec2) (elen : Z) : bytes :=
  (if (fst sp =? -1) || (snd sp =? -1) then [42]%N
   else [98; 121; 116; 101; 115; 32]%N ++ dec_print (fst sp) ++ [45]%N ++ dec_print (fst sp + snd sp - 1))
  ++ (if elen =? -1 then [47; 42]%N else 47%N :: dec_print elen).

(* one packed header entry: name ": " value CRLF *)
Definition pack_entry (name value : bytes) : bytes := name ++ rr_colon_sp ++ value ++ rr_crlf.

(* rangeBoundaryStr(): visible_appname_string ":" entry key text *)
Definition boundary_str (key : bytes) : bytes := rr_app_fullname ++ [58]%N ++ key.

(* what stays fixed during one reply *)
Record renv := mkEnv { e_multipart : bool; e_clen : Z; e_ctype : option bytes; e_boundary : bytes }.

(* clientPackRangeHdr(rep, spec, boundary, mb) *)
Definition pack_range_hdr (e : renv) (sp : rspec2) : bytes :=
  rr_crlf ++ rr_dd ++ e_boundary e ++ rr_crlf ++
  (match e_ctype e with Some v => pack_entry rr_name_content_type v | None => [] end) ++
  pack_entry rr_name_content_range (cont_range_value sp (e_clen e)) ++
  rr_crlf.

(* clientPackTermBound(boundary, mb) *)
Definition pack_term_bound (e : renv) : bytes := rr_crlf ++ rr_dd ++ e_boundary e ++ rr_dd ++ rr_crlf.

(* ClientHttpRequest::mRangeCLen() *)
Fixpoint mrange_clen_loop (e : renv) (specs : list rspec2) (clen : Z) : Z :=
  match specs with
  | [] => clen
  | sp :: r => mrange_clen_loop e r (clen + zlen (pack_range_hdr e sp) + snd sp)
  end.
Definition mrange_clen (e : renv) (specs : list rspec2) : Z :=
  mrange_clen_loop e specs 0 + zlen (pack_term_bound e).

(* ================= Http::Stream::packRange(source, mb) ================= *)
(* one pass of the while loop per unit of fuel; returns the new state and the bytes appended to mb *)
Fixpoint pack_range (fuel : nat) (e : renv) (s : riter) (astart : Z) (data : bytes) : riter * bytes :=
  match fuel with
  | O => (rflag s true, [])
  | S f =>
    if at_end s || (zlen data =? 0) then (s, [])                 (* while (i->currentSpec() && available.size()) *)
    else
      let '(s1, copy_sz) := length_to_send s astart (zlen data) in
      let '(s2, astart2, data2, out2) :=
        if 0 <? copy_sz then
          match current_spec s1 with
          | None => (rflag s1 true, astart, data, [])
          | Some (o, l) =>
              (* assert(out.offset < offset + length); assert(out.offset + available.size() > offset) *)
              let s1 := rflag s1 (negb (it_out s1 <? o + l) || negb (it_out s1 + zlen data >? o)) in
              let h := if e_multipart e && (it_debt s1 =? l) then pack_range_hdr e (o, l) else [] in
              (note_sent s1 copy_sz, astart + copy_sz, rr_drop copy_sz data, h ++ rr_take copy_sz data)
          end
        else (s1, astart, data, []) in
      let '(s3, more) := can_pack_more s2 in
      if negb more then
        (s3, out2 ++ (if it_debt s3 =? 0 then pack_term_bound e else []))
      else
        let '(s4, next) := get_next_range_offset s3 in
        let s5 := rflag s4 (next <? it_out s4) in                  (* assert(nextOffset >= http->out.offset) *)
        let skip := next - it_out s5 in
        let s6 := set_out s5 next in
        if zlen data2 <=? skip then (s6, out2)
        else if copy_sz =? 0 then (s6, out2)
        else
          let '(s7, out7) := pack_range f e s6 (astart2 + skip) (rr_drop skip data2) in
          (s7, out2 ++ out7)
  end.

(* the body bytes Http::Stream::sendStartOfMessage / sendBody write for one store buffer while request->range is set
   (chunkedReply is off: the 206 carries a Content-Length) *)
Definition send_buffer (e : renv) (s : riter) (astart : Z) (data : bytes) : riter * bytes :=
  if e_multipart e then pack_range (S (length (it_rest s))) e s astart data
  else
    let '(s1, n) := length_to_send s astart (zlen data) in
    (note_sent s1 n, rr_take n data).

(* Http::Stream::socketState() for a range reply: clientReplyStatus says "done" when out.offset has reached the
   body size (checkTransferDone), otherwise the iterator decides *)
Definition socket_state (e : renv) (s : riter) : riter * bool :=
  if e_clen e <=? it_out s then (s, true)
  else let '(s1, more) := can_pack_more s in (s1, negb more).

(* ClientHttpRequest::prepPartialResponseGeneration(): the iterator and the declared Content-Length *)
Definition prep_partial (e : renv) (specs : list rspec2) : riter * Z :=
  let s := update_spec (mkIt specs 0 0 false) in
  match specs with
  | [] => (rflag s true, 0)                                       (* assert(range_iter.pos != range_iter.end) *)
  | first :: _ =>
      (set_out s (fst first), if e_multipart e then mrange_clen e specs else snd first)
  end.

(* ================= the store side ================= *)
(* what a store read of the body at offset X returns: at least one byte, at most HTTP_REQBUF_SZ, the caller's wish k
   otherwise (the environment's choice) *)
Definition clip_chunk (k : N) (avail : Z) : Z :=
  Z.max 1 (Z.min (Z.min (Z.of_N k) (Z.of_N rr_reqbuf_sz)) avail).

Inductive rres :=
| RDone (body : bytes) (bad : bool)
| REof (body : bytes)              (* a read at or beyond the end of the body was requested *)
| ROutOfChunks.                    (* the environment's chunk list was too short (excluded by the theorems) *)

(* writeComplete -> socketState -> pullData -> store read -> sendBody, until the stream is complete *)
Fixpoint pull_loop (e : renv) (obj : bytes) (chunks : list N) (s : riter) (acc : bytes) : rres :=
  match chunks with
  | [] => ROutOfChunks
  | k :: ks =>
      let '(s1, x) := get_next_range_offset s in                  (* pullData: readBuffer.offset *)
      if e_clen e <=? x then REof acc
      else
        let data := rr_slice obj x (clip_chunk k (e_clen e - x)) in   (* pushStreamData: result.offset == x *)
        let '(s2, out) := send_buffer e s1 x data in
        let '(s3, fin) := socket_state e s2 in
        if fin then RDone (acc ++ out) (it_bad s3) else pull_loop e obj ks s3 (acc ++ out)
  end.

(* the first body buffer, handed over together with the reply headers (processReplyAccessResult): the bs body
   bytes that were read from offset 0, as they are, at offset 0.  (readBuffer.offset, set from lowestOffset(0) by
   clientInterpretRequestHeaders, is reset there and no longer moves the buffer -- /repo 414e85a.) *)
Definition first_buffer (obj : bytes) (bs : Z) : bytes := rr_slice obj 0 bs.

Definition first_read_size (k0 : N) (clen : Z) : Z := Z.min (Z.min (Z.of_N k0) (Z.of_N rr_reqbuf_sz)) clen.

(* a 206: sendStartOfMessage(first buffer), then the pull loop *)
Definition run_partial (e : renv) (obj : bytes) (specs : list rspec2) (data0 : bytes) (chunks : list N) : Z * rres :=
  let '(s0, actual_clen) := prep_partial e specs in
  let '(s1, out0) := if zlen data0 =? 0 then (s0, []) else send_buffer e s0 0 data0 in   (* bodyData.data && bodyData.length *)
  let '(s2, fin) := socket_state e s1 in
  (actual_clen, if fin then RDone out0 (it_bad s2) else pull_loop e obj chunks s2 out0).

(* a reply sent without range processing (request->range is null when the body is written): every buffer is
   sent whole, the next read is at out.offset *)
Fixpoint plain_loop (clen : Z) (obj : bytes) (chunks : list N) (out : Z) (acc : bytes) : rres :=
  if clen <=? out then RDone acc false
  else match chunks with
  | [] => ROutOfChunks
  | k :: ks =>
      let data := rr_slice obj out (clip_chunk k (clen - out)) in
      plain_loop clen obj ks (out + zlen data) (acc ++ data)
  end.
Definition run_plain (obj : bytes) (data0 : bytes) (chunks : list N) : rres :=
  plain_loop (zlen obj) obj chunks (zlen data0) data0.

(* ================= Http::Stream::buildRangeHeader ================= *)
(* what the function looks at *)
Record rbuild := mkBuild {
  b_have_rep : bool;                  (* rep != nullptr *)
  b_status : Z;                       (* rep->sline.status() *)
  b_has_content_range : bool;         (* hdr->has(CONTENT_RANGE) *)
  b_content_length : Z;               (* rep->content_length *)
  b_base_content_length : Z;          (* storeEntry()->mem().baseReply().content_length *)
  b_is_hit : bool;                    (* loggingTags().isTcpHit() *)
  b_if_range : option bool;           (* request has If-Range; clientIfRangeMatch() *)
  b_limit : Z                         (* request->getRangeOffsetLimit() *)
}.

Inductive rverdict :=
| VPartial (specs : list rspec2)      (* 206 with these canonical specs *)
| VIgnore (why : N) (ub : bool).      (* ignoreRange(range_err); why numbers the branch *)

Definition build_range_header (b : rbuild) (raw : list rspec2) : rverdict :=
  if negb (b_have_rep b) then VIgnore 1 false                                   (* no [parse-able] reply *)
  else if negb (b_status b =? 200) && negb (b_status b =? 206) then VIgnore 2 false   (* wrong status code *)
  else if b_status b =? 206 then VIgnore 3 false                                (* too complex response *)
  else if negb (b_status b =? 200) then VIgnore 2 false
  else if b_has_content_range b then VIgnore 4 false                            (* meaningless response *)
  else if b_content_length b <? 0 then VIgnore 5 false                          (* unknown length *)
  else if negb (b_content_length b =? b_base_content_length b) then VIgnore 6 false   (* INCONSISTENT length *)
  else if b_is_hit b && (match b_if_range b with Some m => negb m | None => false end)
       then VIgnore 7 false                                                     (* If-Range match failed *)
  else
    let '(ok, cs, ub) := range_canonize (b_content_length b) raw in
    if negb ok then VIgnore 8 ub                                                (* canonization failed *)
    else if is_complex cs then VIgnore 9 ub                                     (* too complex range header *)
    else if negb (b_is_hit b) && offset_limit_exceeded cs (b_limit b) then VIgnore 10 ub   (* range outside range_offset_limit *)
    else VPartial cs.

(* ================= the whole transaction, as the check drives it ================= *)
(* A GET for a cachable URL whose representation is `obj` (origin status 200, Content-Length, no Content-Range).
   hit: served from the cache; otherwise forwarded (src/http.cc decides whether the Range goes upstream; the origin
   of this model answers 200 with the whole representation either way). *)
Record rinput := mkIn {
  i_range : option bytes;             (* Range header value *)
  i_obj : bytes;
  i_ctype : option bytes;             (* stored Content-Type *)
  i_key : bytes;                      (* storeEntry()->getMD5Text() *)
  i_hit : bool;
  i_limit : Z;                        (* range_offset_limit for this request: -1 none, 0, n *)
  i_if_range : option bytes;          (* If-Range header value (entity tags only) *)
  i_etag : option bytes;              (* stored ETag *)
  i_k0 : N;                           (* body bytes delivered with the headers: 0 from memory, more from disk *)
  i_chunks : list N                   (* sizes the store answers later reads with *)
}.

Record routput := mkOut {
  o_status : Z;
  o_content_length : Z;
  o_content_range : option bytes;
  o_content_type : option bytes;
  o_body : rres
}.

Definition multipart_ctype (bnd : bytes) : bytes :=
  (* multipart/byteranges; boundary=DQUOTE ... DQUOTE *)
  [109;117;108;116;105;112;97;114;116;47;98;121;116;101;114;97;110;103;101;115;59;32;98;111;117;110;100;97;114;121;61;34]%N
  ++ bnd ++ [34]%N.

Definition plain_output (i : rinput) : routput :=
  let clen := zlen (i_obj i) in
  let data0 := first_buffer (i_obj i) (first_read_size (i_k0 i) clen) in
  mkOut 200 clen None (i_ctype i) (run_plain (i_obj i) data0 (i_chunks i)).

Definition reply_run (i : rinput) : routput :=
  let clen := zlen (i_obj i) in
  match i_range i with
  | None => plain_output i
  | Some value =>
    match fst (range_parse value) with
    | None => plain_output i                                     (* getRange() == nullptr *)
    | Some raw =>
        (* miss: httpBuildRequestHeader drops a multipart Range it does not handle itself *)
        let we_do_ranges := negb (offset_limit_exceeded raw (i_limit i)) in
        if negb (i_hit i) && negb we_do_ranges && (1 <? Z.of_nat (length raw)) then plain_output i
        else
          let ifr := match i_if_range i with
                     | None => None
                     | Some v => match if_range_tag_match v (i_etag i) with Some m => Some m | None => Some false end
                     end in
          let b := mkBuild true 200 false clen clen (i_hit i) ifr (i_limit i) in
          match build_range_header b raw with
          | VIgnore _ _ => plain_output i                        (* ignoreRange(): the reply goes out whole *)
          | VPartial cs =>
              let mp := (1 <? Z.of_nat (length cs)) in
              let e := mkEnv mp clen (i_ctype i) (boundary_str (i_key i)) in
              let data0 := first_buffer (i_obj i) (first_read_size (i_k0 i) clen) in
              let '(acl, body) := run_partial e (i_obj i) cs data0 (i_chunks i) in
              mkOut 206 acl
                    (if mp then None else match cs with c :: _ => Some (cont_range_value c clen) | [] => None end)
                    (if mp then Some (multipart_ctype (e_boundary e)) else i_ctype i)
                    body
          end
    end
  end.
