// Harness: IP-address ACL data (ACLIP, acl_ip_data, Acl::SplayInserter<acl_ip_data*>,
// aclIpAddrNetworkCompare, Ip::Address comparison/mask primitives, include/splay.h)
// from /repo's working tree. src/acl/Ip.cc is compiled INTO this unit (it is
// #included below) so that the file-static aclIpAddrNetworkCompare() and the
// private members can be driven directly; src/ip/Address.cc is a `fresh` source.
//
// stdin: one case per line (same syntax as ml/run_aclip.ml); stdout: one result line.
// Addresses/masks are 128-bit values written as 32 hex digits (the 16 bytes of
// sin6_addr, network order; IPv4 is ::ffff:a.b.c.d as the code stores it).
// A value ("triple") is <addr1>/<addr2>/<mask>.
//
//   parse <tokhex>                  what the real parser makes of one configured token:
//                                   G (ACLIP::parseGlobal took it) | X (FactoryParse failed) |
//                                   <triple>[;<triple>...] (FactoryParse result list)
//   lt|gt|le|ge|eq <a> <b>          Ip::Address operator < > <= >= ==        -> 0|1
//   mip <a> <b>                     a.matchIPAddr(b)                          -> -1|0|1
//   fam <a>                         isIPv4() isAnyAddr() isNoAddr()           -> three bits
//   dmask <int> <4|6>               acl_ip_data::DecodeMask("<int>", mask, AF_INET|AF_INET6) -> <mask> | X
//   amask <a> <m>                   a.applyMask(m)                            -> <changes> <a'>
//   fl <triple>                     firstAddress() lastAddress()              -> <first> <last>
//   cmp <t1> <t2>                   SplayInserter<acl_ip_data*>::Compare      -> int
//   sub <t1> <t2>                   SplayInserter<acl_ip_data*>::IsSubset     -> 0|1
//   comb <t1> <t2>                  SplayInserter<acl_ip_data*>::MakeCombinedValue -> <triple>
//   ncmp <addr> <t>                 aclIpAddrNetworkCompare(client addr, t)   -> int
//   acl <n> <tok>=<spec>.. <p>..    ACLIP::parse() over the n tokens (tokhex; the spec after '=' is what
//                                   `parse` answered for it and is re-checked here), then ACLIP::match()
//                                   on each probe address in turn. Output:
//                                   <specs-ok> <flags v4v6> <size> <tree after parse> <match bits> <tree after lookups>
// Trees are printed with their exact shape: '.' = nil, (left,triple,right).
#include "squid.h"
#include <csignal>
#include <sys/time.h>
#include <unistd.h>
#include <deque>
#include <sstream>
#include <iostream>
#include <vector>
#include <stdexcept>
#include "hcommon.h"
#include "sbuf/SBuf.h"
#include "acl/Acl.h"
#include "acl/Data.h"
#include "debug/Stream.h"
#define private public
#define protected public
#include "splay.h"
#include "ip/Address.h"
#include "acl/SplayInserter.h"
#include "acl/Ip.h"
#include "src/acl/Ip.cc"
#undef private
#undef protected
#include "ConfigParser.h"
#include "base/TextException.h"
#include "cache_cf.h"
#include "ip/tools.h"

// FactoryParse() reports a bad token through self_destruct(); squid would stop.
struct SelfDestruct {};
void self_destruct(void) { throw SelfDestruct(); }

static std::deque<std::string> TokenQueue;
static std::string CurrentToken;
char *ConfigParser::strtokFile()
{
    if (TokenQueue.empty())
        return nullptr;
    CurrentToken = TokenQueue.front();
    TokenQueue.pop_front();
    CurrentToken.push_back('\0');
    return &CurrentToken[0];
}
// Referenced by acl/libapi (Acl.o, Options.o); never called here.
char *ConfigParser::PeekAtToken() { abort(); }
bool ConfigParser::NextKvPair(char *&, char *&) { abort(); }
char *ConfigParser::NextToken() { abort(); }
void ConfigParser::destruct() { abort(); }
SBuf ConfigParser::CurrentLocation() { return SBuf("harness"); }
char config_input_line[BUFSIZ] = {};

// ACLIP is abstract and its operator new is fatal(): a stack-allocated subclass.
class TestIp : public ACLIP
{
public:
    char const *typeString() const override { return "testip"; }
    int match(ACLChecklist *) override { return 0; }
    using ACLIP::match;
};

static Ip::Address addrOf(const std::string &h)
{
    if (h.size() != 32) throw std::runtime_error("bad address " + h);
    std::string raw = unhex(h);
    struct in6_addr a;
    memcpy(&a, raw.data(), 16);
    Ip::Address r;
    r = a;
    return r;
}
static std::string hexOf(const Ip::Address &a)
{
    struct in6_addr b;
    a.getInAddr(b);
    return tohex(reinterpret_cast<const char *>(&b), 16);
}
static acl_ip_data tripleOf(const std::string &s)
{
    if (s.size() != 98 || s[32] != '/' || s[65] != '/') throw std::runtime_error("bad triple " + s);
    return acl_ip_data(addrOf(s.substr(0, 32)), addrOf(s.substr(33, 32)), addrOf(s.substr(66, 32)), nullptr);
}
static std::string showTriple(const acl_ip_data *d)
{
    return hexOf(d->addr1) + "/" + hexOf(d->addr2) + "/" + hexOf(d->mask);
}
static void shape(const SplayNode<acl_ip_data *> *n, std::ostream &o)
{
    if (!n) { o << "."; return; }
    o << "(";
    shape(n->left, o);
    o << "," << showTriple(n->data) << ",";
    shape(n->right, o);
    o << ")";
}

// what the real parser makes of one token
static std::string parseSpec(const std::string &tok)
{
    {
        TestIp probe;
        if (probe.parseGlobal(tok.c_str()))
            return "G";
    }
    acl_ip_data *q = nullptr;
    try {
        q = acl_ip_data::FactoryParse(tok.c_str());
    } catch (const SelfDestruct &) {
        return "X";
    }
    if (!q)
        return "X";
    std::string out;
    while (q) {
        if (!out.empty()) out += ";";
        out += showTriple(q);
        acl_ip_data *next = q->next;
        delete q;
        q = next;
    }
    return out;
}

static void onCpuLimit(int) { _exit(3); }
static void armCpuLimit(long ms)
{
    struct itimerval it;
    it.it_interval.tv_sec = 0; it.it_interval.tv_usec = 0;
    it.it_value.tv_sec = ms / 1000; it.it_value.tv_usec = (ms % 1000) * 1000;
    setitimer(ITIMER_VIRTUAL, &it, nullptr);
}

int main()
{
    signal(SIGVTALRM, onCpuLimit);
    // what Ip::ProbeTransport() finds on an ordinary dual-stack host; without it
    // FactoryParse() discards every IPv6 token ("IPv6 has not been enabled")
    Ip::EnableIpv6 = IPV6_SPECIAL_V4MAPPING;
    std::string line;
    while (std::getline(std::cin, line)) {
        auto a = splitws(line);
        if (a.empty()) { std::cout << "\n"; continue; }
        const std::string &op = a[0];
        std::ostringstream o;
        armCpuLimit(5000);
        try {
            if (op == "parse") {
                o << parseSpec(unhex(a.at(1)));
            } else if (op == "lt" || op == "gt" || op == "le" || op == "ge" || op == "eq" || op == "mip") {
                Ip::Address x = addrOf(a.at(1)), y = addrOf(a.at(2));
                if (op == "lt") o << (x < y ? 1 : 0);
                else if (op == "gt") o << (x > y ? 1 : 0);
                else if (op == "le") o << (x <= y ? 1 : 0);
                else if (op == "ge") o << (x >= y ? 1 : 0);
                else if (op == "eq") o << (x == y ? 1 : 0);
                else o << x.matchIPAddr(y);
            } else if (op == "fam") {
                Ip::Address x = addrOf(a.at(1));
                o << (x.isIPv4() ? 1 : 0) << (x.isAnyAddr() ? 1 : 0) << (x.isNoAddr() ? 1 : 0);
            } else if (op == "dmask") {
                Ip::Address m;
                const bool ok = acl_ip_data::DecodeMask(a.at(1).c_str(), m, a.at(2) == "4" ? AF_INET : AF_INET6);
                if (ok) o << hexOf(m); else o << "X";
            } else if (op == "amask") {
                Ip::Address x = addrOf(a.at(1)), m = addrOf(a.at(2));
                const int changes = x.applyMask(m);
                o << changes << " " << hexOf(x);
            } else if (op == "fl") {
                acl_ip_data t = tripleOf(a.at(1));
                o << hexOf(t.firstAddress()) << " " << hexOf(t.lastAddress());
            } else if (op == "cmp" || op == "sub" || op == "comb") {
                acl_ip_data x = tripleOf(a.at(1)), y = tripleOf(a.at(2));
                acl_ip_data *px = &x, *py = &y;
                if (op == "cmp") o << Acl::SplayInserter<acl_ip_data*>::Compare(px, py);
                else if (op == "sub") o << (Acl::SplayInserter<acl_ip_data*>::IsSubset(px, py) ? 1 : 0);
                else {
                    acl_ip_data *c = Acl::SplayInserter<acl_ip_data*>::MakeCombinedValue(px, py);
                    o << showTriple(c);
                    delete c;
                }
            } else if (op == "ncmp") {
                acl_ip_data p;
                p.addr1 = addrOf(a.at(1));
                p.addr2.setEmpty();
                p.mask.setEmpty();
                acl_ip_data q = tripleOf(a.at(2));
                acl_ip_data *pp = &p, *pq = &q;
                o << aclIpAddrNetworkCompare(pp, pq);
            } else if (op == "acl") {
                size_t n = std::stoul(a.at(1));
                TokenQueue.clear();
                bool specsOk = true;
                for (size_t i = 0; i < n; ++i) {
                    const std::string &w = a.at(2 + i);
                    const auto eq = w.find('=');
                    if (eq == std::string::npos) throw std::runtime_error("bad token word");
                    const std::string tok = unhex(w.substr(0, eq));
                    if (parseSpec(tok) != w.substr(eq + 1))
                        specsOk = false;
                    TokenQueue.push_back(tok);
                }
                TestIp acl;
                acl.parse();
                o << (specsOk ? "T" : "F") << " " << (acl.matchAnyIpv4 ? 1 : 0) << (acl.matchAnyIpv6 ? 1 : 0) << " "
                  << acl.data->size() << " ";
                shape(acl.data->head, o);
                o << " ";
                if (a.size() == 2 + n) o << "-";
                for (size_t i = 2 + n; i < a.size(); ++i)
                    o << (acl.match(addrOf(a[i])) ? 1 : 0);
                o << " ";
                shape(acl.data->head, o);
            } else o << "ERR unknown-entry " << op;
        } catch (const SelfDestruct &) { o.str(""); o << "EXC"; }
        catch (const TextException &) { o.str(""); o << "EXC"; }
        catch (const std::exception &e) { o.str(""); o << "EXC " << e.what(); }
        catch (...) { o.str(""); o << "EXC"; }
        armCpuLimit(0);
        std::cout << o.str() << "\n" << std::flush;
    }
    return 0;
}
