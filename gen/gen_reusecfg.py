#!/usr/bin/env python3
"""Table generator for C11 (ReuseModel.v): the squid.conf defaults the store/reuse decision reads, taken from
src/cf.data.pre of the tree given as argv[1] (the same file cf_gen turns into default_all())."""
import re, sys

repo = sys.argv[1]
txt = open(repo + "/src/cf.data.pre", encoding="latin1").read()
entries = {}
for block in txt.split("\nNAME:")[1:]:
    names = block.split("\n", 1)[0].split()
    m = re.search(r"^DEFAULT:[ \t]*(.*)$", block, re.M)
    t = re.search(r"^TYPE:[ \t]*(\S+)", block, re.M)
    for n in names:
        entries[n] = (t.group(1) if t else "", m.group(1).strip() if m else None)

UNITS = {"second": 1, "seconds": 1, "minute": 60, "minutes": 60, "hour": 3600, "hours": 3600, "day": 86400,
         "days": 86400, "week": 604800, "weeks": 604800}


def seconds(name):
    typ, d = entries[name]
    assert typ.startswith("time_t"), (name, typ)
    n, u = d.split()
    return int(n) * UNITS[u]


def onoff(name):
    typ, d = entries[name]
    assert typ == "onoff", (name, typ)
    assert d in ("on", "off"), (name, d)
    return "true" if d == "on" else "false"


def none_default(name):
    typ, d = entries[name]
    return "true" if d in (None, "none") else "false"


out = ["@@FILE ReuseCfg_gen.v",
       "(* generated from /repo/src/cf.data.pre by gen/gen_reusecfg.py -- do not edit *)",
       "Require Import SquidV.Bytes.", "Local Open Scope Z_scope.",
       "Definition cfg_negative_ttl : Z := %d." % seconds("negative_ttl"),
       "Definition cfg_minimum_expiry_time : Z := %d." % seconds("minimum_expiry_time"),
       "Definition cfg_max_stale : Z := %d." % seconds("max_stale"),
       "Definition cfg_reload_into_ims : bool := %s." % onoff("reload_into_ims"),
       "Definition cfg_refresh_all_ims : bool := %s." % onoff("refresh_all_ims"),
       "Definition cfg_offline_mode : bool := %s." % onoff("offline_mode"),
       "Definition cfg_vary_ignore_expire : bool := %s." % onoff("vary_ignore_expire"),
       "(* no refresh_pattern, store_miss, send_hit or cache directive is configured by default *)",
       "Definition cfg_no_refresh_pattern : bool := %s." % none_default("refresh_pattern"),
       "Definition cfg_no_store_miss : bool := %s." % none_default("store_miss"),
       "Definition cfg_no_send_hit : bool := %s." % none_default("send_hit"),
       "Definition cfg_no_cache_acl : bool := %s." % none_default("cache"),
       ]
print("\n".join(out))
