(* flush at least every half second of runner CPU time: the correspondence treats 30 s (VERIF_STALL) without an
   output line as a hang, and a block-buffered pipe would otherwise hold back the lines of slow cases *)
let last_flush = ref (Sys.time ())

let () =
  try
    while true do
      let line = input_line stdin in
      let ws = List.filter (fun s -> s <> "") (String.split_on_char ' ' (String.trim line)) in
      (match ws with
       | [] -> print_string "\n"
       | e :: args ->
         let out =
           (try (match Hashtbl.find_opt handlers e with
                | Some f -> f args
                | None -> "ERR unknown-entry " ^ e)
            with Match_failure _ -> "ERR bad-args" | Failure m -> "ERR " ^ m | Stack_overflow -> "ERR stack") in
         print_string out; print_char '\n';
         if Sys.time () -. !last_flush > 0.5 then (flush stdout; last_flush := Sys.time ()))
    done
  with End_of_file -> ()
