// Harness for C29: HttpHdrCc::parse / HttpHdrCc::packInto (src/HttpHdrCc.cc), with the real strListGetItem
// (src/StrList.cc), httpHeaderParseInt (src/HttpHeaderTools.cc) and httpHeaderParseQuotedString
// (src/HttpHeader.cc), all compiled from /repo's working tree.
// stdin: one case per line; stdout: one canonical result line per case.
//   cc <hex>            parse the value into a fresh HttpHdrCc; pack it; parse the packed text into a fresh object
//   cc2 <hex> <hex>     parse two values into the same object
//   it <hex>            the items a strListGetItem(',') loop sees
//   qs <len> <hex>      httpHeaderParseQuotedString(c-string, len)
#include "squid.h"
#include "hcommon.h"
#include <algorithm>
#include <cstring>
#include <map>
#include <memory>
#include <optional>
#include <ostream>
#include <vector>
#include "MemBuf.h"
#include "SquidString.h"
#include "sbuf/SBuf.h"
#define private public
#define protected public
#include "HttpHdrCc.h"
#undef private
#undef protected
#include "HttpHeader.h"
#include "HttpHeaderTools.h"
#include "SquidConfig.h"
#include "StrList.h"
#include "mem/forward.h"

class SquidConfig Config;

static std::string hexOf(const String &s) { return tohex(s.rawBuf() ? s.rawBuf() : "", s.size()); }

static std::string fmt(const HttpHdrCc &cc, bool ret)
{
    std::ostringstream o;
    o << "r=" << (ret ? 1 : 0) << " m=" << cc.mask << " ma=" << cc.max_age << " sm=" << cc.s_maxage
      << " ms=" << cc.max_stale << " sie=" << cc.stale_if_error << " mf=" << cc.min_fresh
      << " pv=" << hexOf(cc.private_) << " nc=" << hexOf(cc.no_cache) << " ot=" << hexOf(cc.other);
    // the public accessors must tell the same story as the raw members
    int32_t v = -7;
    const String *sp = nullptr;
    bool bad = false;
    bad |= cc.hasMaxAge(&v) != cc.isSet(HttpHdrCcType::CC_MAX_AGE) || (cc.hasMaxAge() && v != cc.max_age);
    bad |= cc.hasSMaxAge(&v) != cc.isSet(HttpHdrCcType::CC_S_MAXAGE) || (cc.hasSMaxAge() && v != cc.s_maxage);
    bad |= cc.hasMaxStale(&v) != cc.isSet(HttpHdrCcType::CC_MAX_STALE) || (cc.hasMaxStale() && v != cc.max_stale);
    bad |= cc.hasMinFresh(&v) != cc.isSet(HttpHdrCcType::CC_MIN_FRESH) || (cc.hasMinFresh() && v != cc.min_fresh);
    bad |= cc.hasStaleIfError(&v) != cc.isSet(HttpHdrCcType::CC_STALE_IF_ERROR) || (cc.hasStaleIfError() && v != cc.stale_if_error);
    bad |= cc.hasPrivate(&sp) != cc.isSet(HttpHdrCcType::CC_PRIVATE);
    bad |= cc.hasNoCache(&sp) != cc.isSet(HttpHdrCcType::CC_NO_CACHE);
    bad |= cc.hasPublic() != cc.isSet(HttpHdrCcType::CC_PUBLIC) || cc.hasNoStore() != cc.isSet(HttpHdrCcType::CC_NO_STORE);
    if (bad) o << " BAD-ACCESSOR";
    return o.str();
}

static String mkString(const std::string &s)
{
    String v;
    v.assign(s.data(), s.size());
    return v;
}

int main()
{
    Mem::Init();
    httpHeaderInitModule();
    std::string line;
    while (std::getline(std::cin, line)) {
        auto a = splitws(line);
        if (a.empty()) { std::cout << "\n"; continue; }
        const std::string &op = a[0];
        std::ostringstream o;
        try {
            if (op == "cc" && a.size() == 2) {
                const String v = mkString(unhex(a[1]));
                HttpHdrCc cc;
                const bool r = cc.parse(v);
                o << fmt(cc, r);
                MemBuf mb;
                mb.init();
                cc.packInto(&mb);
                o << " | pk=" << tohex(mb.content(), mb.contentSize());
                const String v2 = mkString(std::string(mb.content(), mb.contentSize()));
                HttpHdrCc cc2;
                const bool r2 = cc2.parse(v2);
                o << " | " << fmt(cc2, r2);
                mb.clean();
            } else if (op == "cc2" && a.size() == 3) {
                HttpHdrCc cc;
                cc.parse(mkString(unhex(a[1])));
                const bool r = cc.parse(mkString(unhex(a[2])));
                o << fmt(cc, r);
            } else if (op == "it" && a.size() == 2) {
                const String v = mkString(unhex(a[1]));
                const char *item = nullptr, *pos = nullptr;
                int ilen = 0, n = 0;
                std::ostringstream items;
                while (strListGetItem(&v, ',', &item, &ilen, &pos)) {
                    ++n;
                    items << " " << tohex(item, ilen);
                    if (n > 100000) break;
                }
                o << n << items.str();
            } else if (op == "qs" && a.size() == 3) {
                const std::string s = unhex(a[2]);
                const std::string cs(s.c_str()); // the bytes before the first NUL
                String val;
                const int len = std::stoi(a[1]);
                if (httpHeaderParseQuotedString(cs.c_str(), len, &val)) o << "ok " << hexOf(val);
                else o << "fail";
            } else o << "ERR unknown-entry " << op;
        } catch (const std::exception &e) { o.str(""); o << "EXC " << e.what(); }
        catch (...) { o.str(""); o << "EXC unknown"; }
        std::cout << o.str() << "\n" << std::flush;
    }
    return 0;
}
