// Harness: Ipc::TypedMsgHdr (src/ipc/TypedMsgHdr.cc/.h) from /repo's working tree, built with ASan+UBSan.
// stdin : "tm.run <op> <op> ..."
//   T:<t>  setType          I:<int> putInt      P:<hex> putPod (sizes 1,2,4,8,16,32; else putFixed)
//   S:<hex> putString       F:<hex> putFixed
//   X  receive: a new message does prepForReading() and gets the sender's data buffer byte for byte
//   Y  copy-construct a new message from the current one
//   R:<type>:<size>:<fill>:<pos>:<hex>  a new message does prepForReading() and its data buffer is overwritten:
//        type_ = type, size = size (any 64-bit value), raw = fill byte everywhere, then hex at pos
//   t:<t> checkType   y rawType   i getInt   p:<n> getPod   s getString   f:<n> getFixed   h hasMoreData
//   D  dump type, size and raw[0, min(size, sizeof raw))
// stdout: one token per op: <result>@<data.size>,<offset>   (result: ok | EXC | =<value>)
// Every message object lives in its own heap block, so that ASan sees any access past its end.
#include "squid.h"
#include <string>
#include <vector>
#include <sstream>
#include <iostream>
#include <memory>
#define private public
#include "ipc/TypedMsgHdr.h"
#undef private
#include "SquidString.h"
#include "hcommon.h"
#include <cstring>

using Ipc::TypedMsgHdr;

template <size_t N> struct PodN { unsigned char b[N]; };

template <size_t N> static void putPodN(TypedMsgHdr &m, const std::string &v) { PodN<N> p; memcpy(p.b, v.data(), N); m.putPod(p); }
template <size_t N> static std::string getPodN(const TypedMsgHdr &m)
{
    // a heap block of exactly N bytes receives the value
    std::unique_ptr<PodN<N>> p(new PodN<N>);
    memset(p->b, 0xEE, N);
    m.getPod(*p);
    return std::string(reinterpret_cast<const char *>(p->b), N);
}

static std::vector<std::string> splitc(const std::string &s)
{
    std::vector<std::string> v; std::string cur;
    for (char c : s) { if (c == ':') { v.push_back(cur); cur.clear(); } else cur.push_back(c); }
    v.push_back(cur); return v;
}

int main()
{
    std::string line;
    while (std::getline(std::cin, line)) {
        auto a = splitws(line);
        if (a.empty()) { std::cout << "\n"; continue; }
        if (a[0] != "tm.run") { std::cout << "ERR unknown-entry " << a[0] << "\n" << std::flush; continue; }
        std::ostringstream o;
        std::unique_ptr<TypedMsgHdr> m(new TypedMsgHdr);
        for (size_t k = 1; k < a.size(); ++k) {
            auto f = splitc(a[k]);
            const std::string &op = f[0];
            if (k > 1) o << " ";
            try {
                if (op == "T") { m->setType(std::stoi(f[1])); o << "ok"; }
                else if (op == "I") { m->putInt(std::stoi(f[1])); o << "ok"; }
                else if (op == "P") {
                    const std::string v = unhex(f[1]);
                    switch (v.size()) {
                    case 1: putPodN<1>(*m, v); break;
                    case 2: putPodN<2>(*m, v); break;
                    case 4: putPodN<4>(*m, v); break;
                    case 8: putPodN<8>(*m, v); break;
                    case 16: putPodN<16>(*m, v); break;
                    case 32: putPodN<32>(*m, v); break;
                    default: {
                        std::unique_ptr<char[]> src(new char[v.size() ? v.size() : 1]);
                        memcpy(src.get(), v.data(), v.size());
                        m->putFixed(src.get(), v.size());
                    }
                    }
                    o << "ok";
                }
                else if (op == "F") {
                    const std::string v = unhex(f[1]);
                    std::unique_ptr<char[]> src(new char[v.size() ? v.size() : 1]);
                    memcpy(src.get(), v.data(), v.size());
                    m->putFixed(src.get(), v.size());
                    o << "ok";
                }
                else if (op == "S") {
                    const std::string v = unhex(f[1]);
                    String s;
                    if (!v.empty()) s.assign(v.data(), v.size());
                    m->putString(s);
                    o << "ok";
                }
                else if (op == "X") {
                    std::unique_ptr<TypedMsgHdr> rx(new TypedMsgHdr);
                    rx->prepForReading();
                    memcpy(&rx->data, &m->data, sizeof(rx->data));   // what recvmsg() does with iov[0]
                    m = std::move(rx);
                    o << "ok";
                }
                else if (op == "Y") {
                    std::unique_ptr<TypedMsgHdr> cp(new TypedMsgHdr(*m));
                    m = std::move(cp);
                    o << "ok";
                }
                else if (op == "R") {
                    std::unique_ptr<TypedMsgHdr> rx(new TypedMsgHdr);
                    rx->prepForReading();
                    rx->data.type_ = static_cast<int>(std::stoll(f[1]));
                    rx->data.size = static_cast<size_t>(std::stoull(f[2]));
                    memset(rx->data.raw, std::stoi(f[3]), sizeof(rx->data.raw));
                    const size_t pos = std::stoull(f[4]);
                    const std::string v = unhex(f[5]);
                    for (size_t j = 0; j < v.size(); ++j)
                        if (pos + j < sizeof(rx->data.raw)) rx->data.raw[pos + j] = v[j];
                    m = std::move(rx);
                    o << "ok";
                }
                else if (op == "t") { m->checkType(std::stoi(f[1])); o << "ok"; }
                else if (op == "y") { o << "=" << m->rawType(); }
                else if (op == "i") { const int v = m->getInt(); o << "=" << v; }
                else if (op == "p") {
                    const size_t n = std::stoull(f[1]);
                    std::string v;
                    switch (n) {
                    case 1: v = getPodN<1>(*m); break;
                    case 2: v = getPodN<2>(*m); break;
                    case 4: v = getPodN<4>(*m); break;
                    case 8: v = getPodN<8>(*m); break;
                    case 16: v = getPodN<16>(*m); break;
                    case 32: v = getPodN<32>(*m); break;
                    default: {
                        std::unique_ptr<char[]> dst(new char[n ? n : 1]);
                        m->getFixed(dst.get(), n);
                        v.assign(dst.get(), n);
                    }
                    }
                    o << "=" << tohex(v);
                }
                else if (op == "f") {
                    const size_t n = std::stoull(f[1]);
                    std::unique_ptr<char[]> dst(new char[n ? n : 1]);   // exactly n bytes: ASan sees an overrun
                    m->getFixed(dst.get(), n);
                    o << "=" << tohex(dst.get(), n);
                }
                else if (op == "s") {
                    String s;
                    s.assign("stale", 5);
                    m->getString(s);
                    o << "=" << tohex(s.rawBuf(), s.size());
                }
                else if (op == "h") { o << "=" << (m->hasMoreData() ? 1 : 0); }
                else if (op == "D") {
                    const size_t n = m->data.size < sizeof(m->data.raw) ? m->data.size : sizeof(m->data.raw);
                    o << "=" << m->data.type_ << "/" << tohex(m->data.raw, n);
                }
                else o << "ERR-op";
            } catch (const std::exception &) { o << "EXC"; }
            catch (...) { o << "EXC"; }
            o << "@" << m->data.size << "," << m->offset;
        }
        std::cout << o.str() << "\n" << std::flush;
    }
    return 0;
}
