/* LD_PRELOAD crash shim: counts write/pwrite/pwrite64/writev calls on descriptors whose path starts with
 * VERIF_CRASH_PREFIX; at the VERIF_CRASH_AT-th such call (1-based) the process _exit(137)s, after first
 * performing only VERIF_CRASH_PARTIAL bytes of it when that variable is set (torn write).
 * Every matching call is logged to VERIF_CRASH_LOG as "<n> <fd path> <offset> <len>". */
#define _GNU_SOURCE
#include <dlfcn.h>
#include <fcntl.h>
#include <stdio.h>
#include <stdlib.h>
#include <string.h>
#include <sys/uio.h>
#include <unistd.h>

static long count;
static int match(int fd, char *path, size_t n) {
    const char *pre = getenv("VERIF_CRASH_PREFIX");
    if (!pre) return 0;
    char link[64];
    snprintf(link, sizeof(link), "/proc/self/fd/%d", fd);
    ssize_t k = readlink(link, path, n - 1);
    if (k <= 0) return 0;
    path[k] = 0;
    return strncmp(path, pre, strlen(pre)) == 0;
}
static void logit(const char *path, long off, long len) {
    const char *lf = getenv("VERIF_CRASH_LOG");
    if (!lf) return;
    int fd = open(lf, O_WRONLY | O_APPEND | O_CREAT, 0666);
    if (fd < 0) return;
    char b[600];
    int n = snprintf(b, sizeof(b), "%ld %s %ld %ld\n", count, path, off, len);
    ssize_t (*rw)(int, const void *, size_t) = dlsym(RTLD_NEXT, "write");
    rw(fd, b, n);
    close(fd);
}
/* returns -1: proceed normally; >=0: write only that many bytes then die */
static long gate(int fd, long off, long len) {
    char path[512];
    if (!match(fd, path, sizeof(path))) return -1;
    ++count;
    if (off < 0) off = lseek(fd, 0, SEEK_CUR);
    logit(path, off, len);
    const char *at = getenv("VERIF_CRASH_AT");
    if (at && atol(at) == count) {
        const char *part = getenv("VERIF_CRASH_PARTIAL");
        return part ? atol(part) : 0;
    }
    return -1;
}
ssize_t write(int fd, const void *buf, size_t n) {
    static ssize_t (*real)(int, const void *, size_t);
    if (!real) real = dlsym(RTLD_NEXT, "write");
    long g = gate(fd, -1, (long)n);
    if (g >= 0) { if (g > 0) real(fd, buf, (size_t)g < n ? (size_t)g : n); _exit(137); }
    return real(fd, buf, n);
}
ssize_t pwrite(int fd, const void *buf, size_t n, off_t off) {
    static ssize_t (*real)(int, const void *, size_t, off_t);
    if (!real) real = dlsym(RTLD_NEXT, "pwrite");
    long g = gate(fd, (long)off, (long)n);
    if (g >= 0) { if (g > 0) real(fd, buf, (size_t)g < n ? (size_t)g : n, off); _exit(137); }
    return real(fd, buf, n, off);
}
ssize_t pwrite64(int fd, const void *buf, size_t n, off_t off) {
    static ssize_t (*real)(int, const void *, size_t, off_t);
    if (!real) real = dlsym(RTLD_NEXT, "pwrite64");
    long g = gate(fd, (long)off, (long)n);
    if (g >= 0) { if (g > 0) real(fd, buf, (size_t)g < n ? (size_t)g : n, off); _exit(137); }
    return real(fd, buf, n, off);
}
ssize_t writev(int fd, const struct iovec *iov, int cnt) {
    static ssize_t (*real)(int, const struct iovec *, int);
    if (!real) real = dlsym(RTLD_NEXT, "writev");
    long tot = 0; for (int i = 0; i < cnt; ++i) tot += iov[i].iov_len;
    long g = gate(fd, -1, tot);
    if (g >= 0) _exit(137);
    return real(fd, iov, cnt);
}
