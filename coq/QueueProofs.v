(* QueueProofs.v — proofs about QueueModel.v (C56: Ipc::OneToOneUniQueue + QueueReader).

   Method. Two invariants over all interleavings of the producer and the consumer:
   Inv1 (no hypothesis on the indices): theSize = items copied in and counted - items
   popped, it never exceeds theCapacity nor wraps; a consumer committed to a pop has an
   item; the reader flags: blocked is set whenever the consumer is past block(); signal
   implies a notification that is pending, about to be sent, or being cleared; an idle
   consumer facing a non-empty queue has a notification pending or the push in flight
   will answer "notify".
   Inv2 (needs: capacity divides 2^32, or the cursors do not pass 2^32): theIn/theOut are
   i0 + counts modulo 2^32; the ring holds, for every item copied in and not yet popped,
   its value at position ((i0 + j) mod 2^32) mod capacity — distinct positions because
   fewer than capacity such items exist; popped = the first items copied in.
   lia is kept away from `mod`: wrap32/sidx stay folded (simpl never) and W32 is opaque. *)
Require Import SquidV.Bytes SquidV.QueueModel.
Require Import ZifyBool ZifyN ZifyNat.
Local Open Scope N_scope.

(* ---------- lists indexed by N ---------- *)
Lemma nthN_app_l {A} (a b : list A) : forall j, j < lenN a -> nthN j (a ++ b) = nthN j a.
Proof.
  induction a as [|x a IH]; intros j Hj; cbn [lenN] in Hj. { lia. }
  cbn [app nthN]. destruct (j =? 0) eqn:E; [reflexivity|]. apply IH. lia.
Qed.

Lemma nthN_app_len {A} (a : list A) x : nthN (lenN a) (a ++ [x]) = Some x.
Proof.
  induction a as [|y a IH]; cbn [lenN app nthN]. { reflexivity. }
  destruct (N.succ (lenN a) =? 0) eqn:E; [lia|]. rewrite N.pred_succ. exact IH.
Qed.

Lemma nthN_lt_some {A} (l : list A) : forall j, j < lenN l -> exists x, nthN j l = Some x.
Proof.
  induction l as [|y l IH]; intros j Hj; cbn [lenN] in Hj. { lia. }
  cbn [nthN]. destruct (j =? 0) eqn:E; [eauto|]. apply IH. lia.
Qed.

Lemma nthN_ge_none {A} (l : list A) : forall j, lenN l <= j -> nthN j l = None.
Proof.
  induction l as [|y l IH]; intros j Hj; cbn [lenN] in Hj; cbn [nthN]. { reflexivity. }
  destruct (j =? 0) eqn:E; [lia|]. apply IH. lia.
Qed.

Lemma takeN_app_l {A} (a b : list A) : forall n, n <= lenN a -> takeN n (a ++ b) = takeN n a.
Proof.
  induction a as [|x a IH]; intros n Hn; cbn [lenN] in Hn.
  - assert (n = 0) by lia. subst. destruct b; reflexivity.
  - cbn [app takeN]. destruct (n =? 0) eqn:E; [reflexivity|]. f_equal. apply IH. lia.
Qed.

Lemma takeN_succ {A} (l : list A) : forall n x, nthN n l = Some x -> takeN (n + 1) l = takeN n l ++ [x].
Proof.
  induction l as [|y l IH]; intros n x H; cbn [nthN] in H. { discriminate. }
  cbn [takeN]. destruct (n =? 0) eqn:E.
  - inversion H; subst. assert (n = 0) by lia. subst. cbn. destruct l; reflexivity.
  - destruct (n + 1 =? 0) eqn:E2; [lia|]. cbn [app]. f_equal.
    replace (N.pred (n + 1)) with (N.pred n + 1) by lia. apply IH. exact H.
Qed.

Lemma takeN_all {A} (l : list A) : forall n, lenN l <= n -> takeN n l = l.
Proof.
  induction l as [|y l IH]; intros n Hn; cbn [lenN] in Hn; cbn [takeN]. { reflexivity. }
  destruct (n =? 0) eqn:E; [lia|]. f_equal. apply IH. lia.
Qed.

Lemma dropN_nth {A} (l : list A) : forall n x, nthN n l = Some x -> dropN n l = x :: dropN (n + 1) l.
Proof.
  induction l as [|y l IH]; intros n x H; cbn [nthN] in H. { discriminate. }
  cbn [dropN]. destruct (n =? 0) eqn:E.
  - inversion H; subst. destruct (n + 1 =? 0) eqn:E2; [lia|]. assert (n = 0) by lia. subst. cbn.
    destruct l; cbn; reflexivity.
  - destruct (n + 1 =? 0) eqn:E2; [lia|]. replace (N.pred (n + 1)) with (N.pred n + 1) by lia. apply IH. exact H.
Qed.

Lemma dropN_all {A} (l : list A) : forall n, lenN l <= n -> dropN n l = [].
Proof.
  induction l as [|y l IH]; intros n Hn; cbn [lenN] in Hn; cbn [dropN]. { reflexivity. }
  destruct (n =? 0) eqn:E; [lia|]. apply IH. lia.
Qed.

Lemma lenN_map {A B} (f : A -> B) l : lenN (map f l) = lenN l.
Proof. induction l; cbn [map lenN]; congruence. Qed.

Lemma lenN_setN {A} (l : list A) : forall n x, lenN (setN n x l) = lenN l.
Proof.
  induction l as [|y l IH]; intros n x; cbn [setN lenN]. { reflexivity. }
  destruct (n =? 0); cbn [lenN]; [reflexivity|]. rewrite IH. reflexivity.
Qed.

Lemma nthN_setN_same {A} (l : list A) : forall n x, n < lenN l -> nthN n (setN n x l) = Some x.
Proof.
  induction l as [|y l IH]; intros n x Hn; cbn [lenN] in Hn. { lia. }
  cbn [setN]. destruct (n =? 0) eqn:E; cbn [nthN]; rewrite E; [reflexivity|]. apply IH. lia.
Qed.

Lemma nthN_setN_other {A} (l : list A) : forall p q x, p <> q -> nthN p (setN q x l) = nthN p l.
Proof.
  induction l as [|y l IH]; intros p q x Hpq; cbn [setN]. { reflexivity. }
  destruct (q =? 0) eqn:Eq; cbn [nthN]; destruct (p =? 0) eqn:Ep; try reflexivity.
  - lia.
  - apply IH. lia.
Qed.

Lemma slot_setN_same b pos x : pos < lenN b -> slot pos (setN pos x b) = x.
Proof. intros H. unfold slot. rewrite nthN_setN_same by exact H. reflexivity. Qed.

Lemma slot_setN_other b p q x : p <> q -> slot p (setN q x b) = slot p b.
Proof. intros H. unfold slot. rewrite nthN_setN_other by exact H. reflexivity. Qed.

Lemma lenN_repeat {A} (x : A) n : lenN (repeat x n) = N.of_nat n.
Proof. induction n; cbn [repeat lenN]; lia. Qed.

(* ---------- arithmetic of ring positions ---------- *)
Lemma mod_distinct c x y : 0 < c -> x < y -> y - x < c -> x mod c <> y mod c.
Proof.
  intros Hc Hxy Hd E.
  pose proof (N.div_mod x c ltac:(lia)) as Hx. pose proof (N.div_mod y c ltac:(lia)) as Hy.
  pose proof (N.mod_lt x c ltac:(lia)). pose proof (N.mod_lt y c ltac:(lia)).
  rewrite E in Hx.
  assert (Hq : x / c < y / c \/ y / c <= x / c) by lia.
  destruct Hq as [Hq|Hq]; nia.
Qed.

Lemma mod_mod_dividing W c x : 0 < c -> W mod c = 0 -> (x mod W) mod c = x mod c.
Proof.
  intros Hc HW.
  assert (W = c * (W / c)) as HWc. { pose proof (N.div_mod W c ltac:(lia)). lia. }
  destruct (N.eq_dec (W / c) 0) as [Hz|Hz].
  - rewrite Hz, N.mul_0_r in HWc. subst W. destruct x; cbn; reflexivity.
  - rewrite HWc at 1. rewrite N.mod_mul_r by lia.
    rewrite (N.mul_comm c). rewrite N.mod_add by lia. apply N.mod_mod. lia.
Qed.

Arguments N.modulo : simpl never.
Arguments N.sub : simpl never.
Arguments N.add : simpl never.
Arguments N.mul : simpl never.
Arguments N.ltb : simpl never.
Arguments N.eqb : simpl never.
Arguments wrap32 : simpl never.
Arguments sidx : simpl never.

Definition wp (p : ppc) : N := match p with PPush3 _ => 1 | _ => 0 end.
Definition tp (p : ppc) : N := match p with PPush2 _ _ => 1 | _ => 0 end.
Definition cc (c : cpc) : N := match c with CPop4 | CPop5 _ | CPop6 _ => 1 | _ => 0 end.
Definition tc (c : cpc) : N := match c with CPop5 _ | CPop6 _ => 1 | _ => 0 end.
Definition cblocked (c : cpc) : bool := match c with CPop3 | CIdle | CDone => true | _ => false end.
Definition cclearing (c : cpc) : bool := match c with CClr1 | CClr2 => true | _ => false end.
Definition cidle (c : cpc) : bool := match c with CIdle | CDone => true | _ => false end.
Definition is_notify (p : ppc) : bool := match p with PNotify => true | _ => false end.
Definition is_pdone (p : ppc) : bool := match p with PDone => true | _ => false end.
Definition is_cdone (c : cpc) : bool := match c with CDone => true | _ => false end.

Record Inv1 (s : state) : Prop := mkInv1 {
  i_cap : 0 < cap s < W32;
  i_size : size s + wp (pp s) + lenN (popped s) = lenN (acc s);
  i_room : size s + tp (pp s) + wp (pp s) <= cap s;
  i_comm : cc (cp s) <= size s;
  i_blk : cblocked (cp s) = true -> blocked s = true;
  i_sig : signal s = true -> 0 < notifs s \/ is_notify (pp s) = true \/ cclearing (cp s) = true;
  i_wake : cidle (cp s) = true -> 0 < size s -> 0 < notifs s \/ will_notify s = true;
  i_done : is_cdone (cp s) = true -> is_pdone (pp s) = true /\ notifs s = 0
}.

Lemma W32_pos : 0 < W32. Proof. reflexivity. Qed.
Lemma wrap32_small x : x < W32 -> wrap32 x = x.
Proof. intros. unfold wrap32. apply N.mod_small. assumption. Qed.
Lemma wrap32_dec x : 0 < x -> x < W32 -> wrap32 (x + (W32 - 1)) = x - 1.
Proof.
  intros. unfold wrap32. replace (x + (W32 - 1)) with ((x - 1) + 1 * W32) by lia.
  rewrite N.mod_add by (pose proof W32_pos; lia). apply N.mod_small. lia.
Qed.
Global Opaque W32.

Ltac bools := repeat match goal with b : bool |- _ => destruct b end.
Ltac leaf := cbn in *; first [assumption | lia | solve [intuition lia] | solve [bools; cbn in *; intuition lia]].
Ltac fin := constructor; cbn; rewrite ?lenN_app; cbn [lenN];
  rewrite ?wrap32_small by lia; rewrite ?wrap32_dec by lia;
  first [assumption | lia | solve [intuition lia] | solve [bools; cbn in *; intuition lia]
        | solve [match goal with c : cpc |- _ => destruct c end; leaf] | idtac].

Lemma pstep_inv1 s : Inv1 s -> Inv1 (fst (pstep s)).
Proof.
  destruct s as [cap0 i00 tin0 tout0 size0 blocked0 signal0 buf0 notifs0 polls0 pp0 items0 cp0 acc0 pushed0 popped0].
  intros [Hcap Hsize Hroom Hcomm Hblk Hsig Hwake Hdone]; cbn in *.
  unfold pstep, finish_push, advance; cbn.
  destruct pp0; cbn in *.
  - destruct (size0 =? cap0) eqn:E; [destruct items0|]; fin.
  - fin.
  - destruct (size0 =? 0) eqn:E; [|destruct items0]; fin.
  - destruct blocked0; [|destruct items0]; fin.
  - destruct signal0; [destruct items0|]; fin.
  - destruct items0; fin.
  - fin.
Qed.

Lemma cstep_inv1 s : Inv1 s -> Inv1 (fst (cstep s)).
Proof.
  destruct s as [cap0 i00 tin0 tout0 size0 blocked0 signal0 buf0 notifs0 polls0 pp0 items0 cp0 acc0 pushed0 popped0].
  intros [Hcap Hsize Hroom Hcomm Hblk Hsig Hwake Hdone]; cbn in *.
  unfold cstep; cbn.
  destruct cp0; cbn in *.
  - fin.
  - fin.
  - destruct (size0 =? 0) eqn:E; fin.
  - fin.
  - destruct (size0 =? 0) eqn:E; fin.
  - fin.
  - fin.
  - fin.
  - destruct (0 <? notifs0) eqn:E1; [|destruct (0 <? polls0) eqn:E2; [|destruct pp0; cbn in *]]; fin.
  - fin.
Qed.

Definition pend (p : ppc) : N := match p with PPush1 _ | PPush2 _ _ => 1 | _ => 0 end.
Definition bound (s : state) : N := lenN (acc s) + pend (pp s) + lenN (items s).
Definition divides_W (c : N) : Prop := W32 mod c = 0.
Definition wrap_ok (s : state) : Prop := divides_W (cap s) \/ i0 s + bound s <= W32.
Definition inflight (p : ppc) : list N := match p with PPush3 v | PPush4 v | PPush5 v => [v] | _ => [] end.

Record Inv2 (s : state) : Prop := mkInv2 {
  j_i0 : i0 s < W32;
  j_len : lenN (buf s) = cap s;
  j_wrap : wrap_ok s;
  j_tin : tin s = wrap32 (i0 s + lenN (acc s) + tp (pp s));
  j_tout : tout s = wrap32 (i0 s + lenN (popped s) + tc (cp s));
  j_ppos : forall v pos, pp s = PPush2 v pos -> pos = slotidx s (lenN (acc s));
  j_cpos : forall pos, cp s = CPop5 pos -> pos = slotidx s (lenN (popped s));
  j_cval : forall v, cp s = CPop6 v -> v = nthN (lenN (popped s)) (acc s);
  j_buf : forall j, lenN (popped s) <= j < lenN (acc s) -> slot (slotidx s j) (buf s) = nthN j (acc s);
  j_popped : popped s = map Some (takeN (lenN (popped s)) (acc s));
  j_pushed : acc s = pushed s ++ inflight (pp s)
}.

(* lia on the arithmetic hypotheses only *)
Ltac nlia :=
  repeat match goal with
         | H : forall _, _ |- _ => clear H
         | H : @eq (list _) _ _ |- _ => clear H
         | H : @eq cpc _ _ |- _ => clear H
         | H : @eq ppc _ _ |- _ => clear H
         | H : @eq (option _) _ _ |- _ => clear H
         end; lia.

Lemma sidx_distinct c i j1 j2 :
  0 < c -> (divides_W c \/ i + j2 < W32) -> j1 < j2 -> j2 - j1 < c -> sidx c i j1 <> sidx c i j2.
Proof.
  unfold sidx, wrap32, divides_W. intros Hc [Hd|Hs] H12 Hlt.
  - rewrite !mod_mod_dividing by assumption. apply mod_distinct; lia.
  - rewrite (N.mod_small (i + j1)) by lia. rewrite (N.mod_small (i + j2)) by lia. apply mod_distinct; lia.
Qed.

Lemma sidx_lt c i j : 0 < c -> sidx c i j < c.
Proof. intros. unfold sidx. apply N.mod_lt. lia. Qed.

Lemma one_lt_W32 : 1 < W32. Proof. Transparent W32. reflexivity. Qed.
Opaque W32.
Lemma wrap32_succ x : wrap32 (wrap32 x + 1) = wrap32 (x + 1).
Proof.
  unfold wrap32. pose proof one_lt_W32. rewrite (N.add_mod x 1 W32) by lia. rewrite (N.mod_small 1 W32) by lia. reflexivity.
Qed.

Ltac inv2 := constructor; unfold wrap_ok, bound, slotidx; cbn; rewrite ?lenN_app, ?lenN_setN; cbn [lenN];
  try assumption; try discriminate.

Lemma pstep_inv2 s : Inv1 s -> Inv2 s -> Inv2 (fst (pstep s)).
Proof.
  destruct s as [cap0 i00 tin0 tout0 size0 blocked0 signal0 buf0 notifs0 polls0 pp0 items0 cp0 acc0 pushed0 popped0].
  intros [Hcap Hsize Hroom Hcomm Hblk Hsig Hwake Hdone] [Hi0 Hlen Hwrap Htin Htout Hppos Hcpos Hcval Hbuf Hpopped Hpushed].
  unfold wrap_ok, bound, slotidx in *; cbn in *.
  unfold pstep, finish_push, advance; cbn.
  destruct pp0; cbn in *.
  - (* PPush1 *)
    destruct (size0 =? cap0) eqn:E; [destruct items0 as [|v' r]|]; cbn.
    + inv2. destruct Hwrap; [left; assumption|right; nlia].
    + inv2. cbn [lenN] in *. destruct Hwrap; [left; assumption|right; nlia].
    + inv2.
      * rewrite Htin. rewrite wrap32_succ. f_equal. nlia.
      * intros v0 pos H; inversion H; subst. unfold sidx. rewrite N.add_0_r. reflexivity.
  - (* PPush2: the copy *)
    specialize (Hppos v pos eq_refl). subst pos.
    assert (Hpos : sidx cap0 i00 (lenN acc0) < lenN buf0) by (rewrite Hlen; apply sidx_lt; lia).
    inv2.
    + destruct Hwrap; [left; assumption|right; nlia].
    + rewrite Htin. f_equal. nlia.
    + intros w Hw. rewrite (Hcval w Hw). symmetry. apply nthN_app_l. rewrite Hw in Hcomm. cbn in Hcomm. nlia.
    + intros j Hj. assert (Hc : j = lenN acc0 \/ j < lenN acc0) by nlia. destruct Hc as [Hc|Hc].
      * subst j. rewrite slot_setN_same by assumption. rewrite nthN_app_len. reflexivity.
      * rewrite slot_setN_other.
        -- rewrite nthN_app_l by assumption. apply Hbuf. nlia.
        -- apply sidx_distinct; try nlia. destruct Hwrap as [Hw|Hw]; [left; assumption|right; nlia].
    + rewrite takeN_app_l by nlia. assumption.
    + rewrite Hpushed. rewrite app_nil_r. reflexivity.
  - (* PPush3 *)
    destruct (size0 =? 0) eqn:E; [|destruct items0 as [|v' r]]; cbn; inv2; cbn [lenN] in *.
    all: try (destruct Hwrap; [left; assumption|right; nlia]).
    all: rewrite Hpushed, ?app_nil_r; reflexivity.
  - (* PPush4 *)
    destruct blocked0; [|destruct items0 as [|v' r]]; cbn; inv2; cbn [lenN] in *.
    all: try (destruct Hwrap; [left; assumption|right; nlia]).
    all: rewrite Hpushed, ?app_nil_r; reflexivity.
  - (* PPush5 *)
    destruct signal0; [destruct items0 as [|v' r]|]; cbn; inv2; cbn [lenN] in *.
    all: try (destruct Hwrap; [left; assumption|right; nlia]).
    all: rewrite Hpushed, ?app_nil_r; reflexivity.
  - (* PNotify *)
    destruct items0 as [|v' r]; cbn; inv2; cbn [lenN] in *.
    all: try (destruct Hwrap; [left; assumption|right; nlia]).
  - inv2.
Qed.

Lemma cstep_inv2 s : Inv1 s -> Inv2 s -> Inv2 (fst (cstep s)).
Proof.
  destruct s as [cap0 i00 tin0 tout0 size0 blocked0 signal0 buf0 notifs0 polls0 pp0 items0 cp0 acc0 pushed0 popped0].
  intros [Hcap Hsize Hroom Hcomm Hblk Hsig Hwake Hdone] [Hi0 Hlen Hwrap Htin Htout Hppos Hcpos Hcval Hbuf Hpopped Hpushed].
  unfold wrap_ok, bound, slotidx in *; cbn in *.
  unfold cstep; cbn.
  destruct cp0; cbn in *.
  - inv2.
  - inv2.
  - destruct (size0 =? 0) eqn:E; inv2.
  - inv2.
  - destruct (size0 =? 0) eqn:E; inv2.
  - (* CPop4 *) inv2.
    + rewrite Htout. rewrite wrap32_succ. f_equal. nlia.
    + intros pos H; inversion H; subst. unfold sidx. rewrite N.add_0_r. reflexivity.
  - (* CPop5: the copy out *) inv2.
    intros w Hw; inversion Hw; subst. rewrite (Hcpos pos eq_refl). apply Hbuf. nlia.
  - (* CPop6 *)
    specialize (Hcval v eq_refl).
    assert (HR : lenN popped0 < lenN acc0) by nlia.
    destruct (nthN_lt_some acc0 _ HR) as [x Hx].
    inv2.
    + rewrite Htout. f_equal. change (N.succ 0) with 1. nlia.
    + intros j Hj. apply Hbuf. change (N.succ 0) with 1 in Hj. nlia.
    + change (N.succ 0) with 1. rewrite (takeN_succ _ _ _ Hx). rewrite map_app. cbn [map]. rewrite <- Hpopped. rewrite Hcval, Hx. reflexivity.
  - (* CIdle *)
    destruct (0 <? notifs0) eqn:E1; [|destruct (0 <? polls0) eqn:E2; [|destruct pp0; cbn in *]]; inv2.
  - inv2.
Qed.

Definition Inv (s : state) : Prop := Inv1 s /\ Inv2 s.

(* the configurations the theorems speak about *)
Definition valid_cfg (c i : N) : Prop := 0 < c < W32 /\ i < W32.
Definition no_wrap_or_dividing (c i : N) (its : list N) : Prop := divides_W c \/ i + lenN its <= W32.

Lemma init_inv1 c i p its : valid_cfg c i -> Inv1 (init c i p its).
Proof.
  intros [Hc Hi]. unfold init, advance; cbn. destruct its as [|v r]; constructor; cbn; try lia; try discriminate; try tauto.
Qed.

Lemma wrap32_small' x : x < W32 -> wrap32 x = x.
Proof. apply wrap32_small. Qed.

Lemma slot_repeat_none n pos : slot pos (repeat None n) = None.
Proof.
  unfold slot. revert pos. induction n as [|n IH]; intros pos; cbn [repeat nthN]. { reflexivity. }
  destruct (pos =? 0); [reflexivity|]. apply IH.
Qed.

Lemma init_inv2 c i p its : valid_cfg c i -> no_wrap_or_dividing c i its -> Inv2 (init c i p its).
Proof.
  intros [Hc Hi] Hw. unfold init, advance; cbn.
  destruct its as [|v r]; constructor; unfold wrap_ok, bound, slotidx; cbn; try discriminate; try assumption; try reflexivity.
  all: try (rewrite lenN_repeat; lia).
  all: try (rewrite !N.add_0_r; symmetry; apply wrap32_small; assumption).
  all: try (intros j Hj; cbn [lenN] in Hj; lia).
  all: unfold no_wrap_or_dividing in Hw; cbn [lenN] in *; destruct Hw; [left; assumption|right; lia].
Qed.

Lemma step_inv s t : Inv s -> Inv (fst (fst (step s t))).
Proof.
  intros [H1 H2]. unfold step.
  destruct (t =? 0).
  - destruct (pdone s); cbn [fst]. { split; assumption. }
    pose proof (pstep_inv1 s H1). pose proof (pstep_inv2 s H1 H2). destruct (pstep s). cbn [fst] in *. split; assumption.
  - destruct (t =? 1); cbn [fst]; [|split; assumption].
    destruct (cdone s); cbn [fst]. { split; assumption. }
    pose proof (cstep_inv1 s H1). pose proof (cstep_inv2 s H1 H2). destruct (cstep s). cbn [fst] in *. split; assumption.
Qed.

Lemma step_inv1 s t : Inv1 s -> Inv1 (fst (fst (step s t))).
Proof.
  intros H1. unfold step.
  destruct (t =? 0).
  - destruct (pdone s); cbn [fst]. { assumption. }
    pose proof (pstep_inv1 s H1). destruct (pstep s). cbn [fst] in *. assumption.
  - destruct (t =? 1); cbn [fst]; [|assumption].
    destruct (cdone s); cbn [fst]. { assumption. }
    pose proof (cstep_inv1 s H1). destruct (cstep s). cbn [fst] in *. assumption.
Qed.

Lemma exec_inv sched : forall s, Inv s -> Inv (fst (fst (exec s sched))).
Proof.
  induction sched as [|t r IH]; intros s H; cbn [exec]. { exact H. }
  pose proof (step_inv s t H) as H'. destruct (step s t) as [[s1 e1] b]. cbn [fst] in H'.
  specialize (IH s1 H'). destruct (exec s1 r) as [[s2 e2] n]. cbn [fst] in *. exact IH.
Qed.

Lemma exec_inv1 sched : forall s, Inv1 s -> Inv1 (fst (fst (exec s sched))).
Proof.
  induction sched as [|t r IH]; intros s H; cbn [exec]. { exact H. }
  pose proof (step_inv1 s t H) as H'. destruct (step s t) as [[s1 e1] b]. cbn [fst] in H'.
  specialize (IH s1 H'). destruct (exec s1 r) as [[s2 e2] n]. cbn [fst] in *. exact IH.
Qed.

Lemma reach_inv1 c i p its sched : valid_cfg c i -> Inv1 (reach c i p its sched).
Proof. intros H. unfold reach. apply exec_inv1. apply init_inv1. exact H. Qed.

Lemma reach_inv c i p its sched : valid_cfg c i -> no_wrap_or_dividing c i its -> Inv (reach c i p its sched).
Proof. intros H Hw. unfold reach. apply exec_inv. split; [apply init_inv1|apply init_inv2]; assumption. Qed.

(* ---------- FIFO exactness ---------- *)
Lemma range_nth_drop (l : list N) : forall n R, R + N.of_nat n = lenN l ->
  map (fun j => nthN j l) (rangeN R n) = map Some (dropN R l).
Proof.
  induction n as [|n IH]; intros R HR; cbn [rangeN map].
  - rewrite dropN_all by lia. reflexivity.
  - destruct (nthN_lt_some l R ltac:(lia)) as [x Hx].
    rewrite (dropN_nth _ _ _ Hx). cbn [map]. rewrite Hx. f_equal.
    replace (R + 1) with (N.succ R) by lia. apply IH. lia.
Qed.

Lemma rangeN_in n : forall from j, In j (rangeN from n) -> from <= j < from + N.of_nat n.
Proof.
  induction n as [|n IH]; intros from j H; cbn [rangeN] in H. { destruct H. }
  destruct H as [H|H]. { lia. } apply IH in H. lia.
Qed.

Lemma inv_fifo s : Inv s -> map Some (acc s) = popped s ++ queued s.
Proof.
  intros [H1 H2]. unfold queued.
  assert (HR : lenN (popped s) <= lenN (acc s)) by (pose proof (i_size s H1); lia).
  rewrite <- (takeN_dropN (lenN (popped s)) (acc s)) at 1. rewrite map_app. rewrite <- (j_popped s H2). f_equal.
  rewrite <- (range_nth_drop (acc s) (N.to_nat (lenN (acc s) - lenN (popped s)))) by lia.
  apply map_ext_in. intros j Hj. apply rangeN_in in Hj. symmetry. apply (j_buf s H2). lia.
Qed.

Lemma inv_popped_written s : Inv s -> forall v, In v (popped s) -> exists x, v = Some x.
Proof.
  intros [H1 H2] v Hv. rewrite (j_popped s H2) in Hv. apply in_map_iff in Hv. destruct Hv as [x [Hx _]]. eauto.
Qed.

Theorem reach_fifo_exact c i p its sched :
  valid_cfg c i -> no_wrap_or_dividing c i its ->
  let s := reach c i p its sched in map Some (acc s) = popped s ++ queued s.
Proof. intros. apply inv_fifo. apply reach_inv; assumption. Qed.

Theorem reach_popped_prefix c i p its sched :
  valid_cfg c i -> no_wrap_or_dividing c i its ->
  let s := reach c i p its sched in
  popped s = map Some (takeN (lenN (popped s)) (acc s)) /\ lenN (popped s) <= lenN (acc s).
Proof.
  intros Hv Hw s. destruct (reach_inv c i p its sched Hv Hw) as [H1 H2]. fold s in H1, H2. split.
  - apply (j_popped s H2).
  - pose proof (i_size s H1). lia.
Qed.

Theorem reach_never_reads_unwritten c i p its sched :
  valid_cfg c i -> no_wrap_or_dividing c i its ->
  forall v, In v (popped (reach c i p its sched)) -> exists x, v = Some x.
Proof. intros. eapply inv_popped_written; [apply reach_inv; eassumption|eassumption]. Qed.

(* counters: theSize never wraps, is the number of published and not yet released items *)
Theorem reach_size_exact c i p its sched : valid_cfg c i ->
  let s := reach c i p its sched in
  size s + wp (pp s) + lenN (popped s) = lenN (acc s) /\ size s + tp (pp s) + wp (pp s) <= cap s /\ cc (cp s) <= size s.
Proof. intros Hv s. pose proof (reach_inv1 c i p its sched Hv) as H. fold s in H. destruct H. auto. Qed.

(* ---------- no lost wakeup ---------- *)
Theorem reach_no_lost_wakeup c i p its sched : valid_cfg c i ->
  let s := reach c i p its sched in
  cidle (cp s) = true -> 0 < size s -> 0 < notifs s \/ will_notify s = true.
Proof. intros Hv s. pose proof (reach_inv1 c i p its sched Hv) as H. fold s in H. apply (i_wake s H). Qed.

Theorem reach_idle_flags c i p its sched : valid_cfg c i ->
  let s := reach c i p its sched in
  cidle (cp s) = true -> notifs s = 0 -> is_notify (pp s) = false -> blocked s = true /\ signal s = false.
Proof.
  intros Hv s Hidle Hn Hp. pose proof (reach_inv1 c i p its sched Hv) as H. fold s in H. split.
  - apply (i_blk s H). destruct (cp s); cbn in *; congruence.
  - destruct (signal s) eqn:Es; [|reflexivity]. destruct (i_sig s H Es) as [?|[?|?]]; try lia; try congruence.
    destruct (cp s); cbn in *; congruence.
Qed.

(* the push that finds the consumer asleep on an empty queue asks for the notification *)
Arguments N.eqb : simpl nomatch.
Lemma next_push_from_idle s v :
  Inv1 s -> cp s = CIdle -> size s = 0 -> notifs s = 0 -> pp s = PPush1 v ->
  exists s', exec s [0; 0; 0; 0; 0] = (s', [EvPush v true], 5) /\ pp s' = PNotify /\ signal s' = true.
Proof.
  destruct s as [cap0 i00 tin0 tout0 size0 blocked0 signal0 buf0 notifs0 polls0 pp0 items0 cp0 acc0 pushed0 popped0].
  intros [Hcap Hsize Hroom Hcomm Hblk Hsig Hwake Hdone]; cbn in *. intros -> -> -> ->. cbn in *.
  assert (blocked0 = true) by auto. subst blocked0.
  assert (signal0 = false). { destruct signal0; [|reflexivity]. destruct (Hsig eq_refl) as [?|[?|?]]; [lia|discriminate|discriminate]. }
  subst signal0.
  assert (E : (0 =? cap0) = false) by lia.
  unfold exec, step, pstep, pdone, finish_push, advance.
  change (0 =? 0) with true.
  lazy beta iota zeta delta [fst snd pp size cap blocked signal set_pp set_tin set_buf_acc set_size set_signal set_pushed
    i0 tin tout buf notifs polls items cp acc pushed popped app].
  rewrite E.
  lazy beta iota zeta delta [N.eqb fst snd pp size cap blocked signal set_pp set_tin set_buf_acc set_size set_signal set_pushed
    i0 tin tout buf notifs polls items cp acc pushed popped app N.succ Pos.succ].
  eexists. split; [reflexivity|]. split; reflexivity.
Qed.


Arguments N.eqb : simpl never.

Theorem reach_next_push_notifies c i p its sched v : valid_cfg c i ->
  let s := reach c i p its sched in
  cp s = CIdle -> size s = 0 -> notifs s = 0 -> pp s = PPush1 v ->
  exists s', exec s [0; 0; 0; 0; 0] = (s', [EvPush v true], 5) /\ pp s' = PNotify /\ signal s' = true.
Proof. intros Hv s. apply next_push_from_idle. apply reach_inv1. exact Hv. Qed.

(* Full is thrown only when theCapacity items are queued *)
Theorem reach_full_only_when_full c i p its sched v : valid_cfg c i ->
  let s := reach c i p its sched in
  pp s = PPush1 v -> snd (pstep s) = [EvFull v] -> lenN (acc s) = lenN (popped s) + cap s.
Proof.
  intros Hv s Hp. pose proof (reach_inv1 c i p its sched Hv) as H. fold s in H.
  pose proof (i_size s H) as Hs. rewrite Hp in Hs. cbn in Hs.
  unfold pstep. rewrite Hp. destruct (size s =? cap s) eqn:E; cbn; [intros _; lia|discriminate].
Qed.

(* ---------- completed runs ---------- *)
Lemma drain_empty s : size s = 0 -> drain_all s = [].
Proof.
  intros Hs. unfold drain_all. destruct (N.to_nat (cap s + 2)) eqn:En; [reflexivity|].
  cbn [drain]. unfold pop1.
  destruct s as [cap0 i00 tin0 tout0 size0 blocked0 signal0 buf0 notifs0 polls0 pp0 items0 cp0 acc0 pushed0 popped0].
  cbn in Hs. subst size0.
  lazy beta iota zeta delta [cpop cstep set_cp set_blocked N.eqb fst snd pp size cap blocked signal
    i0 tin tout buf notifs polls items cp acc pushed popped].
  reflexivity.
Qed.

Lemma inv_all_done s : Inv s -> all_done s = true ->
  size s = 0 /\ notifs s = 0 /\ blocked s = true /\ signal s = false /\
  acc s = pushed s /\ popped s = map Some (pushed s) /\ drain_all s = [].
Proof.
  intros [H1 H2] Hd. unfold all_done, pdone, cdone in Hd.
  destruct (pp s) eqn:Ep; try discriminate. destruct (cp s) eqn:Ec; try discriminate.
  pose proof (i_done s H1) as Hdone. rewrite Ec, Ep in Hdone. destruct (Hdone eq_refl) as [_ Hn].
  assert (Hsz : size s = 0).
  { destruct (N.eq_dec (size s) 0) as [|Hnz]; [assumption|]. pose proof (i_wake s H1) as Hw. rewrite Ec in Hw.
    unfold will_notify in Hw. rewrite Ep in Hw. destruct (Hw eq_refl ltac:(lia)); [lia|discriminate]. }
  pose proof (i_blk s H1) as Hb. rewrite Ec in Hb.
  assert (Hsig : signal s = false).
  { destruct (signal s) eqn:Es; [|reflexivity]. destruct (i_sig s H1 Es) as [?|[Hx|Hx]]; [lia| |]; rewrite ?Ep, ?Ec in Hx; discriminate. }
  pose proof (j_pushed s H2) as Hp. rewrite Ep in Hp. cbn in Hp. rewrite app_nil_r in Hp.
  pose proof (i_size s H1) as Hs. rewrite Ep, Hsz in Hs. cbn in Hs.
  pose proof (j_popped s H2) as Hpop. rewrite takeN_all in Hpop by lia.
  repeat split; auto. { rewrite <- Hp. exact Hpop. } apply drain_empty. exact Hsz.
Qed.

Theorem reach_completed_delivers_all c i p its sched :
  valid_cfg c i -> no_wrap_or_dividing c i its ->
  let s := reach c i p its sched in
  all_done s = true ->
  size s = 0 /\ notifs s = 0 /\ blocked s = true /\ signal s = false /\
  acc s = pushed s /\ popped s = map Some (pushed s) /\ drain_all s = [].
Proof. intros. apply inv_all_done; [apply reach_inv; assumption|assumption]. Qed.

(* without the index hypothesis the wakeup half still holds: nothing is left when both ended *)
Theorem reach_completed_empty c i p its sched : valid_cfg c i ->
  let s := reach c i p its sched in
  all_done s = true -> size s = 0 /\ notifs s = 0 /\ blocked s = true /\ signal s = false /\ drain_all s = [].
Proof.
  intros Hv s Hd. pose proof (reach_inv1 c i p its sched Hv) as H1. fold s in H1.
  unfold all_done, pdone, cdone in Hd.
  destruct (pp s) eqn:Ep; try discriminate. destruct (cp s) eqn:Ec; try discriminate.
  pose proof (i_done s H1) as Hdone. rewrite Ec, Ep in Hdone. destruct (Hdone eq_refl) as [_ Hn].
  assert (Hsz : size s = 0).
  { destruct (N.eq_dec (size s) 0) as [|Hnz]; [assumption|]. pose proof (i_wake s H1) as Hw. rewrite Ec in Hw.
    unfold will_notify in Hw. rewrite Ep in Hw. destruct (Hw eq_refl ltac:(lia)); [lia|discriminate]. }
  pose proof (i_blk s H1) as Hb. rewrite Ec in Hb.
  assert (Hsig : signal s = false).
  { destruct (signal s) eqn:Es; [|reflexivity]. destruct (i_sig s H1 Es) as [?|[Hx|Hx]]; [lia| |]; rewrite ?Ep, ?Ec in Hx; discriminate. }
  repeat split; auto. apply drain_empty. exact Hsz.
Qed.

(* ---------- the ghost lists are what the events say ---------- *)
Lemma pstep_trace s : pp s <> PDone ->
  popped (fst (pstep s)) = popped s /\ pops_of (snd (pstep s)) = [] /\
  pushed (fst (pstep s)) = pushed s ++ pushes_of (snd (pstep s)).
Proof.
  destruct s as [cap0 i00 tin0 tout0 size0 blocked0 signal0 buf0 notifs0 polls0 pp0 items0 cp0 acc0 pushed0 popped0].
  cbn. intros _. unfold pstep, finish_push, advance; cbn. destruct pp0; cbn.
  - destruct (size0 =? cap0); [destruct items0|]; cbn; rewrite ?app_nil_r; auto.
  - rewrite app_nil_r; auto.
  - destruct (size0 =? 0); [|destruct items0]; cbn; rewrite ?app_nil_r; auto.
  - destruct blocked0; [|destruct items0]; cbn; rewrite ?app_nil_r; auto.
  - destruct signal0; [destruct items0|]; cbn; rewrite ?app_nil_r; auto.
  - destruct items0; cbn; rewrite ?app_nil_r; auto.
  - rewrite app_nil_r; auto.
Qed.

Lemma cstep_trace s :
  popped (fst (cstep s)) = popped s ++ pops_of (snd (cstep s)) /\ pushes_of (snd (cstep s)) = [] /\
  pushed (fst (cstep s)) = pushed s.
Proof.
  destruct s as [cap0 i00 tin0 tout0 size0 blocked0 signal0 buf0 notifs0 polls0 pp0 items0 cp0 acc0 pushed0 popped0].
  unfold cstep; cbn. destruct cp0; cbn; rewrite ?app_nil_r; auto.
  - destruct (size0 =? 0); cbn; rewrite ?app_nil_r; auto.
  - destruct (size0 =? 0); cbn; rewrite ?app_nil_r; auto.
  - destruct (0 <? notifs0); [|destruct (0 <? polls0); [|destruct (pdone _)]]; cbn; rewrite ?app_nil_r; auto.
Qed.

Lemma pops_of_app a b : pops_of (a ++ b) = pops_of a ++ pops_of b.
Proof. unfold pops_of. apply flat_map_app. Qed.
Lemma pushes_of_app a b : pushes_of (a ++ b) = pushes_of a ++ pushes_of b.
Proof. unfold pushes_of. apply flat_map_app. Qed.

Lemma step_trace s t :
  popped (fst (fst (step s t))) = popped s ++ pops_of (snd (fst (step s t))) /\
  pushed (fst (fst (step s t))) = pushed s ++ pushes_of (snd (fst (step s t))).
Proof.
  unfold step. destruct (t =? 0).
  - unfold pdone. destruct (pp s) eqn:Ep; cbn [fst snd pops_of pushes_of flat_map]; rewrite ?app_nil_r; auto.
    all: assert (Hne : pp s <> PDone) by (rewrite Ep; discriminate);
      destruct (pstep_trace s Hne) as (Ha & Hb & Hc); destruct (pstep s) as [s' e]; cbn [fst snd] in *;
      rewrite Ha, Hb, Hc, app_nil_r; auto.
  - destruct (t =? 1); cbn [fst snd pops_of pushes_of flat_map]; rewrite ?app_nil_r; auto.
    destruct (cdone s); cbn [fst snd pops_of pushes_of flat_map]; rewrite ?app_nil_r; auto.
    destruct (cstep_trace s) as (Ha & Hb & Hc). destruct (cstep s) as [s' e]; cbn [fst snd] in *.
    rewrite Ha, Hb, Hc, app_nil_r; auto.
Qed.

Lemma exec_trace sched : forall s,
  popped (fst (fst (exec s sched))) = popped s ++ pops_of (snd (fst (exec s sched))) /\
  pushed (fst (fst (exec s sched))) = pushed s ++ pushes_of (snd (fst (exec s sched))).
Proof.
  induction sched as [|t r IH]; intros s; cbn [exec].
  - cbn. rewrite !app_nil_r. auto.
  - pose proof (step_trace s t) as Hs. destruct (step s t) as [[s1 e1] b]. cbn [fst snd] in Hs.
    specialize (IH s1). destruct (exec s1 r) as [[s2 e2] n]. cbn [fst snd] in *.
    destruct Hs as [Hs1 Hs2]. destruct IH as [IH1 IH2].
    rewrite pops_of_app, pushes_of_app, !app_assoc, <- Hs1, <- Hs2. auto.
Qed.

Lemma init_ghosts c i p its : popped (init c i p its) = [] /\ pushed (init c i p its) = [].
Proof. unfold init, advance; cbn. destruct its; cbn; auto. Qed.

(* observable statement: in a completed run the values returned by pop() are exactly the values whose push() returned, in order *)
Theorem completed_run_events c i p its sched s evs n :
  valid_cfg c i -> no_wrap_or_dividing c i its ->
  exec (init c i p its) sched = (s, evs, n) -> all_done s = true ->
  pops_of evs = map Some (pushes_of evs).
Proof.
  intros Hv Hw He Hd.
  pose proof (reach_completed_delivers_all c i p its sched Hv Hw) as H. unfold reach in H. rewrite He in H. cbn [fst] in H.
  destruct (H Hd) as (_ & _ & _ & _ & _ & Hpop & _).
  pose proof (exec_trace sched (init c i p its)) as Ht. rewrite He in Ht. cbn [fst snd] in Ht.
  destruct (init_ghosts c i p its) as [G1 G2]. rewrite G1, G2 in Ht. cbn [app] in Ht. destruct Ht as [T1 T2].
  rewrite <- T1, <- T2. exact Hpop.
Qed.

(* at every moment the values returned by pop() so far are a prefix of the values copied in so far *)
Theorem run_events_prefix c i p its sched s evs n :
  valid_cfg c i -> no_wrap_or_dividing c i its ->
  exec (init c i p its) sched = (s, evs, n) ->
  pops_of evs = map Some (takeN (lenN (pops_of evs)) (acc s)).
Proof.
  intros Hv Hw He.
  pose proof (reach_popped_prefix c i p its sched Hv Hw) as H. unfold reach in H. rewrite He in H. cbn [fst] in H.
  pose proof (exec_trace sched (init c i p its)) as Ht. rewrite He in Ht. cbn [fst snd] in Ht.
  destruct (init_ghosts c i p its) as [G1 G2]. rewrite G1 in Ht. cbn [app] in Ht. destruct Ht as [T1 _].
  rewrite <- T1. apply H.
Qed.

(* ---------- the index wrap with a capacity that does not divide 2^32 ---------- *)
(* capacity 3, both cursors at 2^32-1: push 1 lands in slot (2^32-1) mod 3 = 0, push 2 in slot 0 mod 3 = 0 again;
   the two pops then read slot 0 twice *)
Definition wrap_witness_sched : list N := [0;0;0;0;0;0;0; 1;1;1;1;1;1;1;1;1;1;1;1;1;1].
Lemma fifo_refuted_witness :
  let s := reach 3 4294967295 0 [1; 2] wrap_witness_sched in
  valid_cfg 3 4294967295 /\ ~ no_wrap_or_dividing 3 4294967295 [1; 2] /\
  all_done s = true /\ pushed s = [1; 2] /\ popped s = [Some 2; Some 2] /\
  map Some (acc s) <> popped s ++ queued s.
Proof.
  Transparent W32.
  unfold valid_cfg, no_wrap_or_dividing, divides_W. vm_compute.
  repeat split; try reflexivity; try discriminate.
  intros [H|H]; [discriminate H|apply H; reflexivity].
Qed.
Opaque W32.

Lemma fifo_exact_refuted :
  exists c i p its sched, valid_cfg c i /\
    let s := reach c i p its sched in
    all_done s = true /\ pushed s = [1; 2] /\ popped s = [Some 2; Some 2] /\ map Some (acc s) <> popped s ++ queued s.
Proof.
  exists 3, 4294967295, 0, [1; 2], wrap_witness_sched.
  destruct fifo_refuted_witness as (Hv & _ & H). split; [exact Hv|exact H].
Qed.

(* every power-of-two capacity up to 2^31 (squid uses 1024) satisfies the hypothesis, whatever the cursors *)
Lemma pow2_divides k : (k <= 32)%N -> divides_W (2 ^ k).
Proof.
  Transparent W32.
  intros Hk. unfold divides_W, W32. change 4294967296 with (2 ^ 32). replace 32 with ((32 - k) + k) at 1 by lia.
  rewrite N.pow_add_r. apply N.mod_mul. apply N.pow_nonzero. lia.
Qed.
Opaque W32.
Lemma pow2_capacity_ok k i its : (k <= 32)%N -> no_wrap_or_dividing (2 ^ k) i its.
Proof. intros H. left. exact (pow2_divides k H). Qed.
(* ---------- every run completes: the round-robin completion ends with both processes ended ---------- *)
Definition rank_p (p : ppc) : N :=
  match p with PPush1 _ => 6 | PPush2 _ _ => 5 | PPush3 _ => 4 | PPush4 _ => 3 | PPush5 _ => 2 | PNotify => 1 | PDone => 0 end.
Definition rank_c (c : cpc) : N :=
  match c with CClr1 => 9 | CClr2 => 8 | CPop1 => 7 | CPop2 => 6 | CPop3 => 5 | CPop4 => 4 | CPop5 _ => 3 | CPop6 _ => 2
             | CIdle => 1 | CDone => 0 end.
(* the current item may still be counted into theSize / the push in flight may still produce a notification *)
Definition fut (p : ppc) : N := match p with PPush1 _ | PPush2 _ _ | PPush3 _ => 1 | _ => 0 end.
Definition sig_ind (p : ppc) : N := match p with PPush4 _ | PPush5 _ | PNotify => 1 | _ => 0 end.
Definition work (s : state) : N :=
  rank_p (pp s) + 7 * lenN (items s) + rank_c (cp s) + 10 * size s + 20 * (fut (pp s) + lenN (items s))
  + 10 * (notifs s + sig_ind (pp s) + polls s).

Ltac wk := unfold work; cbn; rewrite ?wrap32_small by lia; rewrite ?wrap32_dec by lia; cbn [lenN]; try lia.

Lemma pstep_work s : Inv1 s -> pdone s = false -> work (fst (pstep s)) < work s.
Proof.
  destruct s as [cap0 i00 tin0 tout0 size0 blocked0 signal0 buf0 notifs0 polls0 pp0 items0 cp0 acc0 pushed0 popped0].
  intros [Hcap Hsize Hroom Hcomm Hblk Hsig Hwake Hdone]; cbn in *.
  unfold pdone, pstep, finish_push, advance; cbn.
  destruct pp0; cbn in *; intros Hp; try discriminate.
  - destruct (size0 =? cap0) eqn:E; [destruct items0|]; wk.
  - wk.
  - destruct (size0 =? 0) eqn:E; [|destruct items0]; wk.
  - destruct blocked0; [|destruct items0]; wk.
  - destruct signal0; [destruct items0|]; wk.
  - destruct items0; wk.
Qed.

Lemma cstep_work s : Inv1 s -> cdone s = false ->
  work (fst (cstep s)) < work s \/ (fst (cstep s) = s /\ pdone s = false).
Proof.
  destruct s as [cap0 i00 tin0 tout0 size0 blocked0 signal0 buf0 notifs0 polls0 pp0 items0 cp0 acc0 pushed0 popped0].
  intros [Hcap Hsize Hroom Hcomm Hblk Hsig Hwake Hdone]; cbn in *.
  unfold cdone, cstep; cbn.
  destruct cp0; cbn in *; intros Hc; try discriminate.
  - left; wk.
  - left; wk.
  - left; destruct (size0 =? 0) eqn:E; wk.
  - left; wk.
  - left; destruct (size0 =? 0) eqn:E; wk.
  - left; wk.
  - left; wk.
  - left; wk.
  - destruct (0 <? notifs0) eqn:E1; [left; wk|destruct (0 <? polls0) eqn:E2; [left; wk|]].
    unfold pdone; cbn. destruct pp0; cbn; try (right; split; reflexivity). left; wk.
Qed.

Lemma exec2 s : fst (fst (exec s [0; 1])) = fst (fst (step (fst (fst (step s 0))) 1)).
Proof.
  cbn [exec]. destruct (step s 0) as [[a b] c]. cbn [fst]. destruct (step a 1) as [[d e] f]. reflexivity.
Qed.
Lemma step0_state s : fst (fst (step s 0)) = if pdone s then s else fst (pstep s).
Proof. unfold step. change (0 =? 0) with true. cbv iota. destruct (pdone s); [reflexivity|]. destruct (pstep s); reflexivity. Qed.
Lemma step1_state s : fst (fst (step s 1)) = if cdone s then s else fst (cstep s).
Proof.
  unfold step. change (1 =? 0) with false. change (1 =? 1) with true. cbv iota.
  destruct (cdone s); [reflexivity|]. destruct (cstep s); reflexivity.
Qed.

Lemma round_work s : Inv1 s -> all_done s = false ->
  Inv1 (fst (fst (exec s [0; 1]))) /\ work (fst (fst (exec s [0; 1]))) < work s.
Proof.
  intros H1 Hnd. rewrite exec2, step0_state.
  destruct (pdone s) eqn:Ep.
  - (* producer ended: the consumer makes progress *)
    rewrite step1_state. unfold all_done in Hnd. rewrite Ep in Hnd. cbn in Hnd. rewrite Hnd.
    pose proof (cstep_inv1 s H1) as Hi. pose proof (cstep_work s H1 Hnd) as Hw.
    split; [exact Hi|]. destruct Hw as [Hw|[_ Hw]]; [exact Hw|congruence].
  - pose proof (pstep_inv1 s H1) as Hi. pose proof (pstep_work s H1 Ep) as Hw.
    rewrite step1_state. destruct (cdone (fst (pstep s))) eqn:Ec.
    + split; assumption.
    + pose proof (cstep_inv1 _ Hi) as Hi2. pose proof (cstep_work _ Hi Ec) as Hw2.
      split; [exact Hi2|]. destruct Hw2 as [Hw2|[Hw2 _]]; [lia|rewrite Hw2; exact Hw].
Qed.

Lemma rr_completes fuel : forall s, Inv1 s -> work s < N.of_nat fuel ->
  exists s' evs n, run_rr fuel s = Some (s', evs, n) /\ all_done s' = true /\ Inv1 s'.
Proof.
  induction fuel as [|f IH]; intros s H1 Hw. { lia. }
  cbn [run_rr]. destruct (all_done s) eqn:Ed. { eauto 6. }
  destruct (round_work s H1 Ed) as [Hi Hlt].
  destruct (exec s [0; 1]) as [[s1 e1] n1]. cbn [fst] in *.
  destruct (IH s1 Hi ltac:(lia)) as (s' & evs & n & Hr & Hd & Hi').
  rewrite Hr. eauto 8.
Qed.

Lemma rounds_enough s : work s < N.of_nat (rounds s).
Proof.
  unfold rounds. rewrite N2Nat.id. unfold work.
  assert (rank_p (pp s) <= 6) by (destruct (pp s); cbn; lia).
  assert (rank_c (cp s) <= 9) by (destruct (cp s); cbn; lia).
  assert (fut (pp s) <= 1) by (destruct (pp s); cbn; lia).
  assert (sig_ind (pp s) <= 1) by (destruct (pp s); cbn; lia).
  lia.
Qed.

Theorem run_case_completes c i p its sched : valid_cfg c i ->
  exists s evs n, run_case c i p its sched = Some (s, evs, n) /\ all_done s = true.
Proof.
  intros Hv. unfold run_case.
  pose proof (exec_inv1 sched (init c i p its) (init_inv1 c i p its Hv)) as H1.
  destruct (exec (init c i p its) sched) as [[s1 e1] n1]. cbn [fst] in H1.
  destruct (rr_completes (rounds s1) s1 H1 (rounds_enough s1)) as (s' & evs & n & Hr & Hd & _).
  rewrite Hr. eauto 8.
Qed.


(* the completion is itself a schedule: whatever run_case reports is a reachable state with its events *)
Lemma exec_app a : forall b s,
  exec s (a ++ b) =
  let '(s1, e1, n1) := exec s a in let '(s2, e2, n2) := exec s1 b in (s2, e1 ++ e2, n1 + n2).
Proof.
  induction a as [|t r IH]; intros b s; cbn [app exec].
  - destruct (exec s b) as [[s2 e2] n2]. cbn. reflexivity.
  - destruct (step s t) as [[s1 e1] bb]. rewrite IH.
    destruct (exec s1 r) as [[s2 e2] n2]. destruct (exec s2 b) as [[s3 e3] n3].
    rewrite app_assoc. f_equal. destruct bb; lia.
Qed.

Lemma rr_is_schedule fuel : forall s s' evs n, run_rr fuel s = Some (s', evs, n) -> exists sched, exec s sched = (s', evs, n).
Proof.
  induction fuel as [|f IH]; intros s s' evs n H; cbn [run_rr] in H.
  - destruct (all_done s); [|discriminate]. inversion H; subst. exists []. reflexivity.
  - destruct (all_done s). { inversion H; subst. exists []. reflexivity. }
    destruct (exec s [0; 1]) as [[s1 e1] n1] eqn:E1.
    destruct (run_rr f s1) as [[[s2 e2] n2]|] eqn:E2; [|discriminate]. inversion H; subst.
    destruct (IH _ _ _ _ E2) as [sch Hs]. exists ([0; 1] ++ sch). rewrite exec_app, E1, Hs. reflexivity.
Qed.

Lemma run_case_is_schedule c i p its sched s evs n :
  run_case c i p its sched = Some (s, evs, n) -> exists sched', exec (init c i p its) sched' = (s, evs, n).
Proof.
  unfold run_case. destruct (exec (init c i p its) sched) as [[s1 e1] n1] eqn:E1.
  destruct (run_rr (rounds s1) s1) as [[[s2 e2] n2]|] eqn:E2; [|discriminate]. intros H; inversion H; subst.
  destruct (rr_is_schedule _ _ _ _ _ E2) as [sch Hs]. exists (sched ++ sch). rewrite exec_app, E1, Hs. reflexivity.
Qed.

(* what the model runner (and, by correspondence, the harness) prints for every case: the run completes, both ended,
   the popped values are the pushed values, the final drain finds nothing *)
Theorem run_case_completes_and_delivers c i p its sched :
  valid_cfg c i -> no_wrap_or_dividing c i its ->
  exists s evs n, run_case c i p its sched = Some (s, evs, n) /\ all_done s = true /\
    pops_of evs = map Some (pushes_of evs) /\ drain_all s = [] /\ notifs s = 0 /\ blocked s = true /\ signal s = false.
Proof.
  intros Hv Hw. destruct (run_case_completes c i p its sched Hv) as (s & evs & n & Hr & Hd).
  exists s, evs, n. destruct (run_case_is_schedule _ _ _ _ _ _ _ _ Hr) as [sch Hs].
  pose proof (completed_run_events c i p its sch s evs n Hv Hw Hs Hd) as He.
  pose proof (reach_completed_empty c i p its sch Hv) as Hc. unfold reach in Hc. rewrite Hs in Hc. cbn [fst] in Hc.
  destruct (Hc Hd) as (_ & Hn & Hb & Hsg & Hdr). repeat split; assumption.
Qed.
