(* TypedmsgProofs.v — proofs about TypedmsgModel.v (C58). *)
Require Import SquidV.Bytes SquidV.TypedmsgModel.
Require Import SquidV.gen.Typedmsg_gen.
From Coq Require Import ZifyBool ZifyN ZifyNat.
Local Open Scope N_scope.
Ltac Zify.zify_post_hook ::= Z.div_mod_to_equations.

(* ---- list algebra ------------------------------------------------------------------------------ *)
Lemma takeN_app_exact {A} (a b : list A) : takeN (lenN a) (a ++ b) = a.
Proof.
  induction a as [|x a IH]; cbn [lenN app takeN].
  - destruct b; reflexivity.
  - replace (N.succ (lenN a) =? 0) with false by lia. rewrite N.pred_succ, IH. reflexivity.
Qed.

Lemma dropN_app_exact {A} (a b : list A) : dropN (lenN a) (a ++ b) = b.
Proof.
  induction a as [|x a IH]; cbn [lenN app dropN].
  - destruct b; reflexivity.
  - replace (N.succ (lenN a) =? 0) with false by lia. rewrite N.pred_succ, IH. reflexivity.
Qed.

Lemma takeN_app_more {A} (a b : list A) k : takeN (lenN a + k) (a ++ b) = a ++ takeN k b.
Proof.
  induction a as [|x a IH]; cbn [lenN app takeN].
  - rewrite N.add_0_l. reflexivity.
  - replace (N.succ (lenN a) + k =? 0) with false by lia.
    replace (N.pred (N.succ (lenN a) + k)) with (lenN a + k) by lia. rewrite IH. reflexivity.
Qed.

Lemma takeN_0 {A} (l : list A) : takeN 0 l = [].
Proof. destruct l; reflexivity. Qed.

Lemma takeN_all {A} (l : list A) n : lenN l <= n -> takeN n l = l.
Proof.
  revert n; induction l as [|x l IH]; intros n H; cbn [takeN lenN] in *; [reflexivity|].
  replace (n =? 0) with false by lia. rewrite IH by lia. reflexivity.
Qed.

Lemma lenN_dropN {A} n (l : list A) : lenN (dropN n l) = lenN l - n.
Proof.
  revert n; induction l as [|x l IH]; intros n; cbn [dropN lenN]; [lia|].
  destruct (n =? 0) eqn:E; [cbn [lenN]; lia|]. rewrite IH. lia.
Qed.

Lemma lenN_repeat {A} (x : A) n : lenN (repeat x n) = N.of_nat n.
Proof. induction n; cbn [repeat lenN]; lia. Qed.

(* ---- well-formed buffers ----------------------------------------------------------------------- *)
Definition wf (m : tmsg) : Prop := lenN (t_raw m) = tm_raw_size.
Definition readable (m : tmsg) (n : N) : Prop :=
  t_size m <= tm_raw_size /\ t_off m <= t_size m /\ n <= t_size m - t_off m.
Definition writable (m : tmsg) (n : N) : Prop :=
  t_size m <= tm_raw_size /\ n <= tm_raw_size - t_size m.
Definition advance (m : tmsg) (n : N) : tmsg := mkTm (t_iov m) (t_type m) (t_size m) (t_raw m) (t_off m + n).
Definition segment (m : tmsg) (n : N) : list N := takeN n (dropN (t_off m) (t_raw m)).
Definition payload (m : tmsg) : list N := takeN (t_size m) (t_raw m).

Lemma fresh_wf : wf tm_fresh.
Proof. unfold wf, tm_fresh, zero_raw; cbn [t_raw]. rewrite lenN_repeat. lia. Qed.

Lemma raw_size_small : tm_raw_size <= tm_offset_max /\ tm_raw_size <= tm_size_t_max /\ tm_raw_size = 4096.
Proof. unfold tm_raw_size, tm_offset_max, tm_size_t_max. lia. Qed.

(* ---- getRaw ------------------------------------------------------------------------------------ *)
Lemma get_raw_zero m : tm_get_raw m 0 = (TOk [], m).
Proof. reflexivity. Qed.

Lemma get_raw_ok m n : wf m -> n <> 0 -> readable m n ->
  tm_get_raw m n = (TOk (segment m n), advance m n).
Proof.
  intros Hwf Hn (H1 & H2 & H3). unfold tm_get_raw, mem_read, segment, advance, wrap_off.
  pose proof raw_size_small as (Ho & _ & _). unfold wf in Hwf.
  replace (n =? 0) with false by lia.
  replace (t_size m <=? tm_raw_size) with true by lia.
  replace (t_off m <=? t_size m) with true by lia.
  replace (n <=? t_size m - t_off m) with true by lia. cbn [negb].
  replace (t_off m + n <=? lenN (t_raw m)) with true by lia.
  rewrite N.mod_small by lia. reflexivity.
Qed.

Lemma get_raw_throw m n : n <> 0 -> ~ readable m n -> tm_get_raw m n = (TThrow, m).
Proof.
  intros Hn Hr. unfold tm_get_raw, readable in *.
  replace (n =? 0) with false by lia.
  destruct (t_size m <=? tm_raw_size) eqn:E1; cbn [negb]; [|reflexivity].
  destruct (t_off m <=? t_size m) eqn:E2; cbn [negb]; [|reflexivity].
  destruct (n <=? t_size m - t_off m) eqn:E3; cbn [negb]; [|reflexivity].
  exfalso. apply Hr. lia.
Qed.

Lemma readable_dec m n : {readable m n} + {~ readable m n}.
Proof.
  unfold readable.
  destruct (t_size m <=? tm_raw_size) eqn:E1; [|right; lia].
  destruct (t_off m <=? t_size m) eqn:E2; [|right; lia].
  destruct (n <=? t_size m - t_off m) eqn:E3; [left; lia | right; lia].
Qed.

Lemma segment_len m n : wf m -> readable m n -> lenN (segment m n) = n.
Proof.
  intros Hwf (H1 & H2 & H3). unfold segment, wf in *. rewrite lenN_takeN, lenN_dropN. lia.
Qed.

Lemma get_raw_wf m n : wf m -> wf (snd (tm_get_raw m n)).
Proof.
  intros Hwf. destruct (N.eq_dec n 0) as [->|Hn]; [assumption|].
  destruct (readable_dec m n) as [Hr|Hr]; [rewrite get_raw_ok | rewrite get_raw_throw]; assumption.
Qed.

(* ---- putRaw ------------------------------------------------------------------------------------ *)
Definition appended (m : tmsg) (b : list N) : tmsg :=
  mkTm (t_iov m) (t_type m) (t_size m + lenN b)
       (takeN (t_size m) (t_raw m) ++ b ++ dropN (t_size m + lenN b) (t_raw m)) (t_off m).

Lemma put_raw_empty m b : lenN b = 0 -> tm_put_raw m b = (TOk tt, m).
Proof. intros H. unfold tm_put_raw. rewrite H. reflexivity. Qed.

Lemma put_raw_ok m b : wf m -> lenN b <> 0 -> writable m (lenN b) -> tm_put_raw m b = (TOk tt, appended m b).
Proof.
  intros Hwf Hn (H1 & H2). unfold tm_put_raw, mem_write, appended, wrap_size.
  pose proof raw_size_small as (_ & Hs & _). unfold wf in Hwf.
  replace (lenN b =? 0) with false by lia.
  replace (t_size m <=? tm_raw_size) with true by lia.
  replace (lenN b <=? tm_raw_size - t_size m) with true by lia. cbn [negb].
  replace (t_size m + lenN b <=? lenN (t_raw m)) with true by lia.
  rewrite N.mod_small by lia. reflexivity.
Qed.

Lemma put_raw_throw m b : lenN b <> 0 -> ~ writable m (lenN b) -> tm_put_raw m b = (TThrow, m).
Proof.
  intros Hn Hw. unfold tm_put_raw, writable in *.
  replace (lenN b =? 0) with false by lia.
  destruct (t_size m <=? tm_raw_size) eqn:E1; cbn [negb]; [|reflexivity].
  destruct (lenN b <=? tm_raw_size - t_size m) eqn:E2; cbn [negb]; [|reflexivity].
  exfalso. apply Hw. lia.
Qed.

Lemma writable_dec m n : {writable m n} + {~ writable m n}.
Proof.
  unfold writable.
  destruct (t_size m <=? tm_raw_size) eqn:E1; [|right; lia].
  destruct (n <=? tm_raw_size - t_size m) eqn:E2; [left; lia | right; lia].
Qed.

Lemma appended_wf m b : wf m -> writable m (lenN b) -> wf (appended m b).
Proof.
  intros Hwf (H1 & H2). unfold wf, appended in *; cbn [t_raw].
  rewrite !lenN_app, lenN_takeN, lenN_dropN. lia.
Qed.

Lemma appended_payload m b : wf m -> writable m (lenN b) -> payload (appended m b) = payload m ++ b.
Proof.
  intros Hwf (H1 & H2). unfold payload, appended, wf in *; cbn [t_raw t_size].
  assert (Hl : lenN (takeN (t_size m) (t_raw m)) = t_size m) by (rewrite lenN_takeN; lia).
  rewrite <- Hl at 1. rewrite takeN_app_more. f_equal.
  rewrite <- (N.add_0_r (lenN b)). rewrite takeN_app_more, takeN_0. apply app_nil_r.
Qed.

Lemma put_raw_wf m b : wf m -> wf (snd (tm_put_raw m b)).
Proof.
  intros Hwf. destruct (N.eq_dec (lenN b) 0) as [H0|Hn]; [rewrite put_raw_empty; assumption|].
  destruct (writable_dec m (lenN b)) as [Hw|Hw].
  - rewrite put_raw_ok by assumption. apply appended_wf; assumption.
  - rewrite put_raw_throw by assumption. assumption.
Qed.

Lemma put_raw_defined m b : wf m -> fst (tm_put_raw m b) <> TUndef.
Proof.
  intros Hwf. destruct (N.eq_dec (lenN b) 0) as [H0|Hn]; [rewrite put_raw_empty by assumption; discriminate|].
  destruct (writable_dec m (lenN b)) as [Hw|Hw];
    [rewrite put_raw_ok by assumption | rewrite put_raw_throw by assumption]; discriminate.
Qed.

Lemma get_raw_defined m n : wf m -> fst (tm_get_raw m n) <> TUndef.
Proof.
  intros Hwf. destruct (N.eq_dec n 0) as [->|Hn]; [discriminate|].
  destruct (readable_dec m n) as [Hr|Hr];
    [rewrite get_raw_ok by assumption | rewrite get_raw_throw by assumption]; discriminate.
Qed.

(* ---- int codec --------------------------------------------------------------------------------- *)
Lemma int_bytes_len z : lenN (int_bytes z) = 4.
Proof. reflexivity. Qed.

Lemma int_roundtrip z : (tm_int_min <= z <= tm_int_max)%Z -> bytes_int (int_bytes z) = z.
Proof.
  unfold tm_int_min, tm_int_max, int_bytes, bytes_int. intros H.
  set (u := Z.to_N (z mod 4294967296)).
  assert (Hu : u < 4294967296) by (subst u; lia).
  assert (Hsum : u mod 256 mod 256 + 256 * ((u / 256) mod 256 mod 256) + 65536 * ((u / 65536) mod 256 mod 256) +
                 16777216 * ((u / 16777216) mod 256 mod 256) = u).
  { rewrite !N.mod_mod by lia. lia. }
  rewrite Hsum. subst u. destruct (Z.to_N (z mod 4294967296) <? 2147483648) eqn:E; lia.
Qed.

(* ---- getInt / getString / putInt / putString ---------------------------------------------------- *)
Lemma int_size_4 : tm_int_size = 4.
Proof. reflexivity. Qed.

Lemma get_int_ok m : wf m -> readable m 4 -> tm_get_int m = (TOk (bytes_int (segment m 4)), advance m 4).
Proof. intros Hwf Hr. unfold tm_get_int. rewrite int_size_4, get_raw_ok by (assumption || lia). reflexivity. Qed.

Lemma get_int_throw m : ~ readable m 4 -> tm_get_int m = (TThrow, m).
Proof. intros Hr. unfold tm_get_int. rewrite int_size_4, get_raw_throw by (assumption || lia). reflexivity. Qed.

Lemma advance_wf m n : wf m -> wf (advance m n).
Proof. exact (fun H => H). Qed.

Lemma payload_advance m n : payload (advance m n) = payload m.
Proof. reflexivity. Qed.

(* getString, stated with the availability predicate instead of the Must() chain *)
Lemma get_string_spec m : wf m ->
  tm_get_string m =
  match readable_dec m 4 with
  | right _ => (TThrow, m)                                   (* no room for the length *)
  | left _ =>
    let len := bytes_int (segment m 4) in
    let m1 := advance m 4 in
    if (len <? 0)%Z then (TThrow, m1)                          (* negative length *)
    else if (len =? 0)%Z then (TOk [], m1)
    else if (Z.of_N tm_max_size <? len)%Z then (TThrow, m1)    (* longer than any message *)
    else match readable_dec m1 (Z.to_N len) with
         | left _ => (TOk (segment m1 (Z.to_N len)), advance m1 (Z.to_N len))
         | right _ => (TThrow, m1)                             (* truncated *)
         end
  end.
Proof.
  intros Hwf. unfold tm_get_string.
  destruct (readable_dec m 4) as [Hr|Hr]; [rewrite get_int_ok by assumption | rewrite get_int_throw by assumption; reflexivity].
  cbv zeta. destruct (bytes_int (segment m 4) <? 0)%Z eqn:E1; [reflexivity|].
  destruct (bytes_int (segment m 4) =? 0)%Z eqn:E2; [reflexivity|].
  replace (Z.of_N tm_max_size <? bytes_int (segment m 4))%Z with (negb (bytes_int (segment m 4) <=? Z.of_N tm_max_size)%Z) by lia.
  destruct (negb (bytes_int (segment m 4) <=? Z.of_N tm_max_size)%Z) eqn:E3; [reflexivity|].
  destruct (readable_dec (advance m 4) (Z.to_N (bytes_int (segment m 4)))) as [Hr2|Hr2].
  - apply get_raw_ok; [apply advance_wf; assumption | lia | assumption].
  - apply get_raw_throw; [lia | assumption].
Qed.

Lemma get_string_safe m : wf m ->
  fst (tm_get_string m) <> TUndef /\ wf (snd (tm_get_string m)) /\
  t_raw (snd (tm_get_string m)) = t_raw m /\ t_size (snd (tm_get_string m)) = t_size m.
Proof.
  intros Hwf. rewrite get_string_spec by assumption.
  destruct (readable_dec m 4); [|repeat split; (discriminate || assumption)].
  cbv zeta. destruct (_ <? 0)%Z; [repeat split; (discriminate || assumption)|].
  destruct (_ =? 0)%Z; [repeat split; (discriminate || assumption)|].
  destruct (_ <? _)%Z; [repeat split; (discriminate || assumption)|].
  destruct (readable_dec _ _); repeat split; (discriminate || assumption).
Qed.

Lemma put_string_safe m s : wf m -> fst (tm_put_string m s) <> TUndef /\ wf (snd (tm_put_string m s)).
Proof.
  intros Hwf. unfold tm_put_string, tm_put_int.
  destruct (negb (lenN s <=? tm_max_size)); [split; [discriminate|assumption]|].
  pose proof (put_raw_defined m (int_bytes (Z.of_N (lenN s))) Hwf) as Hd.
  pose proof (put_raw_wf m (int_bytes (Z.of_N (lenN s))) Hwf) as Hw.
  destruct (tm_put_raw m (int_bytes (Z.of_N (lenN s)))) as [[u| |] m1]; cbn [fst snd] in *.
  - split; [apply put_raw_defined | apply put_raw_wf]; assumption.
  - split; [discriminate|assumption].
  - contradiction.
Qed.

(* ---- every operation, every history: no access outside data.raw ---------------------------------- *)
Lemma step_safe m o : wf m -> (forall ty sz raw, o = TReset ty sz raw -> lenN raw = tm_raw_size) ->
  snd (tm_step m o) <> OUndef /\ wf (fst (tm_step m o)).
Proof.
  intros Hwf Hreset. destruct o; cbn [tm_step].
  - unfold tm_set_type. destruct (negb (t_type m =? 0)%Z); [destruct (t_type m =? t)%Z|destruct (t_iov m)];
      cbn; split; (discriminate || assumption).
  - unfold tm_put_int. pose proof (put_raw_defined m (int_bytes z) Hwf). pose proof (put_raw_wf m (int_bytes z) Hwf).
    destruct (tm_put_raw m (int_bytes z)) as [[u| |] m1]; cbn in *; split; (discriminate || assumption || contradiction).
  - pose proof (put_raw_defined m b Hwf). pose proof (put_raw_wf m b Hwf).
    destruct (tm_put_raw m b) as [[u| |] m1]; cbn in *; split; (discriminate || assumption || contradiction).
  - pose proof (put_string_safe m b Hwf) as (H1 & H2).
    destruct (tm_put_string m b) as [[u| |] m1]; cbn in *; split; (discriminate || assumption || contradiction).
  - cbn. split; [discriminate|assumption].
  - cbn. split; [discriminate|assumption].
  - cbn. split; [discriminate|]. unfold wf; cbn. eapply Hreset; reflexivity.
  - unfold tm_check_type. destruct (tm_raw_type m =? t)%Z; cbn; split; (discriminate || assumption).
  - cbn. split; [discriminate|assumption].
  - unfold tm_get_int. pose proof (get_raw_defined m tm_int_size Hwf). pose proof (get_raw_wf m tm_int_size Hwf).
    destruct (tm_get_raw m tm_int_size) as [[u| |] m1]; cbn in *; split; (discriminate || assumption || contradiction).
  - pose proof (get_raw_defined m n Hwf). pose proof (get_raw_wf m n Hwf).
    destruct (tm_get_raw m n) as [[u| |] m1]; cbn in *; split; (discriminate || assumption || contradiction).
  - pose proof (get_string_safe m Hwf) as (H1 & H2 & _).
    destruct (tm_get_string m) as [[u| |] m1]; cbn in *; split; (discriminate || assumption || contradiction).
  - cbn. split; [discriminate|assumption].
  - cbn. split; [discriminate|assumption].
Qed.

Definition reset_ok (o : top) : Prop := forall ty sz raw, o = TReset ty sz raw -> lenN raw = tm_raw_size.

Lemma run_cons m o r : tm_run m (o :: r) =
  ((snd (tm_step m o), t_size (fst (tm_step m o)), t_off (fst (tm_step m o))) :: fst (tm_run (fst (tm_step m o)) r),
   snd (tm_run (fst (tm_step m o)) r)).
Proof. cbn [tm_run]. destruct (tm_step m o) as [m1 out]. cbn [fst snd]. destruct (tm_run m1 r); reflexivity. Qed.

Theorem run_safe ops : forall m, wf m -> Forall reset_ok ops ->
  Forall (fun x => fst (fst x) <> OUndef) (fst (tm_run m ops)) /\ wf (snd (tm_run m ops)).
Proof.
  induction ops as [|o r IH]; intros m Hwf Hops; [split; [constructor|assumption]|].
  inversion Hops as [|? ? Ho Hr]; subst.
  destruct (step_safe m o Hwf Ho) as (H1 & H2).
  rewrite run_cons. cbn [fst snd]. destruct (IH _ H2 Hr) as (H3 & H4).
  split; [constructor; [exact H1 | exact H3] | exact H4].
Qed.

(* the size check is what keeps getRaw inside the array: without the first two Must()s a received size
   larger than the array leads straight to an out-of-bounds read *)
Definition tm_get_raw_unchecked (m : tmsg) (n : N) : tres (list N) * tmsg :=
  if n =? 0 then (TOk [], m)
  else if negb (n <=? t_size m - t_off m) then (TThrow, m)
  else match mem_read (t_raw m) (t_off m) n with
       | Some b => (TOk b, mkTm (t_iov m) (t_type m) (t_size m) (t_raw m) (wrap_off (t_off m + n)))
       | None => (TUndef, m)
       end.

Lemma unchecked_reaches_oob :
  exists m n, wf m /\ fst (tm_get_raw_unchecked m n) = TUndef /\ fst (tm_get_raw m n) = TThrow.
Proof.
  exists (tm_received 1%Z 5000 zero_raw), 4097. split; [apply fresh_wf|]. split; vm_compute; reflexivity.
Qed.

(* ---- round trip -------------------------------------------------------------------------------- *)
Inductive field := FInt (z : Z) | FBytes (b : list N) | FString (s : list N).

Definition enc (f : field) : list N :=
  match f with
  | FInt z => int_bytes z
  | FBytes b => b
  | FString s => int_bytes (Z.of_N (lenN s)) ++ s
  end.
Definition field_ok (f : field) : Prop :=
  match f with
  | FInt z => (tm_int_min <= z <= tm_int_max)%Z
  | FBytes _ => True
  | FString s => lenN s <= tm_max_size
  end.
Definition put_op (f : field) : top :=
  match f with FInt z => TPutInt z | FBytes b => TPutFixed b | FString s => TPutString s end.
Definition get_op (f : field) : top :=
  match f with FInt _ => TGetInt | FBytes b => TGetFixed (lenN b) | FString _ => TGetString end.
Definition val_out (f : field) : tout :=
  match f with FInt z => OInt z | FBytes b => OBytes b | FString s => OBytes s end.
Definition enc_all (fs : list field) : list N := concat (map enc fs).
Definition outs (r : list (tout * N * N)) : list tout := map (fun x => fst (fst x)) r.

Lemma put_bytes_step m b : wf m -> t_size m + lenN b <= tm_raw_size ->
  exists m', tm_put_raw m b = (TOk tt, m') /\ wf m' /\ payload m' = payload m ++ b /\
             t_size m' = t_size m + lenN b /\ t_iov m' = t_iov m /\ t_type m' = t_type m.
Proof.
  intros Hwf Hfit. destruct (N.eq_dec (lenN b) 0) as [H0|Hn].
  - exists m. rewrite put_raw_empty by assumption. assert (b = []) by (destruct b; [reflexivity | cbn in H0; lia]).
    subst b. rewrite app_nil_r. repeat split; auto. cbn; lia.
  - assert (Hw : writable m (lenN b)) by (unfold writable; lia).
    exists (appended m b). rewrite put_raw_ok by assumption.
    repeat split; auto using appended_wf, appended_payload.
Qed.

Lemma put_field_step m f : wf m -> field_ok f -> t_size m + lenN (enc f) <= tm_raw_size ->
  exists m', tm_step m (put_op f) = (m', OOk) /\ wf m' /\ payload m' = payload m ++ enc f /\
             t_size m' = t_size m + lenN (enc f) /\ t_iov m' = t_iov m /\ t_type m' = t_type m.
Proof.
  intros Hwf Hok Hfit. destruct f as [z|b|s]; cbn [put_op enc tm_step] in *.
  - unfold tm_put_int. destruct (put_bytes_step m (int_bytes z) Hwf Hfit) as (m' & -> & H). exists m'. auto.
  - destruct (put_bytes_step m b Hwf Hfit) as (m' & -> & H). exists m'. auto.
  - rewrite lenN_app in Hfit. unfold tm_put_string, tm_put_int. cbn [field_ok] in Hok.
    replace (lenN s <=? tm_max_size) with true by lia. cbn [negb].
    destruct (put_bytes_step m (int_bytes (Z.of_N (lenN s))) Hwf ltac:(lia)) as (m1 & -> & Hwf1 & Hp1 & Hs1 & Hi1 & Ht1).
    destruct (put_bytes_step m1 s Hwf1 ltac:(lia)) as (m2 & -> & Hwf2 & Hp2 & Hs2 & Hi2 & Ht2).
    exists m2. rewrite Hp2, Hp1, Hs2, Hs1, Hi2, Hi1, Ht2, Ht1, lenN_app, <- app_assoc. repeat split; auto. lia.
Qed.

Lemma put_fields fs : forall m, wf m -> Forall field_ok fs -> t_size m + lenN (enc_all fs) <= tm_raw_size ->
  exists m', snd (tm_run m (map put_op fs)) = m' /\ outs (fst (tm_run m (map put_op fs))) = repeat OOk (length fs) /\
             wf m' /\ payload m' = payload m ++ enc_all fs /\ t_size m' = t_size m + lenN (enc_all fs) /\
             t_iov m' = t_iov m /\ t_type m' = t_type m.
Proof.
  induction fs as [|f fs IH]; intros m Hwf Hok Hfit; cbn [map enc_all concat] in *.
  - exists m. cbn. rewrite app_nil_r. repeat split; auto. lia.
  - inversion Hok as [|? ? Hf Hfs]; subst. fold (enc_all fs) in *. rewrite lenN_app in Hfit.
    destruct (put_field_step m f Hwf Hf ltac:(lia)) as (m1 & Hstep & Hwf1 & Hp1 & Hs1 & Hi1 & Ht1).
    destruct (IH m1 Hwf1 Hfs ltac:(lia)) as (m2 & Hrun & Houts & Hwf2 & Hp2 & Hs2 & Hi2 & Ht2).
    exists m2. rewrite run_cons, Hstep. cbn [fst snd outs map length repeat].
    unfold outs in Houts. rewrite Houts, Hrun, Hp2, Hp1, Hs2, Hs1, Hi2, Hi1, Ht2, Ht1, lenN_app, <- app_assoc.
    repeat split; auto. lia.
Qed.

(* reading a byte string that sits in the payload at the cursor *)
Lemma get_bytes_step m pre b post : wf m -> t_size m <= tm_raw_size ->
  payload m = pre ++ b ++ post -> t_off m = lenN pre ->
  tm_get_raw m (lenN b) = (TOk b, advance m (lenN b)).
Proof.
  intros Hwf Hsz Hp Hoff. destruct (N.eq_dec (lenN b) 0) as [H0|Hn].
  - assert (b = []) by (destruct b; [reflexivity | cbn in H0; lia]). subst b. cbn [lenN].
    rewrite get_raw_zero. unfold advance. rewrite N.add_0_r. destruct m; reflexivity.
  - assert (Hlen : lenN (payload m) = t_size m) by (unfold payload, wf in *; rewrite lenN_takeN; lia).
    rewrite Hp, !lenN_app in Hlen.
    assert (Hr : readable m (lenN b)) by (unfold readable; lia).
    rewrite get_raw_ok by assumption. f_equal. unfold segment.
    rewrite <- (takeN_dropN (t_size m) (t_raw m)). fold (payload m). rewrite Hp, Hoff, <- !app_assoc.
    rewrite dropN_app_exact, takeN_app_exact. reflexivity.
Qed.

Lemma get_field_step m pre f post : wf m -> t_size m <= tm_raw_size -> field_ok f ->
  payload m = pre ++ enc f ++ post -> t_off m = lenN pre ->
  tm_step m (get_op f) = (advance m (lenN (enc f)), val_out f).
Proof.
  intros Hwf Hsz Hok Hp Hoff. destruct f as [z|b|s]; cbn [get_op enc tm_step val_out field_ok] in *.
  - unfold tm_get_int. rewrite int_size_4, <- (int_bytes_len z).
    rewrite (get_bytes_step m pre (int_bytes z) post) by assumption.
    cbn [out_int]. rewrite int_roundtrip by assumption. reflexivity.
  - rewrite (get_bytes_step m pre b post) by assumption. reflexivity.
  - rewrite <- app_assoc in Hp. unfold tm_get_string, tm_get_int.
    rewrite int_size_4, <- (int_bytes_len (Z.of_N (lenN s))).
    rewrite (get_bytes_step m pre (int_bytes (Z.of_N (lenN s))) (s ++ post)) by assumption.
    assert (Hrange : (tm_int_min <= Z.of_N (lenN s) <= tm_int_max)%Z)
      by (unfold tm_int_min, tm_int_max, tm_max_size in *; lia).
    rewrite int_roundtrip by assumption.
    replace (Z.of_N (lenN s) <? 0)%Z with false by lia.
    destruct (Z.of_N (lenN s) =? 0)%Z eqn:E0.
    + assert (s = []) by (destruct s; [reflexivity | cbn in E0; lia]). subst s.
      cbn [out_bytes lenN app]. rewrite app_nil_r. reflexivity.
    + replace (Z.of_N (lenN s) <=? Z.of_N tm_max_size)%Z with true by lia. cbn [negb].
      rewrite N2Z.id.
      rewrite (get_bytes_step (advance m (lenN (int_bytes (Z.of_N (lenN s))))) (pre ++ int_bytes (Z.of_N (lenN s))) s post);
        [| assumption | assumption | rewrite payload_advance, Hp, <- app_assoc; reflexivity
         | cbn [advance t_off]; rewrite lenN_app; lia].
      cbn [out_bytes]. unfold advance; cbn [t_iov t_type t_size t_raw t_off]. rewrite lenN_app, N.add_assoc. reflexivity.
Qed.

Lemma get_fields fs : forall m pre post, wf m -> t_size m <= tm_raw_size -> Forall field_ok fs ->
  payload m = pre ++ enc_all fs ++ post -> t_off m = lenN pre ->
  outs (fst (tm_run m (map get_op fs))) = map val_out fs /\
  snd (tm_run m (map get_op fs)) = advance m (lenN (enc_all fs)).
Proof.
  induction fs as [|f fs IH]; intros m pre post Hwf Hsz Hok Hp Hoff; cbn [map enc_all concat] in *.
  - cbn. split; [reflexivity|]. unfold advance. rewrite N.add_0_r. destruct m; reflexivity.
  - inversion Hok as [|? ? Hf Hfs]; subst. fold (enc_all fs) in *. rewrite <- app_assoc in Hp.
    pose proof (get_field_step m pre f (enc_all fs ++ post) Hwf Hsz Hf Hp Hoff) as Hstep.
    rewrite run_cons, Hstep. cbn [fst snd outs map].
    destruct (IH (advance m (lenN (enc f))) (pre ++ enc f) post) as (H1 & H2);
      [assumption | assumption | assumption
       | rewrite payload_advance, Hp, <- app_assoc; reflexivity
       | cbn [advance t_off]; rewrite lenN_app; lia |].
    unfold outs in H1. rewrite H1, H2. split; [reflexivity|].
    unfold advance; cbn [t_iov t_type t_size t_raw t_off]. rewrite lenN_app, N.add_assoc. reflexivity.
Qed.

Lemma run_app m a b : tm_run m (a ++ b) =
  (fst (tm_run m a) ++ fst (tm_run (snd (tm_run m a)) b), snd (tm_run (snd (tm_run m a)) b)).
Proof.
  revert m; induction a as [|o a IH]; intros m; cbn [app].
  - cbn. destruct (tm_run m b); reflexivity.
  - rewrite !run_cons, IH. cbn [fst snd app]. reflexivity.
Qed.

Lemma fresh_payload : payload tm_fresh = [].
Proof. unfold payload, tm_fresh; cbn [t_size t_raw]. apply takeN_0. Qed.

Lemma transfer_check m t transfer : transfer = TRecv \/ transfer = TCopy -> t_iov m = true -> t_type m = t ->
  tm_run m [transfer; TCheckType t] =
  ([(OOk, t_size m, 0); (OOk, t_size m, 0)], mkTm true t (t_size m) (t_raw m) 0).
Proof.
  intros Htr Hi Ht. destruct m as [iov ty sz raw off]. cbn [t_iov t_type t_size t_raw] in *. subst iov ty.
  destruct Htr as [-> | ->]; cbn; unfold tm_check_type, tm_raw_type; cbn [t_iov t_type]; rewrite Z.eqb_refl; reflexivity.
Qed.

(* the whole exchange: sender stores, the buffer travels (received byte for byte, or copied), receiver checks
   the type and loads *)
Theorem roundtrip (transfer : top) t fs :
  transfer = TRecv \/ transfer = TCopy -> t <> 0%Z -> Forall field_ok fs -> lenN (enc_all fs) <= tm_raw_size ->
  outs (fst (tm_run tm_fresh ([TSetType t] ++ map put_op fs ++ [transfer; TCheckType t] ++ map get_op fs ++ [THasMore])))
  = [OOk] ++ repeat OOk (length fs) ++ [OOk; OOk] ++ map val_out fs ++ [OBool false].
Proof.
  intros Htr Ht Hok Hfit.
  rewrite run_app. cbn [fst snd]. unfold outs. rewrite map_app. f_equal.
  set (m0 := snd (tm_run tm_fresh [TSetType t])).
  assert (Hm0 : m0 = mkTm true t 0 zero_raw 0) by reflexivity.
  assert (Hwf0 : wf m0) by (rewrite Hm0; apply fresh_wf).
  assert (Hp0 : payload m0 = []) by (rewrite Hm0; apply fresh_payload).
  rewrite run_app. cbn [fst snd]. rewrite map_app.
  destruct (put_fields fs m0 Hwf0 Hok) as (m1 & Hrun & Houts & Hwf1 & Hp1 & Hs1 & Hi1 & Ht1);
    [rewrite Hm0; cbn [t_size]; lia|].
  unfold outs in Houts. rewrite Houts, Hrun. f_equal.
  rewrite Hp0 in Hp1. cbn [app] in Hp1. rewrite Hm0 in Hs1, Hi1, Ht1. cbn [t_size t_iov t_type] in Hs1, Hi1, Ht1.
  rewrite run_app. cbn [fst snd]. rewrite map_app.
  set (m2 := mkTm true t (t_size m1) (t_raw m1) 0).
  assert (Hstep2 : tm_run m1 [transfer; TCheckType t] = ([(OOk, t_size m1, 0); (OOk, t_size m1, 0)], m2))
    by (apply transfer_check; assumption).
  rewrite Hstep2. cbn [fst snd map]. f_equal. f_equal.
  assert (Hwf2 : wf m2) by exact Hwf1.
  assert (Hp2 : payload m2 = [] ++ enc_all fs ++ []) by (cbn [app]; rewrite app_nil_r; exact Hp1).
  rewrite run_app. cbn [fst snd]. rewrite map_app.
  destruct (get_fields fs m2 [] [] Hwf2 ltac:(cbn [m2 t_size]; lia) Hok Hp2 eq_refl) as (Hg1 & Hg2).
  unfold outs in Hg1. rewrite Hg1, Hg2. f_equal.
  cbn [tm_run tm_step map fst snd]. unfold tm_has_more, advance, m2; cbn [t_off t_size].
  replace (0 + lenN (enc_all fs) <? t_size m1) with false by lia. reflexivity.
Qed.

(* ---- checkType --------------------------------------------------------------------------------- *)
Lemma check_type_spec m t :
  tm_check_type m t = (if (tm_raw_type m =? t)%Z then TOk tt else TThrow, m).
Proof. unfold tm_check_type. destruct (tm_raw_type m =? t)%Z; reflexivity. Qed.

(* ---- combined statements used by Properties_C58.v ----------------------------------------------- *)
Lemma layout_constants :
  tm_int_size = 4 /\ tm_little_endian = true /\ tm_int_max = 2147483647%Z /\ tm_int_min = (-2147483648)%Z /\
  tm_raw_size = tm_max_size /\ tm_raw_size <= tm_offset_max /\ tm_raw_size <= tm_size_t_max /\
  int_bytes 1 = [1; 0; 0; 0] /\ int_bytes (-2) = [254; 255; 255; 255].
Proof. repeat split; vm_compute; congruence. Qed.

Lemma get_raw_iff m n : wf m -> n <> 0 ->
  (readable m n /\ tm_get_raw m n = (TOk (segment m n), advance m n) /\
   lenN (segment m n) = n /\ t_off m + n <= t_size m /\ t_size m <= lenN (t_raw m)) \/
  (~ readable m n /\ tm_get_raw m n = (TThrow, m)).
Proof.
  intros Hwf Hn. destruct (readable_dec m n) as [Hr|Hr].
  - left. split; [assumption|]. split; [apply get_raw_ok; assumption|]. split; [apply segment_len; assumption|].
    destruct Hr as (H1 & H2 & H3). unfold wf in Hwf. lia.
  - right. split; [assumption | apply get_raw_throw; assumption].
Qed.

Lemma get_int_iff m : wf m ->
  (readable m 4 /\ tm_get_int m = (TOk (bytes_int (segment m 4)), advance m 4)) \/
  (~ readable m 4 /\ tm_get_int m = (TThrow, m)).
Proof.
  intros Hwf. destruct (readable_dec m 4) as [Hr|Hr]; [left | right]; (split; [assumption|]).
  - apply get_int_ok; assumption.
  - apply get_int_throw; assumption.
Qed.

Lemma put_raw_iff m b : wf m -> lenN b <> 0 ->
  (writable m (lenN b) /\ tm_put_raw m b = (TOk tt, appended m b) /\ wf (appended m b) /\
   payload (appended m b) = payload m ++ b /\ t_size m + lenN b <= lenN (t_raw m)) \/
  (~ writable m (lenN b) /\ tm_put_raw m b = (TThrow, m)).
Proof.
  intros Hwf Hn. destruct (writable_dec m (lenN b)) as [Hw|Hw].
  - left. split; [assumption|]. split; [apply put_raw_ok; assumption|]. split; [apply appended_wf; assumption|].
    split; [apply appended_payload; assumption|]. destruct Hw as (H1 & H2). unfold wf in Hwf. lia.
  - right. split; [assumption | apply put_raw_throw; assumption].
Qed.

Lemma put_string_too_long m s : tm_max_size < lenN s -> tm_put_string m s = (TThrow, m).
Proof. intros H. unfold tm_put_string. replace (lenN s <=? tm_max_size) with false by lia. reflexivity. Qed.
