(* PipetunnelProofs.v — proofs about PipetunnelModel.v (C05 pipeline sequencing, C06 tunnel relay). *)
Require Import SquidV.Bytes SquidV.PipetunnelModel.
Require Import SquidV.gen.Pipetunnel_gen.
Require Import ZifyBool ZifyN ZifyNat.
Local Open Scope N_scope.

(* ===================================================================================== *)
(* Part 1: pipeline                                                                       *)
(* ===================================================================================== *)

Arguments heads : simpl never.

Lemma heads_app a b : heads (a ++ b) = heads a ++ heads b.
Proof. unfold heads. apply flat_map_app. Qed.

Lemma feed_body_heads need l : heads (snd (feed_body need l)) = heads l.
Proof.
  revert need; induction l as [|it l IH]; intros need; cbn [feed_body]; [reflexivity|].
  destruct it as [r|n]; [reflexivity|].
  destruct (need =? 0); [reflexivity|].
  destruct (n <=? need); [rewrite IH; reflexivity| reflexivity].
Qed.

Lemma feed_body_length need l : (length (snd (feed_body need l)) <= length l)%nat.
Proof.
  revert need; induction l as [|it l IH]; intros need; cbn [feed_body]; [cbn; lia|].
  destruct it as [r|n]; [cbn; lia|].
  destruct (need =? 0); [cbn; lia|].
  destruct (n <=? need); [specialize (IH (need - n)); cbn [length]; lia| cbn; lia].
Qed.

Lemma pick_spec i l b s a : pick i l = Some (b, s, a) -> l = b ++ s :: a /\ rq_id (st_req s) = i.
Proof.
  revert b; induction l as [|x l IH]; intros b H; cbn [pick] in H; [discriminate|].
  destruct (rq_id (st_req x) =? i) eqn:E.
  - inversion H; subst. apply N.eqb_eq in E. split; [reflexivity| exact E].
  - destruct (pick i l) as [[[b' s'] a']|] eqn:P; [|discriminate].
    inversion H; subst. destruct (IH _ eq_refl) as [-> Hid]. split; [reflexivity| exact Hid].
Qed.

(* ---------- the invariant ---------- *)
Definition si (s : stream) : Prop := rq_resp (st_req s) = st_taken s ++ st_todo s.

(* a stream that is not the front of the pipeline has written nothing; it either still waits for its first
   element or holds exactly that element deferred *)
Definition nf_ok (s : stream) : Prop :=
  st_outsz s = 0 /\
  ((st_taken s = [] /\ st_deferred s = None /\ st_waiting s = true) \/
   (exists ch, st_taken s = [ch] /\ st_deferred s = Some ch /\ st_waiting s = false)).

Definition todo_ok (s : stream) : Prop :=
  st_waiting s = true -> rq_resp (st_req s) <> [] -> st_todo s <> [].

Definition done_bytes (c : conn) : bytes := concat (map resp_bytes (c_done c)).

Definition front_ok (c : conn) : Prop :=
  match c_pipe c with
  | [] => c_writing c = None /\ c_out c = done_bytes c
  | f :: _ =>
      (st_waiting f = true /\ c_writing c = None /\ c_out c = done_bytes c ++ concat (st_taken f)) \/
      (st_waiting f = false /\ exists t' ch, st_taken f = t' ++ [ch] /\ c_writing c = Some ch /\
                                           c_out c = done_bytes c ++ concat t')
  end.

Definition closed_ok (c : conn) : Prop :=
  c_writing c = None /\ c_out c = done_bytes c /\
  exists d r, c_done c = d ++ [r] /\ rq_keep r = false.

Definition Inv (c : conn) : Prop :=
  c_crashed c = false /\
  Forall si (c_pipe c) /\
  Forall nf_ok (tl (c_pipe c)) /\
  Forall todo_ok (c_pipe c) /\
  (c_open c = true -> front_ok c) /\
  (c_open c = false -> closed_ok c) /\
  c_seen c = c_done c ++ map st_req (c_pipe c) ++ heads (c_inbuf c) /\
  Forall (fun r => rq_keep r = true) (removelast (c_done c)) /\
  (c_open c = true -> Forall (fun r => rq_keep r = true) (c_done c)) /\
  c_readmore c = true.

Lemma new_stream_si r : si (new_stream r).
Proof. reflexivity. Qed.
Lemma new_stream_nf r : nf_ok (new_stream r).
Proof. split; [reflexivity|]. left. repeat split. Qed.
Lemma new_stream_todo r : todo_ok (new_stream r).
Proof. intros _ H. exact H. Qed.

Lemma heads_cons_head r l : heads (IHead r :: l) = r :: heads l.
Proof. reflexivity. Qed.
Lemma heads_cons_body n l : heads (IBody n :: l) = heads l.
Proof. reflexivity. Qed.

(* what parse_requests does: it moves some request heads from inBuf to the end of the pipeline *)
Definition parse_rel (c c' : conn) (rs : list req) : Prop :=
  c_pipe c' = c_pipe c ++ map new_stream rs /\
  heads (c_inbuf c) = rs ++ heads (c_inbuf c') /\
  c_open c' = c_open c /\ c_writing c' = c_writing c /\ c_out c' = c_out c /\ c_done c' = c_done c /\
  c_seen c' = c_seen c /\ c_crashed c' = c_crashed c /\ c_readmore c' = c_readmore c.

Lemma parse_rel_refl c : parse_rel c c [].
Proof. unfold parse_rel. cbn. rewrite app_nil_r. repeat split. Qed.

Lemma parse_rel_step c c1 c' r rs :
  c_pipe c1 = c_pipe c ++ [new_stream r] ->
  heads (c_inbuf c) = r :: heads (c_inbuf c1) ->
  c_open c1 = c_open c -> c_writing c1 = c_writing c -> c_out c1 = c_out c -> c_done c1 = c_done c ->
  c_seen c1 = c_seen c -> c_crashed c1 = c_crashed c -> c_readmore c1 = c_readmore c ->
  parse_rel c1 c' rs -> parse_rel c c' (r :: rs).
Proof.
  intros Hp Hh Ho Hw Hout Hd Hs Hc Hr (Hp' & Hh' & Ho' & Hw' & Hout' & Hd' & Hs' & Hc' & Hr').
  unfold parse_rel. rewrite Hp', Hp, Hh, Hh', Ho', Ho, Hw', Hw, Hout', Hout, Hd', Hd, Hs', Hs, Hc', Hc, Hr', Hr.
  rewrite <- app_assoc. cbn. repeat split.
Qed.

Lemma parse_spec fuel pf c : exists rs, parse_rel c (parse_requests fuel pf c) rs.
Proof.
  revert c; induction fuel as [|f IH]; intros c.
  - exists []. apply parse_rel_refl.
  - cbn [parse_requests].
    destruct (c_inbuf c) as [|it rest] eqn:Ein.
    { exists []. apply parse_rel_refl. }
    destruct (negb (c_bodyneed c =? 0) || negb (c_readmore c)).
    { exists []. apply parse_rel_refl. }
    destruct (queue_filled pf c).
    { exists []. apply parse_rel_refl. }
    destruct it as [r|n].
    2:{ exists []. apply parse_rel_refl. }
    destruct (rq_body r =? 0).
    + match goal with |- context [parse_requests f pf ?c1] => destruct (IH c1) as [rs H] end.
      exists (r :: rs). eapply parse_rel_step; [..|exact H]; try (cbn; reflexivity).
      cbn [c_inbuf]. rewrite Ein. apply heads_cons_head.
    + destruct (feed_body (rq_body r) rest) as [need rest'] eqn:Ef.
      assert (Hfh : heads rest' = heads rest).
      { pose proof (feed_body_heads (rq_body r) rest) as X. rewrite Ef in X. exact X. }
      destruct (need =? 0).
      * match goal with |- context [parse_requests f pf ?c1] => destruct (IH c1) as [rs H] end.
        exists (r :: rs). eapply parse_rel_step; [..|exact H]; try (cbn; reflexivity).
        cbn [c_inbuf]. rewrite Ein, Hfh. apply heads_cons_head.
      * exists [r]. eapply parse_rel_step; [..|apply parse_rel_refl]; try (cbn; reflexivity).
        cbn [c_inbuf]. rewrite Ein, Hfh. apply heads_cons_head.
Qed.

Lemma Forall_tl {A} (P : A -> Prop) l : Forall P l -> Forall P (tl l).
Proof. destruct l; cbn; [auto| intros H; inversion H; assumption]. Qed.

Lemma tl_app_new (p : list stream) rs :
  Forall nf_ok (tl p) -> Forall nf_ok (tl (p ++ map new_stream rs)).
Proof.
  intros H. destruct p as [|f p]; cbn [tl app] in *.
  - apply Forall_tl. apply Forall_forall. intros s Hs. apply in_map_iff in Hs. destruct Hs as (r & <- & _).
    apply new_stream_nf.
  - apply Forall_app. split; [assumption|]. apply Forall_forall. intros s Hs. apply in_map_iff in Hs.
    destruct Hs as (r & <- & _). apply new_stream_nf.
Qed.

(* appending freshly parsed streams keeps the invariant *)
Lemma inv_extend c c' rs :
  Inv c ->
  c_pipe c' = c_pipe c ++ map new_stream rs ->
  heads (c_inbuf c) = rs ++ heads (c_inbuf c') ->
  c_open c' = c_open c -> c_writing c' = c_writing c -> c_out c' = c_out c -> c_done c' = c_done c ->
  c_seen c' = c_seen c -> c_crashed c' = c_crashed c -> c_readmore c' = c_readmore c ->
  Inv c'.
Proof.
  intros (Icr & Isi & Itl & Itd & Ifr & Icl & Iseen & Ikl & Iko & Irm) Hp Hh Ho Hw Hout Hd Hs Hc Hr.
  unfold Inv, front_ok, closed_ok, done_bytes in *. rewrite Hp, Ho, Hw, Hout, Hd, Hs, Hc, Hr.
  split; [assumption|]. split.
  { apply Forall_app. split; [assumption|]. apply Forall_forall. intros s Hin. apply in_map_iff in Hin.
    destruct Hin as (r & <- & _). apply new_stream_si. }
  split; [apply tl_app_new; assumption|]. split.
  { apply Forall_app. split; [assumption|]. apply Forall_forall. intros s Hin. apply in_map_iff in Hin.
    destruct Hin as (r & <- & _). apply new_stream_todo. }
  split.
  { intros Hop. specialize (Ifr Hop).
    destruct (c_pipe c) as [|f p]; cbn [app].
    + destruct rs as [|r rs]; cbn [map]; [assumption|].
      left. cbn. rewrite app_nil_r. destruct Ifr as [-> ->]. repeat split.
    + assumption. }
  split; [assumption|]. split.
  { rewrite Iseen, Hh, map_app, map_map. cbn [st_req new_stream]. rewrite map_id, <- !app_assoc. reflexivity. }
  repeat split; assumption.
Qed.

Lemma parse_inv fuel pf c : Inv c -> Inv (parse_requests fuel pf c).
Proof.
  intros H. destruct (parse_spec fuel pf c) as [rs X].
  destruct X as (Hp & Hh & Ho & Hw & Hout & Hd & Hs & Hc & Hr).
  eapply inv_extend; eassumption.
Qed.

Lemma inv0 : Inv conn0.
Proof.
  unfold Inv, conn0; cbn. repeat split; try constructor; try discriminate.
Qed.

(* only inBuf / nrequests / bodyPipe bookkeeping changed *)
Lemma inv_congr c c' :
  Inv c -> c_pipe c' = c_pipe c -> c_open c' = c_open c -> c_writing c' = c_writing c -> c_out c' = c_out c ->
  c_done c' = c_done c -> c_crashed c' = c_crashed c -> c_readmore c' = c_readmore c ->
  c_seen c' = c_done c' ++ map st_req (c_pipe c') ++ heads (c_inbuf c') -> Inv c'.
Proof.
  intros (Icr & Isi & Itl & Itd & Ifr & Icl & Iseen & Ikl & Iko & Irm) Hp Ho Hw Hout Hd Hc Hr Hs.
  unfold Inv, front_ok, closed_ok, done_bytes in *. rewrite Hs, Hp, Ho, Hw, Hout, Hd, Hc, Hr.
  repeat (split; [assumption|]). split; [reflexivity|]. repeat (split; [assumption|]). assumption.
Qed.

(* ---------- on_read ---------- *)
Lemma on_read_inv pf items c : Inv c -> Inv (on_read pf items c).
Proof.
  intros H. unfold on_read.
  assert (Iseen : c_seen c = c_done c ++ map st_req (c_pipe c) ++ heads (c_inbuf c)) by apply H.
  destruct (negb (c_open c)).
  - eapply inv_congr; [exact H|reflexivity..|].
    cbn [c_seen c_done c_pipe c_inbuf]. rewrite heads_app, Iseen, <- !app_assoc. reflexivity.
  - destruct (if c_bodyneed c =? 0 then (0, c_inbuf c ++ items) else feed_body (c_bodyneed c) (c_inbuf c ++ items))
      as [need inb'] eqn:Ef.
    apply parse_inv.
    assert (Hh : heads inb' = heads (c_inbuf c ++ items)).
    { destruct (c_bodyneed c =? 0).
      - inversion Ef; reflexivity.
      - pose proof (feed_body_heads (c_bodyneed c) (c_inbuf c ++ items)) as X. rewrite Ef in X. exact X. }
    eapply inv_congr; [exact H|reflexivity..|].
    cbn [c_seen c_done c_pipe c_inbuf]. rewrite Hh, heads_app, Iseen, <- !app_assoc. reflexivity.
Qed.

Ltac projs := cbn [c_inbuf c_pipe c_nreq c_bodyneed c_readmore c_open c_writing c_out c_done c_seen c_crashed
                      st_req st_todo st_taken st_deferred st_waiting st_outsz tl set_pipe set_crashed].
Ltac projs_in H := cbn [c_inbuf c_pipe c_nreq c_bodyneed c_readmore c_open c_writing c_out c_done c_seen c_crashed
                      st_req st_todo st_taken st_deferred st_waiting st_outsz tl set_pipe set_crashed] in H.

(* ---------- on_data ---------- *)
Lemma on_data_inv i c : Inv c -> Inv (on_data i c).
Proof.
  intros H. pose proof H as H0. unfold on_data.
  destruct (c_open c) eqn:Eo; cbn [negb]; [|assumption].
  destruct (c_pipe c) as [|f tl0] eqn:Ep; [assumption|].
  destruct H as (Icr & Isi & Itl & Itd & Ifr & Icl & Iseen & Ikl & Iko & Irm).
  rewrite Ep in *. cbn [tl] in Itl.
  specialize (Ifr Eo). unfold front_ok in Ifr. rewrite Ep in Ifr.
  destruct (rq_id (st_req f) =? i).
  - (* the front stream delivers *)
    destruct (st_waiting f) eqn:Ew; [|assumption].
    destruct (st_todo f) as [|ch more] eqn:Et; [assumption|].
    destruct Ifr as [(_ & Hwr & Hout) | (Hw & _)]; [|discriminate].
    unfold start_write. projs. rewrite Hwr.
    inversion Isi as [|? ? Hsf Hsr]; subst. inversion Itd as [|? ? Htf Htr]; subst.
    unfold Inv, front_ok, closed_ok, done_bytes. projs. rewrite Eo.
    split; [assumption|]. split.
    { constructor; [|assumption]. unfold si in *; projs. rewrite Hsf, Et, <- app_assoc. reflexivity. }
    split; [assumption|]. split.
    { constructor; [|assumption]. intros X; projs_in X; discriminate. }
    split.
    { intros _. right. split; [reflexivity|]. exists (st_taken f), ch. repeat split. exact Hout. }
    split; [intros X; discriminate|]. split; [exact Iseen|]. repeat split; auto.
  - (* a stream behind the front delivers: deferRecipientForLater *)
    destruct (pick i tl0) as [[[b s] a]|] eqn:Epk; [|assumption].
    destruct (pick_spec _ _ _ _ _ Epk) as [-> _].
    destruct (st_waiting s) eqn:Ew; [|assumption].
    destruct (st_todo s) as [|ch more] eqn:Et; [assumption|].
    apply Forall_app in Itl. destruct Itl as [Itb Its]. inversion Its as [|? ? Hnf Hna]; subst.
    destruct Hnf as [Hsz [(Htk & Hdf & _) | (ch' & _ & _ & Hw')]]; [|rewrite Ew in Hw'; discriminate].
    rewrite Hdf.
    inversion Isi as [|? ? Hsf Hsr]; subst. apply Forall_app in Hsr. destruct Hsr as [Hsb Hss].
    inversion Hss as [|? ? Hs1 Hsa]; subst.
    inversion Itd as [|? ? Htf Htr]; subst. apply Forall_app in Htr. destruct Htr as [Htb Hts].
    inversion Hts as [|? ? Ht1 Hta]; subst.
    unfold Inv, front_ok, closed_ok, done_bytes. projs. rewrite Eo.
    split; [assumption|]. split.
    { constructor; [assumption|]. apply Forall_app. split; [assumption|]. constructor; [|assumption].
      unfold si in *; projs. rewrite Hs1, Et, <- app_assoc. reflexivity. }
    split.
    { apply Forall_app. split; [assumption|]. constructor; [|assumption].
      split; [exact Hsz|]. right. exists ch. projs. rewrite Htk. repeat split. }
    split.
    { constructor; [assumption|]. apply Forall_app. split; [assumption|]. constructor; [|assumption].
      intros X; projs_in X; discriminate. }
    split; [intros _; exact Ifr|].
    split; [intros X; discriminate|]. split.
    { rewrite Iseen. cbn [map]. rewrite !map_app. cbn [map]. projs. reflexivity. }
    repeat split; auto.
Qed.

(* ---------- kick ---------- *)
(* kick is called right after the front stream finished and was popped: the connection has no pending write,
   everything written so far is the complete responses of the finished streams, and every remaining stream is
   in the not-front state *)
Definition popped_ok (c : conn) : Prop :=
  c_crashed c = false /\
  Forall si (c_pipe c) /\
  Forall nf_ok (c_pipe c) /\
  Forall todo_ok (c_pipe c) /\
  c_writing c = None /\ c_out c = done_bytes c /\
  (c_open c = false -> exists d r, c_done c = d ++ [r] /\ rq_keep r = false) /\
  c_seen c = c_done c ++ map st_req (c_pipe c) ++ heads (c_inbuf c) /\
  Forall (fun r => rq_keep r = true) (removelast (c_done c)) /\
  (c_open c = true -> Forall (fun r => rq_keep r = true) (c_done c)) /\
  c_readmore c = true.

Lemma kick_inv pf c : popped_ok c -> Inv (kick pf c).
Proof.
  intros (Icr & Isi & Inf & Itd & Hwr & Hout & Hcl & Iseen & Ikl & Iko & Irm).
  unfold kick. destruct (c_open c) eqn:Eo; cbn [negb].
  2:{ unfold Inv, front_ok, closed_ok. rewrite Eo.
      split; [assumption|]. split; [assumption|]. split; [apply Forall_tl; assumption|]. split; [assumption|].
      split; [intros X; discriminate|]. split.
      { intros _. destruct (Hcl eq_refl) as (d & r & Hd & Hk). split; [assumption|]. split; [assumption|].
        exists d, r. split; assumption. }
      split; [assumption|]. split; [assumption|]. split; [intros X; discriminate| assumption]. }
  destruct (parse_spec (parse_fuel c) pf c) as [rs X].
  destruct X as (Hp & Hh & Ho & Hw & Hout' & Hd & Hs & Hc & Hr).
  set (c1 := parse_requests (parse_fuel c) pf c) in *.
  assert (Hnf1 : Forall nf_ok (c_pipe c1)).
  { rewrite Hp. apply Forall_app. split; [assumption|]. apply Forall_forall. intros s Hin. apply in_map_iff in Hin.
    destruct Hin as (r & <- & _). apply new_stream_nf. }
  assert (Hsi1 : Forall si (c_pipe c1)).
  { rewrite Hp. apply Forall_app. split; [assumption|]. apply Forall_forall. intros s Hin. apply in_map_iff in Hin.
    destruct Hin as (r & <- & _). apply new_stream_si. }
  assert (Htd1 : Forall todo_ok (c_pipe c1)).
  { rewrite Hp. apply Forall_app. split; [assumption|]. apply Forall_forall. intros s Hin. apply in_map_iff in Hin.
    destruct Hin as (r & <- & _). apply new_stream_todo. }
  assert (Hseen1 : c_seen c1 = c_done c1 ++ map st_req (c_pipe c1) ++ heads (c_inbuf c1)).
  { rewrite Hs, Hd, Hp, Iseen, Hh, map_app, map_map. cbn [st_req new_stream]. rewrite map_id, <- !app_assoc. reflexivity. }
  assert (Hout1 : c_out c1 = concat (map resp_bytes (c_done c1))).
  { rewrite Hout', Hd. exact Hout. }
  assert (Hkl1 : Forall (fun r => rq_keep r = true) (removelast (c_done c1))) by (rewrite Hd; assumption).
  assert (Hko1 : Forall (fun r => rq_keep r = true) (c_done c1)) by (rewrite Hd; apply Iko; reflexivity).
  assert (Hcr1 : c_crashed c1 = false) by (rewrite Hc; assumption).
  assert (Hrm1 : c_readmore c1 = true) by (rewrite Hr; assumption).
  assert (Ho1 : c_open c1 = true) by (rewrite Ho; assumption).
  assert (Hw1 : c_writing c1 = None) by (rewrite Hw; assumption).
  clearbody c1. clear Hp Hh Ho Hw Hout' Hd Hs Hc Hr.
  destruct (c_pipe c1) as [|f p] eqn:Ep1.
  - unfold Inv, front_ok, closed_ok, done_bytes. rewrite Ep1, Ho1.
    split; [assumption|]. split; [constructor|]. split; [constructor|]. split; [constructor|].
    split; [intros _; split; assumption|]. split; [intros X; discriminate|].
    split; [assumption|]. split; [assumption|]. split; [intros _; assumption| assumption].
  - inversion Hnf1 as [|? ? Hnf Hnp]; subst.
    destruct Hnf as [Hsz [(Htk & Hdf & Hwt) | (ch & Htk & Hdf & Hwt)]].
    + rewrite Hdf. unfold Inv, front_ok, closed_ok, done_bytes. rewrite Ep1, Ho1. cbn [tl].
      split; [assumption|]. split; [assumption|]. split; [assumption|]. split; [assumption|].
      split.
      { intros _. left. rewrite Htk. cbn [concat]. rewrite app_nil_r. repeat split; assumption. }
      split; [intros X; discriminate|].
      split; [assumption|]. split; [assumption|]. split; [intros _; assumption| assumption].
    + rewrite Hdf, Hsz. cbn [N.eqb]. unfold start_write. rewrite Hw1.
      unfold Inv, front_ok, closed_ok, done_bytes. projs. rewrite Ep1, Ho1. cbn [tl].
      split; [assumption|]. split; [assumption|]. split; [assumption|]. split; [assumption|].
      split.
      { intros _. right. split; [assumption|]. exists [], ch. cbn [app concat]. rewrite app_nil_r.
        repeat split; assumption. }
      split; [intros X; discriminate|].
      split; [assumption|]. split; [assumption|]. split; [intros _; assumption| assumption].
Qed.

Lemma removelast_snoc {A} (l : list A) x : removelast (l ++ [x]) = l.
Proof. apply removelast_last. Qed.

(* ---------- on_wrote ---------- *)
Lemma on_wrote_inv pf c : Inv c -> Inv (on_wrote pf c).
Proof.
  intros H. pose proof H as H0. unfold on_wrote.
  destruct (c_open c) eqn:Eo; cbn [negb]; [|assumption].
  destruct (c_writing c) as [ch|] eqn:Ewr; [|assumption].
  destruct H as (Icr & Isi & Itl & Itd & Ifr & Icl & Iseen & Ikl & Iko & Irm).
  specialize (Ifr Eo). unfold front_ok in Ifr.
  destruct (c_pipe c) as [|f tl0] eqn:Ep.
  { destruct Ifr as [X _]. congruence. }
  cbn [tl] in Itl.
  destruct Ifr as [(_ & X & _) | (Hw & t' & ch' & Htk & Hwr & Hout)]; [congruence|].
  assert (ch' = ch) by congruence. subst ch'. clear Hwr.
  inversion Isi as [|? ? Hsf Hsr]; subst. inversion Itd as [|? ? Htf Htr]; subst.
  destruct (st_todo f) as [|c2 more] eqn:Et.
  - (* STREAM_COMPLETE *)
    apply kick_inv. unfold popped_ok, done_bytes; projs.
    split; [assumption|]. split; [assumption|]. split; [assumption|]. split; [assumption|].
    split; [reflexivity|]. split.
    { rewrite map_app, concat_app. cbn [map concat]. rewrite app_nil_r.
      unfold resp_bytes at 2. unfold si in Hsf. rewrite Hsf, Et, app_nil_r, Htk, concat_app. cbn [concat]. rewrite app_nil_r.
      unfold done_bytes in Hout. rewrite Hout, <- app_assoc. reflexivity. }
    split; [intros Hk; exists (c_done c), (st_req f); split; [reflexivity| exact Hk]|].
    split; [rewrite Iseen; cbn [map]; rewrite <- !app_assoc; reflexivity|].
    split; [rewrite removelast_snoc; apply Iko; exact Eo|].
    split; [|assumption].
    intros Hk. apply Forall_app. split; [apply Iko; exact Eo|]. constructor; [exact Hk| constructor].
  - (* STREAM_NONE: pullData *)
    unfold Inv, front_ok, closed_ok, done_bytes; projs.
    split; [assumption|]. split.
    { constructor; [|assumption]. unfold si in *; projs. rewrite Hsf, Et. reflexivity. }
    split; [assumption|]. split.
    { constructor; [|assumption]. intros _ _; projs. discriminate. }
    split.
    { intros _. left. repeat split. unfold done_bytes in Hout. rewrite Hout, Htk, concat_app. cbn [concat].
      rewrite app_nil_r, <- app_assoc. reflexivity. }
    split; [intros X; discriminate|]. split; [exact Iseen|]. repeat split; auto.
Qed.

Lemma pstep_inv pf e c : Inv c -> Inv (pstep pf e c).
Proof.
  destruct e; cbn [pstep]; [apply on_read_inv | apply on_data_inv | apply on_wrote_inv].
Qed.

Lemma prun_inv pf evs c : Inv c -> Inv (prun pf evs c).
Proof.
  revert c; induction evs as [|e evs IH]; intros c H; cbn [prun fold_left]; [assumption|].
  apply IH. apply pstep_inv. assumption.
Qed.

(* ---------- c_seen is the list of request heads the client sent ---------- *)
Lemma kick_seen pf c : c_seen (kick pf c) = c_seen c.
Proof.
  unfold kick. destruct (negb (c_open c)); [reflexivity|].
  destruct (parse_spec (parse_fuel c) pf c) as [rs X].
  destruct X as (_ & _ & _ & _ & _ & _ & Hs & _).
  destruct (c_pipe (parse_requests (parse_fuel c) pf c)) as [|f p]; [assumption|].
  destruct (st_deferred f); [|assumption].
  destruct (st_outsz f =? 0); [|cbn; assumption].
  unfold start_write. destruct (c_writing _); cbn; assumption.
Qed.

Lemma pstep_seen pf e c :
  c_seen (pstep pf e c) = c_seen c ++ match e with ERead items => heads items | _ => [] end.
Proof.
  destruct e as [items|i|]; cbn [pstep].
  - unfold on_read. destruct (negb (c_open c)); [reflexivity|].
    destruct (if c_bodyneed c =? 0 then _ else _) as [need inb'].
    match goal with |- context [parse_requests ?fu pf ?c1] => destruct (parse_spec fu pf c1) as [rs X] end.
    destruct X as (_ & _ & _ & _ & _ & _ & Hs & _). rewrite Hs. reflexivity.
  - rewrite app_nil_r. unfold on_data. destruct (negb (c_open c)); [reflexivity|].
    destruct (c_pipe c) as [|f tl0]; [reflexivity|].
    destruct (rq_id (st_req f) =? i).
    + destruct (st_waiting f); [|reflexivity]. destruct (st_todo f); [reflexivity|].
      unfold start_write, set_pipe; cbn. destruct (c_writing c); reflexivity.
    + destruct (pick i tl0) as [[[b s] a]|]; [|reflexivity].
      destruct (st_waiting s); [|reflexivity]. destruct (st_todo s); [reflexivity|].
      destruct (st_deferred s); reflexivity.
  - rewrite app_nil_r. unfold on_wrote. destruct (negb (c_open c)); [reflexivity|].
    destruct (c_writing c); [|reflexivity]. destruct (c_pipe c) as [|f tl0]; [reflexivity|].
    destruct (st_todo f); [|reflexivity]. rewrite kick_seen. reflexivity.
Qed.

Lemma prun_seen pf evs c : c_seen (prun pf evs c) = c_seen c ++ reqs_of evs.
Proof.
  revert c; induction evs as [|e evs IH]; intros c; cbn [prun fold_left reqs_of flat_map].
  - rewrite app_nil_r. reflexivity.
  - fold (prun pf evs (pstep pf e c)). rewrite IH, pstep_seen, <- app_assoc. reflexivity.
Qed.

(* ---------- main statements ---------- *)

(* the socket output is: the complete responses of the finished requests, in request order, followed by a
   block-aligned prefix of the next request's own response *)
Definition ordered_output (reqs : list req) (out : bytes) : Prop :=
  exists done more cur,
    reqs = done ++ more /\
    out = concat (map resp_bytes done) ++ concat cur /\
    (cur = [] \/ exists r more' todo, more = r :: more' /\ rq_resp r = cur ++ todo).

Lemma inv_ordered c : Inv c -> ordered_output (c_seen c) (c_out c).
Proof.
  intros (Icr & Isi & Itl & Itd & Ifr & Icl & Iseen & Ikl & Iko & Irm).
  destruct (c_open c) eqn:Eo.
  - specialize (Ifr eq_refl). unfold front_ok in Ifr.
    destruct (c_pipe c) as [|f p] eqn:Ep.
    + destruct Ifr as [_ Hout]. exists (c_done c), (map st_req [] ++ heads (c_inbuf c)), [].
      split; [exact Iseen|]. split; [cbn; rewrite app_nil_r; exact Hout| left; reflexivity].
    + inversion Isi as [|? ? Hsf _]; subst. unfold si in Hsf.
      destruct Ifr as [(_ & _ & Hout) | (_ & t' & ch & Htk & _ & Hout)].
      * exists (c_done c), (map st_req (f :: p) ++ heads (c_inbuf c)), (st_taken f).
        split; [exact Iseen|]. split; [exact Hout|]. right.
        exists (st_req f), (map st_req p ++ heads (c_inbuf c)), (st_todo f). split; [reflexivity| exact Hsf].
      * exists (c_done c), (map st_req (f :: p) ++ heads (c_inbuf c)), t'.
        split; [exact Iseen|]. split; [exact Hout|]. right.
        exists (st_req f), (map st_req p ++ heads (c_inbuf c)), ([ch] ++ st_todo f).
        split; [reflexivity|]. rewrite Hsf, Htk, <- app_assoc. reflexivity.
  - destruct (Icl eq_refl) as (_ & Hout & _).
    exists (c_done c), (map st_req (c_pipe c) ++ heads (c_inbuf c)), [].
    split; [exact Iseen|]. split; [cbn; rewrite app_nil_r; exact Hout| left; reflexivity].
Qed.

Theorem pipeline_order pf evs :
  ordered_output (reqs_of evs) (c_out (prun pf evs conn0)).
Proof.
  pose proof (prun_inv pf evs conn0 inv0) as H. apply inv_ordered in H.
  rewrite prun_seen in H. exact H.
Qed.

Lemma ordered_prefix reqs out :
  ordered_output reqs out -> exists rest, concat (map resp_bytes reqs) = out ++ rest.
Proof.
  intros (done & more & cur & -> & -> & H).
  rewrite map_app, concat_app.
  destruct H as [-> | (r & more' & todo & -> & Hr)].
  - exists (concat (map resp_bytes more)). cbn. rewrite app_nil_r. reflexivity.
  - exists (concat todo ++ concat (map resp_bytes more')). cbn [map concat].
    unfold resp_bytes at 2. rewrite Hr, concat_app, <- !app_assoc. reflexivity.
Qed.

Theorem output_is_prefix pf evs :
  exists rest, concat (map resp_bytes (reqs_of evs)) = c_out (prun pf evs conn0) ++ rest.
Proof. apply ordered_prefix. apply pipeline_order. Qed.

Theorem no_assertion_failure pf evs : c_crashed (prun pf evs conn0) = false.
Proof. pose proof (prun_inv pf evs conn0 inv0) as H. apply H. Qed.

(* ---------- the prefetch limit ---------- *)
Lemma lenN_snoc {A} (l : list A) x : lenN (l ++ [x]) = lenN l + 1.
Proof. rewrite lenN_app. cbn [lenN]. lia. Qed.

Lemma parse_bound fuel pf c :
  lenN (c_pipe c) <= pf + 1 -> lenN (c_pipe (parse_requests fuel pf c)) <= pf + 1.
Proof.
  revert c; induction fuel as [|f IH]; intros c H; cbn [parse_requests]; [assumption|].
  destruct (c_inbuf c) as [|it rest]; [assumption|].
  destruct (negb (c_bodyneed c =? 0) || negb (c_readmore c)); [assumption|].
  unfold queue_filled. destruct (pf + 1 <=? lenN (c_pipe c)) eqn:Ef; [assumption|].
  apply N.leb_gt in Ef.
  destruct it as [r|n]; [|assumption].
  destruct (rq_body r =? 0).
  - apply IH. projs. rewrite lenN_snoc. lia.
  - destruct (feed_body (rq_body r) rest) as [need rest'].
    destruct (need =? 0); [apply IH|]; projs; rewrite lenN_snoc; lia.
Qed.

Lemma start_write_pipe ch c : c_pipe (start_write ch c) = c_pipe c.
Proof. unfold start_write. destruct (c_writing c); reflexivity. Qed.

Lemma kick_bound pf c : lenN (c_pipe c) <= pf + 1 -> lenN (c_pipe (kick pf c)) <= pf + 1.
Proof.
  intros H. unfold kick. destruct (negb (c_open c)); [assumption|].
  pose proof (parse_bound (parse_fuel c) pf c H) as H1.
  destruct (c_pipe (parse_requests (parse_fuel c) pf c)) as [|f p] eqn:Ep; [rewrite Ep; assumption|].
  destruct (st_deferred f); [|rewrite Ep; assumption].
  destruct (st_outsz f =? 0); [rewrite start_write_pipe, Ep; assumption| projs; rewrite Ep; assumption].
Qed.

Lemma pstep_bound pf e c : lenN (c_pipe c) <= pf + 1 -> lenN (c_pipe (pstep pf e c)) <= pf + 1.
Proof.
  intros H. destruct e as [items|i|]; cbn [pstep].
  - unfold on_read. destruct (negb (c_open c)); [assumption|].
    destruct (if c_bodyneed c =? 0 then _ else _) as [need inb']. apply parse_bound. assumption.
  - unfold on_data. destruct (negb (c_open c)); [assumption|].
    destruct (c_pipe c) as [|f tl0] eqn:Ep; [rewrite Ep; assumption|].
    destruct (rq_id (st_req f) =? i).
    + destruct (st_waiting f); [|rewrite Ep; assumption]. destruct (st_todo f); [rewrite Ep; assumption|].
      rewrite start_write_pipe. projs. cbn [lenN] in *. assumption.
    + destruct (pick i tl0) as [[[b s] a]|] eqn:Epk; [|rewrite Ep; assumption].
      destruct (pick_spec _ _ _ _ _ Epk) as [-> _].
      destruct (st_waiting s); [|rewrite Ep; assumption]. destruct (st_todo s); [rewrite Ep; assumption|].
      destruct (st_deferred s); [projs; rewrite Ep; assumption|].
      projs. cbn [lenN] in *. rewrite lenN_app in *. cbn [lenN] in *. assumption.
  - unfold on_wrote. destruct (negb (c_open c)); [assumption|].
    destruct (c_writing c); [|assumption].
    destruct (c_pipe c) as [|f tl0] eqn:Ep; [projs; cbn [lenN]; lia|].
    destruct (st_todo f).
    + apply kick_bound. projs. cbn [lenN] in H. lia.
    + projs. cbn [lenN] in *. assumption.
Qed.

Theorem prefetch_bound pf evs : lenN (c_pipe (prun pf evs conn0)) <= pf + 1.
Proof.
  assert (G : forall c, lenN (c_pipe c) <= pf + 1 -> lenN (c_pipe (prun pf evs c)) <= pf + 1).
  { induction evs as [|e evs IH]; intros c H; cbn [prun fold_left]; [assumption|].
    apply IH. apply pstep_bound. assumption. }
  apply G. cbn. lia.
Qed.

(* ---------- progress and completion ---------- *)
(* no internal event changes the state any more *)
Definition stuck (pf : N) (c : conn) : Prop := on_wrote pf c = c /\ forall i, on_data i c = c.

Lemma kick_done pf c : c_done (kick pf c) = c_done c.
Proof.
  unfold kick. destruct (negb (c_open c)); [reflexivity|].
  destruct (parse_spec (parse_fuel c) pf c) as [rs X].
  destruct X as (_ & _ & _ & _ & _ & Hd & _).
  destruct (c_pipe (parse_requests (parse_fuel c) pf c)) as [|f p]; [assumption|].
  destruct (st_deferred f); [|assumption].
  destruct (st_outsz f =? 0); [|projs; assumption].
  unfold start_write. destruct (c_writing _); projs; assumption.
Qed.

Lemma progress pf c :
  Inv c -> c_open c = true -> c_pipe c <> [] ->
  (forall s, In s (c_pipe c) -> rq_resp (st_req s) <> []) -> ~ stuck pf c.
Proof.
  intros (Icr & Isi & Itl & Itd & Ifr & Icl & Iseen & Ikl & Iko & Irm) Eo Hne Hresp [Hw Hd].
  specialize (Ifr Eo). unfold front_ok in Ifr.
  destruct (c_pipe c) as [|f tl0] eqn:Ep; [congruence|].
  destruct Ifr as [(Hwt & Hwr & _) | (Hwt & t' & ch & _ & Hwr & _)].
  - (* the front stream is waiting and has something to deliver *)
    inversion Itd as [|? ? Htf _]; subst. specialize (Htf Hwt (Hresp f (or_introl eq_refl))).
    specialize (Hd (rq_id (st_req f))). unfold on_data in Hd. rewrite Eo, Ep, N.eqb_refl, Hwt in Hd. cbn [negb] in Hd.
    destruct (st_todo f) as [|c2 more]; [congruence|].
    apply (f_equal c_writing) in Hd. unfold start_write in Hd. projs_in Hd. rewrite Hwr in Hd. projs_in Hd. congruence.
  - (* a write is pending *)
    unfold on_wrote in Hw. rewrite Eo, Hwr, Ep in Hw. cbn [negb] in Hw.
    destruct (st_todo f).
    + apply (f_equal c_done) in Hw. rewrite kick_done in Hw. projs_in Hw.
      apply (f_equal (@length req)) in Hw. rewrite app_length in Hw. cbn [length] in Hw. lia.
    + apply (f_equal c_writing) in Hw. projs_in Hw. congruence.
Qed.

(* saturation: with an empty pipeline and no request body outstanding, parseRequests never leaves a request head
   at the start of inBuf *)
Definition sat (c : conn) : Prop :=
  c_open c = true -> c_pipe c = [] -> c_bodyneed c = 0 ->
  match c_inbuf c with IHead _ :: _ => False | _ => True end.

Lemma parse_sat fuel pf c :
  c_readmore c = true -> sat (parse_requests (S fuel) pf c).
Proof.
  intros Hrm. destruct (parse_spec (S fuel) pf c) as [rs X].
  destruct X as (Hp & _ & Ho & _). intros Eo Epipe Ebn.
  revert Hp Epipe Ebn. cbn [parse_requests].
  destruct (c_inbuf c) as [|it rest] eqn:Ein; [intros; rewrite Ein; exact I|].
  destruct (c_bodyneed c =? 0) eqn:Eb; cbn [negb orb].
  2:{ intros Hp Epipe Ebn. apply N.eqb_neq in Eb. congruence. }
  rewrite Hrm. cbn [negb].
  unfold queue_filled. destruct (pf + 1 <=? lenN (c_pipe c)) eqn:Ef.
  { intros Hp Epipe Ebn. rewrite Epipe in Ef. cbn [lenN] in Ef. apply N.leb_le in Ef. lia. }
  destruct it as [r|n]; [|intros; rewrite Ein; exact I].
  (* a head was moved to the pipeline: the pipeline of the result is not empty *)
  intros Hp Epipe Ebn. exfalso.
  assert (Hne : forall c2 fu, c_pipe (parse_requests fu pf c2) = [] -> c_pipe c2 = []).
  { intros c2 fu E. destruct (parse_spec fu pf c2) as [rs2 X2]. destruct X2 as (Hp2 & _). rewrite Hp2 in E.
    apply app_eq_nil in E. apply E. }
  destruct (rq_body r =? 0).
  - apply Hne in Epipe. projs_in Epipe. apply app_eq_nil in Epipe. destruct Epipe; discriminate.
  - destruct (feed_body (rq_body r) rest) as [need rest'].
    destruct (need =? 0).
    + apply Hne in Epipe. projs_in Epipe. apply app_eq_nil in Epipe. destruct Epipe; discriminate.
    + projs_in Epipe. apply app_eq_nil in Epipe. destruct Epipe; discriminate.
Qed.

Lemma kick_sat pf c : c_readmore c = true -> sat (kick pf c).
Proof.
  intros Hrm. unfold kick. destruct (c_open c) eqn:Eo; cbn [negb].
  - pose proof (parse_sat (length (c_inbuf c)) pf c Hrm) as Hs. fold (parse_fuel c) in Hs.
    destruct (c_pipe (parse_requests (parse_fuel c) pf c)) as [|f p] eqn:Ep; [exact Hs|].
    destruct (st_deferred f); [|exact Hs].
    destruct (st_outsz f =? 0).
    + intros _ E. rewrite start_write_pipe, Ep in E. discriminate.
    + intros _ E. projs_in E. rewrite Ep in E. discriminate.
  - intros E. congruence.
Qed.

Lemma pstep_sat pf e c : Inv c -> sat c -> sat (pstep pf e c).
Proof.
  intros HI Hs. assert (Hrm : c_readmore c = true) by apply HI.
  destruct e as [items|i|]; cbn [pstep].
  - unfold on_read. destruct (c_open c) eqn:Eo; cbn [negb].
    + destruct (if c_bodyneed c =? 0 then _ else _) as [need inb']. apply parse_sat. exact Hrm.
    + intros E. projs_in E. congruence.
  - unfold on_data. destruct (negb (c_open c)); [assumption|].
    destruct (c_pipe c) as [|f tl0] eqn:Ep; [assumption|].
    destruct (rq_id (st_req f) =? i).
    + destruct (st_waiting f); [|assumption]. destruct (st_todo f); [assumption|].
      intros _ E. rewrite start_write_pipe in E. projs_in E. discriminate.
    + destruct (pick i tl0) as [[[b s] a]|]; [|assumption].
      destruct (st_waiting s); [|assumption]. destruct (st_todo s); [assumption|].
      destruct (st_deferred s); intros _ E; projs_in E; [congruence| discriminate].
  - unfold on_wrote. destruct (negb (c_open c)); [assumption|].
    destruct (c_writing c); [|assumption].
    destruct (c_pipe c) as [|f tl0] eqn:Ep.
    + unfold sat in *. projs. rewrite Ep in Hs. exact Hs.
    + destruct (st_todo f).
      * apply kick_sat. projs. exact Hrm.
      * intros _ E. projs_in E. discriminate.
Qed.

Lemma prun_sat pf evs c : Inv c -> sat c -> sat (prun pf evs c).
Proof.
  revert c; induction evs as [|e evs IH]; intros c HI Hs; cbn [prun fold_left]; [assumption|].
  apply IH; [apply pstep_inv; assumption| apply pstep_sat; assumption].
Qed.

Lemma sat0 : sat conn0.
Proof. intros _ _ _. exact I. Qed.

(* when nothing is enabled any more, every request has received exactly its one complete response *)
Theorem complete_when_quiescent pf evs :
  let c := prun pf evs conn0 in
  c_open c = true ->
  (forall r, In r (reqs_of evs) -> rq_resp r <> []) ->
  stuck pf c ->
  c_bodyneed c = 0 -> (forall n rest, c_inbuf c <> IBody n :: rest) ->
  c_out c = concat (map resp_bytes (reqs_of evs)) /\ c_pipe c = [] /\ c_done c = reqs_of evs.
Proof.
  intros c Eo Hresp Hstuck Hbn Hnb.
  pose proof (prun_inv pf evs conn0 inv0) as HI. fold c in HI.
  pose proof (prun_sat pf evs conn0 inv0 sat0) as Hs. fold c in Hs.
  pose proof (prun_seen pf evs conn0) as Hseen. fold c in Hseen. cbn [c_seen conn0 app] in Hseen.
  assert (Iseen : c_seen c = c_done c ++ map st_req (c_pipe c) ++ heads (c_inbuf c)) by apply HI.
  assert (Hp : c_pipe c = []).
  { destruct (c_pipe c) as [|f p] eqn:Ep; [reflexivity|]. exfalso.
    apply (progress pf c HI Eo); [rewrite Ep; discriminate| |exact Hstuck].
    intros s Hin. apply Hresp. rewrite <- Hseen, Iseen. apply in_or_app. right. apply in_or_app. left.
    apply in_map. rewrite <- Ep. exact Hin. }
  specialize (Hs Eo Hp Hbn).
  assert (Hin : c_inbuf c = []).
  { destruct (c_inbuf c) as [|[r|n] rest] eqn:Ein; [reflexivity| contradiction| exfalso; eapply Hnb; reflexivity]. }
  destruct HI as (_ & _ & _ & _ & Ifr & _).
  specialize (Ifr Eo). unfold front_ok in Ifr. rewrite Hp in Ifr. destruct Ifr as [_ Hout].
  rewrite Hp, Hin in Iseen. cbn [map heads app] in Iseen. unfold heads in Iseen. cbn [flat_map] in Iseen.
  rewrite !app_nil_r in Iseen.
  split; [rewrite Hout; unfold done_bytes; congruence|]. split; [exact Hp| congruence].
Qed.

(* a closed connection: everything up to and including the first request that did not keep the connection alive
   was answered completely, nothing else was written *)
Theorem close_stops_after_response pf evs :
  let c := prun pf evs conn0 in
  c_open c = false ->
  exists d r more,
    reqs_of evs = d ++ r :: more /\
    Forall (fun x => rq_keep x = true) d /\ rq_keep r = false /\
    c_out c = concat (map resp_bytes (d ++ [r])).
Proof.
  intros c Eo.
  pose proof (prun_inv pf evs conn0 inv0) as HI. fold c in HI.
  pose proof (prun_seen pf evs conn0) as Hseen. fold c in Hseen. cbn [c_seen conn0 app] in Hseen.
  destruct HI as (_ & _ & _ & _ & _ & Icl & Iseen & Ikl & _).
  destruct (Icl Eo) as (_ & Hout & d & r & Hd & Hk).
  exists d, r, (map st_req (c_pipe c) ++ heads (c_inbuf c)).
  rewrite Hd, removelast_snoc in Ikl.
  split; [rewrite <- Hseen, Iseen, Hd, <- app_assoc; reflexivity|].
  split; [assumption|]. split; [assumption|]. rewrite Hout. unfold done_bytes. rewrite Hd. reflexivity.
Qed.

(* non-vacuity: a pipeline that completes out of order upstream *)
Definition ex_r1 := mkReq 1 0 true [[1;1];[1]].
Definition ex_r2 := mkReq 2 0 true [[2]].
Definition ex_evs := [ERead [IHead ex_r1; IHead ex_r2]; EData 2; EData 1; EWrote; EData 1; EWrote; EWrote].
Lemma ex_out : c_out (prun 1 ex_evs conn0) = [1;1;1;2] /\ c_pipe (prun 1 ex_evs conn0) = [].
Proof. split; reflexivity. Qed.
Lemma ex_stuck : stuck 1 (prun 1 ex_evs conn0).
Proof. split; [reflexivity| intros i; reflexivity]. Qed.
