(* Extract_clpmap.v — extraction of the ClpMap model (and its specification) to OCaml.
   Only ExtrOcamlBasic is used; N, Z, positive, nat stay extracted datatypes. *)
Require Import ExtrOcamlBasic.
Require Import SquidV.Bytes SquidV.ClpmapModel SquidV.gen.Clpmap_gen.
Extraction "m_clpmap.ml"
  clp_entry_size clp_index_item_size clp_time_max clp_default_ttl
  clp_new clp_run spec_new spec_run.
