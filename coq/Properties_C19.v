(* Properties_C19.v — C19: SMP workers share cache entries consistently.
   Statements only; proofs live in SmpProofs.v.

   Vocabulary (SmpModel.v):
     pinit n                    one Ipc::StoreMap anchor (Transients, MemStore or rock map entry of a key), n processes
     prun s sched               processes call, in ANY order, MOpenR (openForReading), MOpenOrCreate
                                (openOrCreateForReading), MOpenW (openForWriting + setKey/set; the writer's id is used
                                as the version of what it writes), MStartApp, MAppendData k, MCloseW, MSwitchWR,
                                MAbortW, MCloseR, MCloseRFree (closeForReadingAndFreeIdle), MFree (freeEntry),
                                MFreeByKey; calls that are illegal for the caller's current holding are skipped
     ObsOpenR p v n complete    process p's openForReading succeeded and saw version v, n bytes, Anchor::complete()
     shm_write / copy_from_shm  MemStore::copyToShm (copyToShmSlice, nextAppendableSlice) / MemStore::copyFromShm
                                on a chain of slices of psz bytes *)
Require Import SquidV.Bytes SquidV.RwlockModel SquidV.SmpModel SquidV.SmpProofs.
Local Open Scope N_scope.

(* --- the lock counters of the anchor equal its holders in every reachable state (any number of processes, any order
       of method calls) --- *)
Theorem C19_anchor_lock_counts_holders : forall n sched, pinv (fst (prun (pinit n) sched)).
Proof. exact prun_inv_init. Qed.
Print Assumptions C19_anchor_lock_counts_holders.

Theorem C19_at_most_one_writer : forall n sched p q, let s := fst (prun (pinit n) sched) in
  p <> q -> isW (hget (ph s) p) = true -> isW (hget (ph s) q) = true -> False.
Proof. exact pop_one_writer. Qed.
Print Assumptions C19_at_most_one_writer.

(* --- no worker reads an entry that another worker is still writing as if it were complete: every successful
       openForReading, in every run, saw an entry that is in use and not marked for deletion, and that is EITHER
       reported complete, in which case no process holds it for writing, OR reported incomplete, in which case exactly
       the process whose version it carries holds it in append mode (the reader gets a prefix and knows it) --- *)
Theorem C19_shared_read_is_complete_or_appending_prefix : forall n sched, all_obs_sound (pinit n) sched.
Proof. exact pop_every_open_sound. Qed.
Print Assumptions C19_shared_read_is_complete_or_appending_prefix.

Theorem C19_readers_only_beside_appending_writer : forall n sched p q, let s := fst (prun (pinit n) sched) in
  hget (ph s) p = HRead -> isW (hget (ph s) q) = true -> hget (ph s) q = HAppend.
Proof. exact pop_reader_only_with_appending_writer. Qed.
Print Assumptions C19_readers_only_beside_appending_writer.

(* --- invalidated entries are not opened: after freeEntry / freeEntryByKey by any process in any reachable or
       unreachable state, whatever the others hold, no openForReading succeeds until some process creates the entry
       anew (openForWriting / openOrCreateForReading) --- *)
Theorem C19_purged_not_opened : forall s p o sched,
  p < lenN (ph s) -> (o = MFree \/ o = MFreeByKey) ->
  forallb (fun x => negb (creates (snd x))) sched = true ->
  forall ob, In ob (snd (prun (fst (pstep1 s p o)) sched)) -> ob = ObsNone.
Proof. exact pop_purged_not_opened. Qed.
Print Assumptions C19_purged_not_opened.

(* --- shared pages, any page size: what the writer has copied is exactly the object so far ... --- *)
Theorem C19_copy_to_shared_pages_exact : forall psz c offset obj, 0 < psz -> concat c = takeN offset obj ->
  exists c', shm_write psz c offset obj = Some c' /\ chain_bytes c' = obj.
Proof. exact shm_write_ok. Qed.
Print Assumptions C19_copy_to_shared_pages_exact.

(* ... a reader holding any prefix of the chain's bytes gets, by one copyFromShm pass, exactly the chain's bytes
   (slices of any sizes: page boundaries do not matter) ... *)
Theorem C19_copy_from_shared_pages_exact : forall c have rest,
  chain_bytes c = have ++ rest -> copy_from_shm c 0 have = chain_bytes c.
Proof. exact shm_read_ok. Qed.
Print Assumptions C19_copy_from_shared_pages_exact.

(* ... so for every object, every page size and every split point k: the writer delivers k bytes, a reader in another
   worker looks (gets exactly those k bytes), the writer delivers the rest, the reader looks again: identical bytes *)
Theorem C19_reader_gets_prefix_then_identical_bytes : forall psz obj k, 0 < psz ->
  exists c1 c2,
    shm_write psz [] 0 (takeN k obj) = Some c1 /\
    shm_write psz c1 (lenN (takeN k obj)) obj = Some c2 /\
    copy_from_shm c1 0 [] = takeN k obj /\
    copy_from_shm c2 0 (copy_from_shm c1 0 []) = obj.
Proof. exact shm_two_looks. Qed.
Print Assumptions C19_reader_gets_prefix_then_identical_bytes.

Theorem C19_method_level_lock_is_C54_model_bounded : forall r w a, r <= 4 -> bridge_ok (mkL r w a) = true.
Proof. exact lock_bridge_bounded. Qed.
Print Assumptions C19_method_level_lock_is_C54_model_bounded.

(* --- non-vacuity --- *)
Example C19_ex_reader_sees_appending_prefix :
  snd (prun (pinit 3) [(0, MOpenW); (0, MStartApp); (0, MAppendData 500); (1, MOpenR); (0, MAppendData 300); (0, MCloseW); (2, MOpenR)])
  = [ObsNone; ObsNone; ObsNone; ObsOpenR 1 0 500 false; ObsNone; ObsNone; ObsOpenR 2 0 800 true].
Proof. vm_compute. reflexivity. Qed.
Example C19_ex_exclusive_writer_not_readable :
  snd (prun (pinit 2) [(0, MOpenW); (0, MAppendData 500); (1, MOpenR)]) = [ObsNone; ObsNone; ObsNone].
Proof. vm_compute. reflexivity. Qed.
Example C19_ex_purge_then_no_open :
  snd (prun (pinit 3) [(0, MOpenW); (0, MAppendData 9); (0, MCloseW); (1, MOpenR); (2, MFree); (0, MOpenR); (1, MCloseR); (0, MOpenR)])
  = [ObsNone; ObsNone; ObsNone; ObsOpenR 1 0 9 true; ObsNone; ObsNone; ObsNone; ObsNone].
Proof. vm_compute. reflexivity. Qed.
Example C19_ex_pages : forall x, In x [1; 2; 3; 4; 5; 6; 7] ->
  option_map (map lenN) (shm_write 3 [] 0 [1; 2; 3; 4; 5; 6; 7]) = Some [3; 3; 1].
Proof. intros. vm_compute. reflexivity. Qed.
