(* Properties_C24.v — C24: chunked decoding is exact and rejects malformed framing.
   Statements only; proofs live in ChunkedProofs.v.  Model: ChunkedModel.v (TeChunkedParser::parse,
   the callers' loop `run` over a schedule of (newly read bytes, output space) steps).
   Spec side: `encode` / `body` of a `message` (RFC 9112 7.1 written as an encoder), `message_ok`. *)
Require Import SquidV.Bytes SquidV.TokModel SquidV.Incremental SquidV.ChunkedModel SquidV.ChunkedProofs.
Require Import SquidV.gen.CharSets_gen.
Local Open Scope N_scope.

(* --- the grammar's character classes are the sets the code uses (regenerated tables) --- *)
Theorem C24_token_chars_are_rfc_tchar : forall c, cs_TCHAR c = rfc_tchar c.
Proof. exact tchar_eq. Qed.
Print Assumptions C24_token_chars_are_rfc_tchar.

Theorem C24_qdtext_is_rfc_qdtext : forall c, qdtext11 c = rfc_qdtext c.
Proof. exact qdtext_eq. Qed.
Print Assumptions C24_qdtext_is_rfc_qdtext.

Theorem C24_quoted_pair_is_rfc_quoted_pair : forall c, qpair_chars c = rfc_qpair c.
Proof. exact qpair_eq. Qed.
Print Assumptions C24_quoted_pair_is_rfc_quoted_pair.

(* --- exactness: any body, any chunking, any segmentation, any output-space schedule ---
   `segs sched ++ rest = encode m ++ tail`: the reads deliver a prefix of (encoding, then arbitrary bytes);
   `live tail rest sched n`: from some step on the whole encoding has been delivered and the output
   space of the steps from there on sums to at least n. *)
Theorem C24_dechunk_exact : forall relaxed m tail sched rest,
  message_ok m -> segs sched ++ rest = encode m ++ tail -> live tail rest sched (lenN (body m)) ->
  let r := run_chunked relaxed sched in
  r_status r = RDone /\ r_out r = body m /\
  exists used later, segs sched = used ++ later /\ used = encode m ++ r_rest r.
Proof. exact dechunk_exact. Qed.
Print Assumptions C24_dechunk_exact.

(* without any assumption on how much was delivered or how much space there was: never an
   exception, never stuck, never early completion, output always a prefix of the body *)
Theorem C24_dechunk_safe_for_every_schedule : forall relaxed m, message_ok m -> forall tail sched rest,
  segs sched ++ rest = encode m ++ tail ->
  let r := run_chunked relaxed sched in
  (r_status r = RDone /\ r_out r = body m /\
   exists used later, segs sched = used ++ later /\ used = encode m ++ r_rest r)
  \/ (r_status r = RMore /\ exists B', body m = r_out r ++ B').
Proof. exact dechunk_safe. Qed.
Print Assumptions C24_dechunk_safe_for_every_schedule.

Theorem C24_truncated_only_asks_for_more : forall relaxed m sched rest,
  message_ok m -> segs sched ++ rest = encode m -> rest <> [] ->
  let r := run_chunked relaxed sched in
  r_status r = RMore /\ exists B', body m = r_out r ++ B'.
Proof. exact truncated_asks_for_more. Qed.
Print Assumptions C24_truncated_only_asks_for_more.

(* --- malformed framing is rejected, for every continuation x, every capacity, both modes --- *)
Theorem C24_rejects_0x_prefix : forall relaxed cap st c x, at_size st -> c = 120 \/ c = 88 ->
  parse relaxed cap st (48 :: c :: x) = PThrow E0x [].
Proof. exact reject_0x. Qed.
Print Assumptions C24_rejects_0x_prefix.

Theorem C24_rejects_nonhex_size : forall relaxed cap st c x, at_size st -> is_hex c = false ->
  parse relaxed cap st (c :: x) = PThrow ESize [].
Proof. exact reject_nonhex. Qed.
Print Assumptions C24_rejects_nonhex_size.

Theorem C24_rejects_size_beyond_63_bits : forall relaxed cap st ds x,
  at_size st -> forallb is_hex ds = true -> two63N <= hex_value 0 ds -> lenN ds <= npos ->
  parse relaxed cap st (ds ++ x) = PThrow ESize [].
Proof. exact reject_size_overflow. Qed.
Print Assumptions C24_rejects_size_beyond_63_bits.

Theorem C24_rejects_missing_crlf_after_size : forall relaxed cap st ds v c x,
  at_size st -> digits_ok ds v -> is_hex c = false -> c <> 120 -> c <> 88 ->
  ws_chars relaxed c = false -> c <> 59 -> c <> 13 ->
  parse relaxed cap st (ds ++ c :: x) = PThrow EExtCrlf [].
Proof. exact reject_missing_crlf_after_size. Qed.
Print Assumptions C24_rejects_missing_crlf_after_size.

Theorem C24_rejects_missing_crlf_after_data : forall relaxed cap st d c0 c1 x,
  p_stage st = StChunk -> p_left st = lenN d -> d <> [] -> lenN d <= cap -> ~ (c0 = 13 /\ c1 = 10) ->
  parse relaxed cap st (d ++ c0 :: c1 :: x) = PThrow EDataCrlf d.
Proof. exact reject_missing_crlf_after_data. Qed.
Print Assumptions C24_rejects_missing_crlf_after_data.

(* decided outcomes of the chunk-ext stage never change when more input arrives *)
Theorem C24_ext_stage_rejection_is_final : forall relaxed st b x e o,
  meta_suffix relaxed st b b = SThrow e o -> meta_suffix relaxed st (b ++ x) (b ++ x) = SThrow e o.
Proof. exact meta_stable_throw. Qed.
Print Assumptions C24_ext_stage_rejection_is_final.

Theorem C24_ext_stage_acceptance_is_final : forall relaxed st b x st' t3 o,
  meta_suffix relaxed st b b = SGo st' t3 t3 o ->
  meta_suffix relaxed st (b ++ x) (b ++ x) = SGo st' (t3 ++ x) (t3 ++ x) o.
Proof. exact meta_stable_go. Qed.
Print Assumptions C24_ext_stage_acceptance_is_final.

(* --- segmentation independence for ALL inputs (valid or not), both modes ---
   [step relaxed s b] = one parse(b) call in state s with output space that never fills (as in http.cc),
   classified as the caller sees it: Done body rest | Bad (exception kind / trailer too big, output so far) |
   More s' keep (keep = remaining()).  [decode_segments] = the read loop Incremental.drive over a list of
   segments, [decode_whole] = a single call on the whole input.  Since the repair 1aa8f1c the chunk-ext
   checkpoint commutes unconditionally, so the generic theorem of Incremental.v applies. *)
Theorem C24_definitive_outcomes_stable : forall relaxed,
  stable_done dstate bytes dbad (step relaxed) dinv fits /\
  stable_bad dstate bytes dbad (step relaxed) dinv fits.
Proof. exact (fun relaxed => conj (step_stable_done relaxed) (step_stable_bad relaxed)). Qed.
Print Assumptions C24_definitive_outcomes_stable.

Theorem C24_checkpoints_commute : forall relaxed,
  checkpoint_commutes dstate bytes dbad (step relaxed) dinv fits.
Proof. exact step_checkpoint. Qed.
Print Assumptions C24_checkpoints_commute.

Theorem C24_segmentation_independent : forall relaxed segments,
  segments <> [] -> lenN (concat segments) <= npos ->
  decode_segments relaxed segments = decode_whole relaxed (concat segments).
Proof. exact decode_segmentation_independent. Qed.
Print Assumptions C24_segmentation_independent.

Theorem C24_any_two_segmentations_agree : forall relaxed segs1 segs2,
  segs1 <> [] -> segs2 <> [] -> concat segs1 = concat segs2 -> lenN (concat segs1) <= npos ->
  decode_segments relaxed segs1 = decode_segments relaxed segs2.
Proof. exact decode_two_segmentations. Qed.
Print Assumptions C24_any_two_segmentations_agree.

Theorem C24_segmentation_independent_from_checkpoint : forall relaxed s keep segments,
  segments <> [] -> dinv s -> fits (keep ++ concat segments) ->
  Incremental.drive dstate bytes dbad (step relaxed) s keep segments = step relaxed s (keep ++ concat segments).
Proof. exact decode_from_checkpoint. Qed.
Print Assumptions C24_segmentation_independent_from_checkpoint.

(* --- the repaired finding: BWS between a chunk extension and CRLF is rejected, however the bytes arrive --- *)
Theorem C24_rejects_ext_trailing_bws : forall relaxed cap ds v e es w x,
  digits_ok ds v -> Forall ext_ok (e :: es) -> w <> [] -> bws_ok w ->
  parse relaxed cap init_state (ds ++ enc_exts (e :: es) ++ w ++ crlf ++ x) = PThrow EExtCrlf [].
Proof. exact reject_ext_trailing_bws. Qed.
Print Assumptions C24_rejects_ext_trailing_bws.

Theorem C24_rejects_ext_trailing_bws_for_every_segmentation : forall relaxed ds v e es w x segments,
  digits_ok ds v -> Forall ext_ok (e :: es) -> w <> [] -> bws_ok w ->
  segments <> [] -> concat segments = ds ++ enc_exts (e :: es) ++ w ++ crlf ++ x -> lenN (concat segments) <= npos ->
  decode_segments relaxed segments = Incremental.Bad (BThrow EExtCrlf []).
Proof. exact reject_ext_trailing_bws_every_segmentation. Qed.
Print Assumptions C24_rejects_ext_trailing_bws_for_every_segmentation.

(* --- the hypotheses are satisfiable: a concrete message, its encoding, a starved schedule --- *)
Definition ex_msg : message :=
  {| m_chunks := [ {| k_digits := [48; 53];                                  (* "05" *)
                      k_exts := [ {| x_w1 := [32]; x_w2 := [9]; x_name := [97];
                                     x_val := VQuoted [] [32] [([120], 34)] [121] |} ];   (* SP ; HT a = SP DQUOTE x BACKSLASH DQUOTE y DQUOTE *)
                      k_data := [104; 101; 108; 108; 111] |} ];              (* hello *)
     m_zeros := [48];
     m_last_exts := [ {| x_w1 := []; x_w2 := []; x_name := [113]; x_val := VTok [] [] [49] |} ];   (* ;q=1 *)
     m_trailer := [ ([84], [32; 118]) ] |}.                                  (* T: v *)

Example C24_ex_message_ok : message_ok ex_msg.
Proof.
  unfold message_ok, ex_msg. cbn [m_chunks m_zeros m_last_exts m_trailer].
  repeat split; repeat constructor; try discriminate; try (vm_compute; reflexivity).
Qed.

(* three reads, 2 bytes of output space per call, then empty reads until the output has drained *)
Definition ex_stream : bytes := encode ex_msg ++ [78; 69; 88; 84].
Definition ex_sched : list (bytes * N) :=
  [(takeN 10 ex_stream, 2); (takeN 20 (dropN 10 ex_stream), 2); (dropN 30 ex_stream, 2); ([], 0); ([], 2); ([], 1)].

Example C24_ex_live : segs ex_sched ++ [] = encode ex_msg ++ [78; 69; 88; 84] /\
  live [78; 69; 88; 84] [] ex_sched (lenN (body ex_msg)).
Proof. split; [vm_compute; reflexivity|]. vm_compute. repeat first [ solve [left; split; [lia | intro Hc; discriminate Hc]] | right ]. Qed.

Example C24_ex_run :
  r_status (run_chunked true ex_sched) = RDone /\ r_out (run_chunked true ex_sched) = body ex_msg /\
  r_rest (run_chunked true ex_sched) = [78; 69; 88; 84].
Proof. vm_compute. repeat split; reflexivity. Qed.

Example C24_ex_reject_hyps : at_size init_state /\ is_hex 103 = false /\
  digits_ok [49; 70] 31 /\ ws_chars true 120 = false /\ ws_chars false 11 = false.
Proof. repeat split; try (left; reflexivity); try discriminate; vm_compute; reflexivity. Qed.

(* "5;a=b \r\nhello\r\n0\r\n\r\n" (the input of the repaired finding): same rejection whole and split after the BWS *)
Example C24_ex_former_finding :
  let enc := [53; 59; 97; 61; 98; 32; 13; 10; 104; 101; 108; 108; 111; 13; 10; 48; 13; 10; 13; 10] in
  decode_segments false [takeN 6 enc; dropN 6 enc] = Incremental.Bad (BThrow EExtCrlf []) /\
  decode_segments true [takeN 7 enc; dropN 7 enc] = Incremental.Bad (BThrow EExtCrlf []) /\
  decode_whole false enc = Incremental.Bad (BThrow EExtCrlf []).
Proof. vm_compute. repeat split; reflexivity. Qed.
