(* AcldomProofs.v — proofs for C41 (domain-name ACLs) about AcldomModel.v.

   Plan. Every byte gets a key (0 for '.', 1 + xtolower(c) otherwise); a name is
   read as the list of the keys of its characters from the END of the string
   ([rk]). In the lexicographic order of key lists every value denotes a
   half-open interval [lo v, lo v ++ [ext v]) — a single point for a plain
   name, "the root and everything that continues it with a dot" for a value
   with a leading dot — and
     * matchDomainName(h, v) is the position of rk h relative to that interval
       ([mdn_pos]);
     * Compare(a, b) is -1 / +1 when the two intervals are disjoint (in that
       order) and 0 when they overlap ([dcompare_neg], [dcompare_pos]);
     * IsSubset decides inclusion of overlapping intervals ([subset_sound],
       [subset_total]).
   The tree kept by Merge() stays sorted by "interval entirely before"
   ([sd]); both comparators are sign-monotone along such a sequence, so the
   SplayProofs theorems apply. *)
Require Import SquidV.Bytes SquidV.SplayModel SquidV.SplayProofs SquidV.AcldomModel.
Require Import SquidV.gen.AclDom_gen.
Require Import ZifyBool ZifyN ZifyNat.
Local Open Scope N_scope.

(* ------------------------------------------------------------------ *)
(* xtolower, from the regenerated table                                *)
Definition lower_ok (c : N) : bool :=
  (lower (lower c) =? lower c) && Bool.eqb (lower c =? dot) (c =? dot).

Lemma lower_ok_all c : lower_ok c = true.
Proof.
  destruct (N.ltb_spec c 256) as [H|H].
  - apply (forallb_bytes lower_ok); [vm_compute; reflexivity| exact H].
  - unfold lower_ok, lower.
    destruct (N.ltb_spec c 256) as [H'|_]; [lia|].
    destruct (N.ltb_spec c 256) as [H'|_]; [lia|].
    rewrite N.eqb_refl. cbn [andb]. apply Bool.eqb_reflx.
Qed.

Lemma lower_idem c : lower (lower c) = lower c.
Proof.
  pose proof (lower_ok_all c) as H. unfold lower_ok in H. apply andb_prop in H. destruct H as [H _].
  apply N.eqb_eq, H.
Qed.

Lemma lower_dot c : lower c = dot <-> c = dot.
Proof.
  pose proof (lower_ok_all c) as H. unfold lower_ok in H. apply andb_prop in H. destruct H as [_ H].
  apply Bool.eqb_prop in H. rewrite <- !N.eqb_eq. rewrite H. reflexivity.
Qed.

Lemma lower_dot_self : lower dot = dot.
Proof. apply lower_dot. reflexivity. Qed.

(* ------------------------------------------------------------------ *)
(* keys and the lexicographic order                                    *)
Definition key (c : N) : N := if c =? dot then 0 else N.succ (lower c).

Lemma key_zero c : key c = 0 <-> c = dot.
Proof. unfold key. destruct (N.eqb_spec c dot); split; intros; try lia; congruence. Qed.

Lemma key_lower c : key (lower c) = key c.
Proof.
  unfold key. rewrite lower_idem.
  destruct (N.eqb_spec c dot) as [->|Hc].
  - rewrite lower_dot_self, N.eqb_refl. reflexivity.
  - destruct (N.eqb_spec (lower c) dot) as [E|_]; [apply (proj1 (lower_dot c)) in E; contradiction| reflexivity].
Qed.

Lemma key_eq_iff x y : key x = key y <-> lower x = lower y.
Proof.
  unfold key.
  destruct (N.eqb_spec x dot) as [->|Hx]; destruct (N.eqb_spec y dot) as [->|Hy].
  - tauto.
  - rewrite lower_dot_self. split; [lia|]. intros E. symmetry in E. apply (proj1 (lower_dot y)) in E. contradiction.
  - rewrite lower_dot_self. split; [lia|]. intros E. apply (proj1 (lower_dot x)) in E. contradiction.
  - split; [lia| intros ->; reflexivity].
Qed.

Fixpoint lex (a b : list N) : comparison :=
  match a, b with
  | [], [] => Eq
  | [], _ :: _ => Lt
  | _ :: _, [] => Gt
  | x :: a', y :: b' => match x ?= y with Eq => lex a' b' | c => c end
  end.

Definition llt (a b : list N) : Prop := lex a b = Lt.
Definition lle (a b : list N) : Prop := lex a b <> Gt.

Lemma lex_refl a : lex a a = Eq.
Proof. induction a as [|x a IH]; cbn [lex]; [reflexivity|]. now rewrite N.compare_refl. Qed.

Lemma lex_eq a : forall b, lex a b = Eq -> a = b.
Proof.
  induction a as [|x a IH]; intros [|y b]; cbn [lex]; try discriminate; [reflexivity|].
  destruct (x ?= y) eqn:E; try discriminate. apply N.compare_eq in E. subst. intros H. f_equal. apply IH, H.
Qed.

Lemma lex_antisym a : forall b, lex b a = CompOpp (lex a b).
Proof.
  induction a as [|x a IH]; intros [|y b]; cbn [lex CompOpp]; try reflexivity.
  rewrite (N.compare_antisym x y). destruct (x ?= y); cbn [CompOpp]; [apply IH| reflexivity| reflexivity].
Qed.

Lemma lex_trans a : forall b c, lex a b = Lt -> lex b c = Lt -> lex a c = Lt.
Proof.
  induction a as [|x a IH]; intros [|y b] [|z c]; cbn [lex]; try discriminate; try reflexivity.
  destruct (x ?= y) eqn:E1; try discriminate.
  - apply N.compare_eq in E1. subst y. destruct (x ?= z); try discriminate; [apply IH| reflexivity].
  - intros _. destruct (y ?= z) eqn:E2; try discriminate.
    + apply N.compare_eq in E2. subst z. rewrite E1. reflexivity.
    + intros _. rewrite N.compare_lt_iff in *. assert (H : x < z) by lia. unfold N.lt in H. rewrite H. reflexivity.
Qed.

Lemma llt_irrefl a : ~ llt a a.
Proof. unfold llt. rewrite lex_refl. discriminate. Qed.

Lemma llt_trans a b c : llt a b -> llt b c -> llt a c.
Proof. apply lex_trans. Qed.

Lemma lle_refl a : lle a a.
Proof. unfold lle. rewrite lex_refl. discriminate. Qed.

Lemma llt_lle a b : llt a b -> lle a b.
Proof. unfold llt, lle. intros ->. discriminate. Qed.

Lemma lle_cases a b : lle a b <-> llt a b \/ a = b.
Proof.
  unfold lle, llt. destruct (lex a b) eqn:E.
  - apply lex_eq in E. split; [auto| discriminate].
  - split; [auto| discriminate].
  - split; [congruence|]. intros [H|H]; [discriminate|]. subst. rewrite lex_refl in E. discriminate.
Qed.

Lemma not_lle a b : ~ lle a b <-> llt b a.
Proof.
  unfold lle, llt. rewrite (lex_antisym a b).
  destruct (lex a b); cbn [CompOpp]; split; intros H; try congruence; try discriminate;
    try (exfalso; apply H; discriminate).
Qed.

Lemma not_llt a b : ~ llt a b <-> lle b a.
Proof.
  unfold lle, llt. rewrite (lex_antisym a b).
  destruct (lex a b); cbn [CompOpp]; split; intros H; try congruence; try discriminate;
    try (exfalso; apply H; reflexivity).
Qed.

Lemma llt_lle_trans a b c : llt a b -> lle b c -> llt a c.
Proof. intros H1 H2. apply lle_cases in H2. destruct H2 as [H2| ->]; [eapply llt_trans; eassumption| exact H1]. Qed.

Lemma lle_llt_trans a b c : lle a b -> llt b c -> llt a c.
Proof. intros H1 H2. apply lle_cases in H1. destruct H1 as [H1| ->]; [eapply llt_trans; eassumption| exact H2]. Qed.

Lemma lle_trans a b c : lle a b -> lle b c -> lle a c.
Proof.
  intros H1 H2. apply lle_cases in H1. destruct H1 as [H1| ->]; [|exact H2].
  apply llt_lle. eapply llt_lle_trans; eassumption.
Qed.

Lemma llt_snoc a e : llt a (a ++ [e]).
Proof. unfold llt. induction a as [|x a IH]; cbn [lex app]; [reflexivity|]. now rewrite N.compare_refl. Qed.

(* ------------------------------------------------------------------ *)
(* position of a point q relative to the half-open interval [P, P ++ [e]) *)
Fixpoint pos (q P : list N) (e : N) : comparison :=
  match q, P with
  | [], [] => Eq
  | [], _ :: _ => Lt
  | x :: _, [] => if x <? e then Eq else Gt
  | x :: q', y :: P' => match x ?= y with Eq => pos q' P' e | c => c end
  end.

Lemma pos_Lt q : forall P e, pos q P e = Lt <-> llt q P.
Proof.
  unfold llt. induction q as [|x q IH]; intros [|y P] e; cbn [pos lex]; try tauto.
  - destruct (x <? e); split; discriminate.
  - destruct (x ?= y); [apply IH| tauto| tauto].
Qed.

Lemma pos_Gt q : forall P e, pos q P e = Gt <-> lle (P ++ [e]) q.
Proof.
  unfold lle. induction q as [|x q IH]; intros [|y P] e; cbn [pos lex app].
  - split; [discriminate| intros H; exfalso; apply H; reflexivity].
  - split; [discriminate| intros H; exfalso; apply H; reflexivity].
  - rewrite (N.compare_antisym x e). destruct (N.ltb_spec x e) as [H|H].
    + unfold N.lt in H. rewrite H. cbn [CompOpp]. split; [discriminate| intros G; exfalso; apply G; reflexivity].
    + destruct (x ?= e) eqn:E; cbn [CompOpp].
      * split; [intros _|reflexivity]. destruct q; discriminate.
      * exfalso. rewrite N.compare_lt_iff in E. lia.
      * split; [intros _; discriminate| reflexivity].
  - rewrite (N.compare_antisym x y). destruct (x ?= y); cbn [CompOpp]; [apply IH| |].
    + split; [discriminate| intros G; exfalso; apply G; reflexivity].
    + split; [intros _; discriminate| reflexivity].
Qed.

Lemma pos_Eq q : forall P e, pos q P e = Eq <-> q = P \/ exists x w, q = P ++ x :: w /\ x < e.
Proof.
  induction q as [|x q IH]; intros [|y P] e; cbn [pos app].
  - split; [auto| reflexivity].
  - split; [discriminate|]. intros [H|(x & w & H & _)]; [discriminate| destruct P; discriminate].
  - destruct (N.ltb_spec x e) as [H|H].
    + split; [intros _; right; exists x, q; auto| reflexivity].
    + split; [discriminate|]. intros [G|(x' & w & G & L)]; [discriminate|]. inversion G; subst. lia.
  - destruct (x ?= y) eqn:E.
    + apply N.compare_eq in E. subst y. rewrite IH. split.
      * intros [->|(x' & w & -> & L)]; [left; reflexivity| right; exists x', w; auto].
      * intros [G|(x' & w & G & L)]; [inversion G; auto| inversion G; subst; right; exists x', w; auto].
    + split; [discriminate|]. intros [G|(x' & w & G & L)]; inversion G; subst; rewrite N.compare_refl in E; discriminate.
    + split; [discriminate|]. intros [G|(x' & w & G & L)]; inversion G; subst; rewrite N.compare_refl in E; discriminate.
Qed.

(* ------------------------------------------------------------------ *)
(* values as intervals                                                 *)
Definition rk (s : bytes) : list N := map key (rev s).
Definition root1 (v : bytes) : bytes := if first_is_dot v then tl v else v.
Definition lo (v : bytes) : list N := rk (root1 v).
Definition ext (v : bytes) : N := if first_is_dot v then 1 else 0.
Definition hi (v : bytes) : list N := lo v ++ [ext v].
Definition vpos (q : list N) (v : bytes) : comparison := pos q (lo v) (ext v).

(* a domain value: a non-empty name that does not start with '.', optionally preceded by one '.' *)
Definition wf (v : bytes) : Prop := root1 v <> [] /\ first_is_dot (root1 v) = false.

Lemma lo_lt_hi v : llt (lo v) (hi v).
Proof. apply llt_snoc. Qed.

Lemma vpos_Lt q v : vpos q v = Lt <-> llt q (lo v).
Proof. apply pos_Lt. Qed.
Lemma vpos_Gt q v : vpos q v = Gt <-> lle (hi v) q.
Proof. apply pos_Gt. Qed.

Lemma vpos_lo v : vpos (lo v) v = Eq.
Proof. apply pos_Eq. left. reflexivity. Qed.

Local Open Scope Z_scope.

Definition sign_is (c : comparison) (z : Z) : Prop :=
  match c with Lt => z < 0 | Eq => z = 0 | Gt => z > 0 end.

(* the comparison loop computes the position *)
Lemma mdn_loop_pos (fd : bool) : forall rh rP, rh <> [] ->
  rP ++ (if fd then [dot] else []) <> [] ->
  sign_is (pos (map key rh) (map key rP) (if fd then 1%N else 0%N))
          (mdn_loop fd rh (rP ++ (if fd then [dot] else []))).
Proof.
  induction rh as [|x rh IH]; intros rP Hne Hrd; [congruence|]. clear Hne.
  destruct rP as [|y rP].
  - (* only the leading dot of d is left *)
    destruct fd; [|cbn [app] in Hrd; congruence]. cbn [app map pos mdn_loop].
    destruct (N.eqb_spec (lower x) (lower dot)) as [E|E].
    + rewrite lower_dot_self in E. apply (proj1 (lower_dot x)) in E. subst x.
      change (key dot) with 0%N. cbn [N.ltb N.compare]. destruct rh; cbn; reflexivity.
    + rewrite N.eqb_refl.
      assert (Hk : key x <> 0%N) by (rewrite key_zero; intros ->; apply E; reflexivity).
      destruct (N.ltb_spec (key x) 1); [lia|]. cbn. lia.
  - cbn [app map pos]. cbn [mdn_loop].
    destruct (N.eqb_spec (lower x) (lower y)) as [E|E].
    + assert (Ek : key x = key y) by (apply key_eq_iff, E). rewrite Ek, N.compare_refl.
      destruct rh as [|x2 rh].
      * (* h exhausted *)
        cbn [map pos].
        destruct rP as [|y2 rP]; cbn [app map].
        -- destruct fd; cbn; reflexivity.
        -- cbn [lenN]. destruct fd; cbn [andb sign_is].
           ++ destruct (N.eqb_spec (N.succ (lenN (rP ++ [dot]))) 1) as [H|H]; [|lia].
              rewrite lenN_app in H. cbn [lenN] in H. lia.
           ++ rewrite andb_false_r. lia.
      * destruct rP as [|y2 rP].
        -- destruct fd; cbn [app].
           ++ apply (IH [] ltac:(discriminate) ltac:(discriminate)).
           ++ cbn [map pos]. destruct (N.ltb_spec (key x2) 0); [lia|]. cbn. lia.
        -- cbn [app]. apply (IH (y2 :: rP) ltac:(discriminate)). cbn [app]. discriminate.
    + assert (Ek : key x <> key y) by (rewrite key_eq_iff; exact E).
      destruct (N.eqb_spec y dot) as [Hy|Hy].
      * subst y. change (key dot) with 0%N in *.
        destruct (key x ?= 0)%N eqn:C; [apply N.compare_eq in C; congruence| rewrite N.compare_lt_iff in C; lia| cbn; lia].
      * destruct (N.eqb_spec x dot) as [Hx|Hx].
        -- subst x. change (key dot) with 0%N in *.
           destruct (0 ?= key y)%N eqn:C; [apply N.compare_eq in C; congruence| cbn; lia| rewrite N.compare_gt_iff in C; lia].
        -- unfold key. destruct (N.eqb_spec x dot); [contradiction|]. destruct (N.eqb_spec y dot); [contradiction|].
           destruct (N.compare_spec (N.succ (lower x)) (N.succ (lower y))) as [C|C|C]; cbn [sign_is]; lia.
Qed.

Lemma strip_dots_idem h : first_is_dot (strip_dots h) = false.
Proof.
  induction h as [|c h IH]; cbn [strip_dots first_is_dot]; [reflexivity|].
  destruct (N.eqb_spec c dot) as [E|E]; [exact IH|]. cbn [first_is_dot]. apply N.eqb_neq, E.
Qed.

Lemma strip_dots_id h : first_is_dot h = false -> strip_dots h = h.
Proof. destruct h as [|c h]; cbn [first_is_dot strip_dots]; [reflexivity|]. intros ->. reflexivity. Qed.

Lemma rev_root1 d : d <> [] -> rev d = rev (root1 d) ++ (if first_is_dot d then [dot] else []).
Proof.
  destruct d as [|c d]; [congruence|]. intros _. unfold root1. cbn [first_is_dot].
  destruct (N.eqb_spec c dot) as [->|E]; cbn [tl rev]; [reflexivity| now rewrite app_nil_r].
Qed.

(* matchDomainName(h, d) is the position of the (dot-stripped) host relative to the interval of d *)
Theorem mdn_pos h d : d <> [] -> strip_dots h <> [] ->
  sign_is (vpos (rk (strip_dots h)) d) (matchDomainName h d).
Proof.
  intros Hd Hh. unfold matchDomainName.
  destruct (strip_dots h) as [|c h'] eqn:Eh; [congruence|].
  destruct d as [|c0 d']; [congruence|].
  pose proof (rev_root1 (c0 :: d') Hd) as Hr. rewrite Hr.
  unfold vpos, lo, ext, rk.
  assert (Hrh : rev (c :: h') <> []) by (cbn [rev]; destruct (rev h'); discriminate).
  assert (Hrd : rev (root1 (c0 :: d')) ++ (if first_is_dot (c0 :: d') then [dot] else []) <> [])
    by (rewrite <- Hr; cbn [rev]; destruct (rev d'); discriminate).
  exact (mdn_loop_pos (first_is_dot (c0 :: d')) (rev (c :: h')) (rev (root1 (c0 :: d'))) Hrh Hrd).
Qed.

Lemma mdn_empty_host h d : strip_dots h = [] -> matchDomainName h d = -1.
Proof. intros E. unfold matchDomainName. rewrite E. reflexivity. Qed.
