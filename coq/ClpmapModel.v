(* ClpmapModel.v — executable model of src/base/ClpMap.h (C51), plus the reference
   specification it is proved to refine.  Definitions only; proofs are in ClpmapProofs.v.

   Part 1 transcribes the template ClpMap<Key=SBuf, Value, MemoryUsedBy> method by method:
     - entries_  : std::list<Entry>, most recently used first          -> list entry
     - index_    : unordered_map<Key, iterator>                        -> first-match lookup
                   in the entry list (the two are the same thing as long as keys are
                   unique in the list; uniqueness is an invariant PROVED in ClpmapProofs.v)
     - memLimit_, memUsed_ : uint64_t counters                          -> N with explicit
                   wrap-around (u64add/u64sub) exactly where the code adds/subtracts
     - assert(...) in the code                                          -> status AssertFail
     - the while loop of trim()                                         -> fuel; OutOfFuel
   Part 2 is the specification: a keyed list with deadlines and sizes, no counters, no
   loops: lookup = find, removal = filter, eviction = longest fitting MRU prefix. *)
Require Import SquidV.Bytes.
Local Open Scope N_scope.

Inductive status := StOk | StAssertFail | StOutOfFuel.

Section ClpMap.
  (* The template parameters and compile-time constants.  The theorems hold for every
     choice; the extracted runner uses the values regenerated from /repo (gen/Clpmap_gen.v). *)
  Variable V : Type.              (* Value *)
  Variable vmem : V -> N.         (* MemoryUsedBy(const Value &) *)
  Variable esz : N.               (* sizeof(Entries::value_type) *)
  Variable isz : N.               (* sizeof(Index::value_type) *)
  Variable tmax : Z.              (* std::numeric_limits<time_t>::max() *)

  Definition U64MAX : N := 18446744073709551615.
  Definition U64MOD : N := 18446744073709551616.

  (* uint64_t a + b and a - b as the machine computes them (for a, b <= U64MAX) *)
  Definition u64add (a b : N) : N := if a + b <=? U64MAX then a + b else a + b - U64MOD.
  Definition u64sub (a b : N) : N := if b <=? a then a - b else a + U64MOD - b.

  Record entry := mkE { e_key : bytes; e_val : V; e_expires : Z; e_mem : N }.

  Record cmap := mkM {
    entries : list entry;   (* entries_ (+ index_), MRU first *)
    defTtl : Z;             (* defaultTtl_ *)
    memLimit : N;           (* memLimit_ *)
    memUsed : N;            (* memUsed_ *)
    stat : status           (* StOk unless an assert() fired / the loop bound was hit *)
  }.

  (* assert(c): the first failing assertion is remembered *)
  Definition st_assert (c : bool) (s : status) : status :=
    match s with StOk => if c then StOk else StAssertFail | _ => s end.

  Definition set_entries (m : cmap) (l : list entry) : cmap :=
    mkM l (defTtl m) (memLimit m) (memUsed m) (stat m).
  Definition set_stat (m : cmap) (s : status) : cmap :=
    mkM (entries m) (defTtl m) (memLimit m) (memUsed m) s.

  (* Entry::expired(): expires < squid_curtime *)
  Definition expired (now : Z) (e : entry) : bool := (e_expires e <? now)%Z.

  (* index_.find(key) *)
  Fixpoint lookup (k : bytes) (l : list entry) : option entry :=
    match l with
    | [] => None
    | e :: r => if list_eqb k (e_key e) then Some e else lookup k r
    end.

  (* index_.erase(i); entries_.erase(position): drops the entry the index points to *)
  Fixpoint remove_first (k : bytes) (l : list entry) : list entry :=
    match l with
    | [] => []
    | e :: r => if list_eqb k (e_key e) then r else e :: remove_first k r
    end.

  (* ClpMap::erase(i) *)
  Definition clp_erase (m : cmap) (e : entry) : cmap :=
    mkM (remove_first (e_key e) (entries m)) (defTtl m) (memLimit m)
        (u64sub (memUsed m) (e_mem e))
        (st_assert (e_mem e <=? memUsed m) (stat m)).           (* assert(memUsed_ >= sz) *)

  (* ClpMap::find(key): a fresh hit is spliced to the front, a stale one is erased *)
  Definition clp_find (now : Z) (m : cmap) (k : bytes) : cmap * option entry :=
    match lookup k (entries m) with
    | None => (m, None)
    | Some e =>
        if expired now e then (clp_erase m e, None)
        else (set_entries m (e :: remove_first k (entries m)), Some e)
    end.

  (* ClpMap::get(key) *)
  Definition clp_get (now : Z) (m : cmap) (k : bytes) : cmap * option V :=
    let (m1, r) := clp_find now m k in
    (m1, match r with Some e => Some (e_val e) | None => None end).

  (* ClpMap::del(key) *)
  Definition clp_del (now : Z) (m : cmap) (k : bytes) : cmap :=
    let (m1, r) := clp_find now m k in
    match r with Some e => clp_erase m1 e | None => m1 end.

  (* IncreaseSum<uint64_t>(s, t) for unsigned operands: nothing on overflow *)
  Definition inc_sum (s : option N) (t : N) : option N :=
    match s with
    | None => None
    | Some a => if a + t <=? U64MAX then Some (a + t) else None
    end.

  (* ClpMap::MemoryCountedFor(k, v) = NaturalSum<uint64_t>(keySz, sizeof Entry, MemoryUsedBy(v), sizeof IndexItem) *)
  Definition mem_counted (k : bytes) (v : V) : option N :=
    inc_sum (inc_sum (inc_sum (inc_sum (Some 0) (lenN k)) esz) (vmem v)) isz.

  Fixpoint last_entry (l : list entry) : option entry :=
    match l with
    | [] => None
    | [e] => Some e
    | _ :: r => last_entry r
    end.

  (* freeMem() = memLimit() - memoryUsed() *)
  Definition freeMem (m : cmap) : N := u64sub (memLimit m) (memUsed m).

  (* the while loop of ClpMap::trim(wantSpace) *)
  Fixpoint trim_loop (fuel : nat) (now : Z) (m : cmap) (want : N) : cmap :=
    if freeMem m <? want then
      match fuel with
      | O => set_stat m StOutOfFuel
      | S f =>
          match last_entry (entries m) with
          | None => set_stat m (st_assert false (stat m))       (* assert(!entries_.empty()) *)
          | Some e => trim_loop f now (clp_del now m (e_key e)) want
          end
      end
    else m.

  (* ClpMap::trim(wantSpace) *)
  Definition clp_trim (now : Z) (m : cmap) (want : N) : cmap :=
    let m0 := set_stat m (st_assert (want <=? memLimit m) (stat m)) in  (* assert(wantSpace <= memLimit()) *)
    trim_loop (S (length (entries m0))) now m0 want.

  (* Entry::Entry(): SetToNaturalSumOrMax(expires, squid_curtime, ttl) with time_t expires *)
  Definition expires_at (now ttl : Z) : Z :=
    if (now <? 0)%Z then tmax                     (* IncreaseSum(0, squid_curtime): negative => nothing *)
    else if (tmax <? now)%Z then tmax             (* Less(max - 0, squid_curtime) *)
    else if (ttl <? 0)%Z then tmax                (* IncreaseSum(sum, ttl): negative => nothing *)
    else if (tmax - now <? ttl)%Z then tmax       (* Less(max - sum, ttl) => nothing => max *)
    else (now + ttl)%Z.

  (* ClpMap::add(key, v, ttl) *)
  Definition clp_add (now : Z) (m : cmap) (k : bytes) (v : V) (ttl : Z) : cmap * bool :=
    if memLimit m =? 0 then (m, false) else
    let m1 := clp_del now m k in
    if (ttl <? 0)%Z then (m1, false) else
    match mem_counted k v with
    | None => (m1, false)
    | Some want =>
        if (memLimit m1 <? want) || (want =? 0) then (m1, false) else
        let m2 := clp_trim now m1 want in
        let e := mkE k v (expires_at now ttl) want in
        let used := u64add (memUsed m2) want in
        (mkM (e :: entries m2) (defTtl m2) (memLimit m2) used
             (st_assert (want <=? used) (stat m2)),            (* assert(memUsed_ >= wantSpace) *)
         true)
    end.

  (* ClpMap::setMemLimit(newLimit): note that trim() runs against the OLD limit *)
  Definition clp_setMemLimit (now : Z) (m : cmap) (n : N) : cmap :=
    let m1 := if n <? memUsed m then clp_trim now m (u64sub (memLimit m) n) else m in
    mkM (entries m1) (defTtl m1) n (memUsed m1) (stat m1).

  (* ClpMap(capacity) [dttl = None] and ClpMap(capacity, defaultTtl) [assert(defaultTtl >= 0)] *)
  Definition clp_new (now : Z) (cap : N) (dttl : option Z) (builtin_ttl : Z) : cmap :=
    match dttl with
    | None => clp_setMemLimit now (mkM [] builtin_ttl 0 0 StOk) cap
    | Some d => clp_setMemLimit now (mkM [] d 0 0 (st_assert (0 <=? d)%Z StOk)) cap
    end.

  (* ---- operation histories ---- *)
  Inductive op :=
  | OGet (k : bytes)
  | OAdd (k : bytes) (v : V) (ttl : Z)
  | OAddDefault (k : bytes) (v : V)
  | ODel (k : bytes)
  | OSetLimit (n : N)
  | OSetClock (t : Z).

  Inductive result := RGet (r : option V) | RAdd (b : bool) | RUnit.

  (* the state of the world: squid_curtime and the map *)
  Definition clp_step (w : Z * cmap) (o : op) : (Z * cmap) * result :=
    let (now, m) := w in
    match o with
    | OGet k => let (m1, r) := clp_get now m k in ((now, m1), RGet r)
    | OAdd k v ttl => let (m1, b) := clp_add now m k v ttl in ((now, m1), RAdd b)
    | OAddDefault k v => let (m1, b) := clp_add now m k v (defTtl m) in ((now, m1), RAdd b)
    | ODel k => ((now, clp_del now m k), RUnit)
    | OSetLimit n => ((now, clp_setMemLimit now m n), RUnit)
    | OSetClock t => ((t, m), RUnit)
    end.

  (* what a caller can observe after each operation: the result, memoryUsed(), and the
     traversal begin()..end() *)
  Definition clp_obs (m : cmap) : N * list entry := (memUsed m, entries m).

  Fixpoint clp_run (w : Z * cmap) (ops : list op) : list (result * (N * list entry)) * (Z * cmap) :=
    match ops with
    | [] => ([], w)
    | o :: r =>
        let (w1, res) := clp_step w o in
        let (outs, wf) := clp_run w1 r in
        ((res, clp_obs (snd w1)) :: outs, wf)
    end.

  (* ================= Part 2: the reference specification ================= *)
  (* A capacity-bounded keyed list: most recently used first, every item carries its
     deadline and its accounted size.  Memory in use is DEFINED as the sum of the sizes. *)

  Record smap := mkS { s_items : list entry; s_limit : N; s_dttl : Z }.

  Definition has_key (k : bytes) (e : entry) : bool := list_eqb k (e_key e).

  Definition total (l : list entry) : N := fold_right (fun e a => e_mem e + a) 0 l.

  (* all items except those with key k *)
  Definition without (k : bytes) (l : list entry) : list entry :=
    filter (fun e => negb (has_key k e)) l.

  (* the longest most-recently-used prefix whose sizes fit into the budget *)
  Fixpoint fit (budget : N) (l : list entry) : list entry :=
    match l with
    | [] => []
    | e :: r => if e_mem e <=? budget then e :: fit (budget - e_mem e) r else []
    end.

  (* an item may be returned while now <= deadline *)
  Definition fresh (now : Z) (e : entry) : bool := (now <=? e_expires e)%Z.

  (* deadline = now + ttl, saturating at tmax; a negative clock means "never" (tmax) *)
  Definition deadline (now ttl : Z) : Z :=
    if (now <? 0)%Z then tmax else Z.min tmax (now + ttl).

  (* accounted size = key length + value size + the two fixed overheads, if it is a uint64_t *)
  Definition size_of (k : bytes) (v : V) : option N :=
    let t := lenN k + vmem v + (esz + isz) in
    if t <=? U64MAX then Some t else None.

  Definition spec_get (now : Z) (s : smap) (k : bytes) : smap * option V :=
    match find (has_key k) (s_items s) with
    | Some e =>
        if fresh now e then (mkS (e :: without k (s_items s)) (s_limit s) (s_dttl s), Some (e_val e))
        else (mkS (without k (s_items s)) (s_limit s) (s_dttl s), None)
    | None => (s, None)
    end.

  Definition spec_del (s : smap) (k : bytes) : smap :=
    mkS (without k (s_items s)) (s_limit s) (s_dttl s).

  (* A zero-capacity map stores nothing and ignores add().  Otherwise add() always forgets
     the previous item of that key; the new item is stored iff its TTL is not negative and
     its size is a positive uint64_t within the capacity; it then goes to the front and the
     rest keeps its longest MRU prefix that still fits. *)
  Definition spec_add (now : Z) (s : smap) (k : bytes) (v : V) (ttl : Z) : smap * bool :=
    if s_limit s =? 0 then (s, false) else
    let rest := without k (s_items s) in
    match size_of k v with
    | Some sz =>
        if (0 <=? ttl)%Z && (0 <? sz) && (sz <=? s_limit s)
        then (mkS (mkE k v (deadline now ttl) sz :: fit (s_limit s - sz) rest) (s_limit s) (s_dttl s), true)
        else (mkS rest (s_limit s) (s_dttl s), false)
    | None => (mkS rest (s_limit s) (s_dttl s), false)
    end.

  Definition spec_setLimit (s : smap) (n : N) : smap :=
    mkS (fit n (s_items s)) n (s_dttl s).

  Definition spec_new (cap : N) (dttl : option Z) (builtin_ttl : Z) : smap :=
    mkS [] cap (match dttl with Some d => d | None => builtin_ttl end).

  Definition spec_step (w : Z * smap) (o : op) : (Z * smap) * result :=
    let (now, s) := w in
    match o with
    | OGet k => let (s1, r) := spec_get now s k in ((now, s1), RGet r)
    | OAdd k v ttl => let (s1, b) := spec_add now s k v ttl in ((now, s1), RAdd b)
    | OAddDefault k v => let (s1, b) := spec_add now s k v (s_dttl s) in ((now, s1), RAdd b)
    | ODel k => ((now, spec_del s k), RUnit)
    | OSetLimit n => ((now, spec_setLimit s n), RUnit)
    | OSetClock t => ((t, s), RUnit)
    end.

  Definition spec_obs (s : smap) : N * list entry := (total (s_items s), s_items s).

  Fixpoint spec_run (w : Z * smap) (ops : list op) : list (result * (N * list entry)) * (Z * smap) :=
    match ops with
    | [] => ([], w)
    | o :: r =>
        let (w1, res) := spec_step w o in
        let (outs, wf) := spec_run w1 r in
        ((res, spec_obs (snd w1)) :: outs, wf)
    end.

  (* ---- vocabulary of the statements ---- *)
  (* arguments a C++ caller can actually pass: capacities are uint64_t *)
  Definition op_ok (o : op) : Prop :=
    match o with OSetLimit n => n <= U64MAX | _ => True end.

  Definition op_key (o : op) : option bytes :=
    match o with
    | OGet k | OAdd k _ _ | OAddDefault k _ | ODel k => Some k
    | _ => None
    end.

  (* the entries an operation on key k does not address *)
  Definition others (k : option bytes) (l : list entry) : list entry :=
    match k with Some k => without k l | None => l end.

  (* ClpMap(capacity, defaultTtl) requires defaultTtl >= 0 (it asserts so) *)
  Definition dttl_ok (d : option Z) : Prop :=
    match d with Some d => (0 <= d)%Z | None => True end.

  (* When an operation purged the entries [purged] (listed from more to less recently used) and
     kept [kept] of the entries it does not address: purging was necessary, i.e. the operation
     is a capacity change or a successful add, and keeping even the most recently used victim
     on top of what was kept would have exceeded the capacity [limit_after]. *)
  Definition purge_justified (o : op) (res : result) (limit_after : N)
             (kept purged : list entry) : Prop :=
    match purged with
    | [] => True
    | x :: _ =>
        match o with
        | OSetLimit n => limit_after = n /\ n < total kept + e_mem x
        | OAdd k v _ | OAddDefault k v =>
            exists sz, res = RAdd true /\ size_of k v = Some sz /\
                       limit_after < sz + total kept + e_mem x
        | _ => False
        end
    end.
End ClpMap.

Arguments mkE {V}.
Arguments e_key {V}. Arguments e_val {V}. Arguments e_expires {V}. Arguments e_mem {V}.
Arguments mkM {V}. Arguments entries {V}. Arguments defTtl {V}. Arguments memLimit {V}.
Arguments memUsed {V}. Arguments stat {V}.
Arguments mkS {V}. Arguments s_items {V}. Arguments s_limit {V}. Arguments s_dttl {V}.
Arguments OGet {V}. Arguments OAdd {V}. Arguments OAddDefault {V}. Arguments ODel {V}.
Arguments OSetLimit {V}. Arguments OSetClock {V}.
Arguments RGet {V}. Arguments RAdd {V}. Arguments RUnit {V}.
Arguments st_assert c s : simpl never.
Arguments set_entries {V}. Arguments set_stat {V}. Arguments expired {V}.
Arguments lookup {V}. Arguments remove_first {V}. Arguments clp_erase {V}.
Arguments clp_find {V}. Arguments clp_get {V}. Arguments clp_del {V}.
Arguments mem_counted {V}. Arguments last_entry {V}. Arguments freeMem {V}.
Arguments trim_loop {V}. Arguments clp_trim {V}. Arguments clp_add {V}.
Arguments clp_setMemLimit {V}. Arguments clp_new {V}. Arguments clp_step {V}.
Arguments clp_obs {V}. Arguments clp_run {V}.
Arguments has_key {V}. Arguments total {V}. Arguments without {V}. Arguments fit {V}.
Arguments fresh {V}. Arguments size_of {V}. Arguments spec_get {V}. Arguments spec_del {V}.
Arguments spec_add {V}. Arguments spec_setLimit {V}. Arguments spec_new {V}.
Arguments spec_step {V}. Arguments spec_obs {V}. Arguments spec_run {V}.
Arguments op_ok {V}. Arguments op_key {V}. Arguments others {V}. Arguments purge_justified {V}.
