// Table generator for the uri area (C30): what AnyP::Uri::parse depends on, as the code defines it *now*.
// Uri.cc is included into this unit so that its file-static tables are reachable.
#include "squid.h"
#include <sstream>
#include <iostream>
#include <vector>
#include <string>
#include <cctype>
#include "anyp/Uri.cc"
#include "anyp/ProtocolType.h"
#include "http/MethodType.h"
#include "mem/forward.h"

static void dumpBoolTbl(const char *name, bool (*f)(int)) {
    std::cout << "Definition " << name << "_tbl : list bool := [";
    for (int c = 0; c < 256; ++c) std::cout << (c ? ";" : "") << (f(c) ? "true" : "false");
    std::cout << "].\nDefinition " << name << " : cset := mem_tbl " << name << "_tbl.\n";
}
static std::string bytesOf(const std::string &s) {
    std::ostringstream o; o << "[";
    for (size_t i = 0; i < s.size(); ++i) o << (i ? ";" : "") << static_cast<int>(static_cast<unsigned char>(s[i]));
    o << "]"; return o.str();
}
static bool inStr(const char *set, int c) { return c != 0 && strchr(set, c) != nullptr; }

int main() {
    Mem::Init();
    AnyP::UriScheme::Init();
    std::cout << "@@FILE Uri_gen.v\n(* generated from /repo by gen/gen_uri.cc -- do not edit *)\n"
              "Require Import SquidV.Bytes.\nLocal Open Scope N_scope.\n";
    // libc classification used through xisspace / xisdigit / xtolower, and the w_space macro
    dumpBoolTbl("uri_xisspace", [](int c) { return xisspace(c) != 0; });
    dumpBoolTbl("uri_xisdigit", [](int c) { return xisdigit(c) != 0; });
    dumpBoolTbl("uri_w_space", [](int c) { return inStr(w_space, c); });
    std::cout << "Definition uri_xtolower_tbl : list N := [";
    for (int c = 0; c < 256; ++c) std::cout << (c ? ";" : "") << xtolower(c);
    std::cout << "].\n";
    // SBuf::toLower (used by UriScheme::FindProtocolType)
    std::cout << "Definition uri_sbuf_tolower_tbl : list N := [";
    for (int c = 0; c < 256; ++c) {
        const char ch = static_cast<char>(c); SBuf b(&ch, 1); b.toLower();
        std::cout << (c ? ";" : "") << static_cast<int>(static_cast<unsigned char>(b[0]));
    }
    std::cout << "].\n";
    dumpBoolTbl("uri_hostchars", [](int c) { return inStr(valid_hostname_chars, c); });
    dumpBoolTbl("uri_hostchars_u", [](int c) { return inStr(valid_hostname_chars_u, c); });
    dumpBoolTbl("uri_PathChars", [](int c) { return PathChars()[static_cast<unsigned char>(c)]; });
    dumpBoolTbl("uri_UserInfoChars", [](int c) { return UserInfoChars()[static_cast<unsigned char>(c)]; });
    // schemes: lower-case names FindProtocolType compares with, their ids and default ports
    std::cout << "Definition uri_schemes : list (bytes * (N * option N)) := [";
    for (int i = AnyP::PROTO_NONE + 1; i < AnyP::PROTO_UNKNOWN; ++i) {
        const AnyP::UriScheme s(static_cast<AnyP::ProtocolType>(i));
        const auto img = s.image();
        const auto dp = s.defaultPort();
        std::cout << (i > AnyP::PROTO_NONE + 1 ? ";\n  " : "") << "(" << bytesOf(std::string(img.rawContent(), img.length()))
                  << ", (" << i << ", " << (dp ? "Some " + std::to_string(*dp) : std::string("None")) << "))";
    }
    std::cout << "].\n";
#define ID(n, v) std::cout << "Definition " n " : N := " << static_cast<long>(v) << ".\n"
    ID("uri_PROTO_NONE", AnyP::PROTO_NONE); ID("uri_PROTO_HTTP", AnyP::PROTO_HTTP); ID("uri_PROTO_HTTPS", AnyP::PROTO_HTTPS);
    ID("uri_PROTO_FTP", AnyP::PROTO_FTP); ID("uri_PROTO_URN", AnyP::PROTO_URN); ID("uri_PROTO_UNKNOWN", AnyP::PROTO_UNKNOWN);
    ID("uri_METHOD_CONNECT", Http::METHOD_CONNECT); ID("uri_METHOD_OPTIONS", Http::METHOD_OPTIONS); ID("uri_METHOD_TRACE", Http::METHOD_TRACE);
    ID("uri_MAX_URL", MAX_URL); ID("uri_SQUIDHOSTNAMELEN", SQUIDHOSTNAMELEN);
    {
        const AnyP::UriScheme unk(AnyP::PROTO_UNKNOWN, "x"), none;
        std::cout << "Definition uri_default_port_unknown : option N := " << (unk.defaultPort() ? "Some " + std::to_string(*unk.defaultPort()) : std::string("None")) << ".\n";
        std::cout << "Definition uri_default_port_none : option N := " << (none.defaultPort() ? "Some " + std::to_string(*none.defaultPort()) : std::string("None")) << ".\n";
    }
    std::cout << "Definition uri_asterisk : bytes := " << bytesOf(std::string(AnyP::Uri::Asterisk().rawContent(), AnyP::Uri::Asterisk().length())) << ".\n";
    std::cout << "Definition uri_slash_path : bytes := " << bytesOf(std::string(AnyP::Uri::SlashPath().rawContent(), AnyP::Uri::SlashPath().length())) << ".\n";
    return 0;
}
