(* RockrebuildModel.v — executable model of the rock cache_dir index rebuild:
   src/fs/rock/RockRebuild.cc (loadOneSlot, useNewSlot, startNewEntry, primeNewEntry, addSlotToEntry,
   chainSlots, mapSlot, importEntry, finalizeOrThrow, finalizeOrFree, freeBadEntry, freeSlot,
   freeUnusedSlot, validateOneEntry, validateOneSlot, loadingSlot), src/fs/rock/RockDbCell.h
   (DbCellHeader::empty, ::sane), src/store_rebuild.cc (storeRebuildParseEntry, size checks), and the
   parts of Ipc::StoreMap (openForWritingAt, forgetWritingEntry, closeForWriting, freeEntry, freeChain,
   freeChainAt, importSlice, fileNoByKey, Anchor::setKey/set/sameKey/empty/rewind) and of
   Ipc::Mem::PageStack (push with its "new entry" assertion) that the rebuild drives.

   Input: the db image as a list of slots (what the first SM_PAGE_SIZE bytes of every slot say).
   Integers are Z; the only 64-bit wrap that can matter (expectedSize - swap_hdr_len in
   storeRebuildParseEntry, slotSize - sizeof(DbCellHeader) in sane()) is explicit.
   Failed assert()s (squid aborts) are [Abort], exceptions thrown by Must() are [Thrown] (caught only by
   finalizeOrFree, as in the code: Rebuild::callException rethrows, so an escaping one kills squid).
   Loops that follow links stored in the image run on fuel; running out is the distinct result [NoFuel]
   which RockrebuildProofs.v proves impossible. *)
Require Import SquidV.Bytes.
Require Import SquidV.gen.RockRebuild_gen.
Local Open Scope Z_scope.

Definition two64 : Z := rr_entry_size_max + 1.
Definition u64 (x : Z) : Z := x mod two64.

(* ---------- the image ---------- *)
Record hdr := mkHdr { h_k0 : Z; h_k1 : Z; h_esz : Z; h_psz : Z; h_ver : Z; h_first : Z; h_next : Z }.

(* what Store::UnpackIndexSwapMeta / ZeroedSlot see in the bytes after the cell header *)
Inductive meta :=
| MZero                                   (* ten zero bytes: ZeroedSlot() *)
| MBad                                    (* UnpackIndexSwapMeta throws *)
| MOk (haskey : bool) (mk0 mk1 : Z) (ssz : Z) (priv : bool) (hdrlen : Z).
      (* well-formed prefix: STORE_META_KEY_MD5 present?, its key, STD_LFS swap_file_sz, KEY_PRIVATE, swap_hdr_sz *)

Inductive dslot :=
| DTrunc                                  (* fewer than sizeof(DbCellHeader) bytes could be read *)
| DHdr (h : hdr) (m : meta).

(* ---------- rebuild + map state ---------- *)
Inductive lestate := LeEmpty | LeLoading | LeLoaded | LeCorrupted | LeIgnored.

(* per fileno: LoadingEntry (state, anchored, size, version) and the StoreMap anchor *)
Record entry := mkEntry {
  e_state : lestate; e_anch : bool; e_size : Z; e_ver : Z;
  a_writing : bool; a_wtbf : bool; a_k0 : Z; a_k1 : Z; a_start : Z; a_swapsz : Z; a_valid : bool }.

(* per slot id: LoadingSlot (more, mapped, finalized, freed) and the StoreMap slice *)
Record sl := mkSl { s_more : Z; s_mapped : bool; s_final : bool; s_freed : bool; s_size : Z; s_next : Z }.

Record st := mkSt {
  ents : Z -> entry; sls : Z -> sl;
  free : list Z;            (* SwapDir::freeSlots (a set; push asserts the id is new) *)
  acount : Z;               (* anchors->count *)
  c_scan : Z; c_obj : Z; c_invalid : Z; c_clash : Z; c_dup : Z; c_badflags : Z; c_valid : Z }.

Definition entry0 : entry := mkEntry LeEmpty false 0 0 false false 0 0 0 0 false.
Definition sl0 : sl := mkSl (-1) false false false 0 (-1).
Definition st0 : st := mkSt (fun _ => entry0) (fun _ => sl0) [] 0 0 0 0 0 0 0 0.

Definition upd {A} (f : Z -> A) (k : Z) (v : A) : Z -> A := fun x => if x =? k then v else f x.

Definition set_ent (s : st) (f : Z) (e : entry) : st :=
  mkSt (upd (ents s) f e) (sls s) (free s) (acount s) (c_scan s) (c_obj s) (c_invalid s) (c_clash s) (c_dup s) (c_badflags s) (c_valid s).
Definition set_sl (s : st) (i : Z) (x : sl) : st :=
  mkSt (ents s) (upd (sls s) i x) (free s) (acount s) (c_scan s) (c_obj s) (c_invalid s) (c_clash s) (c_dup s) (c_badflags s) (c_valid s).
Definition set_free (s : st) (l : list Z) : st :=
  mkSt (ents s) (sls s) l (acount s) (c_scan s) (c_obj s) (c_invalid s) (c_clash s) (c_dup s) (c_badflags s) (c_valid s).
Definition set_acount (s : st) (n : Z) : st :=
  mkSt (ents s) (sls s) (free s) n (c_scan s) (c_obj s) (c_invalid s) (c_clash s) (c_dup s) (c_badflags s) (c_valid s).
Definition inc_scan (s : st) : st :=
  mkSt (ents s) (sls s) (free s) (acount s) (c_scan s + 1) (c_obj s) (c_invalid s) (c_clash s) (c_dup s) (c_badflags s) (c_valid s).
Definition inc_obj (s : st) : st :=
  mkSt (ents s) (sls s) (free s) (acount s) (c_scan s) (c_obj s + 1) (c_invalid s) (c_clash s) (c_dup s) (c_badflags s) (c_valid s).
Definition inc_invalid (s : st) : st :=
  mkSt (ents s) (sls s) (free s) (acount s) (c_scan s) (c_obj s) (c_invalid s + 1) (c_clash s) (c_dup s) (c_badflags s) (c_valid s).
Definition inc_clash (s : st) : st :=
  mkSt (ents s) (sls s) (free s) (acount s) (c_scan s) (c_obj s) (c_invalid s) (c_clash s + 1) (c_dup s) (c_badflags s) (c_valid s).
Definition inc_dup (s : st) : st :=
  mkSt (ents s) (sls s) (free s) (acount s) (c_scan s) (c_obj s) (c_invalid s) (c_clash s) (c_dup s + 1) (c_badflags s) (c_valid s).
Definition inc_badflags (s : st) : st :=
  mkSt (ents s) (sls s) (free s) (acount s) (c_scan s) (c_obj s) (c_invalid s) (c_clash s) (c_dup s) (c_badflags s + 1) (c_valid s).
Definition inc_valid (s : st) : st :=
  mkSt (ents s) (sls s) (free s) (acount s) (c_scan s) (c_obj s) (c_invalid s) (c_clash s) (c_dup s) (c_badflags s) (c_valid s + 1).

(* entry field setters *)
Definition e_set_state (e : entry) (v : lestate) : entry :=
  mkEntry v (e_anch e) (e_size e) (e_ver e) (a_writing e) (a_wtbf e) (a_k0 e) (a_k1 e) (a_start e) (a_swapsz e) (a_valid e).
Definition e_set_anch (e : entry) (v : bool) : entry :=
  mkEntry (e_state e) v (e_size e) (e_ver e) (a_writing e) (a_wtbf e) (a_k0 e) (a_k1 e) (a_start e) (a_swapsz e) (a_valid e).
Definition e_set_size (e : entry) (v : Z) : entry :=
  mkEntry (e_state e) (e_anch e) v (e_ver e) (a_writing e) (a_wtbf e) (a_k0 e) (a_k1 e) (a_start e) (a_swapsz e) (a_valid e).
Definition e_set_ver (e : entry) (v : Z) : entry :=
  mkEntry (e_state e) (e_anch e) (e_size e) v (a_writing e) (a_wtbf e) (a_k0 e) (a_k1 e) (a_start e) (a_swapsz e) (a_valid e).
Definition e_set_writing (e : entry) (v : bool) : entry :=
  mkEntry (e_state e) (e_anch e) (e_size e) (e_ver e) v (a_wtbf e) (a_k0 e) (a_k1 e) (a_start e) (a_swapsz e) (a_valid e).
Definition e_set_wtbf (e : entry) (v : bool) : entry :=
  mkEntry (e_state e) (e_anch e) (e_size e) (e_ver e) (a_writing e) v (a_k0 e) (a_k1 e) (a_start e) (a_swapsz e) (a_valid e).
Definition e_set_key (e : entry) (k0 k1 : Z) : entry :=
  mkEntry (e_state e) (e_anch e) (e_size e) (e_ver e) (a_writing e) (a_wtbf e) k0 k1 (a_start e) (a_swapsz e) (a_valid e).
Definition e_set_start (e : entry) (v : Z) : entry :=
  mkEntry (e_state e) (e_anch e) (e_size e) (e_ver e) (a_writing e) (a_wtbf e) (a_k0 e) (a_k1 e) v (a_swapsz e) (a_valid e).
Definition e_set_swapsz (e : entry) (v : Z) : entry :=
  mkEntry (e_state e) (e_anch e) (e_size e) (e_ver e) (a_writing e) (a_wtbf e) (a_k0 e) (a_k1 e) (a_start e) v (a_valid e).
Definition e_set_valid (e : entry) (v : bool) : entry :=
  mkEntry (e_state e) (e_anch e) (e_size e) (e_ver e) (a_writing e) (a_wtbf e) (a_k0 e) (a_k1 e) (a_start e) (a_swapsz e) v.

(* slot field setters *)
Definition s_set_more (x : sl) (v : Z) : sl := mkSl v (s_mapped x) (s_final x) (s_freed x) (s_size x) (s_next x).
Definition s_set_mapped (x : sl) (v : bool) : sl := mkSl (s_more x) v (s_final x) (s_freed x) (s_size x) (s_next x).
Definition s_set_final (x : sl) (v : bool) : sl := mkSl (s_more x) (s_mapped x) v (s_freed x) (s_size x) (s_next x).
Definition s_set_freed (x : sl) (v : bool) : sl := mkSl (s_more x) (s_mapped x) (s_final x) v (s_size x) (s_next x).
Definition s_set_slice (x : sl) (sz nx : Z) : sl := mkSl (s_more x) (s_mapped x) (s_final x) (s_freed x) sz nx.

(* outcome of a piece of the job *)
Inductive res :=
| Ok (s : st)
| Thrown (s : st)     (* a Must() failed: TextException, state as left behind *)
| Abort               (* an assert() failed *)
| NoFuel.             (* model artefact; proved unreachable *)

Definition bind (r : res) (k : st -> res) : res :=
  match r with Ok s => k s | other => other end.

(* ---------- DbCellHeader ---------- *)
Definition hdr_empty (h : hdr) : bool := (h_first h =? 0) && (h_next h =? 0) && (h_psz h =? 0).

(* sane(slotSize, slotLimit); slotSize - sizeof(DbCellHeader) is size_t arithmetic *)
Definition hdr_sane (slotSize N : Z) (h : hdr) : bool :=
  (0 <=? h_first h) && (h_first h <? N) &&
  (-1 <=? h_next h) && (h_next h <? N) &&
  (0 <? h_ver h) &&
  (0 <? h_psz h) && (h_psz h <=? u64 (slotSize - rr_cell_header_size)).

(* Ipc::StoreMap::fileNoByKey: (k[0] + k[1]) % entryLimit, the sum wrapping at 2^64 *)
Definition fileno_of (N : Z) (k0 k1 : Z) : Z := (u64 (k0 + k1)) mod N.

Definition a_empty (e : entry) : bool := (a_k0 e =? 0) && (a_k1 e =? 0).

(* Anchor::rewind() *)
Definition rewind (e : entry) : entry :=
  mkEntry (e_state e) (e_anch e) (e_size e) (e_ver e) (a_writing e) false 0 0 0 0 false.

Fixpoint memZ (x : Z) (l : list Z) : bool :=
  match l with [] => false | y :: r => (x =? y) || memZ x r end.

(* ---------- Rebuild helpers ---------- *)
(* loadingSlot(): Must(0 <= slotId && slotId < dbSlotLimit); Must(slotId <= loadingPos) *)
Definition ls_ok (N pos i : Z) : bool := (0 <=? i) && (i <? N) && (i <=? pos).

(* PageStack::push via IdSet::leafPush: assert((oldValue & mask) == 0) *)
Definition push_free (i : Z) (s : st) : res :=
  if memZ i (free s) then Abort else Ok (set_free s (i :: free s)).

(* freeSlot(slotId, invalid) *)
Definition free_slot (N pos : Z) (invalid : bool) (i : Z) (s : st) : res :=
  if negb (ls_ok N pos i) then Thrown s else
  let x := sls s i in
  if s_freed x then Abort else
  let s1 := set_sl s i (s_set_freed x true) in
  let s2 := if invalid then inc_invalid s1 else s1 in
  push_free i s2.

(* freeUnusedSlot(slotId, invalid) *)
Definition free_unused_slot (N pos : Z) (invalid : bool) (i : Z) (s : st) : res :=
  if negb (ls_ok N pos i) then Thrown s else
  if s_mapped (sls s i) then Abort else
  free_slot N pos invalid i s.

(* mapSlot(slotId, header) + StoreMap::importSlice *)
Definition map_slot (N pos i : Z) (h : hdr) (s : st) : res :=
  if negb (ls_ok N pos i) then Thrown s else
  let x := sls s i in
  if s_mapped x then Abort else
  if s_freed x then Abort else
  Ok (set_sl s i (s_set_slice (s_set_mapped x true) (h_psz h) (h_next h))).

(* freeBadEntry(): walk the [more] links from anchor.start, freeing every slot *)
Fixpoint free_more_chain (N pos : Z) (fuel : nat) (i : Z) (s : st) : res :=
  if i <? 0 then Ok s else
  match fuel with
  | O => NoFuel
  | S k =>
    if negb (ls_ok N pos i) then Thrown s else
    let nxt := s_more (sls s i) in
    bind (free_slot N pos true i s) (free_more_chain N pos k nxt)
  end.

Definition fuel_of (N : Z) : nat := S (Z.to_nat N).

(* StoreMap::forgetWritingEntry *)
Definition forget_writing (f : Z) (s : st) : res :=
  let e := ents s f in
  if negb (a_writing e) then Abort else
  Ok (set_acount (set_ent s f (e_set_writing (rewind e) false)) (acount s - 1)).

Definition free_bad_entry (N pos f : Z) (s : st) : res :=
  let s1 := set_ent s f (e_set_state (ents s f) LeCorrupted) in
  let e := ents s1 f in
  if negb (a_writing e) then Abort else
  if negb ((a_start e <? 0) || (0 <? e_size e)) then Abort else
  bind (free_more_chain N pos (fuel_of N) (a_start e) s1) (forget_writing f).

(* finalizeOrThrow(): the walk over map-linked slots *)
Inductive wres :=
| WOk (s : st) (slotId : Z) (mapped : Z)
| WThrown (s : st)
| WAbort
| WNoFuel.

Fixpoint fin_walk (N pos f : Z) (lesz : Z) (fuel : nat) (i msz : Z) (s : st) : wres :=
  if (0 <=? i) && (msz <? lesz) then
    match fuel with
    | O => WNoFuel
    | S k =>
      if negb (ls_ok N pos i) then WThrown s else
      let x := sls s i in
      if s_final x then WThrown s else
      if negb (s_mapped x) then WThrown s else
      if s_freed x then WThrown s else
      let s1 := set_sl s i (s_set_final x true) in
      if negb (a_writing (ents s1 f)) then WAbort else      (* writeableSlice(): assert(writing()) *)
      if negb (0 <? s_size x) then WThrown s1 else
      fin_walk N pos f lesz k (s_next x) (msz + s_size x) s1
    end
  else WOk s i msz.

Definition finalize_or_throw (N pos f : Z) (s : st) : res :=
  let e := ents s f in
  if negb (a_writing e) then Abort else                     (* writeableEntry() *)
  if negb (0 <? e_size e) then Thrown s else
  if negb (e_anch e) then Thrown s else                     (* Must(le.anchored()) *)
  match fin_walk N pos f (e_size e) (fuel_of N) (a_start e) 0 s with
  | WNoFuel => NoFuel
  | WAbort => Abort
  | WThrown s1 => Thrown s1
  | WOk s1 i msz =>
    if negb (i <? 0) then Thrown s1 else
    if negb (msz =? e_size e) then Thrown s1 else
    let e1 := ents s1 f in
    (* Must(!anchor.basics.swap_file_sz || anchor.basics.swap_file_sz == le.size) *)
    if negb ((a_swapsz e1 =? 0) || (a_swapsz e1 =? e_size e1)) then Thrown s1 else
    let e2 := if a_swapsz e1 =? 0 then e_set_swapsz e1 (e_size e1) else e1 in
    let e3 := e_set_state (e_set_valid e2 true) LeLoaded in
    if negb (a_writing e3) then Abort else                  (* closeForWriting() *)
    Ok (inc_obj (set_ent s1 f (e_set_writing e3 false)))
  end.

Definition finalize_or_free (N pos f : Z) (s : st) : res :=
  match finalize_or_throw N pos f s with
  | Thrown s1 => free_bad_entry N pos f s1
  | r => r
  end.

(* importEntry() + storeRebuildParseEntry(): Some (updated anchor, badflags bump) or None *)
Inductive imp := ImpFail (badflags : bool) | ImpOk (e : entry).

Definition import_entry (h : hdr) (m : meta) (e : entry) : imp :=
  let known := if 0 <? h_esz h then h_esz h else a_swapsz e in
  match m with
  | MZero => ImpFail false
  | MBad => ImpFail false
  | MOk haskey mk0 mk1 ssz priv hdrlen =>
    if negb haskey then ImpFail false else
    let sized :=
      if 0 <? known then
        if ssz =? 0 then Some known
        else if ssz =? u64 (known - hdrlen) then Some known
        else if negb (ssz =? known) then None
        else Some ssz
      else Some ssz in
    match sized with
    | None => ImpFail false
    | Some z =>
      if priv then ImpFail true else
      if z =? rr_entry_size_max then ImpFail false else     (* importEntry(): all-ones size is corruption *)
      (* anchor.set(loadedE): the key comes from the swap metadata; then EBIT_CLR(ENTRY_VALIDATED) *)
      ImpOk (e_set_valid (e_set_swapsz (e_set_wtbf (e_set_key e mk0 mk1) false) z) false)
    end
  end.

(* the tail of addSlotToEntry() after the inode handling *)
Definition add_tail (N pos f i : Z) (h : hdr) (s : st) : res :=
  let e := ents s f in
  let total := a_swapsz e in
  if (0 <? total) && (total <? e_size e) then free_bad_entry N pos f s else
  bind (map_slot N pos i h s) (fun s1 =>
    if (0 <? total) && (e_size (ents s1 f) =? total) then finalize_or_free N pos f s1 else Ok s1).

(* addSlotToEntry(fileno, slotId, header) *)
Definition add_slot_to_entry (N pos f i : Z) (h : hdr) (m : meta) (s : st) : res :=
  let e := ents s f in
  if negb (a_writing e) then Abort else                     (* writeableEntry() *)
  (* chainSlots() *)
  let chained :=
    if e_anch e then
      let ino := a_start e in
      if negb (ls_ok N pos ino) then Thrown s else
      if negb (ls_ok N pos i) then Thrown s else
      if negb (s_more (sls s i) <? 0) then Abort else
      let from := s_more (sls s ino) in
      let s1 := set_sl s i (s_set_more (sls s i) from) in
      Ok (set_sl s1 ino (s_set_more (sls s1 ino) i))
    else
      if negb (ls_ok N pos i) then Thrown s else
      if negb (s_more (sls s i) <? 0) then Abort else
      let s1 := set_sl s i (s_set_more (sls s i) (a_start e)) in
      Ok (set_ent s1 f (e_set_start (ents s1 f) i)) in
  bind chained (fun s2 =>
    let e2 := ents s2 f in
    let s3 := set_ent s2 f (e_set_size e2 (e_size e2 + h_psz h)) in
    if h_first h =? i then
      if e_anch (ents s3 f) then
        bind (free_bad_entry N pos f s3) (fun s4 => Ok (inc_clash s4))
      else
        let s4 := set_ent s3 f (e_set_anch (ents s3 f) true) in
        match import_entry h m (ents s4 f) with
        | ImpFail bf => free_bad_entry N pos f (if bf then inc_badflags s4 else s4)
        | ImpOk e5 =>
          let s5 := set_ent s4 f e5 in
          if negb (h_esz h =? 0) then
            if h_esz h =? rr_entry_size_max then free_bad_entry N pos f s5 else  (* "bad entry size" *)
            if a_swapsz e5 =? 0 then add_tail N pos f i h (set_ent s5 f (e_set_swapsz e5 (h_esz h)))
            else if negb (h_esz h =? a_swapsz e5) then free_bad_entry N pos f s5
            else add_tail N pos f i h s5
          else add_tail N pos f i h s5
        end
    else add_tail N pos f i h s3).

(* StoreMap::freeChainAt (splicingPoint is -1 during a rebuild) with SwapDir::noteFreeMapSlice *)
Fixpoint free_chain_at (N : Z) (fuel : nat) (i : Z) (s : st) : res :=
  if i <? 0 then Ok s else
  match fuel with
  | O => NoFuel
  | S k =>
    if negb ((0 <=? i) && (i <? N)) then Abort else         (* sliceAt(): assert(validSlice()) *)
    let x := sls s i in
    let nxt := s_next x in
    let s1 := set_sl s i (s_set_slice x 0 (-1)) in
    bind (push_free i s1) (free_chain_at N k nxt)
  end.

(* StoreMap::freeChain(fileno, inode, keepLocked) for an exclusively locked anchor *)
Definition free_chain (N f : Z) (keepLocked : bool) (s : st) : res :=
  let e := ents s f in
  bind (if a_empty e then Ok s else free_chain_at N (fuel_of N) (a_start e) s) (fun s1 =>
    let e1 := rewind (ents s1 f) in
    let e2 := if keepLocked then e1 else e_set_writing e1 false in
    Ok (set_acount (set_ent s1 f e2) (acount s1 - 1))).

(* StoreMap::freeEntry(fileno) *)
Definition free_entry (N f : Z) (s : st) : res :=
  let e := ents s f in
  if a_writing e then Ok (set_ent s f (e_set_wtbf e true))   (* lockExclusive() fails: mark for later *)
  else free_chain N f false (set_ent s f (e_set_writing e true)).

(* startNewEntry(): StoreMap::openForWritingAt(fileno, false), primeNewEntry(), addSlotToEntry() *)
Definition start_new_entry (N pos f i : Z) (h : hdr) (m : meta) (s : st) : res :=
  let e := ents s f in
  let ignored (s0 : st) :=
    free_unused_slot N pos false i (set_ent s0 f (e_set_state (ents s0 f) LeIgnored)) in
  if a_writing e then ignored s else                         (* busy *)
  if negb (a_wtbf e) && negb (a_empty e) then ignored s else  (* cannot empty this position *)
  bind (if a_wtbf e || negb (a_empty e)
        then free_chain N f true (set_ent s f (e_set_writing e true))
        else Ok (set_ent s f (e_set_writing e true))) (fun s1 =>
    let e1 := ents s1 f in
    if negb (a_empty e1) then Abort else
    let s2 := set_acount (set_ent s1 f (e_set_start e1 (-1))) (acount s1 + 1) in
    (* primeNewEntry() *)
    let e2 := e_set_start (e_set_wtbf (e_set_key (ents s2 f) (h_k0 h) (h_k1 h)) false) (-1) in
    if a_swapsz e2 =? rr_entry_size_max then Abort else
    let e3 := e_set_size (e_set_ver (e_set_state e2 LeLoading) (h_ver h)) 0 in
    bind (add_slot_to_entry N pos f i h m (set_ent s2 f e3)) (fun s3 =>
      if a_swapsz (ents s3 f) =? rr_entry_size_max then Abort else Ok s3)).

(* useNewSlot(slotId, header) *)
Definition use_new_slot (N pos i : Z) (h : hdr) (m : meta) (s : st) : res :=
  let f := fileno_of N (h_k0 h) (h_k1 h) in
  if negb ((0 <=? f) && (f <? N)) then Abort else
  let e := ents s f in
  match e_state e with
  | LeEmpty => start_new_entry N pos f i h m s
  | LeLoading =>
    if negb (a_writing e) then Abort else                    (* sameEntry(): writeableEntry() *)
    if (h_k0 h =? a_k0 e) && (h_k1 h =? a_k1 e) then add_slot_to_entry N pos f i h m s
    else
      bind (free_bad_entry N pos f s) (fun s1 =>
      bind (free_unused_slot N pos true i s1) (fun s2 => Ok (inc_dup s2)))
  | LeLoaded =>
    bind (free_entry N f (set_ent s f (e_set_state e LeCorrupted))) (fun s1 =>
    bind (free_unused_slot N pos true i s1) (fun s2 => Ok (inc_dup s2)))
  | LeCorrupted => free_unused_slot N pos true i s
  | LeIgnored => free_unused_slot N pos false i s
  end.

(* loadOneSlot() for slot [pos] *)
Definition load_one_slot (slotSize N pos : Z) (d : dslot) (s : st) : res :=
  let s1 := inc_scan s in
  match d with
  | DTrunc => free_unused_slot N pos true pos s1
  | DHdr h m =>
    if hdr_empty h then free_unused_slot N pos false pos s1
    else if negb (hdr_sane slotSize N h) then free_unused_slot N pos true pos s1
    else use_new_slot N pos pos h m s1
  end.

Fixpoint load_all (slotSize N pos : Z) (img : list dslot) (s : st) : res :=
  match img with
  | [] => Ok s
  | d :: r => bind (load_one_slot slotSize N pos d s) (load_all slotSize N (pos + 1) r)
  end.

(* validateOneEntry(fileNo); loadingPos = N by now *)
Definition validate_one_entry (N f : Z) (s : st) : res :=
  let s1 := inc_valid s in
  match e_state (ents s1 f) with
  | LeLoading => finalize_or_free N N f s1
  | _ => Ok s1
  end.

(* validateOneSlot(slotId), only with squid -S *)
Definition validate_one_slot (N i : Z) (s : st) : res :=
  let s1 := inc_valid s in
  if negb (ls_ok N N i) then Thrown s1 else
  let x := sls s1 i in
  if s_freed x || (s_mapped x && s_final x) then Ok s1 else Thrown s1.

Fixpoint for_range (n : nat) (k : Z) (step : Z -> st -> res) (s : st) : res :=
  match n with
  | O => Ok s
  | S n' => bind (step k s) (for_range n' (k + 1) step)
  end.

(* the whole job over an image of N slots *)
Definition rebuild (slotSize : Z) (doublecheck : bool) (img : list dslot) : res :=
  let N := Z.of_nat (length img) in
  bind (load_all slotSize N 0 img st0) (fun s1 =>
  bind (for_range (length img) 0 (validate_one_entry N) s1) (fun s2 =>
    if doublecheck then for_range (length img) 0 (validate_one_slot N) s2 else Ok s2)).

(* ---------- observation (what the harness prints) ---------- *)
Definition lestate_code (x : lestate) : Z :=
  match x with LeEmpty => 0 | LeLoading => 1 | LeLoaded => 2 | LeCorrupted => 3 | LeIgnored => 4 end.

Definition entry_touched (e : entry) : bool :=
  negb (lestate_code (e_state e) =? 0) || e_anch e || negb (e_size e =? 0) || negb (e_ver e =? 0) ||
  a_writing e || a_wtbf e || negb (a_k0 e =? 0) || negb (a_k1 e =? 0) || negb (a_start e =? 0) ||
  negb (a_swapsz e =? 0) || a_valid e.

Definition sl_touched (x : sl) : bool :=
  negb (s_more x =? -1) || s_mapped x || s_final x || s_freed x || negb (s_size x =? 0) || negb (s_next x =? -1).
