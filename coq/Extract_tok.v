(* Extract.v — extraction of the executable models to OCaml.
   Only ExtrOcamlBasic is used: bool, option, unit, list, prod, sumbool, sumor
   map to their OCaml counterparts and andb/orb are inlined; N, Z, positive and
   nat stay the extracted Coq datatypes. *)
Require Import ExtrOcamlBasic.
Require Import SquidV.Bytes SquidV.CharSetModel SquidV.TokModel.
Extraction "m_tok.ml"
  mem_tbl lenN takeN dropN
  cs_mem cs_plus cs_minus cs_complement cs_add cs_remove cs_addRange cs_of_string empty_storage
  tok_prefix tok_suffix tok_skipAll tok_skipOne tok_skipChar tok_skip tok_skipSuffix
  tok_skipOneTrailing tok_skipAllTrailing tok_token tok_int64 ref_int64 parse_offset parse_int.
