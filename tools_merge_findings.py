#!/usr/bin/env python3
"""Folds known_findings.d/*.json (per-property staging files written while a check is being built)
into known_findings.json, the committed known-findings file. 'known' entries are replaced wholesale by
what the staging files say for the properties that have a staging file; 'fixed' entries are kept."""
import json, os
here = os.path.dirname(os.path.abspath(__file__))
main = json.load(open(os.path.join(here, "known_findings.json")))
d = os.path.join(here, "known_findings.d")
staged = []
props = set()
for fn in sorted(os.listdir(d)):
    if fn.endswith(".json"):
        ents = json.load(open(os.path.join(d, fn)))
        props.add(fn[:-5])
        staged.extend(ents)
out = [e for e in main if e.get("status") == "fixed"]   # staging files are the single source of known entries
ids = set(e["id"] for e in out)
for e in staged:
    if e["id"] not in ids:
        out.append(e); ids.add(e["id"])
json.dump(out, open(os.path.join(here, "known_findings.json"), "w"), indent=1)
print("known:", sum(1 for e in out if e.get("status") == "known"), "fixed:", sum(1 for e in out if e.get("status") == "fixed"))
