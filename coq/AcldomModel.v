(* AcldomModel.v — dstdomain-style ACL data as the code has it:
     src/anyp/Uri.cc         matchDomainName() (default flags, mdnNone)
     src/acl/DomainData.cc   aclHostDomainCompare, ACLDomainData::match/parse,
                             Acl::SplayInserter<char*>::Compare / IsSubset / MakeCombinedValue
     src/acl/SplayInserter.h Acl::SplayInserter<>::Merge
     include/splay.h         via SplayModel.v
   C strings are byte lists without NUL. Executable definitions only. *)
Require Import SquidV.Bytes SquidV.SplayModel.
Require Import SquidV.gen.AclDom_gen.
Local Open Scope N_scope.

Definition dot : N := 46.

(* xtolower(): the per-byte map regenerated from the code on every run *)
Definition lower (c : N) : N := if c <? 256 then tbl_get c xtolower_tbl c else c.

(* Tolower(): lower-cases a C string in place *)
Definition lower_str (s : bytes) : bytes := map lower s.

(* while ('.' == *h) ++h; *)
Fixpoint strip_dots (h : bytes) : bytes :=
  match h with
  | c :: r => if c =? dot then strip_dots r else h
  | [] => []
  end.

Local Open Scope Z_scope.

(* The comparison loop of matchDomainName(), walking both strings from their
   ends: [rh], [rd] are the not yet compared parts of h and d, reversed (so
   their heads are h[hl-1], d[dl-1]); [fd] is ('.' == d[0]).
     while (xtolower(h[--hl]) == xtolower(d[--dl])) {
         if (hl == 0 && dl == 0) return 0;
         if (0 == hl) return (1 == dl && '.' == d[0]) ? 0 : -1;
         if (0 == dl) return ('.' == d[0]) ? 0 : 1;
     }
     if ('.' == d[dl]) return 1;
     if ('.' == h[hl]) return -1;
     return xtolower(h[hl]) - xtolower(d[dl]);                                   *)
Fixpoint mdn_loop (fd : bool) (rh rd : bytes) : Z :=
  match rh, rd with
  | x :: rh', y :: rd' =>
      if (lower x =? lower y)%N then
        match rh', rd' with
        | [], [] => 0
        | [], _ :: _ => if (lenN rd' =? 1)%N && fd then 0 else -1
        | _ :: _, [] => if fd then 0 else 1
        | _ :: _, _ :: _ => mdn_loop fd rh' rd'
        end
      else if (y =? dot)%N then 1
      else if (x =? dot)%N then -1
      else Z.of_N (lower x) - Z.of_N (lower y)
  | _, _ => 0        (* never reached: both strings are non-empty on entry *)
  end.

Definition first_is_dot (a : bytes) : bool :=
  match a with c :: _ => (c =? dot)%N | [] => false end.

(* matchDomainName(h, d, mdnNone) *)
Definition matchDomainName (h d : bytes) : Z :=
  match strip_dots h with
  | [] => -1                                       (* hl == 0 *)
  | (_ :: _) as h' =>
      match d with
      | [] => 1                                    (* dl == 0 *)
      | _ :: _ => mdn_loop (first_is_dot d) (rev h') (rev d)
      end
  end.

(* aclHostDomainCompare(host, stored value) as used by ACLDomainData::match *)
Definition host_cmp (host : bytes) : bytes -> Z := matchDomainName host.

(* Acl::SplayInserter<char*>::Compare(a, b) *)
Definition dcompare (a b : bytes) : Z :=
  if matchDomainName b a =? 0 then 0 else matchDomainName a b.

(* Acl::SplayInserter<char*>::IsSubset(a, b) *)
Definition is_subset (a b : bytes) : bool :=
  if first_is_dot a && first_is_dot b then (lenN b <=? lenN a)%N
  else if negb (first_is_dot a) && negb (first_is_dot b) then true
  else first_is_dot b.

(* Outcome of Merge() / parse(). *)
Inductive merge_out : Type :=
| MOk (t : tree bytes) (elements : Z)
| MAssure      (* MakeCombinedValue(): Assure(!"domain name sets cannot partially overlap") throws *)
| MDangling    (* storage.remove(oldItem) found nothing, yet DestroyValue(oldItem) frees the string
                  the tree still points to: behaviour undefined from here on *)
| MFuel.       (* loop bound of the model exhausted *)

(* Acl::SplayInserter<char*>::Merge(storage, newItem); one unit of fuel per loop iteration *)
Fixpoint merge (fuel : nat) (t : tree bytes) (n : Z) (v : bytes) : merge_out :=
  match fuel with
  | O => MFuel
  | S f =>
      match sp_insert (dcompare v) v t with
      | (t', None) => MOk t' (n + 1)                  (* inserted: ++elements *)
      | (t', Some old) =>
          if is_subset v old then MOk t' n            (* newItem ignored *)
          else if is_subset old v then
            match sp_remove (dcompare old) t' with
            | (t'', true) => merge f t'' (n - 1) v    (* continue *)
            | (_, false) => MDangling
            end
          else MAssure
      end
  end.

(* every iteration but the last removes a node *)
Definition merge_fuel (t : tree bytes) : nat := S (tree_size t).

(* while (t[0] == '.' && t[1] == '.') ++t;   -- redundant leading dots are skipped *)
Fixpoint collapse_dots (t : bytes) : bytes :=
  match t with
  | c :: ((c2 :: _) as r) => if ((c =? dot) && (c2 =? dot))%N then collapse_dots r else t
  | _ => t
  end.

(* ACLDomainData::parse():
     while (t = strtokFile()) { Tolower(t); while (t[0] == '.' && t[1] == '.') ++t; Merge(domains, xstrdup(t)); } *)
Fixpoint acl_parse_from (t : tree bytes) (n : Z) (tokens : list bytes) : merge_out :=
  match tokens with
  | [] => MOk t n
  | tok :: rest =>
      match merge (merge_fuel t) t n (collapse_dots (lower_str tok)) with
      | MOk t' n' => acl_parse_from t' n' rest
      | bad => bad
      end
  end.

Definition acl_parse (tokens : list bytes) : merge_out := acl_parse_from Leaf 0 tokens.

(* ACLDomainData::match(host): domains.find(host, aclHostDomainCompare) != nullptr; the lookup re-shapes the tree *)
Definition acl_match (t : tree bytes) (host : bytes) : tree bytes * bool :=
  let '(t', r) := sp_find (host_cmp host) t in
  (t', match r with Some _ => true | None => false end).

Fixpoint acl_match_seq (t : tree bytes) (hosts : list bytes) : tree bytes * list bool :=
  match hosts with
  | [] => (t, [])
  | h :: rest =>
      let '(t1, b) := acl_match t h in
      let '(t2, bs) := acl_match_seq t1 rest in
      (t2, b :: bs)
  end.

(* A second client of the shared splay model, used only by the correspondence
   run: Splay<int> with compare(a, b) = a - b. *)
Inductive int_op : Type := IIns (k : Z) | IRem (k : Z) | IFind (k : Z).

Definition int_cmp (k : Z) : Z -> Z := fun b => k - b.

Fixpoint int_run (ops : list int_op) (t : tree Z) (n : Z) : list bool * Z * tree Z :=
  match ops with
  | [] => ([], n, t)
  | op :: rest =>
      let '(t', n', b) :=
        match op with
        | IIns k => match sp_insert (int_cmp k) k t with
                    | (t', Some _) => (t', n, true)
                    | (t', None) => (t', n + 1, false)
                    end
        | IRem k => match sp_remove (int_cmp k) t with
                    | (t', true) => (t', n - 1, true)
                    | (t', false) => (t', n, false)
                    end
        | IFind k => match sp_find (int_cmp k) t with
                     | (t', Some _) => (t', n, true)
                     | (t', None) => (t', n, false)
                     end
        end in
      let '(bs, n2, t2) := int_run rest t' n' in
      (b :: bs, n2, t2)
  end.
