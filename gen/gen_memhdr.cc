// Table generator for the memhdr area (C49): constants of src/mem_node.h / src/defines.h
// as the code defines them *now*. Prints Coq source; "@@FILE <name>" starts a file.
#include "squid.h"
#include "defines.h"
#include "mem_node.h"
#include <iostream>
#include <type_traits>

int main() {
    std::cout << "@@FILE Memhdr_gen.v\n";
    std::cout << "(* generated from /repo by gen/gen_memhdr.cc -- do not edit *)\n"
              "Require Import SquidV.Bytes.\n";
    // SM_PAGE_SIZE: capacity of mem_node::data; mem_node::space() = SM_PAGE_SIZE - nodeBuffer.length
    std::cout << "Definition sm_page_size : N := " << static_cast<unsigned long long>(SM_PAGE_SIZE) << "%N.\n";
    // the array the bytes are stored in must have exactly that capacity
    std::cout << "Definition mem_node_data_capacity : N := "
              << static_cast<unsigned long long>(sizeof(static_cast<mem_node *>(nullptr)->data)) << "%N.\n";
    return 0;
}
