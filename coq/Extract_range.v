(* Extract_range.v — extraction of the C28 model (ExtrOcamlBasic only). *)
Require Import ExtrOcamlBasic.
Require Import SquidV.Bytes SquidV.RangeModel.
Extraction "m_range.ml" range_run range_parse range_canonize spec_parse spec_canonize.
