(* handlers for the cc area (C29: HttpHdrCc::parse / packInto, httpHeaderParseQuotedString) *)
let fmt_cc st =
  "r=" ^ b2s (cc_ok st) ^ " m=" ^ string_of_n (cmask st) ^ " ma=" ^ string_of_z (max_age st) ^
  " sm=" ^ string_of_z (s_maxage st) ^ " ms=" ^ string_of_z (max_stale st) ^
  " sie=" ^ string_of_z (stale_if_error st) ^ " mf=" ^ string_of_z (min_fresh st) ^
  " pv=" ^ hex_of_bytes (private_ st) ^ " nc=" ^ hex_of_bytes (no_cache st) ^ " ot=" ^ hex_of_bytes (other st)

let () =
  (* parse, pack the result, parse the packed text with a fresh object *)
  reg "cc" (fun [v] ->
      match cc_parse (bytes_of_hex v) with
      | None -> "FUEL"
      | Some st ->
        let pk = cc_pack st in
        (match cc_parse pk with
         | None -> "FUEL"
         | Some st2 -> fmt_cc st ^ " | pk=" ^ hex_of_bytes pk ^ " | " ^ fmt_cc st2));
  (* two field values parsed into the same object (as HttpHeader::getCc does with the joined list is NOT this;
     this is the accumulate case of parse() being called twice) *)
  reg "cc2" (fun [a; b] ->
      match cc_parse (bytes_of_hex a) with
      | None -> "FUEL"
      | Some st -> (match cc_parse_from st (bytes_of_hex b) with None -> "FUEL" | Some st2 -> fmt_cc st2));
  reg "it" (fun [v] ->
      let s = c_str (bytes_of_hex v) in
      let its = cc_items (List.fold_left (fun a _ -> S a) (S O) s) s in
      string_of_int (List.length its) ^ (String.concat "" (List.map (fun i -> " " ^ hex_of_bytes i) its)));
  reg "qs" (fun [len; v] ->
      match parse_quoted_string (c_str (bytes_of_hex v)) (n_of_string len) with
      | QOk x -> "ok " ^ hex_of_bytes x
      | QFail -> "fail"
      | QFuel -> "FUEL")
