(* Properties_C31.v — C31: percent-encoding round-trips.
   Statements only; proofs live in QuoteProofs.v.
   Encoders are per-byte maps over tables regenerated from the code (gen/ByteMaps_gen.v):
     uri_encode_userinfo / _path / _unreserved  = AnyP::Uri::Encode as applied by Uri::absolute(),
       Uri::absolutePath() and with CharacterSet::RFC3986_UNRESERVED();
     rfc1738_do_escape flags                    = lib/rfc1738.cc, for every flag set used in the tree.
   Decoders are hand-written models of AnyP::Uri::Decode (uri_decode) and of the in-place
   rfc1738_unescape on an explicit buffer (rfc1738_unescape; UOob = access outside the buffer).
   bytes_ok s = every element is a byte value (below 256). *)
Require Import SquidV.Bytes SquidV.QuoteModel SquidV.QuoteProofs.
Require Import SquidV.gen.ByteMaps_gen.
Local Open Scope N_scope.

(* ---- AnyP::Uri::Decode is RFC 3986 percent-decoding (pct_decode: structural reference) ---- *)
Theorem C31_uri_decode_is_percent_decoding : forall buf, bytes_ok buf ->
  uri_decode buf = res_of (pct_decode buf).
Proof. exact uri_decode_spec. Qed.

(* ---- decoding the encoding gives back the byte string ---- *)
Theorem C31_uri_decode_encode_userinfo : forall s, bytes_ok s ->
  uri_decode (uri_encode_userinfo s) = DOk s.
Proof. exact uri_decode_encode_userinfo. Qed.

Theorem C31_uri_decode_encode_unreserved : forall s, bytes_ok s ->
  uri_decode (uri_encode_unreserved s) = DOk s.
Proof. exact uri_decode_encode_unreserved. Qed.

(* any ignore set that does not contain the percent sign (hand-written model of Encode) *)
Theorem C31_uri_decode_encode_any_set : forall ignore s, ignore 37 = false -> bytes_ok s ->
  uri_decode (uri_encode_set ignore s) = DOk s.
Proof. exact uri_decode_encode_set. Qed.

(* Uri::absolutePath() encodes with PathChars plus the query delimiter; PathChars contains the percent sign: the round trip
   fails for strings containing it (finding C31-path-percent) and holds for all others *)
Theorem C31_uri_decode_encode_path_refuted :
  exists s, bytes_ok s /\ uri_decode (uri_encode_path s) <> DOk s.
Proof. exact uri_decode_encode_path_refuted. Qed.

Theorem C31_uri_decode_encode_path_refuted_undecodable :
  exists s, bytes_ok s /\ uri_decode (uri_encode_path s) = DBad.
Proof. exact uri_decode_encode_path_refuted_undecodable. Qed.

Theorem C31_uri_decode_encode_path_partial : forall s, bytes_ok s -> percent_free s ->
  uri_decode (uri_encode_path s) = DOk s.
Proof. exact uri_decode_encode_path_partial. Qed.

(* ---- the encoded form: bytes of the ignore set and well-formed percent triplets only ---- *)
Theorem C31_uri_encode_alphabet_userinfo : forall s, bytes_ok s ->
  exists items, uri_encode_userinfo s = concat items /\
                Forall (pct_item (mem_tbl bm_uri_userinfo_set)) items.
Proof. exact uri_encode_alphabet_userinfo. Qed.

Theorem C31_uri_encode_alphabet_path : forall s, bytes_ok s ->
  exists items, uri_encode_path s = concat items /\
                Forall (pct_item (mem_tbl bm_uri_path_set)) items.
Proof. exact uri_encode_alphabet_path. Qed.

Theorem C31_uri_encode_alphabet_unreserved : forall s, bytes_ok s ->
  exists items, uri_encode_unreserved s = concat items /\
                Forall (pct_item (mem_tbl bm_uri_unreserved_set)) items.
Proof. exact uri_encode_alphabet_unreserved. Qed.

Theorem C31_uri_encode_alphabet_any_set : forall ignore s, bytes_ok s ->
  exists items, uri_encode_set ignore s = concat items /\ Forall (pct_item ignore) items.
Proof. exact uri_encode_set_alphabet. Qed.

(* the ignore sets read off the real encoders are the RFC 3986 ones the source names; the path
   encoder of Uri::absolutePath() uses the RFC 3986 path characters plus the query delimiter (63),
   since path_ holds path and query *)
Theorem C31_uri_ignore_sets_are_rfc3986 : forall c, c < 256 ->
  mem_tbl bm_uri_unreserved_set c = rfc3986_unreserved c /\
  mem_tbl bm_uri_userinfo_set c = (rfc3986_unreserved c || rfc3986_sub_delims c || (c =? 58)) /\
  mem_tbl bm_uri_path_set c =
    (rfc3986_unreserved c || rfc3986_sub_delims c || (c =? 58) || (c =? 64) || (c =? 47) || (c =? 37) || (c =? 63)).
Proof. exact uri_ignore_sets. Qed.

(* and the regenerated per-byte tables are the hand-written encoder applied with those sets *)
Theorem C31_uri_tables_match_encoder_model : forall c, c < 256 ->
  tbl_entry bm_uri_userinfo c = pct_entry (mem_tbl bm_uri_userinfo_set) c /\
  tbl_entry bm_uri_path c = pct_entry (mem_tbl bm_uri_path_set) c /\
  tbl_entry bm_uri_unreserved c = pct_entry (mem_tbl bm_uri_unreserved_set) c.
Proof. exact uri_tables_are_pct_entry. Qed.

(* ---- legacy escaping: unescape(escape(s)) = s ----
   unescaped_to res orig n: the call ended normally (no access outside the buffer), the buffer
   now holds orig, its terminator, and n - |orig| further bytes *)
Theorem C31_rfc1738_unescape_escape : forall flags s e, bytes_ok s -> escapes_percent flags = true ->
  rfc1738_do_escape flags s = Some e ->
  unescaped_to (rfc1738_unescape (e ++ [0])) (cstr s) (lenN e).
Proof. exact rfc1738_unescape_escape. Qed.

(* which of the flag sets used in the tree escape the percent sign (UNSAFE without NOPERCENT):
   rfc1738_escape (3), rfc1738_escape_part (7) and UNSAFE alone (2) do;
   0, RESERVED alone (4), rfc1738_escape_unescaped (259) and 259+NOSPACE (387) do not *)
Theorem C31_rfc1738_flag_sets_classified :
  map (fun ft => (fst ft, escapes_percent (fst ft))) bm_rfc1738_all =
  [(0, false); (2, true); (3, true); (4, false); (7, true); (259, false); (387, false)].
Proof. exact flag_sets_classified. Qed.

(* for the flag sets that leave the percent sign alone the round trip fails on strings
   containing it (finding C31-rfc1738-percent-kept) and holds for all others *)
Theorem C31_rfc1738_unescape_escape_refuted : forall flags, In flags [0; 4; 259; 387] ->
  exists s e, bytes_ok s /\ nul_free s /\ rfc1738_do_escape flags s = Some e /\
              cstring_of (rfc1738_unescape (e ++ [0])) = Some [65] /\ s <> [65].
Proof. exact rfc1738_unescape_escape_refuted. Qed.

Theorem C31_rfc1738_unescape_escape_partial : forall flags s e, bytes_ok s -> percent_free (cstr s) ->
  rfc1738_do_escape flags s = Some e ->
  unescaped_to (rfc1738_unescape (e ++ [0])) (cstr s) (lenN e).
Proof. exact rfc1738_unescape_escape_partial. Qed.

(* ---- unescaping stays inside the string: for EVERY NUL-free string r followed by its terminator
   and arbitrary further memory `rest`, the in-place loop never reads or writes outside the
   buffer (the result is not UOob), never runs out of fuel, leaves `rest` untouched, computes
   unesc_list r, and the result is not longer than r ---- *)
Theorem C31_unescape_in_bounds : forall r rest, nul_free r ->
  exists junk,
    rfc1738_unescape (r ++ 0 :: rest) = UOk (unesc_list r ++ 0 :: junk ++ rest) (lenN (unesc_list r)) /\
    lenN (unesc_list r) + lenN junk = lenN r.
Proof. exact rfc1738_unescape_spec. Qed.

(* non-vacuity *)
Example C31_example_uri : uri_encode_userinfo [0; 37; 97; 47] = [37;48;48; 37;50;53; 97; 37;50;70]
  /\ uri_decode [37;48;48; 37;50;53; 97; 37;50;70] = DOk [0; 37; 97; 47] /\ bytes_ok [0; 37; 97; 47].
Proof. split; [vm_compute; reflexivity|]. split; [vm_compute; reflexivity|repeat constructor]. Qed.
Example C31_example_decode_rejects : uri_decode [37; 52] = DBad /\ uri_decode [37; 48; 120; 52] = DBad.
Proof. split; vm_compute; reflexivity. Qed.
Example C31_example_escape : escapes_percent 3 = true /\
  rfc1738_do_escape 3 [37; 32; 97; 200] = Some [37;50;53; 37;50;48; 97; 37;67;56] /\
  rfc1738_unescape ([37;50;53; 37;50;48; 97; 37;67;56] ++ [0]) = UOk [37; 32; 97; 200; 0; 48; 97; 37; 67; 56; 0] 4.
Proof. repeat split; vm_compute; reflexivity. Qed.
Example C31_example_unescape_quirks :
  unesc_list [37;37; 37;48;48; 37;52;49; 37] = [37; 37;48;48; 65; 37] /\ nul_free [37;37; 37;48;48; 37;52;49; 37].
Proof. split; [vm_compute; reflexivity|repeat constructor; discriminate]. Qed.
Example C31_example_percent_free : percent_free [97; 47] /\ ~ percent_free [37].
Proof. split; [repeat constructor; discriminate|]. intros H. inversion H as [|? ? H1 _]. now apply H1. Qed.

Print Assumptions C31_uri_decode_is_percent_decoding.
Print Assumptions C31_uri_decode_encode_userinfo.
Print Assumptions C31_uri_decode_encode_unreserved.
Print Assumptions C31_uri_decode_encode_any_set.
Print Assumptions C31_uri_decode_encode_path_refuted.
Print Assumptions C31_uri_decode_encode_path_refuted_undecodable.
Print Assumptions C31_uri_decode_encode_path_partial.
Print Assumptions C31_uri_encode_alphabet_userinfo.
Print Assumptions C31_uri_encode_alphabet_path.
Print Assumptions C31_uri_encode_alphabet_unreserved.
Print Assumptions C31_uri_encode_alphabet_any_set.
Print Assumptions C31_uri_ignore_sets_are_rfc3986.
Print Assumptions C31_uri_tables_match_encoder_model.
Print Assumptions C31_rfc1738_unescape_escape.
Print Assumptions C31_rfc1738_flag_sets_classified.
Print Assumptions C31_rfc1738_unescape_escape_refuted.
Print Assumptions C31_rfc1738_unescape_escape_partial.
Print Assumptions C31_unescape_in_bounds.
