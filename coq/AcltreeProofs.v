(* AcltreeProofs.v — C44: the ACLChecklist state machine of AcltreeModel.v answers the recursive
   first-match evaluation, for all trees, leaf scripts and suspend/resume schedules.

   Plan of the proof
   1. a scripted leaf invocation either answers its reference value or suspends on a Real lookup
      without changing that value (leaf_loop_ok, leaf_ok);
   2. [evalp v pi n]: the value of the interrupted recursion of node n when it is resumed along the
      breadcrumb path pi (pi = [] is a fresh evaluation, evalp v [] n = eval v n);
   3. matchChild/doMatch/node_run started in a quiet state whose matchPath encodes pi either
      complete with evalp, or suspend leaving a matchPath that encodes a path pi' with the SAME
      evalp (node_ok, by structural induction on the tree): resuming from breadcrumbs equals
      continuing the interrupted recursion;
   4. the same for the root Acl::Tree, which also yields lastMatch_ (tree_ok_run);
   5. nonBlockingCheck/resumeNonBlockingCheck preserve "suspended with the same first match" and
      the number of outstanding lookups decreases (nb_loop_ok, fuel induction); fastCheck never suspends. *)
Require Import SquidV.Bytes SquidV.AcltreeModel.
Require Import ZifyBool ZifyN ZifyNat.
Local Open Scope N_scope.

(* ---------- projections of field updates (generated) ---------- *)
Ltac st := cbn [asyncCaller finished ans stg matchLoc asyncLoc depth path banned lastName lastMatch cbk err lrem pending trace starts susp set_asyncCaller set_finished set_ans set_stg set_matchLoc set_asyncLoc set_depth set_path set_banned set_lastName set_lastMatch set_cbk set_err set_lrem set_pending set_trace set_starts set_susp] in *.
Ltac stg := cbn [asyncCaller finished ans stg matchLoc asyncLoc depth path banned lastName lastMatch cbk err lrem pending trace starts susp set_asyncCaller set_finished set_ans set_stg set_matchLoc set_asyncLoc set_depth set_path set_banned set_lastName set_lastMatch set_cbk set_err set_lrem set_pending set_trace set_starts set_susp].



(* ---------- small list facts ---------- *)
Lemma nthN_split {A} (l : list A) p x :
  nthN p l = Some x -> l = takeN p l ++ x :: dropN (p + 1) l /\ lenN (takeN p l) = p.
Proof.
  revert p; induction l as [|y l IH]; intros p H; cbn [nthN] in H; [discriminate|].
  cbn [takeN dropN]. destruct (p =? 0) eqn:E.
  - apply N.eqb_eq in E. subst p. inversion H; subst. cbn [app lenN N.add].
    replace (0 + 1 =? 0) with false by (symmetry; apply N.eqb_neq; lia).
    replace (N.pred (0 + 1)) with 0 by lia.
    split; [|reflexivity]. f_equal. destruct l; reflexivity.
  - apply N.eqb_neq in E.
    replace (p + 1 =? 0) with false by (symmetry; apply N.eqb_neq; lia).
    replace (N.pred (p + 1)) with (N.pred p + 1) by lia.
    destruct (IH _ H) as [H1 H2]. cbn [app lenN]. split; [f_equal; exact H1| lia].
Qed.

Lemma dropN_0 {A} (l : list A) : dropN 0 l = l.
Proof. destruct l; reflexivity. Qed.

Lemma nthN_in {A} (l : list A) p x : nthN p l = Some x -> In x l.
Proof.
  intros H. destruct (nthN_split _ _ _ H) as [E _]. rewrite E. apply in_or_app. right. left. reflexivity.
Qed.

Lemma node_ind2 (P : node -> Prop) :
  (forall i, P (Leaf i)) -> (forall i k cs, Forall P cs -> P (Inner i k cs)) -> forall n, P n.
Proof.
  intros HL HI. fix IH 1. intros [i|i k cs]; [apply HL|]. apply HI.
  induction cs as [|x cs IHcs]; constructor; [apply IH | exact IHcs].
Qed.

(* ---------- evaluation depends only on the leaves of the expression ---------- *)
Lemma eval_ext v w n : (forall j, In j (leaf_ids n) -> v j = w j) -> eval v n = eval w n.
Proof.
  induction n as [i|i k cs IH] using node_ind2; intros H; cbn [eval].
  - apply H. left. reflexivity.
  - cbn [leaf_ids] in H.
    assert (HH : Forall (fun x => eval v x = eval w x) cs).
    { clear k. induction cs as [|x cs IHcs]; constructor.
      - inversion IH; subst. apply H2. intros j Hj. apply H. cbn [flat_map]. apply in_or_app. left. exact Hj.
      - inversion IH; subst. apply IHcs; [assumption|]. intros j Hj. apply H. cbn [flat_map]. apply in_or_app. right. exact Hj. }
    assert (Hf : forallb (eval v) cs = forallb (eval w) cs).
    { clear -HH. induction HH as [|x l E _ IHl]; cbn [forallb]; [reflexivity| now rewrite E, IHl]. }
    assert (He : existsb (eval v) cs = existsb (eval w) cs).
    { clear -HH. induction HH as [|x l E _ IHl]; cbn [existsb]; [reflexivity| now rewrite E, IHl]. }
    destruct k; try assumption; destruct cs as [|x cs']; try reflexivity; inversion HH; subst; congruence.
Qed.

Lemma forallb_eval_ext v w l :
  (forall j, In j (flat_map leaf_ids l) -> v j = w j) -> forallb (eval v) l = forallb (eval w) l.
Proof.
  induction l as [|x l IH]; intros H; cbn [forallb]; [reflexivity|].
  rewrite (eval_ext v w x), IH; [reflexivity| |]; intros j Hj; apply H; cbn [flat_map]; apply in_or_app; [right|left]; exact Hj.
Qed.

Lemma existsb_eval_ext v w l :
  (forall j, In j (flat_map leaf_ids l) -> v j = w j) -> existsb (eval v) l = existsb (eval w) l.
Proof.
  induction l as [|x l IH]; intros H; cbn [existsb]; [reflexivity|].
  rewrite (eval_ext v w x), IH; [reflexivity| |]; intros j Hj; apply H; cbn [flat_map]; apply in_or_app; [right|left]; exact Hj.
Qed.

Lemma first_from_ext v w isb idx l :
  (forall j, In j (flat_map leaf_ids l) -> v j = w j) -> first_from v isb idx l = first_from w isb idx l.
Proof.
  revert idx; induction l as [|x l IH]; intros idx H; cbn [first_from]; [reflexivity|].
  rewrite (eval_ext v w x), IH; [reflexivity| |]; intros j Hj; apply H; cbn [flat_map]; apply in_or_app; [right|left]; exact Hj.
Qed.

Lemma existsb_first_from v idx l :
  existsb (eval v) l = match first_from v (fun _ => false) idx l with Some _ => true | None => false end.
Proof.
  revert idx; induction l as [|x l IH]; intros idx; cbn [existsb first_from]; [reflexivity|].
  cbn [negb andb]. destruct (eval v x); cbn [orb]; [reflexivity| apply IH].
Qed.

(* ---------- breadcrumb paths ---------- *)
(* a path is the list of child positions from a node down to the parent of the suspended leaf *)
Fixpoint crumbs (pi : list N) (n : node) {struct pi} : list crumb :=
  match pi with
  | [] => []
  | p :: pi' =>
      match n with
      | Leaf _ => []
      | Inner i _ cs => (i, p) :: match nthN p cs with Some x => crumbs pi' x | None => [] end
      end
  end.

Fixpoint vpath (pi : list N) (n : node) {struct pi} : Prop :=
  match pi with
  | [] => True
  | p :: pi' =>
      match n with
      | Leaf _ => False
      | Inner _ k cs =>
          match nthN p cs with
          | None => False
          | Some x => (match k with KNot | KAllOf => p = 0 | _ => True end) /\ vpath pi' x
          end
      end
  end.

(* value of the recursion of n interrupted at (resumed along) pi *)
Fixpoint evalp (v : N -> bool) (pi : list N) (n : node) {struct pi} : bool :=
  match pi with
  | [] => eval v n
  | p :: pi' =>
      match n with
      | Leaf _ => false
      | Inner _ k cs =>
          match nthN p cs with
          | None => false
          | Some x =>
              let b := evalp v pi' x in
              match k with
              | KNot => negb b
              | KAllOf => b
              | KAnd => b && forallb (eval v) (dropN (p + 1) cs)
              | KOr | KAnyOf => b || existsb (eval v) (dropN (p + 1) cs)
              end
          end
      end
  end.

Lemma evalp_ext v w pi : forall n, (forall j, In j (leaf_ids n) -> v j = w j) -> evalp v pi n = evalp w pi n.
Proof.
  induction pi as [|p pi IH]; intros n H; cbn [evalp]; [apply eval_ext; exact H|].
  destruct n as [i|i k cs]; [reflexivity|].
  destruct (nthN p cs) as [x|] eqn:E; [|reflexivity].
  destruct (nthN_split _ _ _ E) as [Es _].
  assert (Hx : forall j, In j (leaf_ids x) -> v j = w j).
  { intros j Hj. apply H. cbn [leaf_ids]. rewrite Es, flat_map_app. apply in_or_app. right.
    cbn [flat_map]. apply in_or_app. left. exact Hj. }
  assert (Hr : forall j, In j (flat_map leaf_ids (dropN (p + 1) cs)) -> v j = w j).
  { intros j Hj. apply H. cbn [leaf_ids]. rewrite Es, flat_map_app. apply in_or_app. right.
    cbn [flat_map]. apply in_or_app. right. exact Hj. }
  rewrite (IH x Hx), (forallb_eval_ext v w _ Hr), (existsb_eval_ext v w _ Hr). reflexivity.
Qed.

(* ---------- invariants ---------- *)
Section Proofs.
Variable scr : N -> lscript.

(* the current worth of leaf i: reference value of what is left of its script *)
Definition lv (c : st) (i : N) : bool :=
  lval_k (asyncCaller c) (retry (scr i)) (truth (scr i)) 0 (lrem c i).

Definition quiet (c : st) : Prop := stg c = SNone /\ finished c = false /\ err c = false.

(* what every piece of matching preserves; ids = the leaves it may touch *)
Definition inv (ids : list N) (c c' : st) : Prop :=
  err c' = false /\ finished c' = false /\ asyncCaller c' = asyncCaller c /\ banned c' = banned c /\
  cbk c' = cbk c /\
  (forall j, ~ In j ids -> lrem c' j = lrem c j) /\
  (forall j, (length (lrem c' j) <= length (lrem c j))%nat).

Definition pend (ids : list N) (c' : st) : Prop :=
  exists j rest, pending c' = Some j /\ In j ids /\ lrem c' j = Real :: rest.

Lemma inv_refl ids c : err c = false -> finished c = false -> inv ids c c.
Proof. intros; unfold inv; repeat split; auto. Qed.

Lemma inv_trans ids1 ids2 ids c1 c2 c3 :
  inv ids1 c1 c2 -> inv ids2 c2 c3 -> incl ids1 ids -> incl ids2 ids -> inv ids c1 c3.
Proof.
  intros (A1 & A2 & A3 & A4 & A5 & A6 & A7) (B1 & B2 & B3 & B4 & B5 & B6 & B7) I1 I2.
  unfold inv; repeat split; try congruence.
  - intros j Hj. rewrite B6, A6; auto.
  - intros j. specialize (A7 j). specialize (B7 j). lia.
Qed.

Lemma inv_weaken ids ids' c c' : inv ids c c' -> incl ids ids' -> inv ids' c c'.
Proof.
  intros (A1 & A2 & A3 & A4 & A5 & A6 & A7) I. unfold inv; repeat split; auto.
Qed.

Lemma lv_same c c' j : asyncCaller c' = asyncCaller c -> lrem c' j = lrem c j -> lv c' j = lv c j.
Proof. intros A B. unfold lv. now rewrite A, B. Qed.

Lemma inv_lv ids c c' j : inv ids c c' -> ~ In j ids -> lv c' j = lv c j.
Proof. intros (_ & _ & A & _ & _ & B & _) H. apply lv_same; auto. Qed.

Lemma crumb_eqb_refl l : crumb_eqb (Some l) (Some l) = true.
Proof. destruct l as [p i]. cbn. now rewrite !N.eqb_refl. Qed.

Lemma upd_same {A} (f : N -> A) i v : upd f i v i = v.
Proof. unfold upd. now rewrite N.eqb_refl. Qed.
Lemma upd_other {A} (f : N -> A) i v j : j <> i -> upd f i v j = f j.
Proof. intros H. unfold upd. apply N.eqb_neq in H. now rewrite H. Qed.

(* ---------- 1. one invocation of a scripted leaf ---------- *)
Lemma leaf_loop_ok i : forall atts c k loc r c',
  quiet c -> matchLoc c = Some loc -> lrem c i = atts -> depth c = N.of_nat k -> (k <= 6)%nat ->
  ((0 < k)%nat -> asyncLoc c = Some loc) ->
  leaf_loop i (scr i) atts c = (r, c') ->
  inv [i] c c' /\ path c' = path c /\
  ((stg c' = SNone /\ (r =? 1)%Z = lval_k (asyncCaller c) (retry (scr i)) (truth (scr i)) k atts)
   \/ (stg c' = SRunning /\ (r =? 1)%Z = false /\ asyncCaller c' = true /\
       exists rest, pending c' = Some i /\ lrem c' i = Real :: rest /\
         lval_k true (retry (scr i)) (truth (scr i)) 0 rest
         = lval_k (asyncCaller c) (retry (scr i)) (truth (scr i)) k atts)).
Proof.
  induction atts as [|a rest IH]; intros c k loc r c' Q ML LR DK K6 AL E; cbn [leaf_loop] in E.
  - inversion E; subst r c'. destruct Q as (Q1 & Q2 & Q3).
    split; [apply inv_refl; assumption|]. split; [reflexivity|]. left. split; [assumption|].
    cbn [lval_k]. destruct (truth (scr i)); reflexivity.
  - destruct Q as (Q1 & Q2 & Q3).
    unfold goAsync in E. unfold asyncInProgress in E. rewrite Q1, ML in E. cbn [stage_eqb negb is_none orb] in E.
    assert (NOGO : (r, c') = (0%Z, c) ->
              lval_k (asyncCaller c) (retry (scr i)) (truth (scr i)) k (a :: rest) = false ->
              inv [i] c c' /\ path c' = path c /\
              ((stg c' = SNone /\ (r =? 1)%Z = lval_k (asyncCaller c) (retry (scr i)) (truth (scr i)) k (a :: rest)) \/
               (stg c' = SRunning /\ (r =? 1)%Z = false /\ asyncCaller c' = true /\
                exists rest0, pending c' = Some i /\ lrem c' i = Real :: rest0 /\
                  lval_k true (retry (scr i)) (truth (scr i)) 0 rest0
                  = lval_k (asyncCaller c) (retry (scr i)) (truth (scr i)) k (a :: rest)))).
    { intros E' V. inversion E'; subst r c'. split; [apply inv_refl; assumption|]. split; [reflexivity|].
      left. split; [assumption|]. rewrite V. reflexivity. }
    destruct (asyncCaller c) eqn:AC; cbn [negb] in E.
    2:{ (* fast-only caller: refused *)
      rewrite N.eqb_refl in E.
      apply NOGO; [destruct (retry (scr i)); cbn [negb] in E; congruence | reflexivity]. }
    destruct (crumb_eqb (Some loc) (asyncLoc c) && (5 <? depth c)) eqn:T.
    { (* async loop allowance exhausted: refused *)
      rewrite N.eqb_refl in E.
      apply NOGO; [destruct (retry (scr i)); cbn [negb] in E; congruence |].
      cbn [lval_k negb]. apply andb_prop in T. destruct T as [_ T].
      replace (6 <=? k)%nat with true by (symmetry; apply Nat.leb_le; lia). reflexivity. }
    assert (K5 : (k < 6)%nat).
    { destruct k as [|k']; [lia|]. rewrite (AL ltac:(lia)), crumb_eqb_refl in T. cbn [andb] in T. lia. }
    assert (K5b : (6 <=? k)%nat = false) by (apply Nat.leb_gt; lia).
    destruct a; unfold starter in E; st.
    + (* Real: the lookup goes asynchronous *)
      cbn [stage_eqb negb] in E. inversion E; subst r c'. st.
      split.
      { unfold inv; st. repeat split; auto. }
      split; [reflexivity|]. right. split; [reflexivity|]. split; [reflexivity|]. split; [assumption|].
      exists rest. split; [reflexivity|]. split; [assumption|].
      cbn [lval_k negb]. rewrite K5b. reflexivity.
    + (* Fake: the lookup completes inside the starter; goAsync() reports failure *)
      unfold resume_early in E. st. cbn [stage_eqb negb] in E. st. cbn [stage_eqb negb] in E. st.
      rewrite upd_same in E. rewrite LR in E. cbn [tl] in E.
      set (c1 := set_stg SNone _) in E.
      assert (I1 : inv [i] c c1).
      { unfold inv, c1; st. repeat split; auto.
        - intros j Hj. apply upd_other. intros ->. apply Hj. left. reflexivity.
        - intros j. unfold upd. destruct (j =? i) eqn:EJ; [apply N.eqb_eq in EJ; subst j; rewrite LR; cbn [tl length]; lia| lia]. }
      assert (P1 : path c1 = path c) by (unfold c1; st; reflexivity).
      destruct (retry (scr i)) eqn:RT; cbn [negb] in E.
      2:{ inversion E; subst r c'. split; [exact I1|]. split; [exact P1|]. left.
          split; [unfold c1; st; reflexivity|]. cbn [lval_k negb]. rewrite K5b. reflexivity. }
      cbn [lenN] in E.
      replace (lenN rest =? N.succ (lenN rest)) with false in E by (symmetry; apply N.eqb_neq; lia).
      assert (Q' : quiet c1) by (unfold quiet, c1; st; auto).
      specialize (IH c1 (S k) loc r c' Q').
      destruct IH as (I2 & P2 & H2).
      { unfold c1; st. assumption. }
      { unfold c1; st. apply upd_same. }
      { unfold c1; st. lia. }
      { lia. }
      { intros _. unfold c1; st. reflexivity. }
      { exact E. }
      split; [eapply inv_trans; [exact I1| exact I2| apply incl_refl| apply incl_refl]|].
      split; [congruence|].
      assert (AC1 : asyncCaller c1 = true) by (unfold c1; st; assumption).
      rewrite AC1 in H2. cbn [lval_k negb]. rewrite K5b. exact H2.
Qed.
