// h_fdleak.cc — C08 unit-level tie: random fd_open()/fd_close() sequences on the REAL src/fd.cc
// (compiled fresh from /repo's working tree), reporting Number_FD, Biggest_FD and the open flags.
//   fdleak.fdops <Squid_MaxFD> o<fd>|c<fd> ...   ->  ok <Number_FD> <Biggest_FD> <flags>   |  EXC <what>
#include "squid.h"
#include "comm/Loops.h"
#include "fd.h"
#include "fde.h"
#include "globals.h"
#include "hcommon.h"
#include <stdexcept>

// the select loop is not part of this harness: fd_close() calls Comm::ResetSelect() -> Comm::SetSelect()
void Comm::SetSelect(int, unsigned int, PF *, void *, time_t) {}

int main()
{
    std::string line;
    while (std::getline(std::cin, line)) {
        const auto w = splitws(line);
        if (w.empty()) { std::cout << "\n" << std::flush; continue; }
        try {
            if (w[0] != "fdleak.fdops" || w.size() < 2)
                throw std::runtime_error("unknown-entry");
            const int maxfd = atoi(w[1].c_str());
            Squid_MaxFD = maxfd;
            Number_FD = 0;
            Biggest_FD = -1;
            delete[] fde::Table;
            fde::Table = new fde[maxfd];
            for (size_t i = 2; i < w.size(); ++i) {
                if (w[i] == "-") continue;
                const int fd = atoi(w[i].c_str() + 1);
                if (fd < 0 || fd >= maxfd)
                    throw std::runtime_error("fd-out-of-table");
                if (w[i][0] == 'o')
                    fd_open(fd, FD_SOCKET, "harness");
                else if (fd_table[fd].flags.open)
                    fd_close(fd);
                else
                    throw std::runtime_error("close-of-closed-fd"); // assert(F->flags.open) would abort the process
            }
            std::string flags;
            for (int i = 0; i < maxfd; ++i)
                flags.push_back(fd_table[i].flags.open ? '1' : '0');
            std::cout << "ok " << Number_FD << " " << Biggest_FD << " " << flags << "\n" << std::flush;
        } catch (const std::exception &e) {
            std::cout << "EXC " << e.what() << "\n" << std::flush;
        }
    }
    return 0;
}
