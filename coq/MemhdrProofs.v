(* MemhdrProofs.v — mem_hdr (MemhdrModel.v) refines a partial map offset -> byte (C49).

   Abstraction: [content l z] is the byte stored at offset z by the in-order node
   list l = inorder (h_nodes h). Invariant [Inv]: the list is sorted by offset,
   nodes are pairwise disjoint, non-empty, at most SM_PAGE_SIZE long and hold
   exactly nodeBuffer.length bytes; Splay::elements is the number of nodes;
   inmem_hi is the end of the last node.  Under that invariant NodeCompare has
   monotone sign along the in-order sequence, so the generic splay theorems of
   SplayProofs.v make every lookup exact. *)
Require Import SquidV.Bytes SquidV.SplayModel SquidV.SplayProofs SquidV.MemhdrModel SquidV.gen.Memhdr_gen.
Require Import ZifyBool ZifyN ZifyNat.
Local Open Scope Z_scope.

(* ---------- the specification side ---------- *)
Definition pmap := Z -> option N.

Definition spec_write (m : pmap) (off : Z) (data : bytes) : pmap :=
  fun z => if (off <=? z) && (z <? off + Z.of_N (lenN data)) then nthN (Z.to_N (z - off)) data else m z.

(* the stored bytes from [off] on, at most [n] of them, up to the first missing one *)
Fixpoint read_spec (m : pmap) (off : Z) (n : nat) : bytes :=
  match n with
  | O => []
  | S k => match m off with Some b => b :: read_spec m (off + 1) k | None => [] end
  end.

Definition PAGE : Z := Z.of_N sm_page_size.
Lemma page_pos : 0 < PAGE.
Proof. reflexivity. Qed.

(* ---------- well-formed node lists and their content ---------- *)
Definition node_ok (n : node) : Prop :=
  n_length n = lenN (n_data n) /\ 0 < n_len n <= PAGE.

Fixpoint wf_from (lo : Z) (l : list node) : Prop :=
  match l with
  | [] => True
  | n :: r => lo <= n_off n /\ node_ok n /\ wf_from (n_end n) r
  end.

Fixpoint end_from (lo : Z) (l : list node) : Z :=
  match l with
  | [] => lo
  | n :: r => end_from (n_end n) r
  end.

Definition inside (n : node) (z : Z) : Prop := n_off n <= z < n_end n.

Fixpoint content (l : list node) (z : Z) : option N :=
  match l with
  | [] => None
  | n :: r => if (n_off n <=? z) && (z <? n_end n) then nthN (Z.to_N (z - n_off n)) (n_data n)
              else content r z
  end.

Definition Inv (h : mem_hdr) : Prop :=
  wf_from 0 (inorder (h_nodes h)) /\
  h_count h = lenN (inorder (h_nodes h)) /\
  h_hi h = end_from 0 (inorder (h_nodes h)).

Definition cont (h : mem_hdr) : pmap := content (inorder (h_nodes h)).

(* ---------- small list facts ---------- *)
Lemma nthN_some {A} (l : list A) (i : N) : (i < lenN l)%N -> exists b, nthN i l = Some b.
Proof.
  revert i. induction l as [|x l IH]; intros i Hi; cbn [lenN nthN] in *; [lia|].
  destruct (i =? 0)%N eqn:E; [eexists; reflexivity|]. apply IH. lia.
Qed.

Lemma nthN_none {A} (l : list A) (i : N) : (lenN l <= i)%N -> nthN i l = None.
Proof.
  revert i. induction l as [|x l IH]; intros i Hi; cbn [lenN nthN] in *; [reflexivity|].
  destruct (i =? 0)%N eqn:E; [lia|]. apply IH. lia.
Qed.

Lemma nthN_app_l {A} (a b : list A) i : (i < lenN a)%N -> nthN i (a ++ b) = nthN i a.
Proof.
  revert i. induction a as [|x a IH]; intros i Hi; cbn [lenN nthN app] in *; [lia|].
  destruct (i =? 0)%N eqn:E; [reflexivity|]. apply IH. lia.
Qed.

Lemma nthN_app_r {A} (a b : list A) i : (lenN a <= i)%N -> nthN i (a ++ b) = nthN (i - lenN a) b.
Proof.
  revert i. induction a as [|x a IH]; intros i Hi; cbn [lenN nthN app] in *; [f_equal; lia|].
  destruct (i =? 0)%N eqn:E; [lia|]. rewrite IH by lia. f_equal. lia.
Qed.

Lemma nthN_takeN {A} (l : list A) k i : (i < k)%N -> nthN i (takeN k l) = nthN i l.
Proof.
  revert k i. induction l as [|x l IH]; intros k i Hi; cbn [takeN nthN]; [reflexivity|].
  destruct (k =? 0)%N eqn:Ek; [lia|]. cbn [nthN].
  destruct (i =? 0)%N eqn:E; [reflexivity|]. apply IH. lia.
Qed.

Lemma nthN_dropN {A} (l : list A) k i : nthN i (dropN k l) = nthN (k + i) l.
Proof.
  revert k i. induction l as [|x l IH]; intros k i; cbn [dropN nthN]; [reflexivity|].
  destruct (k =? 0)%N eqn:Ek.
  - assert (k = 0%N) by lia. subst k. cbn [N.add]. reflexivity.
  - rewrite IH. assert (E : (k + i =? 0)%N = false) by lia. rewrite E. f_equal. lia.
Qed.

Lemma lenN_dropN {A} (l : list A) k : lenN (dropN k l) = (lenN l - k)%N.
Proof.
  revert k. induction l as [|x l IH]; intros k; cbn [dropN lenN]; [lia|].
  destruct (k =? 0)%N eqn:Ek; [cbn [lenN]; lia|]. rewrite IH. lia.
Qed.

Lemma lenN_nil {A} (l : list A) : lenN l = 0%N -> l = [].
Proof. destruct l; cbn [lenN]; [reflexivity| lia]. Qed.

Lemma lenN_length_nat {A} (l : list A) : N.to_nat (lenN l) = length l.
Proof. rewrite lenN_length. lia. Qed.

Lemma option_ext (x y : option N) : (forall b, x = Some b <-> y = Some b) -> x = y.
Proof.
  intros H. destruct x as [a|], y as [b|]; try reflexivity.
  - symmetry. exact (proj1 (H a) eq_refl).
  - discriminate (proj1 (H a) eq_refl).
  - discriminate (proj2 (H b) eq_refl).
Qed.

(* ---------- wf_from / end_from ---------- *)
Lemma wf_from_weaken lo lo' l : lo' <= lo -> wf_from lo l -> wf_from lo' l.
Proof. destruct l as [|n r]; cbn [wf_from]; [auto|]. intros H (H1 & H2 & H3). split; [lia| split; assumption]. Qed.

Lemma wf_from_rehead lo lo' l :
  wf_from lo l -> match l with [] => True | n :: _ => lo' <= n_off n end -> wf_from lo' l.
Proof. destruct l as [|n r]; cbn [wf_from]; [auto|]. intros (H1 & H2 & H3) H. split; [assumption| split; assumption]. Qed.

Lemma wf_from_app lo a b : wf_from lo (a ++ b) <-> wf_from lo a /\ wf_from (end_from lo a) b.
Proof.
  revert lo. induction a as [|n a IH]; intros lo; cbn [app wf_from end_from]; [tauto|].
  rewrite IH. tauto.
Qed.

Lemma end_from_app lo a b : end_from lo (a ++ b) = end_from (end_from lo a) b.
Proof. revert lo. induction a as [|n a IH]; intros lo; cbn [app end_from]; [reflexivity| apply IH]. Qed.

Lemma end_from_nonempty lo lo' l : l <> [] -> end_from lo l = end_from lo' l.
Proof. destruct l; [congruence| reflexivity]. Qed.

Lemma end_from_ge lo l : wf_from lo l -> lo <= end_from lo l.
Proof.
  revert lo. induction l as [|n r IH]; intros lo; cbn [wf_from end_from]; [lia|].
  intros (H1 & (_ & H2) & H3). specialize (IH _ H3). unfold n_end in *. lia.
Qed.

Lemma wf_from_In lo l n : wf_from lo l -> In n l ->
  lo <= n_off n /\ node_ok n /\ n_end n <= end_from lo l.
Proof.
  revert lo. induction l as [|x r IH]; intros lo; cbn [wf_from end_from In]; [tauto|].
  intros (H1 & H2 & H3) [<-|Hin].
  - repeat split; try assumption; try apply H2. apply end_from_ge, H3.
  - destruct (IH _ H3 Hin) as (A & B & C). repeat split; try assumption; try apply B.
    destruct H2 as (_ & H2). unfold n_end in *. lia.
Qed.

Lemma end_from_le lo l x : lo <= x -> (forall n, In n l -> n_end n <= x) -> wf_from lo l -> end_from lo l <= x.
Proof.
  revert lo. induction l as [|n r IH]; intros lo Hlo H W; cbn [end_from]; [exact Hlo|].
  destruct W as (_ & _ & W). apply IH; [apply H; left; reflexivity| intros m Hm; apply H; right; exact Hm| exact W].
Qed.

(* every later node starts at or after the end of an earlier one *)
Lemma wf_from_later lo x r : wf_from lo (x :: r) ->
  forall y, In y r -> n_end x <= n_off y /\ node_ok y.
Proof.
  cbn [wf_from]. intros (_ & _ & W) y Hy. destruct (wf_from_In _ _ _ W Hy) as (A & B & _). auto.
Qed.

Lemma wf_from_split lo a x b : wf_from lo (a ++ x :: b) ->
  (forall y, In y a -> n_end y <= n_off x /\ node_ok y /\ lo <= n_off y) /\
  node_ok x /\ lo <= n_off x /\
  (forall y, In y b -> n_end x <= n_off y /\ node_ok y).
Proof.
  revert lo. induction a as [|w a IH]; intros lo; cbn [app].
  - intros W. pose proof (wf_from_later _ _ _ W) as L. destruct W as (W1 & W2 & W3).
    split; [intros y []|]. split; [exact W2|]. split; [exact W1| exact L].
  - intros W. pose proof (wf_from_later _ _ _ W) as L. destruct W as (W1 & W2 & W3).
    destruct (IH _ W3) as (I1 & I2 & I3 & I4).
    assert (Hw : n_off w < n_end w) by (destruct W2 as (_ & W2); unfold n_end; lia).
    split; [|split; [exact I2| split; [lia| exact I4]]].
    intros y [<-|Hy].
    + split; [|split; [exact W2| lia]].
      destruct (L x) as (Lx & _); [apply in_or_app; right; left; reflexivity| exact Lx].
    + destruct (I1 y Hy) as (J1 & J2 & J3). split; [exact J1| split; [exact J2| lia]].
Qed.

(* ---------- content ---------- *)
Lemma content_some_in l z b : content l z = Some b ->
  exists n, In n l /\ inside n z /\ nthN (Z.to_N (z - n_off n)) (n_data n) = Some b.
Proof.
  induction l as [|n r IH]; cbn [content]; [discriminate|].
  destruct ((n_off n <=? z) && (z <? n_end n)) eqn:E.
  - intros H. exists n. split; [left; reflexivity|]. split; [unfold inside; lia| exact H].
  - intros H. destruct (IH H) as (m & Hm & Hi & Hb). exists m. split; [right; exact Hm| auto].
Qed.

Lemma content_in lo l n z : wf_from lo l -> In n l -> inside n z ->
  content l z = nthN (Z.to_N (z - n_off n)) (n_data n).
Proof.
  revert lo. induction l as [|x r IH]; intros lo W Hin Hz; [destruct Hin|].
  cbn [content]. destruct Hin as [<-|Hin].
  - unfold inside in Hz. replace ((n_off x <=? z) && (z <? n_end x)) with true by lia. reflexivity.
  - destruct (wf_from_later _ _ _ W n Hin) as (Hl & _). unfold inside in Hz.
    destruct W as (_ & (_ & Hx) & W).
    replace ((n_off x <=? z) && (z <? n_end x)) with false by lia. apply (IH _ W Hin). exact Hz.
Qed.

Lemma content_none l z : (forall n, In n l -> ~ inside n z) -> content l z = None.
Proof.
  induction l as [|x r IH]; intros H; cbn [content]; [reflexivity|].
  assert (Hx : ~ inside x z) by (apply H; left; reflexivity). unfold inside in Hx.
  replace ((n_off x <=? z) && (z <? n_end x)) with false by lia. apply IH. intros n Hn. apply H. right. exact Hn.
Qed.

Lemma node_byte n z : node_ok n -> inside n z -> exists b, nthN (Z.to_N (z - n_off n)) (n_data n) = Some b.
Proof.
  intros (Hl & Hp) Hz. apply nthN_some. unfold inside, n_end, n_len in *. lia.
Qed.

(* present = some node contains the offset *)
Lemma content_present lo l z : wf_from lo l ->
  (content l z <> None <-> exists n, In n l /\ inside n z).
Proof.
  intros W. split.
  - destruct (content l z) as [b|] eqn:E; [|congruence]. intros _.
    destruct (content_some_in _ _ _ E) as (n & Hn & Hi & _). exists n. auto.
  - intros (n & Hn & Hi). rewrite (content_in _ _ _ _ W Hn Hi).
    destruct (wf_from_In _ _ _ W Hn) as (_ & Hok & _).
    destruct (node_byte n z Hok Hi) as (b & ->). discriminate.
Qed.

Lemma content_absent lo l z : wf_from lo l ->
  (content l z = None <-> forall n, In n l -> ~ inside n z).
Proof.
  intros W. split.
  - intros E n Hn Hi. apply (proj2 (content_present _ _ z W)); [exists n; auto| exact E].
  - apply content_none.
Qed.

Lemma content_below lo l z : wf_from lo l -> z < lo -> content l z = None.
Proof.
  intros W Hz. apply content_none. intros n Hn Hi. destruct (wf_from_In _ _ _ W Hn) as (H & _). unfold inside in Hi. lia.
Qed.

Lemma content_beyond lo l z : wf_from lo l -> end_from lo l <= z -> content l z = None.
Proof.
  intros W Hz. apply content_none. intros n Hn Hi. destruct (wf_from_In _ _ _ W Hn) as (_ & _ & H). unfold inside in Hi. lia.
Qed.

(* ---------- NodeCompare ---------- *)
Definition meets (qs qe : Z) (n : node) : Prop := Z.max qs (n_off n) < Z.min qe (n_end n).

Lemma node_compare_cases qs qe n :
  (node_compare qs qe n = 0 /\ meets qs qe n) \/
  (node_compare qs qe n = -1 /\ ~ meets qs qe n /\ qs < n_off n) \/
  (node_compare qs qe n = 1 /\ ~ meets qs qe n /\ n_off n <= qs).
Proof.
  unfold node_compare, range_size, meets.
  destruct (Z.min qe (n_end n) >? Z.max qs (n_off n)) eqn:E1.
  - destruct (Z.min qe (n_end n) - Z.max qs (n_off n) >? 0) eqn:E2; [left; split; [reflexivity| lia]| lia].
  - cbn [Z.gtb Z.compare]. destruct (qs <? n_off n) eqn:E3; [right; left| right; right]; (split; [reflexivity| lia]).
Qed.

Lemma node_compare_zero qs qe n : node_compare qs qe n = 0 <-> meets qs qe n.
Proof. destruct (node_compare_cases qs qe n) as [(E & H)|[(E & H & _)|(E & H & _)]]; rewrite E; split; intros; try assumption; try lia; contradiction. Qed.

Lemma node_compare_pos qs qe n : node_compare qs qe n > 0 <-> ~ meets qs qe n /\ n_off n <= qs.
Proof. destruct (node_compare_cases qs qe n) as [(E & H)|[(E & H & G)|(E & H & G)]]; rewrite E; split; intros; try lia; tauto. Qed.

Lemma node_compare_neg qs qe n : node_compare qs qe n < 0 <-> ~ meets qs qe n /\ qs < n_off n.
Proof. destruct (node_compare_cases qs qe n) as [(E & H)|[(E & H & G)|(E & H & G)]]; rewrite E; split; intros; try lia; tauto. Qed.

(* the sign of NodeCompare(query, .) never increases along a well-formed node list *)
Lemma wf_mono qs qe lo l : wf_from lo l -> mono (node_compare qs qe) l.
Proof.
  revert lo. induction l as [|x r IH]; intros lo W; cbn [mono]; [exact I|].
  split; [|destruct W as (_ & _ & W); exact (IH _ W)].
  rewrite Forall_forall. intros y Hy.
  destruct (wf_from_later _ _ _ W y Hy) as (Hl & (_ & Hy2)).
  destruct W as (_ & (_ & Hx2) & _).
  destruct (node_compare_cases qs qe x) as [(E & H)|[(E & H & G)|(E & H & G)]];
  destruct (node_compare_cases qs qe y) as [(E' & H')|[(E' & H' & G')|(E' & H' & G')]];
  rewrite E, E'; cbn [Z.sgn]; unfold meets, n_end in *; lia.
Qed.

Lemma meets_point loc n : meets loc (loc + 1) n <-> inside n loc.
Proof. unfold meets, inside. lia. Qed.

(* nodes.find(&target, NodeCompare) on a well-formed tree *)
Lemma find_spec qs qe lo t t' r : wf_from lo (inorder t) -> sp_find (node_compare qs qe) t = (t', r) ->
  inorder t' = inorder t /\
  match r with
  | Some n => In n (inorder t) /\ meets qs qe n
  | None => forall n, In n (inorder t) -> ~ meets qs qe n
  end.
Proof.
  intros W E. pose proof (sp_find_inorder (node_compare qs qe) t) as Hi. rewrite E in Hi. cbn [fst] in Hi.
  split; [exact Hi|]. destruct r as [n|].
  - destruct (sp_find_some (node_compare qs qe) t n) as (Hz & Hin); [rewrite E; reflexivity|].
    split; [exact Hin| apply node_compare_zero, Hz].
  - intros n Hn Hm. apply (sp_find_none (node_compare qs qe) t (wf_mono qs qe lo _ W)) with (x := n); [rewrite E; reflexivity| exact Hn|].
    apply node_compare_zero, Hm.
Qed.

(* ---------- leftmost / rightmost / shape ---------- *)
Lemma leftmost_hd t : leftmost t = hd_error (inorder t).
Proof.
  induction t as [|l IHl x r IHr]; [reflexivity|]. cbn [leftmost inorder].
  destruct l as [|ll lx lr]; [reflexivity|]. rewrite IHl. cbn [inorder].
  destruct (inorder ll ++ lx :: inorder lr) as [|a q] eqn:E; [destruct (inorder ll); discriminate| reflexivity].
Qed.

Lemma rightmost_end lo t : t <> Leaf -> match rightmost t with Some n => n_end n = end_from lo (inorder t) | None => False end.
Proof.
  revert lo. induction t as [|l IHl x r IHr]; intros lo Ht; [congruence|]. cbn [rightmost inorder].
  rewrite end_from_app. cbn [end_from].
  destruct r as [|rl rx rr]; [reflexivity|]. apply IHr. discriminate.
Qed.

Lemma single_shape (t : tree node) :
  match t with
  | Leaf => inorder t = []
  | Node Leaf x Leaf => inorder t = [x]
  | Node _ _ _ => (2 <= length (inorder t))%nat
  end.
Proof.
  destruct t as [|l x r]; [reflexivity|]. destruct l as [|ll lx lr].
  - destruct r as [|rl rx rr]; [reflexivity|]. cbn [inorder]. repeat (rewrite ?app_length; cbn [length app]). lia.
  - cbn [inorder]. repeat (rewrite ?app_length; cbn [length app]). lia.
Qed.

Lemma inorder_tree_map f (t : tree node) : inorder (tree_map f t) = map f (inorder t).
Proof.
  induction t as [|l IHl x r IHr]; [reflexivity|]. cbn [tree_map inorder]. rewrite IHl, IHr, map_app. reflexivity.
Qed.

Lemma map_id_on {A} (f : A -> A) l : (forall x, In x l -> f x = x) -> map f l = l.
Proof.
  induction l as [|x l IH]; intros H; [reflexivity|]. cbn [map]. rewrite H by (left; reflexivity).
  rewrite IH; [reflexivity|]. intros y Hy. apply H. right. exact Hy.
Qed.

(* set_node on a list where only the middle element has that offset *)
Lemma set_node_split n' t a x b : inorder t = a ++ x :: b -> n_off x = n_off n' ->
  (forall y, In y a -> n_off y <> n_off n') -> (forall y, In y b -> n_off y <> n_off n') ->
  inorder (set_node n' t) = a ++ n' :: b.
Proof.
  intros Hi Hx Ha Hb. unfold set_node. rewrite inorder_tree_map, Hi, map_app. cbn [map].
  rewrite Hx, Z.eqb_refl.
  rewrite (map_id_on _ a), (map_id_on _ b); [reflexivity| |].
  - intros y Hy. specialize (Hb y Hy). destruct (n_off y =? n_off n') eqn:E; [lia| reflexivity].
  - intros y Hy. specialize (Ha y Hy). destruct (n_off y =? n_off n') eqn:E; [lia| reflexivity].
Qed.

(* ---------- replacing / inserting one node of a well-formed list ---------- *)
Definition insideb (n : node) (z : Z) : bool := (n_off n <=? z) && (z <? n_end n).

Lemma wf_from_remove_mid lo a x b : wf_from lo (a ++ x :: b) -> wf_from lo (a ++ b).
Proof.
  rewrite !wf_from_app. cbn [wf_from]. intros (Wa & Hx & (_ & Hp) & Wb). split; [exact Wa|].
  apply (wf_from_weaken (n_end x)); [unfold n_end; lia| exact Wb].
Qed.

Lemma content_mid lo a x b z : wf_from lo (a ++ x :: b) ->
  content (a ++ x :: b) z =
  if insideb x z then nthN (Z.to_N (z - n_off x)) (n_data x) else content (a ++ b) z.
Proof.
  revert lo. induction a as [|w a IH]; intros lo W; cbn [app content]; [reflexivity|].
  pose proof (wf_from_later _ _ _ W x ltac:(apply in_or_app; right; left; reflexivity)) as (Hl & _).
  destruct W as (_ & (_ & Hw) & W). rewrite (IH _ W). fold (insideb w z).
  destruct (insideb w z) eqn:Ew; [|reflexivity].
  destruct (insideb x z) eqn:Ex; [|reflexivity]. unfold insideb, n_end in *. lia.
Qed.

Definition clear (l : list node) (a b : Z) : Prop := forall n, In n l -> ~ meets a b n.

Lemma clear_iff lo l a b : wf_from lo l ->
  (clear l a b <-> forall z, a <= z < b -> content l z = None).
Proof.
  intros W. split.
  - intros C z Hz. apply content_none. intros n Hn Hi. apply (C n Hn). unfold meets, inside in *. lia.
  - intros H n Hn Hm.
    assert (Hi : inside n (Z.max a (n_off n))) by (unfold meets, inside in *; lia).
    assert (Hz : a <= Z.max a (n_off n) < b) by (unfold meets in *; lia).
    apply (proj2 (content_present _ _ (Z.max a (n_off n)) W)); [exists n; auto| apply H, Hz].
Qed.

(* case "location fits within an extant node": the node ending at [cur] grows by [k] bytes *)
Lemma grow_node a c b cur k src :
  wf_from 0 (a ++ c :: b) -> n_end c = cur -> (0 < k)%N -> (k <= lenN src)%N ->
  (n_length c + k <= sm_page_size)%N -> clear (a ++ c :: b) cur (cur + Z.of_N (lenN src)) ->
  let c' := mkNode (n_off c) (n_length c + k)%N (n_data c ++ takeN k src) in
  wf_from 0 (a ++ c' :: b) /\
  (forall z, content (a ++ c' :: b) z = spec_write (content (a ++ c :: b)) cur (takeN k src) z) /\
  (b <> [] -> cur < end_from 0 (a ++ c :: b)) /\ n_end c' = cur + Z.of_N k.
Proof.
  intros W He Hk Hks Hp C c'.
  destruct (wf_from_split _ _ _ _ W) as (Sa & (Hcl & Hcp) & Hc0 & Sb).
  assert (Hend : n_end c' = cur + Z.of_N k) by (unfold n_end, n_len in *; cbn [n_off n_length c']; lia).
  assert (Hok : node_ok c').
  { split; [cbn [n_length n_data c']; rewrite lenN_app, lenN_takeN; lia|].
    unfold n_len, PAGE in *. cbn [n_length c']. lia. }
  assert (Hb : forall y, In y b -> cur + Z.of_N (lenN src) <= n_off y).
  { intros y Hy. destruct (Sb y Hy) as (H1 & (_ & H2)).
    assert (~ meets cur (cur + Z.of_N (lenN src)) y) by (apply C, in_or_app; right; right; exact Hy).
    unfold meets, n_end in *. lia. }
  assert (W' : wf_from 0 (a ++ c' :: b)).
  { rewrite wf_from_app in W |- *. destruct W as (Wa & Wc). split; [exact Wa|].
    cbn [wf_from] in Wc |- *. destruct Wc as (Wc1 & _ & Wb).
    split; [exact Wc1|]. split; [exact Hok|].
    apply (wf_from_rehead _ _ _ Wb). destruct b as [|y b]; [exact I|].
    specialize (Hb y (or_introl eq_refl)). lia. }
  split; [exact W'|]. split; [|split; [|exact Hend]].
  - intros z. rewrite (content_mid _ _ _ _ z W'). unfold spec_write.
    rewrite lenN_takeN. replace (N.min k (lenN src)) with k by lia.
    rewrite (content_mid _ _ _ _ z W).
    unfold insideb. rewrite Hend. cbn [n_off n_data c'].
    destruct ((cur <=? z) && (z <? cur + Z.of_N k)) eqn:E1.
    + replace ((n_off c <=? z) && (z <? cur + Z.of_N k)) with true by (unfold n_end, n_len in *; lia).
      rewrite nthN_app_r by (unfold n_end, n_len in *; lia). f_equal. unfold n_end, n_len in *. lia.
    + destruct ((n_off c <=? z) && (z <? n_end c)) eqn:E2.
      * replace ((n_off c <=? z) && (z <? cur + Z.of_N k)) with true by lia.
        apply nthN_app_l. unfold n_end, n_len in *. lia.
      * replace ((n_off c <=? z) && (z <? cur + Z.of_N k)) with false by lia. reflexivity.
  - intros Hne. rewrite end_from_app. cbn [end_from]. destruct b as [|y b]; [congruence|].
    pose proof (Hb y (or_introl eq_refl)) as Hy.
    assert (Wb : wf_from (n_end c) (y :: b)).
    { rewrite wf_from_app in W. destruct W as (_ & W). cbn [wf_from] in W. apply W. }
    destruct (wf_from_In _ _ _ Wb (or_introl eq_refl)) as (_ & (_ & Hyp) & Hle). unfold n_end in *. lia.
Qed.

(* case "we need a new node": a node [cur, cur+k) is inserted at its place *)
Lemma insert_node a b cur k src :
  wf_from 0 (a ++ b) -> 0 <= cur -> (0 < k)%N -> (k <= lenN src)%N -> (k <= sm_page_size)%N ->
  (forall y, In y a -> n_off y <= cur) -> (forall y, In y b -> cur < n_off y) ->
  clear (a ++ b) cur (cur + Z.of_N (lenN src)) ->
  let v' := mkNode cur k (takeN k src) in
  wf_from 0 (a ++ v' :: b) /\
  (forall z, content (a ++ v' :: b) z = spec_write (content (a ++ b)) cur (takeN k src) z) /\
  (forall y, In y a -> n_off y <> cur) /\
  (b <> [] -> cur < end_from 0 (a ++ b)) /\ (b = [] -> end_from 0 (a ++ b) <= cur).
Proof.
  intros W Hc Hk Hks Hp Ha Hb C v'.
  assert (Hend : n_end v' = cur + Z.of_N k) by reflexivity.
  assert (Hok : node_ok v').
  { split; [cbn [n_length n_data v']; rewrite lenN_takeN; lia|]. unfold n_len, PAGE. cbn [n_length v']. lia. }
  pose proof W as W0. rewrite wf_from_app in W. destruct W as (Wa & Wb).
  assert (Ha2 : forall y, In y a -> n_end y <= cur).
  { intros y Hy. destruct (wf_from_In _ _ _ Wa Hy) as (_ & (_ & Hyp) & _).
    assert (~ meets cur (cur + Z.of_N (lenN src)) y) by (apply C, in_or_app; left; exact Hy).
    specialize (Ha y Hy). unfold meets, n_end in *. lia. }
  assert (Hb2 : forall y, In y b -> cur + Z.of_N (lenN src) <= n_off y).
  { intros y Hy. destruct (wf_from_In _ _ _ Wb Hy) as (_ & (_ & Hyp) & _).
    assert (~ meets cur (cur + Z.of_N (lenN src)) y) by (apply C, in_or_app; right; exact Hy).
    specialize (Hb y Hy). unfold meets, n_end in *. lia. }
  assert (Hea : end_from 0 a <= cur) by (apply end_from_le; [exact Hc| exact Ha2| exact Wa]).
  assert (W' : wf_from 0 (a ++ v' :: b)).
  { rewrite wf_from_app. split; [exact Wa|]. cbn [wf_from]. split; [exact Hea|]. split; [exact Hok|].
    apply (wf_from_rehead _ _ _ Wb). destruct b as [|y b]; [exact I|].
    specialize (Hb2 y (or_introl eq_refl)). lia. }
  split; [exact W'|]. split; [|split; [|split]].
  - intros z. rewrite (content_mid _ _ _ _ z W'). unfold spec_write, insideb.
    rewrite lenN_takeN. replace (N.min k (lenN src)) with k by lia. rewrite Hend. reflexivity.
  - intros y Hy. destruct (wf_from_In _ _ _ Wa Hy) as (_ & (_ & Hyp) & _). specialize (Ha2 y Hy). unfold n_end in *. lia.
  - intros Hne. rewrite end_from_app. destruct b as [|y b]; [congruence|].
    destruct (wf_from_In _ _ _ Wb (or_introl eq_refl)) as (_ & (_ & Hyp) & Hle).
    specialize (Hb y (or_introl eq_refl)). unfold n_end in *. lia.
  - intros ->. rewrite app_nil_r. exact Hea.
Qed.

(* ---------- appendNode of a fresh (empty) node ---------- *)
Lemma appendNode_fresh t hi c cur : wf_from 0 (inorder t) ->
  exists t' a b,
    appendNode (mkHdr t hi c) (mkNode cur 0%N []) = (mkHdr t' hi (c + 1)%N, true) /\
    inorder t = a ++ b /\ inorder t' = a ++ mkNode cur 0%N [] :: b /\
    (forall y, In y a -> n_off y <= cur) /\ (forall y, In y b -> cur < n_off y).
Proof.
  intros W. unfold appendNode. cbn [h_nodes h_hi h_count n_off].
  set (v := mkNode cur 0%N []). set (cmp := node_compare cur (n_end v)).
  destruct (sp_insert cmp v t) as [t' dup] eqn:E.
  destruct dup as [old|].
  - exfalso. destruct (sp_insert_found cmp v t t' old E) as (_ & Hz & _).
    apply node_compare_zero in Hz. unfold meets, n_end, n_len in Hz. cbn [n_off n_length v] in Hz. lia.
  - destruct (sp_insert_new cmp v t t' (wf_mono _ _ _ _ W) E) as (a & b & H1 & H2 & Fa & Fb).
    exists t', a, b. split; [reflexivity|]. split; [exact H1|]. split; [exact H2|].
    rewrite Forall_forall in Fa, Fb. split; intros y Hy.
    + specialize (Fa y Hy). apply node_compare_pos in Fa. apply Fa.
    + specialize (Fb y Hy). apply node_compare_neg in Fb. apply Fb.
Qed.

Lemma inv_empty_tree h : Inv h -> (h_count h =? 0)%N = true -> h_nodes h = Leaf.
Proof.
  intros (_ & Hc & _) E. apply inorder_nil, lenN_nil. lia.
Qed.

Lemma inv_nonempty h : Inv h -> (h_count h =? 0)%N = false -> inorder (h_nodes h) <> [].
Proof. intros (_ & Hc & _) E Hn. rewrite Hn in Hc. cbn [lenN] in Hc. lia. Qed.

(* one iteration of the loop of mem_hdr::write *)
Lemma write_iter h cur src : Inv h -> 0 <= cur -> src <> [] ->
  clear (inorder (h_nodes h)) cur (cur + Z.of_N (lenN src)) ->
  exists h1 target h2 wrote,
    nodeToRecieve h cur = Ok (h1, target) /\ writeAvailable h1 target cur src = Ok (h2, wrote) /\
    (0 < wrote <= lenN src)%N /\ Inv h2 /\
    (forall z, cont h2 z = spec_write (cont h) cur (takeN wrote src) z).
Proof.
  intros HI Hcur Hsrc C. pose proof HI as (W & Hcnt & Hhi).
  assert (Hls : (0 < lenN src)%N) by (destruct src; [congruence| cbn [lenN]; lia]).
  pose proof page_pos as Hpage. unfold PAGE in Hpage.
  (* the "new node" path, for any tree t1 with the same in-order sequence *)
  assert (Fresh : forall t1, inorder t1 = inorder (h_nodes h) ->
    exists h2' v, appendNode (with_nodes h t1) (mkNode cur 0%N []) = (h2', true) /\ v = mkNode cur 0%N [] /\
      (inorder (h_nodes h) = [] -> leftmost (h_nodes h2') = Some v) /\
      exists h2 wrote, writeAvailable h2' v cur src = Ok (h2, wrote) /\
        (0 < wrote <= lenN src)%N /\ Inv h2 /\
        (forall z, cont h2 z = spec_write (cont h) cur (takeN wrote src) z)).
  { intros t1 Hi1. unfold with_nodes.
    destruct (appendNode_fresh t1 (h_hi h) (h_count h) cur ltac:(rewrite Hi1; exact W))
      as (t' & a & b & Ea & Hab & Hi' & Ha & Hb).
    rewrite Hi1 in Hab.
    exists (mkHdr t' (h_hi h) (h_count h + 1)%N), (mkNode cur 0%N []).
    split; [exact Ea|]. split; [reflexivity|].
    split.
    { intros Hnil. rewrite Hnil in Hab. destruct a; [|discriminate]. cbn [app] in Hab. subst b.
      rewrite leftmost_hd. cbn [h_nodes]. rewrite Hi'. reflexivity. }
    set (k := N.min (lenN src) sm_page_size).
    assert (Hk : (0 < k <= lenN src)%N /\ (k <= sm_page_size)%N) by (unfold k; lia).
    rewrite Hab in W, C.
    destruct (insert_node a b cur k src W Hcur ltac:(lia) ltac:(lia) ltac:(lia) Ha Hb C)
      as (W' & Hcont & Hane & Hbne & Hbe).
    unfold writeAvailable, canAccept, n_space, n_end, n_len. cbn [n_off n_length n_data h_nodes h_hi h_count].
    replace (cur =? cur + Z.of_N 0) with true by lia.
    replace ((0 <? sm_page_size - 0)%N) with true by lia. cbn [negb andb app].
    replace (N.min (lenN src) (sm_page_size - 0)) with k by (unfold k; lia).
    replace (0 + k)%N with k by lia.
    eexists _, k. split; [reflexivity|]. split; [lia|].
    assert (Hi2 : inorder (set_node (mkNode cur k (takeN k src)) t') = a ++ mkNode cur k (takeN k src) :: b).
    { apply set_node_split with (x := mkNode cur 0%N []); [exact Hi'| reflexivity| |].
      - intros y Hy. cbn [n_off]. apply Hane, Hy.
      - intros y Hy. cbn [n_off]. specialize (Hb y Hy). lia. }
    split.
    - unfold Inv. cbn [h_nodes h_count h_hi]. rewrite Hi2. split; [exact W'|]. split.
      + rewrite Hcnt, Hab, !lenN_app. cbn [lenN]. lia.
      + rewrite end_from_app. cbn [end_from]. change (n_end (mkNode cur k (takeN k src))) with (cur + Z.of_N k).
        rewrite Hhi, Hab. destruct b as [|y b].
        * specialize (Hbe eq_refl). cbn [end_from]. replace (end_from 0 (a ++ []) <=? cur) with true by lia. reflexivity.
        * specialize (Hbne ltac:(discriminate)). replace (end_from 0 (a ++ y :: b) <=? cur) with false by lia.
          rewrite end_from_app. reflexivity.
    - intros z. unfold cont. cbn [h_nodes]. rewrite Hi2, Hab. apply Hcont. }
  unfold nodeToRecieve.
  destruct (h_count h =? 0)%N eqn:Ec.
  - (* case 1: nothing in memory *)
    pose proof (inv_empty_tree h HI Ec) as Ht.
    destruct (Fresh (h_nodes h) eq_refl) as (h2' & v & Ea & -> & Hl & h2 & wrote & Ew & Hw & HI2 & Hc2).
    replace (with_nodes h (h_nodes h)) with h in Ea by (destruct h; reflexivity).
    rewrite Ea. rewrite Hl by (rewrite Ht; reflexivity).
    exists h2', (mkNode cur 0%N []), h2, wrote. auto.
  - (* case 2 *)
    destruct (if cur >? 0 then sp_find (node_compare (cur - 1) cur) (h_nodes h) else (h_nodes h, None))
      as [t1 cand] eqn:Ef.
    assert (Hf : inorder t1 = inorder (h_nodes h) /\
                 match cand with Some c => In c (inorder (h_nodes h)) /\ inside c (cur - 1) | None => True end).
    { destruct (cur >? 0).
      - destruct (find_spec _ _ _ _ _ _ W Ef) as (H1 & H2). split; [exact H1|].
        destruct cand as [c|]; [|exact I]. destruct H2 as (H2 & H3). split; [exact H2|].
        apply meets_point. replace (cur - 1 + 1) with cur by lia. exact H3.
      - inversion Ef; subst. split; [reflexivity| exact I]. }
    destruct Hf as (Hi1 & Hcand).
    destruct (Fresh t1 Hi1) as (h2' & v & Ea & -> & _ & h2 & wrote & Ew & Hw & HI2 & Hc2).
    rewrite Ea.
    destruct cand as [c|]; [|exists h2', (mkNode cur 0%N []), h2, wrote; auto].
    destruct (canAccept c cur) eqn:Eacc; [|exists h2', (mkNode cur 0%N []), h2, wrote; auto].
    (* the candidate accepts: it ends at [cur] and has room *)
    clear h2' h2 wrote Ea Ew Hw HI2 Hc2.
    destruct Hcand as (Hin & Hins).
    unfold canAccept in Eacc. apply andb_prop in Eacc. destruct Eacc as (Ee & Es).
    assert (Hend : n_end c = cur) by lia.
    destruct (in_split _ _ Hin) as (a & b & Hab).
    rewrite Hab in W, C.
    destruct (wf_from_split _ _ _ _ W) as (Sa & (Hcl & Hcp) & _ & Sb).
    set (k := N.min (lenN src) (n_space c)).
    assert (Hk : (0 < k <= lenN src)%N /\ (n_length c + k <= sm_page_size)%N) by (unfold k, n_space in *; lia).
    destruct (grow_node a c b cur k src W Hend ltac:(lia) ltac:(lia) ltac:(lia) C) as (W' & Hcont & Hbne & Hend').
    set (c' := mkNode (n_off c) (n_length c + k)%N (n_data c ++ takeN k src)).
    fold c' in W', Hcont, Hend'.
    assert (Ew : writeAvailable (with_nodes h t1) c cur src =
                 Ok (mkHdr (set_node c' t1) (if h_hi h <=? cur then cur + Z.of_N k else h_hi h) (h_count h), k)).
    { unfold writeAvailable, canAccept. unfold n_end in Hend |- *.
      replace (cur =? n_off c + n_len c) with true by lia. rewrite Es. cbn [negb andb].
      fold k. cbn [with_nodes h_nodes h_hi h_count]. reflexivity. }
    exists (with_nodes h t1), c. eexists _, k. split; [reflexivity|]. split; [exact Ew|]. split; [lia|].
    assert (Hi2 : inorder (set_node c' t1) = a ++ c' :: b).
    { apply set_node_split with (x := c); [rewrite Hi1; exact Hab| reflexivity| |].
      - intros y Hy. destruct (Sa y Hy) as (H1 & (_ & H2) & _). cbn [n_off c']. unfold n_end in *. lia.
      - intros y Hy. destruct (Sb y Hy) as (H1 & (_ & H2)). cbn [n_off c']. unfold n_end, n_len in *. lia. }
    split.
    + unfold Inv. cbn [h_nodes h_count h_hi]. rewrite Hi2. split; [exact W'|]. split.
      * rewrite Hcnt, Hab, !lenN_app. cbn [lenN]. reflexivity.
      * rewrite end_from_app. cbn [end_from]. rewrite Hend'. rewrite Hhi, Hab.
        destruct b as [|y b].
        -- rewrite end_from_app. cbn [end_from]. replace (n_end c <=? cur) with true by lia. reflexivity.
        -- specialize (Hbne ltac:(discriminate)). replace (end_from 0 (a ++ c :: y :: b) <=? cur) with false by lia.
           rewrite end_from_app. reflexivity.
    + intros z. unfold cont. cbn [h_nodes]. rewrite Hi2, Hab. apply Hcont.
Qed.

(* ---------- mem_hdr::write ---------- *)
Lemma inv_with_nodes h t1 : inorder t1 = inorder (h_nodes h) -> Inv h ->
  Inv (with_nodes h t1) /\ cont (with_nodes h t1) = cont h.
Proof.
  intros Hi (W & Hc & Hh). unfold Inv, cont, with_nodes. cbn [h_nodes h_hi h_count]. rewrite Hi. auto.
Qed.

Lemma spec_write_nil m off z : spec_write m off [] z = m z.
Proof. unfold spec_write. cbn [lenN]. replace ((off <=? z) && (z <? off + Z.of_N 0)) with false by lia. reflexivity. Qed.

Lemma spec_write_split m off src k z : (k <= lenN src)%N ->
  spec_write (spec_write m off (takeN k src)) (off + Z.of_N k) (dropN k src) z = spec_write m off src z.
Proof.
  intros Hk. unfold spec_write. rewrite lenN_takeN, lenN_dropN.
  replace (N.min k (lenN src)) with k by lia.
  destruct ((off + Z.of_N k <=? z) && (z <? off + Z.of_N k + Z.of_N (lenN src - k))) eqn:E1.
  - replace ((off <=? z) && (z <? off + Z.of_N (lenN src))) with true by lia.
    rewrite nthN_dropN. f_equal. lia.
  - destruct ((off <=? z) && (z <? off + Z.of_N k)) eqn:E2.
    + replace ((off <=? z) && (z <? off + Z.of_N (lenN src))) with true by lia. apply nthN_takeN. lia.
    + replace ((off <=? z) && (z <? off + Z.of_N (lenN src))) with false by lia. reflexivity.
Qed.

Lemma write_loop_ok fuel : forall h cur src, Inv h -> 0 <= cur -> (length src < fuel)%nat ->
  clear (inorder (h_nodes h)) cur (cur + Z.of_N (lenN src)) ->
  exists h', write_loop fuel h cur src = Ok h' /\ Inv h' /\ forall z, cont h' z = spec_write (cont h) cur src z.
Proof.
  induction fuel as [|f IH]; intros h cur src HI Hcur Hf C; [lia|].
  destruct src as [|b0 src0] eqn:Esrc.
  - exists h. split; [reflexivity|]. split; [exact HI|]. intros z. symmetry. apply spec_write_nil.
  - rewrite <- Esrc in *. assert (Hne : src <> []) by (rewrite Esrc; discriminate).
    destruct (write_iter h cur src HI Hcur Hne C) as (h1 & target & h2 & wrote & E1 & E2 & Hw & HI2 & Hc2).
    cbn [write_loop]. rewrite Esrc. rewrite <- Esrc. rewrite E1, E2.
    replace (wrote =? 0)%N with false by lia.
    pose proof HI as (W & _). pose proof HI2 as (W2 & _).
    assert (C2 : clear (inorder (h_nodes h2)) (cur + Z.of_N wrote) (cur + Z.of_N wrote + Z.of_N (lenN (dropN wrote src)))).
    { apply (clear_iff _ _ _ _ W2). intros z Hz. rewrite lenN_dropN in Hz. fold (cont h2 z). rewrite Hc2.
      unfold spec_write. rewrite lenN_takeN.
      replace ((cur <=? z) && (z <? cur + Z.of_N (N.min wrote (lenN src)))) with false by lia.
      apply (proj1 (clear_iff _ _ _ _ W) C). lia. }
    destruct (IH h2 (cur + Z.of_N wrote) (dropN wrote src) HI2 ltac:(lia)) as (h' & E3 & HI3 & Hc3).
    { assert (length (dropN wrote src) = N.to_nat (lenN src - wrote)) by (rewrite <- lenN_dropN; apply eq_sym, lenN_length_nat).
      assert (length src = N.to_nat (lenN src)) by (apply eq_sym, lenN_length_nat). lia. }
    { exact C2. }
    exists h'. split; [exact E3|]. split; [exact HI3|].
    intros z. rewrite Hc3. rewrite <- (spec_write_split (cont h) cur src wrote z) by lia.
    unfold spec_write at 1 3. rewrite Hc2. reflexivity.
Qed.

Theorem mh_write_spec h off data : Inv h ->
  match mh_write h off data with
  | AssertFail => off < 0
  | FatalDump => 0 <= off /\ exists z, off <= z < off + Z.of_N (lenN data) /\ cont h z <> None
  | Ok h' => 0 <= off /\ (forall z, off <= z < off + Z.of_N (lenN data) -> cont h z = None) /\
             Inv h' /\ forall z, cont h' z = spec_write (cont h) off data z
  | Stuck => False
  end.
Proof.
  intros HI. pose proof HI as (W & _). unfold mh_write.
  destruct (off <? 0) eqn:E0; [lia|].
  destruct (sp_find (node_compare off (off + Z.of_N (lenN data))) (h_nodes h)) as [t1 hit] eqn:Ef.
  destruct (find_spec _ _ _ _ _ _ W Ef) as (Hi1 & Hhit).
  destruct hit as [n|].
  - destruct Hhit as (Hin & Hm). split; [lia|].
    exists (Z.max off (n_off n)). split; [unfold meets in Hm; lia|].
    apply (proj2 (content_present _ _ _ W)). exists n. split; [exact Hin|]. unfold meets, inside in *. lia.
  - destruct (inv_with_nodes h t1 Hi1 HI) as (HI1 & Hc1).
    assert (C : clear (inorder (h_nodes (with_nodes h t1))) off (off + Z.of_N (lenN data))).
    { cbn [with_nodes h_nodes]. rewrite Hi1. exact Hhit. }
    destruct (write_loop_ok (S (length data)) (with_nodes h t1) off data HI1 ltac:(lia) ltac:(lia) C) as (h' & E & HI' & Hc').
    rewrite E. split; [lia|]. split.
    + intros z Hz. apply (proj1 (clear_iff _ _ _ _ W) Hhit z Hz).
    + split; [exact HI'|]. intros z. rewrite Hc', Hc1. reflexivity.
Qed.

(* ---------- getBlockContainingLocation ---------- *)
Lemma getBlock_spec loc t : wf_from 0 (inorder t) -> 0 <= loc \/ t = Leaf ->
  exists t' r, getBlock loc t = Ok (t', r) /\ inorder t' = inorder t /\
    match r with
    | Some n => In n (inorder t) /\ inside n loc
    | None => content (inorder t) loc = None
    end.
Proof.
  intros W Hloc. unfold getBlock, find_range. destruct t as [|l x r].
  - exists Leaf, None. auto.
  - destruct Hloc as [Hloc|Hloc]; [|discriminate]. replace (loc <? 0) with false by lia.
    destruct (sp_find (node_compare loc (loc + 1)) (Node l x r)) as [t' res] eqn:Ef.
    destruct (find_spec _ _ _ _ _ _ W Ef) as (Hi & Hr). exists t', res. split; [reflexivity|]. split; [exact Hi|].
    destruct res as [n|].
    + destruct Hr as (Hin & Hm). split; [exact Hin| apply meets_point, Hm].
    + apply content_none. intros n Hn Hins. apply (Hr n Hn). apply meets_point, Hins.
Qed.

Lemma getBlock_negative loc t : t <> Leaf -> loc < 0 -> getBlock loc t = AssertFail.
Proof. intros Ht Hl. unfold getBlock, find_range. destruct t; [congruence|]. replace (loc <? 0) with true by lia. reflexivity. Qed.

(* ---------- read_spec ---------- *)
Lemma read_spec_none m off n : m off = None -> read_spec m off n = [].
Proof. intros H. destruct n; cbn [read_spec]; [reflexivity| rewrite H; reflexivity]. Qed.

Lemma read_spec_chunk m chunk : forall loc n,
  (forall i, (i < lenN chunk)%N -> m (loc + Z.of_N i) = nthN i chunk) -> (length chunk <= n)%nat ->
  read_spec m loc n = chunk ++ read_spec m (loc + Z.of_N (lenN chunk)) (n - length chunk).
Proof.
  induction chunk as [|b chunk IH]; intros loc n H Hn.
  - cbn [lenN app length]. replace (loc + Z.of_N 0) with loc by lia. replace (n - 0)%nat with n by lia. reflexivity.
  - destruct n as [|n]; [cbn [length] in Hn; lia|]. cbn [read_spec].
    pose proof (H 0%N ltac:(cbn [lenN]; lia)) as H0. cbn [nthN N.eqb] in H0. replace (loc + Z.of_N 0) with loc in H0 by lia.
    rewrite H0. cbn [app length Nat.sub]. f_equal.
    rewrite (IH (loc + 1) n).
    + cbn [lenN]. f_equal. f_equal. lia.
    + intros i Hi. specialize (H (N.succ i) ltac:(cbn [lenN]; lia)). cbn [nthN] in H.
      replace (N.succ i =? 0)%N with false in H by lia. replace (N.pred (N.succ i)) with i in H by lia.
      rewrite <- H. f_equal. lia.
    + cbn [length] in Hn. lia.
Qed.

(* ---------- mem_hdr::copy ---------- *)
Definition after (loc : Z) (l : list node) : nat := length (filter (fun n => loc <? n_end n) l).

Lemma after_mono loc loc' l : loc <= loc' -> (after loc' l <= after loc l)%nat.
Proof.
  intros H. unfold after. induction l as [|x l IH]; cbn [filter length]; [lia|].
  destruct (loc' <? n_end x) eqn:E1; destruct (loc <? n_end x) eqn:E2; cbn [length]; lia.
Qed.

Lemma after_lt loc loc' l n : In n l -> loc < n_end n -> n_end n <= loc' -> loc <= loc' ->
  (after loc' l < after loc l)%nat.
Proof.
  intros Hin H1 H2 H3. induction l as [|x l IH]; [destruct Hin|].
  unfold after in *. cbn [filter]. destruct Hin as [->|Hin].
  - replace (loc' <? n_end n) with false by lia. replace (loc <? n_end n) with true by lia. cbn [length].
    pose proof (after_mono loc loc' l H3). unfold after in *. lia.
  - specialize (IH Hin). destruct (loc' <? n_end x) eqn:E1; destruct (loc <? n_end x) eqn:E2; cbn [length]; lia.
Qed.

Lemma after_le_length loc l : (after loc l <= length l)%nat.
Proof. unfold after. induction l as [|x l IH]; cbn [filter length]; [lia|]. destruct (loc <? n_end x); cbn [length]; lia. Qed.

Lemma copyAvailable_spec l n loc togo : wf_from 0 l -> In n l -> inside n loc -> (0 < togo)%N ->
  exists chunk, copyAvailable n loc togo = Ok chunk /\
    lenN chunk = N.min togo (Z.to_N (n_end n - loc)) /\ (0 < lenN chunk)%N /\
    forall i, (i < lenN chunk)%N -> content l (loc + Z.of_N i) = nthN i chunk.
Proof.
  intros W Hin Hins Htg. destruct (wf_from_In _ _ _ W Hin) as (_ & (Hl & Hp) & _).
  unfold copyAvailable. unfold inside in Hins.
  replace (n_off n >? loc) with false by lia. replace (n_end n >? loc) with true by lia. cbn [negb].
  set (co := Z.to_N (loc - n_off n)). set (k := N.min togo (n_length n - co)).
  exists (takeN k (dropN co (n_data n))). split; [reflexivity|].
  assert (Hlen : lenN (takeN k (dropN co (n_data n))) = k).
  { rewrite lenN_takeN, lenN_dropN. unfold k. rewrite <- Hl. lia. }
  rewrite Hlen. unfold n_end, n_len in *.
  split; [unfold k, co; lia|]. split; [unfold k, co; lia|].
  intros i Hi. rewrite (content_in _ _ n _ W Hin) by (unfold inside, n_end, n_len, k, co in *; lia).
  rewrite nthN_takeN by exact Hi. rewrite nthN_dropN. f_equal. unfold co. lia.
Qed.

Lemma copy_loop_ok l : wf_from 0 l -> forall fuel t n togo loc acc,
  inorder t = l -> In n l -> inside n loc -> (after loc l < fuel)%nat ->
  exists t', copy_loop fuel t (Some n) togo loc acc = Ok (t', acc ++ read_spec (content l) loc (N.to_nat togo)) /\
             inorder t' = l.
Proof.
  intros W. induction fuel as [|f IH]; intros t n togo loc acc Hi Hin Hins Hf; [lia|].
  cbn [copy_loop]. destruct (togo =? 0)%N eqn:Etg.
  - exists t. replace (N.to_nat togo) with O by lia. cbn [read_spec]. rewrite app_nil_r. auto.
  - destruct (copyAvailable_spec l n loc togo W Hin Hins ltac:(lia)) as (chunk & Ec & Hlen & Hpos & Hbytes).
    rewrite Ec. replace (lenN chunk =? 0)%N with false by lia.
    set (loc' := loc + Z.of_N (lenN chunk)).
    assert (Hloc : 0 <= loc').
    { destruct (wf_from_In _ _ _ W Hin) as (H0 & _). unfold inside in Hins. unfold loc'. lia. }
    destruct (getBlock_spec loc' t ltac:(rewrite Hi; exact W) (or_introl Hloc)) as (t' & p' & Eg & Hi' & Hp').
    rewrite Eg. rewrite Hi in Hi', Hp'.
    assert (Hsplit : read_spec (content l) loc (N.to_nat togo) =
                     chunk ++ read_spec (content l) loc' (N.to_nat togo - length chunk)).
    { apply read_spec_chunk; [exact Hbytes|]. rewrite <- lenN_length_nat. lia. }
    rewrite Hsplit, app_assoc.
    replace (N.to_nat togo - length chunk)%nat with (N.to_nat (togo - lenN chunk)) by (rewrite <- lenN_length_nat; lia).
    destruct p' as [n'|].
    + destruct Hp' as (Hin' & Hins').
      destruct (togo - lenN chunk =? 0)%N eqn:Erest.
      * exists t'. destruct f; cbn [copy_loop]; rewrite Erest;
          (replace (N.to_nat (togo - lenN chunk)) with O by lia); cbn [read_spec]; rewrite app_nil_r; auto.
      * apply IH; try assumption.
        assert (n_end n <= loc') by (unfold loc'; unfold inside in Hins; lia).
        assert (after loc' l < after loc l)%nat
          by (apply (after_lt loc loc' l n Hin); unfold inside in Hins; unfold loc'; lia).
        lia.
    + exists t'. rewrite (read_spec_none _ _ _ Hp'), app_nil_r.
      destruct f; cbn [copy_loop]; auto.
Qed.

Theorem mh_copy_spec h off len : Inv h ->
  match mh_copy h off len with
  | AssertFail => len = 0%N \/ inorder (h_nodes h) = [] \/ off < 0
  | FatalDump => (0 < len)%N /\ 0 <= off /\ inorder (h_nodes h) <> [] /\ cont h off = None
  | Ok (h', got) => (0 < len)%N /\ cont h off <> None /\
                    got = read_spec (cont h) off (N.to_nat len) /\
                    Inv h' /\ forall z, cont h' z = cont h z
  | Stuck => False
  end.
Proof.
  intros HI. pose proof HI as (W & Hcnt & _). unfold mh_copy.
  destruct (off + Z.of_N len >? off) eqn:E0; cbn [negb]; [|left; lia].
  destruct (h_count h =? 0)%N eqn:Ec.
  - right. left. rewrite (inv_empty_tree h HI Ec). reflexivity.
  - pose proof (inv_nonempty h HI Ec) as Hne.
    destruct (Z.ltb_spec off 0) as [Hneg|Hpos].
    + rewrite getBlock_negative; [right; right; exact Hneg| | exact Hneg].
      intros Ht. apply Hne. rewrite Ht. reflexivity.
    + destruct (getBlock_spec off (h_nodes h) W (or_introl Hpos)) as (t1 & p & Eg & Hi1 & Hp). rewrite Eg.
      destruct p as [n|].
      * destruct Hp as (Hin & Hins).
        destruct (copy_loop_ok _ W (S (tree_size t1)) t1 n len off [] Hi1 Hin Hins) as (t2 & El & Hi2).
        { pose proof (after_le_length off (inorder (h_nodes h))). rewrite <- inorder_length, Hi1. lia. }
        rewrite El. cbn [app]. split; [lia|]. split.
        { apply (proj2 (content_present _ _ _ W)). exists n. auto. }
        split; [reflexivity|].
        destruct (inv_with_nodes h t2 Hi2 HI) as (HI2 & Hc2). split; [exact HI2|]. intros z. rewrite Hc2. reflexivity.
      * split; [lia|]. split; [exact Hpos|]. split; [exact Hne| exact Hp].
Qed.

(* ---------- mem_hdr::hasContigousContentRange ---------- *)
Lemma after_pos loc l n : In n l -> loc < n_end n -> (1 <= after loc l)%nat.
Proof. intros Hin H. pose proof (after_lt loc (n_end n) l n Hin H ltac:(lia) ltac:(lia)). lia. Qed.

Lemma contig_loop_ok l : wf_from 0 l -> forall fuel t cur a b,
  inorder t = l -> 0 <= cur \/ l = [] -> a <= cur -> (a < b -> cur < b) ->
  (forall z, a <= z < cur -> content l z <> None) -> (after cur l <= fuel)%nat ->
  exists t' r, contig_loop fuel t cur a b = Ok (t', r) /\ inorder t' = l /\
    (r = true <-> forall z, a <= z < b -> content l z <> None).
Proof.
  intros W. induction fuel as [|f IH]; intros t cur a b Hi Hcur Ha Hb Hpre Hf.
  - (* the last permitted iteration: it cannot continue *)
    assert (Hloc : 0 <= cur \/ t = Leaf).
    { destruct Hcur as [H|H]; [left; exact H| right; apply inorder_nil; rewrite Hi; exact H]. }
    destruct (getBlock_spec cur t ltac:(rewrite Hi; exact W) Hloc) as (t' & p & Eg & Hi' & Hp).
    cbn [contig_loop]. rewrite Eg. rewrite Hi in Hi', Hp. destruct p as [n|].
    + destruct Hp as (Hin & Hins). unfold inside in Hins. pose proof (after_pos cur l n Hin ltac:(lia)). lia.
    + exists t', (range_size a b =? 0). split; [reflexivity|]. split; [exact Hi'|].
      unfold range_size. destruct (b >? a) eqn:Eab.
      * split; [lia|]. intros H. exfalso. apply (H cur); [lia| exact Hp].
      * split; [|reflexivity]. intros _ z Hz. lia.
  - assert (Hloc : 0 <= cur \/ t = Leaf).
    { destruct Hcur as [H|H]; [left; exact H| right; apply inorder_nil; rewrite Hi; exact H]. }
    destruct (getBlock_spec cur t ltac:(rewrite Hi; exact W) Hloc) as (t' & p & Eg & Hi' & Hp).
    cbn [contig_loop]. rewrite Eg. rewrite Hi in Hi', Hp. destruct p as [n|].
    + destruct Hp as (Hin & Hins).
      assert (Hcov : forall z, a <= z < n_end n -> content l z <> None).
      { intros z Hz. destruct (Z.ltb_spec z cur) as [Hlt|Hge]; [apply Hpre; lia|].
        apply (proj2 (content_present _ _ _ W)). exists n. split; [exact Hin|]. unfold inside in *. lia. }
      destruct (n_end n >=? b) eqn:Edone.
      * exists t', true. split; [reflexivity|]. split; [exact Hi'|]. split; [|reflexivity].
        intros _ z Hz. apply Hcov. lia.
      * unfold inside in Hins.
        assert (Hn0 : 0 <= n_end n) by (destruct (wf_from_In _ _ _ W Hin) as (H0 & _); lia).
        apply (IH t' (n_end n) a b Hi' (or_introl Hn0)); [lia| lia| exact Hcov|].
        pose proof (after_lt cur (n_end n) l n Hin ltac:(lia) ltac:(lia) ltac:(lia)). lia.
    + exists t', (range_size a b =? 0). split; [reflexivity|]. split; [exact Hi'|].
      unfold range_size. destruct (b >? a) eqn:Eab.
      * split; [lia|]. intros H. exfalso. apply (H cur); [lia| exact Hp].
      * split; [|reflexivity]. intros _ z Hz. lia.
Qed.

Theorem mh_hasContig_spec h a b : Inv h ->
  match mh_hasContig h a b with
  | AssertFail => a < 0 /\ inorder (h_nodes h) <> []
  | Ok (h', r) => (0 <= a \/ inorder (h_nodes h) = []) /\
                  (r = true <-> forall z, a <= z < b -> cont h z <> None) /\
                  Inv h' /\ forall z, cont h' z = cont h z
  | FatalDump => False
  | Stuck => False
  end.
Proof.
  intros HI. pose proof HI as (W & _). unfold mh_hasContig.
  destruct (Z.ltb_spec a 0) as [Hneg|Hpos]; [destruct (inorder (h_nodes h)) as [|x q] eqn:El|].
  - (* negative start, empty object *)
    destruct (contig_loop_ok _ W (S (tree_size (h_nodes h))) (h_nodes h) a a b El
                (or_intror eq_refl) ltac:(lia) ltac:(lia) ltac:(intros; lia) ltac:(cbn; lia)) as (t' & r & E & Hi' & Hr).
    rewrite E. split; [right; reflexivity|]. split; [unfold cont; rewrite El; exact Hr|].
    destruct (inv_with_nodes h t' ltac:(rewrite Hi', El; reflexivity) HI) as (HI' & Hc'). split; [exact HI'|].
    intros z. rewrite Hc'. reflexivity.
  - (* negative start, stored nodes: mem_node::start() asserts *)
    cbn [contig_loop]. rewrite getBlock_negative; [split; [exact Hneg| discriminate]| | exact Hneg].
    intros Ht. rewrite Ht in El. discriminate.
  - destruct (contig_loop_ok _ W (S (tree_size (h_nodes h))) (h_nodes h) a a b eq_refl
                (or_introl Hpos) ltac:(lia) ltac:(lia) ltac:(intros; lia)) as (t' & r & E & Hi' & Hr).
    { pose proof (after_le_length a (inorder (h_nodes h))). rewrite <- inorder_length. lia. }
    rewrite E. split; [left; exact Hpos|]. split; [exact Hr|].
    destruct (inv_with_nodes h t' Hi' HI) as (HI' & Hc'). split; [exact HI'|].
    intros z. rewrite Hc'. reflexivity.
Qed.

(* ---------- mem_hdr::endOffset / lowestOffset ---------- *)
Lemma content_last lo l : wf_from lo l -> l <> [] -> content l (end_from lo l - 1) <> None.
Proof.
  revert lo. induction l as [|x r IH]; intros lo W Hne; [congruence|].
  apply (proj2 (content_present _ _ _ W)). cbn [end_from].
  destruct r as [|y r].
  - exists x. split; [left; reflexivity|]. destruct W as (_ & (_ & Hp) & _). cbn [end_from]. unfold inside, n_end in *. lia.
  - destruct W as (_ & _ & Wr).
    destruct (proj1 (content_present _ _ _ Wr) (IH _ Wr ltac:(discriminate))) as (n & Hn & Hi).
    exists n. split; [right; exact Hn| exact Hi].
Qed.

Theorem mh_endOffset_spec h : Inv h ->
  exists e, mh_endOffset h = Ok e /\
    (forall z, e <= z -> cont h z = None) /\
    (inorder (h_nodes h) <> [] -> cont h (e - 1) <> None) /\
    (inorder (h_nodes h) = [] -> e = 0).
Proof.
  intros (W & _ & Hhi). unfold mh_endOffset.
  assert (E : match rightmost (h_nodes h) with Some n => n_end n | None => 0 end = end_from 0 (inorder (h_nodes h))).
  { destruct (h_nodes h) as [|l x r] eqn:Et; [reflexivity|].
    pose proof (rightmost_end 0 (Node l x r) ltac:(discriminate)) as H.
    destruct (rightmost (Node l x r)); [exact H| destruct H]. }
  rewrite E, Hhi, Z.eqb_refl. eexists. split; [reflexivity|]. split; [|split].
  - intros z Hz. apply (content_beyond _ _ _ W Hz).
  - intros Hne. apply (content_last _ _ W Hne).
  - intros ->. reflexivity.
Qed.

Lemma lowest_spec l : wf_from 0 l ->
  let lo := match hd_error l with Some n => n_off n | None => 0 end in
  (forall z, z < lo -> content l z = None) /\ (l <> [] -> content l lo <> None) /\ (l = [] -> lo = 0).
Proof.
  intros W. destruct l as [|x r]; cbn [hd_error].
  - split; [reflexivity|]. split; [congruence| reflexivity].
  - split; [|split; [|discriminate]].
    + intros z Hz. apply (content_below (n_off x)); [|exact Hz].
      apply (wf_from_rehead _ _ _ W). lia.
    + intros _. apply (proj2 (content_present _ _ _ W)). exists x. split; [left; reflexivity|].
      destruct W as (_ & (_ & Hp) & _). unfold inside, n_end. lia.
Qed.

(* ---------- mem_hdr::freeDataUpto ---------- *)
Lemma free_loop_unfold fuel h target : free_loop fuel h target =
  match inorder (h_nodes h) with
  | [] => Ok h
  | [_] => Ok h
  | s :: _ :: _ =>
      if n_end s >? target then Ok h
      else match fuel with
           | O => Stuck
           | S f =>
               let '(t', removed) := sp_remove (node_compare (n_off s) (n_end s)) (h_nodes h) in
               if removed then free_loop f (mkHdr t' (h_hi h) (h_count h - 1)%N) target else Stuck
           end
  end.
Proof.
  pose proof (single_shape (h_nodes h)) as Hs. pose proof (leftmost_hd (h_nodes h)) as Hl.
  destruct fuel as [|f]; cbn [free_loop];
  (destruct (h_nodes h) as [|l x r] eqn:Et; [reflexivity|]);
  (destruct l as [|ll lx lr]; [destruct r as [|rl rx rr]; [reflexivity|]|]);
  rewrite Hl; (destruct (inorder _) as [|s [|s2 q]]; cbn [length] in Hs; try lia); reflexivity.
Qed.

Definition free_post (h : mem_hdr) (target : Z) (h' : mem_hdr) (d : list node) : Prop :=
  Inv h' /\
  inorder (h_nodes h) = d ++ inorder (h_nodes h') /\
  (forall n, In n d -> n_end n <= target) /\
  (inorder (h_nodes h) <> [] -> inorder (h_nodes h') <> []) /\
  h_hi h' = h_hi h /\
  match inorder (h_nodes h') with
  | [] => True
  | [_] => True
  | x :: _ :: _ => target < n_end x
  end.

Lemma free_post_refl h target : Inv h ->
  match inorder (h_nodes h) with [] => True | [_] => True | x :: _ :: _ => target < n_end x end ->
  free_post h target h [].
Proof.
  intros HI Hm. unfold free_post. split; [exact HI|]. split; [reflexivity|]. split; [intros n []|].
  split; [auto|]. split; [reflexivity| exact Hm].
Qed.

Lemma free_loop_ok fuel : forall h target, Inv h -> (length (inorder (h_nodes h)) <= fuel)%nat ->
  exists h' d, free_loop fuel h target = Ok h' /\ free_post h target h' d.
Proof.
  induction fuel as [|f IH]; intros h target HI Hf; rewrite free_loop_unfold.
  - pose proof (free_post_refl h target HI) as R.
    destruct (inorder (h_nodes h)) as [|s [|s2 q]] eqn:El; cbn [length] in Hf; try lia;
      exists h, []; (split; [reflexivity| apply R; exact I]).
  - pose proof (free_post_refl h target HI) as R.
    destruct (inorder (h_nodes h)) as [|s [|s2 q]] eqn:El;
      [exists h, []; (split; [reflexivity| apply R; exact I]) .. |].
    destruct (n_end s >? target) eqn:Et; [exists h, []; split; [reflexivity| apply R; lia]|]. clear R.
    pose proof HI as (W & Hcnt & Hhi). rewrite El in W, Hcnt, Hhi.
    pose proof (wf_from_later _ _ _ W) as Later.
    destruct W as (W0 & (Hsl & Hsp) & Wr).
    destruct (sp_remove_spec (node_compare (n_off s) (n_end s)) (h_nodes h) [] s (s2 :: q)) as (t' & Er & Hi').
    { exact El. }
    { apply node_compare_zero. unfold meets, n_end in *. lia. }
    { constructor. }
    { rewrite Forall_forall. intros y Hy. destruct (Later y Hy) as (H1 & (_ & H2)).
      apply node_compare_neg. unfold meets, n_end in *. lia. }
    rewrite Er. cbn [app] in Hi'.
    set (h1 := mkHdr t' (h_hi h) (h_count h - 1)%N).
    assert (HI1 : Inv h1).
    { unfold Inv, h1. cbn [h_nodes h_hi h_count]. rewrite Hi'. split; [|split].
      - apply (wf_from_weaken (n_end s)); [unfold n_end; lia| exact Wr].
      - rewrite Hcnt. cbn [lenN]. lia.
      - rewrite Hhi. cbn [end_from]. reflexivity. }
    destruct (IH h1 target HI1) as (h' & d & E & HI' & Hd & Hdn & Hne & Hhi' & Hhead).
    { unfold h1. cbn [h_nodes]. rewrite Hi'. cbn [length] in Hf |- *. lia. }
    exists h', (s :: d). split; [exact E|]. unfold free_post. rewrite El.
    split; [exact HI'|]. split; [|split; [|split; [|split]]].
    + unfold h1 in Hd. cbn [h_nodes] in Hd. rewrite Hi' in Hd. cbn [app]. rewrite <- Hd. reflexivity.
    + intros n [<-|Hn]; [lia| apply Hdn, Hn].
    + intros _. apply Hne. unfold h1. cbn [h_nodes]. rewrite Hi'. discriminate.
    + rewrite Hhi'. reflexivity.
    + exact Hhead.
Qed.

Lemma content_suffix d l' z : wf_from 0 (d ++ l') ->
  (forall b, content l' z = Some b -> content (d ++ l') z = Some b) /\
  ((forall n, In n d -> ~ inside n z) -> content l' z = content (d ++ l') z).
Proof.
  intros W. pose proof W as W2. rewrite wf_from_app in W2. destruct W2 as (_ & Wl).
  assert (Hsub : forall b, content l' z = Some b -> content (d ++ l') z = Some b).
  { intros b Hb. destruct (content_some_in _ _ _ Hb) as (n & Hn & Hi & Hv).
    rewrite (content_in _ _ n _ W); [exact Hv| apply in_or_app; right; exact Hn| exact Hi]. }
  split; [exact Hsub|]. intros Hd.
  destruct (content (d ++ l') z) as [b|] eqn:E.
  - destruct (content_some_in _ _ _ E) as (n & Hn & Hi & Hv).
    apply in_app_or in Hn. destruct Hn as [Hn|Hn]; [exfalso; exact (Hd n Hn Hi)|].
    rewrite (content_in _ _ n _ Wl Hn Hi). exact Hv.
  - destruct (content l' z) as [b|] eqn:E2; [|reflexivity]. discriminate (Hsub b eq_refl).
Qed.

Theorem mh_free_spec h target : Inv h ->
  match mh_free h target with
  | Ok (h', lo) =>
      Inv h' /\
      (* nothing at or above the target is released or changed *)
      (forall z, target <= z -> cont h' z = cont h z) /\
      (* what remains below is unchanged *)
      (forall z b, cont h' z = Some b -> cont h z = Some b) /\
      (* whole leading nodes ending at or below the target go; the last node stays *)
      (exists d, inorder (h_nodes h) = d ++ inorder (h_nodes h') /\ forall n, In n d -> n_end n <= target) /\
      (inorder (h_nodes h) <> [] -> inorder (h_nodes h') <> []) /\
      h_hi h' = h_hi h /\
      (* the answer is the lowest stored offset *)
      (forall z, z < lo -> cont h' z = None) /\
      (inorder (h_nodes h) <> [] -> cont h' lo <> None) /\
      (inorder (h_nodes h) = [] -> lo = 0)
  | AssertFail => False
  | FatalDump => False
  | Stuck => False
  end.
Proof.
  intros HI. unfold mh_free.
  destruct (free_loop_ok (S (tree_size (h_nodes h))) h target HI) as (h' & d & E & HI' & Hd & Hdn & Hne & Hhi & _).
  { rewrite inorder_length. lia. }
  rewrite E. pose proof HI as (W & _). pose proof HI' as (W' & _). rewrite Hd in W.
  split; [exact HI'|]. split; [|split; [|split; [|split; [|split]]]].
  - intros z Hz. unfold cont. rewrite Hd. apply (content_suffix d _ z W).
    intros n Hn Hi. specialize (Hdn n Hn). unfold inside in Hi. lia.
  - intros z b Hb. unfold cont in *. rewrite Hd. apply (content_suffix d _ z W), Hb.
  - exists d. auto.
  - exact Hne.
  - exact Hhi.
  - unfold mh_lowestOffset. rewrite leftmost_hd.
    destruct (lowest_spec _ W') as (L1 & L2 & L3). split; [exact L1|]. split.
    + intros Hn. apply L2, Hne, Hn.
    + intros Hn. apply L3. rewrite Hn in Hd. destruct d; [|discriminate]. cbn [app] in Hd. symmetry. exact Hd.
Qed.

(* ---------- the specification of one operation on a partial map ---------- *)
Definition stored (m : pmap) : Prop := exists z, m z <> None.
Definition vacant (m : pmap) : Prop := forall z, m z = None.
Definition same (m m' : pmap) : Prop := forall z, m' z = m z.

(* [spec_step m o r m']: on the map m, operation o may answer r and leave m'.
   The only freedom is in OFree (how much below the target is released). *)
Definition spec_step (m : pmap) (o : op) (r : out) (m' : pmap) : Prop :=
  match o, r with
  | OWrite off data, RWrite =>
      0 <= off /\ (forall z, off <= z < off + Z.of_N (lenN data) -> m z = None) /\
      (forall z, m' z = spec_write m off data z)
  | OWrite off data, RFatal =>
      0 <= off /\ (exists z, off <= z < off + Z.of_N (lenN data) /\ m z <> None) /\ same m m'
  | OWrite off data, RAssert => off < 0 /\ same m m'
  | OFree target, RFree lo =>
      (forall z, target <= z -> m' z = m z) /\
      (forall z b, m' z = Some b -> m z = Some b) /\
      (forall e, (forall z, e <= z -> m z = None) -> m (e - 1) <> None -> m' (e - 1) <> None) /\
      (forall z, z < lo -> m' z = None) /\
      (stored m -> m' lo <> None) /\
      (vacant m -> lo = 0)
  | OCopy off len, RCopy got =>
      (0 < len)%N /\ m off <> None /\ got = read_spec m off (N.to_nat len) /\ same m m'
  | OCopy off len, RFatal => (0 < len)%N /\ 0 <= off /\ stored m /\ m off = None /\ same m m'
  | OCopy off len, RAssert => (len = 0%N \/ vacant m \/ off < 0) /\ same m m'
  | OHas a b, RHas ans =>
      (0 <= a \/ vacant m) /\ (ans = true <-> forall z, a <= z < b -> m z <> None) /\ same m m'
  | OHas a b, RAssert => a < 0 /\ stored m /\ same m m'
  | OEnd, REnd e =>
      (forall z, e <= z -> m z = None) /\ (stored m -> m (e - 1) <> None) /\ (vacant m -> e = 0) /\ same m m'
  | OLow, RLow lo =>
      (forall z, z < lo -> m z = None) /\ (stored m -> m lo <> None) /\ (vacant m -> lo = 0) /\ same m m'
  | _, _ => False
  end.

Inductive spec_trace : pmap -> list op -> list out -> pmap -> Prop :=
| st_nil m : spec_trace m [] [] m
| st_stop m o rest r m' : spec_step m o r m' -> abnormal r = true -> spec_trace m (o :: rest) [r] m'
| st_cons m o rest r m1 rs m' : spec_step m o r m1 -> abnormal r = false ->
    spec_trace m1 rest rs m' -> spec_trace m (o :: rest) (r :: rs) m'.

(* ---------- stored <-> some node ---------- *)
Lemma stored_iff h : Inv h -> (stored (cont h) <-> inorder (h_nodes h) <> []).
Proof.
  intros (W & _). unfold stored, cont. split.
  - intros (z & Hz) Hn. rewrite Hn in Hz. apply Hz. reflexivity.
  - intros Hne. exists (end_from 0 (inorder (h_nodes h)) - 1). apply (content_last _ _ W Hne).
Qed.

Lemma vacant_iff h : Inv h -> (vacant (cont h) <-> inorder (h_nodes h) = []).
Proof.
  intros HI. unfold vacant. split.
  - intros Hv. destruct (inorder (h_nodes h)) as [|x q] eqn:E; [reflexivity|]. exfalso.
    destruct (proj2 (stored_iff h HI)) as (z & Hz); [rewrite E; discriminate|]. apply Hz, Hv.
  - intros Hn z. unfold cont. rewrite Hn. reflexivity.
Qed.

Lemma inv_empty : Inv mh_empty.
Proof. unfold Inv, mh_empty. cbn. auto. Qed.

Lemma cont_empty z : cont mh_empty z = None.
Proof. reflexivity. Qed.

(* ---------- every operation refines the specification ---------- *)
Theorem step_refines h o : Inv h ->
  Inv (fst (mh_step h o)) /\ spec_step (cont h) o (snd (mh_step h o)) (cont (fst (mh_step h o))).
Proof.
  intros HI. pose proof (stored_iff h HI) as Hst. pose proof (vacant_iff h HI) as Hva.
  assert (Hsame : same (cont h) (cont h)) by (intros z; reflexivity).
  destruct o as [off data|target|off len|a b| |]; unfold mh_step, lift.
  - pose proof (mh_write_spec h off data HI) as H. destruct (mh_write h off data) as [h'| | |]; cbn [fst snd spec_step].
    + destruct H as (H0 & H1 & HI' & Hc). auto.
    + auto.
    + destruct H as (H0 & H1). auto.
    + destruct H.
  - pose proof (mh_free_spec h target HI) as H. destruct (mh_free h target) as [[h' lo]| | |]; [|destruct H..].
    cbn [fst snd spec_step].
    destruct H as (HI' & H1 & H2 & (d & Hd & Hdn) & Hne & Hhi & L1 & L2 & L3).
    split; [exact HI'|]. split; [exact H1|]. split; [exact H2|]. split; [|split; [exact L1|split]].
    + intros e He1 He2.
      assert (Hl : inorder (h_nodes h) <> []) by (apply Hst; exists (e - 1); exact He2).
      pose proof HI as (W & _ & Hh). pose proof HI' as (W' & _ & Hh').
      assert (Ee : e = h_hi h).
      { pose proof (content_last _ _ W Hl) as Hlast. rewrite <- Hh in Hlast.
        destruct (Z.lt_trichotomy e (h_hi h)) as [Hlt|[Heq|Hgt]]; [|exact Heq|].
        - exfalso. apply Hlast. apply He1. lia.
        - exfalso. apply He2. apply (content_beyond _ _ _ W). rewrite <- Hh. lia. }
      subst e. rewrite <- Hhi, Hh'. apply (content_last _ _ W'). apply Hne, Hl.
    + intros Hs. apply L2, Hst, Hs.
    + intros Hv. apply L3, Hva, Hv.
  - pose proof (mh_copy_spec h off len HI) as H. destruct (mh_copy h off len) as [[h' got]| | |]; cbn [fst snd spec_step].
    + destruct H as (H0 & H1 & H2 & HI' & Hc). auto.
    + split; [exact HI|]. split; [|exact Hsame]. destruct H as [H|[H|H]]; [left; exact H| right; left; apply Hva, H| right; right; exact H].
    + destruct H as (H0 & H1 & H2 & H3). split; [exact HI|]. split; [exact H0|]. split; [exact H1|]. split; [apply Hst, H2|]. auto.
    + destruct H.
  - pose proof (mh_hasContig_spec h a b HI) as H. destruct (mh_hasContig h a b) as [[h' ans]| | |]; cbn [fst snd spec_step].
    + destruct H as (H0 & H1 & HI' & Hc). split; [exact HI'|]. split; [|split; [exact H1| exact Hc]].
      destruct H0 as [H0|H0]; [left; exact H0| right; apply Hva, H0].
    + destruct H as (H0 & H1). split; [exact HI|]. split; [exact H0|]. split; [apply Hst, H1| exact Hsame].
    + destruct H.
    + destruct H.
  - destruct (mh_endOffset_spec h HI) as (e & E & H1 & H2 & H3). rewrite E. cbn [fst snd spec_step].
    split; [exact HI|]. split; [exact H1|]. split; [intros Hs; apply H2, Hst, Hs|]. split; [intros Hv; apply H3, Hva, Hv| exact Hsame].
  - cbn [fst snd spec_step]. pose proof HI as (W & _).
    unfold mh_lowestOffset. rewrite leftmost_hd. destruct (lowest_spec _ W) as (L1 & L2 & L3).
    split; [exact HI|]. split; [exact L1|]. split; [intros Hs; apply L2, Hst, Hs|]. split; [intros Hv; apply L3, Hva, Hv| exact Hsame].
Qed.

(* ---------- all histories ---------- *)
Theorem run_refines ops : forall h, Inv h ->
  Inv (snd (mh_run h ops)) /\ spec_trace (cont h) ops (fst (mh_run h ops)) (cont (snd (mh_run h ops))).
Proof.
  induction ops as [|o rest IH]; intros h HI; cbn [mh_run].
  - cbn [fst snd]. split; [exact HI| constructor].
  - destruct (step_refines h o HI) as (HI1 & Hs). destruct (mh_step h o) as [h1 r]. cbn [fst snd] in HI1, Hs.
    destruct (abnormal r) eqn:Ea.
    + cbn [fst snd]. split; [exact HI1| apply st_stop; assumption].
    + destruct (IH h1 HI1) as (HI2 & Ht). destruct (mh_run h1 rest) as [rs hf]. cbn [fst snd] in *.
      split; [exact HI2| eapply st_cons; eassumption].
Qed.

Lemma spec_trace_never_stuck m ops outs m' : spec_trace m ops outs m' -> ~ In RStuck outs.
Proof.
  induction 1 as [m|m o rest r m' Hs Ha|m o rest r m1 rs m' Hs Ha Ht IH].
  - intros [].
  - intros [E|[]]. subst r. destruct o; exact Hs.
  - intros [E|Hin]; [subst r; destruct o; exact Hs| exact (IH Hin)].
Qed.

Theorem histories_refine ops :
  Inv (snd (mh_run mh_empty ops)) /\
  spec_trace (fun _ => None) ops (fst (mh_run mh_empty ops)) (cont (snd (mh_run mh_empty ops))) /\
  ~ In RStuck (fst (mh_run mh_empty ops)).
Proof.
  destruct (run_refines ops mh_empty inv_empty) as (HI & Ht). split; [exact HI|]. split; [exact Ht|].
  exact (spec_trace_never_stuck _ _ _ _ Ht).
Qed.

(* the stored nodes of every reachable header: sorted, disjoint, 1..SM_PAGE_SIZE bytes, length field exact *)
Theorem reachable_nodes_wf ops :
  let h := snd (mh_run mh_empty ops) in
  wf_from 0 (inorder (h_nodes h)) /\ h_count h = lenN (inorder (h_nodes h)) /\
  h_hi h = end_from 0 (inorder (h_nodes h)).
Proof. exact (proj1 (histories_refine ops)). Qed.

(* ---------- the data[] array holds a full node ---------- *)
Lemma data_capacity_ok : (sm_page_size <= mem_node_data_capacity)%N.
Proof. unfold N.le. vm_compute. discriminate. Qed.

Lemma page_size_positive : (0 < sm_page_size)%N.
Proof. reflexivity. Qed.

Theorem reachable_nodes_fit ops n :
  In n (inorder (h_nodes (snd (mh_run mh_empty ops)))) ->
  n_length n = lenN (n_data n) /\ (0 < n_length n <= mem_node_data_capacity)%N /\ 0 <= n_off n.
Proof.
  intros Hin. destruct (reachable_nodes_wf ops) as (W & _).
  destruct (wf_from_In _ _ _ W Hin) as (H0 & (Hl & Hp) & _).
  pose proof data_capacity_ok. unfold n_len, PAGE in Hp. split; [exact Hl|]. split; [lia| exact H0].
Qed.
