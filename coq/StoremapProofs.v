(* StoremapProofs.v — proofs about StoremapModel.v (C55), part 2 (part 1: StoremapLock.v).

   Data invariants on top of the per-anchor lock invariant: what protects the key, the
   waitingToBeFreed mark and the slices of an entry is that every transition changing them is made
   by an activity that holds the anchor's lock exclusively, and an exclusive holder excludes every
   other holder. *)
Require Import SquidV.Bytes SquidV.RwlockModel SquidV.RwlockProofs SquidV.StoremapModel SquidV.StoremapLock.
Require Import ZifyBool ZifyN ZifyNat.
Local Open Scope Z_scope.

(* ---------- case analysis of one activity step ---------- *)
Ltac astepA_cases p E :=
  destruct p; cbn [astepA] in E;
  repeat match type of E with
         | context [pstep ?x ?y ?z] => destruct (pstep x y z) as [[[? ?] ?] ?] eqn:?
         | context [match ?x with Ready _ => _ | _ => _ end] => destruct x eqn:?
         | context [if ?c then _ else _] => destruct c eqn:?
         | context [match getS ?a ?b with _ => _ end] => destruct (getS a b) eqn:?
         | context [match sidx ?a ?b with _ => _ end] => destruct (sidx a b) eqn:?
         | context [match ?c with Some _ => _ | None => _ end] => destruct c eqn:?
         | context [match ?c with FcOW _ => _ | _ => _ end] => destruct c eqn:?
         end;
  inversion E; subst; clear E.

Lemma astepA_anchors : forall sh a p a' sh1 r evs, astepA sh a p = (a', sh1, r, evs) -> anchors sh1 = anchors sh.
Proof. intros sh a p a' sh1 r evs E. astepA_cases p E; reflexivity. Qed.

Lemma ksame_eq : forall a b, ksame a b = true -> a = b.
Proof.
  intros [a1 a2] [b1 b2] H. unfold ksame in H. cbn [fst snd] in H.
  apply andb_true_iff in H. destruct H as [H1 H2].
  apply N.eqb_eq in H1. apply N.eqb_eq in H2. subst. reflexivity.
Qed.

(* the key, a set waitingToBeFreed mark and the pool membership of slices are only changed by an
   activity that holds the anchor's lock exclusively *)
Lemma astepA_protected : forall sh a p a' sh1 r evs,
  astepA sh a p = (a', sh1, r, evs) ->
  akey a' <> akey a \/ (wtbf a = true /\ wtbf a' = false) \/ (exists sid, In (MFree sid) evs) ->
  alock p = Ready MExcl.
Proof.
  intros sh a p a' sh1 r evs E H.
  astepA_cases p E; try reflexivity;
    cbn [akey wtbf set_lk set_wtbf set_halted set_akey set_astart set_asplice] in H;
    exfalso; destruct H as [H|[[H1 H2]|[sid0 H]]]; try congruence; try (apply H; reflexivity);
    try (cbn [In] in H; tauto).
Qed.

(* ---------- the same at the level of processes ---------- *)
Definition exclOn (f : N) (th : mthread) : Prop := pri f th = Ready MExcl \/ tra f th = Ready MExcl.

Lemma start_op_anchors : forall sh m o sh' p' evs, start_op sh m o = (sh', p', evs) -> anchors sh' = anchors sh.
Proof.
  intros sh m o sh' p' evs E. destruct o; cbn [start_op] in E;
    repeat match type of E with
           | context [if ?x then _ else _] => destruct x
           | context [match first_free ?a ?b with _ => _ end] => destruct (first_free a b)
           end; inversion E; subst; reflexivity.
Qed.

Lemma start_op_nofree : forall sh m o sh' p' evs sid, start_op sh m o = (sh', p', evs) -> ~ In (MFree sid) evs.
Proof.
  intros sh m o sh' p' evs sid E. destruct o; cbn [start_op] in E;
    repeat match type of E with
           | context [if ?x then _ else _] => destruct x
           | context [match first_free ?a ?b with _ => _ end] => destruct (first_free a b)
           end; inversion E; subst; cbn [In]; intuition discriminate.
Qed.

(* what a step of a process does to the anchors: nothing, or one anchor through astepA *)
Lemma tstep_anchor_effect : forall sh th sh' th' evs,
  tstep sh th = (sh', th', evs) ->
  (anchors sh' = anchors sh /\ forall sid, ~ In (MFree sid) evs) \/
  exists g p a0 a1 sh1 r evs1,
    (tpc th = Prim g p \/ tpc th = Tran g p) /\ nthN g (anchors sh) = Some a0 /\
    astepA sh a0 p = (a1, sh1, r, evs1) /\ anchors sh' = updN g a1 (anchors sh) /\
    (forall sid, In (MFree sid) evs -> In (MFree sid) evs1).
Proof.
  intros sh [m p c s] sh' th' evs E. unfold tstep in E. cbn [cm tpc cur scr] in E.
  destruct p as [ | | |f0 m0|g0 m0|k|k|k|g p|g p].
  - left. destruct (fetchk m s) as [[o r]|].
    + destruct (start_op sh m o) as [[sh1 p1] evs1] eqn:S. inversion E; subst; clear E.
      split; [eapply start_op_anchors; eassumption|].
      intros sid [H|H]; [discriminate|]. eapply start_op_nofree; eassumption.
    + inversion E; subst. split; [reflexivity|]. intros sid [H|H]; [discriminate | contradiction].
  - left. inversion E; subst. split; [reflexivity | intros sid H; contradiction].
  - left. inversion E; subst. split; [reflexivity | intros sid H; contradiction].
  - left. inversion E; subst. split; [reflexivity | intros sid H; contradiction].
  - left. inversion E; subst. split; [reflexivity | intros sid H; contradiction].
  - left. destruct (fileno_of sh k); inversion E; subst; (split; [reflexivity|]); intros sid H; cbn [In] in H;
      try contradiction; destruct H as [H|H]; try discriminate; contradiction.
  - left. destruct (fileno_of sh k); inversion E; subst; (split; [reflexivity|]); intros sid H; cbn [In] in H;
      try contradiction; destruct H as [H|H]; try discriminate; contradiction.
  - left. destruct (fileno_of sh k); inversion E; subst; (split; [reflexivity|]); intros sid H; cbn [In] in H;
      try contradiction; destruct H as [H|H]; try discriminate; contradiction.
  - destruct (astep sh g p) as [[sh1 r] evs1] eqn:EA.
    destruct (nthN g (anchors sh)) as [a0|] eqn:Ha0.
    + right. destruct (astep_anchors _ _ _ _ _ _ _ Ha0 EA) as (a1 & sh2 & EA2 & An & _).
      exists g, p, a0, a1, sh2, r, evs1. cbn [tpc]. split; [left; reflexivity|]. split; [exact Ha0|]. split; [assumption|].
      destruct r; inversion E; subst; (split; [assumption|]); intros sid H; try assumption;
        apply in_app_or in H; destruct H as [H|H]; try assumption;
        try (destruct c; cbn [In] in H); cbn [In] in H; try contradiction; destruct H as [H|H]; try discriminate; contradiction.
    + left. unfold astep in EA. rewrite Ha0 in EA. inversion EA; subst; clear EA. inversion E; subst.
      split; [reflexivity|]. intros sid H; cbn [In app] in H. destruct H as [H|H]; [discriminate | contradiction].
  - destruct (astep sh g p) as [[sh1 r] evs1] eqn:EA.
    destruct (nthN g (anchors sh)) as [a0|] eqn:Ha0.
    + right. destruct (astep_anchors _ _ _ _ _ _ _ Ha0 EA) as (a1 & sh2 & EA2 & An & _).
      exists g, p, a0, a1, sh2, r, evs1. cbn [tpc]. split; [right; reflexivity|]. split; [exact Ha0|]. split; [assumption|].
      destruct r; inversion E; subst; (split; [assumption|]); intros sid H; try assumption;
        apply in_app_or in H; destruct H as [H|H]; try assumption;
        try (destruct c; cbn [In] in H); cbn [In] in H; try contradiction; destruct H as [H|H]; try discriminate; contradiction.
    + left. unfold astep in EA. rewrite Ha0 in EA. inversion EA; subst; clear EA. inversion E; subst.
      split; [reflexivity|]. intros sid H; cbn [In app] in H. destruct H as [H|H]; [discriminate | contradiction].
Qed.

Lemma pri_prim : forall g p m c s, pri g (mkT m (Prim g p) c s) = alock p.
Proof. intros. cbn [pri tpc]. rewrite N.eqb_refl. reflexivity. Qed.
Lemma tra_tran : forall g p m c s, tra g (mkT m (Tran g p) c s) = alock p.
Proof. intros. cbn [tra tpc]. rewrite N.eqb_refl. reflexivity. Qed.

Theorem tstep_protected : forall sh th sh' th' evs f a a',
  tstep sh th = (sh', th', evs) ->
  nthN f (anchors sh) = Some a -> nthN f (anchors sh') = Some a' ->
  akey a' <> akey a \/ (wtbf a = true /\ wtbf a' = false) -> exclOn f th.
Proof.
  intros sh th sh' th' evs f a a' E Ha Ha' H.
  destruct (tstep_anchor_effect _ _ _ _ _ E) as [[An _]|(g & p & a0 & a1 & sh1 & r & evs1 & TP & Ha0 & EA & An & _)].
  - rewrite An in Ha'. rewrite Ha in Ha'. inversion Ha'; subst. exfalso. destruct H as [H|[H1 H2]]; congruence.
  - rewrite An in Ha'. destruct (N.eq_dec g f) as [->|D].
    + rewrite (nthN_updN_same _ _ _ _ _ Ha0) in Ha'. inversion Ha'; subst a'. rewrite Ha in Ha0. inversion Ha0; subst a0.
      assert (AL : alock p = Ready MExcl).
      { eapply astepA_protected; [exact EA|]. destruct H as [H|H]; [left; exact H | right; left; exact H]. }
      destruct th as [m pc0 c s]. cbn [tpc] in TP. destruct TP as [-> | ->].
      * left. rewrite pri_prim. exact AL.
      * right. rewrite tra_tran. exact AL.
    + rewrite nthN_updN_other in Ha' by assumption. rewrite Ha in Ha'. inversion Ha'; subst. exfalso.
      destruct H as [H|[H1 H2]]; congruence.
Qed.

Theorem tstep_free_excl : forall sh th sh' th' evs sid,
  tstep sh th = (sh', th', evs) -> In (MFree sid) evs ->
  exists g, exclOn g th /\ exists p, (tpc th = Prim g p \/ tpc th = Tran g p).
Proof.
  intros sh th sh' th' evs sid E I.
  destruct (tstep_anchor_effect _ _ _ _ _ E) as [[_ NF]|(g & p & a0 & a1 & sh1 & r & evs1 & TP & Ha0 & EA & An & FR)].
  - exfalso. eapply NF. exact I.
  - exists g. split; [|exists p; exact TP].
    assert (AL : alock p = Ready MExcl).
    { eapply astepA_protected; [exact EA|]. right. right. exists sid. apply FR. exact I. }
    destruct th as [m pc0 c s]. cbn [tpc] in TP. destruct TP as [-> | ->].
    + left. rewrite pri_prim. exact AL.
    + right. rewrite tra_tran. exact AL.
Qed.

(* ---------- readers: the key of an open entry ---------- *)
Definition rdctx (c : fcx) : bool := match c with FcCrf => true | _ => false end.
(* pcs of the operations a reader may call on its entry (chain walk, closeForReading, closeForReadingAndFreeIdle) *)
Definition rdclass (p : apc) : bool :=
  match p with
  | LK0 | LK1 | LK2 _ _ | LK3 _ _ | LK4 _ _ _ | CR1 | CF1 | CF2 | CF3 => true
  | AL LcCR _ | AL LcCF _ => true
  | AL (LcFcUX c) _ => rdctx c
  | FC0 c | FC1 c _ | FL1 c _ _ | FL2 c _ _ _ | FL3 c _ _ _ | RW1 c | RW2 c | RW3 c | RW4 c | RW5 c | RW6 c | CT c => rdctx c
  | _ => false
  end.

Lemma rdclass_next : forall sh a p a' sh1 p' evs,
  astepA sh a p = (a', sh1, ANext p', evs) -> rdclass p = true -> rdclass p' = true.
Proof.
  intros sh a p a' sh1 p' evs E R.
  destruct p; cbn [rdclass] in R; try discriminate R;
    try match goal with c : lcx |- _ => destruct c; cbn [rdclass] in R; try discriminate R end;
    try match goal with c : fcx |- _ => destruct c; cbn [rdctx] in R; try discriminate R end;
    cbn [astepA] in E;
    repeat match type of E with
           | context [pstep ?x ?y ?z] => destruct (pstep x y z) as [[[? ?] ?] ?] eqn:?
           | context [match ?x with Ready _ => _ | _ => _ end] => destruct x eqn:?
           end;
    unfold lcont, fc_entry, fl_head, lk_head, callL in E; cbn [keep] in E;
    repeat match type of E with
           | context [match ?m with MIdle => _ | _ => _ end] => destruct m
           | context [if ?c then _ else _] => destruct c eqn:?
           | context [match getS ?a ?b with _ => _ end] => destruct (getS a b) eqn:?
           | context [match sidx ?a ?b with _ => _ end] => destruct (sidx a b) eqn:?
           end;
    inversion E; subst; reflexivity.
Qed.

(* a reader-class step that arrives at a pc holding the shared lock started from one, and does not touch the key *)
Lemma rdclass_shared : forall sh a p a' sh1 p' evs,
  astepA sh a p = (a', sh1, ANext p', evs) -> rdclass p = true -> alock p' = Ready MShared ->
  alock p = Ready MShared /\ akey a' = akey a.
Proof.
  intros sh a p a' sh1 p' evs E R S.
  destruct p; cbn [rdclass] in R; try discriminate R;
    try match goal with c : lcx |- _ => destruct c; cbn [rdclass] in R; try discriminate R end;
    try match goal with c : fcx |- _ => destruct c; cbn [rdctx] in R; try discriminate R end;
    cbn [astepA] in E;
    repeat match type of E with
           | context [pstep ?x ?y ?z] => destruct (pstep x y z) as [[[? ?] ?] ?] eqn:?
           | context [match ?x with Ready _ => _ | _ => _ end] => destruct x eqn:?
           end;
    unfold lcont, fc_entry, fl_head, lk_head, callL in E; cbn [keep] in E;
    repeat match type of E with
           | context [match ?m with MIdle => _ | _ => _ end] => destruct m
           | context [if ?c then _ else _] => destruct c eqn:?
           | context [match getS ?a ?b with _ => _ end] => destruct (getS a b) eqn:?
           | context [match sidx ?a ?b with _ => _ end] => destruct (sidx a b) eqn:?
           end;
    inversion E; subst; cbn [alock amode entry is_append keep] in S; try discriminate S;
    split; reflexivity.
Qed.

(* an operation ends with "opened for reading under k" only in openForReadingAt, after sameKey(k) *)
Lemma astepA_opened : forall sh a p a' sh1 m k evs,
  astepA sh a p = (a', sh1, ADone m (OOpenR (Some k)), evs) -> a' = a /\ akey a = k.
Proof.
  intros sh a p a' sh1 m k evs E.
  destruct p; cbn [astepA] in E;
    repeat match type of E with
           | context [pstep ?x ?y ?z] => destruct (pstep x y z) as [[[? ?] ?] ?] eqn:?
           | context [match ?x with Ready _ => _ | _ => _ end] => destruct x eqn:?
           end;
    try match goal with c : lcx |- _ => destruct c end;
    unfold lcont, fc_entry, fl_head, lk_head, callL in E; cbn [keep] in E;
    repeat match type of E with
           | context [match ?m with MIdle => _ | _ => _ end] => destruct m
           | context [if ?c then _ else _] => destruct c eqn:?
           | context [match getS ?a ?b with _ => _ end] => destruct (getS a b) eqn:?
           | context [match sidx ?a ?b with _ => _ end] => destruct (sidx a b) eqn:?
           | context [match ?c with Some _ => _ | None => _ end] => destruct c eqn:?
           | context [match ?c with FcOW _ => _ | _ => _ end] => destruct c eqn:?
           end;
    inversion E; subst.
  split; [reflexivity|]. apply ksame_eq. assumption.
Qed.

(* a chain walk ends where it started: holding the shared lock, key untouched *)
Lemma astepA_looked : forall sh a p a' sh1 m l w evs,
  astepA sh a p = (a', sh1, ADone m (OLook l w), evs) -> a' = a /\ alock p = Ready MShared.
Proof.
  intros sh a p a' sh1 m l w evs E.
  destruct p; cbn [astepA] in E;
    repeat match type of E with
           | context [pstep ?x ?y ?z] => destruct (pstep x y z) as [[[? ?] ?] ?] eqn:?
           | context [match ?x with Ready _ => _ | _ => _ end] => destruct x eqn:?
           end;
    try match goal with c : lcx |- _ => destruct c end;
    unfold lcont, fc_entry, fl_head, lk_head, callL in E; cbn [keep] in E;
    repeat match type of E with
           | context [match ?m with MIdle => _ | _ => _ end] => destruct m
           | context [if ?c then _ else _] => destruct c eqn:?
           | context [match getS ?a ?b with _ => _ end] => destruct (getS a b) eqn:?
           | context [match sidx ?a ?b with _ => _ end] => destruct (sidx a b) eqn:?
           | context [match ?c with Some _ => _ | None => _ end] => destruct c eqn:?
           | context [match ?c with FcOW _ => _ | _ => _ end] => destruct c eqn:?
           end;
    inversion E; subst; split; reflexivity.
Qed.

(* between two lock calls an activity is at a pc of the form Ready m *)
Lemma astepA_next_holds : forall sh a p a' sh1 p' evs x,
  astepA sh a p = (a', sh1, ANext p', evs) -> holds (alock p') = Some x -> alock p' = Ready x.
Proof.
  intros sh a p a' sh1 p' evs x E H.
  destruct p; cbn [astepA] in E;
    repeat match type of E with
           | context [pstep ?x ?y ?z] => destruct (pstep x y z) as [[[? ?] ?] ?] eqn:?
           | context [match ?x with Ready _ => _ | _ => _ end] => destruct x eqn:?
           end;
    try match goal with c : lcx |- _ => destruct c end;
    unfold lcont, fc_entry, fl_head, lk_head, callL in E; cbn [keep] in E;
    repeat match type of E with
           | context [match ?m with MIdle => _ | _ => _ end] => destruct m
           | context [if ?c then _ else _] => destruct c eqn:?
           | context [match getS ?a ?b with _ => _ end] => destruct (getS a b) eqn:?
           | context [match sidx ?a ?b with _ => _ end] => destruct (sidx a b) eqn:?
           | context [match ?c with Some _ => _ | None => _ end] => destruct c eqn:?
           | context [match ?c with FcOW _ => _ | _ => _ end] => destruct c eqn:?
           end;
    inversion E; subst; cbn [alock amode entry holds keep wmode_of is_append] in *; try discriminate H;
    inversion H; subst; reflexivity.
Qed.

(* well-formedness of a reading client: it only runs reader operations, on its own entry *)
Definition wf1 (th : mthread) : Prop :=
  match cm th with
  | CRead g _ =>
      match tpc th with
      | Prim f p => f = g /\ rdclass p = true
      | StuckP f _ => f = g
      | KeyW _ | KeyR _ => False
      | _ => True
      end
  | _ => True
  end.

Definition isReader (th : mthread) (f : N) (k : key) : Prop := cm th = CRead f k /\ holdsP f th = Some MShared.

Lemma newcm_read : forall old g lm o f k,
  newcm old g lm o = CRead f k ->
  g = f /\ lm = MShared /\ (o = OOpenR (Some k) \/ (exists l w, o = OLook l w) /\ old = CRead f k).
Proof.
  intros old g lm o f k H. destruct lm; cbn [newcm] in H; try discriminate H.
  destruct o as [| |[k0|]| | |l w]; try discriminate H.
  - inversion H; subst. repeat split. left. reflexivity.
  - destruct old; try discriminate H. destruct (N.eqb_spec f0 g); [|discriminate H].
    inversion H; subst. repeat split. right. split; [exists l, w; reflexivity | reflexivity].
Qed.

Lemma tstep_wf1 : forall sh th sh' th' evs, wf1 th -> tstep sh th = (sh', th', evs) -> wf1 th'.
Proof.
  intros sh [m p c s] sh' th' evs W E. unfold tstep in E. cbn [cm tpc cur scr] in E. unfold wf1 in *. cbn [cm tpc] in W.
  destruct p as [ | | |f0 m0|g0 m0|k|k|k|g p|g p].
  - destruct (fetchk m s) as [[o r]|] eqn:F.
    + destruct (start_op sh m o) as [[sh1 p1] evs1] eqn:S. inversion E; subst; clear E. cbn [cm tpc].
      destruct (fetchk_legal _ _ _ _ F) as [Lg _].
      destruct m; try exact I.
      destruct o; try discriminate Lg; cbn [start_op cm_anchor] in S;
        repeat match type of S with context [if ?x then _ else _] => destruct x end;
        inversion S; subst; try exact I; split; reflexivity.
    + inversion E; subst. cbn [cm tpc]. destruct m; exact I.
  - inversion E; subst. exact W.
  - inversion E; subst. exact W.
  - inversion E; subst. exact W.
  - inversion E; subst. exact W.
  - destruct m; try (destruct (fileno_of sh k); inversion E; subst; exact I). contradiction.
  - destruct m; try (destruct (fileno_of sh k); inversion E; subst; exact I). contradiction.
  - destruct (fileno_of sh k); inversion E; subst; cbn [cm tpc]; destruct m; exact I.
  - destruct (astep sh g p) as [[sh1 r] evs1] eqn:EA.
    destruct r as [p'|lm o| |lm]; inversion E; subst; clear E; cbn [cm tpc].
    + destruct m; try exact I. destruct W as [-> R]. split; [reflexivity|].
      unfold astep in EA. destruct (nthN f (anchors sh)) as [a0|]; [|inversion EA].
      destruct (astepA sh a0 p) as [[[a1 sh2] r1] evs2] eqn:EA2. inversion EA; subst.
      eapply rdclass_next; eassumption.
    + destruct (newcm m g lm o); exact I.
    + destruct m; exact I.
    + destruct m; try exact I. destruct W as [-> _]. reflexivity.
  - destruct (astep sh g p) as [[sh1 r] evs1] eqn:EA.
    destruct r as [p'|lm o| |lm]; inversion E; subst; clear E; cbn [cm tpc]; destruct m; try exact I;
      destruct lm; exact I.
Qed.

(* a process that is a reader after its own step either was one before (and its own step left the key alone
   unless it was made by its exclusive transient activity), or has just passed sameKey() *)
Lemma tstep_reader : forall sh th sh' th' evs f k a a',
  wf1 th -> tstep sh th = (sh', th', evs) ->
  isReader th' f k -> nthN f (anchors sh) = Some a -> nthN f (anchors sh') = Some a' ->
  isReader th f k \/ akey a' = k.
Proof.
  intros sh [m p c s] sh' th' evs f k a a' W E [C H] Ha Ha'.
  unfold tstep in E. cbn [cm tpc cur scr] in E. unfold wf1 in W. cbn [cm tpc] in W. unfold isReader, holdsP in *.
  destruct p as [ | | |f0 m0|g0 m0|k0|k0|k0|g p|g p].
  - left. destruct (fetchk m s) as [[o r]|] eqn:F.
    + destruct (start_op sh m o) as [[sh1 p1] evs1] eqn:S. inversion E; subst; clear E. cbn [cm tpc] in *. subst m.
      split; [reflexivity|]. cbn [pri tpc cm cm_lmode]. rewrite N.eqb_refl. reflexivity.
    + inversion E; subst; clear E. cbn [cm] in C. subst m. split; [reflexivity|].
      cbn [pri tpc cm cm_lmode]. rewrite N.eqb_refl. reflexivity.
  - left. inversion E; subst. split; assumption.
  - left. inversion E; subst. split; assumption.
  - left. inversion E; subst. split; assumption.
  - left. inversion E; subst. split; assumption.
  - exfalso. destruct (fileno_of sh k0); inversion E; subst; cbn [cm] in C; subst m; exact W.
  - exfalso. destruct (fileno_of sh k0); inversion E; subst; cbn [cm] in C; subst m; exact W.
  - left. destruct (fileno_of sh k0); inversion E; subst; cbn [cm] in C; subst m; (split; [reflexivity|]);
      cbn [pri tpc cm cm_lmode]; rewrite N.eqb_refl; reflexivity.
  - destruct (astep sh g p) as [[sh1 r] evs1] eqn:EA.
    unfold astep in EA. destruct (nthN g (anchors sh)) as [a0|] eqn:Ha0.
    + destruct (astepA sh a0 p) as [[[a1 sh2] r1] evs2] eqn:EA2. inversion EA; subst; clear EA.
      destruct r as [p'|lm o| |lm]; inversion E; subst; clear E; cbn [cm tpc] in *.
      * (* still inside the operation *)
        subst m. destruct W as [-> R]. rewrite pri_prim in H.
        pose proof (astepA_next_holds _ _ _ _ _ _ _ _ EA2 H) as S.
        destruct (rdclass_shared _ _ _ _ _ _ _ EA2 R S) as [S0 _].
        left. split; [reflexivity|]. rewrite pri_prim. rewrite S0. reflexivity.
      * (* the operation returned *)
        destruct (newcm_read _ _ _ _ _ _ C) as (-> & -> & [->|[(l & w & ->) ->]]).
        -- right. destruct (astepA_opened _ _ _ _ _ _ _ _ EA2) as [-> K].
           cbn [putA set_anchors anchors] in Ha'.
           pose proof (astepA_anchors _ _ _ _ _ _ _ EA2) as An.
           rewrite An in Ha'. rewrite (nthN_updN_same _ _ _ _ _ Ha0) in Ha'. inversion Ha'; first [subst a'; exact K | congruence].
        -- left. destruct (astepA_looked _ _ _ _ _ _ _ _ _ EA2) as [-> S0]. destruct W as [_ R].
           split; [reflexivity|]. rewrite pri_prim. rewrite S0. reflexivity.
      * cbn [pri tpc cm] in H. subst m. destruct W as [-> _].
        cbn [pri tpc] in H. discriminate H.
      * subst m. destruct W as [-> R]. left. split; [reflexivity|]. rewrite pri_prim.
        cbn [pri tpc] in H. rewrite N.eqb_refl in H. cbn [holds] in H. inversion H; subst lm.
        (* the pc that failed a data assertion held the shared lock *)
        clear - EA2 R. 
        destruct p; cbn [rdclass] in R; try discriminate R;
          try match goal with c : lcx |- _ => destruct c; cbn [rdclass] in R; try discriminate R end;
          try match goal with c : fcx |- _ => destruct c; cbn [rdctx] in R; try discriminate R end;
          cbn [astepA] in EA2;
          repeat match type of EA2 with
                 | context [pstep ?x ?y ?z] => destruct (pstep x y z) as [[[? ?] ?] ?] eqn:?
                 | context [match ?x with Ready _ => _ | _ => _ end] => destruct x eqn:?
                 end;
          unfold lcont, fc_entry, fl_head, lk_head, callL in EA2; cbn [keep] in EA2;
          repeat match type of EA2 with
                 | context [match ?m with MIdle => _ | _ => _ end] => destruct m
                 | context [if ?c then _ else _] => destruct c eqn:?
                 | context [match getS ?a ?b with _ => _ end] => destruct (getS a b) eqn:?
                 | context [match sidx ?a ?b with _ => _ end] => destruct (sidx a b) eqn:?
                 end;
          inversion EA2; subst; reflexivity.
    + inversion EA; subst; clear EA. inversion E; subst; clear E. cbn [cm tpc] in *. subst m. destruct W as [-> R].
      left. rewrite Ha in Ha0. discriminate Ha0.
  - (* transient activity: cm and the primary share do not change *)
    left. destruct (astep sh g p) as [[sh1 r] evs1] eqn:EA.
    destruct r as [p'|lm o| |lm]; inversion E; subst; clear E; cbn [cm tpc] in *; subst m;
      (split; [reflexivity|]); cbn [pri tpc cm cm_lmode]; rewrite N.eqb_refl; reflexivity.
Qed.
