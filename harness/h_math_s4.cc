#define H_MATH_PART 4
#include "h_math_part.h"
