(* handlers for the pagelog area (C33 error-page macro expansion, C34 access-log quoting).
   Byte strings are hex, "-" = empty.  Optional values: key absent = null pointer. *)
let bytes_of_ascii (s : string) : n list = List.init (String.length s) (fun i -> n_of_int (Char.code s.[i]))

(* the state of an ErrorState as key=hex pairs; unset optional fields are null, unset strings are empty *)
let estate_of (kvs : string list) : estate =
  let tbl = Hashtbl.create 32 in
  List.iter (fun kv -> match String.index_opt kv '=' with
      | Some i -> Hashtbl.replace tbl (String.sub kv 0 i) (String.sub kv (i + 1) (String.length kv - i - 1))
      | None -> failwith ("kv " ^ kv)) kvs;
  let opt k = match Hashtbl.find_opt tbl k with Some h -> Some (bytes_of_hex h) | None -> None in
  let str k = match opt k with Some b -> b | None -> [] in
  let flag k d = match Hashtbl.find_opt tbl k with Some "1" -> true | Some "0" -> false | Some _ -> failwith "flag" | None -> d in
  { e_request = flag "req" true; e_auth_user = opt "a"; e_listen_addr = opt "A"; e_my_port = str "b";
    e_ftp_url2f = str "B"; e_page_name = str "c"; e_detail_verbose = opt "Dv"; e_detail_brief = opt "x";
    e_errno_dec = str "e"; e_errno_nz = flag "enz" false; e_strerror = str "E";
    e_ftp_request = opt "f"; e_ftp_reply = opt "F"; e_ftp_listing = opt "gl"; e_ftp_server_msg = opt "gm";
    e_my_hostname = str "h"; e_hier_host = str "Hh"; e_url_host = str "Hu"; e_src_addr = str "i";
    e_server_ip = opt "I"; e_stylesheet = str "l"; e_err_html_text = opt "L"; e_auth_deny = opt "m";
    e_method = str "M"; e_extacl_msg = opt "o"; e_url_port = opt "p"; e_scheme = str "P";
    e_abs_path = str "Rp"; e_packed_request = str "R"; e_effective_uri = str "u"; e_url = opt "url";
    e_appname = str "s"; e_sig_template = str "sig"; e_time_httpd = str "t"; e_time_rfc1123 = str "T";
    e_canon_fake_https = str "U"; e_admin_email = opt "w"; e_email_err_data = flag "eed" true;
    e_dump_body = str "dump"; e_dns_error = opt "zd"; e_ftp_cwd_msg = opt "zc"; e_err_msg = opt "Z";
    e_logformat = (fun _ -> None) }

let needles_of (s : string) : n list list =
  if s = "." then [] else List.map bytes_of_hex (String.split_on_char ',' s)

let expand (mode : string) (tpl : string) (kvs : string list) : n list option =
  let st = estate_of kvs in
  match mode with
  | "page" -> build_body st (bytes_of_hex tpl)
  | "deny" -> build_deny_info_url st (bytes_of_hex tpl)
  | _ -> failwith "mode"

(* one field of a logformat: L:<hex text> | C:<modifier byte or ->:<kind>:<value hex | ~ (null)>:<space 0|1> *)
let fitem_of (s : string) : fitem =
  match String.split_on_char ':' s with
  | ["L"; t] -> FLit (bytes_of_hex t)
  | ["C"; m; k; v; sp] ->
    FCode ((if m = "-" then None else Some (n_of_string m)), n_of_string k,
           (if v = "~" then None else Some (bytes_of_hex v)), sp = "1")
  | _ -> failwith "fitem"

let opt_hex = function None -> "null" | Some b -> hex_of_bytes b
let read_res = function
  | None -> "none"
  | Some (f, rest) -> hex_of_bytes f ^ "/" ^ hex_of_bytes rest

let () =
  (* pg.expand <page|deny> <template> <k=v>... : the whole expansion *)
  reg "pg.expand" (fun (mode :: tpl :: kvs) ->
      match expand mode tpl kvs with Some o -> "out " ^ hex_of_bytes o | None -> "FUEL");
  (* pg.count <page|deny> <tag> <template> <needles> <k=v>... : occurrences of each needle in the expansion *)
  reg "pg.count" (fun (mode :: tag :: tpl :: needles :: kvs) ->
      match expand mode tpl kvs with
      | Some o -> tag ^ " n=" ^ String.concat "," (List.map (fun nd -> string_of_n (count_sub nd o)) (needles_of needles))
      | None -> "FUEL");
  (* pg.both <page|deny> <tag> <template> <mini template> <needles> <k=v>... : what checks/c33.py observes on the wire:
     occurrences of each needle in the expansion of the page template, no badly rendered marker, and the exact
     expansion of the mini template (the client-controlled sections) *)
  reg "pg.both" (fun (mode :: tag :: tpl :: mini :: needles :: kvs) ->
      match expand mode tpl kvs with
      | Some o ->
        let x = if mini = "-" then "-" else (match expand mode mini kvs with Some m -> hex_of_bytes m | None -> "FUEL") in
        tag ^ " n=" ^ String.concat "," (List.map (fun nd -> string_of_n (count_sub nd o)) (needles_of needles)) ^
        " bad=0 x=" ^ x
      | None -> "FUEL");
  (* lq.all <value> : every quoting function on one C string *)
  reg "lq.all" (fun [v] ->
      let s = bytes_of_hex v in
      "qs=" ^ hex_of_bytes (log_quoted_string s) ^ " mime=" ^ hex_of_bytes (mime_blob s) ^
      " user=" ^ opt_hex (username_quote (Some s)) ^ " url=" ^ hex_of_bytes (url_quote s) ^
      " def=" ^ hex_of_bytes (default_quote s) ^ " shell=" ^ hex_of_bytes (shell_quote s) ^
      " html=" ^ hex_of_bytes (html_q s) ^ " part=" ^ hex_of_bytes (escape_part s));
  (* lq.record <item>... : one access-log record of a custom logformat *)
  reg "lq.record" (fun items -> "rec " ^ hex_of_bytes (log_record (List.map fitem_of items)));
  (* lq.record200 <user hex | ~> <item>... : what checks/c34.py observes for one finished transaction: status 200, one
     record of the custom format on one line, and the number of space-separated fields of the built-in squid format
     (ten, plus the spaces QuoteUrlEncodeUsername leaves in the user name) *)
  reg "lq.record200" (fun (u :: items) ->
      let r = log_record (List.map fitem_of items) in
      let uq = match username_quote (if u = "~" then None else Some (bytes_of_hex u)) with Some q -> q | None -> [] in
      "status=200 records=1 nl=" ^ string_of_n (count_lf r) ^ " nat=" ^ string_of_int (10 + int_of_n (count_sub [n_of_int 32] uq)) ^
      " rec=" ^ hex_of_bytes r);
  (* reference readers (used by corpus regressions) *)
  reg "lq.readq" (fun [v] -> read_res (read_quoted unbackslash (bytes_of_hex v)));
  reg "lq.readb" (fun [v] -> read_res (read_bracketed (bytes_of_hex v)));
  reg "lq.readsh" (fun [v] -> read_res (read_shell_word (bytes_of_hex v)))
