(* VaryProofs.v — proofs for C13 (Vary) *)
Require Import SquidV.Bytes SquidV.HopModel SquidV.HopProofs SquidV.TokModel SquidV.QuoteModel SquidV.QuoteProofs.
Require Import SquidV.VaryModel.
Require Import SquidV.gen.HdrTable_gen SquidV.gen.Vary_gen.
Require Import ZifyBool ZifyN ZifyNat.
Local Open Scope N_scope.

(* ================================================================== *)
(* 0. configuration facts re-evaluated against the regenerated tables  *)
Lemma x_accelerator_vary_off : x_accelerator_vary = false.
Proof. reflexivity. Qed.
Lemma escape_is_contextfree_on_probe : vary_esc_contextfree_probe = true.
Proof. reflexivity. Qed.

(* every byte is emitted either as itself (never a percent sign, never a double quote) or as a %XX triplet that decodes to it *)
Definition esc_entry_ok (c : N) : bool :=
  (c =? 0) || (esc_item_rt c (tbl_entry vary_esc_tbl c) && forallb (fun x => negb (x =? 34)) (tbl_entry vary_esc_tbl c)).
Lemma esc_table_ok : forallb esc_entry_ok all_bytes = true.
Proof. vm_compute. reflexivity. Qed.
Lemma esc_nul_entry : tbl_entry vary_esc_tbl 0 = [].
Proof. reflexivity. Qed.

Lemma esc_entry_rt c : c < 256 -> c <> 0 -> esc_item_rt c (tbl_entry vary_esc_tbl c) = true.
Proof.
  intros Hc H0. pose proof (forallb_bytes _ esc_table_ok c Hc) as H. unfold esc_entry_ok in H.
  destruct (c =? 0) eqn:E; [apply N.eqb_eq in E; contradiction|]. cbn [orb] in H.
  apply andb_prop in H. exact (proj1 H).
Qed.
Lemma esc_entry_noquote c : c < 256 -> forallb (fun x => negb (x =? 34)) (tbl_entry vary_esc_tbl c) = true.
Proof.
  intros Hc. pose proof (forallb_bytes _ esc_table_ok c Hc) as H. unfold esc_entry_ok in H.
  destruct (c =? 0) eqn:E.
  - apply N.eqb_eq in E. subst c. reflexivity.
  - cbn [orb] in H. apply andb_prop in H. exact (proj2 H).
Qed.

Definition val_ok (v : bytes) : Prop := bytes_ok v /\ nul_free v.

Lemma escape_noquote v : bytes_ok v -> forallb (fun x => negb (x =? 34)) (vary_escape v) = true.
Proof.
  intros Hb. unfold vary_escape. apply forallb_map_bytes; [apply cstr_bytes_ok, Hb|]. exact esc_entry_noquote.
Qed.

Lemma escape_decodes v : val_ok v -> unesc_list (vary_escape v) = v.
Proof.
  intros [Hb Hn]. unfold vary_escape. rewrite (cstr_nul_free v Hn).
  apply unesc_list_map_bytes; [exact Hb|exact Hn|]. intros c Hc H0 _. exact (esc_entry_rt c Hc H0).
Qed.

Lemma escape_injective v1 v2 : val_ok v1 -> val_ok v2 -> vary_escape v1 = vary_escape v2 -> v1 = v2.
Proof.
  intros H1 H2 H. rewrite <- (escape_decodes v1 H1), <- (escape_decodes v2 H2). now rewrite H.
Qed.

(* two quote-free strings followed by a quote: the first quote delimits them *)
Lemma split_at_quote a : forall b r1 r2,
  forallb (fun x => negb (x =? 34)) a = true -> forallb (fun x => negb (x =? 34)) b = true ->
  a ++ 34 :: r1 = b ++ 34 :: r2 -> a = b /\ r1 = r2.
Proof.
  induction a as [|x a IH]; intros [|y b] r1 r2 Ha Hb H; cbn [app] in H.
  - injection H as H. now split.
  - injection H as Hy _. subst y. cbn in Hb. discriminate.
  - injection H as Hx _. subst x. cbn in Ha. discriminate.
  - injection H as Hxy H. subst y. cbn [forallb] in Ha, Hb.
    apply andb_prop in Ha. apply andb_prop in Hb.
    destruct (IH b r1 r2 (proj2 Ha) (proj2 Hb) H) as [E1 E2]. subst. now split.
Qed.

(* ================================================================== *)
(* 1. String / strListAdd: closed form of the joined value             *)
Definition sepcat (vals : list bytes) : bytes := concat (map (fun v => [44; 32] ++ v) vals).

Lemma join_list_sepcat v vals : join_list (v :: vals) = v ++ sepcat vals.
Proof.
  revert v. induction vals as [|w r IH]; intros v.
  - cbn. now rewrite app_nil_r.
  - change (join_list (v :: w :: r)) with (v ++ [44; 32] ++ join_list (w :: r)).
    rewrite IH. unfold sepcat. cbn [map concat]. now rewrite <- !app_assoc.
Qed.

(* what Squid reads for a field with the given (C string) line values, in order: undefined when there is
   no line; otherwise the values joined by ", " after dropping the leading empty lines *)
Fixpoint drop_nil (vals : list bytes) : list bytes :=
  match vals with
  | [] :: r => drop_nil r
  | _ => vals
  end.
Definition joined_spec (vals : list bytes) : sstr :=
  match vals with
  | [] => None
  | _ => Some (join_list (drop_nil vals))
  end.

Definition add_all (s : sstr) (vals : list bytes) : sstr := fold_left str_list_add vals s.

Lemma cstr_idem v : cstr (cstr v) = cstr v.
Proof. apply cstr_nul_free, cstr_is_nul_free. Qed.

Lemma add_all_nonempty c r vals :
  add_all (Some (c :: r)) (map cstr vals) = Some ((c :: r) ++ sepcat (map cstr vals)).
Proof.
  revert c r. induction vals as [|v vals IH]; intros c r; cbn [map add_all fold_left].
  - unfold sepcat. cbn. now rewrite app_nil_r.
  - cbn [str_list_add]. rewrite cstr_idem.
    destruct ((c :: r) ++ [44; 32] ++ cstr v) as [|c' r'] eqn:E; [destruct r; discriminate|].
    change (fold_left str_list_add (map cstr vals) (Some (c' :: r'))) with (add_all (Some (c' :: r')) (map cstr vals)).
    rewrite IH, <- E. unfold sepcat. cbn [map concat]. now rewrite <- !app_assoc.
Qed.

Lemma add_all_fresh s vals : s = None \/ s = Some [] ->
  add_all s (map cstr vals) = match vals with [] => s | _ => Some (join_list (drop_nil (map cstr vals))) end.
Proof.
  revert s. induction vals as [|v vals IH]; intros s Hs; [reflexivity|].
  cbn [map add_all fold_left].
  assert (E : str_list_add s (cstr v) = Some (cstr v)) by (destruct Hs; subst s; cbn [str_list_add]; now rewrite cstr_idem).
  rewrite E. cbn [drop_nil]. destruct (cstr v) as [|c t] eqn:Ev.
  - change (fold_left str_list_add (map cstr vals) (Some [])) with (add_all (Some []) (map cstr vals)).
    rewrite (IH (Some [])) by now right. destruct vals; reflexivity.
  - change (fold_left str_list_add (map cstr vals) (Some (c :: t))) with (add_all (Some (c :: t)) (map cstr vals)).
    rewrite add_all_nonempty, join_list_sepcat. reflexivity.
Qed.

Definition line_values (p : hdr -> bool) (hs : list hdr) : list bytes := map (fun h => cstr (h_value h)) (filter p hs).

Lemma add_matching_fold p hs s : add_matching p hs s = add_all s (map cstr (map h_value (filter p hs))).
Proof.
  revert s. induction hs as [|h hs IH]; intros s; [reflexivity|].
  cbn [add_matching filter]. destruct (p h); [|apply IH].
  cbn [map add_all fold_left]. rewrite IH. unfold add_all. f_equal.
  destruct s as [[|c r]|]; cbn [str_list_add]; now rewrite cstr_idem.
Qed.

Lemma add_matching_spec p hs : add_matching p hs None = joined_spec (line_values p hs).
Proof.
  rewrite add_matching_fold, add_all_fresh by now left.
  unfold joined_spec, line_values. rewrite map_map.
  destruct (filter p hs); reflexivity.
Qed.

(* ================================================================== *)
(* 2. well-formed request blocks: values are NUL-free byte strings      *)
Definition block_ok (hs : list hdr) : Prop := Forall (fun h => val_ok (h_value h)) hs.
Definition sstr_ok (s : sstr) : Prop := match s with None => True | Some v => val_ok v end.

Lemma val_ok_app a b : val_ok a -> val_ok b -> val_ok (a ++ b).
Proof. intros [A1 A2] [B1 B2]. split; apply Forall_app; split; assumption. Qed.
Lemma val_ok_cstr v : val_ok v -> val_ok (cstr v).
Proof. intros [A1 A2]. split; [apply cstr_bytes_ok, A1|apply cstr_is_nul_free]. Qed.
Lemma val_ok_sep : val_ok [44; 32].
Proof. split; repeat constructor; lia. Qed.

Lemma str_list_add_ok s v : sstr_ok s -> val_ok v -> sstr_ok (str_list_add s v).
Proof.
  intros Hs Hv. destruct s as [[|c r]|]; cbn [str_list_add sstr_ok]; try (apply val_ok_cstr, Hv).
  apply val_ok_app; [exact Hs|]. apply val_ok_app; [exact val_ok_sep|apply val_ok_cstr, Hv].
Qed.

Lemma add_matching_ok p hs : block_ok hs -> forall s, sstr_ok s -> sstr_ok (add_matching p hs s).
Proof.
  induction 1 as [|h hs Hh Hhs IH]; intros s Hs; cbn [add_matching]; [exact Hs|].
  apply IH. destruct (p h); [apply str_list_add_ok; assumption|exact Hs].
Qed.

Lemma find_in {A} (p : A -> bool) l x : find p l = Some x -> In x l.
Proof.
  induction l as [|y l IH]; cbn [find]; [discriminate|]. destruct (p y); [intros H; injection H as <-; now left|].
  intros H. right. apply IH, H.
Qed.

Lemma get_by_name_ok hs name : block_ok hs -> sstr_ok (get_by_name hs name).
Proof.
  intros Hb. unfold get_by_name.
  destruct (negb (lookup_id hdr_table name =? hdr_OTHER) && has_id hs (lookup_id hdr_table name)).
  - unfold get_str_or_list. destruct (is_list_hdr _).
    + unfold get_list. destruct (has_id hs _); [|exact I]. apply add_matching_ok; [exact Hb|exact I].
    + destruct (find _ hs) as [e|] eqn:Ef; [|exact I].
      apply find_in in Ef. unfold block_ok in Hb. rewrite Forall_forall in Hb. specialize (Hb e Ef).
      destruct (h_value e) as [|c r]; cbn [s_copy sstr_ok]; [exact I|exact Hb].
  - apply add_matching_ok; [exact Hb|exact I].
Qed.

(* ================================================================== *)
(* 3. the mark as a string: closed form and injectivity                 *)
Definition valpart (v : sstr) : bytes :=
  match v with
  | Some value => [61; 34] ++ vary_escape value ++ [34]
  | None => []
  end.
Definition piece (hs : list hdr) (item : bytes) : bytes := lower item ++ valpart (get_by_name hs (lower item)).

Fixpoint tail_str (first : bool) (items : list bytes) (hs : list hdr) : bytes :=
  match items with
  | [] => []
  | it :: r => (if first then [] else [44; 32]) ++ piece hs it ++ tail_str false r hs
  end.

Definition items_ok (items : list bytes) : Prop := Forall (fun it => it <> []) items.

Lemma list_eqb_refl a : list_eqb a a = true.
Proof. induction a as [|x a IH]; cbn [list_eqb]; [reflexivity|]. now rewrite N.eqb_refl, IH. Qed.
Lemma list_eqb_false a b : a <> b -> list_eqb a b = false.
Proof. intros H. destruct (list_eqb a b) eqn:E; [|reflexivity]. apply list_eqb_eq in E. contradiction. Qed.

Lemma is_nil_app_r a b : b <> [] -> is_nil (a ++ b) = false.
Proof. intros H. destruct a; cbn [app is_nil]; [destruct b; [contradiction|reflexivity]|reflexivity]. Qed.

Lemma assemble_closed items : items_ok items -> ~ In star items -> forall vstr hs,
  assemble items vstr hs = vstr ++ tail_str (is_nil vstr) items hs.
Proof.
  induction 1 as [|it items Hit Hitems IH]; intros Hstar vstr hs; cbn [assemble tail_str].
  - now rewrite app_nil_r.
  - rewrite list_eqb_false by (intros E; apply Hstar; now left).
    rewrite IH by (intros Hin; apply Hstar; now right).
    assert (Hl : lower it <> []) by (destruct it; [contradiction|discriminate]).
    assert (Hnn : is_nil (add_value (add_name vstr (lower it)) (get_by_name hs (lower it))) = false).
    { unfold add_value. destruct (get_by_name hs (lower it)).
      - apply is_nil_app_r. discriminate.
      - unfold add_name. apply is_nil_app_r, Hl. }
    rewrite Hnn. unfold piece, add_value, add_name, valpart.
    destruct (get_by_name hs (lower it)); destruct vstr; cbn [is_nil]; cbn [app]; rewrite <- ?app_assoc; cbn [app];
      rewrite ?app_nil_r; reflexivity.
Qed.

Lemma assemble_star items : In star items -> forall vstr hs, assemble items vstr hs = star.
Proof.
  induction items as [|it items IH]; intros Hin vstr hs; [destruct Hin|]. cbn [assemble].
  destruct (list_eqb it star) eqn:E; [reflexivity|].
  destruct Hin as [Hin|Hin]; [subst it; rewrite list_eqb_refl in E; discriminate|]. apply IH, Hin.
Qed.

(* the tail after a value is empty or starts with a comma: it cannot be mistaken for an equals-quoted value *)
Lemma tail_false_head items hs : tail_str false items hs = [] \/ exists r, tail_str false items hs = 44 :: r.
Proof. destruct items as [|it r]; [now left|right]. cbn [tail_str app]. eauto. Qed.

Lemma tail_inj items : forall first hs1 hs2, block_ok hs1 -> block_ok hs2 ->
  tail_str first items hs1 = tail_str first items hs2 ->
  forall it, In it items -> get_by_name hs1 (lower it) = get_by_name hs2 (lower it).
Proof.
  induction items as [|it0 items IH]; intros first hs1 hs2 Hb1 Hb2 H it Hin; [destruct Hin|].
  cbn [tail_str] in H. apply app_inv_head in H. unfold piece in H. rewrite <- !app_assoc in H.
  apply app_inv_head in H.
  pose proof (get_by_name_ok hs1 (lower it0) Hb1) as Ho1. pose proof (get_by_name_ok hs2 (lower it0) Hb2) as Ho2.
  assert (G : get_by_name hs1 (lower it0) = get_by_name hs2 (lower it0) /\ tail_str false items hs1 = tail_str false items hs2).
  { destruct (get_by_name hs1 (lower it0)) as [v1|], (get_by_name hs2 (lower it0)) as [v2|]; cbn [valpart sstr_ok] in *.
    - cbn [app] in H. injection H as H. rewrite <- !app_assoc in H. cbn [app] in H.
      destruct (split_at_quote _ _ _ _ (escape_noquote v1 (proj1 Ho1)) (escape_noquote v2 (proj1 Ho2)) H) as [E1 E2].
      apply (escape_injective v1 v2 Ho1 Ho2) in E1. subst v2. now split.
    - exfalso. cbn [app] in H. destruct (tail_false_head items hs2) as [E|[r E]]; rewrite E in H; discriminate.
    - exfalso. cbn [app] in H. destruct (tail_false_head items hs1) as [E|[r E]]; rewrite E in H; discriminate.
    - now split. }
  destruct G as [G1 G2]. destruct Hin as [<-|Hin]; [exact G1|]. exact (IH false hs1 hs2 Hb1 Hb2 G2 it Hin).
Qed.

(* items of a strListGetItem loop are never empty *)
Lemma items_fuel_nonempty fuel : forall del l, items_ok (items_fuel fuel del l).
Proof.
  induction fuel as [|f IH]; intros del l; cbn [items_fuel]; [constructor|].
  destruct (scan_item del false (drop_while (is_delim2 del) l) []) as [item rest].
  destruct (rtrim item) as [|c r]; [constructor|]. constructor; [discriminate|apply IH].
Qed.
Lemma vary_items_ok vv : items_ok (vary_items vv).
Proof. unfold vary_items. destruct (vary_value vv); [apply items_fuel_nonempty|constructor]. Qed.

Lemma make_mark_closed vv hs : ~ In star (vary_items vv) -> make_mark vv hs = tail_str true (vary_items vv) hs.
Proof. intros H. unfold make_mark. now rewrite (assemble_closed _ (vary_items_ok vv) H). Qed.
Lemma make_mark_star vv hs : In star (vary_items vv) -> make_mark vv hs = star.
Proof. intros H. unfold make_mark. now apply assemble_star. Qed.

Theorem mark_injective vv hs1 hs2 : block_ok hs1 -> block_ok hs2 -> ~ In star (vary_items vv) ->
  make_mark vv hs1 = make_mark vv hs2 ->
  forall item, In item (vary_items vv) -> get_by_name hs1 (lower item) = get_by_name hs2 (lower item).
Proof.
  intros Hb1 Hb2 Hs H. rewrite !make_mark_closed in H by exact Hs. exact (tail_inj _ true hs1 hs2 Hb1 Hb2 H).
Qed.

(* a mark that is not "*" was built without meeting "*" *)
Lemma mark_not_star vv hs : make_mark vv hs <> star -> ~ In star (vary_items vv).
Proof. intros H Hin. apply H. now apply make_mark_star. Qed.
