(* handlers for the b64 area (lib/base64.cc coder, Basic credential decoding) *)
let chunks_of (spec : string) (src : n list) : n list list =
  if spec = "-" then [src] else
  let lens = List.map n_of_string (String.split_on_char ',' spec) in
  let rec go lens rest = match lens with
    | [] -> [rest]
    | l :: ls -> takeN l rest :: go ls (dropN l rest) in
  go lens src

let both s = s ^ " | " ^ s
(* decoder answers: bundled lib/base64.cc (flag false) | linked libnettle (flag true) *)
let both_dec f = f false ^ " | " ^ f true
let dec_str = function
  | DOk o -> "ok " ^ hex_of_bytes o
  | DTrunc o -> "trunc " ^ hex_of_bytes o
  | DRej w -> "rej " ^ hex_of_bytes w
  | DAbort -> "abort"

let () =
  reg "b64.enc" (fun [sp; h] -> both (hex_of_bytes (encode_chunks ectx_init (chunks_of sp (bytes_of_hex h)))));
  reg "b64.raw" (fun [h] -> both (hex_of_bytes (encode_raw (bytes_of_hex h))));
  reg "b64.dec" (fun [sp; h] ->
      both_dec (fun k -> dec_str (decode_chunks k dctx_init (chunks_of sp (bytes_of_hex h)) [])));
  reg "b64.rt" (fun [esp; dsp; h] ->
      let e = encode_chunks ectx_init (chunks_of esp (bytes_of_hex h)) in
      both_dec (fun k -> dec_str (decode_chunks k dctx_init (chunks_of dsp e) [])));
  reg "basic" (fun [cs; h] ->
      (* squid links libnettle in this build: decodeCleartext runs nettle's decoder *)
      match decodeCleartext true (bytes_of_hex h) with
      | None -> "null"
      | Some ct ->
        let (u, p) = basic_split (cs = "1") ct in
        "user=" ^ hex_of_bytes u ^ " pass=" ^ (match p with None -> "null" | Some p -> hex_of_bytes p)
        ^ " ct=" ^ hex_of_bytes ct)
