/* Scripted squid helper for the C47 end-to-end check (trusted lab stub, not part of the model).
 *
 *   helper_authhelper <dir> conc|plain      (conc: request lines start with a channel number)
 *
 * Works as url_rewrite_program or external_acl_type helper. On start it creates <dir>/started.<pid>. The scenario
 * id is taken from the first request line (...h47x<sid>x...); <dir>/<sid>.txt holds the script, one step per line:
 *     wait <k>      block until k request lines have been received in total
 *     w <hex>       write exactly these bytes to stdout with ONE write(2), then wait until the peer has read them
 *                   (SIOCOUTQ == 0 on the AF_UNIX socketpair; at most 2 s), so that squid sees every scripted
 *                   write as a separate read
 *     sleep <ms>
 *     waitfile <path>   block (at most 10 s) until the file exists
 * After the last step the process exits; squid starts a fresh one (channel ids restart at 1) for the next scenario.
 * Received lines and writes are appended to <dir>/<sid>.log.
 */
#include <errno.h>
#include <fcntl.h>
#include <signal.h>
#include <stdio.h>
#include <stdlib.h>
#include <string.h>
#include <sys/ioctl.h>
#include <sys/time.h>
#include <sys/types.h>
#include <unistd.h>
#include <linux/sockios.h>

static char dir[1024], logp[1200];
static char ibuf[1 << 16];
static size_t ilen = 0;
static int nlines = 0;

static double now(void) { struct timeval tv; gettimeofday(&tv, 0); return tv.tv_sec + tv.tv_usec / 1e6; }

static void logline(const char *what, const char *s, size_t n)
{
    FILE *f = fopen(logp, "a");
    if (!f) return;
    fprintf(f, "%.3f %s ", now(), what);
    fwrite(s, 1, n, f);
    fputc('\n', f);
    fclose(f);
}

/* returns 1 when a complete line was consumed from ibuf (copied into out), 0 on EOF */
static int next_line(char *out, size_t outsz)
{
    for (;;) {
        char *nl = memchr(ibuf, '\n', ilen);
        if (nl) {
            size_t n = nl - ibuf;
            size_t c = n < outsz - 1 ? n : outsz - 1;
            memcpy(out, ibuf, c); out[c] = 0;
            memmove(ibuf, nl + 1, ilen - n - 1);
            ilen -= n + 1;
            return 1;
        }
        if (ilen >= sizeof(ibuf)) return 0;
        ssize_t r = read(0, ibuf + ilen, sizeof(ibuf) - ilen);
        if (r <= 0) return 0;
        ilen += r;
    }
}

static int hexv(int c) { return c <= '9' ? c - '0' : (c | 32) - 'a' + 10; }

int main(int argc, char **argv)
{
    char line[8192], path[1300];
    FILE *sc = NULL;
    if (argc < 2) return 2;
    signal(SIGPIPE, SIG_IGN);
    snprintf(dir, sizeof(dir), "%s", argv[1]);
    snprintf(logp, sizeof(logp), "%s/early.log", dir);
    snprintf(path, sizeof(path), "%s/started.%d", dir, (int)getpid());
    { FILE *f = fopen(path, "w"); if (f) fclose(f); }

    /* The first request line of a scenario that nobody has claimed yet names the script to run. Lines of scenarios
     * already claimed (by a previous process that has exited: squid sends it the requests that were still queued)
     * are answered at once with ERR, which leaves the request exactly as an unanswered one (URL unchanged / denied). */
    for (;;) {
        char sid[64]; size_t k = 0;
        char *p;
        if (!next_line(line, sizeof(line))) return 0;
        p = strstr(line, "h47x");
        if (!p) continue;
        p += 4;
        while (*p && *p != 'x' && k < sizeof(sid) - 1) sid[k++] = *p++;
        sid[k] = 0;
        snprintf(path, sizeof(path), "%s/%s.claimed", dir, sid);
        int fd = open(path, O_CREAT | O_EXCL | O_WRONLY, 0644);
        if (fd < 0) {
            char out[64]; size_t n = 0;
            const char *q = line;
            if (argc > 2 && !strcmp(argv[2], "conc")) {
                while (*q >= '0' && *q <= '9' && n < 30) out[n++] = *q++;
                out[n++] = ' ';
            }
            memcpy(out + n, "ERR\n", 4); n += 4;
            if (write(1, out, n) != (ssize_t)n) return 0;
            snprintf(logp, sizeof(logp), "%s/%s.log", dir, sid);
            logline("late", line, strlen(line));
            continue;
        }
        close(fd);
        nlines = 1;
        snprintf(logp, sizeof(logp), "%s/%s.log", dir, sid);
        snprintf(path, sizeof(path), "%s/%s.txt", dir, sid);
        sc = fopen(path, "r");
        break;
    }
    logline("recv", line, strlen(line));
    if (!sc) { logline("noscript", "", 0); return 0; }

    char step[70000];
    while (fgets(step, sizeof(step), sc)) {
        if (!strncmp(step, "wait ", 5)) {
            int k = atoi(step + 5);
            while (nlines < k) {
                if (!next_line(line, sizeof(line))) { logline("eof", "", 0); return 0; }
                ++nlines;
                logline("recv", line, strlen(line));
            }
        } else if (!strncmp(step, "w ", 2)) {
            static char data[35000];
            size_t n = 0;
            const char *h = step + 2;
            while (h[0] && h[1] && h[0] != '\n' && n < sizeof(data)) { data[n++] = (char)(hexv(h[0]) * 16 + hexv(h[1])); h += 2; }
            ssize_t w = write(1, data, n);
            logline(w == (ssize_t)n ? "write" : "write-failed", step + 2, strlen(step + 2) - 1);
            if (w != (ssize_t)n) return 0;
            double t0 = now();
            for (;;) {
                int q = 0;
                if (ioctl(1, SIOCOUTQ, &q) != 0 || q == 0) break;
                if (now() - t0 > 2.0) { logline("outq-timeout", "", 0); break; }
                usleep(500);
            }
            usleep(1500);
        } else if (!strncmp(step, "sleep ", 6)) {
            usleep(1000 * atoi(step + 6));
        } else if (!strncmp(step, "waitfile ", 9)) {
            char *nl = strchr(step, '\n');
            double t0 = now();
            if (nl) *nl = 0;
            while (access(step + 9, F_OK) != 0 && now() - t0 < 10.0) usleep(2000);
        }
    }
    logline("exit", "", 0);
    return 0;
}
