(* Properties_C42.v — C42: IP-address ACLs match exactly the configured address sets.
   Statements only; proofs live in AclipProofs.v (and the shared splay library SplayProofs.v).

   Vocabulary (AclipModel.v / AclipProofs.v):
     addresses and masks are 128-bit numbers (IPv4 a.b.c.d = ::ffff:a.b.c.d), TOP = 2^128;
     pmask h = 2^128 - 2^h is the prefix mask with h host bits;
     a configured value is  CNet a h      the network a/(128-h)  (a single address when h = 0), or
                            CRange a b h  the addresses a..b (h = 0) / the networks a/(128-h)..b/(128-h);
     cv_ok c: no host bits below the mask, ends ordered, everything below 2^128 (and a range that ends at
       0.0.0.0 starts there: a second address 0.0.0.0 or :: means "no second address" to the code);
     cv_in x c: x belongs to the set c stands for (an interval, stated without masks);
     cv_val c: the (addr1, addr2, mask) triple acl_ip_data::FactoryParse() stores for c;
     acl_parse / acl_match: ACLIP::parse() / ACLIP::match() over the splay tree;
   Since /repo 98f97cc the ACL code orders addresses with matchIPAddr() (the numeric order of the
   128-bit values) instead of Ip::Address::operator< <= > >=, which special-case 0.0.0.0 and
   255.255.255.255 and are not an order; the side condition the main theorems used to carry is gone. *)
Require Import SquidV.Bytes SquidV.SplayModel SquidV.SplayProofs SquidV.AclipModel SquidV.AclipProofs.
Local Open Scope N_scope.

(* ===== masks ===== *)

(* applying a prefix mask rounds down to a multiple of 2^h *)
Theorem C42_prefix_mask_rounds_down : forall a h, a < TOP -> h <= 128 ->
  applyMask a (pmask h) = a / 2 ^ h * 2 ^ h.
Proof. exact land_pmask. Qed.
Print Assumptions C42_prefix_mask_rounds_down.

(* turnMaskedBitsOn() on an address without host bits yields the last address of its network *)
Theorem C42_host_bits_filled : forall a h, h <= 128 -> a mod 2 ^ h = 0 ->
  turnMaskedBitsOn a (pmask h) = a + (2 ^ h - 1).
Proof. exact turn_on_pmask. Qed.
Print Assumptions C42_host_bits_filled.

(* the interval semantics of a network is the CIDR one: same (128-h)-bit prefix *)
Theorem C42_network_is_common_prefix : forall a h x, a mod 2 ^ h = 0 ->
  (cv_in x (CNet a h) <-> x / 2 ^ h = a / 2 ^ h).
Proof. exact cv_in_net. Qed.
Print Assumptions C42_network_is_common_prefix.

(* DecodeMask("/k"): for 0 < k <= width the mask is the prefix mask with width-k host bits *)
Theorem C42_cidr_mask : forall k (v4 : bool), 0 < k -> k <= (if v4 then 32 else 128) ->
  mask_of_cidr k v4 = Some (pmask ((if v4 then 32 else 128) - k)).
Proof. exact mask_of_cidr_pmask. Qed.
Print Assumptions C42_cidr_mask.

(* ===== one value ===== *)

(* firstAddress()/lastAddress() of the stored triple are the two ends of the configured set *)
Theorem C42_first_last_are_the_set_ends : forall c, cv_ok c ->
  first_addr (cv_val c) = cv_lo c /\ last_addr (cv_val c) = cv_hi c /\
  (forall x, cv_in x c <-> cv_lo c <= x <= cv_hi c).
Proof. exact first_last_ends. Qed.
Print Assumptions C42_first_last_are_the_set_ends.

(* aclIpAddrNetworkCompare(client, value): negative below the set, zero inside, positive above *)
Theorem C42_network_compare_sign : forall c p, cv_ok c -> p < TOP ->
  ((net_cmp p (cv_val c) < 0)%Z <-> p < cv_lo c) /\
  ((net_cmp p (cv_val c) = 0)%Z <-> cv_in p c) /\
  ((net_cmp p (cv_val c) > 0)%Z <-> cv_hi c < p).
Proof. exact netcompare_sign. Qed.
Print Assumptions C42_network_compare_sign.

(* SplayInserter::Compare(a, b): -1 / +1 when one set lies entirely before the other, 0 iff they overlap *)
Theorem C42_compare_zero_iff_overlap : forall c1 c2, cv_ok c1 -> cv_ok c2 ->
  ((icompare (cv_val c1) (cv_val c2) < 0)%Z <-> cv_hi c1 < cv_lo c2) /\
  ((icompare (cv_val c1) (cv_val c2) > 0)%Z <-> cv_hi c2 < cv_lo c1) /\
  ((icompare (cv_val c1) (cv_val c2) = 0)%Z <-> exists x, cv_in x c1 /\ cv_in x c2).
Proof. exact compare_overlap. Qed.
Print Assumptions C42_compare_zero_iff_overlap.

(* SplayInserter::IsSubset(a, b) is inclusion of the sets *)
Theorem C42_is_subset_is_inclusion : forall c1 c2, cv_ok c1 -> cv_ok c2 ->
  (is_subset (cv_val c1) (cv_val c2) = true <-> cv_lo c2 <= cv_lo c1 /\ cv_hi c1 <= cv_hi c2).
Proof. exact subset_is_inclusion. Qed.
Print Assumptions C42_is_subset_is_inclusion.

(* ===== comparators on stored sequences ===== *)

(* on sorted pairwise-disjoint values the sign of the lookup comparator never increases
   (the condition under which the shared splay library finds an element iff one compares equal) *)
Theorem C42_lookup_comparator_monotone_on_disjoint : forall cs p,
  Forall cv_ok cs -> p < TOP -> sd (map cv_val cs) ->
  mono (net_cmp p) (map cv_val cs).
Proof. exact net_cmp_monotone. Qed.
Print Assumptions C42_lookup_comparator_monotone_on_disjoint.

(* the same for the insertion comparator Compare(new value, .) *)
Theorem C42_insert_comparator_monotone_on_disjoint : forall cs c,
  cv_ok c -> Forall cv_ok cs -> sd (map cv_val cs) ->
  mono (icompare (cv_val c)) (map cv_val cs).
Proof. exact icompare_monotone. Qed.
Print Assumptions C42_insert_comparator_monotone_on_disjoint.

(* ===== parse(): Merge keeps the stored ranges disjoint with the same union ===== *)

(* For every token list whose values are configured values without host bits (any order, duplicates,
   overlaps; global words anywhere): parse() ends normally (no exception, no freed-but-stored value,
   loop bound not reached), the flags are those of the global words, and the stored ranges are sorted,
   pairwise disjoint and cover exactly the union of the configured sets. *)
Theorem C42_parse_disjoint_same_union : forall toks cs,
  Forall tok_parsed toks -> vals_of toks = map cv_val cs -> Forall cv_ok cs ->
  exists t n, acl_parse toks = POk (any4 toks) (any6 toks) t n /\
    (forall x, In x (inorder t) -> first_addr x <= last_addr x) /\
    (forall A x B y C, inorder t = A ++ x :: B ++ y :: C -> last_addr x < first_addr y) /\
    (forall q, (exists w, In w (inorder t) /\ first_addr w <= q <= last_addr w) <-> (exists c, In c cs /\ cv_in q c)).
Proof. exact parse_disjoint_same_union. Qed.
Print Assumptions C42_parse_disjoint_same_union.

(* ===== the property ===== *)

(* match(address) <-> address in the union of the configured sets, or its family selected by
   all / ipv4 / ipv6 -- for all lists of values without host bits, all orders, all addresses. *)
Theorem C42_match_iff_in_union : forall toks cs p,
  Forall tok_parsed toks -> vals_of toks = map cv_val cs -> Forall cv_ok cs ->
  p < TOP ->
  exists t n, acl_parse toks = POk (any4 toks) (any6 toks) t n /\
    (snd (acl_match (any4 toks) (any6 toks) t p) = true <->
       (any4 toks = true /\ any6 toks = true) \/ (any4 toks = true /\ isIPv4 p = true) \/
       (any6 toks = true /\ isIPv4 p = false) \/ (exists c, In c cs /\ cv_in p c)).
Proof. exact acl_correct. Qed.
Print Assumptions C42_match_iff_in_union.

(* ... also for any sequence of lookups (each one re-shapes the tree) *)
Theorem C42_match_sequence : forall cs f4 f6 ps t,
  stored_ok cs t -> Forall (fun p => p < TOP) ps ->
  Forall2 (fun p b => b = true <-> acl_spec f4 f6 cs p) ps (snd (acl_match_seq f4 f6 t ps)).
Proof. exact acl_match_seq_ok. Qed.
Print Assumptions C42_match_sequence.

(* the global words *)
Theorem C42_global_words :
  parse_global s_all = Some (true, true) /\ parse_global s_ipv4 = Some (true, false) /\
  parse_global s_ipv6 = Some (false, true) /\ parse_global tok_x = None.
Proof. exact global_words. Qed.
Print Assumptions C42_global_words.

(* ===== regressions: the cases that went wrong before 98f97cc, computed ===== *)

(* "acl x src ::1 0.0.0.0" matches ::1; "acl x src ::1-::5" does not match 0.0.0.0;
   "acl x src 2001:db8::1-2001:db8::5" does not match 255.255.255.255 *)
Theorem C42_fixed_anyaddr_noaddr_cases :
  (let cs := [CNet 1 0; CNet V4ANY 0] in
   exists t n, acl_parse (plain_toks cs) = POk false false t n /\ snd (acl_match false false t 1) = true) /\
  (let cs := [CRange 1 5 0] in
   exists t n, acl_parse (plain_toks cs) = POk false false t n /\ snd (acl_match false false t V4ANY) = false) /\
  (let cs := [CRange db8_1 db8_5 0] in
   exists t n, acl_parse (plain_toks cs) = POk false false t n /\ snd (acl_match false false t V4NO) = false).
Proof. exact fixed_anyaddr_order. Qed.
Print Assumptions C42_fixed_anyaddr_noaddr_cases.

(* ===== what remains false for the code as it is ===== *)

(* "::/0": prefix length 0 becomes the all-ones mask, so the value is the single address :: and
   not the network of all addresses *)
Theorem C42_prefix_length_zero_refuted :
  mask_of_cidr 0 false = Some (pmask 0) /\ mask_of_cidr 0 true = Some (pmask 0) /\
  IpVal 0 0 (pmask 0) = cv_val (CNet 0 0) /\
  cv_in 1 (CNet 0 128) /\ ~ cv_in 1 (CNet 0 0).
Proof. exact prefix0_witness. Qed.
Print Assumptions C42_prefix_length_zero_refuted.

(* outside the property (a reversed range is not a valid value) but worth knowing:
   "acl x src 10.0.0.9-10.0.0.1 10.0.0.0/8" makes Merge() free a value the tree still holds *)
Theorem C42_reversed_range_frees_stored_value :
  acl_parse [(tok_x, SV [IpVal (V4ANY + 167772169) (V4ANY + 167772161) ALL1]);
             (tok_x, SV [IpVal (V4ANY + 167772160) 0 (pmask 24)])] = PDangling.
Proof. exact reversed_range_witness. Qed.
Print Assumptions C42_reversed_range_frees_stored_value.

(* ===== the hypotheses are satisfiable ===== *)
(* 10.0.0.0/8, 192.168.7.16-192.168.7.23, 2001:db8::1, 0.0.0.0, ::1-::5 *)
Example C42_ex_values_ok :
  Forall cv_ok [CNet net10 24; CRange blk_lo blk_hi 0; CNet db8_1 0; CNet V4ANY 0; CRange 1 5 0].
Proof. exact ex_values_ok. Qed.

Example C42_ex_plain_tokens : forall cs,
  Forall tok_parsed (plain_toks cs) /\ vals_of (plain_toks cs) = map cv_val cs.
Proof. exact ex_plain_tokens. Qed.
