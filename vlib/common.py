"""Shared plumbing for the /verif checks: paths, subprocess helpers, locks,
evidence writer, known-findings matcher, VIOLATION reporting."""
import fcntl, hashlib, json, os, subprocess, sys, time, contextlib

VERIF = os.path.dirname(os.path.dirname(os.path.abspath(__file__)))
REPO = os.environ.get("VERIF_REPO", "/repo")
BUILD = os.path.join(VERIF, "build")
EVID = os.path.join(VERIF, "evidence")
REPLAY = os.path.join(EVID, "replay")
COQ = os.path.join(VERIF, "coq")
GUARD = "SQUID_VERIF"

for d in (BUILD, EVID, REPLAY, os.path.join(BUILD, "obj"), os.path.join(BUILD, "bin"),
          os.path.join(BUILD, "ml"), os.path.join(BUILD, "cases")):
    os.makedirs(d, exist_ok=True)


def seed():
    try:
        return int(os.environ.get("VERIF_SEED", "1"))
    except ValueError:
        return 1


def sh(cmd, cwd=None, timeout=None, input=None, env=None, check=False, text=True):
    """Run a command (list or string); return (rc, stdout, stderr)."""
    shell = isinstance(cmd, str)
    e = dict(os.environ)
    if env:
        e.update(env)
    try:
        p = subprocess.run(cmd, cwd=cwd, shell=shell, input=input, env=e,
                           stdout=subprocess.PIPE, stderr=subprocess.PIPE,
                           timeout=timeout, text=text)
        rc, out, err = p.returncode, p.stdout, p.stderr
    except subprocess.TimeoutExpired as ex:
        rc = 124
        out = ex.stdout or ("" if text else b"")
        err = (ex.stderr or ("" if text else b""))
        if text and isinstance(out, bytes):
            out = out.decode("utf-8", "replace")
        if text and isinstance(err, bytes):
            err = err.decode("utf-8", "replace")
        err += "\n[timeout after %ss]" % timeout if text else b"\n[timeout]"
    if check and rc != 0:
        raise RuntimeError("command failed (%s): %s\n%s\n%s" % (rc, cmd, out[-3000:], err[-3000:]))
    return rc, out, err


@contextlib.contextmanager
def lock(name):
    path = os.path.join(BUILD, ".lock." + name)
    f = open(path, "w")
    try:
        fcntl.flock(f, fcntl.LOCK_EX)
        yield
    finally:
        fcntl.flock(f, fcntl.LOCK_UN)
        f.close()


def sha(s):
    if isinstance(s, str):
        s = s.encode()
    return hashlib.sha256(s).hexdigest()


def write_if_changed(path, content):
    try:
        with open(path) as f:
            if f.read() == content:
                return False
    except OSError:
        pass
    os.makedirs(os.path.dirname(path), exist_ok=True)
    tmp = path + ".tmp%d" % os.getpid()
    with open(tmp, "w") as f:
        f.write(content)
    os.replace(tmp, path)
    return True


def known_findings():
    """known_findings.json (the committed known-findings file) plus per-property staging files
    known_findings.d/*.json (merged into the main file before committing)."""
    with open(os.path.join(VERIF, "known_findings.json")) as f:
        out = list(json.load(f))
    d = os.path.join(VERIF, "known_findings.d")
    ids = set(e.get("id") for e in out)
    if os.path.isdir(d):
        for fn in sorted(os.listdir(d)):
            if fn.endswith(".json"):
                with open(os.path.join(d, fn)) as f:
                    for e in json.load(f):
                        if e.get("id") not in ids:
                            out.append(e)
                            ids.add(e.get("id"))
    # an entry that a staging file no longer lists (finding repaired) must not linger in the main file:
    staged_props = set(fn[:-5] for fn in os.listdir(d) if fn.endswith(".json")) if os.path.isdir(d) else set()
    staged_ids = set()
    for fn in (os.listdir(d) if os.path.isdir(d) else []):
        if fn.endswith(".json"):
            with open(os.path.join(d, fn)) as f:
                staged_ids |= set(e.get("id") for e in json.load(f))
    return [e for e in out if e.get("status") != "known" or e.get("property") not in staged_props or e.get("id") in staged_ids]


class Result:
    """Accumulates what one check run did; writes evidence and prints
    VIOLATION / KNOWN-FINDING lines."""

    def __init__(self, pid, tier):
        self.pid = pid
        self.tier = tier
        self.t0 = time.time()
        self.obligations = 0
        self.discharged = 0
        self.theorems = []
        self.assumptions_out = ""
        self.checker_cmds = []
        self.evaluations = 0
        self.distinct = set()
        self.nontrivial = 0
        self.rule = ""
        self.samples = []
        self.distribution = {}
        self.violations = []     # (signature, description, replay dict)
        self.known_hits = {}     # finding id -> description
        self.notes = []
        self.trusted = []
        self.extra = {}
        self.tables = {}

    # ---- correspondence accounting -------------------------------------
    def count_case(self, canon, nontrivial=True, kind=None):
        self.evaluations += 1
        h = hashlib.md5(canon.encode() if isinstance(canon, str) else canon).digest()[:8]
        if h not in self.distinct:
            self.distinct.add(h)
            if nontrivial:
                self.nontrivial += 1
        if kind is not None:
            self.distribution[kind] = self.distribution.get(kind, 0) + 1

    def sample(self, s, maxn=6):
        if len(self.samples) < maxn:
            self.samples.append(s)

    # ---- failures ------------------------------------------------------
    def fail(self, signature, description, replay):
        """Record a property failure. Known findings (matched by signature
        prefix against known_findings.json entries with status 'known') are
        reported as KNOWN-FINDING, everything else as a violation."""
        for k in known_findings():
            if k.get("status") == "known" and k.get("property") == self.pid and \
               any(signature.startswith(s) for s in k.get("signatures", [])):
                self.known_hits.setdefault(k["id"], k["description"])
                return False
        if len(self.violations) < 50:
            self.violations.append((signature, description, replay))
        return True

    def finish(self):
        wall = time.time() - self.t0
        os.makedirs(EVID, exist_ok=True)
        for fid, desc in sorted(self.known_hits.items()):
            print("KNOWN-FINDING: property=%s %s: %s" % (self.pid, fid, desc))
        rc = 0
        vpaths = []
        for i, (sig, desc, replay) in enumerate(self.violations[:5]):
            name = "%s-%s.json" % (self.pid, sha(sig + json.dumps(replay, sort_keys=True, default=str))[:10])
            path = os.path.join(REPLAY, name)
            with open(path, "w") as f:
                json.dump({"property": self.pid, "signature": sig, "description": desc,
                           "replay": replay}, f, indent=1, default=str)
            suffix = " no-failing-input-found" if replay.get("no_failing_input_found") else ""
            print("VIOLATION property=%s replay=%s%s" % (self.pid, path, suffix))
            print("  " + desc[:600])
            vpaths.append(path)
            rc = 1
        ev = {
            "property_id": self.pid,
            "tier": self.tier,
            "seed": seed(),
            "level": "proof",
            "coverage": {
                "obligations": self.obligations,
                "discharged": self.discharged,
                "checker_cmd": " ; ".join(self.checker_cmds) or "none",
                "trusted_base": self.trusted,
                "theorems": self.theorems,
                "print_assumptions": self.assumptions_out,
                "evaluations": self.evaluations,
                "distinct_nontrivial": self.nontrivial,
                "rule": self.rule,
                "samples": self.samples,
                "input_distribution": self.distribution,
                "generated_tables": self.tables,
                "known_findings_reproduced": sorted(self.known_hits),
                "notes": self.notes,
            },
            "assumptions": self.trusted,
            "wall_s": round(wall, 2),
            "violations": len(self.violations),
        }
        ev["coverage"].update(self.extra)
        with open(os.path.join(EVID, self.pid + ".json"), "w") as f:
            json.dump(ev, f, indent=1, default=str)
        return rc
