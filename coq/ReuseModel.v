(* ReuseModel.v — "may this response be stored and later served without contacting the origin" (C11).
   Transcribed, branch for branch, from the pinned tree (USE_HTTP_VIOLATIONS build, default settings):
     strListGetItem (src/StrList.cc), HttpHeader::getList / getCc / hasListMember (src/HttpHeader.cc),
     httpHeaderParseInt (src/HttpHeaderTools.cc), httpHeaderParseQuotedString (src/HttpHeader.cc, as of /repo c6c56f5: quoted-pairs decoded, HTAB accepted),
     HttpHdrCc::parse (src/HttpHdrCc.cc),
     clientInterpretRequestHeaders (src/client_side_request.cc), HttpRequest::maybeCacheable (src/HttpRequest.cc),
     storeCreateEntry (src/store.cc), HttpReply::hdrExpirationTime (src/HttpReply.cc),
     StoreEntry::timestampsSet / negativeCache / validToSend / checkNegativeHit (src/store.cc),
     HttpStateData::reusableReply / haveParsedReplyHeaders (src/http.cc),
     refreshStaleness / refreshCheck / refreshIsCachable / refreshCheckHTTP (src/refresh.cc),
     clientReplyContext::identifyStoreObject / identifyFoundObject / cacheHit / processMiss / processExpired
     (src/client_side_reply.cc).
   Directive names and ids, status-code values, the method table, the implicit refresh_pattern rule and the C integer
   limits come from gen/Reuse_gen.v; squid.conf defaults from gen/ReuseCfg_gen.v (both regenerated on every run).
   Executable definitions only. Times are Z (seconds); 32-bit directive values are Z within the int range. *)
Require Import SquidV.Bytes SquidV.HopModel.
Require Import SquidV.gen.Reuse_gen SquidV.gen.ReuseCfg_gen.
Local Open Scope N_scope.

(* ================================================================ text level *)

(* delim[2] of strListGetItem with del = ',' : " ,,\t\r\n\v\f" (every xisspace() character and the delimiter) *)
Definition is_delim3 (c : N) : bool := is_xspace c || (c =? 44).

(* the items a `while (strListGetItem(&str, ',', &item, &ilen, &pos))` loop sees: (item[0..ilen), text from item[0] to the
   end of the string). scan_item / rtrim are the quote-aware scanner and the xisspace() right-trim of HopModel (C04). *)
Fixpoint ritems_fuel (fuel : nat) (l : bytes) : list (bytes * bytes) :=
  match fuel with
  | O => []
  | S f =>
      let l1 := drop_while is_delim3 l in
      let '(item, rest) := scan_item 44 false l1 [] in
      match rtrim item with
      | [] => []
      | it => (it, l1) :: ritems_fuel f rest
      end
  end.
Definition ritems (l : bytes) : list (bytes * bytes) := ritems_fuel (S (length l)) (c_str l).
Definition cc_items (l : bytes) : list bytes := map fst (ritems l).

(* HttpHeader::getList: field values of one header id joined with ", " (strListAdd) *)
Definition join_values (vals : list bytes) : bytes := str_list_add_all [] vals.

Fixpoint ci_prefix (l p : bytes) : bool :=   (* strncasecmp(l, p, |p|) == 0 on a NUL-terminated l; p has no NUL *)
  match p, l with
  | [], _ => true
  | y :: p', x :: l' => (to_lower x =? to_lower y) && ci_prefix l' p'
  | _ :: _, [] => false
  end.
Definition byte_at (l : bytes) (i : N) : N := match nthN i l with Some c => c | None => 0 end.

(* HttpHeader::hasListMember(id, member, ','): prefix match and item[mlen] is '=', ',', ';' or NUL; item[mlen] is read
   from the underlying string (it may lie beyond ilen) *)
Definition has_list_member (vals : list bytes) (member : bytes) : bool :=
  existsb (fun p : bytes * bytes =>
             let ctx := snd p in
             ci_prefix ctx member &&
             (let c := byte_at ctx (lenN member) in (c =? 61) || (c =? 44) || (c =? 59) || (c =? 0)))
          (ritems (join_values vals)).

Definition s_no_cache : bytes := [110;111;45;99;97;99;104;101].
Definition s_mixed_replace : bytes :=
  [109;117;108;116;105;112;97;114;116;47;120;45;109;105;120;101;100;45;114;101;112;108;97;99;101].

(* ---------- strtol(start, nullptr, 10) and httpHeaderParseInt ---------- *)
Definition is_digit (c : N) : bool := (48 <=? c) && (c <=? 57).
Fixpoint digits_acc (l : bytes) (acc : Z) : Z :=
  match l with
  | c :: r => if is_digit c then digits_acc r (acc * 10 + Z.of_N (c - 48))%Z else acc
  | [] => acc
  end.
(* exact (unsaturated) value; glibc saturates at LONG_MIN/LONG_MAX with ERANGE, which parse_int tests below *)
Definition strtol10 (s : bytes) : Z :=
  let s1 := drop_while is_xspace s in
  match s1 with
  | 45 :: r => (- digits_acc r 0)%Z
  | 43 :: r => digits_acc r 0
  | _ => digits_acc s1 0
  end.
Definition parse_int (start : bytes) : option Z :=
  let parsed := strtol10 start in
  if ((parsed <? C_LONG_MIN) || (C_LONG_MAX <? parsed) (* errno == ERANGE *)
      || (parsed <? C_INT_MIN) || (C_INT_MAX <? parsed))%Z then None
  else if (parsed =? 0)%Z && negb (is_digit (byte_at start 0)) then None
  else Some parsed.

(* ---------- httpHeaderParseQuotedString(start, len, &val) ---------- *)
Inductive qs_result := QsFail | QsOk (val : bytes) | QsFuel.
Fixpoint qs_run_end (fuel : nat) (p : bytes) (len e : N) : N :=   (* the inner `while (end < start+len && ...) ++end` *)
  match fuel with
  | O => e
  | S f =>
      let c := byte_at p e in
      if (e <? len) && negb (c =? 92) && negb (c =? 34) && ((31 <? c) || (c =? 9)) && negb (c =? 127)
      then qs_run_end f p len (e + 1) else e
  end.
Fixpoint qs_loop (fuel : nat) (p : bytes) (len pos : N) (val : bytes) : qs_result :=
  match fuel with
  | O => QsFuel
  | S f =>
      if negb (byte_at p pos =? 34) && (pos <? len) then
        (* '\r' must be followed by '\n' *)
        let after_cr :=
          if byte_at p pos =? 13 then
            let pos1 := pos + 1 in
            if (len <? pos1) || negb (byte_at p pos1 =? 10) then None else Some pos1
          else Some pos in
        match after_cr with
        | None => QsFail
        | Some pos =>
            if byte_at p pos =? 10 then
              let pos1 := pos + 1 in
              if (len <? pos1) || (negb (byte_at p pos1 =? 32) && negb (byte_at p pos1 =? 9)) then QsFail
              else qs_loop f p len (pos1 + 1) (val ++ [32])
            else
              let quoted := byte_at p pos =? 92 in
              let pos_ok :=
                if quoted then
                  let pos1 := pos + 1 in
                  let q := byte_at p pos1 in
                  (* quoted-pair = "\" ( HTAB / SP / VCHAR / obs-text ), inside the field *)
                  if (q =? 0) || (len <=? pos1) || ((q <=? 31) && negb (q =? 9)) || (q =? 127) then None else Some pos1
                else Some pos in
              match pos_ok with
              | None => QsFail
              | Some pos =>
                  (* the escaped octet is taken literally, even when it is DQUOTE or backslash; qdtext includes HTAB *)
                  let e := qs_run_end (length p) p len (if quoted then pos + 1 else pos) in
                  let c := byte_at p e in
                  if ((c <=? 31) && negb (c =? 13) && negb (c =? 10) && negb (c =? 9)) || (c =? 127) then QsFail
                  else qs_loop f p len e (val ++ takeN (e - pos) (dropN pos p))
              end
        end
      else if byte_at p pos =? 34 then QsOk val else QsFail
  end.
Definition parse_quoted (p : bytes) (len : N) : qs_result :=
  if negb (byte_at p 0 =? 34) then QsFail else qs_loop (S (S (length p))) p len 1 [].

(* ================================================================ HttpHdrCc *)
Record cc := {
  m_public : bool; m_private : bool; m_no_cache : bool; m_no_store : bool; m_no_transform : bool;
  m_must_revalidate : bool; m_proxy_revalidate : bool; m_only_if_cached : bool; m_immutable : bool;
  (* Some v <-> the mask bit is set (v is the stored int); None <-> bit clear, value -1 *)
  v_max_age : option Z; v_s_maxage : option Z; v_max_stale : option Z; v_min_fresh : option Z;
  v_stale_if_error : option Z;
  private_has_params : bool;    (* private_.size() > 0 *)
  no_cache_has_params : bool;   (* no_cache.size() > 0 *)
  fuel_out : bool               (* a quoted-string loop ran out of fuel (never happens; theorems exclude it) *)
}.
Definition cc_empty : cc :=
  {| m_public := false; m_private := false; m_no_cache := false; m_no_store := false; m_no_transform := false;
     m_must_revalidate := false; m_proxy_revalidate := false; m_only_if_cached := false; m_immutable := false;
     v_max_age := None; v_s_maxage := None; v_max_stale := None; v_min_fresh := None; v_stale_if_error := None;
     private_has_params := false; no_cache_has_params := false; fuel_out := false |}.

Definition is_some {A} (o : option A) : bool := match o with Some _ => true | None => false end.

Fixpoint cc_lookup (tbl : list (list N * N)) (name : bytes) : N :=
  match tbl with
  | [] => CC_OTHER
  | (nm, id) :: r => if ci_eqb name nm then id else cc_lookup r name
  end.
Definition cc_type_by_name (name : bytes) : N := cc_lookup cc_attrs name.

Definition cc_isset (c : cc) (t : N) : bool :=
  if t =? CC_PUBLIC then m_public c
  else if t =? CC_PRIVATE then m_private c
  else if t =? CC_NO_CACHE then m_no_cache c
  else if t =? CC_NO_STORE then m_no_store c
  else if t =? CC_NO_TRANSFORM then m_no_transform c
  else if t =? CC_MUST_REVALIDATE then m_must_revalidate c
  else if t =? CC_PROXY_REVALIDATE then m_proxy_revalidate c
  else if t =? CC_MAX_AGE then is_some (v_max_age c)
  else if t =? CC_S_MAXAGE then is_some (v_s_maxage c)
  else if t =? CC_MAX_STALE then is_some (v_max_stale c)
  else if t =? CC_MIN_FRESH then is_some (v_min_fresh c)
  else if t =? CC_ONLY_IF_CACHED then m_only_if_cached c
  else if t =? CC_STALE_IF_ERROR then is_some (v_stale_if_error c)
  else if t =? CC_IMMUTABLE then m_immutable c
  else false.   (* CC_OTHER never sets a mask bit *)
Definition cc_mask_nonzero (c : cc) : bool :=
  m_public c || m_private c || m_no_cache c || m_no_store c || m_no_transform c || m_must_revalidate c
  || m_proxy_revalidate c || m_only_if_cached c || m_immutable c || is_some (v_max_age c) || is_some (v_s_maxage c)
  || is_some (v_max_stale c) || is_some (v_min_fresh c) || is_some (v_stale_if_error c).

Fixpoint find_eq (l : bytes) (i : N) : option N :=
  match l with [] => None | c :: r => if c =? 61 then Some i else find_eq r (i + 1) end.

(* `nlen` (the '=' position within the item, else ilen) and the directive type found by ccTypeByName(SBuf(item, nlen)) *)
Definition item_nlen (it : bytes) : N := match find_eq it 0 with Some i => i | None => lenN it end.
Definition item_type (it : bytes) : N := cc_type_by_name (takeN (item_nlen it) it).

(* the `!p || !httpHeaderParseInt(p, &x) || x < 0` test shared by the delta-seconds directives *)
Definition int_arg (p : option bytes) : option Z :=
  match p with
  | None => None
  | Some s => match parse_int s with Some v => if (v <? 0)%Z then None else Some v | None => None end
  end.

(* one iteration of the loop in HttpHdrCc::parse: `it` = item[0..ilen), `ctx` = text from item[0] to the end *)
Definition cc_step (c : cc) (itc : bytes * bytes) : cc :=
  let '(it, ctx) := itc in
  let ilen := lenN it in
  let nlen := item_nlen it in
  let p : option bytes := match find_eq it 0 with Some i => Some (dropN (i + 1) ctx) | None => None end in
  let t := item_type it in
  if cc_isset c t && negb (t =? CC_OTHER) then c        (* duplicate: ignored *)
  else if t =? CC_MAX_AGE then
    {| m_public := m_public c; m_private := m_private c; m_no_cache := m_no_cache c; m_no_store := m_no_store c;
       m_no_transform := m_no_transform c; m_must_revalidate := m_must_revalidate c;
       m_proxy_revalidate := m_proxy_revalidate c; m_only_if_cached := m_only_if_cached c; m_immutable := m_immutable c;
       v_max_age := int_arg p; v_s_maxage := v_s_maxage c; v_max_stale := v_max_stale c; v_min_fresh := v_min_fresh c;
       v_stale_if_error := v_stale_if_error c; private_has_params := private_has_params c;
       no_cache_has_params := no_cache_has_params c; fuel_out := fuel_out c |}
  else if t =? CC_S_MAXAGE then
    {| m_public := m_public c; m_private := m_private c; m_no_cache := m_no_cache c; m_no_store := m_no_store c;
       m_no_transform := m_no_transform c; m_must_revalidate := m_must_revalidate c;
       m_proxy_revalidate := m_proxy_revalidate c; m_only_if_cached := m_only_if_cached c; m_immutable := m_immutable c;
       v_max_age := v_max_age c; v_s_maxage := int_arg p; v_max_stale := v_max_stale c; v_min_fresh := v_min_fresh c;
       v_stale_if_error := v_stale_if_error c; private_has_params := private_has_params c;
       no_cache_has_params := no_cache_has_params c; fuel_out := fuel_out c |}
  else if t =? CC_MAX_STALE then
    {| m_public := m_public c; m_private := m_private c; m_no_cache := m_no_cache c; m_no_store := m_no_store c;
       m_no_transform := m_no_transform c; m_must_revalidate := m_must_revalidate c;
       m_proxy_revalidate := m_proxy_revalidate c; m_only_if_cached := m_only_if_cached c; m_immutable := m_immutable c;
       v_max_age := v_max_age c; v_s_maxage := v_s_maxage c;
       v_max_stale := match int_arg p with Some v => Some v | None => Some MAX_STALE_ANY end;
       v_min_fresh := v_min_fresh c;
       v_stale_if_error := v_stale_if_error c; private_has_params := private_has_params c;
       no_cache_has_params := no_cache_has_params c; fuel_out := fuel_out c |}
  else if t =? CC_MIN_FRESH then
    {| m_public := m_public c; m_private := m_private c; m_no_cache := m_no_cache c; m_no_store := m_no_store c;
       m_no_transform := m_no_transform c; m_must_revalidate := m_must_revalidate c;
       m_proxy_revalidate := m_proxy_revalidate c; m_only_if_cached := m_only_if_cached c; m_immutable := m_immutable c;
       v_max_age := v_max_age c; v_s_maxage := v_s_maxage c; v_max_stale := v_max_stale c; v_min_fresh := int_arg p;
       v_stale_if_error := v_stale_if_error c; private_has_params := private_has_params c;
       no_cache_has_params := no_cache_has_params c; fuel_out := fuel_out c |}
  else if t =? CC_STALE_IF_ERROR then
    {| m_public := m_public c; m_private := m_private c; m_no_cache := m_no_cache c; m_no_store := m_no_store c;
       m_no_transform := m_no_transform c; m_must_revalidate := m_must_revalidate c;
       m_proxy_revalidate := m_proxy_revalidate c; m_only_if_cached := m_only_if_cached c; m_immutable := m_immutable c;
       v_max_age := v_max_age c; v_s_maxage := v_s_maxage c; v_max_stale := v_max_stale c; v_min_fresh := v_min_fresh c;
       v_stale_if_error := int_arg p; private_has_params := private_has_params c;
       no_cache_has_params := no_cache_has_params c; fuel_out := fuel_out c |}
  else if t =? CC_PRIVATE then
    (* the mask bit is always set; private_ is cleaned without '=', appended to on a well-formed quoted string *)
    let r := match p with None => QsFail | Some s => parse_quoted s (ilen - nlen - 1) end in
    {| m_public := m_public c; m_private := true; m_no_cache := m_no_cache c; m_no_store := m_no_store c;
       m_no_transform := m_no_transform c; m_must_revalidate := m_must_revalidate c;
       m_proxy_revalidate := m_proxy_revalidate c; m_only_if_cached := m_only_if_cached c; m_immutable := m_immutable c;
       v_max_age := v_max_age c; v_s_maxage := v_s_maxage c; v_max_stale := v_max_stale c; v_min_fresh := v_min_fresh c;
       v_stale_if_error := v_stale_if_error c;
       private_has_params :=
         match p with
         | None => false
         | Some _ => match r with QsOk v => private_has_params c || negb (lenN v =? 0) | _ => private_has_params c end
         end;
       no_cache_has_params := no_cache_has_params c;
       fuel_out := fuel_out c || match r with QsFuel => is_some p | _ => false end |}
  else if t =? CC_NO_CACHE then
    let r := match p with None => QsFail | Some s => parse_quoted s (ilen - nlen - 1) end in
    {| m_public := m_public c; m_private := m_private c;
       m_no_cache := match p with None => true | Some _ => match r with QsOk _ => true | _ => m_no_cache c end end;
       m_no_store := m_no_store c;
       m_no_transform := m_no_transform c; m_must_revalidate := m_must_revalidate c;
       m_proxy_revalidate := m_proxy_revalidate c; m_only_if_cached := m_only_if_cached c; m_immutable := m_immutable c;
       v_max_age := v_max_age c; v_s_maxage := v_s_maxage c; v_max_stale := v_max_stale c; v_min_fresh := v_min_fresh c;
       v_stale_if_error := v_stale_if_error c; private_has_params := private_has_params c;
       no_cache_has_params :=
         match p with
         | None => false
         | Some _ => match r with QsOk v => no_cache_has_params c || negb (lenN v =? 0) | _ => no_cache_has_params c end
         end;
       fuel_out := fuel_out c || match r with QsFuel => is_some p | _ => false end |}
  else
    {| m_public := m_public c || (t =? CC_PUBLIC); m_private := m_private c; m_no_cache := m_no_cache c;
       m_no_store := m_no_store c || (t =? CC_NO_STORE);
       m_no_transform := m_no_transform c || (t =? CC_NO_TRANSFORM);
       m_must_revalidate := m_must_revalidate c || (t =? CC_MUST_REVALIDATE);
       m_proxy_revalidate := m_proxy_revalidate c || (t =? CC_PROXY_REVALIDATE);
       m_only_if_cached := m_only_if_cached c || (t =? CC_ONLY_IF_CACHED);
       m_immutable := m_immutable c || (t =? CC_IMMUTABLE);
       v_max_age := v_max_age c; v_s_maxage := v_s_maxage c; v_max_stale := v_max_stale c; v_min_fresh := v_min_fresh c;
       v_stale_if_error := v_stale_if_error c; private_has_params := private_has_params c;
       no_cache_has_params := no_cache_has_params c; fuel_out := fuel_out c |}.

Definition cc_fold (s : bytes) : cc := fold_left cc_step (ritems s) cc_empty.
(* HttpHdrCc::parse returns mask != 0; HttpHeader::getCc deletes the object otherwise *)
Definition cc_parse (s : bytes) : option cc :=
  let c := cc_fold s in if cc_mask_nonzero c then Some c else None.
(* message->cache_control: nullptr without a Cache-Control field *)
Definition cc_of_values (vals : list bytes) : option cc :=
  match vals with [] => None | _ => cc_parse (join_values vals) end.

Definition has_no_cache_with_params (c : cc) : bool := m_no_cache c && no_cache_has_params c.
Definition has_no_cache_without_params (c : cc) : bool := m_no_cache c && negb (no_cache_has_params c).
Definition occ {A} (o : option cc) (f : cc -> A) (d : A) : A := match o with Some c => f c | None => d end.

(* ================================================================ the transaction *)
Local Open Scope Z_scope.

Record config := {
  negative_ttl : Z;            (* Config.negativeTtl *)
  minimum_expiry_time : Z;     (* Config.minimum_expiry_time *)
  conf_max_stale : Z;          (* Config.maxStale *)
  r_min : Z; r_pct_ppm : Z; r_max : Z; r_max_stale : Z    (* the refresh rule R that applies *)
}.
Definition default_config : config :=
  {| negative_ttl := cfg_negative_ttl; minimum_expiry_time := cfg_minimum_expiry_time; conf_max_stale := cfg_max_stale;
     r_min := refresh_default_min; r_pct_ppm := refresh_default_pct_ppm; r_max := refresh_default_max;
     r_max_stale := refresh_default_max_stale |}.
(* REFRESH_OVERRIDE(flag): R = refreshLimits(url) is nullptr because no refresh_pattern is configured
   (cfg_no_refresh_pattern), and the implicit rule has no flag set (refresh_default_flags_clear) *)
Definition refresh_override : bool := false.

Record request := {
  q_method : bytes;
  q_cc_vals : list bytes;       (* Cache-Control field values, in order *)
  q_pragma_vals : list bytes;   (* Pragma field values *)
  q_has_authorization : bool;
  q_has_userinfo : bool;        (* URL user-info *)
  q_ims : bool                  (* If-Modified-Since with a valid date: flags.ims *)
}.
Inductive expires_hdr := ExpAbsent | ExpInvalid | ExpAt (t : Z).
Record reply := {
  p_status : N;
  p_cc_vals : list bytes;
  p_pragma_vals : list bytes;
  p_date : option Z;            (* parsed Date (None: absent or unparsable -> -1) *)
  p_expires : expires_hdr;
  p_last_modified : option Z;
  p_content_type : option bytes;
  p_content_length : Z          (* -1 when unknown *)
}.
(* transaction state the decision reads besides the messages *)
Record hstate := {
  released_earlier : bool;      (* RELEASE_REQUEST set by somebody else (store_miss, abort, ...) *)
  saw_date_go_back : bool;
  surrogate_no_store : bool;
  ignore_cache_control : bool   (* Surrogate-Control targeted at us *)
}.
Definition plain_hstate : hstate :=
  {| released_earlier := false; saw_date_go_back := false; surrogate_no_store := false; ignore_cache_control := false |}.

Fixpoint method_lookup (tbl : list (N * list N * bool)) (name : bytes) : N * bool :=
  match tbl with
  | [] => (METHOD_OTHER, method_other_cacheable)
  | (id, nm, c) :: r => if list_eqb name nm then (id, c) else method_lookup r name
  end.
Definition method_id (q : request) : N := fst (method_lookup method_table (q_method q)).
Definition method_resp_cacheable (q : request) : bool := snd (method_lookup method_table (q_method q)).

Definition q_cc (q : request) : option cc := cc_of_values (q_cc_vals q).

(* clientInterpretRequestHeaders: flags.noCache (flags.ignoreCc is false; reload_into_ims and refresh_nocache_hack
   are off by default, so nocacheHack is never set) *)
Definition q_no_cache_seen (q : request) : bool :=
  (match q_cc q with
   | Some c => m_no_cache c
   | None => match q_pragma_vals q with [] => false | vs => has_list_member vs s_no_cache end
   end) || (method_id q =? METHOD_OTHER)%N.
Definition q_nocache_hack (q : request) : bool := q_no_cache_seen q && cfg_reload_into_ims.
Definition q_flag_no_cache (q : request) : bool := q_no_cache_seen q && negb cfg_reload_into_ims.
Definition q_flag_auth (q : request) : bool := q_has_authorization q || q_has_userinfo q.
(* HttpRequest::maybeCacheable for http:// (not intercepted) *)
Definition q_cachable (q : request) : bool :=
  method_resp_cacheable q && negb (occ (q_cc q) m_no_store false).
Definition q_only_if_cached (q : request) : bool := occ (q_cc q) m_only_if_cached false.

(* ---------- the reply as HttpReply::hdrCacheInit sees it ---------- *)
Definition p_cc (p : reply) : option cc := cc_of_values (p_cc_vals p).
Definition rep_date (p : reply) : Z := match p_date p with Some d => d | None => -1 end.
Definition rep_last_modified (p : reply) : Z := match p_last_modified p with Some d => d | None => -1 end.
(* HttpReply::hdrExpirationTime (vary_ignore_expire is off) *)
Definition rep_expires (p : reply) (now : Z) : Z :=
  let from_cc :=
    match p_cc p with
    | Some c => match v_s_maxage c with Some v => Some v | None => v_max_age c end
    | None => None
    end in
  match from_cc with
  | Some v => if 0 <=? rep_date p then rep_date p + v else now
  | None =>
      match p_expires p with
      | ExpAbsent => -1
      | ExpInvalid => now
      | ExpAt e => if e <? 0 then now else e
      end
  end.

(* ---------- the StoreEntry ---------- *)
Record entry := {
  e_timestamp : Z; e_expires : Z; e_lastmod_raw : Z;   (* lastModified_ *)
  e_revalidate_always : bool; e_revalidate_stale : bool; e_negcached : bool;
  e_public : bool;
  e_content_length : Z;
  e_immutable : bool;           (* reply CC:immutable *)
  e_stale_if_error : option Z
}.
Definition e_last_modified (e : entry) : Z := if e_lastmod_raw e <? 0 then e_timestamp e else e_lastmod_raw e.

(* StoreEntry::timestampsSet: (timestamp, expires); no Age header, peer response time below one second *)
Definition timestamps (p : reply) (now : Z) : Z * Z :=
  let served0 := rep_date p in
  let served :=
    if (served0 <? 0) || (now <? served0) then now
    else if served0 <? now - 24 * 60 * 60 then now
    else served0 in
  let rexp := rep_expires p now in
  let exp := if (0 <? rexp) && (-1 <? rep_date p) then served + (rexp - rep_date p) else rexp in
  (served, exp).

(* ---------- refreshStaleness: -1 fresh, else the amount of staleness (0 is stale); which rule fired ---------- *)
Inductive stale_rule := SfExpires | SfMax | SfLmfactor | SfMin | SfNone.
Definition refresh_staleness (cf : config) (e : entry) (check_time age : Z) : Z * stale_rule :=
  if -1 <? e_expires e then
    if check_time <? e_expires e then (-1, SfExpires) else (check_time - e_expires e, SfExpires)
  else if r_max cf <? age then (age - r_max cf, SfMax)
  else
    let lastmod_delta := e_timestamp e - e_last_modified e in
    if 0 <? lastmod_delta then
      let stale_age := lastmod_delta * r_pct_ppm cf / 1000000 in
      if stale_age <=? age then (age - stale_age, SfLmfactor) else (-1, SfLmfactor)
    else if age <? r_min cf then (-1, SfMin)
    else (age - r_min cf, SfNone).

(* refreshCheck's answer: the codes below 200 are FRESH_*, the others STALE_* *)
Inductive refresh_reason :=
  FRESH_REQUEST_MAX_STALE_ALL | FRESH_REQUEST_MAX_STALE_VALUE | FRESH_EXPIRES | FRESH_LMFACTOR_RULE | FRESH_MIN_RULE
| STALE_MUST_REVALIDATE | STALE_RELOAD_INTO_IMS | STALE_FORCED_RELOAD | STALE_EXCEEDS_REQUEST_MAX_AGE_VALUE
| STALE_EXPIRES | STALE_MAX_RULE | STALE_LMFACTOR_RULE | STALE_MAX_STALE | STALE_DEFAULT.
Definition reason_is_fresh (r : refresh_reason) : bool :=
  match r with
  | FRESH_REQUEST_MAX_STALE_ALL | FRESH_REQUEST_MAX_STALE_VALUE | FRESH_EXPIRES | FRESH_LMFACTOR_RULE | FRESH_MIN_RULE => true
  | _ => false
  end.

(* refreshCheck(entry, request, delta); `rq` = None for refreshIsCachable's request-less call. The reload branch that
   sets request->flags.noCache needs flags.nocacheHack without Config.onoff.reload_into_ims, i.e. a refresh_pattern with
   ignore-reload or reload-into-ims: none is configured. *)
Definition refresh_check (cf : config) (e : entry) (rq : option request) (now delta : Z) : refresh_reason :=
  let check_time0 := now + delta in
  let age0 := if e_timestamp e <? check_time0 then check_time0 - e_timestamp e else 0 in
  let minfresh :=
    match rq with
    | Some q => match q_cc q with Some c => match v_min_fresh c with Some v => v | None => 0 end | None => 0 end
    | None => 0
    end in
  let age := age0 + minfresh in
  let check_time := check_time0 + minfresh in
  let '(staleness, sf) := refresh_staleness cf e check_time age in
  if e_revalidate_always e || ((-1 <? staleness) && e_revalidate_stale e) then STALE_MUST_REVALIDATE
  else
    let req_part : option refresh_reason :=
      match rq with
      | None => None
      | Some q =>
          if q_ims q && cfg_refresh_all_ims then Some STALE_FORCED_RELOAD
          else if q_nocache_hack q then
            (* R->flags.ignore_reload is clear; Config.onoff.reload_into_ims is what set nocacheHack *)
            Some STALE_RELOAD_INTO_IMS
          else
            match q_cc q with
            | None => None
            | Some c =>
                let by_max_age :=
                  match v_max_age c with
                  | Some ma =>
                      if e_immutable e then false
                      else (ma <? age) || (ma =? 0)
                  | None => false
                  end in
                if by_max_age then Some STALE_EXCEEDS_REQUEST_MAX_AGE_VALUE
                else
                  match v_max_stale c with
                  | Some ms =>
                      if -1 <? staleness then
                        if ms =? MAX_STALE_ANY then Some FRESH_REQUEST_MAX_STALE_ALL
                        else if staleness <? ms then Some FRESH_REQUEST_MAX_STALE_VALUE
                        else None
                      else None
                  | None => None
                  end
            end
      end in
    match req_part with
    | Some r => r
    | None =>
        if staleness =? -1 then
          match sf with
          | SfExpires => FRESH_EXPIRES
          | SfLmfactor => FRESH_LMFACTOR_RULE
          | _ => FRESH_MIN_RULE
          end
        else
          let max_stale := if 0 <=? r_max_stale cf then r_max_stale cf else conf_max_stale cf in
          if (0 <=? max_stale) && (max_stale <? staleness) then STALE_MAX_STALE
          else
            match sf with
            | SfExpires => STALE_EXPIRES
            | SfMax => STALE_MAX_RULE
            | SfLmfactor => STALE_LMFACTOR_RULE
            | _ => STALE_DEFAULT
            end
    end.

(* refreshIsCachable(entry) *)
Definition refresh_is_cachable (cf : config) (e : entry) (now : Z) : bool :=
  let reason := refresh_check cf e None now (minimum_expiry_time cf) in
  if reason_is_fresh reason then true
  else if e_last_modified e <? 0 then false
  else if e_content_length e =? 0 then false
  else true.

(* ---------- HttpStateData::reusableReply ---------- *)
Inductive decision := ReuseNot | CachePositively | CacheNegatively | DoNotCacheButShare.

Definition status_in (s : N) (l : list N) : bool := existsb (fun x => (s =? x)%N) l.

(* the `switch (rep->sline.status())` at the end of reusableReply *)
Definition status_decision (cf : config) (p : reply) (e : entry) (now : Z) : decision :=
  let s := p_status p in
  if status_in s [scOkay; scNonAuthoritativeInformation; scMultipleChoices; scMovedPermanently; scPermanentRedirect; scGone] then
    if refresh_is_cachable cf e now || refresh_override then CachePositively else DoNotCacheButShare
  else if status_in s [scFound; scTemporaryRedirect] then
    if rep_date p <=? 0 then DoNotCacheButShare
    else if rep_date p <? rep_expires p now then CachePositively
    else DoNotCacheButShare
  else if status_in s [scNoContent; scUseProxy; scForbidden; scNotFound; scMethodNotAllowed; scUriTooLong;
                       scInternalServerError; scNotImplemented; scBadGateway; scServiceUnavailable;
                       scGatewayTimeout; scMisdirectedRequest] then
    if use_http_violations && (0 <? negative_ttl cf) then CacheNegatively else DoNotCacheButShare
  else if (s =? scBadRequest)%N then
    if use_http_violations && (0 <? negative_ttl cf) then CacheNegatively else ReuseNot
  else if status_in s [scSeeOther; scNotModified; scUnauthorized; scProxyAuthenticationRequired; scPaymentRequired;
                       scInsufficientStorage] then DoNotCacheButShare
  else ReuseNot.   (* the listed non-shareable codes and `default:` (unknown status code) *)

Definition reusable_reply (cf : config) (h : hstate) (q : request) (p : reply) (e : entry) (now : Z) : decision :=
  let qcc := q_cc q in
  let rcc := p_cc p in
  if released_earlier h || negb (q_cachable q) (* storeCreateEntry: setPrivateKey(false, !flags.cachable) *) then DoNotCacheButShare
  else if saw_date_go_back h then ReuseNot
  else if surrogate_no_store h then ReuseNot
  else if negb (ignore_cache_control h) && occ qcc m_no_store false && negb refresh_override then ReuseNot
  else if negb (ignore_cache_control h) && occ rcc has_no_cache_with_params false then ReuseNot
  else if negb (ignore_cache_control h) && occ rcc m_no_store false && negb refresh_override then ReuseNot
  else if negb (ignore_cache_control h) && occ rcc m_private false && negb refresh_override then ReuseNot
  else
    let auth_block :=
      if q_flag_auth q then
        match rcc with
        | None => true
        | Some c =>
            if ignore_cache_control h then true
            else
              let may_store :=
                if m_public c then true
                else if m_must_revalidate c then true
                else if use_http_violations && has_no_cache_without_params c then true
                else if is_some (v_s_maxage c) then true
                else false in
              negb may_store
        end
      else false in
    if auth_block then ReuseNot
    else if match p_content_type p with Some v => ci_prefix v s_mixed_replace | None => false end then ReuseNot
    else
      status_decision cf p e now.

(* ---------- HttpStateData::haveParsedReplyHeaders: the entry after the first transaction ---------- *)
Definition first_entry (cf : config) (h : hstate) (q : request) (p : reply) (now : Z) : entry :=
  let '(ts, exp) := timestamps p now in
  let rcc := p_cc p in
  let e0 :=
    {| e_timestamp := ts; e_expires := exp; e_lastmod_raw := rep_last_modified p;
       e_revalidate_always := false; e_revalidate_stale := false; e_negcached := false; e_public := false;
       e_content_length := p_content_length p;
       e_immutable := occ rcc m_immutable false;
       e_stale_if_error := match rcc with Some c => v_stale_if_error c | None => None end |} in
  let d := reusable_reply cf h q p e0 now in
  (* cacheNegatively() -> negativeCache() *)
  let exp1 := match d with CacheNegatively => if exp <=? 0 then now + negative_ttl cf else exp | _ => exp end in
  let neg := match d with CacheNegatively => now <? exp1 | _ => false end in
  let always :=
    if ignore_cache_control h then false
    else match rcc with
         | Some c => has_no_cache_without_params c || m_private c
         | None => use_http_violations &&
                   match p_pragma_vals p with [] => false | vs => has_list_member vs s_no_cache end
         end in
  let stale :=
    if ignore_cache_control h then false
    else match rcc with
         | Some c => negb (has_no_cache_without_params c || m_private c)
                     && (m_proxy_revalidate c || m_must_revalidate c || is_some (v_s_maxage c))
         | None => false
         end in
  {| e_timestamp := ts; e_expires := exp1; e_lastmod_raw := rep_last_modified p;
     e_revalidate_always := always; e_revalidate_stale := stale; e_negcached := neg;
     e_public := match d with CachePositively | CacheNegatively => true | _ => false end;
     e_content_length := p_content_length p; e_immutable := e_immutable e0; e_stale_if_error := e_stale_if_error e0 |}.

(* ---------- the second, identical request ---------- *)
Inductive outcome :=
  NotForwarded   (* the first request was answered by Squid itself (only-if-cached): nothing could be stored *)
| Hit            (* served from the cache without contacting the origin *)
| Revalidate     (* a conditional request went to the origin *)
| Miss           (* an unconditional request went to the origin *)
| Refused.       (* the second request was answered 504 (only-if-cached) without using the stored response *)

Definition second_request (cf : config) (e : entry) (q : request) (now2 : Z) : outcome :=
  (* identifyStoreObject: "external" no-cache requests skip the Store lookup *)
  if q_flag_no_cache q then (if q_only_if_cached q then Refused else Miss)
  else if negb (e_public e) then (if q_only_if_cached q then Refused else Miss)
  (* identifyFoundObject: offline_mode is off; validToSend *)
  else if e_negcached e && (e_expires e <=? now2) then (if q_only_if_cached q then Refused else Miss)
  (* cacheHit *)
  else if (e_negcached e && (now2 <? e_expires e)) && negb (q_nocache_hack q) then Hit
  else
    let reason := refresh_check cf e (Some q) now2 0 in
    if negb cfg_offline_mode && negb (reason_is_fresh reason) then
      if e_last_modified e <? 0 then (if q_only_if_cached q then Refused else Miss)
      else if q_flag_no_cache q then (if q_only_if_cached q then Refused else Miss)
      else if q_only_if_cached q then Refused
      else Revalidate
    else Hit.

Definition two_requests (cf : config) (h : hstate) (q : request) (p : reply) (now1 gap : Z) : outcome :=
  (* first request: a new URL is never in the cache; processMiss answers only-if-cached with 504 *)
  if q_only_if_cached q then NotForwarded
  else second_request cf (first_entry cf h q p now1) q (now1 + gap).

(* the observation line of the end-to-end run *)
Definition first_arrivals (q : request) : N := if q_only_if_cached q then 0%N else 1%N.
