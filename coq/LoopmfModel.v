(* LoopmfModel.v — forwarding-loop detection and Max-Forwards handling (C63). Executable definitions only.

   Transcribed from (line references are to the pinned tree):
     src/cache_cf.cc configDoConfigure        ThisCache  = "<uniqueHostname> (<visible_appname_string>)"
                                              ThisCache2 = " " ++ ThisCache
     src/StrList.cc strListIsSubstr           list->find(s) != npos  (String::find = strstr on the 0-terminated text)
     src/HttpHeader.cc getList / strListAdd   values of all fields with the id joined by ", "   (HopModel.str_list_add_all)
     src/HttpHeader.cc addVia                 "<major>.<minor> " ++ ThisCache appended to the joined received Via
     src/HttpHeader.cc getInt64, HttpHeaderEntry::getInt64, src/HttpHeaderTools.cc httpHeaderParseOffset (strtoll)
     src/client_side.cc clientProcessRequest  mustReplyToOptions  => 501 (ERR_UNSUP_REQ), nothing forwarded
     src/client_side_request.cc clientInterpretRequestHeaders   flags.loopDetected
     src/client_side_reply.cc clientGetMoreData (TRACE + Max-Forwards 0 => traceReply), identifyStoreObject,
                                              identifyFoundObject, cacheHit (stale + loopDetected => processMiss), processExpired, processMiss (403 on loop)
     src/http.cc copyOneHeaderFromClientsideRequestToUpstreamRequest, case MAX_FORWARDS; httpBuildRequestHeader addVia

   Not modelled (inputs of the decision instead): the store lookup and the freshness verdict of refreshCheckHTTP
   (`cstate`), request->flags.noCache (`nocache`). Assumed: forward proxy, `via on`, no only-if-cached, no redirect
   (url_rewrite), http scheme, request-target not "*", method not PURGE/CONNECT. *)
Require Import SquidV.Bytes SquidV.HopModel.
Require Import SquidV.gen.HdrTable_gen SquidV.gen.Loopmf_gen.
Local Open Scope N_scope.

(* ---------- configuration ---------- *)
Record cfg := { c_host : bytes;      (* uniqueHostname(): unique_hostname or visible_hostname *)
                c_app : bytes }.     (* visible_appname_string *)

(* snprintf(ThisCache, ..., "%s (%s)", uniqueHostname(), visible_appname_string) *)
Definition this_cache (c : cfg) : bytes := c_host c ++ [32; 40] ++ c_app c ++ [41].
(* snprintf(ThisCache2, ..., " %s (%s)", ...) *)
Definition this_cache2 (c : cfg) : bytes := 32 :: this_cache c.

(* ---------- strstr ---------- *)
(* strstr(hay, needle) != NULL on 0-terminated strings (callers pass c_str'd text) *)
Fixpoint is_substr (needle hay : bytes) : bool :=
  starts_with hay needle ||
  match hay with
  | [] => false
  | _ :: r => is_substr needle r
  end.

(* ---------- header access ---------- *)
Definition is_via (h : hdr) : bool := hdr_id h =? ID_VIA.
Definition is_mf (h : hdr) : bool := hdr_id h =? ID_MAX_FORWARDS.

(* HttpHeader::has(VIA) *)
Definition has_via (hs : list hdr) : bool := existsb is_via hs.
(* HttpHeader::getList(VIA): strListAdd(&s, e->value.termedBuf(), ',') for every Via entry, in order *)
Definition via_value (hs : list hdr) : bytes := str_list_add_all [] (map h_value (filter is_via hs)).

(* strListIsSubstr(list, s, del) = (list->find(s) != npos); String::pos() returns NULL for an undefined (empty)
   String whatever the needle, otherwise strstr(termedBuf(), s) *)
Definition str_list_is_substr (lst needle : bytes) : bool :=
  match lst with
  | [] => false
  | _ => is_substr (c_str needle) lst
  end.

(* clientInterpretRequestHeaders:
     if (req_hdr->has(VIA)) { String s = req_hdr->getList(VIA); if (strListIsSubstr(&s, ThisCache2, ',')) loopDetected = true; } *)
Definition loop_detected (c : cfg) (hs : list hdr) : bool :=
  has_via hs && str_list_is_substr (via_value hs) (this_cache2 c).

(* ---------- httpHeaderParseOffset = strtoll(start, &end, 10) + checks ---------- *)
Definition c_isspace (ch : N) : bool := tbl_get false c_isspace_tbl ch.
Definition is_digit (ch : N) : bool := (48 <=? ch) && (ch <=? 57).

(* value of the maximal digit prefix (unbounded) and whether at least one digit was seen *)
Fixpoint digits_val (l : bytes) (acc : Z) (seen : bool) : Z * bool :=
  match l with
  | ch :: r => if is_digit ch then digits_val r (acc * 10 + Z.of_N (ch - 48))%Z true else (acc, seen)
  | [] => (acc, seen)
  end.

Fixpoint skip_space (l : bytes) : bytes :=
  match l with
  | ch :: r => if c_isspace ch then skip_space r else l
  | [] => []
  end.

(* None = httpHeaderParseOffset returned false:
     no digits            -> strtoll returns 0 with end == start                     -> "start == end"
     out of int64 range   -> strtoll clamps to LLONG_MAX/LLONG_MIN and sets ERANGE   -> the ERANGE test
   anything after the digits is ignored (endPtr is not looked at by getInt64) *)
Definition parse_offset (v : bytes) : option Z :=
  let l := skip_space (c_str v) in
  let '(neg, l1) := match l with
                    | ch :: r => if ch =? 45 then (true, r) else if ch =? 43 then (false, r) else (false, l)
                    | [] => (false, l)
                    end in
  let '(a, seen) := digits_val l1 0%Z false in
  if negb seen then None
  else
    let x := if neg then (- a)%Z else a in
    if (x <? llong_min)%Z || (llong_max <? x)%Z then None else Some x.

(* HttpHeaderEntry::getInt64: -1 when the value does not parse *)
Definition entry_int64 (h : hdr) : Z :=
  match parse_offset (h_value h) with Some x => x | None => (-1)%Z end.

(* HttpHeader::getInt64(MAX_FORWARDS): findEntry = first entry with the id; -1 when absent *)
Definition mf_first (hs : list hdr) : Z :=
  match filter is_mf hs with
  | h :: _ => entry_int64 h
  | [] => (-1)%Z
  end.

(* ---------- request methods ---------- *)
Inductive meth := M_GET | M_HEAD | M_POST | M_PUT | M_DELETE | M_OPTIONS | M_TRACE.
Definition is_options (m : meth) : bool := match m with M_OPTIONS => true | _ => false end.
Definition is_trace (m : meth) : bool := match m with M_TRACE => true | _ => false end.

(* ---------- what is sent upstream ---------- *)
(* copyOneHeaderFromClientsideRequestToUpstreamRequest, case MAX_FORWARDS (run once per received entry):
     if (method == TRACE || method == OPTIONS) { hops = e->getInt64(); if (hops > 0) hdr_out->putInt64(MAX_FORWARDS, hops - 1); } *)
Fixpoint fwd_mfs_entries (es : list hdr) : list Z :=
  match es with
  | [] => []
  | e :: r => let hops := entry_int64 e in
              (if (0 <? hops)%Z then [(hops - 1)%Z] else []) ++ fwd_mfs_entries r
  end.
Definition fwd_mfs (m : meth) (hs : list hdr) : list Z :=
  if is_trace m || is_options m then fwd_mfs_entries (filter is_mf hs) else [].

(* "%d" of a non-negative number *)
Fixpoint dec_fuel (f : nat) (n : N) (acc : bytes) : bytes :=
  match f with
  | O => acc
  | S f' => let acc' := (48 + n mod 10) :: acc in
            if n / 10 =? 0 then acc' else dec_fuel f' (n / 10) acc'
  end.
Definition dec_N (n : N) : bytes := dec_fuel (S (N.to_nat (N.size n))) n [].

(* HttpHeader::addVia(request->http_ver, hdr_in), Config.onoff.via on, protocol HTTP:
     buf = "<major>.<minor> " ++ ThisCache; strVia = hdr_in->getList(VIA); if (!strVia.isEmpty()) strVia += ", "; strVia += buf *)
Definition own_via_entry (c : cfg) (major minor : N) : bytes :=
  dec_N major ++ [46] ++ dec_N minor ++ [32] ++ c_str (this_cache c).
Definition fwd_via (c : cfg) (major minor : N) (hs : list hdr) : bytes :=
  let v := via_value hs in
  (match v with [] => [] | _ => v ++ [44; 32] end) ++ own_via_entry c major minor.

(* ---------- the decision ---------- *)
(* result of the store lookup for this request + refreshCheckHTTP's verdict on the entry found *)
Inductive cstate := CNone | CFresh | CStale.

Inductive outcome :=
  | Local (status : N)                                   (* answered by this Squid, nothing sent upstream *)
  | Forward (cond : bool) (mfs : list Z) (via : bytes).  (* one upstream request; cond = revalidation of a stored entry *)

Definition st_forbidden : N := 403.
Definition st_not_implemented : N := 501.
Definition st_ok : N := 200.

(* clientReplyContext::processMiss: "Deny loops" *)
Definition process_miss (c : cfg) (m : meth) (major minor : N) (hs : list hdr) : outcome :=
  if loop_detected c hs then Local st_forbidden
  else Forward false (fwd_mfs m hs) (fwd_via c major minor hs).

(* clientReplyContext::processExpired: flags.loopDetected is not consulted here (cacheHit tests it before calling);
   the revalidation request goes to FwdState *)
Definition process_expired (c : cfg) (m : meth) (major minor : N) (hs : list hdr) : outcome :=
  Forward true (fwd_mfs m hs) (fwd_via c major minor hs).

Definition handle (c : cfg) (m : meth) (major minor : N) (cache : cstate) (nocache : bool) (hs : list hdr) : outcome :=
  (* clientProcessRequest: mustReplyToOptions *)
  if is_options m && (mf_first hs =? 0)%Z then Local st_not_implemented
  else
  (* clientGetMoreData *)
  if is_trace m then
    if (mf_first hs =? 0)%Z then Local st_ok                        (* traceReply() *)
    else process_miss c m major minor hs                            (* doGetMoreData with no StoreEntry *)
  else
    (* identifyStoreObject: "external" no-cache requests skip Store lookups *)
    let found := if nocache then CNone else cache in
    match found with
    | CNone => process_miss c m major minor hs
    | _ =>
        (* identifyFoundObject *)
        if nocache then process_miss c m major minor hs             (* forgetHit(); CLIENT_REFRESH_MISS *)
        else
          (* cacheHit *)
          match found with
          | CStale =>                                                (* refreshCheckHTTP(e, r) *)
              if loop_detected c hs then process_miss c m major minor hs   (* "Forwarding loop detected. Do MISS" *)
              else if nocache then process_miss c m major minor hs
              else process_expired c m major minor hs
          | _ => Local st_ok                                         (* plain old HIT *)
          end
    end.

(* ---------- glue for the runner ---------- *)
Definition cfg_of (host : bytes) : cfg := {| c_host := host; c_app := app_fullname |}.
