(* AccessProofs.v — proofs for C45 (work in progress) *)
Require Import SquidV.Bytes SquidV.SplayModel SquidV.TokModel SquidV.IntrangeModel SquidV.AccessModel.
Require SquidV.AcldomModel SquidV.AclipModel.
Local Open Scope N_scope.

Definition b_m : bytes := [109].
Definition b_GE : bytes := [71; 69].
Definition b_GET : bytes := [71; 69; 84].
Definition wit_cfg : list line :=
  [LAcl b_m TMeth [] [b_GE]; LAccess false [(false, b_m)]; LAccess true [(false, s_all)]].
Definition wit_req (m : bytes) : request := mkReq 2130706435 m [49] (Some 2130706433) 80%Z.

Lemma wit_run : access_run wit_cfg (mkEnv [] []) [wit_req b_GE; wit_req b_GET] = Some [OForward; ODeny403].
Proof. vm_compute. reflexivity. Qed.
