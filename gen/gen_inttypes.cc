// Table generator: what the compiler that builds /repo says about the ten standard integer
// types (width, signedness, limits, integral promotion, std::common_type, type of a+b) and
// what src/SquidMath.h's AllUnsigned<> says for every pair of them. MathModel.v's hand-written
// type model is proved equal to these tables on every run (C52_type_model_matches_compiler).
// Prints Coq source; sections are introduced by "@@FILE <name>".
#include "squid.h"
#include "SquidMath.h"
#include <iostream>
#include <limits>
#include <string>
#include <tuple>
#include <type_traits>

using TL = std::tuple<signed char, unsigned char, short, unsigned short, int, unsigned int,
      long, unsigned long, long long, unsigned long long>;
static constexpr size_t NT = std::tuple_size<TL>::value;
template <size_t I> using Ty = typename std::tuple_element<I, TL>::type;

template <typename T, size_t I = 0>
static int indexOf()
{
    if constexpr (I >= NT) return -1;
    else if constexpr (std::is_same<T, Ty<I>>::value) return static_cast<int>(I);
    else return indexOf<T, I + 1>();
}

static std::string z(long long v) { return v < 0 ? "(" + std::to_string(v) + ")" : std::to_string(v); }
static std::string zu(unsigned long long v) { return std::to_string(v); }

template <size_t I>
static void typeRow()
{
    using T = Ty<I>;
    using L = std::numeric_limits<T>;
    std::cout << (I ? ";\n  " : "") << "(" << (L::digits + (L::is_signed ? 1 : 0)) << ", "
              << (std::is_signed<T>::value ? "true" : "false") << ", "
              << z(static_cast<long long>(L::min())) << ", "
              << (L::is_signed ? z(static_cast<long long>(L::max())) : zu(static_cast<unsigned long long>(L::max())))
              << ")";
    if constexpr (I + 1 < NT) typeRow<I + 1>();
}

template <size_t I>
static void promoteRow()
{
    std::cout << (I ? "; " : "") << indexOf<decltype(+Ty<I>())>();
    if constexpr (I + 1 < NT) promoteRow<I + 1>();
}

enum Kind { kCommon, kSum, kAllUnsigned };

template <Kind K, size_t I, size_t J>
static void cell()
{
    using A = Ty<I>;
    using B = Ty<J>;
    std::cout << (J ? "; " : "");
    if constexpr (K == kCommon) std::cout << indexOf<typename std::common_type<A, B>::type>();
    else if constexpr (K == kSum) std::cout << indexOf<decltype(A() + B())>();
    else std::cout << (AllUnsigned<A, B>::value ? "true" : "false");
    if constexpr (J + 1 < NT) cell<K, I, J + 1>();
}

template <Kind K, size_t I>
static void rows()
{
    std::cout << (I ? ";\n  [" : "[");
    cell<K, I, 0>();
    std::cout << "]";
    if constexpr (I + 1 < NT) rows<K, I + 1>();
}

int main()
{
    std::cout << "@@FILE IntTypes_gen.v\n";
    std::cout << "(* generated against /repo by gen/gen_inttypes.cc -- do not edit.\n"
              "   Type order: signed char, unsigned char, short, unsigned short, int, unsigned int,\n"
              "   long, unsigned long, long long, unsigned long long (numbered 0..9). *)\n"
              "Require Import SquidV.Bytes.\n"
              "Local Open Scope Z_scope.\n";
    std::cout << "(* (width in bits, is_signed, numeric_limits::min(), numeric_limits::max()) *)\n"
              "Definition gen_types : list (Z * bool * Z * Z) := [\n  ";
    typeRow<0>();
    std::cout << "].\n";
    std::cout << "(* number of decltype(+x) *)\nDefinition gen_promote : list N := [";
    promoteRow<0>();
    std::cout << "]%N.\n";
    std::cout << "(* number of std::common_type<A,B>::type, row A, column B *)\n"
              "Definition gen_common : list (list N) := [\n  ";
    rows<kCommon, 0>();
    std::cout << "]%N.\n";
    std::cout << "(* number of decltype(A() + B()) *)\nDefinition gen_sum_type : list (list N) := [\n  ";
    rows<kSum, 0>();
    std::cout << "]%N.\n";
    std::cout << "(* AllUnsigned<A,B>::value from src/SquidMath.h *)\n"
              "Definition gen_all_unsigned : list (list bool) := [\n  ";
    rows<kAllUnsigned, 0>();
    std::cout << "].\n";
    return 0;
}
