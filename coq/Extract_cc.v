(* Extract_cc.v — extraction of the Cache-Control model (C29) to OCaml. Only ExtrOcamlBasic. *)
Require Import ExtrOcamlBasic.
Require Import SquidV.Bytes SquidV.HopModel SquidV.TokModel SquidV.CcModel.
Extraction "m_cc.ml"
  lenN cc_init cc_parse cc_parse_from cc_ok cc_pack cc_items c_str parse_quoted_string cc_type_by_name
  cmask max_age s_maxage max_stale stale_if_error min_fresh private_ no_cache other.
