"""C33: error pages never reflect client input unescaped (end to end through the real squid)."""
import base64, concurrent.futures, json, os, re, shutil, time
from vlib import std, lab, common

PID = "C33"
META = {
    "text": "Theorems (Properties_C33.v, closed under the global context). The model (PagelogModel.v) is ErrorState::compile / "
            "compileLegacyCode / Dump transcribed case by case; which case of the %-macro switch clears do_quote, sets no_urlescape "
            "or starts with `if (building_deny_info_url) break;`, the initial flag values and the presence/order of the two epilogue "
            "statements are NOT typed in: they are regenerated from src/errorpage.cc on every run (gen/errpage_macros.py -> "
            "ErrMacros_gen.v), html_quote and rfc1738_escape_part are the per-byte tables regenerated from the real functions "
            "(ByteMaps_gen.v). Proved for ALL ErrorState contents, ALL templates (including recursively compiled %D detail and %S "
            "signature templates, any nesting the code allows) and both modes (page body, deny_info URL): the expansion is a "
            "sequence of pieces - template bytes copied verbatim, @Squid{} logformat output, and one piece per %-macro - and every "
            "piece of a macro whose source is client/remote controlled (a B f F g(messages) H m M o P R s(deny_info) U u z Z; "
            "classification by hand, justified per letter in the model) contains no < > \" ' at all and every & in it starts a "
            "well-formed entity reference (page mode) / no < > \" ' & (deny_info mode, where html_quote is followed by "
            "rfc1738_escape_part, except %R which is html_quote'd only); %W (mailto data) is percent-encoded by Dump and contains none of "
            "< > \" ' either. The table theorem names the letters: a macro edited to clear do_quote changes the generated table and "
            "the theorem fails with that letter as witness. Nesting never exceeds the model's fuel. Tie: generated tables; extracted "
            "model diffed against the running squid (stock templates: occurrences of every rendering of the injected markers; probe "
            "templates exercising all 36 macro letters, a custom deny_info page with %S and a deny_info URL: exact bytes of the "
            "client-controlled sections).",
    "note": "partial: the theorems are about the transcribed expander; that every error response body is produced by it (and what "
            "the macro VALUES are: e.g. that %U is the canonical URL) rests on the end-to-end correspondence. %g with an FTP directory "
            "listing is HTML assembled by FtpGateway outside the anchored files (not covered); %O is documented as unquoted helper "
            "output (admin class); @Squid{%code} output is quoted by the logformat machinery (C34), not by this switch. FTP error "
            "templates (%f %F %g) and %o/%O/%m/%x/%D with real helper / detail data are not driven end to end (no FTP server or external ACL stub: those letters are covered by the theorems and by the regenerated table only); ERR_DNS_FAIL is driven through a 1 s dns_timeout; URLs carrying < > \" are percent-encoded by the URL canonicaliser before they reach the expander (those scenarios are checked by the oracle only). Observation made while building: a static template that uses %S makes squid assert at startup (errorpage.cc compile(): input), because templates are validated before ERR_SQUID_SIGNATURE is loaded - administrator input only, not a C33 matter. "
            "Trusted: Coq kernel, extraction, gen/errpage_macros.py (textual analysis of the switch), gen/gen_bytemaps.cc, vlib/lab.py.",
    "technique": "Coq proof (case analysis over the regenerated macro table, induction on the template with an invariant over pieces, "
                 "fuel-bounded recursion with a termination measure; C32/C31 table lemmas) + end-to-end differential correspondence of "
                 "the extracted model against the running squid + independent marker-rendering oracle",
}

LETTERS = "aAbBcDeEfFghHiIlLmMOopPRsStTUuwWxzZ"
PROBE = "<html><body id=probe>\n" + "".join("[%s=%%%s]\n" % (c, c) for c in LETTERS) + "[pct=%%][q=%q][semi=%;]\n</body></html>\n"
DENY_URL = ("http://redir.test/r?U=%U&M=%M&H=%H&R=%R&s=%s&a=%a&P=%P&p=%p&o=%o&q=%q&B=%B&u=%u&x=%x&c=%c&Z=%Z&z=%z"
            "&f=%f&F=%F&g=%g&l=%l&L=%L&m=%m&W=%W&S=%S&O=%O&pc=%%")
EXACT = "aHMPpUuRc"          # sections compared byte for byte on probe pages


# ------------------------------------------------------------------ reference escapers (independent of the model)
def ref_html(s):
    out = []
    for ch in s:
        c = ord(ch)
        if ch == "<": out.append("&lt;")
        elif ch == ">": out.append("&gt;")
        elif ch == '"': out.append("&quot;")
        elif ch == "'": out.append("&apos;")
        elif ch == "&": out.append("&amp;")
        elif (c <= 0x1f or c >= 0x7f) and ch not in "\n\r\t": out.append("&#%d;" % c)
        else: out.append(ch)
    return "".join(out)


def ref_pct_all(s):
    """RFC 1738 escaping of unsafe + reserved + control bytes (what deny_info URLs get)"""
    out = []
    for ch in s:
        c = ord(ch)
        if ch.isascii() and ch.isalnum():
            out.append(ch)
        elif ch in "<>\"#{}|\\^~[]`'%" or c <= 0x20 or ch in ";/?:@=&" or c >= 0x7f:
            out.append("%%%02X" % c)
        else:
            out.append(ch)
    return "".join(out)


def marker(tag, k, meta):
    return "k%s%dX%sY%d%sk" % (tag, k, meta, k, tag)


def needles_for(m):
    return [m, ref_html(m), ref_pct_all(ref_html(m)), ref_pct_all(m)]


def hexs(s):
    b = s.encode("latin1") if isinstance(s, str) else s
    return b.hex() if b else "-"


# ------------------------------------------------------------------ scenarios
KINDS_STOCK = ["denied", "denied", "denied-ext", "denied-auth", "need-auth", "badurl", "connfail", "toobig", "httpver", "zero",
               "oic", "badresp", "mgr", "mgrpw", "badcl"]
KINDS_PROBE = ["denied", "denied-ext", "denied-auth", "custom", "custom", "redir", "redir", "redir-auth", "badurl", "connfail",
               "toobig", "zero", "badresp", "need-auth"]
EXPECT = {"denied": ("ERR_ACCESS_DENIED", 403), "denied-ext": ("ERR_ACCESS_DENIED", 403), "denied-auth": ("ERR_ACCESS_DENIED", 403),
          "need-auth": ("ERR_CACHE_ACCESS_DENIED", 407), "custom": ("ERR_VERIF_CUSTOM", 403), "badurl": ("ERR_INVALID_URL", 400),
          "connfail": ("ERR_CONNECT_FAIL", 503), "toobig": ("ERR_TOO_BIG", 413), "httpver": ("ERR_UNSUP_HTTPVERSION", 505),
          "zero": ("ERR_ZERO_SIZE_OBJECT", 502), "oic": ("ERR_ONLY_IF_CACHED_MISS", 504), "badresp": ("ERR_INVALID_RESP", 502),
          "mgr": ("ERR_INVALID_URL", 404), "mgrpw": ("ERR_CACHE_MGR_ACCESS_DENIED", 401), "loop": ("ERR_ACCESS_DENIED", 403),
          "badcl": ("ERR_INVALID_REQ", 400), "dns": ("ERR_DNS_FAIL", 503), "redir": ("302", 302), "redir-auth": ("302", 302)}
SAFE_META = ["'&", "&'", "'", "&", "'&;", "&amp;'", "''&&", "&lt;'"]       # no '#': a fragment is cut off the URL
HOSTILE_META = ["<b>", "<script>alert(1)</script>", "\"><img src=x>", "<'\"&>", "a\"b", "<!--", "'><&\""]
HDR_META = SAFE_META + HOSTILE_META + ["\x7f\xe9<", "\t<b>\t", "&#60;'"]


def gen_scenarios(rng, n):
    out = []
    for k in range(n):
        inst = "stock" if k % 2 == 0 else "probe"
        kind = rng.choice(KINDS_STOCK if inst == "stock" else KINDS_PROBE)
        if k == 7 or k == 40:
            inst, kind = "stock", "dns"
        hostile = rng.random() < 0.25          # markup in the URL: squid percent-encodes it first (not modelled: model-blind)
        s = {"k": k, "inst": inst, "kind": kind, "hostile_url": hostile,
             "mu": rng.choice(HOSTILE_META if hostile else SAFE_META),
             "mh": rng.choice(HDR_META), "mm": rng.choice(["'&", "'", "&", "&'&"]),
             "ma": rng.choice(SAFE_META + HOSTILE_META + ["a b", "x<y"]),
             "ext": kind == "denied-ext" or (kind in ("redir", "custom") and rng.random() < 0.5)}
        if kind == "dns":
            s["mu"] = "'" if not hostile else "'<"
        out.append(s)
    return out


def plan(s, orgport, sqport):
    """-> dict(method, url, headers, body, raw, env: predicted raw macro values, markers)"""
    k, kind = s["k"], s["kind"]
    rid = "s%d" % k
    mU = marker("U", k, s["mu"]); mH = marker("H", k, s["mh"]); mM = marker("M", k, s["mm"]); mA = marker("A", k, s["ma"])
    method = ("X" + mM) if s["ext"] else "GET"
    headers = [("X-H", mH)]
    body = None
    host = "127.0.0.1:%d" % orgport
    scheme = "http"
    path = "/%s/%s" % (rid, mU)
    user = None
    has_req = True
    version = "1.1"
    markers = {"U": mU, "H": mH}
    if s["ext"]:
        markers["M"] = mM
    if kind in ("denied", "denied-ext", "loop"):
        path = "/%s/denyme/%s" % (rid, mU)
        if kind == "loop":
            path = "/%s/%s" % (rid, mU)
            headers.append(("Via", "1.1 verif.test (squid/x)"))
    elif kind in ("denied-auth", "redir-auth"):
        path = "/%s/needauth/%s/%s" % (rid, "denyme" if kind == "denied-auth" else "redirme", mU)
        user = mA
        markers["A"] = mA.lower()          # auth_param basic casesensitive off: the user name is lower-cased
    elif kind == "need-auth":
        path = "/%s/needauth/%s" % (rid, mU)
    elif kind == "custom":
        path = "/%s/custompage/%s" % (rid, mU)
    elif kind == "redir":
        path = "/%s/redirme/%s" % (rid, mU)
    elif kind == "badurl":
        scheme = "foo" + marker("P", k, s["mm"])
        markers["P"] = scheme[3:]
        has_req = False
    elif kind == "connfail":
        host = "127.0.0.1:1"
    elif kind == "toobig":
        method = "POST"; body = b"x" * 500
    elif kind == "httpver":
        version = "3.0"
        has_req = False                      # rejected before an HttpRequest exists: the page is built from err->url
    elif kind == "zero":
        path = lab.spec_path({"close_before_reply": True}, rid) + "/" + mU
    elif kind == "oic":
        headers.append(("Cache-Control", "only-if-cached"))
    elif kind == "badresp":
        path = lab.spec_path({"headers": [["Content-Length", "3"], ["Content-Length", "5"]], "nodate": True, "framing": "close"}, rid) + "/" + mU
    elif kind == "mgr":
        host = "verif.test:%d" % sqport
        path = "/squid-internal-mgr/nosuch" + mU
    elif kind == "mgrpw":
        host = "verif.test:%d" % sqport
        path = "/squid-internal-mgr/shutdown"
        markers.pop("U")
    elif kind == "badcl":
        headers.append(("Content-Length", "abc" + marker("C", k, s["mm"])))
    elif kind == "dns":
        host = "nx%s.verif.invalid" % marker("D", k, s["mu"]).lower()
        markers["D"] = host[2:-len(".verif.invalid")]
        path = "/%s/p" % rid
        markers.pop("U")
    url = "%s://%s%s" % (scheme, host, path)
    hs = [("Host", host)] + headers
    if user is not None:
        hs.append(("Proxy-Authorization", "Basic " + base64.b64encode((user + ":pw").encode("latin1")).decode()))
    if body is not None:
        hs.append(("Content-Length", str(len(body))))
    req = ("%s %s HTTP/%s\r\n" % (method, url, version)) + "".join("%s: %s\r\n" % h for h in hs) + "\r\n"
    raw = req.encode("latin1") + (body or b"")
    # predicted values of the macros as squid holds them (before quoting)
    hostname = host.rsplit(":", 1)[0] if ":" in host else host
    port = host.rsplit(":", 1)[1] if ":" in host else "80"
    packed = "%s %s HTTP/1.1\r\n" % (method, path) + "".join(
        "%s: %s\r\n" % (n, "** NOT DISPLAYED **" if n == "Proxy-Authorization" else v.strip(" \t")) for n, v in hs) + "\r\n"
    env = {"req": "1" if has_req else "0", "w": "webmaster", "s": _state.get("appname", ""), "c": EXPECT[kind][0] if not kind.startswith("redir") else "ERR_VERIF_REDIR"}
    if has_req:
        env.update({"M": method, "Hu": hostname, "P": scheme, "p": port, "R": packed, "Rp": path, "U": url, "u": url, "url": url})
        if user is not None:
            env["a"] = user.lower()
        env["dump"] = "HTTP Request:\r\n" + packed        # the part of ErrorState::Dump's text that carries client bytes
    else:
        env["url"] = url
    return {"raw": raw, "env": env, "markers": markers, "method": method}


# ------------------------------------------------------------------ the lab
_state = {}


def _helper(L):
    p = os.path.join(L.dir, "authok.py")
    if not os.path.exists(p):
        with open(p, "w") as f:
            f.write("#!/usr/bin/python3 -u\nimport sys\nfor l in sys.stdin:\n    sys.stdout.write('OK\\n'); sys.stdout.flush()\n")
        os.chmod(p, 0o755)
    return p


def _probe_dir(L):
    ed = os.path.join(L.dir, "errs")
    if not os.path.isdir(ed):
        os.makedirs(ed)
        src = os.path.join(L.tree, "errors", "templates")
        for f in os.listdir(src):
            if f.startswith("ERR_"):
                # %S inside a static template is expanded while the templates are still being loaded (signature not yet
                # there): squid asserts at startup. %S is exercised through the deny_info page instead.
                with open(os.path.join(ed, f), "w") as o:
                    o.write(PROBE.replace("[S=%S]\n", ""))
            elif f == "error-details.txt":
                shutil.copy(os.path.join(src, f), ed)
        with open(os.path.join(ed, "ERR_VERIF_CUSTOM"), "w") as o:
            o.write(PROBE.replace("id=probe", "id=custom"))
        os.chmod(ed, 0o755)
        for f in os.listdir(ed):
            os.chmod(os.path.join(ed, f), 0o644)
    return ed


ACCESS = ("http_access deny needauth !authed\nhttp_access deny bad\nhttp_access deny custom\nhttp_access deny redir\n"
          "http_access allow all")


def conf_for(L, inst):
    c = ("auth_param basic program %s\nauth_param basic children 3\nauth_param basic realm verif\n"
         "acl authed proxy_auth REQUIRED\nacl bad urlpath_regex denyme\nacl needauth urlpath_regex needauth\n"
         "acl custom urlpath_regex custompage\nacl redir urlpath_regex redirme\n"
         "request_body_max_size 100 bytes\ndns_timeout 1 seconds\nemail_err_data on\ncachemgr_passwd secret shutdown\n"
         "deny_info ERR_VERIF_CUSTOM custom\ndeny_info 302:%s redir\n" % (_helper(L), DENY_URL))
    if inst == "probe":
        c += "error_directory %s\n" % _probe_dir(L)
    else:
        # the custom page must exist in the stock directory too: serve it from a private copy of the stock templates
        ed = os.path.join(L.dir, "stock")
        if not os.path.isdir(ed):
            shutil.copytree(os.path.join(L.tree, "errors", "templates"), ed)
            with open(os.path.join(ed, "ERR_VERIF_CUSTOM"), "w") as o:
                o.write(PROBE.replace("id=probe", "id=custom"))
            for root, ds, fs in os.walk(ed):
                os.chmod(root, 0o755)
                for f in fs:
                    os.chmod(os.path.join(root, f), 0o644)
        c += "error_directory %s\n" % ed
    return c


def template_text(inst, errname):
    d = _state["dirs"][inst]
    if errname == "302":
        return DENY_URL
    try:
        with open(os.path.join(d, errname), "rb") as f:
            return f.read().decode("latin1")
    except OSError:
        return ""


ENTITY = re.compile(rb"&(?:lt|gt|amp|quot|apos|#[0-9]{1,3});")


def bad_renderings(text, markers, deny):
    """The property on the bytes squid sent: every occurrence of a marker's head must be followed, up to the marker's tail,
    by a rendering without raw markup. text: bytes. Returns list of (which, rendering)."""
    bad = []
    for which, m in sorted(markers.items()):
        i = m.lower().index("x") + 1
        j = m.lower().rindex("y")
        head, tail = m[:i].encode("latin1"), m[j:].encode("latin1")
        if which in ("D", "A"):
            head, tail = head.lower(), tail.lower()
        pos = 0
        while True:
            a = text.find(head, pos)
            if a < 0:
                break
            b = text.find(tail, a + len(head))
            seg = text[a + len(head):b] if 0 <= b <= a + len(head) + 6 * len(m) + 64 else text[a + len(head):a + len(head) + 40]
            pos = a + len(head)
            rest = ENTITY.sub(b"", seg)
            if any(c in rest for c in b"<>\"'&") or b < 0:
                if deny and b >= 0 and not any(c in seg for c in b"<>\"'\r\n"):
                    continue            # inside a URL an & is a separator, not markup (the %R component keeps entities)
                bad.append((which, seg[:60]))
    return bad


def _one(args):
    s, = args
    sq = _state["sq"][s["inst"]]
    p = plan(s, _state["org"].port, sq.port)
    try:
        raw, closed = lab.exchange(sq.port, [p["raw"]], idle=0.6, total=12.0,
                                   until=lambda r: lab.n_complete(r, 1, [p["method"]]))
    except OSError as ex:
        return "noreply %s" % type(ex).__name__
    rs, _ = lab.parse_responses(raw, [p["method"]], eof=closed)
    fin = [r for r in rs if r.status is not None and not (100 <= r.status < 200)]
    if not fin:
        return "noreply"
    r = fin[0]
    if r.get("Server"):
        _state["appname"] = r.get("Server")
    xe = (r.get("X-Squid-Error") or "-").split(" ")[0]
    deny = r.status == 302
    text = (r.get("Location") or "").encode("latin1") if deny else r.body
    tag = "%s/%d" % (xe, r.status)
    needles = [nd for _, m in sorted(p["markers"].items()) for nd in needles_for(m)]
    counts = [text.count(nd.encode("latin1")) for nd in needles]
    bad = bad_renderings(text, p["markers"], deny)
    line = "%s n=%s" % (tag, ",".join(map(str, counts)))
    line += " bad=%d" % len(bad) + ("".join(":%s=%s" % (w, hexs(seg)) for w, seg in bad[:2]) if bad else "")
    if deny:
        line += " x=" + hexs(text)
    elif s["inst"] == "probe" or xe == "ERR_VERIF_CUSTOM":
        secs = dict((m.group(1).decode(), m.group(2)) for m in re.finditer(rb"\[(\w+)=(.*?)\]\n", r.body, re.S))
        mini = b"".join(b"[%s=%s]\n" % (c.encode(), secs.get(c, b"<missing>")) for c in EXACT)
        line += " x=" + hexs(mini)
    else:
        line += " x=-"
    return line


def run_impl(L, scenarios):
    if "sq" not in _state or not all(q.alive() for q in _state["sq"].values()):
        _state["org"] = L.origin()
        _state["sq"] = {}
        _state["dirs"] = {}
        for inst in ("stock", "probe"):
            _state["sq"][inst] = L.squid(extra_conf=conf_for(L, inst), access=ACCESS)
        _state["dirs"] = {"stock": os.path.join(L.dir, "stock"), "probe": os.path.join(L.dir, "errs")}
        # the first authenticated request starts the helper: warm it up
        for inst in ("stock", "probe"):
            lab.get(_state["sq"][inst].port, "http://127.0.0.1:%d/warm/needauth/x" % _state["org"].port,
                    headers=[("Proxy-Authorization", "Basic " + base64.b64encode(b"warm:pw").decode())])
    with concurrent.futures.ThreadPoolExecutor(max_workers=8) as ex:
        return list(ex.map(_one, [(s,) for s in scenarios]))


def to_case(s):
    sq = _state["sq"][s["inst"]]
    p = plan(s, _state["org"].port, sq.port)
    name, status = EXPECT[s["kind"]]
    tag = "%s/%d" % (name, status)
    deny = s["kind"].startswith("redir")
    full = template_text(s["inst"], name)
    if deny:
        mini = full
    elif s["inst"] == "probe" or name == "ERR_VERIF_CUSTOM":
        mini = "".join("[%s=%%%s]\n" % (c, c) for c in EXACT)
    else:
        mini = ""
    needles = [nd for _, m in sorted(p["markers"].items()) for nd in needles_for(m)]
    env = " ".join("%s=%s" % (k, v if k == "req" else hexs(v)) for k, v in sorted(p["env"].items()))
    return "pg.both %s %s %s %s %s %s" % ("deny" if deny else "page", tag, hexs(full), hexs(mini),
                                          ",".join(hexs(nd) for nd in needles) if needles else ".", env)


def model_blind(s):
    # markup in the URL is percent-encoded by the URL canonicaliser before it reaches the page (outside the anchored code);
    # the expander model is not given those values. The oracle still applies.
    return s["hostile_url"]


def oracle(s, obs):
    """The property on what squid sent: the expected error response was produced and no marker reached it with raw markup."""
    if obs.startswith("noreply"):
        return ("oracle:no-transaction", "no response: " + obs)
    name, status = EXPECT[s["kind"]]
    tag = obs.split(" ")[0]
    m = re.search(r" bad=(\d+)((?::\w+=[0-9a-f-]+)*)", obs)
    if not m:
        return ("oracle:unparsable", obs[:200])
    if int(m.group(1)):
        first = m.group(2).split(":")[1]
        which, seg = first.split("=")
        where = {"U": "URL", "H": "header value", "M": "method", "A": "user name", "P": "URL scheme", "D": "host", "C": "header value"}[which]
        return ("oracle:raw-markup:" + which, "the %s marker reached the %s with raw markup: rendering %r"
                % (where, "Location header" if status == 302 else "error page", bytes.fromhex(seg) if seg != "-" else b""))
    if tag != "%s/%d" % (name, status):
        return ("oracle:other-response", "expected %s/%d for kind %s, got %s" % (name, status, s["kind"], tag))
    return None


def run(res, tier):
    res.rule = ("requests carrying markers k<tag><n>X<meta>Y<n><tag>k (meta = markup: ' & < > \" entity-like text, control/8-bit bytes) in "
                "the URL path, a header value, an extension method, the Basic user name, the URL scheme or the host name, driven at "
                "two squid instances (stock templates; probe templates with all macro letters + deny_info page + deny_info URL) so as "
                "to hit access denied, proxy auth required, invalid request / URL, connect failure, DNS failure, too big, unsupported "
                "version, zero-size reply, invalid response, only-if-cached miss, cache manager errors; every scenario "
                "is non-trivial (each carries at least two markers)")
    try:
        std.run_lab(res, PID, tier, area="pagelog", gens=["bytemaps", "errmacros", "logquote"], gen_scenarios=gen_scenarios,
                    run_impl=run_impl, to_case=to_case, oracle=oracle,
                    corr_name="PagelogModel (build_body / build_deny_info_url) vs the running squid",
                    n_quick=120, n_thorough=2500, seed_salt=33, model_blind=model_blind,
                    kind_fn=lambda s, o: s["inst"] + ":" + s["kind"] + ":" + o.split(" ")[0],
                    nontrivial_fn=lambda s, o: True)
    finally:
        _state.clear()
