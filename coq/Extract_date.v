(* Extract_date.v — extraction of the date model (ExtrOcamlBasic only; N, Z, positive stay
   the extracted Coq datatypes). *)
Require Import ExtrOcamlBasic.
Require Import SquidV.Bytes SquidV.DateModel.
Extraction "m_date.ml"
  ParseRfc1123 FormatRfc1123 timegm gmtime mkTm
  tm_year tm_mon tm_mday tm_hour tm_min tm_sec tm_wday.
