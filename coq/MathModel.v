(* MathModel.v — executable model of the overflow-safe arithmetic templates of
   src/SquidMath.h (Less, IncreaseSumInternal x2, IncreaseSum, NaturalSum,
   SetToNaturalSumOrMax, NaturalCast) together with the fragment of C++ integer
   semantics they rely on: the ten standard integer types of the LP64 g++ target,
   integer promotion, the usual arithmetic conversions, std::common_type, modulo arithmetic for unsigned types, value-changing
   conversions, and an explicit "undefined behaviour" outcome for signed overflow.

   Definitions only; proofs are in MathProofs.v. Machine integers are Z with an
   explicit type tag; nothing is assumed to be in range by the model itself. *)
Require Import SquidV.Bytes.
Local Open Scope Z_scope.

(* ---------- the integer types ---------- *)
Inductive ity := SChar | UChar | Short | UShort | Int | UInt | Long | ULong | LLong | ULLong.

Definition all_ity : list ity := [SChar; UChar; Short; UShort; Int; UInt; Long; ULong; LLong; ULLong].

(* position in all_ity (= the type numbering used by the harness and by gen/gen_inttypes.cc) *)
Definition ity_index (t : ity) : N :=
  match t with
  | SChar => 0 | UChar => 1 | Short => 2 | UShort => 3 | Int => 4
  | UInt => 5 | Long => 6 | ULong => 7 | LLong => 8 | ULLong => 9
  end%N.

Definition ity_eqb (a b : ity) : bool := (ity_index a =? ity_index b)%N.

Definition bits (t : ity) : Z :=
  match t with
  | SChar | UChar => 8
  | Short | UShort => 16
  | Int | UInt => 32
  | Long | ULong | LLong | ULLong => 64
  end.

Definition is_signed (t : ity) : bool :=
  match t with
  | SChar | Short | Int | Long | LLong => true
  | UChar | UShort | UInt | ULong | ULLong => false
  end.

(* integer conversion rank [conv.rank] *)
Definition rank (t : ity) : Z :=
  match t with
  | SChar | UChar => 1
  | Short | UShort => 2
  | Int | UInt => 3
  | Long | ULong => 4
  | LLong | ULLong => 5
  end.

Definition to_unsigned (t : ity) : ity :=
  match t with
  | SChar => UChar | Short => UShort | Int => UInt | Long => ULong | LLong => ULLong
  | u => u
  end.

Definition half (t : ity) : Z := 2 ^ (bits t - 1).
Definition modulus (t : ity) : Z := 2 * half t.
Definition tmin (t : ity) : Z := if is_signed t then - half t else 0.      (* numeric_limits<T>::min() *)
Definition tmax (t : ity) : Z := if is_signed t then half t - 1 else modulus t - 1. (* ::max() *)
Definition in_rangeb (t : ity) (v : Z) : bool := (tmin t <=? v) && (v <=? tmax t).
Definition in_range (t : ity) (v : Z) : Prop := tmin t <= v <= tmax t.

(* conversion of an integer value to type t [conv.integral]: the unique value of t congruent
   to v modulo 2^bits (for signed destinations this is what g++ implements, and C++20 mandates) *)
Definition conv (t : ity) (v : Z) : Z :=
  if is_signed t then (v + half t) mod modulus t - half t else v mod modulus t.

(* integral promotion [conv.prom]: types of rank below int become int when int can hold all
   their values, otherwise unsigned int *)
Definition promote (t : ity) : ity :=
  if rank t <? rank Int then (if tmax t <=? tmax Int then Int else UInt) else t.

(* usual arithmetic conversions [expr.arith.conv] on integer operands: the type in which a
   binary operator is evaluated *)
Definition uac (a b : ity) : ity :=
  let a := promote a in
  let b := promote b in
  if ity_eqb a b then a
  else if Bool.eqb (is_signed a) (is_signed b) then (if rank a <? rank b then b else a)
  else
    let s := if is_signed a then a else b in
    let u := if is_signed a then b else a in
    if rank s <=? rank u then u
    else if tmax u <=? tmax s then s
    else to_unsigned s.

(* std::common_type<A,B>::type = decay of decltype(false ? A() : B()) [expr.cond]: operands of
   the same type keep it (no promotion: common_type<short,short> is short); otherwise the usual
   arithmetic conversions apply *)
Definition common_type (a b : ity) : ity := if ity_eqb a b then a else uac a b.

(* ---------- expression evaluation ---------- *)
(* outcome of evaluating an expression: a value, or undefined behaviour (signed overflow) *)
Inductive res (A : Type) : Type :=
| Ok (a : A)
| UB.
Arguments Ok {A} a.
Arguments UB {A}.

(* the mathematical result r of an arithmetic operator evaluated in type t *)
Definition arith_result (t : ity) (r : Z) : res (ity * Z) :=
  if is_signed t then (if in_rangeb t r then Ok (t, r) else UB)
  else Ok (t, conv t r).

(* a + b and a - b for typed operands *)
Definition add (ta : ity) (a : Z) (tb : ity) (b : Z) : res (ity * Z) :=
  let t := uac ta tb in arith_result t (conv t a + conv t b).
Definition sub (ta : ity) (a : Z) (tb : ity) (b : Z) : res (ity * Z) :=
  let t := uac ta tb in arith_result t (conv t a - conv t b).

(* a < b, a >= b, a <= b for typed operands (both converted to the common type first) *)
Definition lt (ta : ity) (a : Z) (tb : ity) (b : Z) : bool :=
  let t := uac ta tb in conv t a <? conv t b.
Definition ge (ta : ity) (a : Z) (tb : ity) (b : Z) : bool :=
  let t := uac ta tb in conv t b <=? conv t a.
Definition le (ta : ity) (a : Z) (tb : ity) (b : Z) : bool :=
  let t := uac ta tb in conv t a <=? conv t b.

(* ---------- src/SquidMath.h ---------- *)

(* template <typename A, typename B> constexpr bool Less(const A a, const B b)
     using AB = typename std::common_type<A, B>::type;
     return (a >= 0 && b < 0) ? false :
            (a < 0 && b >= 0) ? true :
            static_cast<AB>(a) < static_cast<AB>(b);
   The literal 0 has type int. *)
Definition Less (ta : ity) (a : Z) (tb : ity) (b : Z) : bool :=
  let AB := common_type ta tb in
  if ge ta a Int 0 && lt tb b Int 0 then false
  else if lt ta a Int 0 && ge tb b Int 0 then true
  else lt AB (conv AB a) AB (conv AB b).

(* AllUnsigned<T,U> *)
Definition all_unsigned (a b : ity) : bool := negb (is_signed a) && negb (is_signed b).

(* IncreaseSumInternal<S>(const A a, const B b), overload for AllUnsigned<A,B>:
     using AB = typename std::common_type<A, B>::type;
     const AB sum = a + b;
     return (sum >= a && sum <= std::numeric_limits<S>::max()) ?
            std::optional<S>(sum) : std::optional<S>(); *)
Definition isi_unsigned (S A : ity) (a : Z) (B : ity) (b : Z) : res (option Z) :=
  let AB := common_type A B in
  match add A a B b with
  | UB => UB
  | Ok (tsum, vsum) =>
    let sum := conv AB vsum in
    if ge AB sum A a && le AB sum S (tmax S) then Ok (Some (conv S sum)) else Ok None
  end.

(* IncreaseSumInternal<S>(const A a, const B b), overload for !AllUnsigned<A,B>:
     return (a < 0 || b < 0) ? std::optional<S>() :
            Less(std::numeric_limits<S>::max() - a, b) ? std::optional<S>() :
            std::optional<S>(a + b);
   numeric_limits<S>::max() has type S; a + b is evaluated only when Less() said no. *)
Definition isi_signed (S A : ity) (a : Z) (B : ity) (b : Z) : res (option Z) :=
  if lt A a Int 0 || lt B b Int 0 then Ok None
  else
    match sub S (tmax S) A a with
    | UB => UB
    | Ok (td, vd) =>
      if Less td vd B b then Ok None
      else
        match add A a B b with
        | UB => UB
        | Ok (_, v) => Ok (Some (conv S v))
        end
    end.

(* IncreaseSum(const S s, const T t) { return IncreaseSumInternal<S>(+s, +t); }
   unary plus performs the integral promotions; enable_if selects the overload by AllUnsigned
   of the promoted types *)
Definition increase_sum2 (S : ity) (s : Z) (T : ity) (t : Z) : res (option Z) :=
  let A := promote S in
  let B := promote T in
  let a := conv A s in
  let b := conv B t in
  if all_unsigned A B then isi_unsigned S A a B b else isi_signed S A a B b.

(* IncreaseSum(const S sum, const T t, const Args... args):
     if (const auto head = IncreaseSum(sum, t)) return IncreaseSum(head.value(), args...);
     else return std::nullopt;
   The argument pack is a list of typed values. C++ has no instance for an empty list (the
   recursion ends at the two-argument overload); the [] equation only makes the function total
   and coincides with that: increase_sum S s [x] = increase_sum2 S s x. *)
Fixpoint increase_sum (S : ity) (s : Z) (args : list (ity * Z)) : res (option Z) :=
  match args with
  | [] => Ok (Some s)
  | (T, t) :: rest =>
    match increase_sum2 S s T t with
    | UB => UB
    | Ok None => Ok None
    | Ok (Some head) => increase_sum S head rest
    end
  end.

(* NaturalSum<S>(args...) { return IncreaseSum<S>(0, args...); }  -- int 0 converted to S *)
Definition natural_sum (S : ity) (args : list (ity * Z)) : res (option Z) :=
  increase_sum S (conv S 0) args.

(* SetToNaturalSumOrMax(S &var, args...):
     var = NaturalSum<S>(args...).value_or(std::numeric_limits<S>::max()); return var;
   result = the new value of var (also the returned value); the old value is not used *)
Definition set_to_natural_sum_or_max (S : ity) (args : list (ity * Z)) : res Z :=
  match natural_sum S args with
  | UB => UB
  | Ok (Some v) => Ok v
  | Ok None => Ok (tmax S)
  end.

(* NaturalCast<Result>(const Source s) { return NaturalSum<Result>(s).value(); }
   None = std::bad_optional_access thrown *)
Definition natural_cast (R Src : ity) (s : Z) : res (option Z) :=
  natural_sum R [(Src, s)].

(* ---------- tables compared with what the compiler says (gen/IntTypes_gen.v) ---------- *)
Definition model_types : list (Z * bool * Z * Z) :=
  map (fun t => (bits t, is_signed t, tmin t, tmax t)) all_ity.
Definition model_promote : list N := map (fun t => ity_index (promote t)) all_ity.
Definition model_common : list (list N) :=
  map (fun a => map (fun b => ity_index (common_type a b)) all_ity) all_ity.
Definition model_sum_type : list (list N) :=
  map (fun a => map (fun b => ity_index (uac a b)) all_ity) all_ity.
Definition model_all_unsigned : list (list bool) :=
  map (fun a => map (fun b => all_unsigned a b) all_ity) all_ity.
