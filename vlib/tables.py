"""Regenerates coq/gen/*_gen.v from /repo's current working tree."""
import os
from .common import COQ, VERIF, sh, sha, write_if_changed, lock
from . import hbuild, recipes

GEN = os.path.join(COQ, "gen")

import json


def spec(name):
    """gen/gen_<name>.json: {"driver": "../gen/gen_<name>.cc" (relative to harness/), "fresh": [/repo-relative
    sources compiled from the working tree], "link": recipe name in vlib/recipes.py or explicit list,
    optional "flags": [...], optional "script": "gen/x.py" (python generator run with /repo path instead)}"""
    with open(os.path.join(VERIF, "gen", "gen_%s.json" % name)) as f:
        d = json.load(f)
    link = d.get("link", [])
    if isinstance(link, str):
        link = getattr(recipes, link)
    return d, link


def all_generators():
    return sorted(f[4:-5] for f in os.listdir(os.path.join(VERIF, "gen")) if f.startswith("gen_") and f.endswith(".json"))


def regenerate(which, res=None):
    """Run the named generators; returns dict file -> sha. Raises on failure."""
    out = {}
    for name in which:
        d, link = spec(name)
        if d.get("script"):
            rc, o, e = sh(["python3", os.path.join(VERIF, d["script"]), hbuild.REPO], timeout=300)
        else:
            exe = hbuild.build("gen_" + name, d["driver"], fresh=d.get("fresh", []), link=link,
                               flags=d.get("flags", []))
            rc, o, e = sh([exe], timeout=300)
        if rc != 0:
            raise RuntimeError("table generator %s failed rc=%s: %s" % (name, rc, e[-2000:]))
        cur = None
        buf = {}
        for line in o.splitlines(True):
            if line.startswith("@@FILE "):
                cur = line.split()[1]
                buf[cur] = []
            elif cur:
                buf[cur].append(line)
        with lock("coq"):
            for f, lines in buf.items():
                txt = "".join(lines)
                write_if_changed(os.path.join(GEN, f), txt)
                out[f] = sha(txt)[:16]
    if res is not None:
        res.tables.update(out)
    return out
