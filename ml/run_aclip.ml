(* handlers for the aclip area (C42): Ip::Address primitives, SplayInserter<acl_ip_data*>, ACLIP *)
(* 128-bit values travel as 32 hex digits; they become extracted N without passing through OCaml int *)
let n_of_hex (h : string) : n =
  if String.length h <> 32 then failwith ("bad address " ^ h) else
  let bits = ref [] in   (* most significant first *)
  String.iter (fun c -> let v = hexval c in
    bits := !bits @ [ (v lsr 3) land 1; (v lsr 2) land 1; (v lsr 1) land 1; v land 1 ]) h;
  let rec strip = function 0 :: r -> strip r | l -> l in
  match strip !bits with
  | [] -> N0
  | _ :: rest -> Npos (List.fold_left (fun p b -> if b = 1 then XI p else XO p) XH rest)

let hex_of_n (x : n) : string =
  (* bits, least significant first *)
  let rec lsb p = match p with XH -> [1] | XO q -> 0 :: lsb q | XI q -> 1 :: lsb q in
  let l = match x with N0 -> [] | Npos p -> lsb p in
  let a = Array.make 128 0 in
  List.iteri (fun i b -> if i < 128 then a.(i) <- b else if b = 1 then failwith "address above 128 bits") l;
  String.init 32 (fun k ->
    let base = (31 - k) * 4 in
    let v = a.(base) + 2 * a.(base + 1) + 4 * a.(base + 2) + 8 * a.(base + 3) in
    "0123456789abcdef".[v])

let triple_of (s : string) : ipval =
  if String.length s <> 98 || s.[32] <> '/' || s.[65] <> '/' then failwith ("bad triple " ^ s) else
  { a1 = n_of_hex (String.sub s 0 32); a2 = n_of_hex (String.sub s 33 32); mk = n_of_hex (String.sub s 66 32) }
let show_triple (v : ipval) : string = hex_of_n v.a1 ^ "/" ^ hex_of_n v.a2 ^ "/" ^ hex_of_n v.mk

let rec shape (t : ipval tree) : string =
  match t with
  | Leaf -> "."
  | Node (l, x, r) -> "(" ^ shape l ^ "," ^ show_triple x ^ "," ^ shape r ^ ")"

let rec take k l = if k = 0 then [] else (match l with [] -> [] | x :: r -> x :: take (k - 1) r)
let rec drop k l = if k = 0 then l else (match l with [] -> [] | _ :: r -> drop (k - 1) r)
let bits bs = if bs = [] then "-" else String.concat "" (List.map b2s bs)

let spec_of (s : string) : spec =
  if s = "G" then SG else if s = "X" then SX
  else SV (List.map triple_of (String.split_on_char ';' s))

let tok_of (w : string) : (n list * spec) =
  match String.index_opt w '=' with
  | None -> failwith "bad token word"
  | Some i -> (bytes_of_hex (String.sub w 0 i), spec_of (String.sub w (i + 1) (String.length w - i - 1)))

let () =
  reg "lt" (fun [a; b] -> b2s (addr_lt (n_of_hex a) (n_of_hex b)));
  reg "gt" (fun [a; b] -> b2s (addr_gt (n_of_hex a) (n_of_hex b)));
  reg "le" (fun [a; b] -> b2s (addr_le (n_of_hex a) (n_of_hex b)));
  reg "ge" (fun [a; b] -> b2s (addr_ge (n_of_hex a) (n_of_hex b)));
  reg "eq" (fun [a; b] -> b2s (matchIPAddr (n_of_hex a) (n_of_hex b) = Z0));
  reg "mip" (fun [a; b] -> string_of_z (matchIPAddr (n_of_hex a) (n_of_hex b)));
  reg "fam" (fun [a] -> let x = n_of_hex a in b2s (isIPv4 x) ^ b2s (isAnyAddr x) ^ b2s (isNoAddr x));
  reg "amask" (fun [a; m] -> let x = n_of_hex a and y = n_of_hex m in
      string_of_n (mask_changes x y) ^ " " ^ hex_of_n (applyMask x y));
  reg "dmask" (fun [c; t] ->
      match mask_of_cidr (n_of_string c) (t = "4") with None -> "X" | Some m -> hex_of_n m);
  reg "fl" (fun [t] -> let v = triple_of t in hex_of_n (first_addr v) ^ " " ^ hex_of_n (last_addr v));
  reg "cmp" (fun [a; b] -> string_of_z (icompare (triple_of a) (triple_of b)));
  reg "sub" (fun [a; b] -> b2s (is_subset (triple_of a) (triple_of b)));
  reg "comb" (fun [a; b] -> show_triple (combined (triple_of a) (triple_of b)));
  reg "ncmp" (fun [c; q] -> string_of_z (net_cmp (n_of_hex c) (triple_of q)));
  reg "acl" (fun (ns :: rest) ->
      let n = int_of_string ns in
      let toks = List.map tok_of (take n rest) in
      let probes = List.map n_of_hex (drop n rest) in
      match acl_parse toks with
      | POk (f4, f6, t, cnt) ->
          let (t2, bs) = acl_match_seq f4 f6 t probes in
          (if specs_ok toks then "T" else "F") ^ " " ^ b2s f4 ^ b2s f6 ^ " " ^ string_of_z cnt ^ " " ^ shape t
          ^ " " ^ bits bs ^ " " ^ shape t2
      | PExc -> "EXC"
      | PDangling -> "UB"
      | PFuel -> "HANG")
