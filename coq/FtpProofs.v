(* FtpProofs.v — lemmas and proofs about FtpModel.v (C40). *)
Require Import SquidV.Bytes SquidV.TokModel SquidV.TokProofs SquidV.FtpModel.
Require Import SquidV.gen.Ftp_gen SquidV.gen.FtpSrc_gen.
Require Import ZifyBool ZifyN ZifyNat.
Ltac Zify.zify_post_hook ::= Z.div_mod_to_equations.
Local Open Scope N_scope.

(* ================================================================== *)
(* integer conversions                                                 *)
(* ================================================================== *)
Lemma sat64_id v : (- two63 <= v <= two63 - 1)%Z -> sat64 v = v.
Proof.
  intros H. unfold sat64.
  destruct (v >? two63 - 1)%Z eqn:A; [lia|]. destruct (v <? - two63)%Z eqn:B; [lia|]. reflexivity.
Qed.

Lemma sat64_port v : (0 < sat64 v <= 65535)%Z -> sat64 v = v.
Proof.
  unfold sat64, two63.
  destruct (v >? _)%Z eqn:E1; [cbv beta iota; intros H; lia|]. destruct (v <? _)%Z eqn:E2; cbv beta iota; intros H; lia.
Qed.

Lemma wrap32_id v : (- two31 <= v < two31)%Z -> wrap32 v = v.
Proof.
  intros H. unfold wrap32, two32, two31 in *.
  destruct (v mod 4294967296 >=? 2147483648)%Z eqn:A; lia.
Qed.

Lemma to_int_id v : (- two31 <= v < two31)%Z -> to_int v = v.
Proof.
  intros H. unfold to_int. rewrite sat64_id by (unfold two31, two63 in *; lia). apply wrap32_id, H.
Qed.

Lemma wrap32_range v : (- two31 <= wrap32 v < two31)%Z.
Proof.
  unfold wrap32, two32, two31. destruct (v mod 4294967296 >=? 2147483648)%Z eqn:A; lia.
Qed.

(* ================================================================== *)
(* the number scanner: grammar of what %d / strtol accept              *)
(* ================================================================== *)
Lemma skip_space_split l n :
  exists ws, l = ws ++ fst (skip_space l n) /\ forallb is_c_space ws = true /\
             match fst (skip_space l n) with c :: _ => is_c_space c = false | [] => True end.
Proof.
  revert n; induction l as [|c r IH]; intros n; cbn [skip_space].
  - exists []. cbn. auto.
  - destruct (is_c_space c) eqn:E.
    + destruct (IH (N.succ n)) as (ws & A & B & C). exists (c :: ws). cbn [app forallb].
      rewrite E, B. split; [f_equal; exact A|]. split; [reflexivity|exact C].
    + exists []. cbn [app forallb fst]. rewrite E. auto.
Qed.

Lemma digit_run_split l :
  exists ds, l = ds ++ dropN (lenN (digit_run 10 l)) l /\ forallb is_digit ds = true /\
             lenN ds = lenN (digit_run 10 l) /\
             digit_run 10 l = map (fun c => Z.of_N c - 48)%Z ds /\
             match dropN (lenN (digit_run 10 l)) l with c :: _ => is_digit c = false | [] => True end.
Proof.
  induction l as [|c r IH]; cbn [digit_run].
  - exists []. cbn. auto.
  - unfold digit_of, digit_raw. destruct (is_digit c) eqn:E.
    + assert (D : ((Z.of_N c - 48 >=? 10) = false)%Z).
      { unfold is_digit in E. lia. }
      rewrite D. destruct IH as (ds & A & B & C & M & S). exists (c :: ds).
      cbn [lenN app forallb map dropN]. rewrite E, B.
      destruct (N.succ (lenN (digit_run 10 r)) =? 0) eqn:Z0; [lia|]. rewrite N.pred_succ.
      repeat split; [f_equal; exact A| lia | f_equal; exact M | exact S].
    + assert (N0 : match (if is_upper c then Some (Z.of_N c - 55)%Z else if is_lower c then Some (Z.of_N c - 87)%Z else None)
                   with Some d => if (d >=? 10)%Z then None else Some d | None => None end = None).
      { unfold is_upper, is_lower. destruct ((65 <=? c) && (c <=? 90)) eqn:U.
        - assert ((Z.of_N c - 55 >=? 10)%Z = true) by lia. rewrite H. reflexivity.
        - destruct ((97 <=? c) && (c <=? 122)) eqn:L; [|reflexivity].
          assert ((Z.of_N c - 87 >=? 10)%Z = true) by lia. rewrite H. reflexivity. }
      rewrite N0. exists []. cbn [lenN app forallb map dropN]. cbn. rewrite E. auto.
Qed.

(* value of a decimal digit string (most significant first) *)
Definition dec_value (ds : bytes) : Z := fold_left (fun a c => a * 10 + (Z.of_N c - 48))%Z ds 0%Z.

Lemma digits_value_map ds acc :
  digits_value 10 (map (fun c => Z.of_N c - 48)%Z ds) acc = fold_left (fun a c => a * 10 + (Z.of_N c - 48))%Z ds acc.
Proof.
  unfold digits_value. revert acc; induction ds as [|c r IH]; intros acc; cbn [map fold_left]; [reflexivity|apply IH].
Qed.

Lemma dec_value_nonneg_acc ds acc : forallb is_digit ds = true -> (0 <= acc)%Z ->
  (0 <= fold_left (fun a c => a * 10 + (Z.of_N c - 48))%Z ds acc)%Z.
Proof.
  revert acc; induction ds as [|c r IH]; intros acc H A; cbn [fold_left forallb] in *; [exact A|].
  apply andb_true_iff in H as [H1 H2]. apply IH; [exact H2|]. unfold is_digit in H1. lia.
Qed.

Lemma dec_value_nonneg ds : forallb is_digit ds = true -> (0 <= dec_value ds)%Z.
Proof. intros H. apply dec_value_nonneg_acc; [exact H|lia]. Qed.

(* scan_int accepts exactly: white space, optional sign, a non-empty digit string; the value is the
   mathematical value of the digits (any size), the rest starts with a non-digit *)
Lemma scan_int_shape s v r :
  scan_int s = Some (v, r) ->
  exists ws sg ds,
    s = ws ++ sg ++ ds ++ r /\ forallb is_c_space ws = true /\
    (sg = [] \/ sg = [45] \/ sg = [43]) /\ ds <> [] /\ forallb is_digit ds = true /\
    v = (if list_eqb sg [45] then (- dec_value ds)%Z else dec_value ds) /\
    match r with c :: _ => is_digit c = false | [] => True end.
Proof.
  unfold scan_int. destruct (skip_space_split s 0) as (ws & A & B & C).
  destruct (skip_space s 0) as [l1 n1]. cbn [fst] in *.
  set (sl := match l1 with
             | c :: r0 => if c =? 45 then (true, r0) else if c =? 43 then (false, r0) else (false, l1)
             | [] => (false, l1)
             end).
  assert (SG : exists sg, l1 = sg ++ snd sl /\ (sg = [] \/ sg = [45] \/ sg = [43]) /\ fst sl = list_eqb sg [45]).
  { subst sl. destruct l1 as [|c r0]; [exists []; cbn; auto|].
    destruct (c =? 45) eqn:E45; [apply N.eqb_eq in E45; subst c; exists [45]; cbn; auto|].
    destruct (c =? 43) eqn:E43; [apply N.eqb_eq in E43; subst c; exists [43]; cbn; auto|].
    exists []. cbn. auto. }
  destruct SG as (sg & S1 & S2 & S3). destruct sl as [neg l2]. cbn [fst snd] in *.
  destruct (digit_run_split l2) as (ds & D1 & D2 & D3 & D4 & D5).
  destruct (digit_run 10 l2) as [|d0 dr] eqn:DR; [discriminate|].
  intros H. injection H as Hv Hr. subst v r. cbn [lenN] in *.
  exists ws, sg, ds.
  split; [rewrite A, S1; rewrite D1 at 1; reflexivity|].
  split; [exact B|]. split; [exact S2|].
  split; [intros ->; cbn [lenN] in D3; lia|].
  split; [exact D2|].
  assert (V : digits_value 10 dr d0 = dec_value ds).
  { transitivity (digits_value 10 (d0 :: dr) 0).
    - unfold digits_value. cbn [fold_left]. f_equal.
    - rewrite D4. apply digits_value_map. }
  split; [rewrite V, S3; reflexivity|exact D5].
Qed.

(* ================================================================== *)
(* Ftp::ParseIpPort                                                    *)
(* ================================================================== *)
Definition zoctet (v : Z) : Prop := (0 <= v <= 255)%Z.

Lemma octet_true h : octet h = true <-> zoctet h.
Proof. unfold octet, zoctet. lia. Qed.

Lemma is_any_v4mapped a b c d :
  zoctet a -> zoctet b -> zoctet c -> zoctet d ->
  is_any (v4mapped a b c d) = false -> ~ (a = 0 /\ b = 0 /\ c = 0 /\ d = 0)%Z.
Proof.
  intros _ _ _ _ H (-> & -> & -> & ->). vm_compute in H. discriminate.
Qed.

(* a clamped long strictly inside the long range is the mathematical value itself: numbers beyond the long range
   are stored by "%ld"/strtol as LONG_MAX / LONG_MIN, which no range check below accepts *)
Lemma sat64_inv v : (- two63 < sat64 v < two63 - 1)%Z -> sat64 v = v.
Proof.
  unfold sat64, two63.
  destruct (v >? _)%Z eqn:E1; [cbv beta iota; intros H; lia|]. destruct (v <? _)%Z eqn:E2; cbv beta iota; intros H; lia.
Qed.

Lemma sat64_octet v : octet (sat64 v) = true -> zoctet v.
Proof.
  intros H. apply octet_true in H. unfold zoctet in *. rewrite sat64_inv in H; [exact H|unfold two63; lia].
Qed.

Section Address.
Variable ipf : bytes -> option bytes.
(* contract assumed of the external lookup: none. Every statement below holds for every ipf. *)

(* accepted (with or without forceIp): six numbers were converted and every WRITTEN number is an octet, whatever its
   size in digits; the port is p1*256+p2 in 1..65535 (>= 1024 under ftp_sanitycheck); without forceIp the address is
   exactly h1.h2.h3.h4 and not 0.0.0.0, with forceIp it is the forced one *)
Theorem parse_ip_port_sound sanity force buf a port :
  parse_ip_port ipf sanity force buf = Some (a, port) ->
  exists v1 v2 v3 v4 v5 v6,
    scan_commas 6 buf = [v1; v2; v3; v4; v5; v6] /\
    zoctet v1 /\ zoctet v2 /\ zoctet v3 /\ zoctet v4 /\ zoctet v5 /\ zoctet v6 /\
    port = (v5 * 256 + v6)%Z /\ (1 <= port <= 65535)%Z /\ (sanity = true -> 1024 <= port)%Z /\
    match force with
    | None => a = v4mapped v1 v2 v3 v4 /\ ~ (v1 = 0 /\ v2 = 0 /\ v3 = 0 /\ v4 = 0)%Z
    | Some t => a = assign ipf t
    end.
Proof.
  unfold parse_ip_port.
  destruct (scan_commas 6 buf) as [|v1 [|v2 [|v3 [|v4 [|v5 [|v6 [|v7 l]]]]]]]; cbn [map]; try discriminate.
  destruct ((sat64 v5 <? 0) || (sat64 v6 <? 0) || (sat64 v5 >? 255) || (sat64 v6 >? 255))%Z eqn:EP; [discriminate|].
  destruct (octet (sat64 v1) && octet (sat64 v2) && octet (sat64 v3) && octet (sat64 v4)) eqn:EH; cbn [negb]; [|discriminate].
  apply andb_true_iff in EH as [EH E4]. apply andb_true_iff in EH as [EH E3]. apply andb_true_iff in EH as [E1 E2].
  assert (E5 : octet (sat64 v5) = true) by (unfold octet; lia).
  assert (E6 : octet (sat64 v6) = true) by (unfold octet; lia).
  pose proof (sat64_octet _ E1) as O1. pose proof (sat64_octet _ E2) as O2. pose proof (sat64_octet _ E3) as O3.
  pose proof (sat64_octet _ E4) as O4. pose proof (sat64_octet _ E5) as O5. pose proof (sat64_octet _ E6) as O6.
  assert (S1 : sat64 v1 = v1) by (apply sat64_id; unfold zoctet, two63 in *; lia).
  assert (S2 : sat64 v2 = v2) by (apply sat64_id; unfold zoctet, two63 in *; lia).
  assert (S3 : sat64 v3 = v3) by (apply sat64_id; unfold zoctet, two63 in *; lia).
  assert (S4 : sat64 v4 = v4) by (apply sat64_id; unfold zoctet, two63 in *; lia).
  assert (S5 : sat64 v5 = v5) by (apply sat64_id; unfold zoctet, two63 in *; lia).
  assert (S6 : sat64 v6 = v6) by (apply sat64_id; unfold zoctet, two63 in *; lia).
  rewrite S1, S2, S3, S4, S5, S6.
  destruct force as [t|].
  - destruct (v5 * 256 + v6 <=? 0)%Z eqn:E0; [discriminate|].
    destruct (sanity && (v5 * 256 + v6 <? 1024)%Z) eqn:ES; [discriminate|].
    intros H; inversion H; subst a port; clear H.
    assert (SA : sanity = true -> (1024 <= v5 * 256 + v6)%Z) by (intros ->; cbn [andb] in ES; lia).
    exists v1, v2, v3, v4, v5, v6. unfold zoctet in *. repeat split; try assumption; try lia.
  - destruct (is_any (v4mapped v1 v2 v3 v4)) eqn:EA; [discriminate|].
    destruct (v5 * 256 + v6 <=? 0)%Z eqn:E0; [discriminate|].
    destruct (sanity && (v5 * 256 + v6 <? 1024)%Z) eqn:ES; [discriminate|].
    intros H; inversion H; subst a port; clear H.
    assert (NZ : ~ (v1 = 0 /\ v2 = 0 /\ v3 = 0 /\ v4 = 0)%Z) by (apply is_any_v4mapped; assumption).
    assert (SA : sanity = true -> (1024 <= v5 * 256 + v6)%Z) by (intros ->; cbn [andb] in ES; lia).
    exists v1, v2, v3, v4, v5, v6. unfold zoctet in *. repeat split; try assumption; try lia.
Qed.

(* contrapositive, spelled out: a string with any written number outside 0..255 -- including numbers of any length,
   which "%ld" clamps to LONG_MAX / LONG_MIN -- is refused *)
Theorem parse_ip_port_rejects_non_octets sanity force buf :
  ~ Forall zoctet (scan_commas 6 buf) -> parse_ip_port ipf sanity force buf = None.
Proof.
  intros NF. destruct (parse_ip_port ipf sanity force buf) as [[a port]|] eqn:E; [|reflexivity].
  exfalso. apply NF. destruct (parse_ip_port_sound _ _ _ _ _ E) as (v1 & v2 & v3 & v4 & v5 & v6 & S & R).
  rewrite S. destruct R as (O1 & O2 & O3 & O4 & O5 & O6 & _). repeat (constructor; [assumption|]). constructor.
Qed.

(* ================================================================== *)
(* Ftp::ParseProtoIpPort                                               *)
(* ================================================================== *)
Lemma strtol10_some s v e : strtol10 s = (v, e) -> (v <> 0)%Z -> exists m, scan_int s = Some (m, e) /\ v = sat64 m.
Proof.
  unfold strtol10. destruct (scan_int s) as [[m r]|]; intros H NZ; inversion H; subst.
  - exists m. auto.
  - congruence.
Qed.

Lemma find_first_eq_split d l k :
  find_first (fun c => c =? d) l = Some k ->
  exists ip rest, l = ip ++ d :: rest /\ lenN ip = k /\ ip = takeN k l /\ rest = dropN (k + 1) l /\
                  forallb (fun c => negb (c =? d)) ip = true.
Proof.
  revert k; induction l as [|x l IH]; intros k; cbn [find_first]; [discriminate|].
  destruct (x =? d) eqn:E.
  - intros H; inversion H; subst k. apply N.eqb_eq in E; subst x.
    exists [], l. cbn. repeat split. destruct l; reflexivity.
  - destruct (find_first (fun c => c =? d) l) as [j|] eqn:F; cbn [option_map]; [|discriminate].
    intros H; inversion H; subst k. destruct (IH j eq_refl) as (ip & rest & A & B & C & D & G).
    exists (x :: ip), rest. cbn [app lenN takeN dropN forallb].
    destruct (N.succ j =? 0) eqn:Z0; [lia|]. destruct (N.succ j + 1 =? 0) eqn:Z1; [lia|].
    rewrite N.pred_succ. replace (N.pred (N.succ j + 1)) with (j + 1) by lia.
    rewrite E, G. cbn [negb andb]. repeat split; [f_equal; exact A | lia | f_equal; exact C | exact D].
Qed.

(* accepted EPRT: <d> net-prt <d> address <d> port '|'; the WRITTEN protocol number is 1 or 2 and matches the family
   of the address; the address is what the lookup returned for exactly the delimited text, not a wildcard; the
   MATHEMATICAL value of the port digits is in 1..65535 (>= 1024 under ftp_sanitycheck) *)
Theorem parse_proto_sound sanity buf a port :
  parse_proto_ip_port ipf sanity buf = EOk a port ->
  exists d s pv s2 ip s3 e3,
    buf = d :: s /\
    scan_int s = Some (pv, d :: s2) /\ (pv = 1 \/ pv = 2)%Z /\
    s2 = ip ++ d :: s3 /\ forallb (fun c => negb (c =? d)) ip = true /\ lenN ip < max_ipstrlen /\
    ipf ip = Some a /\ is_any a = false /\ ((pv = 2)%Z <-> is_v4 a = false) /\
    scan_int s3 = Some (port, e3) /\ head0 e3 = 124 /\
    (1 <= port <= 65535)%Z /\ (sanity = true -> 1024 <= port)%Z.
Proof.
  unfold parse_proto_ip_port. destruct buf as [|d s]; [discriminate|].
  destruct (strtol10 s) as [pl e] eqn:E1.
  destruct (negb ((pl =? 1)%Z || (pl =? 2)%Z) || negb (head0 e =? d)) eqn:C1; [discriminate|].
  apply orb_false_iff in C1 as [C1a C1b]. apply negb_false_iff in C1a, C1b.
  destruct (find_first (fun c => c =? d) (dropN 1 e)) as [k|] eqn:F; [|discriminate].
  destruct (max_ipstrlen <=? k) eqn:C2; [discriminate|].
  set (a0 := assign ipf (takeN k (dropN 1 e))).
  destruct (is_any a0) eqn:C3; [discriminate|].
  destruct (negb (Bool.eqb (pl =? 2)%Z (negb (is_v4 a0)))) eqn:C4; [discriminate|].
  destruct (strtol10 (dropN (k + 1) (dropN 1 e))) as [po e3] eqn:E2.
  destruct (((po <=? 0) || (po >? 65535))%Z || negb (head0 e3 =? 124)) eqn:C5; [discriminate|].
  destruct (sanity && (po <? 1024)%Z) eqn:C6; [discriminate|].
  intros H; inversion H; subst a port; clear H.
  apply orb_false_iff in C5 as [C5a C5b]. apply negb_false_iff in C5b.
  assert (PL : (pl <> 0)%Z) by lia.
  destruct (strtol10_some _ _ _ E1 PL) as (pv & SP & ->).
  assert (PV : sat64 pv = pv) by (apply sat64_inv; unfold two63; lia).
  rewrite PV in *.
  assert (PO : (po <> 0)%Z) by lia.
  destruct (strtol10_some _ _ _ E2 PO) as (pm & SO & ->).
  assert (PM : sat64 pm = pm).
  { apply sat64_port. lia. }
  rewrite PM in *.
  destruct e as [|c s2]; [cbn [head0] in C1b; exfalso|].
  { (* *e is the terminator: it would have to equal the (non-NUL) delimiter, but then strchr finds nothing *)
    cbn [dropN] in F. discriminate. }
  cbn [head0] in C1b. apply N.eqb_eq in C1b; subst c.
  assert (D1 : dropN 1 (d :: s2) = s2) by (cbn; apply dropN_0).
  rewrite D1 in *.
  destruct (find_first_eq_split _ _ _ F) as (ip & s3 & A & B & C & D & G).
  assert (IPF : ipf ip = Some a0).
  { subst a0. rewrite D1 in *. rewrite <- C in *. unfold assign in *. destruct (ipf ip) as [x|]; [reflexivity|].
    vm_compute in C3. discriminate. }
  assert (P12 : (pv = 1 \/ pv = 2)%Z) by lia.
  assert (LEN : lenN ip < max_ipstrlen) by lia.
  assert (SO' : scan_int s3 = Some (pm, e3)) by (rewrite D; exact SO).
  assert (H124 : head0 e3 = 124) by (apply N.eqb_eq, C5b).
  assert (RNG : (1 <= pm <= 65535)%Z) by lia.
  assert (SA : sanity = true -> (1024 <= pm)%Z) by (intros ->; cbn [andb] in C6; lia).
  assert (FAM : (pv = 2)%Z <-> is_v4 a0 = false).
  { apply negb_false_iff in C4. apply Bool.eqb_prop in C4. split.
    - intros P2. assert (X : (pv =? 2)%Z = true) by lia. rewrite X in C4.
      symmetry in C4. apply negb_true_iff in C4. exact C4.
    - intros V. rewrite V in C4. cbn [negb] in C4. lia. }
  exists d, s, pv, s2, ip, s3, e3.
  split; [reflexivity|]. split; [exact SP|]. split; [exact P12|]. split; [exact A|]. split; [exact G|].
  split; [exact LEN|]. split; [exact IPF|]. split; [exact C3|]. split; [exact FAM|]. split; [exact SO'|].
  split; [exact H124|]. split; [exact RNG|exact SA].
Qed.

End Address.

(* ---- concrete strings used by the Examples of Properties_C40.v ---- *)
(* "1,2,3,4,4294967300,0", "4294967297,2,3,4,5,6", "999,2,3,4,5,6": accepted before the repair in /repo *)
Definition w_port_wrap_p1 : bytes := [49;44;50;44;51;44;52;44;52;50;57;52;57;54;55;51;48;48;44;48].
Definition w_port_wrap : bytes := [52;50;57;52;57;54;55;50;57;55;44;50;44;51;44;52;44;53;44;54].
Definition w_forced : bytes := [57;57;57;44;50;44;51;44;52;44;53;44;54].
(* "1.2.3.4" and a lookup that knows only it; "|4294967297|1.2.3.4|8080|" *)
Definition w_ip1234 : bytes := [49;46;50;46;51;46;52].
Definition w_ipf (t : bytes) : option bytes := if list_eqb t w_ip1234 then Some (v4mapped 1 2 3 4) else None.
Definition w_eprt_wrap : bytes :=
  [124;52;50;57;52;57;54;55;50;57;55;124] ++ w_ip1234 ++ [124;56;48;56;48;124].

(* ================================================================== *)
(* Ftp::UnescapeDoubleQuoted                                           *)
(* ================================================================== *)
Lemma unq_body_escape s rest :
  match rest with c :: _ => (c =? 34) = false | [] => True end ->
  unq_body (dq_escape s ++ 34 :: rest) = Some s.
Proof.
  intros R. induction s as [|c s IH]; cbn [dq_escape app unq_body].
  - rewrite N.eqb_refl. destruct rest as [|x r]; [reflexivity|]. rewrite R. reflexivity.
  - destruct (c =? 34) eqn:E.
    + apply N.eqb_eq in E; subst c. cbn [app unq_body]. rewrite !N.eqb_refl. rewrite IH. reflexivity.
    + cbn [app unq_body]. rewrite E, IH. reflexivity.
Qed.

Theorem unescape_roundtrip s rest :
  match rest with c :: _ => (c =? 34) = false | [] => True end ->
  unescape_dq (34 :: dq_escape s ++ 34 :: rest) = s.
Proof.
  intros R. unfold unescape_dq. rewrite N.eqb_refl, unq_body_escape by exact R. reflexivity.
Qed.

(* ================================================================== *)
(* ftpListParseParts: tokenisation                                     *)
(* ================================================================== *)
Definition nonwsp (c : N) : bool := negb (is_wsp c).

(* pre is empty or ends with a blank / post is empty or starts with a blank *)
Definition ends_blank (pre : bytes) : Prop := pre = [] \/ exists p c, pre = p ++ [c] /\ is_wsp c = true.
Definition starts_blank (post : bytes) : Prop := match post with [] => True | c :: _ => is_wsp c = true end.

(* the token is a non-empty blank-free piece of the line found at its recorded offset,
   delimited by blanks or the ends of the line *)
Definition tok_ok (buf : bytes) (t : tokrec) : Prop :=
  t_tok t <> [] /\ forallb nonwsp (t_tok t) = true /\
  exists pre post, buf = pre ++ t_tok t ++ post /\ lenN pre = t_pos t /\ ends_blank pre /\ starts_blank post.

Lemma forallb_rev {A} (p : A -> bool) l : forallb p (rev l) = forallb p l.
Proof.
  induction l as [|x l IH]; cbn [rev forallb]; [reflexivity|].
  rewrite forallb_app, IH. cbn [forallb]. rewrite andb_true_r. apply andb_comm.
Qed.

Lemma rev_nonnil {A} (l : list A) : l <> [] -> rev l <> [].
Proof. destruct l as [|x l]; [congruence|]. cbn [rev]. intros _ C. apply app_eq_nil in C as [_ C]. discriminate. Qed.

Lemma tokscan_ok buf s : forall pos start cur pre,
  buf = pre ++ rev cur ++ s -> pos = lenN pre + lenN cur -> (cur <> [] -> start = lenN pre) ->
  forallb nonwsp cur = true -> ends_blank pre ->
  forall t, In t (tokscan s pos start cur) -> tok_ok buf t.
Proof.
  induction s as [|c r IH]; intros pos start cur pre HB HP HS HC HE t HI; cbn [tokscan] in HI.
  - destruct cur as [|x cur']; [destruct HI|]. destruct HI as [<-|[]]. unfold tok_ok; cbn [t_tok t_pos].
    split; [apply rev_nonnil; discriminate|]. split; [rewrite forallb_rev; exact HC|].
    exists pre, []. rewrite HS by discriminate. repeat split; [exact HB | exact HE].
  - destruct (is_wsp c) eqn:EW.
    + destruct cur as [|x cur'].
      * apply (IH (pos + 1) (pos + 1) [] (pre ++ [c])); try assumption.
        -- rewrite HB. cbn [rev app]. rewrite <- app_assoc. reflexivity.
        -- rewrite lenN_app. cbn [lenN] in *. lia.
        -- congruence.
        -- right. exists pre, c. auto.
      * destruct HI as [<-|HI].
        -- unfold tok_ok; cbn [t_tok t_pos]. split; [apply rev_nonnil; discriminate|]. split; [rewrite forallb_rev; exact HC|].
           exists pre, (c :: r). rewrite HS by discriminate. repeat split; [exact HB | exact HE | exact EW].
        -- apply (IH (pos + 1) (pos + 1) [] (pre ++ rev (x :: cur') ++ [c])); try assumption.
           ++ rewrite HB. cbn [rev app]. rewrite <- !app_assoc. reflexivity.
           ++ rewrite !lenN_app, lenN_rev. cbn [lenN] in *. lia.
           ++ congruence.
           ++ reflexivity.
           ++ right. exists (pre ++ rev (x :: cur')), c. rewrite <- app_assoc. auto.
    + apply (IH (pos + 1) (match cur with [] => pos | _ => start end) (c :: cur) pre); try assumption.
      * rewrite HB. cbn [rev]. rewrite <- !app_assoc. reflexivity.
      * cbn [lenN]. lia.
      * intros _. destruct cur as [|x cur']; [cbn [lenN] in HP; lia| apply HS; discriminate].
      * cbn [forallb]. unfold nonwsp at 1. rewrite EW. exact HC.
Qed.

Theorem all_tokens_ok buf t : In t (all_tokens buf) -> tok_ok buf t.
Proof.
  apply (tokscan_ok buf buf 0 0 [] []); try reflexivity. left; reflexivity.
Qed.

(* consequences used for bounds *)
Lemma tok_ok_bounds buf t : tok_ok buf t ->
  t_pos t + lenN (t_tok t) <= lenN buf /\ 1 <= lenN (t_tok t) /\
  dropN (t_pos t) buf = t_tok t ++ dropN (t_pos t + lenN (t_tok t)) buf.
Proof.
  intros (NE & _ & pre & post & HB & HL & _ & _).
  assert (L : lenN buf = lenN pre + lenN (t_tok t) + lenN post) by (rewrite HB, !lenN_app; lia).
  split; [lia|]. split.
  - destruct (t_tok t); [congruence|cbn [lenN]; lia].
  - rewrite <- HL. rewrite HB at 1. rewrite dropN_app_exact.
    replace (lenN pre + lenN (t_tok t)) with (lenN (pre ++ t_tok t)) by apply lenN_app.
    rewrite HB, app_assoc, dropN_app_exact. reflexivity.
Qed.

(* ---- the store loop and the 64-token limit ---- *)
Lemma store_loop_val g c : g <= c -> forall ts arr,
  store_loop g c ts arr = Val (arr ++ takeN (g - lenN arr) ts).
Proof.
  intros GC ts; induction ts as [|t r IH]; intros arr; cbn [store_loop takeN].
  - rewrite app_nil_r. reflexivity.
  - destruct (lenN arr <? g) eqn:E1.
    + assert (E2 : (lenN arr <? c) = true) by lia. rewrite E2, IH.
      destruct (g - lenN arr =? 0) eqn:E3; [lia|].
      rewrite <- app_assoc. cbn [app]. rewrite lenN_app. cbn [lenN].
      replace (g - (lenN arr + N.succ 0)) with (N.pred (g - lenN arr)) by lia. reflexivity.
    + destruct (g - lenN arr =? 0) eqn:E3; [|lia]. rewrite app_nil_r. reflexivity.
Qed.

Lemma In_takeN {A} n (l : list A) x : In x (takeN n l) -> In x l.
Proof.
  revert n; induction l as [|y l IH]; intros n; cbn [takeN]; [auto|].
  destruct (n =? 0); [intros []|]. intros [->|H]; [left; reflexivity| right; eapply IH; exact H].
Qed.

Lemma guard_le_capacity : max_tokens <= tokens_capacity.
Proof. vm_compute. discriminate. Qed.

(* the array filled by the loop: the first max_tokens tokens of the line, never a store past the array *)
Theorem stored_tokens buf :
  store_loop max_tokens tokens_capacity (all_tokens buf) [] = Val (takeN max_tokens (all_tokens buf)).
Proof.
  rewrite (store_loop_val _ _ guard_le_capacity). cbn [app lenN]. rewrite N.sub_0_r. reflexivity.
Qed.

Lemma stored_tokens_len buf : lenN (takeN max_tokens (all_tokens buf)) <= max_tokens.
Proof. rewrite lenN_takeN. lia. Qed.

(* ---- checked primitives never fail inside their bounds ---- *)
Lemma nthN_some {A} (l : list A) n : n < lenN l -> exists x, nthN n l = Some x /\ In x l.
Proof.
  revert n; induction l as [|y l IH]; intros n H; cbn [lenN nthN] in *; [lia|].
  destruct (n =? 0) eqn:E; [exists y; split; [reflexivity|left; reflexivity]|].
  destruct (IH (N.pred n)) as (x & Hx & Bx); [lia|]. exists x. split; [exact Hx| right; exact Bx].
Qed.

Lemma tok_get_ok arr i : (0 <= i < Z.of_N (lenN arr))%Z -> exists t, tok_get arr i = Val t /\ In t arr.
Proof.
  intros H. unfold tok_get. destruct (i <? 0)%Z eqn:E; [lia|].
  destruct (nthN_some arr (Z.to_N i)) as (x & Hx & Bx); [lia|]. rewrite Hx. exists x. auto.
Qed.

Lemma cstr_at_ok buf off : off <= lenN buf -> cstr_at buf off = Val (dropN off buf).
Proof. intros H. unfold cstr_at. destruct (off <=? lenN buf) eqn:E; [reflexivity|lia]. Qed.

Lemma tbuf_positive : (tbuf_size <=? tbuf_size) && (0 <? tbuf_size) = true.
Proof. vm_compute. reflexivity. Qed.

Lemma snprintf_ok s : snprintf_chk tbuf_size tbuf_size s = Val (takeN (tbuf_size - 1) s, lenN s).
Proof. unfold snprintf_chk. rewrite tbuf_positive. reflexivity. Qed.

(* ================================================================== *)
(* ftpListParseParts: no access outside its objects                    *)
(* ================================================================== *)
Section Bounds.
Variables (skipws : bool) (buf : bytes) (arr : list tokrec).
Hypothesis arr_ok : forall t, In t arr -> tok_ok buf t.

Lemma unix_body_in_bounds i : (3 <= i)%Z -> (i + 2 < Z.of_N (lenN arr))%Z -> unix_body skipws buf arr i <> OOB.
Proof.
  intros H3 Hn. unfold unix_body.
  destruct (tok_get_ok arr (i - 1)%Z) as (sz & Gsz & Isz); [lia|].
  destruct (tok_get_ok arr i) as (mo & Gmo & Imo); [lia|].
  destruct (tok_get_ok arr (i + 1)%Z) as (dy & Gdy & Idy); [lia|].
  destruct (tok_get_ok arr (i + 2)%Z) as (yr & Gyr & Iyr); [lia|].
  destruct (tok_get_ok arr 0%Z) as (t0 & Gt0 & It0); [lia|].
  rewrite Gsz, Gmo, Gdy, Gyr. cbn [bind].
  destruct (negb (is_month (t_tok mo))); [discriminate|].
  destruct (negb (re_integer (t_tok sz))); [discriminate|].
  destruct (negb (re_integer (t_tok dy))); [discriminate|].
  destruct (negb (re_time (t_tok yr))); [discriminate|].
  destruct (tok_ok_bounds _ _ (arr_ok _ Imo)) as (Bmo & _ & _).
  destruct (tok_ok_bounds _ _ (arr_ok _ Iyr)) as (Byr & _ & _).
  rewrite cstr_at_ok by lia. cbn [bind]. rewrite !snprintf_ok. cbn [bind].
  match goal with |- (if ?c then _ else _) <> _ => destruct c end; [|discriminate].
  rewrite Gt0. cbn [bind]. rewrite cstr_at_ok by lia. cbn [bind].
  match goal with |- (let '(_, _) := ?x in _) <> _ => destruct x end. discriminate.
Qed.

Lemma unix_loop_in_bounds idx :
  (forall i, In i idx -> (3 <= i)%Z /\ (i + 2 < Z.of_N (lenN arr))%Z) -> unix_loop skipws buf arr idx <> OOB.
Proof.
  induction idx as [|i r IH]; intros H; cbn [unix_loop]; [discriminate|].
  destruct (H i (or_introl eq_refl)) as [A B].
  pose proof (unix_body_in_bounds i A B) as NB.
  destruct (unix_body skipws buf arr i) as [st|]; [|congruence]. cbn [bind].
  destruct st; try discriminate. apply IH. intros j Hj. apply H. right. exact Hj.
Qed.

Lemma unix_indices_range i : In i (unix_indices (lenN arr)) -> (3 <= i)%Z /\ (i + 2 < Z.of_N (lenN arr))%Z.
Proof.
  unfold unix_indices. rewrite in_map_iff. intros (k & <- & Hk). apply in_seq in Hk. lia.
Qed.

Lemma dos_try_in_bounds : dos_try arr <> OOB.
Proof.
  unfold dos_try. destruct (3 <? lenN arr) eqn:E; [|discriminate].
  destruct (tok_get_ok arr 0%Z) as (t0 & G0 & _); [lia|].
  destruct (tok_get_ok arr 1%Z) as (t1 & G1 & _); [lia|].
  destruct (tok_get_ok arr 2%Z) as (t2 & G2 & _); [lia|].
  destruct (tok_get_ok arr 3%Z) as (t3 & G3 & _); [lia|].
  rewrite G0, G1. cbn [bind]. destruct (re_dosdate (t_tok t0) && re_dostime (t_tok t1)); [|discriminate].
  rewrite G2, G3. cbn [bind]. rewrite snprintf_ok. cbn [bind]. discriminate.
Qed.
End Bounds.

(* ---- EPLF facts ---- *)
Definition seg_ok (buf : bytes) (f : tokrec) : Prop :=
  exists pre post, buf = pre ++ t_tok f ++ post /\ lenN pre = t_pos f.

Lemma segscan_ok buf s : forall pos start cur pre,
  buf = pre ++ rev cur ++ s -> pos = lenN pre + lenN cur -> start = lenN pre ->
  forall f, In f (segscan s pos start cur) -> seg_ok buf f.
Proof.
  induction s as [|c r IH]; intros pos start cur pre HB HP HS f HI; cbn [segscan] in HI.
  - destruct HI as [<-|[]]. exists pre, []. cbn [t_tok t_pos]. auto.
  - destruct (c =? 44) eqn:E.
    + destruct HI as [<-|HI].
      * exists pre, (c :: r). cbn [t_tok t_pos]. auto.
      * apply (IH (pos + 1) (pos + 1) [] (pre ++ rev cur ++ [c])); try assumption.
        -- rewrite HB. cbn [rev app]. rewrite <- !app_assoc. reflexivity.
        -- rewrite !lenN_app, lenN_rev. cbn [lenN]. lia.
        -- rewrite !lenN_app, lenN_rev. cbn [lenN]. lia.
    + apply (IH (pos + 1) start (c :: cur) pre); try assumption.
      * rewrite HB. cbn [rev]. rewrite <- !app_assoc. reflexivity.
      * cbn [lenN]. lia.
Qed.

Lemma eplf_fact_in_bounds buf st f : seg_ok buf f -> eplf_fact buf st f <> OOB.
Proof.
  intros (pre & post & HB & HL). unfold eplf_fact.
  destruct (lenN (t_tok f) <? 1) eqn:E; [discriminate|].
  assert (L : lenN buf = lenN pre + lenN (t_tok f) + lenN post) by (rewrite HB, !lenN_app; lia).
  rewrite cstr_at_ok by lia. cbn [bind].
  repeat match goal with |- (if ?c then _ else _) <> _ => destruct c end; discriminate.
Qed.

Lemma eplf_loop_in_bounds buf fs : (forall f, In f fs -> seg_ok buf f) -> forall st, eplf_loop buf st fs <> OOB.
Proof.
  induction fs as [|f r IH]; intros H st; cbn [eplf_loop]; [discriminate|].
  pose proof (eplf_fact_in_bounds buf st f (H f (or_introl eq_refl))) as NB.
  destruct (eplf_fact buf st f) as [st'|]; [|congruence]. cbn [bind]. apply IH. intros g Hg. apply H. right. exact Hg.
Qed.

Lemma eplf_try_in_bounds buf : eplf_try buf <> OOB.
Proof.
  unfold eplf_try. destruct buf as [|c rest]; [discriminate|].
  destruct (N.eq_dec c 43) as [->|NE].
  - pose proof (eplf_loop_in_bounds (43 :: rest) (segscan rest 1 1 [])) as H.
    match goal with |- bind (eplf_loop _ ?st _) _ <> _ => specialize (H (segscan_ok (43 :: rest) rest 1 1 [] [43] eq_refl eq_refl eq_refl) st) end.
    destruct (eplf_loop _ _ _) as [st'|]; [|congruence]. cbn [bind]. destruct (e_name st'); discriminate.
  - destruct c as [|p]; [discriminate|]. do 6 (destruct p as [p|p|]; try discriminate). congruence.
Qed.

(* the property: for every line and both flags, no read or write outside the line (terminator included),
   the tokens[] array or tbuf[] *)
Theorem list_parse_in_bounds nlst skipws buf : list_parse nlst skipws buf <> OOB.
Proof.
  unfold list_parse. destruct buf as [|b0 br]; [discriminate|]. set (buf := b0 :: br).
  destruct nlst; [discriminate|].
  rewrite stored_tokens. cbn [bind]. set (arr := takeN max_tokens (all_tokens buf)).
  assert (AO : forall t, In t arr -> tok_ok buf t).
  { intros t Ht. apply all_tokens_ok. eapply In_takeN. exact Ht. }
  pose proof (unix_loop_in_bounds skipws buf arr AO (unix_indices (lenN arr)) (unix_indices_range arr)) as NB.
  destruct (unix_loop skipws buf arr (unix_indices (lenN arr))) as [st|]; [|congruence]. cbn [bind].
  destruct st; try discriminate.
  - pose proof (dos_try_in_bounds buf arr AO) as ND. destruct (dos_try arr) as [d|]; [|congruence]. cbn [bind].
    destruct d; [discriminate|apply eplf_try_in_bounds].
  - pose proof (dos_try_in_bounds buf arr AO) as ND. destruct (dos_try arr) as [d|]; [|congruence]. cbn [bind].
    destruct d; [discriminate|apply eplf_try_in_bounds].
Qed.

(* ================================================================== *)
(* Unix format: the name (and link target) is the tail of the line     *)
(* ================================================================== *)
Lemma starts_with_split l p : starts_with l p = true -> exists rest, l = p ++ rest.
Proof.
  revert l; induction p as [|y p IH]; intros l H; cbn [starts_with] in H.
  - exists l. reflexivity.
  - destruct l as [|x l]; [discriminate|]. apply andb_true_iff in H as [E H]. apply N.eqb_eq in E; subst y.
    destruct (IH l H) as (rest & ->). exists rest. reflexivity.
Qed.

Lemma strstr_split h p k : strstr h p = Some k -> exists pre rest, h = pre ++ p ++ rest /\ lenN pre = k.
Proof.
  revert k; induction h as [|x h IH]; intros k; cbn [strstr].
  - destruct (starts_with [] p) eqn:E; [|discriminate]. intros H; inversion H; subst k.
    destruct (starts_with_split _ _ E) as (rest & R). exists [], rest. split; [exact R|reflexivity].
  - destruct (starts_with (x :: h) p) eqn:E.
    + intros H; inversion H; subst k. destruct (starts_with_split _ _ E) as (rest & R).
      exists [], rest. split; [exact R|reflexivity].
    + destruct (strstr h p) as [j|] eqn:S; cbn [option_map]; [|discriminate].
      intros H; inversion H; subst k. destruct (IH j eq_refl) as (pre & rest & R & L).
      exists (x :: pre), rest. cbn [app lenN]. split; [f_equal; exact R|lia].
Qed.

Theorem unix_name_is_line_tail skipws buf arr i p :
  unix_body skipws buf arr i = Val (Found p) ->
  exists pre, buf = pre ++ p_name p ++ match p_link p with Some l => arrow ++ l | None => [] end.
Proof.
  unfold unix_body.
  destruct (tok_get arr (i - 1)%Z) as [sz|]; cbn [bind]; [|discriminate].
  destruct (tok_get arr i) as [mo|]; cbn [bind]; [|discriminate].
  destruct (tok_get arr (i + 1)%Z) as [dy|]; cbn [bind]; [|discriminate].
  destruct (tok_get arr (i + 2)%Z) as [yr|]; cbn [bind]; [|discriminate].
  destruct (negb (is_month (t_tok mo))); [discriminate|].
  destruct (negb (re_integer (t_tok sz))); [discriminate|].
  destruct (negb (re_integer (t_tok dy))); [discriminate|].
  destruct (negb (re_time (t_tok yr))); [discriminate|].
  destruct (cstr_at buf (t_pos mo)) as [from|]; cbn [bind]; [|discriminate].
  rewrite !snprintf_ok. cbn [bind].
  match goal with |- (if ?c then _ else _) = _ -> _ => destruct c end; [|discriminate].
  destruct (tok_get arr 0) as [t0|]; cbn [bind]; [|discriminate].
  unfold cstr_at. set (off := t_pos yr + lenN (t_tok yr)).
  destruct (off <=? lenN buf); cbn [bind]; [|discriminate].
  set (after := dropN off buf).
  set (name0 := if skipws then snd (span is_wsp after)
                else match after with c :: r => if is_wsp c then r else after | [] => after end).
  assert (N0 : exists q, buf = q ++ name0).
  { assert (A : buf = takeN off buf ++ after) by (symmetry; apply takeN_dropN).
    subst name0. destruct skipws.
    - exists (takeN off buf ++ fst (span is_wsp after)). rewrite <- app_assoc, span_app. exact A.
    - destruct after as [|c r] eqn:EA; [exists (takeN off buf); exact A|].
      destruct (is_wsp c); [|exists (takeN off buf); exact A].
      exists (takeN off buf ++ [c]). rewrite <- app_assoc. exact A. }
  destruct N0 as (q & Q).
  destruct (head0 (t_tok t0) =? 108).
  - destruct (strstr name0 arrow) as [k|] eqn:S.
    + intros H; inversion H; subst p; clear H. cbn [p_name p_link].
      destruct (strstr_split _ _ _ S) as (pre & rest & R & L).
      exists q. rewrite Q at 1. f_equal. rewrite R at 1.
      assert (T : takeN k name0 = pre) by (rewrite R, <- L; apply takeN_app_exact).
      assert (D : dropN (k + 4) name0 = rest).
      { rewrite R, app_assoc. replace (k + 4) with (lenN (pre ++ arrow)) by (rewrite lenN_app, L; reflexivity).
        apply dropN_app_exact. }
      rewrite T, D. reflexivity.
    + intros H; inversion H; subst p; clear H. cbn [p_name p_link]. exists q. rewrite app_nil_r. exact Q.
  - intros H; inversion H; subst p; clear H. cbn [p_name p_link]. exists q. rewrite app_nil_r. exact Q.
Qed.

(* ================================================================== *)
(* source-level facts regenerated from the program text                *)
(* ================================================================== *)
Lemma handlers_guarded :
  port_handler_guarded = true /\ eprt_handler_guarded = true /\
  tbuf_writes_are_sized_snprintf = true /\ 0 < tbuf_size /\ max_tokens <= tokens_capacity.
Proof. vm_compute. repeat split; discriminate. Qed.

Lemma parse_proto_nonempty ipf sanity buf : buf <> [] -> parse_proto_ip_port ipf sanity buf <> EPrecondition.
Proof.
  destruct buf as [|d s]; [congruence|]. intros _. unfold parse_proto_ip_port.
  destruct (strtol10 s) as [pl e].
  destruct (negb ((pl =? 1)%Z || (pl =? 2)%Z) || negb (head0 e =? d)); [discriminate|].
  destruct (find_first (fun c => c =? d) (dropN 1 e)) as [k|]; [|discriminate].
  destruct (max_ipstrlen <=? k); [discriminate|].
  destruct (is_any _); [discriminate|]. destruct (negb _); [discriminate|].
  destruct (strtol10 _) as [po e3]. destruct (_ || _); [discriminate|]. destruct (_ && _); discriminate.
Qed.
