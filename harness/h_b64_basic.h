#include <string>
static void basicSetup() {}
static std::string runBasic(bool, const std::string &) { return "null"; }
