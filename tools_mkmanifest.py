#!/usr/bin/env python3
"""Regenerates MANIFEST.json from the check modules present under checks/."""
import importlib, json, os, sys
here = os.path.dirname(os.path.abspath(__file__))
sys.path.insert(0, here)
props = [json.loads(l) for l in open(os.path.join(here, "properties.jsonl"))]
checks, na = [], []
pending_reason = json.load(open(os.path.join(here, "not_applicable.json")))
claimed = set(json.load(open(os.path.join(here, "claimed.json"))))
for p in props:
    pid = p["id"]
    modpath = os.path.join(here, "checks", pid.lower() + ".py")
    if pid in claimed and os.path.exists(modpath):
        m = importlib.import_module("checks." + pid.lower())
        meta = getattr(m, "META", {})
        checks.append({
            "property_id": pid,
            "quick_cmd": "./verif check %s --tier quick" % pid,
            "thorough_cmd": "./verif check %s --tier thorough" % pid,
            "evidence_file": "/verif/evidence/%s.json" % pid,
            "replay_cmd_template": "./verif replay {path}",
            "engine": "coq+correspondence",
            "level_claimed": {"category": "proof", "text": meta.get("text", ""), "design_ref": "DESIGN.md section 5, " + pid},
            "level_note": meta.get("note", ""),
            "technique": meta.get("technique", "machine-checked proof in Coq 8.16.1 of an executable model + differential correspondence of the extracted model against the code"),
        })
    else:
        na.append({"property_id": pid, "reason": pending_reason.get(pid, "no check built yet in this development (planned in DESIGN.md section 5); not claimed")})
mf = {
    "version": 1,
    "setup_cmd": "./verif setup",
    "hooks": {"guard": "SQUID_VERIF",
              "enable": "-DSQUID_VERIF is defined for every harness translation unit; there is no guarded code in /repo (private members are reached from harness units, atomics substituted at compile time)",
              "baseline_off_cmd": "make -C /repo -k check",
              "source_commits": [], "add_only": True},
    "engines": [{"name": "coq+correspondence", "path": "/verif/verif",
                 "serves_properties": [c["property_id"] for c in checks],
                 "kind_free_text": "Coq 8.16.1 theorems about executable Gallina models (coq/), tables regenerated from /repo on every run (gen/), models extracted to OCaml (ml/runner.ml) and diffed against C++ harnesses compiled from /repo's working tree (harness/)"}],
    "checks": checks,
    "not_applicable": na,
    "notes": "See DESIGN.md. Every check: P = regenerate tables + recompile Properties_<id>.v; C = correspondence; S = oracle search on the implementation.",
}
json.dump(mf, open(os.path.join(here, "MANIFEST.json"), "w"), indent=1)
print("checks:", len(checks), "not_applicable:", len(na))
