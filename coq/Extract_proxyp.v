(* Extract_proxyp.v — extraction of the PROXY protocol / BinaryTokenizer models (C38).
   Only ExtrOcamlBasic is used; N, Z, positive and nat stay the extracted Coq datatypes. *)
Require Import ExtrOcamlBasic.
Require Import SquidV.Bytes SquidV.TokModel SquidV.ProxypModel.
Extraction "m_proxyp.ml"
  lenN pp_parse pp_parse_prefixes header_get_values has_forwarded_addresses address_family
  bt_uint8 bt_uint16 bt_uint24 bt_uint32 bt_area bt_skip bt_pstring8 bt_pstring16 bt_pstring24
  bt_inet4 bt_inet6 bt_atEnd.
