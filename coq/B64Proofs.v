(* B64Proofs.v — specifications and proofs for the base64 / Basic-credential model (C36). *)
Require Import SquidV.Bytes SquidV.B64Model.
Require Import SquidV.gen.Base64_gen.
Require Import ZifyBool ZifyN ZifyNat.
Ltac Zify.zify_post_hook ::= Z.div_mod_to_equations.
Local Open Scope N_scope.

(* ================================================================== *)
(* 1. The specification side: RFC 4648 section 4, written from the RFC  *)

(* "ABCDEFGHIJKLMNOPQRSTUVWXYZabcdefghijklmnopqrstuvwxyz0123456789+/" *)
Definition rfc4648_alphabet : list N :=
  [65;66;67;68;69;70;71;72;73;74;75;76;77;78;79;80;81;82;83;84;85;86;87;88;89;90;
   97;98;99;100;101;102;103;104;105;106;107;108;109;110;111;112;113;114;115;116;117;118;119;120;121;122;
   48;49;50;51;52;53;54;55;56;57;43;47].

(* symbol for a 6-bit value *)
Definition E (i : N) : N := tbl_get 0 rfc4648_alphabet i.

(* the encoding: 3 bytes -> 4 symbols, final 1 or 2 bytes zero-extended and padded with '=' *)
Fixpoint enc_spec (l : bytes) : bytes :=
  match l with
  | [] => []
  | [a] => [E (a / 4); E ((a mod 4) * 16); PAD; PAD]
  | [a; b] => [E (a / 4); E ((a mod 4) * 16 + b / 16); E ((b mod 16) * 4); PAD]
  | a :: b :: c :: r =>
      E (a / 4) :: E ((a mod 4) * 16 + b / 16) :: E ((b mod 16) * 4 + c / 64) :: E (c mod 64) :: enc_spec r
  end.

Definition is_byte (b : N) : bool := b <? 256.
Definition all_bytes_ok (l : bytes) : Prop := forallb is_byte l = true.

(* white space the decoder skips: HT LF VT FF CR SP *)
Definition b64_ws (c : N) : bool := ((9 <=? c) && (c <=? 13)) || (c =? 32).
Definition strip_ws (l : bytes) : bytes := filter (fun c => negb (b64_ws c)) l.

(* ================================================================== *)
(* 2. generic helpers                                                    *)

Lemma list_ind3 {A} (P : list A -> Prop) :
  P [] -> (forall a, P [a]) -> (forall a b, P [a; b]) ->
  (forall a b c r, P r -> P (a :: b :: c :: r)) -> forall l, P l.
Proof.
  intros H0 H1 H2 H3.
  assert (G : forall l, P l /\ (forall a, P (a :: l)) /\ (forall a b, P (a :: b :: l))).
  { induction l as [|x l [IH0 [IH1 IH2]]]; [repeat split; auto|].
    repeat split; auto. }
  intros l; apply G.
Qed.

Lemma forallb_app_iff {A} (p : A -> bool) a b :
  forallb p (a ++ b) = true <-> forallb p a = true /\ forallb p b = true.
Proof. rewrite forallb_app, andb_true_iff. tauto. Qed.

Lemma lenN_rev {A} (l : list A) : lenN (rev l) = lenN l.
Proof. rewrite !lenN_length, rev_length. reflexivity. Qed.

Lemma lenN_dropN {A} n (l : list A) : lenN (dropN n l) = lenN l - n.
Proof.
  revert n; induction l as [|x l IH]; intros n; cbn [dropN lenN]; [lia|].
  destruct (n =? 0) eqn:En; cbn [lenN]; [apply N.eqb_eq in En; lia|].
  apply N.eqb_neq in En. rewrite IH. lia.
Qed.

Lemma forallb_takeN {A} (p : A -> bool) n l : forallb p l = true -> forallb p (takeN n l) = true.
Proof.
  revert n; induction l as [|x l IH]; intros n H; cbn [takeN]; [reflexivity|].
  cbn [forallb] in H. apply andb_true_iff in H as [Hx Hl].
  destruct (n =? 0); cbn [forallb]; [reflexivity|]. now rewrite Hx, IH.
Qed.

Lemma forallb_dropN {A} (p : A -> bool) n l : forallb p l = true -> forallb p (dropN n l) = true.
Proof.
  revert n; induction l as [|x l IH]; intros n H; cbn [dropN]; [reflexivity|].
  destruct (n =? 0); [exact H|]. cbn [forallb] in H. apply andb_true_iff in H as [_ Hl]. now apply IH.
Qed.

(* bit operations as arithmetic *)
Lemma land63 x : N.land 63 x = x mod 64.
Proof. rewrite N.land_comm. change 63 with (N.ones 6). rewrite N.land_ones. reflexivity. Qed.

Lemma land_shiftl_small a b n : b < 2 ^ n -> N.land (N.shiftl a n) b = 0.
Proof.
  intros H. apply N.bits_inj_0; intro m. rewrite N.land_spec.
  destruct (N.lt_ge_cases m n) as [Hm|Hm].
  - rewrite N.shiftl_spec_low by exact Hm. reflexivity.
  - replace b with (b mod 2 ^ n) by (apply N.mod_small; exact H).
    rewrite N.mod_pow2_bits_high by exact Hm. apply andb_false_r.
Qed.

Lemma lor_shiftl_add a b n : b < 2 ^ n -> N.lor (N.shiftl a n) b = a * 2 ^ n + b.
Proof.
  intros H. rewrite <- N.lxor_lor by (apply land_shiftl_small; exact H).
  rewrite <- N.add_nocarry_lxor by (apply land_shiftl_small; exact H).
  rewrite N.shiftl_mul_pow2. reflexivity.
Qed.

Lemma enc_tbl_is_rfc : b64_enc_tbl = rfc4648_alphabet.
Proof. vm_compute. reflexivity. Qed.

Lemma ENC_E x : ENC x = E (x mod 64).
Proof. unfold ENC, E. rewrite land63, enc_tbl_is_rfc. reflexivity. Qed.

Ltac pow2 :=
  change (2 ^ 1) with 2 in *; change (2 ^ 2) with 4 in *; change (2 ^ 4) with 16 in *;
  change (2 ^ 6) with 64 in *; change (2 ^ 8) with 256 in *; change (2 ^ 0) with 1 in *.

Ltac eqE := match goal with |- E _ = E _ => apply f_equal; lia | |- _ => reflexivity end.
Ltac list_E := repeat (apply f_equal2; [eqE|]); try reflexivity.

Lemma byte_lt b : is_byte b = true -> b < 256.
Proof. unfold is_byte. lia. Qed.

(* ================================================================== *)
(* 3. encode_raw is the RFC encoding                                     *)

Definition grp (a b c : N) : bytes :=
  [E (a / 4); E ((a mod 4) * 16 + b / 16); E ((b mod 16) * 4 + c / 64); E (c mod 64)].

Lemma enc_spec_cons3 a b c r : enc_spec (a :: b :: c :: r) = grp a b c ++ enc_spec r.
Proof. reflexivity. Qed.

Lemma enc_spec_app3 x y : lenN x mod 3 = 0 -> enc_spec (x ++ y) = enc_spec x ++ enc_spec y.
Proof.
  revert x. apply (list_ind3 (fun x => lenN x mod 3 = 0 -> enc_spec (x ++ y) = enc_spec x ++ enc_spec y)).
  - reflexivity.
  - intros a H. cbn [lenN] in H. discriminate H.
  - intros a b H. cbn [lenN] in H. discriminate H.
  - intros a b c r IH H. cbn [lenN] in H.
    change ((a :: b :: c :: r) ++ y) with (a :: b :: c :: (r ++ y)).
    rewrite !enc_spec_cons3, IH, app_assoc; [reflexivity|]. lia.
Qed.

Lemma raw_group a b c : a < 256 -> b < 256 -> c < 256 ->
  [ENC (N.shiftr a 2); ENC (N.lor (N.shiftl a 4) (N.shiftr b 4));
   ENC (N.lor (N.shiftl b 2) (N.shiftr c 6)); ENC c] = grp a b c.
Proof.
  intros Ha Hb Hc. unfold grp. rewrite !ENC_E.
  rewrite !N.shiftr_div_pow2.
  rewrite (lor_shiftl_add a (b / 2 ^ 4) 4) by (pow2; lia).
  rewrite (lor_shiftl_add b (c / 2 ^ 6) 2) by (pow2; lia).
  pow2.
  list_E.
Qed.

Lemma raw_loop_spec r : forallb is_byte r = true -> lenN r mod 3 = 0 ->
  forall acc, raw_loop r acc = enc_spec (rev r) ++ acc.
Proof.
  revert r. apply (list_ind3 (fun r => forallb is_byte r = true -> lenN r mod 3 = 0 ->
                                 forall acc, raw_loop r acc = enc_spec (rev r) ++ acc)).
  - reflexivity.
  - intros a _ H. cbn [lenN] in H. discriminate H.
  - intros a b _ H. cbn [lenN] in H. discriminate H.
  - intros c b a r IH Hb Hl acc. cbn [lenN] in Hl.
    cbn [forallb] in Hb. apply andb_true_iff in Hb as [Hc Hb]. apply andb_true_iff in Hb as [Hb' Hb].
    apply andb_true_iff in Hb as [Ha Hr].
    apply byte_lt in Hc, Hb', Ha.
    cbn [raw_loop]. rewrite IH by (try assumption; lia).
    cbn [rev]. rewrite <- !app_assoc. cbn [app].
    rewrite (enc_spec_app3 (rev r) [a; b; c]) by (rewrite lenN_rev; lia).
    cbn [enc_spec]. rewrite <- app_assoc.
    change (ENC (N.shiftr a 2) :: ENC (N.lor (N.shiftl a 4) (N.shiftr b 4))
             :: ENC (N.lor (N.shiftl b 2) (N.shiftr c 6)) :: ENC c :: acc)
      with ([ENC (N.shiftr a 2); ENC (N.lor (N.shiftl a 4) (N.shiftr b 4));
             ENC (N.lor (N.shiftl b 2) (N.shiftr c 6)); ENC c] ++ acc).
    rewrite raw_group by assumption. reflexivity.
Qed.

Lemma encode_raw_spec x : all_bytes_ok x -> encode_raw x = enc_spec x.
Proof.
  unfold all_bytes_ok. intros Hx. unfold encode_raw. rewrite <- rev_alt.
  assert (Hr : forallb is_byte (rev x) = true).
  { rewrite forallb_forall in *. intros y Hy. apply Hx. now apply in_rev. }
  assert (Hlen : lenN (rev x) = lenN x) by apply lenN_rev.
  destruct (lenN x mod 3 =? 0) eqn:E0.
  - rewrite raw_loop_spec by (try assumption; lia). rewrite rev_involutive, app_nil_r. reflexivity.
  - destruct (lenN x mod 3 =? 1) eqn:E1.
    + destruct (rev x) as [|i0 r'] eqn:Er.
      { cbn [lenN] in Hlen. rewrite <- Hlen in E0. discriminate E0. }
      cbn [forallb] in Hr. apply andb_true_iff in Hr as [H0 Hr]. apply byte_lt in H0.
      cbn [lenN] in Hlen.
      rewrite raw_loop_spec by (try assumption; lia).
      assert (Hx' : x = rev r' ++ [i0]).
      { rewrite <- (rev_involutive x), Er. reflexivity. }
      rewrite Hx'. rewrite enc_spec_app3 by (rewrite lenN_rev; lia).
      cbn [enc_spec]. rewrite !ENC_E, N.shiftr_div_pow2, N.shiftl_mul_pow2. pow2.
      list_E.
    + destruct (rev x) as [|i1 [|i0 r']] eqn:Er.
      { cbn [lenN] in Hlen. rewrite <- Hlen in E0. discriminate E0. }
      { cbn [lenN] in Hlen. rewrite <- Hlen in E1. discriminate E1. }
      cbn [forallb] in Hr. apply andb_true_iff in Hr as [H1 Hr]. apply andb_true_iff in Hr as [H0 Hr].
      apply byte_lt in H0, H1. cbn [lenN] in Hlen.
      rewrite raw_loop_spec by (try assumption; lia).
      assert (Hx' : x = rev r' ++ [i0; i1]).
      { rewrite <- (rev_involutive x), Er. cbn [rev]. rewrite <- app_assoc. reflexivity. }
      rewrite Hx'. rewrite enc_spec_app3 by (rewrite lenN_rev; lia).
      cbn [enc_spec]. rewrite !ENC_E, !N.shiftr_div_pow2.
      rewrite (lor_shiftl_add i0 (i1 / 2 ^ 4) 4) by (pow2; lia).
      rewrite N.shiftl_mul_pow2. pow2.
      list_E.
Qed.

(* ================================================================== *)
(* 4. the streaming encoder (encode_single / encode_update / encode_final) *)

(* specification of streaming: a state is (number of buffered bits, their value);
   each input byte emits one or two symbols *)
Definition sstep (st : N * N) (s : N) : bytes * (N * N) :=
  let '(bits, p) := st in
  if bits =? 0 then ([E (s / 4)], (2, s mod 4))
  else if bits =? 2 then ([E (p * 16 + s / 16)], (4, s mod 16))
  else ([E (p * 4 + s / 64); E (s mod 64)], (0, 0)).

Fixpoint ssteps (st : N * N) (l : bytes) : bytes * (N * N) :=
  match l with
  | [] => ([], st)
  | s :: r => let '(o, st1) := sstep st s in
              let '(o2, st2) := ssteps st1 r in (o ++ o2, st2)
  end.

Definition sfinal (st : N * N) : bytes :=
  let '(bits, p) := st in
  if bits =? 0 then [] else if bits =? 2 then [E (p * 16); PAD; PAD] else [E (p * 4); PAD].

Lemma ssteps_app st a b :
  ssteps st (a ++ b) =
  let '(o1, s1) := ssteps st a in let '(o2, s2) := ssteps s1 b in (o1 ++ o2, s2).
Proof.
  revert st; induction a as [|x a IH]; intros st; cbn [app ssteps].
  - destruct (ssteps st b). reflexivity.
  - destruct (sstep st x) as [o st1]. rewrite IH.
    destruct (ssteps st1 a) as [o1 s1]. destruct (ssteps s1 b) as [o2 s2].
    rewrite app_assoc. reflexivity.
Qed.

Lemma ssteps_triple a b c r :
  ssteps (0, 0) (a :: b :: c :: r) = let '(o, st) := ssteps (0, 0) r in (grp a b c ++ o, st).
Proof.
  cbn [ssteps]. unfold sstep at 1. change (0 =? 0) with true. cbv iota beta.
  unfold sstep at 1. change (2 =? 0) with false. change (2 =? 2) with true. cbv iota beta.
  unfold sstep at 1. change (4 =? 0) with false. change (4 =? 2) with false. cbv iota beta.
  destruct (ssteps (0, 0) r) as [o st]. reflexivity.
Qed.

Lemma ssteps_bulk l : lenN l mod 3 = 0 -> ssteps (0, 0) l = (enc_spec l, (0, 0)).
Proof.
  revert l. apply (list_ind3 (fun l => lenN l mod 3 = 0 -> ssteps (0, 0) l = (enc_spec l, (0, 0)))).
  - reflexivity.
  - intros a H. cbn [lenN] in H. discriminate H.
  - intros a b H. cbn [lenN] in H. discriminate H.
  - intros a b c r IH H. cbn [lenN] in H. rewrite ssteps_triple, IH by lia. reflexivity.
Qed.

Lemma enc_spec_ssteps l :
  enc_spec l = fst (ssteps (0, 0) l) ++ sfinal (snd (ssteps (0, 0) l)).
Proof.
  revert l. apply list_ind3.
  - reflexivity.
  - intros a. reflexivity.
  - intros a b. reflexivity.
  - intros a b c r IH. rewrite ssteps_triple. destruct (ssteps (0, 0) r) as [o st].
    cbn [fst snd] in *. rewrite enc_spec_cons3, IH, app_assoc. reflexivity.
Qed.

(* the C context seen abstractly; only the low e_bits bits of word matter *)
Definition eabs (c : ectx) : N * N := (e_bits c, e_word c mod 2 ^ e_bits c).
Definition evalid (c : ectx) : Prop := e_bits c = 0 \/ e_bits c = 2 \/ e_bits c = 4.

Lemma enc_emit_stop fuel w bits : bits < 6 -> enc_emit fuel w bits = ([], bits).
Proof.
  intros H. destruct fuel; cbn [enc_emit]; [reflexivity|].
  destruct (6 <=? bits) eqn:E6; [lia|reflexivity].
Qed.

Lemma enc_emit_go f w bits : 6 <= bits ->
  enc_emit (S f) w bits =
  let '(o, b) := enc_emit f w (bits - 6) in (ENC (N.shiftr w (bits - 6)) :: o, b).
Proof. intros H. cbn [enc_emit]. destruct (6 <=? bits) eqn:E6; [reflexivity|lia]. Qed.

(* the fuel handed to the while loop always suffices: it stops only when bits < 6 *)
Lemma enc_emit_fuel fuel w bits : (N.to_nat bits <= fuel)%nat -> snd (enc_emit fuel w bits) < 6.
Proof.
  revert bits; induction fuel as [|f IH]; intros bits H; cbn [enc_emit].
  - cbn [snd]. lia.
  - destruct (6 <=? bits) eqn:E6; [|cbn [snd]; lia].
    specialize (IH (bits - 6) ltac:(lia)). destruct (enc_emit f w (bits - 6)). exact IH.
Qed.

Lemma encode_single_sstep ctx s : evalid ctx -> s < 256 ->
  sstep (eabs ctx) s = (fst (encode_single ctx s), eabs (snd (encode_single ctx s))) /\
  evalid (snd (encode_single ctx s)).
Proof.
  destruct ctx as [w b]. unfold evalid, eabs. cbn [e_bits e_word].
  intros Hv Hs. unfold encode_single. cbn [e_bits e_word].
  rewrite (lor_shiftl_add w (s mod 256) 8) by (pow2; lia).
  destruct Hv as [-> | [-> | ->]].
  - change (0 + 8) with 8. change (N.to_nat 8) with 8%nat.
    rewrite enc_emit_go by lia. change (8 - 6) with 2. rewrite enc_emit_stop by lia.
    cbn [fst snd e_bits e_word]. change (2 mod 256) with 2. unfold sstep. change (0 =? 0) with true.
    cbv iota beta. rewrite ENC_E, N.shiftr_div_pow2. pow2. split; [|auto].
    f_equal; [list_E | f_equal; lia].
  - change (2 + 8) with 10. change (N.to_nat 10) with 10%nat.
    rewrite enc_emit_go by lia. change (10 - 6) with 4. rewrite enc_emit_stop by lia.
    cbn [fst snd e_bits e_word]. change (4 mod 256) with 4. unfold sstep.
    change (2 =? 0) with false. change (2 =? 2) with true.
    cbv iota beta. rewrite ENC_E, N.shiftr_div_pow2. pow2. split; [|auto].
    f_equal; [list_E | f_equal; lia].
  - change (4 + 8) with 12. change (N.to_nat 12) with 12%nat.
    rewrite enc_emit_go by lia. change (12 - 6) with 6.
    rewrite enc_emit_go by lia. change (6 - 6) with 0. rewrite enc_emit_stop by lia.
    cbn [fst snd e_bits e_word]. change (0 mod 256) with 0. unfold sstep.
    change (4 =? 0) with false. change (4 =? 2) with false.
    cbv iota beta. rewrite !ENC_E, !N.shiftr_div_pow2. pow2. split; [|auto].
    f_equal; [list_E | f_equal; lia].
Qed.

Lemma enc_singles_ssteps src : forall ctx, evalid ctx -> forallb is_byte src = true ->
  ssteps (eabs ctx) src = (fst (enc_singles ctx src), eabs (snd (enc_singles ctx src))) /\
  evalid (snd (enc_singles ctx src)).
Proof.
  induction src as [|s r IH]; intros ctx Hv Hb; cbn [enc_singles ssteps].
  - split; [reflexivity|exact Hv].
  - cbn [forallb] in Hb. apply andb_true_iff in Hb as [Hs Hr]. apply byte_lt in Hs.
    destruct (encode_single_sstep ctx s Hv Hs) as [H1 Hv1].
    destruct (encode_single ctx s) as [o c1]. cbn [fst snd] in *.
    rewrite H1. destruct (IH c1 Hv1 Hr) as [H2 Hv2].
    destruct (enc_singles c1 r) as [o2 c2]. cbn [fst snd] in *. rewrite H2. split; [reflexivity|exact Hv2].
Qed.

Lemma enc_phase1_ssteps src : forall ctx, evalid ctx -> forallb is_byte src = true ->
  let '(o, c1, rest) := enc_phase1 ctx src in
  exists pre, src = pre ++ rest /\ ssteps (eabs ctx) pre = (o, eabs c1) /\ evalid c1 /\
              (rest = [] \/ e_bits c1 = 0).
Proof.
  induction src as [|s r IH]; intros ctx Hv Hb; cbn [enc_phase1].
  - exists []. repeat split; auto.
  - destruct (e_bits ctx =? 0) eqn:E0.
    + exists []. repeat split; auto. right. apply N.eqb_eq. exact E0.
    + cbn [forallb] in Hb. apply andb_true_iff in Hb as [Hs Hr]. apply byte_lt in Hs.
      destruct (encode_single_sstep ctx s Hv Hs) as [H1 Hv1].
      destruct (encode_single ctx s) as [o c1]. cbn [fst snd] in *.
      specialize (IH c1 Hv1 Hr). destruct (enc_phase1 c1 r) as [[o2 c2] rest].
      destruct IH as [pre [Hsrc [Hst [Hv2 Hor]]]].
      exists (s :: pre). repeat split; auto.
      * rewrite Hsrc. reflexivity.
      * cbn [ssteps]. rewrite H1, Hst. reflexivity.
Qed.

Lemma lenN_takeN_le {A} n (l : list A) : n <= lenN l -> lenN (takeN n l) = n.
Proof. intros H. rewrite lenN_takeN. lia. Qed.

(* one base64_encode_update call = the streaming specification on that chunk *)
Lemma encode_update_ssteps ctx src : evalid ctx -> forallb is_byte src = true ->
  ssteps (eabs ctx) src = (fst (encode_update ctx src), eabs (snd (encode_update ctx src))) /\
  evalid (snd (encode_update ctx src)).
Proof.
  intros Hv Hb. unfold encode_update.
  pose proof (enc_phase1_ssteps src ctx Hv Hb) as H1.
  destruct (enc_phase1 ctx src) as [[o1 c1] rest].
  destruct H1 as [pre [Hsrc [Hst [Hv1 Hor]]]].
  assert (Hbr : forallb is_byte rest = true).
  { rewrite Hsrc in Hb. apply forallb_app_iff in Hb. tauto. }
  set (bulk := lenN rest - lenN rest mod 3).
  assert (Hbulk : bulk <= lenN rest) by (unfold bulk; lia).
  assert (Hb3 : bulk mod 3 = 0) by (unfold bulk; lia).
  pose proof (enc_singles_ssteps (dropN bulk rest) c1 Hv1 (forallb_dropN _ _ _ Hbr)) as [H3 Hv3].
  destruct (enc_singles c1 (dropN bulk rest)) as [o3 c3]. cbn [fst snd] in *.
  split; [|exact Hv3].
  rewrite Hsrc, ssteps_app, Hst.
  rewrite <- (takeN_dropN bulk rest) at 1. rewrite ssteps_app.
  destruct Hor as [Hnil | Hz].
  - (* the whole chunk went through single-byte steps *)
    subst rest. cbn [lenN] in *. assert (bulk = 0) by lia. subst bulk.
    replace (lenN (@nil N) - lenN (@nil N) mod 3 =? 0) with true in * by reflexivity.
    cbn [takeN dropN ssteps] in *.
    assert (Ho : o3 = []) by congruence. assert (Ha : eabs c3 = eabs c1) by congruence.
    rewrite Ho, Ha. reflexivity.
  - (* no buffered bits: bulk through encode_raw *)
    assert (Ha : eabs c1 = (0, 0)).
    { unfold eabs. rewrite Hz. change (2 ^ 0) with 1. rewrite N.mod_1_r. reflexivity. }
    rewrite Ha in *.
    rewrite ssteps_bulk by (rewrite lenN_takeN_le; assumption).
    rewrite H3. f_equal. f_equal.
    destruct (bulk =? 0) eqn:Eb.
    + apply N.eqb_eq in Eb. rewrite Eb. destruct rest; reflexivity.
    + rewrite encode_raw_spec; [reflexivity|]. apply forallb_takeN. exact Hbr.
Qed.

Lemma encode_final_sfinal ctx : evalid ctx -> fst (encode_final ctx) = sfinal (eabs ctx).
Proof.
  destruct ctx as [w b]. unfold evalid, eabs, encode_final, sfinal. cbn [e_bits e_word].
  intros [-> | [-> | ->]].
  - reflexivity.
  - change (2 =? 0) with false. change (2 =? 2) with true. cbv iota. cbn [fst pad_loop].
    change (2 <? 6) with true. change (2 + 2) with 4. change (4 <? 6) with true. change (4 + 2) with 6.
    change (6 <? 6) with false. cbv iota. change (6 - 2) with 4.
    rewrite ENC_E, N.shiftl_mul_pow2. pow2. list_E.
  - change (4 =? 0) with false. change (4 =? 2) with false. cbv iota. cbn [fst pad_loop].
    change (4 <? 6) with true. change (4 + 2) with 6. change (6 <? 6) with false. cbv iota.
    change (6 - 4) with 2. rewrite ENC_E, N.shiftl_mul_pow2. pow2. list_E.
Qed.

Lemma encode_chunks_ssteps chunks : forall ctx, evalid ctx -> forallb is_byte (concat chunks) = true ->
  encode_chunks ctx chunks =
  fst (ssteps (eabs ctx) (concat chunks)) ++ sfinal (snd (ssteps (eabs ctx) (concat chunks))).
Proof.
  induction chunks as [|s r IH]; intros ctx Hv Hb; cbn [encode_chunks concat].
  - cbn [ssteps fst snd app]. apply encode_final_sfinal. exact Hv.
  - apply forallb_app_iff in Hb as [Hs Hr].
    destruct (encode_update_ssteps ctx s Hv Hs) as [H1 Hv1].
    destruct (encode_update ctx s) as [o c1]. cbn [fst snd] in *.
    rewrite ssteps_app, H1, (IH c1 Hv1 Hr).
    destruct (ssteps (eabs c1) (concat r)) as [o2 s2]. cbn [fst snd]. rewrite app_assoc. reflexivity.
Qed.

(* T: whatever way the input is cut into base64_encode_update calls, update*;final produces the
   RFC 4648 encoding of the whole input *)
Theorem encode_chunks_spec chunks : all_bytes_ok (concat chunks) ->
  encode_chunks ectx_init chunks = enc_spec (concat chunks).
Proof.
  intros Hb. rewrite encode_chunks_ssteps; [|left; reflexivity|exact Hb].
  change (eabs ectx_init) with (0, 0). symmetry. apply enc_spec_ssteps.
Qed.

Theorem b64_encode_spec x : all_bytes_ok x -> b64_encode x = enc_spec x.
Proof.
  intros Hb. unfold b64_encode. rewrite encode_chunks_spec; cbn [concat]; rewrite app_nil_r; auto.
Qed.

(* output length of one update call stays within BASE64_ENCODE_LENGTH (the assert at its end) *)
Lemma ssteps_len st l o st' : (fst st = 0 \/ fst st = 2 \/ fst st = 4) -> ssteps st l = (o, st') ->
  6 * lenN o + fst st' = fst st + 8 * lenN l /\ (fst st' = 0 \/ fst st' = 2 \/ fst st' = 4).
Proof.
  revert st o st'; induction l as [|s r IH]; intros [b p] o st' Hv H; cbn [ssteps] in H.
  - inversion H; subst. cbn [lenN fst] in *. split; [lia|exact Hv].
  - destruct (sstep (b, p) s) as [o1 st1] eqn:E1. destruct (ssteps st1 r) as [o2 st2] eqn:E2.
    inversion H; subst. cbn [fst] in Hv.
    assert (H1 : 6 * lenN o1 + fst st1 = b + 8 /\ (fst st1 = 0 \/ fst st1 = 2 \/ fst st1 = 4)).
    { unfold sstep in E1. destruct Hv as [-> | [-> | ->]].
      - change (0 =? 0) with true in E1. inversion E1; subst. cbn [lenN fst]. lia.
      - change (2 =? 0) with false in E1. change (2 =? 2) with true in E1. inversion E1; subst. cbn [lenN fst]. lia.
      - change (4 =? 0) with false in E1. change (4 =? 2) with false in E1. inversion E1; subst. cbn [lenN fst]. lia. }
    destruct H1 as [H1 Hv1]. destruct (IH st1 o2 st' Hv1 E2) as [H2 Hv2].
    rewrite lenN_app. cbn [lenN fst]. split; [lia|exact Hv2].
Qed.

Theorem encode_update_length ctx src : evalid ctx -> all_bytes_ok src ->
  lenN (fst (encode_update ctx src)) <= BASE64_ENCODE_LENGTH (lenN src).
Proof.
  intros Hv Hb. destruct (encode_update_ssteps ctx src Hv Hb) as [H _].
  apply ssteps_len in H; [|exact Hv]. cbn [fst eabs] in H. destruct H as [H Hv'].
  unfold BASE64_ENCODE_LENGTH. unfold evalid in Hv. lia.
Qed.

(* ================================================================== *)
(* 5. the decoder                                                        *)

(* Everything from here to the end of the section is proved once for both decoders:
   k = false: bundled lib/base64.cc of /repo HEAD;  k = true: the libnettle 3.8 decoder. *)
Section Decoder.
Variable k : bool.

(* reachable contexts: bits in {0,2,4,6}, 16-bit word, at most 3 padding characters seen *)
Definition dvalid (c : dctx) : Prop :=
  (d_bits c = 0 \/ d_bits c = 2 \/ d_bits c = 4 \/ d_bits c = 6) /\ d_word c < 65536 /\ d_pad c <= 3.

Lemma dvalid_init : dvalid dctx_init.
Proof. unfold dvalid, dctx_init; cbn. repeat split; auto; lia. Qed.

(* --- facts about the regenerated 256-entry decode table, each by a complete sweep --- *)
Lemma dec_lookup_mod c : dec_lookup (c mod 256) = dec_lookup c.
Proof. unfold dec_lookup. rewrite N.mod_mod by lia. reflexivity. Qed.

Lemma sweep256 (f : N -> bool) : forallb f all_bytes = true -> forall c, f (c mod 256) = true.
Proof. intros H c. apply forallb_bytes; [exact H|]. apply N.mod_lt. lia. Qed.

Lemma dec_tbl_range c : (-3 <= dec_lookup c < 64)%Z.
Proof.
  rewrite <- dec_lookup_mod.
  pose proof (sweep256 (fun c => ((-3 <=? dec_lookup c) && (dec_lookup c <? 64))%Z)
                ltac:(vm_compute; reflexivity) c) as H. cbv beta in H. lia.
Qed.

(* symbols decode to their value; '=' is TABLE_END *)
Lemma dec_E i : i < 64 -> dec_lookup (E i) = Z.of_N i.
Proof.
  intros Hi.
  pose proof (sweep256 (fun i => if i <? 64 then (dec_lookup (E i) =? Z.of_N i)%Z else true)
                ltac:(vm_compute; reflexivity) i) as H. cbv beta in H.
  rewrite N.mod_small in H by lia. destruct (i <? 64) eqn:E64; lia.
Qed.

Lemma dec_PAD : dec_lookup PAD = (-3)%Z.
Proof. vm_compute. reflexivity. Qed.

(* conversely: a byte with a non-negative table entry is the alphabet symbol of that value;
   entry -3 is only '='; entry -2 is exactly the six white space bytes *)
Lemma dec_data_inv c : c < 256 -> (0 <= dec_lookup c)%Z -> c = E (Z.to_N (dec_lookup c)).
Proof.
  intros Hc Hd.
  pose proof (sweep256 (fun c => if (0 <=? dec_lookup c)%Z then c =? E (Z.to_N (dec_lookup c)) else true)
                ltac:(vm_compute; reflexivity) c) as H. cbv beta in H.
  rewrite N.mod_small in H by lia. destruct (0 <=? dec_lookup c)%Z eqn:E0; lia.
Qed.

Lemma dec_end_inv c : c < 256 -> dec_lookup c = (-3)%Z -> c = PAD.
Proof.
  intros Hc Hd.
  pose proof (sweep256 (fun c => if (dec_lookup c =? -3)%Z then c =? PAD else true)
                ltac:(vm_compute; reflexivity) c) as H. cbv beta in H.
  rewrite N.mod_small in H by lia. destruct (dec_lookup c =? -3)%Z eqn:E0; lia.
Qed.

Lemma dec_ws_iff c : c < 256 -> (dec_lookup c = (-2)%Z <-> b64_ws c = true).
Proof.
  intros Hc.
  pose proof (sweep256 (fun c => Bool.eqb (dec_lookup c =? -2)%Z (b64_ws c))
                ltac:(vm_compute; reflexivity) c) as H. cbv beta in H.
  rewrite N.mod_small in H by lia. apply Bool.eqb_prop in H.
  destruct (b64_ws c); split; intros; try lia; try discriminate.
Qed.

(* --- decode_single in arithmetic form --- *)
Definition dstep (ctx : dctx) (c : N) : dctx * sres :=
  let d := dec_lookup c in
  if (d =? -1)%Z then (ctx, SErr)
  else if (d =? -2)%Z then (ctx, SNone)
  else if (d =? -3)%Z then
    if (d_bits ctx =? 0) || pad_full k (d_pad ctx) || negb (d_word ctx mod 2 ^ d_bits ctx =? 0) then (ctx, SErr)
    else (mkD (d_word ctx) (d_bits ctx - 2) (d_pad ctx + 1), SNone)
  else if negb (d_pad ctx =? 0) then (ctx, SErr)
  else let w := (d_word ctx * 64 + Z.to_N d) mod 65536 in
       if d_bits ctx =? 0 then (mkD w 6 0, SNone)
       else (mkD w (d_bits ctx - 2) 0, SByte ((w / 2 ^ (d_bits ctx - 2)) mod 256)).

Lemma decode_single_dstep ctx c : dvalid ctx -> decode_single k ctx c = dstep ctx c.
Proof.
  destruct ctx as [w b p]. unfold dvalid. cbn [d_bits d_word d_pad]. intros [Hb [Hw Hp]].
  unfold decode_single, dstep, TABLE_INVALID, TABLE_SPACE, TABLE_END. cbn [d_bits d_word d_pad].
  pose proof (dec_tbl_range c) as Hr. set (d := dec_lookup c) in *.
  destruct (d =? -1)%Z eqn:E1; [reflexivity|].
  destruct (d =? -2)%Z eqn:E2; [reflexivity|].
  destruct (d =? -3)%Z eqn:E3.
  - rewrite N.shiftl_1_l, N.sub_1_r, <- N.ones_equiv, N.land_ones.
    destruct (b =? 0) eqn:Eb; [reflexivity|]. destruct (pad_full k p) eqn:Ep; [reflexivity|]. cbn [orb].
    destruct (w mod 2 ^ b =? 0) eqn:Ew; cbn [negb]; [|reflexivity].
    f_equal. f_equal; lia.
  - replace ((0 <=? d) && (d <? 64))%Z with true by lia.
    destruct (p =? 0) eqn:Ep0; cbn [negb]; [|reflexivity].
    assert (p = 0) by lia. subst p.
    rewrite (lor_shiftl_add w (Z.to_N d) 6) by (pow2; lia). pow2.
    replace ((b + 6) mod 256) with (b + 6) by lia.
    destruct (b =? 0) eqn:Eb.
    + assert (b = 0) by lia. subst b. reflexivity.
    + replace (8 <=? b + 6) with true by lia.
      replace (b + 6 - 8) with (b - 2) by lia.
      rewrite N.shiftr_div_pow2. reflexivity.
Qed.

Lemma dstep_acct ctx c ctx' r : dvalid ctx -> dstep ctx c = (ctx', r) ->
  dvalid ctx' /\
  match r with
  | SByte b => d_bits ctx' + 8 = d_bits ctx + 6 /\ b < 256
  | SNone => d_bits ctx' <= d_bits ctx + 6
  | SErr => ctx' = ctx
  | SAbort => False
  end.
Proof.
  destruct ctx as [w b p]. unfold dvalid. cbn [d_bits d_word d_pad]. intros [Hb [Hw Hp]].
  unfold dstep. cbn [d_bits d_word d_pad].
  pose proof (dec_tbl_range c) as Hr. set (d := dec_lookup c) in *.
  destruct (d =? -1)%Z eqn:E1; [intros H; inversion H; subst; cbn; repeat split; auto|].
  destruct (d =? -2)%Z eqn:E2; [intros H; inversion H; subst; cbn; repeat split; auto; lia|].
  destruct (d =? -3)%Z eqn:E3.
  - destruct ((b =? 0) || pad_full k p || negb (w mod 2 ^ b =? 0)) eqn:Ec;
      intros H; inversion H; subst; cbn [d_bits d_word d_pad]; [repeat split; auto|].
    unfold pad_full in Ec. destruct k; repeat split; try lia.
  - destruct (negb (p =? 0)) eqn:Ep0; [intros H; inversion H; subst; cbn; repeat split; auto|].
    destruct (b =? 0) eqn:Eb; intros H; inversion H; subst; cbn [d_bits d_word d_pad].
    + repeat split; try lia; try (apply N.mod_lt; lia).
    + repeat split; try lia; try (apply N.mod_lt; lia).
Qed.

(* --- T: bytes stored by one decode_update call, accepted or not --- *)
Lemma decode_update_acct src : forall ctx ctx' u, dvalid ctx -> decode_update k ctx src = (ctx', u) ->
  dvalid ctx' /\ (forall w, u <> UAbort w) /\
  8 * lenN (uwritten u) + (match u with UOk _ => d_bits ctx' | _ => 0 end) <= d_bits ctx + 6 * lenN src.
Proof.
  induction src as [|c r IH]; intros ctx ctx' u Hv H; cbn [decode_update] in H.
  - inversion H; subst. split; [exact Hv|]. split; [intros ?; discriminate|]. cbn [uwritten lenN]. lia.
  - rewrite decode_single_dstep in H by exact Hv.
    destruct (dstep ctx c) as [c1 s] eqn:Es. destruct (dstep_acct ctx c c1 s Hv Es) as [Hv1 Hs].
    destruct s as [| |b|].
    + inversion H; subst. split; [exact Hv|]. split; [intros ?; discriminate|]. cbn [uwritten lenN]. lia.
    + destruct (IH c1 ctx' u Hv1 H) as [Hv' [Hna Hle]]. cbn [lenN].
      split; [exact Hv'|]. split; [exact Hna|]. lia.
    + destruct (decode_update k c1 r) as [c2 u2] eqn:E2. inversion H; subst.
      destruct (IH c1 ctx' u2 Hv1 E2) as [Hv' [Hna Hle]]. destruct Hs as [Hs _]. cbn [lenN].
      split; [exact Hv'|]. split.
      * intros w. destruct u2; cbn [ucons]; try discriminate. intros Hx. inversion Hx; subst.
        apply (Hna written). reflexivity.
      * destruct u2; cbn [ucons uwritten lenN] in *; lia.
    + destruct Hs.
Qed.

Theorem decode_update_bounded ctx src : dvalid ctx ->
  let '(ctx', u) := decode_update k ctx src in
  dvalid ctx' /\ (forall w, u <> UAbort w) /\ lenN (uwritten u) <= BASE64_DECODE_LENGTH (lenN src).
Proof.
  intros Hv. destruct (decode_update k ctx src) as [ctx' u] eqn:E.
  destruct (decode_update_acct src ctx ctx' u Hv E) as [Hv' [Hna Hle]].
  split; [exact Hv'|]. split; [exact Hna|]. unfold BASE64_DECODE_LENGTH.
  destruct Hv as [Hb _].
  assert (8 * lenN (uwritten u) <= 6 + 6 * lenN src) by (destruct u; lia).
  lia.
Qed.

(* --- decode_update over the arithmetic step --- *)
Fixpoint dupd (ctx : dctx) (src : bytes) : dctx * ures :=
  match src with
  | [] => (ctx, UOk [])
  | c :: r =>
    match dstep ctx c with
    | (ctx', SErr) => (ctx', UFail [])
    | (ctx', SAbort) => (ctx', UAbort [])
    | (ctx', SNone) => dupd ctx' r
    | (ctx', SByte b) => let '(c2, u) := dupd ctx' r in (c2, ucons b u)
    end
  end.

Lemma decode_update_dupd src : forall ctx, dvalid ctx -> decode_update k ctx src = dupd ctx src.
Proof.
  induction src as [|c r IH]; intros ctx Hv; cbn [decode_update dupd]; [reflexivity|].
  rewrite decode_single_dstep by exact Hv.
  destruct (dstep ctx c) as [c1 s] eqn:Es. destruct (dstep_acct ctx c c1 s Hv Es) as [Hv1 _].
  destruct s; try reflexivity; rewrite IH by exact Hv1; reflexivity.
Qed.

Lemma dstep_data0 w i : i < 64 ->
  dstep (mkD w 0 0) (E i) = (mkD ((w * 64 + i) mod 65536) 6 0, SNone).
Proof.
  intros Hi. unfold dstep. rewrite dec_E by exact Hi. cbn [d_bits d_word d_pad].
  replace (Z.of_N i =? -1)%Z with false by lia. replace (Z.of_N i =? -2)%Z with false by lia.
  replace (Z.of_N i =? -3)%Z with false by lia. rewrite N2Z.id. reflexivity.
Qed.

Lemma dstep_dataB w b i : i < 64 -> b <> 0 ->
  dstep (mkD w b 0) (E i) =
  (mkD ((w * 64 + i) mod 65536) (b - 2) 0, SByte ((((w * 64 + i) mod 65536) / 2 ^ (b - 2)) mod 256)).
Proof.
  intros Hi Hb. unfold dstep. rewrite dec_E by exact Hi. cbn [d_bits d_word d_pad].
  replace (Z.of_N i =? -1)%Z with false by lia. replace (Z.of_N i =? -2)%Z with false by lia.
  replace (Z.of_N i =? -3)%Z with false by lia. rewrite N2Z.id.
  replace (b =? 0) with false by lia. reflexivity.
Qed.

Lemma dstep_pad w b p : b <> 0 -> p <= 1 -> w mod 2 ^ b = 0 ->
  dstep (mkD w b p) PAD = (mkD w (b - 2) (p + 1), SNone).
Proof.
  intros Hb Hp Hw. unfold dstep. rewrite dec_PAD. cbn [d_bits d_word d_pad].
  change (-3 =? -1)%Z with false. change (-3 =? -2)%Z with false. change (-3 =? -3)%Z with true.
  rewrite Hw. replace (b =? 0) with false by lia.
  replace (pad_full k p) with false by (unfold pad_full; destruct k; lia). reflexivity.
Qed.

Lemma mod_chain x y : (x mod 65536 * 64 + y) mod 65536 = (x * 64 + y) mod 65536.
Proof. lia. Qed.

Definition q_word (w a b c : N) : N :=
  ((((w * 64 + a / 4) mod 65536 * 64 + (a mod 4 * 16 + b / 16)) mod 65536 * 64 +
    (b mod 16 * 4 + c / 64)) mod 65536 * 64 + c mod 64) mod 65536.

Lemma dupd_quartet w a b c rest : a < 256 -> b < 256 -> c < 256 ->
  exists w', dupd (mkD w 0 0) (grp a b c ++ rest) =
             let '(c2, u) := dupd (mkD w' 0 0) rest in (c2, ucons a (ucons b (ucons c u))).
Proof.
  intros Ha Hb Hc. unfold grp. cbn [app dupd].
  rewrite dstep_data0 by lia.
  rewrite dstep_dataB by lia. change (6 - 2) with 4.
  rewrite dstep_dataB by lia. change (4 - 2) with 2.
  rewrite dstep_dataB by lia. change (2 - 2) with 0.
  exists (q_word w a b c). unfold q_word. pow2.
  match goal with |- context [dupd ?st rest] => destruct (dupd st rest) as [c2 u] end.
  rewrite !mod_chain.
  f_equal. f_equal; [lia|]. f_equal; [lia|]. f_equal. lia.
Qed.

Lemma dupd_enc_spec x : forallb is_byte x = true ->
  forall w, exists c', dupd (mkD w 0 0) (enc_spec x) = (c', UOk x) /\ d_bits c' = 0.
Proof.
  revert x. apply (list_ind3 (fun x => forallb is_byte x = true ->
    forall w, exists c', dupd (mkD w 0 0) (enc_spec x) = (c', UOk x) /\ d_bits c' = 0)).
  - intros _ w. eexists. split; reflexivity.
  - intros a Hb w. cbn [forallb] in Hb. apply andb_true_iff in Hb as [Ha _]. apply byte_lt in Ha.
    cbn [enc_spec dupd].
    rewrite dstep_data0 by lia. rewrite dstep_dataB by lia. change (6 - 2) with 4.
    rewrite dstep_pad by (pow2; lia). change (4 - 2) with 2. change (0 + 1) with 1.
    rewrite dstep_pad by (pow2; lia). change (2 - 2) with 0.
    eexists. split; [cbn [ucons]; pow2; f_equal; f_equal; f_equal; lia | reflexivity].
  - intros a b Hb w. cbn [forallb] in Hb. apply andb_true_iff in Hb as [Ha Hb].
    apply andb_true_iff in Hb as [Hb _]. apply byte_lt in Ha, Hb.
    cbn [enc_spec dupd].
    rewrite dstep_data0 by lia. rewrite dstep_dataB by lia. change (6 - 2) with 4.
    rewrite dstep_dataB by lia. change (4 - 2) with 2.
    rewrite dstep_pad by (pow2; lia). change (2 - 2) with 0.
    eexists. split; [cbn [ucons]; pow2; f_equal; f_equal; f_equal; [lia|]; f_equal; lia | reflexivity].
  - intros a b c r IH Hb w. cbn [forallb] in Hb. apply andb_true_iff in Hb as [Ha Hb].
    apply andb_true_iff in Hb as [Hb Hc]. apply andb_true_iff in Hc as [Hc Hr]. apply byte_lt in Ha, Hb, Hc.
    rewrite enc_spec_cons3. destruct (dupd_quartet w a b c (enc_spec r) Ha Hb Hc) as [w' Hq].
    rewrite Hq. destruct (IH Hr w') as [c' [Hd Hz]]. rewrite Hd. eexists. split; [reflexivity|exact Hz].
Qed.

(* T: decoding the encoding returns the input exactly *)
Theorem decode_enc_spec x : all_bytes_ok x -> b64_decode k (enc_spec x) = Some x.
Proof.
  intros Hb. unfold b64_decode. rewrite decode_update_dupd by exact dvalid_init.
  destruct (dupd_enc_spec x Hb 0) as [c' [Hd Hz]]. unfold dctx_init. rewrite Hd.
  unfold decode_final. rewrite Hz. reflexivity.
Qed.

Theorem decode_encode_roundtrip x : all_bytes_ok x -> b64_decode k (b64_encode x) = Some x.
Proof. intros Hb. rewrite b64_encode_spec by exact Hb. apply decode_enc_spec. exact Hb. Qed.

Theorem decode_encode_raw_roundtrip x : all_bytes_ok x -> b64_decode k (encode_raw x) = Some x.
Proof. intros Hb. rewrite encode_raw_spec by exact Hb. apply decode_enc_spec. exact Hb. Qed.

(* ================================================================== *)
(* 6. regenerated constants agree with what the model assumes            *)

Definition upto64 : list N := map N.of_nat (seq 0 64).

Lemma nettle_tables_equal_bundled :
  nettle_enc_tbl = b64_enc_tbl /\ nettle_dec_tbl = b64_dec_tbl /\
  nettle_decode_length_samples = b64_decode_length_samples /\
  nettle_encode_length_samples = b64_encode_length_samples.
Proof. vm_compute. repeat split; reflexivity. Qed.

Lemma header_constants_match_model :
  b64_enc_tbl = rfc4648_alphabet /\ b64_enc_tbl_static = rfc4648_alphabet /\
  map BASE64_DECODE_LENGTH upto64 = b64_decode_length_samples /\
  map BASE64_ENCODE_LENGTH upto64 = b64_encode_length_samples /\
  map BASE64_ENCODE_RAW_LENGTH upto64 = b64_encode_raw_length_samples /\
  map base64_encode_len upto64 = b64_squid_encode_len_samples /\
  BASE64_ENCODE_FINAL_LENGTH = b64_encode_final_length /\
  b64_enc_word_bytes = 2 /\ b64_dec_word_bytes = 2 /\ b64_dec_bits_bytes = 1.
Proof. vm_compute. repeat split; reflexivity. Qed.

(* ================================================================== *)
(* 7. Basic credentials                                                  *)

Lemma span_app_stop {A} (p : A -> bool) a b :
  forallb p a = true -> match b with [] => True | y :: _ => p y = false end ->
  span p (a ++ b) = (a, b).
Proof.
  intros Ha Hb. induction a as [|x a IH]; cbn [app span].
  - destruct b as [|y b]; [reflexivity|]. cbn [span]. rewrite Hb. reflexivity.
  - cbn [forallb] in Ha. apply andb_true_iff in Ha as [Hx Ha]. rewrite Hx, (IH Ha). reflexivity.
Qed.

Lemma E_graph i : i < 64 -> xisgraph (E i) = true.
Proof.
  intros Hi.
  pose proof (sweep256 (fun i => if i <? 64 then xisgraph (E i) else true) ltac:(vm_compute; reflexivity) i) as H.
  cbv beta in H. rewrite N.mod_small in H by lia. replace (i <? 64) with true in H by lia. exact H.
Qed.

Lemma enc_spec_graph x : forallb is_byte x = true -> forallb xisgraph (enc_spec x) = true.
Proof.
  revert x. apply (list_ind3 (fun x => forallb is_byte x = true -> forallb xisgraph (enc_spec x) = true)).
  - reflexivity.
  - intros a Hb. cbn [forallb] in Hb. apply andb_true_iff in Hb as [Ha _]. apply byte_lt in Ha.
    cbn [enc_spec forallb]. rewrite !E_graph by lia. reflexivity.
  - intros a b Hb. cbn [forallb] in Hb. apply andb_true_iff in Hb as [Ha Hb].
    apply andb_true_iff in Hb as [Hb _]. apply byte_lt in Ha, Hb.
    cbn [enc_spec forallb]. rewrite !E_graph by lia. reflexivity.
  - intros a b c r IH Hb. cbn [forallb] in Hb. apply andb_true_iff in Hb as [Ha Hb].
    apply andb_true_iff in Hb as [Hb Hc]. apply andb_true_iff in Hc as [Hc Hr]. apply byte_lt in Ha, Hb, Hc.
    cbn [enc_spec forallb]. rewrite !E_graph by lia. rewrite IH by exact Hr. reflexivity.
Qed.

Lemma forallb_impl {A} (p q : A -> bool) l : (forall x, p x = true -> q x = true) ->
  forallb p l = true -> forallb q l = true.
Proof. intros H. rewrite !forallb_forall. intros Hl x Hx. apply H, Hl, Hx. Qed.

Lemma cstr_no_nul s t : forallb (fun c => negb (c =? 0)) s = true -> cstr (s ++ t) = s ++ cstr t.
Proof.
  intros Hs. unfold cstr. induction s as [|x s IH]; cbn [app span]; [reflexivity|].
  cbn [forallb] in Hs. apply andb_true_iff in Hs as [Hx Hs]. rewrite Hx.
  specialize (IH Hs). destruct (span (fun c : N => negb (c =? 0)) (s ++ t)) as [a b] eqn:E1.
  cbn [fst] in *. rewrite IH. reflexivity.
Qed.

Lemma cstr_id s : forallb (fun c => negb (c =? 0)) s = true -> cstr s = s.
Proof. intros Hs. rewrite <- (app_nil_r s) at 1. rewrite cstr_no_nul by exact Hs. cbn. apply app_nil_r. Qed.

Lemma enc_spec_nonempty x : x <> [] -> exists y r, enc_spec x = y :: r.
Proof.
  destruct x as [|a [|b [|c r]]]; intros H; [congruence| | |]; cbn [enc_spec]; eauto.
Qed.

(* user name = bytes before the first colon, password = bytes after it *)
Lemma basic_split_first_colon cs u p : ~ In 58 u ->
  basic_split cs (u ++ 58 :: p) =
  (if cs then u else map xtolower u, match p with [] => None | _ => Some p end).
Proof.
  intros Hu. unfold basic_split.
  rewrite (span_app_stop (fun c => negb (c =? 58)) u (58 :: p)).
  - reflexivity.
  - rewrite forallb_forall. intros x Hx. destruct (x =? 58) eqn:E; [|reflexivity].
    apply N.eqb_eq in E. subst x. contradiction.
  - reflexivity.
Qed.

Lemma basic_split_no_colon cs ct : ~ In 58 ct ->
  basic_split cs ct = (if cs then ct else map xtolower ct, None).
Proof.
  intros Hu. unfold basic_split. rewrite <- (app_nil_r ct) at 1.
  rewrite (span_app_stop (fun c => negb (c =? 58)) ct []).
  - reflexivity.
  - rewrite forallb_forall. intros x Hx. destruct (x =? 58) eqn:E; [|reflexivity].
    apply N.eqb_eq in E. subst x. contradiction.
  - exact I.
Qed.

(* a byte that makes decodeCleartext refuse the credentials: NUL (since 06c1c79), CR, LF *)
Definition cred_refused (c : N) : bool := (c =? 0) || (c =? 13) || (c =? 10).

Lemma existsb_false_forallb {A} (p : A -> bool) l :
  existsb p l = false -> forallb (fun c => negb (p c)) l = true.
Proof.
  induction l as [|x l IH]; cbn [existsb forallb]; [reflexivity|].
  intros H. apply orb_false_iff in H as [Hx Hl]. rewrite Hx, IH by exact Hl. reflexivity.
Qed.

(* the whole path through decodeCleartext and the split, for EVERY non-empty credential text:
   "<scheme> <white space> base64(clear) [LF anything]" is refused when clear contains NUL, CR or
   LF, and otherwise yields exactly the split of clear at its first colon *)
Theorem basic_decode_total cs scheme ws clear tail :
  forallb xisgraph scheme = true -> ws <> [] -> forallb xisspace ws = true ->
  all_bytes_ok clear -> clear <> [] ->
  (tail = [] \/ exists t, tail = 10 :: t) ->
  basic_decode k cs (scheme ++ ws ++ enc_spec clear ++ tail) =
  if existsb cred_refused clear then None else Some (basic_split cs clear).
Proof.
  intros Hs Hws0 Hws Hb Hne Ht. unfold all_bytes_ok in Hb.
  assert (Hg : forallb xisgraph (enc_spec clear) = true) by (apply enc_spec_graph; exact Hb).
  destruct (enc_spec_nonempty clear Hne) as [y [r Hy]].
  assert (Hyg : xisgraph y = true).
  { rewrite Hy in Hg. cbn [forallb] in Hg. apply andb_true_iff in Hg. tauto. }
  destruct ws as [|s0 ws']; [congruence|].
  assert (Hs0 : xisspace s0 = true) by (cbn [forallb] in Hws; apply andb_true_iff in Hws; tauto).
  unfold basic_decode, decodeCleartext.
  (* the header as a C string *)
  assert (Hcstr : cstr (scheme ++ (s0 :: ws') ++ enc_spec clear ++ tail) =
                  scheme ++ (s0 :: ws') ++ enc_spec clear ++ cstr tail).
  { rewrite !app_assoc. rewrite cstr_no_nul; [reflexivity|].
    rewrite !forallb_app. rewrite andb_true_iff; split; [rewrite andb_true_iff; split|].
    - revert Hs. apply forallb_impl. intros x. unfold xisgraph. lia.
    - revert Hws. apply forallb_impl. intros x. unfold xisspace. lia.
    - revert Hg. apply forallb_impl. intros x. unfold xisgraph. lia. }
  rewrite Hcstr.
  assert (Htail : cstr tail = [] \/ exists t', cstr tail = 10 :: t').
  { destruct Ht as [-> | [t ->]]; [left; reflexivity|right]. unfold cstr. cbn [span].
    change (negb (10 =? 0)) with true. cbv iota.
    destruct (span (fun c : N => negb (c =? 0)) t) as [a b]. cbn [fst]. eauto. }
  (* trim the scheme token *)
  rewrite (span_app_stop xisgraph scheme ((s0 :: ws') ++ enc_spec clear ++ cstr tail)); [|exact Hs|].
  2:{ cbn [app]. unfold xisgraph, xisspace in *. lia. }
  cbn [snd].
  (* trim white space *)
  rewrite (span_app_stop xisspace (s0 :: ws') (enc_spec clear ++ cstr tail)); [|exact Hws|].
  2:{ rewrite Hy. cbn [app]. unfold xisgraph, xisspace in *. lia. }
  cbn [snd].
  (* strtok(eek, "\n") *)
  assert (Hnl : forallb (fun c => negb (c =? 10)) (enc_spec clear) = true).
  { revert Hg. apply forallb_impl. intros x. unfold xisgraph. lia. }
  assert (Htok : strtok_nl_strlen (enc_spec clear ++ cstr tail) = enc_spec clear).
  { unfold strtok_nl_strlen. rewrite Hy at 1. cbn [app span].
    replace (y =? 10) with false by (unfold xisgraph in Hyg; lia).
    cbn [app]. change (y :: r ++ cstr tail) with ((y :: r) ++ cstr tail). rewrite <- Hy.
    rewrite (span_app_stop (fun c => negb (c =? 10)) (enc_spec clear) (cstr tail)); [reflexivity|exact Hnl|].
    destruct Htail as [-> | [t' ->]]; [exact I|reflexivity]. }
  rewrite Htok.
  rewrite decode_enc_spec by exact Hb.
  (* the NUL test, then the CR/LF test on the C string *)
  destruct (existsb (fun c : N => c =? 0) clear) eqn:Enul.
  - replace (existsb cred_refused clear) with true; [reflexivity|].
    symmetry. apply existsb_exists in Enul as [x [Hin Hx]]. apply existsb_exists. exists x.
    split; [exact Hin|]. unfold cred_refused. rewrite Hx. reflexivity.
  - rewrite cstr_id by (apply existsb_false_forallb; exact Enul).
    assert (Heq : existsb cred_refused clear = existsb (fun c : N => (c =? 13) || (c =? 10)) clear).
    { clear - Enul. induction clear as [|x l IH]; [reflexivity|]. cbn [existsb] in *.
      apply orb_false_iff in Enul as [Hx Hl]. rewrite IH by exact Hl. unfold cred_refused. rewrite Hx. reflexivity. }
    rewrite Heq. destruct (existsb (fun c : N => (c =? 13) || (c =? 10)) clear); reflexivity.
Qed.

(* "Basic credentials decode to the user name before the first colon and the password after it",
   with no restriction on the bytes of user name and password *)
Theorem basic_credentials cs scheme ws u p tail :
  forallb xisgraph scheme = true -> ws <> [] -> forallb xisspace ws = true ->
  all_bytes_ok (u ++ 58 :: p) -> ~ In 58 u ->
  (tail = [] \/ exists t, tail = 10 :: t) ->
  basic_decode k cs (scheme ++ ws ++ enc_spec (u ++ 58 :: p) ++ tail) =
  if existsb cred_refused (u ++ 58 :: p) then None
  else Some (if cs then u else map xtolower u, match p with [] => None | _ => Some p end).
Proof.
  intros Hs Hws0 Hws Hb Hu Ht.
  rewrite basic_decode_total; try assumption; [|destruct u; discriminate].
  rewrite basic_split_first_colon by exact Hu. reflexivity.
Qed.

Theorem basic_nul_refused cs scheme ws clear tail :
  forallb xisgraph scheme = true -> ws <> [] -> forallb xisspace ws = true ->
  all_bytes_ok clear -> In 0 clear ->
  (tail = [] \/ exists t, tail = 10 :: t) ->
  basic_decode k cs (scheme ++ ws ++ enc_spec clear ++ tail) = None.
Proof.
  intros Hs Hws0 Hws Hb Hin Ht.
  rewrite basic_decode_total; try assumption; [|destruct clear; [destruct Hin|discriminate]].
  replace (existsb cred_refused clear) with true; [reflexivity|].
  symmetry. apply existsb_exists. exists 0. split; [exact Hin|reflexivity].
Qed.

(* ================================================================== *)
(* 8. decoding: segmentation independence and white space               *)

Definition uapp (o : bytes) (u : ures) : ures :=
  match u with UOk o2 => UOk (o ++ o2) | UFail w => UFail (o ++ w) | UAbort w => UAbort (o ++ w) end.

Lemma uapp_nil u : uapp [] u = u.
Proof. destruct u; reflexivity. Qed.

Lemma ucons_uapp b o u : ucons b (uapp o u) = uapp (b :: o) u.
Proof. destruct u; reflexivity. Qed.

Lemma dupd_app a : forall ctx b,
  dupd ctx (a ++ b) =
  match dupd ctx a with
  | (c1, UOk o1) => let '(c2, u) := dupd c1 b in (c2, uapp o1 u)
  | other => other
  end.
Proof.
  induction a as [|x a IH]; intros ctx b; cbn [app dupd].
  - destruct (dupd ctx b) as [c2 u]. rewrite uapp_nil. reflexivity.
  - destruct (dstep ctx x) as [c1 s]. destruct s as [| |y|]; try reflexivity.
    + apply IH.
    + rewrite IH. destruct (dupd c1 a) as [c2 u]. destruct u as [o|w|w]; cbn [ucons]; try reflexivity.
      destruct (dupd c2 b) as [c3 u3]. rewrite ucons_uapp. reflexivity.
Qed.

Definition dres_of (acc : bytes) (r : dctx * ures) : dres :=
  match r with
  | (c, UOk o) => if decode_final c then DOk (acc ++ o) else DTrunc (acc ++ o)
  | (_, UFail w) => DRej (acc ++ w)
  | (_, UAbort _) => DAbort
  end.

(* T: the outcome of init; update*; final -- including the bytes stored before a rejection --
   depends only on the concatenation of the chunks *)
Theorem decode_chunks_concat chunks : forall ctx acc, dvalid ctx ->
  decode_chunks k ctx chunks acc = dres_of acc (decode_update k ctx (concat chunks)).
Proof.
  induction chunks as [|s r IH]; intros ctx acc Hv; cbn [decode_chunks concat].
  - cbn [decode_update dres_of]. rewrite app_nil_r. reflexivity.
  - destruct (decode_update k ctx s) as [c1 u1] eqn:E1.
    pose proof (decode_update_acct s ctx c1 u1 Hv E1) as [Hv1 [Hna _]].
    rewrite (decode_update_dupd (s ++ concat r)) by exact Hv. rewrite dupd_app.
    rewrite <- (decode_update_dupd s) by exact Hv. rewrite E1.
    destruct u1 as [o1|w1|w1].
    + rewrite IH by exact Hv1. rewrite (decode_update_dupd (concat r)) by exact Hv1.
      destruct (dupd c1 (concat r)) as [c2 u2]. destruct u2; cbn [uapp dres_of]; rewrite ?app_assoc; reflexivity.
    + reflexivity.
    + reflexivity.
Qed.

Lemma dupd_strip_ws src : forallb is_byte src = true -> forall ctx, dupd ctx src = dupd ctx (strip_ws src).
Proof.
  induction src as [|c r IH]; intros Hb ctx; [reflexivity|].
  cbn [forallb] in Hb. apply andb_true_iff in Hb as [Hc Hr]. apply byte_lt in Hc.
  unfold strip_ws. cbn [filter]. fold (strip_ws r).
  destruct (b64_ws c) eqn:Ew; cbn [negb].
  - cbn [dupd]. unfold dstep. apply (dec_ws_iff c Hc) in Ew. rewrite Ew.
    change (-2 =? -1)%Z with false. change (-2 =? -2)%Z with true. cbv iota. apply IH. exact Hr.
  - cbn [dupd]. destruct (dstep ctx c) as [c1 s]. destruct s; try reflexivity; rewrite IH by exact Hr; reflexivity.
Qed.

(* T: any cutting of any white-space-interleaved RFC 4648 encoding of x decodes to exactly x *)
Theorem decode_wellformed_any_segmentation chunks x :
  all_bytes_ok x -> all_bytes_ok (concat chunks) -> strip_ws (concat chunks) = enc_spec x ->
  decode_chunks k dctx_init chunks [] = DOk x.
Proof.
  intros Hx Hc Hs. rewrite decode_chunks_concat by exact dvalid_init.
  rewrite decode_update_dupd by exact dvalid_init. rewrite dupd_strip_ws by exact Hc. rewrite Hs.
  destruct (dupd_enc_spec x Hx 0) as [c' [Hd Hz]]. unfold dctx_init. rewrite Hd.
  cbn [dres_of]. unfold decode_final. rewrite Hz. reflexivity.
Qed.

(* ================================================================== *)
(* 9. exactly which inputs are accepted                                  *)

Definition A3 : bytes := [65; 61; 61; 61].  (* "A===" *)

Lemma dstep_inv ctx c : c < 256 -> b64_ws c = false ->
  (exists d, d < 64 /\ c = E d /\ d_pad ctx = 0 /\
     dstep ctx c = if d_bits ctx =? 0 then (mkD ((d_word ctx * 64 + d) mod 65536) 6 0, SNone)
                   else (mkD ((d_word ctx * 64 + d) mod 65536) (d_bits ctx - 2) 0,
                         SByte ((((d_word ctx * 64 + d) mod 65536) / 2 ^ (d_bits ctx - 2)) mod 256)))
  \/ (c = PAD /\ d_bits ctx <> 0 /\ pad_full k (d_pad ctx) = false /\ d_word ctx mod 2 ^ d_bits ctx = 0 /\
      dstep ctx c = (mkD (d_word ctx) (d_bits ctx - 2) (d_pad ctx + 1), SNone))
  \/ dstep ctx c = (ctx, SErr).
Proof.
  intros Hc Hws. unfold dstep.
  pose proof (dec_tbl_range c) as Hr. pose proof (dec_ws_iff c Hc) as Hwi.
  destruct (dec_lookup c =? -1)%Z eqn:E1; [right; right; reflexivity|].
  destruct (dec_lookup c =? -2)%Z eqn:E2.
  { exfalso. assert (b64_ws c = true) by (apply Hwi; lia). congruence. }
  destruct (dec_lookup c =? -3)%Z eqn:E3.
  - destruct ((d_bits ctx =? 0) || pad_full k (d_pad ctx) || negb (d_word ctx mod 2 ^ d_bits ctx =? 0)) eqn:Ec;
      [right; right; reflexivity|].
    right; left. apply orb_false_iff in Ec as [Ec Ew]. apply orb_false_iff in Ec as [Eb Ep].
    apply negb_false_iff, N.eqb_eq in Ew. apply N.eqb_neq in Eb.
    repeat split; auto. apply dec_end_inv; [exact Hc|lia].
  - destruct (negb (d_pad ctx =? 0)) eqn:Ep; [right; right; reflexivity|].
    left. exists (Z.to_N (dec_lookup c)). apply negb_false_iff, N.eqb_eq in Ep.
    repeat split; auto; [lia|apply dec_data_inv; [exact Hc|lia]].
Qed.

Lemma ucons_ok_inv (c2 : dctx) b u (c' : dctx) o : (c2, ucons b u) = (c', UOk o) ->
  c2 = c' /\ exists o2, u = UOk o2 /\ o = b :: o2.
Proof. destruct u; cbn [ucons]; intros H; inversion H; subst. eauto. Qed.

Lemma dupd_cons_inv ctx c r c' o : c < 256 -> b64_ws c = false -> dupd ctx (c :: r) = (c', UOk o) ->
  (exists d, d < 64 /\ c = E d /\ d_pad ctx = 0 /\ d_bits ctx = 0 /\
     dupd (mkD ((d_word ctx * 64 + d) mod 65536) 6 0) r = (c', UOk o))
  \/ (exists d o2, d < 64 /\ c = E d /\ d_pad ctx = 0 /\ d_bits ctx <> 0 /\
        o = ((((d_word ctx * 64 + d) mod 65536) / 2 ^ (d_bits ctx - 2)) mod 256) :: o2 /\
        dupd (mkD ((d_word ctx * 64 + d) mod 65536) (d_bits ctx - 2) 0) r = (c', UOk o2))
  \/ (c = PAD /\ d_bits ctx <> 0 /\ pad_full k (d_pad ctx) = false /\ d_word ctx mod 2 ^ d_bits ctx = 0 /\
      dupd (mkD (d_word ctx) (d_bits ctx - 2) (d_pad ctx + 1)) r = (c', UOk o)).
Proof.
  intros Hc Hws H. cbn [dupd] in H.
  destruct (dstep_inv ctx c Hc Hws) as [[d [Hd [He [Hp Hs]]]] | [[He [Hb [Hp [Hm Hs]]]] | Hs]];
    rewrite Hs in H.
  - destruct (d_bits ctx =? 0) eqn:Eb.
    + left. exists d. apply N.eqb_eq in Eb. repeat split; auto.
    + right; left. apply N.eqb_neq in Eb.
      match type of H with context [dupd ?st r] => destruct (dupd st r) as [c2 u] eqn:E2 end.
      apply ucons_ok_inv in H as [-> [o2 [-> ->]]].
      exists d, o2. repeat split; auto.
  - right; right. repeat split; auto.
  - discriminate H.
Qed.

Lemma dupd_nil_inv ctx c' o : dupd ctx [] = (c', UOk o) -> c' = ctx /\ o = [].
Proof. cbn [dupd]. intros H. inversion H. auto. Qed.


Lemma low_bits_a w t : t < 4096 -> ((w * 4096 + t) mod 65536 / 16) mod 256 = t / 16.
Proof. intros. lia. Qed.
Lemma low_bits_b w t : t < 1024 -> ((w * 1024 + t) mod 65536 / 4) mod 256 = t / 4.
Proof. intros. lia. Qed.
Lemma low_bits_c w t : t < 256 -> ((w * 256 + t) mod 65536 / 1) mod 256 = t.
Proof. intros. lia. Qed.
Lemma m4 x t : ((x * 64 + t) mod 65536) mod 4 = t mod 4.
Proof. lia. Qed.
Lemma m16 x t : ((x * 64 + t) mod 65536) mod 16 = t mod 16.
Proof. lia. Qed.
Lemma m64 x t : ((x * 64 + t) mod 65536) mod 64 = t mod 64.
Proof. lia. Qed.
Lemma q1 w d d0 : d < 64 -> d0 < 64 ->
  (((w * 64 + d) * 64 + d0) mod 65536 / 16) mod 256 = d * 4 + d0 / 16.
Proof.
  intros. replace ((w * 64 + d) * 64 + d0) with (w * 4096 + (d * 64 + d0)) by lia.
  rewrite low_bits_a by lia. lia.
Qed.
Lemma q2 w d d0 d1 : d < 64 -> d0 < 64 -> d1 < 64 ->
  ((((w * 64 + d) * 64 + d0) * 64 + d1) mod 65536 / 4) mod 256 = (d0 mod 16) * 16 + d1 / 4.
Proof.
  intros. replace (((w * 64 + d) * 64 + d0) * 64 + d1)
    with ((w * 256 + d * 4 + d0 / 16) * 1024 + ((d0 mod 16) * 64 + d1)) by lia.
  rewrite low_bits_b by lia. lia.
Qed.
Lemma q3 w d d0 d1 d2 : d < 64 -> d0 < 64 -> d1 < 64 -> d2 < 64 ->
  (((((w * 64 + d) * 64 + d0) * 64 + d1) * 64 + d2) mod 65536 / 1) mod 256 = (d1 mod 4) * 64 + d2.
Proof.
  intros. replace ((((w * 64 + d) * 64 + d0) * 64 + d1) * 64 + d2)
    with ((w * 65536 + d * 1024 + d0 * 16 + d1 / 4) * 256 + ((d1 mod 4) * 64 + d2)) by lia.
  rewrite low_bits_c by lia. lia.
Qed.

Definition noWs (s : bytes) : Prop := forallb (fun c => negb (b64_ws c)) s = true.

Ltac inv_step H Hc Hw :=
  let d := fresh "d" in let o2 := fresh "o" in
  let Hd := fresh "Hd" in let He := fresh "He" in let Hp := fresh "Hp" in let Hb := fresh "Hb" in
  let Hn := fresh "Hn" in let Ho := fresh "Ho" in let Hm := fresh "Hm" in
  destruct (dupd_cons_inv _ _ _ _ _ Hc Hw H)
    as [(d & Hd & He & Hp & Hb & Hn) | [(d & o2 & Hd & He & Hp & Hb & Ho & Hn) | (He & Hb & Hp & Hm & Hn)]];
  cbn [d_bits d_word d_pad] in *; try (exfalso; lia); clear H.

Ltac split_char Hb Hw c :=
  let Hc := fresh "Hc" c in let Hwc := fresh "Hw" c in
  cbn [forallb] in Hb, Hw; apply andb_true_iff in Hb as [Hc Hb]; apply andb_true_iff in Hw as [Hwc Hw];
  apply byte_lt in Hc; apply negb_true_iff in Hwc.

(* once padding has brought bits to 0 nothing more is accepted *)
Lemma dupd_after_padding w p s c' o : 1 <= p -> forallb is_byte s = true -> noWs s ->
  dupd (mkD w 0 p) s = (c', UOk o) -> s = [] /\ o = [].
Proof.
  intros Hp Hb Hw H. destruct s as [|c s]; [apply dupd_nil_inv in H; tauto|].
  unfold noWs in Hw. split_char Hb Hw c. inv_step H Hcc Hwc.
Qed.

Lemma dupd_accept_shape n : forall s, (length s <= n)%nat -> forallb is_byte s = true -> noWs s ->
  forall w c' o, dupd (mkD w 0 0) s = (c', UOk o) -> d_bits c' = 0 ->
  s = enc_spec o \/ (k = true /\ s = enc_spec o ++ A3 /\ lenN o mod 3 = 0).
Proof.
  induction n as [|n IH]; intros s Hl Hb Hw w c' o H Hz.
  { destruct s; [|cbn in Hl; lia]. apply dupd_nil_inv in H as [_ ->]. left; reflexivity. }
  destruct s as [|c1 s]; [apply dupd_nil_inv in H as [_ ->]; left; reflexivity|].
  unfold noWs in Hw. split_char Hb Hw c1. inv_step H Hcc1 Hwc1.
  (* c1 is a symbol; 6 bits buffered *)
  destruct s as [|c2 s]; [apply dupd_nil_inv in Hn as [-> _]; cbn in Hz; discriminate Hz|].
  split_char Hb Hw c2. inv_step Hn Hcc2 Hwc2.
  - (* c2 a symbol: first byte out, 4 bits buffered *)
    change (6 - 2) with 4 in *.
    destruct s as [|c3 s]; [apply dupd_nil_inv in Hn0 as [-> _]; cbn in Hz; discriminate Hz|].
    split_char Hb Hw c3. inv_step Hn0 Hcc3 Hwc3.
    + (* c3 a symbol: second byte out, 2 bits buffered *)
      change (4 - 2) with 2 in *.
      destruct s as [|c4 s]; [apply dupd_nil_inv in Hn as [-> _]; cbn in Hz; discriminate Hz|].
      split_char Hb Hw c4. inv_step Hn Hcc4 Hwc4.
      * (* full quantum, recurse *)
        change (2 - 2) with 0 in *.
        assert (Hl' : (length s <= n)%nat) by (cbn [length] in Hl; lia).
        specialize (IH s Hl' Hb Hw _ _ _ Hn0 Hz).
        subst. rewrite !mod_chain. pow2.
        rewrite (q1 w d d0), (q2 w d d0 d1), (q3 w d d0 d1 d2) by lia.
        match goal with |- context [enc_spec (?a :: ?b :: ?c :: o2)] =>
          set (x1 := a); set (x2 := b); set (x3 := c) end.
        assert (Hg : [E d; E d0; E d1; E d2] = grp x1 x2 x3) by (unfold grp, x1, x2, x3; list_E).
        rewrite enc_spec_cons3, <- Hg. cbn [app].
        destruct IH as [IH | [Hk [IH Hm]]]; [left | right].
        -- rewrite <- IH. reflexivity.
        -- split; [exact Hk|]. split; [rewrite IH; reflexivity | cbn [lenN]; lia].
      * (* c4 = '=' : "xxx=" *)
        change (2 - 2) with 0 in *. change (0 + 1) with 1 in *.
        apply dupd_after_padding in Hn0; [|lia|exact Hb|exact Hw]. destruct Hn0 as [-> ->].
        left. subst. rewrite !mod_chain in *. pow2. rewrite m4 in Hm.
        rewrite (q1 w d d0), (q2 w d d0 d1) by lia. cbn [enc_spec]. list_E.
    + (* c3 = '=' : "xx==" *)
      change (4 - 2) with 2 in *. change (0 + 1) with 1 in *.
      destruct s as [|c4 s]; [apply dupd_nil_inv in Hn as [-> _]; cbn in Hz; discriminate Hz|].
      split_char Hb Hw c4. inv_step Hn Hcc4 Hwc4.
      change (2 - 2) with 0 in *. change (1 + 1) with 2 in *.
      apply dupd_after_padding in Hn0; [|lia|exact Hb|exact Hw]. destruct Hn0 as [-> ->].
      left. subst. rewrite !mod_chain in *. pow2. rewrite m16 in Hm.
      rewrite (q1 w d d0) by lia. cbn [enc_spec]. list_E.
  - (* c2 = '=' : only "A===" *)
    change (6 - 2) with 4 in *. change (0 + 1) with 1 in *.
    destruct s as [|c3 s]; [apply dupd_nil_inv in Hn0 as [-> _]; cbn in Hz; discriminate Hz|].
    split_char Hb Hw c3. inv_step Hn0 Hcc3 Hwc3.
    change (4 - 2) with 2 in *. change (1 + 1) with 2 in *.
    destruct s as [|c4 s]; [apply dupd_nil_inv in Hn as [-> _]; cbn in Hz; discriminate Hz|].
    split_char Hb Hw c4. inv_step Hn Hcc4 Hwc4.
    change (2 - 2) with 0 in *. change (2 + 1) with 3 in *.
    apply dupd_after_padding in Hn0; [|lia|exact Hb|exact Hw]. destruct Hn0 as [-> ->].
    (* the third '=' : only the nettle test (padding > 2) lets it through *)
    destruct k; [|unfold pad_full in *; discriminate].
    right. pow2. rewrite m64 in Hm. assert (d = 0) by lia. subst. repeat split; reflexivity.
Qed.

Lemma strip_ws_props src : forallb is_byte src = true ->
  forallb is_byte (strip_ws src) = true /\ noWs (strip_ws src).
Proof.
  intros Hb. unfold noWs, strip_ws. split.
  - rewrite forallb_forall in *. intros x Hx. apply filter_In in Hx as [Hx _]. apply Hb, Hx.
  - rewrite forallb_forall. intros x Hx. apply filter_In in Hx as [_ Hx]. exact Hx.
Qed.

(* T: the accepted language, exactly (modulo the white space the decoder skips by design):
   an accepted input is the RFC 4648 encoding of what was decoded; only the nettle variant also
   accepts that encoding of a whole number of quanta followed by the non-canonical "A===" *)
Theorem accepted_language_exact src out : all_bytes_ok src -> b64_decode k src = Some out ->
  strip_ws src = enc_spec out \/
  (k = true /\ strip_ws src = enc_spec out ++ A3 /\ lenN out mod 3 = 0).
Proof.
  unfold all_bytes_ok, b64_decode. intros Hb H.
  rewrite decode_update_dupd in H by exact dvalid_init.
  rewrite dupd_strip_ws in H by exact Hb.
  destruct (dupd dctx_init (strip_ws src)) as [c u] eqn:E. destruct u as [o|w|w]; try discriminate H.
  unfold decode_final in H. destruct (d_bits c =? 0) eqn:Ez; [|discriminate H].
  inversion H; subst o. apply N.eqb_eq in Ez.
  destruct (strip_ws_props src Hb) as [Hb' Hw'].
  exact (dupd_accept_shape (length (strip_ws src)) (strip_ws src) (le_n _) Hb' Hw' 0 c out E Ez).
Qed.

(* a byte outside alphabet, '=' and white space anywhere in the input: never accepted *)
Lemma dupd_invalid c src : In c src -> dec_lookup c = (-1)%Z ->
  forall ctx, match snd (dupd ctx src) with UOk _ => False | _ => True end.
Proof.
  intros Hin Hd. induction src as [|x r IH]; [destruct Hin|]. intros ctx. cbn [dupd].
  destruct Hin as [-> | Hin].
  - unfold dstep. rewrite Hd. change (-1 =? -1)%Z with true. cbv iota. exact I.
  - destruct (dstep ctx x) as [c1 s]. destruct s as [| |b|]; cbn [snd]; try exact I.
    + apply IH, Hin.
    + specialize (IH Hin c1). destruct (dupd c1 r) as [c2 u]. cbn [snd] in *. destruct u; cbn [ucons]; auto.
Qed.

Theorem invalid_character_rejected c src : In c src -> dec_lookup c = (-1)%Z -> b64_decode k src = None.
Proof.
  intros Hin Hd. unfold b64_decode. rewrite decode_update_dupd by exact dvalid_init.
  pose proof (dupd_invalid c src Hin Hd dctx_init) as H.
  destruct (dupd dctx_init src) as [c1 u]. cbn [snd] in H. destruct u; [destruct H|reflexivity|reflexivity].
Qed.

End Decoder.

(* ================================================================== *)
(* 10. the two decoders                                                   *)

(* bundled lib/base64.cc (HEAD): "malformed base64 is rejected" at full strength --
   whatever is accepted is, white space aside, the RFC 4648 encoding of the output *)
Theorem bundled_malformed_rejected src out : all_bytes_ok src -> b64_decode false src = Some out ->
  strip_ws src = enc_spec out.
Proof.
  intros Hb H. destruct (accepted_language_exact false src out Hb H) as [He | [Hk _]]; [exact He|discriminate Hk].
Qed.

(* contrapositive reading: an input that is not (white space aside) a canonical encoding is refused *)
Theorem bundled_rejects_noncanonical src : all_bytes_ok src ->
  (forall out, strip_ws src <> enc_spec out) -> b64_decode false src = None.
Proof.
  intros Hb Hn. destruct (b64_decode false src) as [out|] eqn:E; [|reflexivity].
  exfalso. exact (Hn out (bundled_malformed_rejected src out Hb E)).
Qed.

(* libnettle 3.8 decoder: exact language including the quirk, the refutation, and the restricted statement *)
Theorem nettle_accepted_language src out : all_bytes_ok src -> b64_decode true src = Some out ->
  strip_ws src = enc_spec out \/ (strip_ws src = enc_spec out ++ A3 /\ lenN out mod 3 = 0).
Proof.
  intros Hb H. destruct (accepted_language_exact true src out Hb H) as [He | [_ Hq]]; [left; exact He|right; exact Hq].
Qed.

Lemma nettle_strict_rejection_refuted :
  exists src out, all_bytes_ok src /\ b64_decode true src = Some out /\ strip_ws src <> enc_spec out.
Proof. exists A3, []. repeat split. discriminate. Qed.

Theorem nettle_malformed_rejected_partial src out : all_bytes_ok src -> b64_decode true src = Some out ->
  (forall o, strip_ws src <> enc_spec o ++ A3) -> strip_ws src = enc_spec out.
Proof.
  intros Hb H Hq. destruct (nettle_accepted_language src out Hb H) as [He | [He _]]; [exact He|].
  exfalso. exact (Hq out He).
Qed.

(* the same witness is refused by the bundled copy *)
Lemma bundled_refuses_A3 : b64_decode false A3 = None /\ b64_decode false ([81; 85; 74; 68] ++ A3) = None.
Proof. vm_compute. split; reflexivity. Qed.

(* through decodeCleartext with the nettle decoder linked: "Basic A===" still yields (empty) credentials *)
Lemma nettle_basic_accepts_A3 :
  basic_decode true true ([66; 97; 115; 105; 99; 32] ++ A3) = Some ([], None) /\
  basic_decode false true ([66; 97; 115; 105; 99; 32] ++ A3) = None.
Proof. vm_compute. split; reflexivity. Qed.

(* non-vacuity helpers for Properties_C36.v *)
Lemma example_no_A3_suffix : forall o, [81; 85; 74; 68] <> enc_spec o ++ A3.
Proof.
  intros o H. destruct o as [|a [|b [|c r]]]; cbn [enc_spec app] in H; try discriminate H.
  injection H as _ _ _ _ H. destruct (enc_spec r); discriminate H.
Qed.

Lemma example_cred_hyps :
  all_bytes_ok ([65; 108; 97; 100; 100; 105; 110] ++ 58 :: [111; 112; 101; 110]) /\
  ~ In 58 [65; 108; 97; 100; 100; 105; 110] /\
  existsb cred_refused ([65; 108; 97; 100; 100; 105; 110] ++ 58 :: [111; 112; 101; 110]) = false.
Proof.
  split; [vm_compute; reflexivity|]. split; [|vm_compute; reflexivity].
  cbn. intros H. repeat (destruct H as [H|H]; [discriminate H|]). exact H.
Qed.
