(* AuthhelperProofs.v — proofs about AuthhelperModel.v (C47: helper reply reader; C46: Basic authentication). *)
Require Import SquidV.Bytes SquidV.AuthhelperModel.
Require Import ZifyBool ZifyN ZifyNat.
Local Open Scope N_scope.

(* ================================================================== generic list facts *)
Lemma span_app_inner {A} (p : A -> bool) a x :
  snd (span p a) <> [] -> span p (a ++ x) = (fst (span p a), snd (span p a) ++ x).
Proof.
  induction a as [|y a IH]; cbn [span app fst snd]; intros H; [congruence|].
  destruct (p y) eqn:E.
  - destruct (span p a) as [u v] eqn:S. cbn [fst snd] in *. rewrite (IH H). reflexivity.
  - reflexivity.
Qed.

Lemma span_app_stop {A} (p : A -> bool) a x :
  match x with [] => True | y :: _ => p y = false end ->
  span p (a ++ x) = (fst (span p a), snd (span p a) ++ x).
Proof.
  intros Hx. induction a as [|y a IH]; cbn [span app fst snd].
  - destruct x as [|z x]; cbn [span]; [reflexivity| rewrite Hx; reflexivity].
  - destruct (p y) eqn:E; [|reflexivity].
    rewrite IH. destruct (span p a) as [u v]. reflexivity.
Qed.

(* ================================================================== whitespace *)
Lemma skip_ws_nows l : hd_isspace l = false -> skip_ws l = l.
Proof. destruct l as [|c l]; cbn [hd_isspace skip_ws]; intros H; [reflexivity| now rewrite H]. Qed.

Lemma skip_ws_allws w x : forallb isspace w = true -> skip_ws (w ++ x) = skip_ws x.
Proof.
  induction w as [|c w IH]; cbn [forallb app skip_ws]; intros H; [reflexivity|].
  apply andb_prop in H as [H1 H2]. rewrite H1. auto.
Qed.

Lemma skip_ws_split e : exists w, forallb isspace w = true /\ e = w ++ skip_ws e.
Proof.
  induction e as [|c e [w [H1 H2]]]; [exists []; split; reflexivity|].
  cbn [skip_ws]. destruct (isspace c) eqn:E.
  - exists (c :: w). cbn [forallb app]. rewrite E, H1. split; [reflexivity| now f_equal].
  - exists []. split; reflexivity.
Qed.

Lemma skip_ws_idem x : skip_ws (skip_ws x) = skip_ws x.
Proof.
  induction x as [|c x IH]; cbn [skip_ws]; [reflexivity|].
  destruct (isspace c) eqn:E; [exact IH| cbn [skip_ws]; now rewrite E].
Qed.

Lemma skip_ws_hd x : hd_isspace (skip_ws x) = false.
Proof.
  induction x as [|c x IH]; cbn [skip_ws]; [reflexivity|].
  destruct (isspace c) eqn:E; [exact IH| cbn [hd_isspace]; exact E].
Qed.

Lemma skip_ws_snoc x c : isspace c = true ->
  skip_ws (x ++ [c]) = match skip_ws x with [] => [] | _ => skip_ws x ++ [c] end.
Proof.
  intros Hc. induction x as [|d x IH]; cbn [app skip_ws]; [now rewrite Hc|].
  destruct (isspace d) eqn:E; [exact IH| reflexivity].
Qed.

(* the reply text up to blanks at both ends *)
Definition trim (x : bytes) : bytes := rev (skip_ws (rev (skip_ws x))).

Lemma trim_skip_ws x : trim (skip_ws x) = trim x.
Proof. unfold trim. now rewrite skip_ws_idem. Qed.

Lemma trim_ws_prefix w x : forallb isspace w = true -> trim (w ++ x) = trim x.
Proof. intros H. unfold trim. now rewrite skip_ws_allws. Qed.

Lemma trim_snoc_ws x c : isspace c = true -> trim (x ++ [c]) = trim x.
Proof.
  intros Hc. unfold trim. rewrite skip_ws_snoc by exact Hc.
  destruct (skip_ws x) as [|d y] eqn:E; [reflexivity|].
  rewrite rev_app_distr. cbn [rev app skip_ws]. now rewrite Hc.
Qed.

(* ================================================================== strtol *)
Definition nows (l : bytes) : Prop := hd_isspace l = false.

Lemma sign_rest_app c s x : sign_rest ((c :: s) ++ x) = sign_rest (c :: s) ++ x.
Proof. cbn [app sign_rest]. destruct ((c =? 45) || (c =? 43)); reflexivity. Qed.

Lemma strtol_app_inner s x :
  hd_isspace (snd (strtol s)) = true -> nows s ->
  strtol (s ++ x) = (fst (strtol s), snd (strtol s) ++ x).
Proof.
  intros He Hs. destruct s as [|c s]; [discriminate He|].
  unfold nows in Hs. cbn [hd_isspace] in Hs.
  assert (K1 : skip_ws (c :: s) = c :: s) by (cbn [skip_ws]; now rewrite Hs).
  assert (K2 : skip_ws ((c :: s) ++ x) = (c :: s) ++ x) by (cbn [app skip_ws]; now rewrite Hs).
  unfold strtol in *. rewrite K1 in *. rewrite K2. rewrite sign_rest_app.
  destruct (span isdigit (sign_rest (c :: s))) as [ds e] eqn:S.
  destruct ds as [|d ds].
  - cbn [snd hd_isspace] in He. congruence.
  - cbn [snd fst] in *. assert (Hne : snd (span isdigit (sign_rest (c :: s))) <> []).
    { rewrite S. cbn [snd]. destruct e; [discriminate He| discriminate]. }
    rewrite (span_app_inner isdigit _ x Hne), S. reflexivity.
Qed.

Lemma strtol_app_stop s x :
  s <> [] -> nows s -> match x with [] => True | y :: _ => isdigit y = false end ->
  strtol (s ++ x) = (fst (strtol s), snd (strtol s) ++ x).
Proof.
  intros Hne Hs Hx. destruct s as [|c s]; [congruence|].
  unfold nows in Hs. cbn [hd_isspace] in Hs.
  assert (K1 : skip_ws (c :: s) = c :: s) by (cbn [skip_ws]; now rewrite Hs).
  assert (K2 : skip_ws ((c :: s) ++ x) = (c :: s) ++ x) by (cbn [app skip_ws]; now rewrite Hs).
  unfold strtol. rewrite K1, K2. rewrite sign_rest_app.
  rewrite (span_app_stop isdigit _ x Hx).
  destruct (span isdigit (sign_rest (c :: s))) as [ds e] eqn:S. cbn [fst snd].
  destruct ds as [|d ds]; reflexivity.
Qed.

(* ================================================================== lines *)
Definition noLF (l : bytes) : Prop := forallb (fun c => negb (c =? LF)) l = true.

Lemma split_lf_nolf a : noLF a -> split_lf a = ([], a).
Proof.
  unfold noLF. induction a as [|c a IH]; cbn [forallb split_lf]; intros H; [reflexivity|].
  apply andb_prop in H as [H1 H2]. rewrite (IH H2).
  destruct (c =? LF); [discriminate H1| reflexivity].
Qed.

Lemma split_lf_line a b : noLF a ->
  split_lf (a ++ LF :: b) = (a :: fst (split_lf b), snd (split_lf b)).
Proof.
  unfold noLF. induction a as [|c a IH]; cbn [forallb app]; intros H.
  - cbn [split_lf]. destruct (split_lf b) as [ls p]. rewrite N.eqb_refl. reflexivity.
  - apply andb_prop in H as [H1 H2]. cbn [split_lf]. rewrite (IH H2). cbn [fst snd].
    destruct (c =? LF); [discriminate H1| reflexivity].
Qed.

Lemma split_first_lf (x : bytes) : noLF x \/ exists a b, x = a ++ LF :: b /\ noLF a.
Proof.
  induction x as [|c x IH]; [left; reflexivity|].
  destruct (c =? LF) eqn:E.
  - right. exists [], x. apply N.eqb_eq in E. subst c. split; reflexivity.
  - destruct IH as [H|[a [b [H1 H2]]]].
    + left. unfold noLF. cbn [forallb]. rewrite E. exact H.
    + right. exists (c :: a), b. split; [now rewrite H1|]. unfold noLF. cbn [forallb]. rewrite E. exact H2.
Qed.

Lemma noLF_app a b : noLF a -> noLF b -> noLF (a ++ b).
Proof. unfold noLF. intros Ha Hb. rewrite forallb_app, Ha, Hb. reflexivity. Qed.

Lemma split_lf_tail_nolf x : noLF (snd (split_lf x)).
Proof.
  induction x as [|c x IH]; [reflexivity|]. cbn [split_lf].
  destruct (split_lf x) as [ls p]. cbn [snd] in *.
  destruct (c =? LF) eqn:E; [exact IH|].
  destruct ls; cbn [snd]; [|exact IH]. unfold noLF. cbn [forallb]. rewrite E. exact IH.
Qed.

Lemma split_lf_app x y :
  split_lf (x ++ y) =
  (fst (split_lf x) ++ fst (split_lf (snd (split_lf x) ++ y)), snd (split_lf (snd (split_lf x) ++ y))).
Proof.
  induction x as [|c x IH]; cbn [app split_lf fst snd].
  - destruct (split_lf y); reflexivity.
  - rewrite IH. destruct (split_lf x) as [ls p]. cbn [fst snd].
    destruct (split_lf (p ++ y)) as [ls2 p2] eqn:S2. cbn [fst snd].
    destruct (c =? LF) eqn:E; cbn [fst snd app]; [now rewrite S2|].
    destruct ls as [|l ls]; cbn [app fst snd].
    + cbn [split_lf]. rewrite S2, E. destruct ls2; reflexivity.
    + now rewrite S2.
Qed.

Lemma last_app_ne {A} (q c1 : list A) d : c1 <> [] -> last (q ++ c1) d = last c1 d.
Proof.
  intros H. induction q as [|y q IH]; [reflexivity|].
  cbn [app]. assert (E : q ++ c1 <> []) by (intros E; apply app_eq_nil in E as [_ E]; congruence).
  destruct (q ++ c1) as [|z r]; [congruence|]. exact IH.
Qed.

Lemma strip_cr_app q c1 : c1 <> [] -> strip_cr (q ++ c1) = q ++ strip_cr c1.
Proof.
  intros H. unfold strip_cr.
  destruct (q ++ c1) eqn:E; [apply app_eq_nil in E as [_ E]; congruence|]. rewrite <- E.
  destruct c1 as [|d c1]; [congruence|].
  rewrite last_app_ne by discriminate.
  destruct (last (d :: c1) 0 =? CR); [|reflexivity].
  apply removelast_app. discriminate.
Qed.

(* ================================================================== the per-line specification *)
(* What a helper reply stream means, line by line and independently of how it was read: the decimal number at the
   start of the line selects the waiting request (concurrent helpers; the oldest request otherwise), which is called
   back with the rest of the line; when no request is selected the line is dropped. *)
Definition spec_line (conc : bool) (rs : reqtab) (l : bytes) : reqtab * list disp :=
  let line := strip_cr l in
  let '(i, e) := if conc then strtol line else (0%Z, line) in
  let text := if conc then skip_ws e else line in
  match pop_request conc i rs with
  | Some (tag, rs') => (rs', [(tag, Some text)])
  | None => (rs, [])
  end.

Fixpoint spec_lines (conc : bool) (rs : reqtab) (ls : list bytes) : reqtab * list disp :=
  match ls with
  | [] => (rs, [])
  | l :: r => let '(rs1, o1) := spec_line conc rs l in
              let '(rs2, o2) := spec_lines conc rs1 r in (rs2, o1 ++ o2)
  end.

Definition spec_stream (conc : bool) (rs : reqtab) (stream : bytes) : list disp :=
  snd (spec_lines conc rs (fst (split_lf stream))).

Lemma spec_lines_app conc rs a b :
  spec_lines conc rs (a ++ b) =
  (fst (spec_lines conc (fst (spec_lines conc rs a)) b),
   snd (spec_lines conc rs a) ++ snd (spec_lines conc (fst (spec_lines conc rs a)) b)).
Proof.
  revert rs. induction a as [|l a IH]; intros rs; cbn [app spec_lines fst snd].
  - destruct (spec_lines conc rs b); reflexivity.
  - destruct (spec_line conc rs l) as [rs1 o1]. rewrite IH.
    destruct (spec_lines conc rs1 a) as [rs2 o2]. cbn [fst snd].
    destruct (spec_lines conc rs2 b) as [rs3 o3]. cbn [fst snd]. now rewrite app_assoc.
Qed.

(* equality of callbacks up to blanks at both ends of the text *)
Definition dsim1 (a b : disp) : Prop :=
  fst a = fst b /\
  match snd a, snd b with
  | Some x, Some y => trim x = trim y
  | None, None => True
  | _, _ => False
  end.
Definition dsim := Forall2 dsim1.

Lemma dsim_refl l : dsim l l.
Proof. induction l as [|[t [x|]] l IH]; constructor; try exact IH; split; reflexivity || exact I. Qed.

Lemma dsim_app a b c d : dsim a b -> dsim c d -> dsim (a ++ c) (b ++ d).
Proof. apply Forall2_app. Qed.

(* ================================================================== representation invariant *)
Definition fresh_st (rs : reqtab) (st : hstate) : Prop :=
  h_rbuf st = [] /\ h_cur st = None /\ h_ign st = false /\ h_reqs st = rs /\ h_closed st = false /\ h_queue st = [].

Definition decide (conc : bool) (q : bytes) : option (Z * bytes) :=
  if conc then (if hd_isspace (snd (strtol q)) then Some (strtol q) else None) else Some (0%Z, q).

(* st is the reader's state after the bytes q of a still unterminated line, the table having been rs0 at the
   start of that line *)
Definition Rep (conc : bool) (rs0 : reqtab) (q : bytes) (st : hstate) : Prop :=
  h_closed st = false /\ h_queue st = [] /\
  match q with
  | [] => h_rbuf st = [] /\ h_cur st = None /\ h_ign st = false /\ h_reqs st = rs0
  | _ => match decide conc q with
         | None => h_rbuf st = q /\ h_cur st = None /\ h_ign st = false /\ h_reqs st = rs0
         | Some (i, e) =>
             h_rbuf st = [] /\
             match pop_request conc i rs0 with
             | Some (tag, rs1) =>
                 h_ign st = false /\ h_reqs st = rs1 /\
                 exists w acc, h_cur st = Some (tag, acc) /\ forallb isspace w = true /\ e = w ++ acc /\
                               (conc = false -> w = [])
             | None => h_cur st = None /\ h_ign st = true /\ h_reqs st = rs0
             end
         end
  end.

Lemma kick_nil lim st : h_queue st = [] -> kick lim (h_queue st) st = st.
Proof. intros H. rewrite H. destruct st; cbn in *. now subst. Qed.

(* L1: a complete line read by a reader in its initial state is handled exactly as the specification says *)
Lemma process_fresh c rs st l :
  fresh_st rs st ->
  exists st', process c true st l = Some (st', snd (spec_line (hc_conc c) rs l)) /\
              fresh_st (fst (spec_line (hc_conc c) rs l)) st'.
Proof.
  intros F. destruct st as [rb cu ig rq nx cl qu]. unfold fresh_st in F. cbn in F.
  destruct F as (-> & -> & -> & -> & -> & ->).
  unfold process, spec_line. cbn [h_cur h_ign h_reqs h_rbuf h_next h_closed h_queue negb andb].
  destruct (if hc_conc c then strtol (strip_cr l) else (0%Z, strip_cr l)) as [i e] eqn:Ei.
  rewrite andb_false_r. cbn [andb].
  destruct (pop_request (hc_conc c) i rs) as [[tag rs1]|] eqn:P.
  - unfold deliver. cbn. eexists. split; [reflexivity|]. unfold fresh_st. cbn. tauto.
  - unfold deliver. cbn. eexists. split; [reflexivity|]. unfold fresh_st. cbn. tauto.
Qed.

Lemma process_lines_fresh c rs st ls :
  fresh_st rs st ->
  exists st', process_lines c st ls = (st', snd (spec_lines (hc_conc c) rs ls)) /\
              fresh_st (fst (spec_lines (hc_conc c) rs ls)) st'.
Proof.
  revert rs st. induction ls as [|l ls IH]; intros rs st F; cbn [process_lines spec_lines].
  - exists st. split; [reflexivity| exact F].
  - destruct (process_fresh c rs st l F) as (st1 & E1 & F1). rewrite E1.
    destruct (spec_line (hc_conc c) rs l) as [rs1 o1]. cbn [fst snd] in *.
    destruct (IH rs1 st1 F1) as (st2 & E2 & F2). rewrite E2.
    destruct (spec_lines (hc_conc c) rs1 ls) as [rs2 o2]. cbn [fst snd] in *.
    exists st2. split; [reflexivity| exact F2].
Qed.
