"""C55: the shared store index (src/ipc/StoreMap.cc) exposes only complete, stable entries."""
import itertools, random, re
from vlib import std, hbuild

PID = "C55"
META = {
    "text": "PARTIAL: the theorems are proved for scripts without update operations; openForUpdating/sliceContaining/fresh-prefix writes/closeForUpdating/abortUpdating are modelled at the same grain, exercised in every run and judged by the oracle (after an update every chain walk yields fresh prefix ++ old suffix; a recycled stale anchor frees exactly the replaced prefix; every operation frees exactly the slices of the one entry it may free; no slice of an open or current entry is freed; one updater per entry; fileNos follow the relocations), which also exposes one real violation of the unchanged tree (known finding C55-shared-suffix-freed-under-stale-reader, Coq witness C55_stale_reader_loses_shared_suffix_refuted). Theorems (Properties_C55.v, 12 + 1 refutation, closed under the global context) hold for ANY number of processes, ANY scripts over openForWriting(+setKey)/openForWritingAt/append-a-slice/startAppending/closeForWriting/abortWriting/openForReading/chain walk/closeForReading/closeForReadingAndFreeIdle/freeEntry/freeEntryByKey on a map of any size and ANY interleaving of their single atomic operations (those inside the ReadWriteLock methods included): (1) composition with C54: every process takes part in the lock of every anchor as two RwlockModel processes (its open entry; its freeEntry/freeEntryByKey calls) and the C54 counting invariant holds per anchor in every reachable state, so no assert() about writing()/reading() can fail; (2) never two writers (exclusive, appending or aborting) on one entry; (3) a process that holds an entry open for reading holds it under the requested key (the anchor's key equals the key it asked for, in every later state until it closes), and any writer coexisting with it has called startAppending (or is that appending writer inside abortWriting, about to mark the entry); no freeEntry/freeEntryByKey call holds the entry exclusively meanwhile; (4) a successful openForReading saw waitingToBeFreed = false and the requested key at the step at which it succeeded; the key of an anchor changes and a set waitingToBeFreed mark disappears only in steps of an exclusive holder (rewind() while freeing, setKey() of the creating writer), hence never while a reader holds the entry; (5) a slice is returned to the pool only inside freeChainAt() of an activity holding exclusively the anchor whose chain it walks, hence never through the chain of an entry that is open for reading [PARTIAL: that chains of different entries are disjoint is not proved; the oracle checks slice ownership on every explored schedule]; (6) when every process has closed what it opened, every anchor's lock is idle and lockExclusive/lockShared/lockHeaders succeed again. The model is tied to the code by running the extracted model and the real StoreMap.cc + ReadWriteLock.cc, compiled unmodified from the working tree against a scheduler-controlled std::atomic (harness/sched_atomic.h), on the same scripts and schedules (a context switch is possible at every atomic operation) and diffing events, final anchors/slices/counters/pool and a reuse probe; the oracle independently tracks holders, entry incarnations, delete requests and slice ownership from the implementation's events.",
    "note": "Trusted: Coq kernel, extraction, harness/sched_atomic.h + h_storemap.cc (cooperative scheduler, heap-backed Ipc::Mem::Segment, slice pool, client protocol: one open entry per process, only legal calls, valid filenos), sequentially consistent atomics, plain accesses (key words) executed with the preceding atomic operation, uint32/int32 counters as unbounded integers, Store::Root().markedForDeletion() = false in setKey(), Config.paranoid_hit_validation = 0 (validateHit never runs). NOT covered by the theorems (correspondence runs + oracle only): openForUpdating/sliceContaining/closeForUpdating/abortUpdating (header updates, splicing, fileNos relocation); observed there and left as the code has them: an updater that passed openForReadingAt before a concurrent update completed goes on to update the superseded version (its fresh anchor is born marked and the key then maps to it), and a freeEntryByKey that read fileNos before the relocation marks only the stale version (the race the code comments acknowledge). NOT modelled: openOrCreateForReading, switchWritingToReading, forgetWritingEntry, purgeOne. Not proved: disjointness of slice chains (theorem C55_slices_not_freed_while_read_partial says what is missing), absence of the data assertions validSlice()/assert(s.empty()) (model state Stuck*; the oracle reports any assertion as a violation), termination of every operation (runner answer FUEL is reported by the oracle). Quirks of the code seen while modelling (outside the property, reproduced in corpus/C55/regress.txt): freeEntry()/freeEntryByKey() on a never-used anchor drive anchors->count negative; an entry written under the all-zero key is empty() for ever and its slices are never returned by freeChain(); a freeEntry() mark placed between openForWriting() and the writer's setKey() is erased by setKey() although freeEntry() answered true. StoremapModel.v is validated against the code only on the generated schedules. Extra proof file: coq/StoremapLock.v.",
    "technique": "Coq proof (inductive invariants over all interleavings of an unbounded number of processes: the C54 counting "
                 "invariant re-established per anchor by composition, plus Owicki-Gries style data invariants) + extracted-model "
                 "differential correspondence under a scheduler-controlled std::atomic",
}
FRESH = ["src/ipc/StoreMap.cc", "src/ipc/ReadWriteLock.cc"]
LINK = ("tests/stub_debug.o tests/stub_libmem.o SquidConfig.o tests/stub_HelperChildConfig.o StatCounters.o "
        "tests/stub_StatHist.o String.o tests/stub_libtime.o ip/libip.la sbuf/libsbuf.la base/libbase.la "
        "../compat/libcompatsquid.la").split()


def impl(sanitize="ubsan"):
    # StoreMap.h / ReadWriteLock.h are header parts of the anchor: compiled into all units from the working tree.
    # UBSan without the vptr check (it would need typeinfo of StoreEntry / Store::Controller, which are stubbed here).
    flags = ["-include", "sched_atomic.h"]
    sys = []
    if sanitize:
        flags += ["-O1", "-g", "-fsanitize=undefined", "-fno-sanitize=vptr", "-fno-sanitize-recover=all"]
        sys = ["-fsanitize=undefined"]
    return hbuild.build("h_storemap", "h_storemap.cc", fresh=FRESH, link=LINK, flags=flags, sanitize=None, syslibs=sys)


def prebuild():
    impl()


# ---------------------------------------------------------------- generators
NMAP = 4
# keys: '1' and '5' and 'a' share name 1 (N = 4); '2' -> 2; '3' -> 3; '4' -> 0
WR = ["W1+2w", "W1+2+3w", "W1+1A+2w", "W1+1A+2+3w", "W1+1a", "W1+1A+2a", "W1w", "W1Aw", "W1a", "W5+4w", "Wa+1w", "W2+1w",
      "W2+1A+1w", "X1+1w", "X5+1w", "W1+1+2+3a", "W1F1w", "W1+1K1w", "W1+1AF1+1w", "W1+1AK1a", "W1", "W1+1A", "W1+1"]
RD = ["R1Lr", "R1LLr", "R1Lf", "R1r", "R1f", "R1LF1Lr", "R1LK1Lr", "R5Lr", "RaLr", "R2Lr", "R2Lf", "R1LLLr", "R1L", "R1",
      "R1LrR1Lr", "R1LfR1Lr", "R1LrR1LrR1Lr", "R1LrR1LLrR1LfR1Lr", "R2LrR2Lr"]
DL = ["F1", "K1", "F1F1", "K5", "Ka", "F2", "K2", "F1K1", "F0", "F3"]
# updaters (MemStore::updateHeadersOrThrow protocol): open, locate the stale splicing point, write the fresh prefix, close / abort
UP = ["U1s1+5u", "U1s1+5u", "U1s1+5+6u", "U1s3+5u", "U1s2+4u", "U1+5s1u", "U1s1+5x", "U1s1x", "U1x", "U1s1+5", "U1", "U1s9+5u",
      "U2s1+4u", "U1s1+5uU1s1+6u", "U1s1+5uR1LLr", "U1s1+5uW2+7w", "U1s1+5uK1", "U1s1+5uF1", "U1s1+5uW2+7wR1LLr"]
UPAIRS = [("W1+2+3wU1s1+5u", "R1LLLr"), ("W1+2+3wU1s1+5uW2+7w", "R1LLLr"), ("W1+2+3wU1s1+5u", "U1s1+6u"),
          ("W1+2+3wU1s1+5u", "K1R1Lr"), ("W1+2+3wU1s1+5u", "W2+7wR1Lr"), ("W1+2+3wR1LLLr", "U1s1+5uW2+7w"),
          ("W1+2+3wU1s3+5uW2+7w", "R1LLr"), ("W1+2+3wU1s1+5x", "R1LLr"), ("W1+2+3wU1s1+5uF1", "R1LLLr"),
          ("W1+2+3wU1s1+5uK1", "R1LLLr"), ("W1+2+3wU1s1+5uR1LLf", "W2+7wW3+1w")]
PAIRS = [("W1+1w", "R1Lr"), ("W1+1A+2w", "R1LLr"), ("W1+1A+2a", "R1LLr"), ("W1+1w", "W1+2w"), ("W1+1w", "W5+2w"),
         ("W1+1wR1Lr", "F1"), ("W1+1wR1Lr", "K1"), ("W1+1wR1Lf", "R1Lf"), ("W1+1wR1Lr", "W1+2w"), ("W1+1a", "R1Lr"),
         ("W1+1AF1w", "R1Lr"), ("W1+1wF1", "R1Lr"), ("W1+1wK1", "R1LLr"), ("W1+1wR1LF1Lr", "W5+3w"), ("W1+1w", "X1+2w"),
         ("W1+1A+2+3w", "R1LLLr"), ("W1+1wR1f", "W1+2wR1Lr"), ("W1+1AK1a", "R1Lr"), ("F1", "W1+1w"), ("K1", "W1+1wR1r")]
# (scripts, prefix): the prefix first brings thread 0 to an interesting state (single-threaded step counts)
PREFIXED = [(("W1+1+2wR1LLr", "F1"), 41), (("W1+1+2wR1LLr", "K1"), 41), (("W1+1+2wR1LLr", "W1+3w"), 41),
            (("W1+1+2wR1LLf", "R1Lf"), 35), (("W1+1A+2+3w", "R1LLr"), 26), (("W1+1A+2+3a", "R1LLr"), 26),
            (("W1+1A+2a", "F1R1r"), 26), (("W1+1wR1Lr", "W5+2wR5Lr"), 34), (("W1+1wF1", "R1Lr"), 28),
            (("W1+1wW1+2w", "R1LLr"), 28)]


def rand_script(rng):
    k = rng.random()
    parts = []
    if k < 0.35:      # writer then maybe reader
        parts = [rng.choice(WR)] + ([rng.choice(RD)] if rng.random() < 0.5 else []) + ([rng.choice(DL)] if rng.random() < 0.3 else [])
    elif k < 0.65:    # reader(s)
        parts = [rng.choice(RD) for _ in range(rng.choice([1, 1, 2, 3]))]
        if rng.random() < 0.3:
            parts.insert(rng.randrange(len(parts) + 1), rng.choice(DL))
    elif k < 0.8:     # deleter
        parts = [rng.choice(DL + RD) for _ in range(rng.choice([1, 2, 3]))]
    elif k < 0.92:    # mixed
        parts = [rng.choice(WR + RD + DL + UP) for _ in range(rng.choice([1, 2, 3, 4]))]
    else:             # noise
        alphabet = ["W1", "W5", "W2", "Wa", "X1", "P1", "+1", "+2", "A", "w", "a", "R1", "R5", "Ra", "R2", "L", "r", "f",
                    "F1", "F2", "K1", "K5", "W0", "R0", "K0", "U1", "U2", "s1", "s2", "u", "x"]
        parts = [rng.choice(alphabet) for _ in range(rng.randrange(0, 10))]
    return "".join(parts)


def est_steps(s):
    return 12 * len(s) + 2


def rand_schedule(rng, n, scripts):
    total = sum(est_steps(s) for s in scripts)
    style = rng.random()
    if style < 0.06:
        return ""
    want = rng.choice([total // 4, total // 2, total, total])
    out = []
    if style < 0.35:    # bursts
        while len(out) < want:
            t = rng.randrange(n)
            out.extend([t] * rng.choice([1, 1, 1, 2, 2, 3, 4, 5, 6, 8, 12, 20]))
    elif style < 0.55:  # uniform
        out = [rng.randrange(n) for _ in range(want)]
    elif style < 0.8:   # long turns: whole operations of one thread at a time (readers find complete entries)
        while len(out) < want:
            t = rng.randrange(n)
            out.extend([t] * rng.choice([15, 25, 30, 40, 60, 90]))
            if rng.random() < 0.5:
                out.extend(rng.randrange(n) for _ in range(rng.randrange(1, 8)))
    else:               # one thread runs far ahead, then the others
        t = rng.randrange(n)
        out = [t] * rng.randrange(1, 60) + [rng.randrange(n) for _ in range(want)]
    return "".join(str(t) for t in out[:want + 90])


def mk(scripts, sched, nmap=NMAP):
    return "sm.run %d %d %s %s" % (nmap, len(scripts), " ".join(s or "-" for s in scripts), sched or "-")


def gen_cases(rng, n):
    """n counts the random stream; a small-scope exhaustive stream is added on top: every schedule prefix of
    length L over two threads for each script pair (after the prefix: round-robin)."""
    quick = n <= 50000
    cases = []
    L = 8 if quick else 12
    for a, b in PAIRS:
        for bits in itertools.product("01", repeat=L):
            cases.append(mk([a, b], "".join(bits)))
    for scr, pre in PREFIXED:
        for bits in itertools.product("01", repeat=L):
            cases.append(mk(list(scr), "0" * pre + "".join(bits)))
    # updating: thread 0 first writes a complete 2-slice entry (35 steps), then every prefix of length L, and random bursts
    for a, b in UPAIRS:
        for bits in itertools.product("01", repeat=L - 2):
            cases.append(mk([a, b], "0" * 35 + "".join(bits)))
        for _ in range(60 if quick else 600):
            sch = "0" * rng.choice([35, 35, 35, 50, 70, 90, 110, 130, 150])
            for _ in range(rng.randrange(1, 8)):
                sch += str(rng.randrange(2)) * rng.choice([1, 2, 3, 5, 8, 13, 21, 34, 55, 90])
            cases.append(mk([a, b], sch))
    # bursts of random length at the interesting moments: thread 0 runs k steps, then thread 1 runs j steps, ...
    for scr, pre in PREFIXED:
        for _ in range(30 if quick else 300):
            s = "0" * rng.randrange(0, pre + 30)
            for _ in range(rng.randrange(1, 6)):
                s += str(rng.randrange(2)) * rng.randrange(1, 25)
            cases.append(mk(list(scr), s))
    for i in range(n):
        nt = rng.choice([1, 2, 2, 2, 2, 3, 3, 3, 4])
        nmap = rng.choice([4, 4, 4, 4, 2, 3])
        if i % 2 == 0 and nt > 1:
            # staged: thread 0 creates a complete (or appending) entry first, the others read / delete / overwrite it
            w = rng.choice(["W1+2w", "W1+2+3w", "W1+1A+2w", "W1+1A+2+3w", "W1+1A+2", "W1+1+2w", "W1+3A"])
            scripts = [w + (rng.choice(RD + DL + [""]) if rng.random() < 0.5 else "")]
            for _ in range(nt - 1):
                k = rng.random()
                scripts.append("".join(rng.choice(RD) for _ in range(rng.choice([1, 1, 2, 3]))) if k < 0.45
                               else rng.choice(RD) + rng.choice(DL) + rng.choice(RD) if k < 0.55
                               else rng.choice(UP) + rng.choice(RD + WR + [""]) if k < 0.85
                               else rng.choice(["W2+7w", "W3+1w", "W2+7wR1LLr", "W4+1w"]) + rng.choice(RD + UP) if k < 0.93
                               else rand_script(rng))
            if rng.random() < 0.4:
                scripts[0] += rng.choice(UP)
            lead = rng.choice([20, 27, 30, 36, 36, 40, 45, 50])
            scripts = [re.sub(r"([FP])(\d)", lambda m: m.group(1) + str(int(m.group(2)) % nmap), s) for s in scripts]
            cases.append(mk(scripts, "0" * lead + rand_schedule(rng, nt, scripts), nmap))
            continue
        scripts = [rand_script(rng) for _ in range(nt)]
        # anchors named by F<f> / P<f> exist (callers never pass an invalid fileno)
        scripts = [re.sub(r"([FP])(\d)", lambda m: m.group(1) + str(int(m.group(2)) % nmap), s) for s in scripts]
        cases.append(mk(scripts, rand_schedule(rng, nt, scripts), nmap))
    return cases


# ---------------------------------------------------------------- oracle (independent statement of the property)
EV = re.compile(r"^(\d)(@|!|#|~|[WXPRFK+AwaLrfUsux])(.*)$")


def keyname(ch, nmap):
    if ch.isdigit():
        return int(ch) % nmap
    return (ord(ch) - ord("a") + 1) % nmap


def keyzero(ch):
    return ch == "0"


def parse(out):
    parts = out.split(" | ")
    anchors = [x.split("=")[1].split(",") for x in parts[1].split()]
    slices = [x.split("=")[1].split(",") for x in parts[2].split()]
    misc = dict(x.split("=") for x in parts[3].split())
    pool = parts[4].split("=")[1]
    modes = parts[5].split("=")[1].split(",")
    probe = parts[6].split("=")[1]
    return parts[0].split(), anchors, slices, misc, pool, modes, probe


class Inc:
    """one incarnation of an anchor: what a successful open-for-writing (or openForUpdating's fresh anchor) created"""
    def __init__(self, anchor, no, key, writer):
        self.anchor, self.no, self.key, self.writer = anchor, no, key, writer
        self.chain = []          # slice ids in chain order (for an updated entry: fresh prefix ++ old suffix)
        self.state = "writing"   # writing / appending / closed / aborted / updating / publishing / superseded
        self.splice = None       # superseded entry: last slice of the replaced prefix
        self.dead = False        # its slices were given back (or it never had a key: nothing to give back)
        self.must = None         # snapshot of expected_free() taken when the first of its slices is given back

    def expected_free(self):
        """the slices that freeing this entry must return to the pool"""
        if self.key is None:
            return []            # empty() entry: freeChain() does not walk the chain (quirk, see corpus)
        if self.splice is not None:
            if self.splice in self.chain:
                return self.chain[:self.chain.index(self.splice) + 1]
            return [] if self.must is not None else None
        return list(self.chain)


def oracle(case, out):
    if out.startswith(("CRASH", "EXC", "ERR", "FUEL")):
        return ("oracle:crash", "implementation crashed / threw: " + out[:200])
    try:
        a = case.split()
        nmap, n = int(a[1]), int(a[2])
        events, anchors, slices, misc, pool, modes, probe = parse(out)
        # ---- pass 1: per thread, the index of the use step that started each operation
        start_of = {}      # event index of a return -> index of the '@' that started it
        last_use = [None] * n
        for i, e in enumerate(events):
            if e == "-":
                continue
            if e == "LIVELOCK":
                return ("oracle:livelock", "an operation did not finish within the step bound")
            m = EV.match(e)
            if not m:
                return ("oracle:unparsable", "event %r" % e)
            t, k = int(m.group(1)), m.group(2)
            if k == "@":
                last_use[t] = i
            elif k in "!#~":
                pass
            else:
                start_of[i] = last_use[t]
        release_at = set()    # use steps that start a releasing call (w a r f u x): the hold ends there
        publish_at = set()    # use steps that start closeForUpdating
        for i, e in enumerate(events):
            m = EV.match(e)
            if m and i in start_of:
                if m.group(2) in "warfux":
                    release_at.add(start_of[i])
                if m.group(2) == "u":
                    publish_at.add(start_of[i])
        # ---- pass 2
        mode = ["I"] * n           # I / W / A / R / U
        held = [None] * n          # anchor (U: the stale anchor)
        fresh = [None] * n         # U: the fresh anchor
        ussp = [None] * n          # U: stale.splicingPoint
        fname = [None] * n         # U: fresh.name
        sinc = [None] * n          # U: the incarnation being updated (stale) ...
        finc = [None] * n          # ... and the one being created (fresh)
        epoch = [0] * nmap         # per name: bumped when a relocation of the name starts and when it is over
        holding = [False] * n      # between the return of the opening call and the use step of the releasing call
        cur = [None] * nmap        # current incarnation of each anchor (Inc) or None
        count = [0] * nmap
        deleted = [[] for _ in range(nmap)]   # (incarnation number, index of the completion event of a delete request aimed at it)
        fn = list(range(nmap))     # name -> fileno (relocations by closeForUpdating)
        sizes = {}                 # slice -> size stored by its writer
        incs = []                  # all incarnations whose slices may still be in use
        lastlook = [None] * n
        snap = {}                  # '@' index -> (incarnation numbers, keys, states, fn)
        opfrees = [[] for _ in range(n)]
        settled = [False] * n
        inpool = set(range(nmap))  # slices StoreMap has given back (or never used)

        def retire(old, f, e):
            """anchor f is being recycled by the opener of event e: its old entry must have given back its slices"""
            if old is None or old.dead:
                return None
            need = old.must if old.must is not None else old.expected_free()
            if need:
                # ... possibly by an operation of another thread that has freed the chain but has not returned yet
                for u in range(n):
                    if not settled[u] and opfrees[u] and sorted(sid for sid, _ in opfrees[u]) == sorted(need) \
                       and all(old in xs for _, xs in opfrees[u]):
                        settled[u] = True
                        old.dead = True
                        return None
                return ("oracle:slice-leak", "anchor %d was recycled by %s but the slices %s of its old entry were not given back" % (f, e, need))
            old.dead = True
            return None

        def owners(sid):
            return [x for x in incs if not x.dead and sid in x.chain]

        def new_inc(f, key, t, state):
            count[f] += 1
            x = Inc(f, count[f], key, t)
            x.state = state
            cur[f] = x
            incs.append(x)
            return x

        def check_frees(t, e, target):
            """at the return of an operation: the slices it gave back are exactly those of ONE entry, the one it was entitled to free"""
            fr = opfrees[t]
            opfrees[t] = []
            if settled[t]:
                settled[t] = False   # an opener that recycled the anchor meanwhile has already matched these slices
                return None
            if not fr:
                return None
            sids = sorted(sid for sid, _ in fr)
            cands = [x for x in incs if not x.dead and x.must is not None and sorted(x.must) == sids
                     and all(x in xs for _, xs in fr) and (target is None or x.anchor == target)]
            if not cands:
                near = [x for x in incs if not x.dead and any(x in xs for _, xs in fr)]
                return ("oracle:free-set-mismatch",
                        "operation %s gave back slices %s; no entry%s has exactly these slices to give back (entries touched: %s)"
                        % (e, sids, "" if target is None else " at anchor %d" % target,
                           ["anchor %d #%d %s chain=%s splice=%s must-free=%s" % (x.anchor, x.no, x.state, x.chain, x.splice, x.must) for x in near]))
            x = cands[0]
            x.dead = True
            return None

        for i, e in enumerate(events):
            if e == "-":
                continue
            m = EV.match(e)
            t, k, rest = int(m.group(1)), m.group(2), m.group(3)
            if k == "#":
                return ("oracle:assert", "an assert()/Must() failed in thread %d although every client follows the protocol (%s)" % (t, e))
            if k == "@":
                snap[i] = ([x.no if x else 0 for x in cur], [x.key if x else None for x in cur],
                           [x.state if x else "none" for x in cur], list(fn), list(epoch))
                if i in release_at:
                    holding[t] = False
                if i in publish_at:
                    # closeForUpdating starts: from now on the fresh anchor is the entry: fresh prefix ++ old suffix
                    st, fr = sinc[t], finc[t]
                    if ussp[t] not in st.chain:
                        return ("oracle:harness-protocol", "splicing point %s is not in the stale chain %s" % (ussp[t], st.chain))
                    fr.chain = fr.chain + st.chain[st.chain.index(ussp[t]) + 1:]
                    fr.state = "publishing"
                    st.splice = ussp[t]
                    fn[keyname(fr.key, nmap)] = fresh[t]          # relocate(stale.name, fresh.fileNo), some time during the call
                    epoch[keyname(fr.key, nmap)] += 1             # odd: a relocation of this name is in progress
                continue
            if k == "!":
                continue
            if k == "~":
                sid = int(rest)
                own = owners(sid) if 0 <= sid < nmap else []
                if not own:
                    return ("oracle:double-free", "slice %s was given back to the pool although no entry uses it (event %s)" % (rest, e))
                for x in own:
                    f = x.anchor
                    if cur[f] is not x:
                        continue
                    for u in range(n):
                        if holding[u] and held[u] == f and mode[u] in "RU":
                            if x.splice is not None and sid not in (x.expected_free() or []):
                                return ("oracle:shared-suffix-freed-under-stale-reader",
                                        "slice %d (suffix shared by the updated entry and its stale version at anchor %d) was freed by thread %d "
                                        "while thread %d still holds the stale version open for reading" % (sid, f, t, u))
                            return ("oracle:slice-freed-under-reader",
                                    "slice %d of entry %d was freed by thread %d while thread %d holds the entry open for reading" % (sid, f, t, u))
                        if u != t and holding[u] and ((held[u] == f and mode[u] in "WA") or (fresh[u] == f and mode[u] == "U")):
                            return ("oracle:slice-freed-under-writer",
                                    "slice %d of entry %d was freed by thread %d while thread %d holds the entry open for writing" % (sid, f, t, u))
                mine = []
                for x in own:
                    if x.must is None:
                        x.must = list(x.expected_free() or [])
                    if sid in x.must:
                        mine.append(x)
                    x.chain.remove(sid)  # (a shared suffix slice goes with the updated entry; nobody reads the stale version)
                opfrees[t].append((sid, mine))
                inpool.add(sid)
                continue
            st = start_of.get(i)
            if k in "WXP":
                if rest[1] == "+":
                    f = int(rest[2:])
                    for u in range(n):
                        if u != t and holding[u] and (held[u] == f or fresh[u] == f):
                            return ("oracle:writer-conflict:" + mode[u],
                                    "thread %d opened entry %d for writing while thread %d holds it in mode %s" % (t, f, u, mode[u]))
                    v = check_frees(t, e, f)
                    if v:
                        return v
                    v = retire(cur[f], f, e)
                    if v:
                        return v
                    mode[t], held[t], holding[t] = "W", f, True
                    new_inc(f, rest[0] if k != "P" and not keyzero(rest[0]) else None, t, "writing")
                else:
                    if mode[t] != "I":
                        return ("oracle:harness-protocol", "event %s in mode %s" % (e, mode[t]))
                    v = check_frees(t, e, -1)
                    if v:
                        return v
            elif k == "+":
                z, sid = rest.split(":")
                if sid != "-":
                    sid = int(sid)
                    if sid not in inpool:
                        return ("oracle:slice-reused", "slice %d was handed to a writer although StoreMap has not given it back since its last use" % sid)
                    inpool.discard(sid)
                    x = cur[fresh[t]] if mode[t] == "U" else cur[held[t]]
                    x.chain.append(sid)
                    sizes[sid] = int(z)
            elif k == "A":
                mode[t] = "A"
                cur[held[t]].state = "appending"
            elif k == "w":
                x = cur[held[t]]
                if x.writer == t and x.state in ("writing", "appending"):
                    x.state = "closed"
                mode[t], held[t] = "I", None
            elif k == "a":
                f = held[t]
                x = cur[f]
                v = check_frees(t, e, f)
                if v:
                    return v
                if x.writer == t and x.state in ("writing", "appending"):
                    x.state = "aborted"
                    deleted[f].append((x.no, i))
                mode[t], held[t] = "I", None
            elif k == "R":
                if rest[1] == "+":
                    f = int(rest[2:])
                    kc = rest[0]
                    for u in range(n):
                        if u != t and holding[u] and ((held[u] == f and mode[u] == "W") or (fresh[u] == f and mode[u] == "U" and cur[f].state == "updating")):
                            return ("oracle:reader-with-exclusive-writer",
                                    "thread %d opened entry %d for reading while thread %d holds it open for writing, not appending" % (t, f, u))
                    x = cur[f]
                    if x is None or x.key != kc:
                        return ("oracle:reader-wrong-key",
                                "thread %d opened entry %d under key %s but the entry was created under key %s" % (t, f, kc, x.key if x else None))
                    if x.state not in ("closed", "appending", "publishing", "superseded"):
                        return ("oracle:reader-incomplete",
                                "thread %d opened entry %d for reading while its writer is in state %s" % (t, f, x.state))
                    for (c, done) in deleted[f]:
                        if c == x.no and st is not None and done < st:
                            return ("oracle:deleted-reopened",
                                    "thread %d opened entry %d for reading although a delete request against this entry (or the update that replaced "
                                    "it) had completed (event #%d) before the open call started (event #%d)" % (t, f, done, st))
                    mode[t], held[t], holding[t] = "R", f, True
                    lastlook[t] = None
            elif k == "L":
                f = held[t]
                x = cur[f]
                body = rest[1:-1]
                if body.endswith("..."):
                    return ("oracle:reader-chain-loop", "reader %d saw a chain longer than the number of slices: %s" % (t, e))
                seen = [tuple(int(v) for v in y.split(":")) for y in body.split(",")] if body else []
                full = [(sid, sizes.get(sid)) for sid in x.chain]
                if seen != full[:len(seen)]:
                    return ("oracle:reader-foreign-slice",
                            "reader %d of entry %d walked %s but the entry consists of %s" % (t, f, seen, full))
                was = snap[st][2][f] if st in snap else "none"
                if was in ("closed", "publishing", "superseded") and snap[st][0][f] == x.no and seen != full:
                    return ("oracle:reader-incomplete-chain",
                            "reader %d of the complete entry %d walked only %s of %s" % (t, f, seen, full))
                if lastlook[t] is not None and seen[:len(lastlook[t])] != lastlook[t]:
                    return ("oracle:reader-chain-changed",
                            "reader %d of entry %d saw chain %s and later %s: not an extension" % (t, f, lastlook[t], seen))
                lastlook[t] = seen
            elif k in "rf":
                v = check_frees(t, e, held[t])
                if v:
                    return v
                mode[t], held[t] = "I", None
            elif k in "FK":
                # a delete request; it is aimed at the incarnation that existed when the call started
                if k == "F":
                    f = int(rest[0])
                else:
                    nm = keyname(rest[0], nmap)
                    f = fn[nm]
                    if st is not None and (snap[st][3] != fn or snap[st][4][nm] != epoch[nm] or epoch[nm] % 2):
                        f = None             # raced with a relocation of this name: the anchor it reached is not known to the oracle
                v = check_frees(t, e, f if k == "F" else None)
                if v:
                    return v
                if st is not None and f is not None and 0 <= f < nmap and cur[f] is not None:
                    no0, key0 = snap[st][0][f], snap[st][1][f]
                    if no0 > 0 and no0 == cur[f].no and (k == "F" or (key0 is not None and key0 == rest[0])):
                        deleted[f].append((cur[f].no, i))
            elif k == "U":
                if rest[1] == "+":
                    sf, ff = (int(v) for v in rest[2:].split(">"))
                    kc = rest[0]
                    x = cur[sf]
                    if x is None or x.key != kc or x.state not in ("closed", "publishing", "superseded"):
                        return ("oracle:updater-wrong-entry", "thread %d opened entry %d (%s, key %s) for updating under key %s"
                                % (t, sf, x.state if x else None, x.key if x else None, kc))
                    for u in range(n):
                        if u != t and holding[u] and mode[u] == "U" and held[u] == sf:
                            return ("oracle:two-updaters", "threads %d and %d both update entry %d" % (t, u, sf))
                        if u != t and holding[u] and (held[u] == ff or fresh[u] == ff):
                            return ("oracle:writer-conflict:" + mode[u],
                                    "thread %d got anchor %d as fresh anchor while thread %d holds it in mode %s" % (t, ff, u, mode[u]))
                    v = check_frees(t, e, ff)
                    if v:
                        return v
                    v = retire(cur[ff], ff, e)
                    if v:
                        return v
                    mode[t], held[t], fresh[t], holding[t], ussp[t] = "U", sf, ff, True, None
                    fname[t] = fn.index(ff) if ff in fn else None  # fresh.name: the name openKeyless() found the anchor under
                    sinc[t] = x
                    finc[t] = new_inc(ff, kc, t, "updating")
                else:
                    v = check_frees(t, e, -1)
                    if v:
                        return v
            elif k == "s":
                ussp[t] = int(rest.split(":")[1])
            elif k == "u":
                sf, ff = held[t], fresh[t]
                if finc[t].state == "publishing":
                    finc[t].state = "closed"
                sinc[t].state = "superseded"
                deleted[sf].append((sinc[t].no, i))
                fn[fname[t]] = sf                                  # relocate(fresh.name, stale.fileNo)
                epoch[keyname(finc[t].key, nmap)] += 1
                mode[t], held[t], fresh[t] = "I", None, None
            elif k == "x":
                v = check_frees(t, e, fresh[t])
                if v:
                    return v
                x = finc[t]
                x.state = "aborted"
                if not x.dead and x.expected_free():
                    return ("oracle:slice-leak", "abortUpdating did not give back the fresh prefix %s" % x.expected_free())
                x.dead = True
                mode[t], held[t], fresh[t] = "I", None, None
        # ---- final state: every thread ended. The lock fields say exactly who still holds what.
        def mstr(t):
            if mode[t] == "I":
                return "I"
            if mode[t] == "U":
                return "U%d.%d" % (held[t], fresh[t])
            return mode[t] + str(held[t])
        want_modes = [mstr(t) for t in range(n)]
        if want_modes != modes and "#" not in modes:
            return ("oracle:harness-mode", "harness modes %s differ from the modes implied by the answers %s" % (modes, want_modes))
        want_fn = ",".join("0" if fn[i] == i and False else str(fn[i] + 1) for i in range(nmap))
        got_fn = ",".join(str(int(v)) if int(v) != 0 else str(i + 1) for i, v in enumerate(misc["fn"].split(",")))
        if want_fn != got_fn:
            return ("oracle:fileNos", "fileNos %s do not match the relocations of the completed updates (expected name->fileno %s)" % (misc["fn"], fn))
        for f in range(nmap):
            rd = sum(1 for t in range(n) if mode[t] == "R" and held[t] == f) + 2 * sum(1 for t in range(n) if mode[t] == "U" and held[t] == f)
            wr = sum(1 for t in range(n) if (mode[t] in "WA" and held[t] == f) or (mode[t] == "U" and fresh[t] == f))
            ap = sum(1 for t in range(n) if mode[t] == "A" and held[t] == f)
            up = sum(1 for t in range(n) if mode[t] == "U" and held[t] == f)
            exp = [str(rd), "1" if wr else "0", "1" if ap else "0", "1" if up else "0", str(rd), str(wr)]
            if anchors[f][:6] != exp:
                what = "idle-after-release" if rd + wr == 0 else "counters"
                return ("oracle:" + what, "all threads ended; entry %d is held by %d readers / %d writers but its lock fields are %s (expected %s)"
                        % (f, rd, wr, anchors[f][:6], exp))
            if rd + wr == 0 and probe[f] != "+":
                return ("oracle:not-reusable", "nobody holds entry %d any more but openForWritingAt(%d) answered %s" % (f, f, probe[f]))
            if rd + wr > 0 and probe[f] != "-":
                return ("oracle:held-entry-reopened", "entry %d is still held (%d readers, %d writers) but openForWritingAt(%d) succeeded" % (f, rd, wr, f))
            # an unheld anchor without a key has been freed: the slices its entry had to give back are in the pool
            if rd + wr == 0 and anchors[f][8] == "0.0" and cur[f] is not None and not cur[f].dead and cur[f].expected_free():
                return ("oracle:slice-leak", "entry %d was freed but its slices %s never came back to the pool" % (f, cur[f].expected_free()))
    except Exception as ex:
        return ("oracle:unparsable", "unparsable implementation output %r (%s: %s)" % (out[:160], type(ex).__name__, ex))
    return None


def overlapped(out):
    """some operation of one thread was in progress while another thread's event happened"""
    inop = set()
    for e in out.split(" | ")[0].split():
        if len(e) < 2 or not e[0].isdigit():
            continue
        t, k = e[0], e[1]
        if inop - {t}:
            return True
        if k == "@":
            inop.add(t)
        elif k not in "!#~":
            inop.discard(t)
    return False


STATS = {"R+": 0, "R-": 0, "W+": 0, "W-": 0, "F+": 0, "F-": 0, "U+": 0, "U-": 0, "updates_closed": 0, "updates_aborted": 0, "freed_slices": 0}


def kind(case, out):
    ev = out.split(" | ")[0].split()
    r = [e for e in ev if len(e) > 3 and e[1] == "R"]
    w = [e for e in ev if len(e) > 3 and e[1] in "WX"]
    for e in r:
        STATS["R+" if e[3] == "+" else "R-"] += 1
    for e in w:
        STATS["W+" if e[3] == "+" else "W-"] += 1
    for e in ev:
        if len(e) > 3 and e[1] == "U":
            STATS["U+" if e[3] == "+" else "U-"] += 1
        if e[1:] == "u.":
            STATS["updates_closed"] += 1
        if e[1:] == "x.":
            STATS["updates_aborted"] += 1
        if len(e) == 4 and e[1] == "F":
            STATS["F" + e[3]] += 1
        if len(e) > 2 and e[1] == "~":
            STATS["freed_slices"] += 1
    rs = "none" if not r else "allok" if all(e[3] == "+" for e in r) else "allfail" if all(e[3] == "-" for e in r) else "mixed"
    return "%st:read-%s" % (case.split()[2], rs)


def mutate(rng, case):
    a = case.split()
    n = int(a[2])
    k = rng.random()
    sched = list(a[-1]) if a[-1] != "-" else []
    if k < 0.6 and sched:
        i = rng.randrange(len(sched))
        if rng.random() < 0.5:
            sched[i] = str(rng.randrange(n))
        else:
            j = rng.randrange(len(sched)); sched[i], sched[j] = sched[j], sched[i]
    elif k < 0.8:
        sched.insert(rng.randrange(len(sched) + 1), str(rng.randrange(n)))
    else:
        i = 3 + rng.randrange(n)
        a[i] = (a[i] if a[i] != "-" else "") + rng.choice(WR + RD + DL + UP)
    a[-1] = "".join(sched) or "-"
    return " ".join(a)


def run(res, tier):
    res.rule = ("1..4 protocol-following client threads on a StoreMap of 2..4 anchors/slices, running scripts over openForWriting(+setKey)/"
                "openForWritingAt/append-slice/startAppending/closeForWriting/abortWriting/openForReading/chain walk/closeForReading/"
                "closeForReadingAndFreeIdle/freeEntry/freeEntryByKey under explicit schedules (one entry = one atomic operation or one use "
                "step): every schedule prefix of length 8 (12 thorough) for 20 two-thread script pairs and after 10 fixed prefixes that first "
                "bring thread 0 into a holding state, random bursts around those moments, then random burst/uniform/run-ahead schedules "
                "over random phrase scripts; past the schedule: round-robin. A case is non-trivial when some operation of one thread was in "
                "progress while another thread completed a step")
    res.trusted.append("harness/sched_atomic.h replaces std::atomic/std::atomic_flag by a cooperative-scheduler version at compile time "
                       "(-include); atomics are sequentially consistent; StoreMap.cc and ReadWriteLock.cc are compiled unmodified; "
                       "harness/h_storemap.cc supplies heap-backed Ipc::Mem::Segment, Store::Root().markedForDeletion()=false, the slice "
                       "pool and the client protocol")
    std.run_standard(res, PID, tier, area="storemap", build_impl=impl, gen_cases=gen_cases, oracle=oracle,
                     corr_name="StoremapModel vs src/ipc/StoreMap.cc + ReadWriteLock.cc under sched_atomic.h",
                     n_quick=7000, n_thorough=100000, seed_salt=55, mutate=mutate,
                     kind_fn=kind, nontrivial_fn=lambda c, o: overlapped(o))
    res.extra["outcomes"] = dict(STATS)


def replay(d):
    """./verif replay <file>: run the recorded case on the implementation built from the current tree"""
    from vlib import corr
    case = d.get("replay", {}).get("case")
    if not case:
        print(d.get("description", "no case recorded"))
        return 0
    out = corr.run_lines(impl(), [case])[0]
    v = oracle(case, out)
    print("case:   " + case)
    print("impl:   " + out)
    print("oracle: " + ("holds" if v is None else "%s: %s" % v))
    return 1 if v else 0
