#!/usr/bin/env python3
"""Table generator (script form, see vlib/tables.py): reads src/errorpage.cc of the tree given as argv[1]
and reports, for every `case` of the %-macro switch of ErrorState::compileLegacyCode, how the case treats
the two quoting flags.  Prints Coq source ("@@FILE ErrMacros_gen.v").

Per case (letter = byte value of the case label, 0 for '\\0'):
   dq   0 = the case never assigns do_quote            (the value is html_quote()d)
        1 = it assigns `do_quote = 0` under a condition (inside a nested block / a dangling if|else)
        2 = it assigns `do_quote = 0` unconditionally (possibly after `if (building_deny_info_url) break;`)
   nue  same three values for `no_urlescape = 1`
   deny_break   the case body starts with `if (building_deny_info_url) break;`
   fallthrough  the case body ends in [[fallthrough]] (its flags are then those of the case itself only)
plus the default: case, the initial values of the two flags and whether the two epilogue statements
   if (do_quote) p = html_quote(p);
   if (building_deny_info_url && !no_urlescape) p = rfc1738_escape_part(p);
still follow the switch in this order.  Anything it cannot recognise makes it exit non-zero."""
import re, sys


def fail(msg):
    sys.stderr.write("errpage_macros: " + msg + "\n")
    sys.exit(2)


def strip_comments(txt):
    txt = re.sub(r"/\*.*?\*/", lambda m: "\n" * m.group(0).count("\n"), txt, flags=re.S)
    txt = re.sub(r"//[^\n]*", "", txt)
    return txt


def classify(lines, stmt_re):
    """0 never / 1 conditional / 2 unconditional for the statement matched by stmt_re in the case body"""
    depth = 0
    prev = ""
    found = 0
    for ln in lines:
        code = ln.strip()
        if not code:
            continue
        if stmt_re.search(code):
            whole = stmt_re.fullmatch(code) is not None
            dangling = re.search(r"(^|[\s}])(if\s*\(.*\)|else)\s*$", prev) is not None
            if whole and depth == 0 and not dangling:
                found = max(found, 2)
            else:
                found = max(found, 1)
        depth += code.count("{") - code.count("}")
        prev = code
    return found


def main():
    repo = sys.argv[1] if len(sys.argv) > 1 else "/repo"
    src = open(repo + "/src/errorpage.cc", encoding="latin1").read()
    m = re.search(r"^ErrorState::compileLegacyCode\(Build &build\)\n\{\n(.*?)^\}\n", src, re.S | re.M)
    if not m:
        fail("ErrorState::compileLegacyCode not found")
    body = strip_comments(m.group(1))
    init_dq = re.search(r"\bint\s+do_quote\s*=\s*(\d+)\s*;", body)
    init_nue = re.search(r"\bint\s+no_urlescape\s*=\s*(\d+)\s*;", body)
    if not init_dq or not init_nue:
        fail("flag declarations not found")
    sw = re.search(r"^    switch \(letter\) \{\n(.*?)^    \}\n(.*)", body, re.S | re.M)
    if not sw:
        fail("switch (letter) not found")
    swbody, epilogue = sw.group(1), sw.group(2)
    # split into cases
    label = re.compile(r"^\s*(?:case\s+'((?:\\.|[^\\'])+)'|default)\s*:\s*$")
    cases = []
    cur = None
    for ln in swbody.split("\n"):
        lm = label.match(ln)
        if lm:
            cur = [lm.group(1) if lm.group(1) is not None else "default", []]
            cases.append(cur)
        elif cur is not None:
            cur[1].append(ln)
        elif ln.strip():
            fail("code before the first case label: " + ln.strip())
    if len(cases) < 20:
        fail("only %d cases recognised" % len(cases))
    dq_re = re.compile(r"\bdo_quote\s*=\s*0\s*;")
    nue_re = re.compile(r"\bno_urlescape\s*=\s*1\s*;")
    other_dq = re.compile(r"\bdo_quote\b(?!\s*=\s*0\s*;)")
    other_nue = re.compile(r"\bno_urlescape\b(?!\s*=\s*1\s*;)")
    rows = []
    default = None
    seen = set()
    for lab, lines in cases:
        txt = "\n".join(lines)
        if other_dq.search(txt) or other_nue.search(txt):
            fail("unrecognised use of a quoting flag in case " + lab)
        code = [l.strip() for l in lines if l.strip()]
        deny_break = bool(code) and re.fullmatch(r"if\s*\(\s*building_deny_info_url\s*\)\s*break\s*;", code[0]) is not None
        ft = "[[fallthrough]]" in txt
        if not ft and not any(re.search(r"\bbreak\s*;", c) for c in code):
            fail("case %s neither breaks nor declares [[fallthrough]]" % lab)
        dq = classify(lines, dq_re)
        nue = classify(lines, nue_re)
        if lab == "default":
            default = (dq, nue)
            continue
        if lab == "\\0":
            letter = 0
        elif lab == "\\\\":
            letter = 92
        elif lab == "\\'":
            letter = 39
        elif len(lab) == 1:
            letter = ord(lab)
        else:
            fail("unrecognised case label '%s'" % lab)
        if letter in seen:
            fail("duplicate case label %s" % lab)
        seen.add(letter)
        rows.append((letter, dq, nue, deny_break, ft, lab))
    if default is None:
        fail("no default: case")
    ep = " ".join(epilogue.split())
    i_html = re.search(r"if \(do_quote\) p = html_quote\(p\);", ep)
    i_url = re.search(r"if \(building_deny_info_url && !no_urlescape\) p = rfc1738_escape_part\(p\);", ep)
    i_out = re.search(r"build\.output\.append\(p, strlen\(p\)\);", ep)
    html_ok = bool(i_html and i_out and i_html.start() < i_out.start())
    url_ok = bool(i_html and i_url and i_out and i_html.start() < i_url.start() < i_out.start())
    # p may only be reassigned by the two quoting statements between the switch and the append
    between = ep[:i_out.start()] if i_out else ep
    extra_p = re.findall(r"\bp = (?!html_quote\(p\);|rfc1738_escape_part\(p\);|mb\.buf;)", between)
    if extra_p:
        html_ok = False
    b = lambda x: "true" if x else "false"
    out = []
    out.append("@@FILE ErrMacros_gen.v")
    out.append("(* generated from /repo/src/errorpage.cc (ErrorState::compileLegacyCode) by gen/errpage_macros.py -- do not edit *)")
    out.append("Require Import SquidV.Bytes.")
    out.append("Local Open Scope N_scope.")
    out.append("(* (letter, ((dq, nue), (deny_break, fallthrough))): dq/nue 0 = never, 1 = conditionally, 2 = unconditionally *)")
    out.append("Definition em_cases : list (N * ((N * N) * (bool * bool))) := [")
    out.append(";\n".join(" (%d, ((%d, %d), (%s, %s)))   (* '%s' *)" % (l, dq, nue, b(db), b(ft), lab.replace("*)", "* )"))
                          for l, dq, nue, db, ft, lab in rows))
    out.append("].")
    out.append("Definition em_default : N * N := (%d, %d)." % default)
    out.append("Definition em_init_do_quote : bool := %s." % b(int(init_dq.group(1)) != 0))
    out.append("Definition em_init_no_urlescape : bool := %s." % b(int(init_nue.group(1)) != 0))
    out.append("Definition em_epilogue_html_quote : bool := %s." % b(html_ok))
    out.append("Definition em_epilogue_urlescape : bool := %s." % b(url_ok))
    print("\n".join(out))


main()
