// Harness for C61 (unit level): the components of the cache-manager access decision that can be linked without the
// whole proxy, compiled from /repo's working tree:
//   AnyP::Uri::parse / absolute / DecodeOrDupe (src/anyp/Uri.cc), rfc1738_unescape (lib/rfc1738.cc),
//   RegexPattern (src/base/RegexPattern.cc, regcomp/regexec as Acl::UrlCheck uses them),
//   Mgr::QueryParams::Parse (src/mgr/QueryParams.cc, IntParam.cc, StringParam.cc).
// CacheManager::ParseUrl/CheckPassword themselves are exercised through the running squid (checks/c61.py).
// stdin: one case per line; stdout: one canonical result line per case.
//
//   mgr.u.regex <pattern-hex> <icase 0|1> <string-hex>      -> 0|1   (string used as a C string)
//   mgr.u.decode <hex>                                      -> hex of AnyP::Uri::DecodeOrDupe
//   mgr.u.unescape <hex>                                    -> hex after rfc1738_unescape (input NUL-free)
//   mgr.u.query <hex>                                       -> ok <hex of tok.remaining()> | throw
//   mgr.u.uri <scheme 0|1|2> <login-hex> <host-hex> <port> <path-hex>
//                                                           -> hex of Uri::absolute() | bad
//   mgr.u.acl <pattern-hex> <icase> <scheme> <login-hex> <host-hex> <port> <path-hex>
//                                                           -> 0|1 : Acl::UrlCheck::match on that request-target | bad
#include "squid.h"
#include <iostream>
#include <sstream>
#include <cstring>
#include <vector>
#include "sbuf/SBuf.h"
#include "base/CharacterSet.h"
#include "base/RegexPattern.h"
#include "base/TextException.h"
#include "parser/Tokenizer.h"
#include "anyp/Uri.h"
#include "http/RequestMethod.h"
#include "mgr/QueryParams.h"
#include "rfc1738.h"
#include "SquidConfig.h"
#include "hcommon.h"

static std::string hx(const SBuf &b) { return tohex(b.rawContent(), b.length()); }
static SBuf sb(const std::string &s) { return SBuf(s.data(), s.size()); }

static const char *schemeText(const std::string &id) {
    if (id == "0") return "http";
    if (id == "1") return "ftp";
    if (id == "2") return "https";
    return nullptr;
}

// the request-target a client would send
static bool parseTarget(AnyP::Uri &u, const std::vector<std::string> &w, size_t i) {
    const char *sch = schemeText(w[i]);
    if (!sch) return false;
    std::string raw = std::string(sch) + "://";
    const std::string login = unhex(w[i + 1]);
    if (!login.empty()) raw += login + "@";
    raw += unhex(w[i + 2]) + ":" + w[i + 3] + unhex(w[i + 4]);
    return u.parse(HttpRequestMethod(Http::METHOD_GET), sb(raw));
}

static bool regexMatch(const std::string &pattern, bool icase, const char *cstr) {
    // ACLRegexData::parse: REG_EXTENDED | REG_NOSUB, REG_ICASE toggled by -i / +i
    int flags = REG_EXTENDED | REG_NOSUB;
    if (icase) flags |= REG_ICASE;
    RegexPattern re(sb(pattern), flags);
    return re.match(cstr);
}

static std::string one(const std::vector<std::string> &w) {
    const std::string &e = w[0];
    std::ostringstream o;
    if (e == "mgr.u.regex" && w.size() == 4) {
        const std::string s = unhex(w[3]);
        o << (regexMatch(unhex(w[1]), w[2] == "1", s.c_str()) ? 1 : 0);
    } else if (e == "mgr.u.decode" && w.size() == 2) {
        o << hx(AnyP::Uri::DecodeOrDupe(sb(unhex(w[1]))));
    } else if (e == "mgr.u.unescape" && w.size() == 2) {
        std::string s = unhex(w[1]);
        std::vector<char> buf(s.begin(), s.end());
        buf.push_back('\0');
        rfc1738_unescape(buf.data());
        o << tohex(buf.data(), strlen(buf.data()));
    } else if (e == "mgr.u.query" && w.size() == 2) {
        Parser::Tokenizer tok(sb(unhex(w[1])));
        Mgr::QueryParams params;
        try {
            Mgr::QueryParams::Parse(tok, params);
            o << "ok " << hx(tok.remaining());
        } catch (const TextException &) {
            o << "throw";
        }
    } else if (e == "mgr.u.uri" && w.size() == 6) {
        AnyP::Uri u;
        if (!parseTarget(u, w, 1)) return "bad";
        o << hx(u.absolute());
    } else if (e == "mgr.u.acl" && w.size() == 8) {
        AnyP::Uri u;
        if (!parseTarget(u, w, 3)) return "bad";
        // Acl::UrlCheck::match: data->match(AnyP::Uri::DecodeOrDupe(effectiveRequestUri()).c_str())
        SBuf decoded = AnyP::Uri::DecodeOrDupe(u.absolute());
        o << (regexMatch(unhex(w[1]), w[2] == "1", decoded.c_str()) ? 1 : 0);
    } else {
        return "ERR unknown-entry " + e;
    }
    return o.str();
}

int main() {
    Config.onoff.check_hostnames = 0;
    Config.uri_whitespace = URI_WHITESPACE_STRIP;
    Config.appendDomain = nullptr;
    Config.appendDomainLen = 0;
    std::string line;
    while (std::getline(std::cin, line)) {
        const auto w = splitws(line);
        if (w.empty()) { std::cout << "\n" << std::flush; continue; }
        std::string out;
        try {
            out = one(w);
        } catch (const std::exception &ex) {
            out = std::string("EXC ") + ex.what();
        } catch (...) {
            out = "EXC unknown";
        }
        std::cout << out << "\n" << std::flush;
    }
    return 0;
}
