(* RangereplyProofs.v — proofs for C15 (Range replies carry exactly the requested bytes). *)
Require Import SquidV.Bytes SquidV.TokModel SquidV.HopModel SquidV.HopProofs SquidV.RangeModel SquidV.RangeProofs.
Require Import SquidV.RangereplyModel.
Require Import SquidV.gen.Rangereply_gen.
Require Import ZifyBool ZifyN ZifyNat.
Local Open Scope Z_scope.

(* ================= byte-string slicing ================= *)
Lemma lenN_dropN {A} n (l : list A) : lenN (dropN n l) = (lenN l - n)%N.
Proof.
  revert n; induction l as [|x l IH]; intros n; cbn [dropN lenN]; [lia|].
  destruct (n =? 0)%N eqn:E; cbn [lenN]; [lia|]. rewrite IH. lia.
Qed.

Lemma dropN_0 {A} (l : list A) : dropN 0 l = l.
Proof. destruct l; reflexivity. Qed.

Lemma takeN_0 {A} (l : list A) : takeN 0 l = [].
Proof. destruct l; reflexivity. Qed.

Lemma dropN_dropN {A} a b (l : list A) : dropN a (dropN b l) = dropN (a + b) l.
Proof.
  revert a b; induction l as [|x l IH]; intros a b; cbn [dropN]; [reflexivity|].
  destruct (b =? 0)%N eqn:Eb.
  - assert (b = 0%N) by lia. subst b. rewrite N.add_0_r. reflexivity.
  - destruct (a + b =? 0)%N eqn:Eab; [lia|]. rewrite IH. f_equal. lia.
Qed.

Lemma takeN_all {A} n (l : list A) : (lenN l <= n)%N -> takeN n l = l.
Proof.
  revert n; induction l as [|x l IH]; intros n H; cbn [takeN]; [reflexivity|].
  cbn [lenN] in H. destruct (n =? 0)%N eqn:E; [lia|]. rewrite IH; [reflexivity|lia].
Qed.

Lemma dropN_all {A} n (l : list A) : (lenN l <= n)%N -> dropN n l = [].
Proof.
  revert n; induction l as [|x l IH]; intros n H; cbn [dropN]; [reflexivity|].
  cbn [lenN] in H. destruct (n =? 0)%N eqn:E; [lia|]. apply IH. lia.
Qed.

Lemma takeN_add {A} a b (l : list A) : takeN (a + b) l = takeN a l ++ takeN b (dropN a l).
Proof.
  revert a b; induction l as [|x l IH]; intros a b; cbn [takeN dropN]; [reflexivity|].
  destruct (a =? 0)%N eqn:Ea.
  - assert (a = 0%N) by lia. subst a. rewrite N.add_0_l. cbn [app takeN]. reflexivity.
  - destruct (a + b =? 0)%N eqn:Eab; [lia|]. cbn [app]. f_equal.
    replace (N.pred (a + b)) with (N.pred a + b)%N by lia. apply IH.
Qed.

Lemma takeN_takeN {A} a b (l : list A) : (a <= b)%N -> takeN a (takeN b l) = takeN a l.
Proof.
  revert a b; induction l as [|x l IH]; intros a b H; cbn [takeN]; [reflexivity|].
  destruct (b =? 0)%N eqn:Eb.
  - assert (a = 0%N) by lia. subst a. reflexivity.
  - cbn [takeN]. destruct (a =? 0)%N eqn:Ea; [reflexivity|]. f_equal. apply IH. lia.
Qed.

Lemma dropN_takeN {A} a b (l : list A) : dropN a (takeN (a + b) l) = takeN b (dropN a l).
Proof.
  revert a b; induction l as [|x l IH]; intros a b; cbn [takeN dropN]; [reflexivity|].
  destruct (a =? 0)%N eqn:Ea.
  - assert (a = 0%N) by lia. subst a. rewrite N.add_0_l. rewrite dropN_0. reflexivity.
  - destruct (a + b =? 0)%N eqn:Eab; [lia|]. cbn [dropN]. rewrite Ea.
    replace (N.pred (a + b)) with (N.pred a + b)%N by lia. apply IH.
Qed.

Lemma zlen_nonneg l : 0 <= zlen l.
Proof. unfold zlen. lia. Qed.

Lemma zlen_app a b : zlen (a ++ b) = zlen a + zlen b.
Proof. unfold zlen. rewrite lenN_app. lia. Qed.

Lemma zlen_nil : zlen [] = 0.
Proof. reflexivity. Qed.

Lemma zlen_zero l : zlen l = 0 -> l = [].
Proof. unfold zlen. destruct l as [|x l]; [reflexivity|]. cbn [lenN]. lia. Qed.

Lemma zlen_take n l : 0 <= n -> zlen (rr_take n l) = Z.min n (zlen l).
Proof. intros H. unfold zlen, rr_take. rewrite lenN_takeN. lia. Qed.

Lemma zlen_drop n l : 0 <= n -> zlen (rr_drop n l) = Z.max 0 (zlen l - n).
Proof. intros H. unfold zlen, rr_drop. rewrite lenN_dropN. lia. Qed.

Lemma zlen_slice obj off len : 0 <= off -> 0 <= len -> off + len <= zlen obj -> zlen (rr_slice obj off len) = len.
Proof. intros H1 H2 H3. unfold rr_slice. rewrite zlen_take by lia. rewrite zlen_drop by lia. lia. Qed.

Lemma take_slice obj off len c : 0 <= c <= len -> rr_take c (rr_slice obj off len) = rr_slice obj off c.
Proof. intros H. unfold rr_slice, rr_take. apply takeN_takeN. lia. Qed.

Lemma drop_slice obj off len c : 0 <= off -> 0 <= c <= len ->
  rr_drop c (rr_slice obj off len) = rr_slice obj (off + c) (len - c).
Proof.
  intros H0 H. unfold rr_slice, rr_take, rr_drop.
  replace (Z.to_N len) with (Z.to_N c + Z.to_N (len - c))%N by lia.
  rewrite dropN_takeN. rewrite dropN_dropN. f_equal. f_equal. lia.
Qed.

Lemma slice_split obj off a b : 0 <= off -> 0 <= a -> 0 <= b ->
  rr_slice obj off (a + b) = rr_slice obj off a ++ rr_slice obj (off + a) b.
Proof.
  intros H0 Ha Hb. unfold rr_slice, rr_take, rr_drop.
  replace (Z.to_N (a + b)) with (Z.to_N a + Z.to_N b)%N by lia.
  rewrite takeN_add. f_equal. rewrite dropN_dropN. f_equal. f_equal. lia.
Qed.

Lemma slice_zero obj off : rr_slice obj off 0 = [].
Proof. unfold rr_slice, rr_take. apply takeN_0. Qed.

Lemma slice_whole obj : rr_slice obj 0 (zlen obj) = obj.
Proof. unfold rr_slice, rr_take, rr_drop. cbn [Z.to_N]. rewrite dropN_0. apply takeN_all. unfold zlen. lia. Qed.

Lemma take_zero l : rr_take 0 l = [].
Proof. apply takeN_0. Qed.

(* ================= the iterator primitives on concrete states ================= *)
Lemma cpm_busy r d o : d <> 0 -> r <> [] -> can_pack_more (mkIt r d o false) = (mkIt r d o false, true).
Proof.
  intros Hd Hr. unfold can_pack_more. cbn [it_debt it_rest it_out it_bad].
  destruct (d =? 0) eqn:E; [lia|]. destruct r as [|c r]; [contradiction|].
  cbn [at_end it_rest rflag it_debt it_out it_bad]. rewrite E. reflexivity.
Qed.

Lemma cpm_next c n r o : snd n <> 0 ->
  can_pack_more (mkIt (c :: n :: r) 0 o false) = (mkIt (n :: r) (snd n) o false, true).
Proof.
  intros Hn. unfold can_pack_more, update_spec.
  cbn [it_debt it_rest it_out it_bad set_rest rflag set_debt at_end Z.eqb negb orb].
  destruct (snd n =? 0) eqn:E; [lia|]. reflexivity.
Qed.

Lemma cpm_last c o : can_pack_more (mkIt [c] 0 o false) = (mkIt [] 0 o false, false).
Proof. reflexivity. Qed.

Lemma cpm_ended o : can_pack_more (mkIt [] 0 o false) = (mkIt [] 0 o false, false).
Proof. reflexivity. Qed.

Lemma gnro_busy co cl r d o : d <> 0 -> o <= co + cl - d ->
  get_next_range_offset (mkIt ((co, cl) :: r) d o false) = (mkIt ((co, cl) :: r) d o false, co + cl - d).
Proof.
  intros Hd Ho. unfold get_next_range_offset. rewrite cpm_busy by (try discriminate; assumption).
  cbn [negb rflag it_rest it_debt it_out it_bad orb current_spec].
  destruct (co + cl - d <? o) eqn:E; [lia|]. rewrite andb_false_r. reflexivity.
Qed.

Lemma lts_busy co cl r d o astart asize : 0 < d ->
  length_to_send (mkIt ((co, cl) :: r) d o false) astart asize =
  (mkIt ((co, cl) :: r) d o false, if astart <? co then 0 else Z.min d asize).
Proof.
  intros Hd. unfold length_to_send. rewrite cpm_busy by (try discriminate; lia).
  cbn [negb rflag it_rest it_debt it_out it_bad orb current_spec].
  destruct (d =? -1) eqn:E1; [lia|]. destruct (0 <? d) eqn:E2; [|lia].
  cbn [negb orb]. destruct (astart <? co); reflexivity.
Qed.

Lemma note_sent_ok r d o n : 0 < d -> 0 <= n <= d ->
  note_sent (mkIt r d o false) n = mkIt r (d - n) (o + n) false.
Proof.
  intros Hd Hn. unfold note_sent. cbn [set_out it_rest it_debt it_out it_bad].
  destruct (d =? -1) eqn:E1; [lia|]. cbn [set_debt rflag it_rest it_debt it_out it_bad orb].
  destruct (d - n <? 0) eqn:E2; [lia|]. destruct (d - n <? -1) eqn:E3; [lia|]. reflexivity.
Qed.

(* ================= what a 206 body has to be ================= *)
(* ascending, disjoint, non-empty, inside the body: the canonical non-complex lists *)
Fixpoint chain (clen lo : Z) (l : list rspec2) : Prop :=
  match l with
  | [] => True
  | c :: r => lo <= fst c /\ 0 < snd c /\ fst c + snd c <= clen /\ chain clen (fst c + snd c) r
  end.

Definition hdr_mp (e : renv) (c : rspec2) : bytes := if e_multipart e then pack_range_hdr e c else [].
Definition term_mp (e : renv) : bytes := if e_multipart e then pack_term_bound e else [].

(* the parts, in order: (part header) ++ object[offset, offset+length) *)
Fixpoint parts_body (e : renv) (obj : bytes) (cs : list rspec2) : bytes :=
  match cs with
  | [] => []
  | c :: r => hdr_mp e c ++ rr_slice obj (fst c) (snd c) ++ parts_body e obj r
  end.
Definition expected_body (e : renv) (obj : bytes) (cs : list rspec2) : bytes := parts_body e obj cs ++ term_mp e.

(* what is still to be written when d bytes of the current spec c are owed *)
Definition hdr_if (e : renv) (c : rspec2) (d : Z) : bytes :=
  if e_multipart e && (d =? snd c) then pack_range_hdr e c else [].
Definition remaining (e : renv) (obj : bytes) (c : rspec2) (r : list rspec2) (d : Z) : bytes :=
  hdr_if e c d ++ rr_slice obj (fst c + snd c - d) d ++ parts_body e obj r ++ term_mp e.

Fixpoint sum_len (l : list rspec2) : Z := match l with [] => 0 | c :: r => snd c + sum_len r end.

Lemma remaining_start e obj c r : remaining e obj c r (snd c) = expected_body e obj (c :: r).
Proof.
  unfold remaining, expected_body, hdr_if, hdr_mp. cbn [parts_body]. rewrite Z.eqb_refl, andb_true_r.
  replace (fst c + snd c - snd c) with (fst c) by lia. unfold hdr_mp. now rewrite <- !app_assoc.
Qed.

Lemma chain_sum_nonneg clen lo l : chain clen lo l -> 0 <= sum_len l.
Proof. revert lo; induction l as [|c r IH]; intros lo H; cbn [sum_len]; [lia|]. destruct H as (_ & H2 & _ & H4). specialize (IH _ H4). lia. Qed.

