(* TypedmsgModel.v — executable model of Ipc::TypedMsgHdr (src/ipc/TypedMsgHdr.cc, .h): the typed
   put/get primitives over the fixed data buffer { int type_; size_t size; char raw[maxSize]; } and the
   read cursor `offset`.  Definitions only; proofs are in TypedmsgProofs.v.

   Memory.  data.raw is a byte list of length tm_raw_size.  Every memcpy from/to data.raw goes through
   mem_read / mem_write, which answer None when the accessed range is not inside the array: that is the
   model's "reads/writes beyond the buffer" (undefined behaviour in C++), reported as TUndef.  The
   theorems show TUndef is unreachable.

   Integers.  int is 4 bytes, little endian, two's complement (checked against the generated constants by
   C58_layout_constants); data.size is a size_t and offset an unsigned int, with their wrap-around written
   out.  Must(...) failures (TextException) are TThrow. *)
Require Import SquidV.Bytes.
Require Import SquidV.gen.Typedmsg_gen.
Local Open Scope N_scope.

Record tmsg := mkTm {
  t_iov : bool;      (* msg_iov != nullptr: the data component is allocated *)
  t_type : Z;        (* data.type_ *)
  t_size : N;        (* data.size *)
  t_raw : list N;    (* data.raw *)
  t_off : N          (* offset *)
}.

Inductive tres (A : Type) := TOk (a : A) | TThrow | TUndef.
Arguments TOk {A} a.
Arguments TThrow {A}.
Arguments TUndef {A}.

(* ---- memory ------------------------------------------------------------------------------------ *)
Definition mem_read (raw : list N) (pos n : N) : option (list N) :=
  if pos + n <=? lenN raw then Some (takeN n (dropN pos raw)) else None.

Definition mem_write (raw : list N) (pos : N) (b : list N) : option (list N) :=
  if pos + lenN b <=? lenN raw then Some (takeN pos raw ++ b ++ dropN (pos + lenN b) raw) else None.

Definition wrap_size (n : N) : N := n mod (tm_size_t_max + 1).
Definition wrap_off (n : N) : N := n mod (tm_offset_max + 1).

(* ---- int <-> bytes ----------------------------------------------------------------------------- *)
Definition int_bytes (z : Z) : list N :=
  let u := Z.to_N (z mod 4294967296)%Z in
  [u mod 256; (u / 256) mod 256; (u / 65536) mod 256; (u / 16777216) mod 256].

Definition bytes_int (b : list N) : Z :=
  match b with
  | [b0; b1; b2; b3] =>
    let u := (b0 mod 256) + 256 * (b1 mod 256) + 65536 * (b2 mod 256) + 16777216 * (b3 mod 256) in
    if u <? 2147483648 then Z.of_N u else (Z.of_N u - 4294967296)%Z
  | _ => 0%Z
  end.

(* ---- TypedMsgHdr::clear / prepForReading / allocData -------------------------------------------- *)
Definition zero_raw : list N := repeat 0 (N.to_nat tm_raw_size).
Definition tm_fresh : tmsg := mkTm false 0%Z 0 zero_raw 0.           (* TypedMsgHdr() *)

(* ---- getRaw / putRaw ----------------------------------------------------------------------------- *)
(* if (rawSize > 0) { Must(data.size <= sizeof(data.raw)); Must(offset <= data.size);
                      Must(rawSize <= data.size - offset); memcpy(rawBuf, data.raw + offset, rawSize);
                      offset += rawSize; } *)
Definition tm_get_raw (m : tmsg) (n : N) : tres (list N) * tmsg :=
  if n =? 0 then (TOk [], m)
  else if negb (t_size m <=? tm_raw_size) then (TThrow, m)
  else if negb (t_off m <=? t_size m) then (TThrow, m)
  else if negb (n <=? t_size m - t_off m) then (TThrow, m)
  else match mem_read (t_raw m) (t_off m) n with
       | Some b => (TOk b, mkTm (t_iov m) (t_type m) (t_size m) (t_raw m) (wrap_off (t_off m + n)))
       | None => (TUndef, m)
       end.

(* if (rawSize > 0) { Must(data.size <= sizeof(data.raw)); Must(rawSize <= sizeof(data.raw) - data.size);
                      memcpy(data.raw + data.size, rawBuf, rawSize); data.size += rawSize; } *)
Definition tm_put_raw (m : tmsg) (b : list N) : tres unit * tmsg :=
  if lenN b =? 0 then (TOk tt, m)
  else if negb (t_size m <=? tm_raw_size) then (TThrow, m)
  else if negb (lenN b <=? tm_raw_size - t_size m) then (TThrow, m)
  else match mem_write (t_raw m) (t_size m) b with
       | Some raw' => (TOk tt, mkTm (t_iov m) (t_type m) (wrap_size (t_size m + lenN b)) raw' (t_off m))
       | None => (TUndef, m)
       end.

(* ---- typed accessors --------------------------------------------------------------------------- *)
Definition tm_raw_type (m : tmsg) : Z := if t_iov m then t_type m else 0%Z.

(* Must(rawType() == destType) *)
Definition tm_check_type (m : tmsg) (t : Z) : tres unit * tmsg :=
  if (tm_raw_type m =? t)%Z then (TOk tt, m) else (TThrow, m).

(* if (data.type_) Must(data.type_ == aType); else { allocData(); data.type_ = aType; }
   allocData: Must(!msg_iovlen && !msg_iov); ...; data.type_ = 0; data.size = 0; *)
Definition tm_set_type (m : tmsg) (t : Z) : tres unit * tmsg :=
  if negb (t_type m =? 0)%Z then
    (if (t_type m =? t)%Z then (TOk tt, m) else (TThrow, m))
  else if t_iov m then (TThrow, m)
  else (TOk tt, mkTm true t 0 (t_raw m) (t_off m)).

Definition tm_get_int (m : tmsg) : tres Z * tmsg :=
  match tm_get_raw m tm_int_size with
  | (TOk b, m') => (TOk (bytes_int b), m')
  | (TThrow, m') => (TThrow, m')
  | (TUndef, m') => (TUndef, m')
  end.

Definition tm_put_int (m : tmsg) (z : Z) : tres unit * tmsg := tm_put_raw m (int_bytes z).

(* const int length = getInt(); Must(length >= 0); if (!length) { s.clean(); return; }
   Must(length <= maxSize); char buf[maxSize]; getRaw(&buf, length); s.assign(buf, length); *)
Definition tm_get_string (m : tmsg) : tres (list N) * tmsg :=
  match tm_get_int m with
  | (TOk len, m1) =>
    if (len <? 0)%Z then (TThrow, m1)
    else if (len =? 0)%Z then (TOk [], m1)
    else if negb (len <=? Z.of_N tm_max_size)%Z then (TThrow, m1)
    else tm_get_raw m1 (Z.to_N len)
  | (TThrow, m1) => (TThrow, m1)
  | (TUndef, m1) => (TUndef, m1)
  end.

(* Must(s.psize() <= maxSize); putInt(s.psize()); putRaw(s.rawBuf(), s.psize()); *)
Definition tm_put_string (m : tmsg) (s : list N) : tres unit * tmsg :=
  if negb (lenN s <=? tm_max_size) then (TThrow, m)
  else match tm_put_int m (Z.of_N (lenN s)) with
       | (TOk _, m1) => tm_put_raw m1 s
       | r => r
       end.

Definition tm_has_more (m : tmsg) : bool := t_off m <? t_size m.

(* a received message: prepForReading() and the data buffer as it came off the socket *)
Definition tm_received (ty : Z) (sz : N) (raw : list N) : tmsg := mkTm true ty sz raw 0.
(* TypedMsgHdr(const TypedMsgHdr &): all fields, then sync() resets offset *)
Definition tm_copy (m : tmsg) : tmsg := mkTm (t_iov m) (t_type m) (t_size m) (t_raw m) 0.

(* ---- histories --------------------------------------------------------------------------------- *)
Inductive top :=
| TSetType (t : Z) | TPutInt (z : Z) | TPutFixed (b : list N) | TPutString (b : list N)
| TRecv | TCopy | TReset (ty : Z) (sz : N) (raw : list N)
| TCheckType (t : Z) | TRawType | TGetInt | TGetFixed (n : N) | TGetString | THasMore | TDump.

Inductive tout :=
| OOk | OThrow | OUndef | OInt (z : Z) | OBytes (b : list N) | OBool (b : bool) | ODump (ty : Z) (payload : list N).

Definition out_unit (r : tres unit) : tout := match r with TOk _ => OOk | TThrow => OThrow | TUndef => OUndef end.
Definition out_bytes (r : tres (list N)) : tout := match r with TOk b => OBytes b | TThrow => OThrow | TUndef => OUndef end.
Definition out_int (r : tres Z) : tout := match r with TOk z => OInt z | TThrow => OThrow | TUndef => OUndef end.

Definition tm_step (m : tmsg) (o : top) : tmsg * tout :=
  match o with
  | TSetType t => let '(r, m') := tm_set_type m t in (m', out_unit r)
  | TPutInt z => let '(r, m') := tm_put_int m z in (m', out_unit r)
  | TPutFixed b => let '(r, m') := tm_put_raw m b in (m', out_unit r)
  | TPutString b => let '(r, m') := tm_put_string m b in (m', out_unit r)
  | TRecv => (tm_received (t_type m) (t_size m) (t_raw m), OOk)
  | TCopy => (tm_copy m, OOk)
  | TReset ty sz raw => (tm_received ty sz raw, OOk)
  | TCheckType t => let '(r, m') := tm_check_type m t in (m', out_unit r)
  | TRawType => (m, OInt (tm_raw_type m))
  | TGetInt => let '(r, m') := tm_get_int m in (m', out_int r)
  | TGetFixed n => let '(r, m') := tm_get_raw m n in (m', out_bytes r)
  | TGetString => let '(r, m') := tm_get_string m in (m', out_bytes r)
  | THasMore => (m, OBool (tm_has_more m))
  | TDump => (m, ODump (t_type m) (takeN (N.min (t_size m) tm_raw_size) (t_raw m)))
  end.

Fixpoint tm_run (m : tmsg) (ops : list top) : list (tout * N * N) * tmsg :=
  match ops with
  | [] => ([], m)
  | o :: r => let '(m1, out) := tm_step m o in
              let '(outs, m2) := tm_run m1 r in ((out, t_size m1, t_off m1) :: outs, m2)
  end.

(* building the raw array of a TReset from (fill, pos, bytes), as the harness does *)
Fixpoint overlay (raw : list N) (pos : N) (b : list N) : list N :=
  match raw with
  | [] => []
  | x :: r => if pos =? 0 then match b with [] => raw | y :: b' => y :: overlay r 0 b' end
              else x :: overlay r (N.pred pos) b
  end.
Definition raw_of (fill pos : N) (b : list N) : list N := overlay (repeat fill (N.to_nat tm_raw_size)) pos b.
