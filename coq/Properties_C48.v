(* Properties_C48.v — C48: byte-string values (SBuf) behave as independent values.
   Statements only; the model is SbufModel.v (src/sbuf/SBuf.cc, MemBlob.cc), proofs are in SbufProofs.v.

   Vocabulary: a state is a heap of ref-counted blobs plus a list of SBuf variables; `absv st` is the
   list of the variables' contents (what an observer sees); `SInv st` is the representation invariant
   (lock count of every blob = number of variables referring to it + 1 for the static prototype pointer
   on blob 0; every variable's [off, off+len) lies inside its blob's used area; used <= capacity);
   `spec_vals` applies an operation to a plain list of independent byte strings. *)
Require Import SquidV.Bytes SquidV.SbufModel SquidV.SbufProofs.
Require Import SquidV.gen.Sbuf_gen.
Local Open Scope N_scope.

(* --- fresh variables are independent empty values --- *)
Theorem C48_initial_state : forall alloc_cap nv,
  SInv (init_state alloc_cap nv) /\ absv (init_state alloc_cap nv) = repeat [] nv.
Proof. exact (fun a nv => conj (init_inv a nv) (init_absv a nv)). Qed.

(* --- copy-on-write (SBuf::cow, behind setAt/reserve*/rawSpace/append): for ANY heap satisfying the
   invariant with ANY set of extra lock holders, ANY variable i and ANY requested size, cow keeps the
   invariant, keeps i's contents, keeps every other variable's contents and every blob that has a second
   holder byte-for-byte, whether it returns or throws; on return i is the only variable on its blob,
   sits at the blob's end, and (given an allocator that returns at least what is asked) has the
   requested room --- *)
Theorem C48_cow_keeps_all_values : forall alloc_cap h vs ex i s ns0 r (isok : bool),
  Inv h vs ex -> (i < length vs)%nat -> nth i vs sb0 = s ->
  cow alloc_cap h s ns0 = (if isok then Ok r else Throw r) ->
  keeps h vs ex i r /\
  (isok = true -> tail (fst r) (snd r) /\ sole vs i (snd r) /\ slen (snd r) = slen s /\
                  ((forall n, n <= maxSize -> n <= cap32 alloc_cap n) ->
                   clamp_newsize s ns0 - slen s <=
                   bcap (getb (fst r) (sstore (snd r))) - bsize (getb (fst r) (sstore (snd r))))).
Proof. exact cow_spec. Qed.

(* --- append (SBuf::lowAppend behind append/push_back/assign from a char pointer): for ANY source pointer — external
   memory, another variable's storage, or this variable's OWN storage as long as something (the Locker)
   holds a second lock — the target becomes old ++ source bytes, every other variable keeps its
   contents, the invariant is kept; a throw leaves all contents as they were; no read outside a live
   object ever happens --- *)
Theorem C48_append_is_list_append_even_when_aliased : forall alloc_cap h vs ex i s p n,
  Inv h vs ex -> (i < length vs)%nat -> nth i vs sb0 = s -> src_ok h s p n ->
  match lowAppend alloc_cap h s p n with
  | Ok r => Inv (fst r) (upd vs i (snd r)) ex /\ others_same h (fst r) vs i /\
            content (fst r) (snd r) = content h s ++ read_src h p n /\ (length h <= length (fst r))%nat
  | Throw r => Inv (fst r) (upd vs i (snd r)) ex /\ others_same h (fst r) vs i /\
               content (fst r) (snd r) = content h s /\ (length h <= length (fst r))%nat
  | Undef => False
  end.
Proof. exact lowAppend_spec. Qed.

(* --- one operation on variables = the same operation on independent values.
   `covered` = every modelled operation whose indices name existing variables (rawAppend: the caller
   writes at most the n bytes it asked for) EXCEPT toLower, toUpper and c_str, which are modelled and
   differentially tested but not lifted here (hence _partial). Covered: assign(ptr,n), v[i]=v[j]
   (incl. i=j), append(SBuf) (incl. a.append(a)), append(ptr,n), append/assign from a pointer into
   another or the SAME variable's storage, push_back, consume, chop, substr, trim (incl. a.trim(a)),
   setAt, clear, reserveSpace, reserveCapacity, reserve(req), rawAppendStart+Finish, all const operations.
   `spec_after` applies the operation to a list of independent byte strings (spec_vals); an operation
   that threw changes nothing (assign(ptr,n) has already cleared its target: spec_throw); a skipped
   pointer operation / a short rawAppendStart change nothing. --- *)
Theorem C48_step_refines_values_partial : forall alloc_cap st o, SInv st -> covered st o ->
  SInv (fst (step alloc_cap st o)) /\ snd (step alloc_cap st o) <> RUndef /\
  absv (fst (step alloc_cap st o)) = spec_after (absv st) o (snd (step alloc_cap st o)).
Proof. exact step_refines. Qed.

(* --- any sequence of covered operations on any number of variables, from any state satisfying the
   invariant: contents after the sequence are those of the same sequence on independent values --- *)
Theorem C48_run_refines_values_partial : forall alloc_cap ops st, SInv st -> covered_run alloc_cap st ops ->
  SInv (fst (run alloc_cap st ops)) /\ Forall (fun x => x <> RUndef) (snd (run alloc_cap st ops)) /\
  absv (fst (run alloc_cap st ops)) = spec_run (absv st) ops (snd (run alloc_cap st ops)).
Proof. exact run_refines. Qed.

(* --- setAt (copy-on-write then poke): target becomes pokeN, everybody else unchanged, a throw changes
   nothing, and afterwards the target is the only variable on its blob --- *)
Theorem C48_setAt_writes_only_the_target : forall alloc_cap h vs ex i s pos c,
  Inv h vs ex -> (i < length vs)%nat -> nth i vs sb0 = s ->
  RS h vs ex i (pokeN (content h s) pos c) (content h s) (sb_setAt alloc_cap h s pos c) /\
  (forall x, sb_setAt alloc_cap h s pos c = Ok x ->
     tail (fst x) (snd x) /\ sole vs i (snd x) /\ slen (snd x) = slen s).
Proof. exact sb_setAt_RS. Qed.

(* --- the <cctype> maps SBuf::toLower/toUpper and memcasecmp apply (regenerated from the platform) are
   the ASCII case maps on all 256 byte values; hence case-insensitive comparison is byte-wise
   comparison of the lower-cased values (was false before /repo commit 9d80e16) --- *)
Theorem C48_case_maps_are_ascii : forall c, c < 256 ->
  (if c_isupper c then to_char (c_tolower c) else c) = lower_byte c /\
  (if c_islower c then to_char (c_toupper c) else c) = upper_byte c /\
  c_tolower_u c = Z.of_N (lower_byte c).
Proof. exact case_tables_ascii. Qed.
Theorem C48_casecmp_is_cmp_of_lowercased : forall a b,
  Forall (fun c => c < 256) a -> Forall (fun c => c < 256) b ->
  cmp_with c_tolower_u a b = cmp_with Z.of_N (map lower_byte a) (map lower_byte b).
Proof. exact casecmp_is_cmp_of_lowercased. Qed.

(* non-vacuity: the hypotheses are satisfiable by concrete non-trivial states and operations
   (the former counterexamples chop(5, npos-1) and rawAppend(0, "") on a shared blob are now covered) *)
Example C48_covered_example :
  covered_run harness_alloc_cap (init_h 2)
    [OApl 0 hello; OSub 1 0 0 5; ORaw 1 0 []; OApl 1 [88; 89; 90]; OChp 0 5 4294967294; OApp 1 1; OSat 0 0 74; OTrm 1 1 true true].
Proof. cbn [covered_run]. repeat split; try (vm_compute; lia); try (vm_compute; intro X; discriminate X). Qed.
Example C48_run_example :
  absv (fst (run harness_alloc_cap (init_h 2)
    [OApl 0 hello; OSub 1 0 0 5; ORaw 1 0 []; OApl 1 [88; 89; 90]; OChp 0 5 4294967294; OApp 1 1; OSat 0 0 74; OTrm 1 1 true true]))
  = [[74; 119; 111; 114; 108; 100]; []].
Proof. vm_compute. reflexivity. Qed.
Example C48_src_ok_self_alias_example :   (* a.append(a) under the Locker: the source is this's own, doubly held blob *)
  let st := fst (step_h (init_h 1) (OApl 0 hello)) in
  src_ok (lock (hp st) (sstore (getv st 0))) (getv st 0) (SPtr (sstore (getv st 0)) 0) 11.
Proof.
  cbn zeta. cbn [src_ok]. right. split; [vm_compute; lia|]. split; [vm_compute; intro X; discriminate X|].
  right. vm_compute. intro X; discriminate X.
Qed.

Print Assumptions C48_initial_state.
Print Assumptions C48_cow_keeps_all_values.
Print Assumptions C48_append_is_list_append_even_when_aliased.
Print Assumptions C48_step_refines_values_partial.
Print Assumptions C48_run_refines_values_partial.
Print Assumptions C48_setAt_writes_only_the_target.
Print Assumptions C48_case_maps_are_ascii.
Print Assumptions C48_casecmp_is_cmp_of_lowercased.
