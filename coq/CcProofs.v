(* CcProofs.v — proofs about CcModel (C29). *)
Require Import SquidV.Bytes SquidV.HopModel SquidV.HopProofs SquidV.TokModel SquidV.Int64Proofs.
Require Import SquidV.gen.CcNames_gen SquidV.CcModel.
Require Import ZifyBool ZifyN ZifyNat.
Local Open Scope N_scope.

(* ====================================================================== *)
(* Part A. the parse loop is a fold over the (item, tail) pairs of the strListGetItem iteration,
   never runs out of fuel, and the items are HopModel.list_items *)

(* what scan_item consumed *)
Lemma scan_item_split del : forall l q acc it rest,
  scan_item del q l acc = (it, rest) ->
  exists used, l = used ++ rest /\ it = rev acc ++ used.
Proof.
  fix IH 1. intros l q acc it rest H. destruct l as [|c r].
  - cbn in H. injection H as <- <-. exists []. split; [reflexivity| now rewrite app_nil_r].
  - cbn [scan_item] in H. destruct q.
    + destruct (c =? 34) eqn:E34.
      * apply IH in H. destruct H as (u & -> & ->). exists (c :: u). cbn [rev app]. split; [reflexivity| now rewrite <- app_assoc].
      * destruct (c =? 92) eqn:E92.
        -- destruct r as [|d r'].
           ++ injection H as <- <-. exists [c]. cbn [rev app]. split; reflexivity.
           ++ apply IH in H. destruct H as (u & -> & ->). exists (c :: d :: u). cbn [rev app].
              rewrite <- !app_assoc. split; reflexivity.
        -- apply IH in H. destruct H as (u & -> & ->). exists (c :: u). cbn [rev app]. split; [reflexivity| now rewrite <- app_assoc].
    + destruct (c =? 34) eqn:E34.
      * apply IH in H. destruct H as (u & -> & ->). exists (c :: u). cbn [rev app]. split; [reflexivity| now rewrite <- app_assoc].
      * destruct ((c =? del) || (c =? 44)) eqn:Ed.
        -- injection H as <- <-. exists []. split; [reflexivity| now rewrite app_nil_r].
        -- apply IH in H. destruct H as (u & -> & ->). exists (c :: u). cbn [rev app]. split; [reflexivity| now rewrite <- app_assoc].
Qed.

Lemma drop_while_length p l : (length (drop_while p l) <= length l)%nat.
Proof. induction l as [|c r IH]; cbn [drop_while length]; [lia|]. destruct (p c); cbn [length]; lia. Qed.

Lemma rtrim_nil : rtrim [] = [].
Proof. reflexivity. Qed.

(* the (item, tail) pairs *)
Fixpoint cc_pairs (fuel : nat) (l : bytes) : list (bytes * bytes) :=
  match fuel with
  | O => []
  | S f =>
      let l1 := drop_while (is_delim2 44) l in
      let '(raw, rest) := scan_item 44 false l1 [] in
      match rtrim raw with
      | [] => []
      | it => (it, l1) :: cc_pairs f rest
      end
  end.

Definition step_pair (st : cc) (p : bytes * bytes) : cc := cc_step st (fst p) (snd p).

Lemma cc_loop_fold : forall fuel l st, (length l < fuel)%nat ->
  cc_loop fuel l st = Some (fold_left step_pair (cc_pairs fuel l) st).
Proof.
  induction fuel as [|f IH]; intros l st Hlen; [lia|].
  cbn [cc_loop cc_pairs].
  pose proof (drop_while_length (is_delim2 44) l) as Hd.
  destruct (scan_item 44 false (drop_while (is_delim2 44) l) []) as [raw rest] eqn:Es.
  destruct (scan_item_split _ _ _ _ _ _ Es) as (used & Hl1 & Hraw). cbn [rev app] in Hraw. subst used.
  destruct (rtrim raw) as [|i0 it] eqn:Er; [reflexivity|].
  cbn [fold_left]. unfold step_pair at 2. cbn [fst snd].
  apply IH.
  assert (raw <> []) by (intros ->; discriminate).
  apply (f_equal (@length N)) in Hl1. rewrite app_length in Hl1.
  destruct raw; [contradiction|]. cbn [length] in Hl1. lia.
Qed.

Lemma cc_pairs_items : forall fuel l, map fst (cc_pairs fuel l) = items_fuel fuel 44 l.
Proof.
  induction fuel as [|f IH]; intros l; [reflexivity|].
  cbn [cc_pairs items_fuel].
  destruct (scan_item 44 false (drop_while (is_delim2 44) l) []) as [raw rest].
  destruct (rtrim raw) as [|i0 it]; [reflexivity|]. cbn [map fst]. now rewrite IH.
Qed.

Lemma cc_items_items : forall fuel l, cc_items fuel l = items_fuel fuel 44 l.
Proof.
  induction fuel as [|f IH]; intros l; [reflexivity|].
  cbn [cc_items items_fuel].
  destruct (scan_item 44 false (drop_while (is_delim2 44) l) []) as [raw rest].
  destruct (rtrim raw) as [|i0 it]; [reflexivity|]. now rewrite IH.
Qed.

Definition pairs_of (v : bytes) : list (bytes * bytes) := cc_pairs (S (length (c_str v))) (c_str v).

Lemma cc_parse_from_fold st v : cc_parse_from st v = Some (fold_left step_pair (pairs_of v) st).
Proof. unfold cc_parse_from, pairs_of. apply cc_loop_fold. lia. Qed.

Lemma pairs_of_items v : map fst (pairs_of v) = list_items 44 v.
Proof.
  unfold pairs_of, list_items. rewrite cc_pairs_items.
  (* list_items uses fuel S (length v); both fuels exceed the length of c_str v *)
  assert (G : forall f1 f2 l, (length l < f1)%nat -> (length l < f2)%nat -> items_fuel f1 44 l = items_fuel f2 44 l).
  { induction f1 as [|f1 IH]; intros f2 l H1 H2; [lia|]. destruct f2 as [|f2]; [lia|].
    cbn [items_fuel].
    pose proof (drop_while_length (is_delim2 44) l) as Hd.
    destruct (scan_item 44 false (drop_while (is_delim2 44) l) []) as [raw rest] eqn:Es.
    destruct (scan_item_split _ _ _ _ _ _ Es) as (used & Hl1 & Hraw). cbn [rev app] in Hraw. subst used.
    destruct (rtrim raw) as [|i0 it] eqn:Er; [reflexivity|].
    f_equal. assert (raw <> []) by (intros ->; discriminate).
    apply (f_equal (@length N)) in Hl1. rewrite app_length in Hl1.
    destruct raw; [contradiction|]. cbn [length] in Hl1. apply IH; lia. }
  apply G; [lia|].
  unfold c_str. pose proof (span_app (fun c => negb (c =? 0)) v) as Hs.
  apply (f_equal (@length N)) in Hs. rewrite app_length in Hs. lia.
Qed.

(* ====================================================================== *)
(* Part B. shape of the (item, tail) pairs, and locality of the reads past the item *)

Definition no_nul (l : bytes) : Prop := forallb (fun c => negb (c =? 0)) l = true.
Definition ends_nonspace (it : bytes) : Prop := exists b c, it = b ++ [c] /\ is_xspace c = false.
Definition comma_or_end (rest : bytes) : Prop := rest = [] \/ exists r, rest = 44 :: r.

(* tail = it ++ (white space) ++ (end of value | ',' ...) *)
Definition wf_pair (p : bytes * bytes) : Prop :=
  let '(it, tail) := p in
  ends_nonspace it /\ is_delim2 44 (hdz it) = false /\
  exists ws rest, tail = it ++ ws ++ rest /\ forallb is_xspace ws = true /\ comma_or_end rest /\ no_nul tail.

Lemma drop_while_split p l :
  exists a, l = a ++ drop_while p l /\ forallb p a = true /\
            match drop_while p l with [] => True | c :: _ => p c = false end.
Proof.
  induction l as [|c r IH]; cbn [drop_while].
  - exists []. repeat split.
  - destruct (p c) eqn:E.
    + destruct IH as (a & H1 & H2 & H3). exists (c :: a). cbn [app forallb]. rewrite E, H2. split; [now f_equal|]. split; [reflexivity|exact H3].
    + exists []. cbn. rewrite E. repeat split.
Qed.

Lemma forallb_rev {A} (p : A -> bool) l : forallb p (rev l) = forallb p l.
Proof.
  induction l as [|x l IH]; [reflexivity|]. cbn [rev forallb]. rewrite forallb_app, IH. cbn [forallb].
  destruct (p x), (forallb p l); reflexivity.
Qed.

Lemma rtrim_split l :
  exists ws, l = rtrim l ++ ws /\ forallb is_xspace ws = true /\ (rtrim l = [] \/ ends_nonspace (rtrim l)).
Proof.
  unfold rtrim. destruct (drop_while_split is_xspace (rev l)) as (a & H1 & H2 & H3).
  exists (rev a). split.
  - rewrite <- rev_app_distr, <- H1. now rewrite rev_involutive.
  - split; [now rewrite forallb_rev|].
    destruct (drop_while is_xspace (rev l)) as [|c r]; [now left|]. right.
    exists (rev r), c. cbn [rev]. split; [reflexivity|exact H3].
Qed.

Lemma scan_item_rest : forall l q acc it rest,
  scan_item 44 q l acc = (it, rest) -> comma_or_end rest.
Proof.
  fix IH 1. intros l q acc it rest H. destruct l as [|c r].
  - cbn in H. injection H as <- <-. now left.
  - cbn [scan_item] in H. destruct q.
    + destruct (c =? 34); [exact (IH _ _ _ _ _ H)|].
      destruct (c =? 92).
      * destruct r as [|d r']; [injection H as <- <-; now left| exact (IH _ _ _ _ _ H)].
      * exact (IH _ _ _ _ _ H).
    + destruct (c =? 34); [exact (IH _ _ _ _ _ H)|].
      destruct ((c =? 44) || (c =? 44)) eqn:Ed.
      * injection H as <- <-. right. exists r. f_equal. clear IH. lia.
      * exact (IH _ _ _ _ _ H).
Qed.

Lemma no_nul_app a b : no_nul (a ++ b) <-> no_nul a /\ no_nul b.
Proof. unfold no_nul. rewrite forallb_app, andb_true_iff. tauto. Qed.

Lemma drop_while_head p l : match drop_while p l with [] => True | c :: _ => p c = false end.
Proof. destruct (drop_while_split p l) as (a & _ & _ & H). exact H. Qed.

Lemma cc_pairs_wf : forall fuel l, no_nul l -> Forall wf_pair (cc_pairs fuel l).
Proof.
  induction fuel as [|f IH]; intros l Hn; [constructor|].
  cbn [cc_pairs].
  destruct (drop_while_split (is_delim2 44) l) as (pre & Hl & _ & Hhd).
  set (l1 := drop_while (is_delim2 44) l) in *.
  assert (Hn1 : no_nul l1) by (rewrite Hl in Hn; apply no_nul_app in Hn; tauto).
  destruct (scan_item 44 false l1 []) as [raw rest] eqn:Es.
  destruct (scan_item_split _ _ _ _ _ _ Es) as (used & Hl1 & Hraw). cbn [rev app] in Hraw. subst used.
  pose proof (scan_item_rest _ _ _ _ _ Es) as Hrest.
  destruct (rtrim_split raw) as (ws & Hr & Hws & Hends).
  destruct (rtrim raw) as [|i0 it] eqn:Er; [constructor|].
  constructor.
  - unfold wf_pair. destruct Hends as [Hc|Hends]; [discriminate|].
    split; [exact Hends|]. split.
    { rewrite Hl1, Hr in Hhd. cbn [app hdz] in *. exact Hhd. }
    exists ws, rest. split; [|split; [exact Hws|split; [exact Hrest|exact Hn1]]].
    rewrite Hl1, Hr at 1. now rewrite <- app_assoc.
  - apply IH. rewrite Hl1 in Hn1. apply no_nul_app in Hn1. tauto.
Qed.

Lemma c_str_no_nul v : no_nul (c_str v).
Proof. unfold c_str, no_nul. apply span_all. Qed.

Lemma pairs_of_wf v : Forall wf_pair (pairs_of v).
Proof. apply cc_pairs_wf, c_str_no_nul. Qed.

(* ---- B1: strtol never reads a digit past the item ---- *)
Lemma c_string_no_nul l : no_nul l -> c_string l = l.
Proof.
  unfold no_nul. induction l as [|c r IH]; intros H; [reflexivity|].
  cbn [forallb] in H. apply andb_prop in H. destruct H as [Hc Hr].
  cbn [c_string]. destruct (c =? 0); [discriminate|]. now rewrite IH.
Qed.

Lemma digit_of_10_nondigit c : is_digit c = false -> digit_of 10 c = None.
Proof.
  intros H. unfold digit_of, digit_raw. rewrite H.
  destruct (is_upper c) eqn:Eu; [unfold is_upper in Eu; destruct (Z.of_N c - 55 >=? 10)%Z eqn:E; [reflexivity|lia]|].
  destruct (is_lower c) eqn:El; [unfold is_lower in El; destruct (Z.of_N c - 87 >=? 10)%Z eqn:E; [reflexivity|lia]|].
  reflexivity.
Qed.

Definition nondigit_head (y : bytes) : Prop := match y with [] => True | d :: _ => is_digit d = false end.

Lemma digit_run_app x y : nondigit_head y -> digit_run 10 (x ++ y) = digit_run 10 x.
Proof.
  intros Hy. induction x as [|c r IH]; cbn [app digit_run].
  - destruct y as [|d y']; [reflexivity|]. cbn [digit_run]. now rewrite (digit_of_10_nondigit d Hy).
  - destruct (digit_of 10 c); [now rewrite IH|reflexivity].
Qed.

Lemma xspace_nondigit c : is_xspace c = true -> is_digit c = false.
Proof. unfold is_xspace, is_digit. lia. Qed.

Lemma skip_space_app : forall x y n, (exists c, In c x /\ is_c_space c = false) ->
  skip_space (x ++ y) n = (fst (skip_space x n) ++ y, snd (skip_space x n)) /\ fst (skip_space x n) <> [].
Proof.
  induction x as [|c r IH]; intros y n (d & Hin & Hd); [destruct Hin|].
  cbn [app skip_space]. destruct (is_c_space c) eqn:E.
  - destruct Hin as [->|Hin]; [congruence|]. apply IH. now exists d.
  - cbn [fst snd app]. split; [reflexivity|discriminate].
Qed.

Lemma skip_space_all : forall ws rest n, forallb is_xspace ws = true -> comma_or_end rest ->
  fst (skip_space (ws ++ rest) n) = rest.
Proof.
  induction ws as [|c r IH]; intros rest n Hws Hrest; cbn [app].
  - destruct Hrest as [->|(r & ->)]; reflexivity.
  - cbn [forallb] in Hws. apply andb_prop in Hws. destruct Hws as [Hc Hr]. cbn [skip_space].
    change (is_c_space c) with (is_xspace c). rewrite Hc. now apply IH.
Qed.

Definition after_item (more : bytes) : Prop :=
  exists ws rest, more = ws ++ rest /\ forallb is_xspace ws = true /\ comma_or_end rest.

Lemma after_item_nondigit more : after_item more -> nondigit_head more.
Proof.
  intros (ws & rest & -> & Hws & Hrest). destruct ws as [|c r]; cbn [app].
  - destruct Hrest as [->|(r & ->)]; [exact I|reflexivity].
  - cbn [forallb] in Hws. apply andb_prop in Hws. apply xspace_nondigit. tauto.
Qed.

Definition sign_split (l1 : bytes) (n1 : N) : bool * bytes * N :=
  match l1 with
  | 45%N :: r => (true, r, N.succ n1)
  | 43%N :: r => (false, r, N.succ n1)
  | _ => (false, l1, n1)
  end.
Definition strtoll10_tail (neg : bool) (l2 : bytes) (n2 : N) : Z * N * bool :=
  let ds := digit_run 10 l2 in
  match ds with
  | [] => (0%Z, 0%N, false)
  | _ =>
    let v := digits_value 10 ds 0 in
    if neg then (if (v >? two63)%Z then ((- two63)%Z, (n2 + lenN ds)%N, true) else ((- v)%Z, (n2 + lenN ds)%N, false))
    else (if (v >? two63 - 1)%Z then ((two63 - 1)%Z, (n2 + lenN ds)%N, true) else (v, (n2 + lenN ds)%N, false))
  end.
Lemma strtoll10_unfold s :
  strtoll10 s = let '(l1, n1) := skip_space (c_string s) 0%N in
                let '(neg, l2, n2) := sign_split l1 n1 in strtoll10_tail neg l2 n2.
Proof. reflexivity. Qed.

Lemma sign_split_app l more n : l <> [] ->
  sign_split (l ++ more) n = let '(neg, l2, n2) := sign_split l n in (neg, l2 ++ more, n2).
Proof.
  intros Hl. destruct l as [|h t]; [contradiction|]. cbn [app]. unfold sign_split.
  destruct h as [|p]; [reflexivity|].
  destruct p as [p|p|]; try reflexivity;
  repeat (destruct p as [p|p|]; try reflexivity).
Qed.

Lemma strtoll10_tail_app neg l2 more n2 : nondigit_head more ->
  strtoll10_tail neg (l2 ++ more) n2 = strtoll10_tail neg l2 n2.
Proof. intros H. unfold strtoll10_tail. now rewrite (digit_run_app l2 more H). Qed.

Lemma strtoll10_local arg more :
  no_nul (arg ++ more) -> (arg = [] \/ ends_nonspace arg) -> after_item more ->
  strtoll10 (arg ++ more) = strtoll10 arg.
Proof.
  intros Hn Harg Hmore.
  pose proof (after_item_nondigit more Hmore) as Hnd.
  assert (Hna : no_nul arg) by (apply no_nul_app in Hn; tauto).
  rewrite !strtoll10_unfold. rewrite (c_string_no_nul _ Hn), (c_string_no_nul _ Hna).
  destruct Harg as [->|(b & c & -> & Hc)].
  - cbn [app skip_space]. destruct Hmore as (ws & rest & -> & Hws & Hrest).
    pose proof (skip_space_all ws rest 0 Hws Hrest) as Hs.
    destruct (skip_space (ws ++ rest) 0) as [l1 n1]. cbn [fst] in Hs. subst l1.
    destruct Hrest as [->|(r & ->)]; reflexivity.
  - destruct (skip_space_app (b ++ [c]) more 0) as [Hs Hne].
    { exists c. split; [apply in_or_app; right; now left| exact Hc]. }
    rewrite Hs. destruct (skip_space (b ++ [c]) 0) as [l1 n1]. cbn [fst snd] in *.
    rewrite (sign_split_app l1 more n1 Hne).
    destruct (sign_split l1 n1) as [[neg l2] n2].
    apply strtoll10_tail_app, Hnd.
Qed.

Lemma parse_int_local arg more :
  no_nul (arg ++ more) -> (arg = [] \/ ends_nonspace arg) -> after_item more ->
  parse_int (arg ++ more) = parse_int arg.
Proof.
  intros Hn Harg Hmore. unfold parse_int.
  rewrite (strtoll10_local arg more Hn Harg Hmore).
  assert (Hna : no_nul arg) by (apply no_nul_app in Hn; tauto).
  rewrite (c_string_no_nul _ Hn), (c_string_no_nul _ Hna).
  destruct arg as [|a0 ar]; [|reflexivity].
  cbn [app]. destruct (strtoll10 []) as [[v n] e] eqn:Es. cbn in Es. injection Es as <- <- <-.
  cbn. destruct more as [|m0 mr]; [reflexivity|].
  pose proof (after_item_nondigit _ Hmore) as Hnd. cbn in Hnd. now rewrite Hnd.
Qed.

(* ---- B2: httpHeaderParseQuotedString(p, len) gives the same answer whatever follows the item ---- *)
Lemma qd_run_app x after :
  qd_run (lenN x) (x ++ after) = (fst (qd_run (lenN x) x), snd (qd_run (lenN x) x) ++ after).
Proof.
  induction x as [|c r IH]; cbn [lenN app].
  - destruct after as [|a af]; reflexivity.
  - cbn [qd_run]. replace (0 <? N.succ (lenN r)) with true by lia. rewrite N.pred_succ. cbn [andb].
    destruct (qd_char c); [|reflexivity].
    rewrite IH. destruct (qd_run (lenN r) r) as [a b]. reflexivity.
Qed.

Lemma qd_run_split : forall l room, let '(run, e) := qd_run room l in l = run ++ e.
Proof.
  induction l as [|c r IH]; intros room; cbn [qd_run]; [reflexivity|].
  destruct ((0 <? room) && qd_char c); [|reflexivity].
  specialize (IH (N.pred room)). destruct (qd_run (N.pred room) r) as [a b]. cbn [app]. now f_equal.
Qed.

Lemma qd_run_progress c r room : 0 < room -> qd_char c = true ->
  exists a b, qd_run room (c :: r) = (c :: a, b).
Proof.
  intros Hr Hc. cbn [qd_run]. replace (0 <? room) with true by lia. rewrite Hc. cbn [andb].
  destruct (qd_run (N.pred room) r) as [a b]. now exists a, b.
Qed.

Lemma ends_suffix x e : (x ++ e = [] \/ ends_nonspace (x ++ e)) -> (e = [] \/ ends_nonspace e).
Proof.
  intros [H|(b & c & H & Hc)].
  - apply app_eq_nil in H. tauto.
  - destruct e as [|e0 er]; [now left|]. right.
    destruct (@exists_last _ (e0 :: er)) as (b' & c' & He); [discriminate|].
    rewrite He in H. rewrite app_assoc in H. apply app_inj_tail in H. destruct H as [_ ->].
    now exists b', c.
Qed.

Lemma ends_not_single_space c : is_xspace c = true -> ~ ends_nonspace [c].
Proof.
  intros Hc (b & d & H & Hd). destruct b as [|b0 b']; cbn in H.
  - injection H as ->. congruence.
  - injection H as _ H. destruct b'; discriminate.
Qed.

Lemma bad_ctl_not_qd c : qd_char c = false -> (c =? 34) = false -> (c =? 92) = false ->
  (c =? 13) = false -> (c =? 10) = false -> bad_ctl c = true.
Proof. unfold qd_char, bad_ctl. lia. Qed.

Lemma pqs_iter_end after len val : (hdz after =? 34) = false ->
  pqs_iter after len len val = QDone QFail.
Proof. intros H. unfold pqs_iter. rewrite H, N.ltb_irrefl. reflexivity. Qed.

Lemma pqs_iter_local s after k len val :
  k + lenN s = len -> (hdz after =? 34) = false -> (s = [] \/ ends_nonspace s) ->
  match pqs_iter s k len val with
  | QDone r => pqs_iter (s ++ after) k len val = QDone r \/
               (r = QFail /\ exists v, pqs_iter (s ++ after) k len val = QNext after len v)
  | QNext s' k' v => pqs_iter (s ++ after) k len val = QNext (s' ++ after) k' v /\ k' + lenN s' = len /\
                     (s' = [] \/ ends_nonspace s') /\ (length s' < length s)%nat
  end.
Proof.
  intros Hk Ha Hends.
  destruct s as [|c s'].
  { cbn [lenN app] in *. assert (k = len) by lia. subst k.
    rewrite (pqs_iter_end after len val Ha), (pqs_iter_end [] len val eq_refl). now left. }
  cbn [lenN] in Hk. unfold pqs_iter. cbn [app hdz tlz].
  replace (k <? len) with true by lia.
  destruct (c =? 34) eqn:E34; cbn [negb andb]; [now left|].
  destruct (c =? 13) eqn:E13.
  - (* CR *)
    assert (Hc : c = 13) by lia. subst c.
    destruct s' as [|d s''].
    { exfalso. destruct Hends as [H|H]; [discriminate|]. revert H. now apply ends_not_single_space. }
    cbn [lenN app hdz tlz] in *.
    replace (len <? k + 1) with false by lia. cbn [orb].
    destruct (d =? 10) eqn:Ed; cbn [negb]; [|now left].
    assert (d = 10) by lia. subst d.
    destruct s'' as [|e s3].
    { exfalso. destruct Hends as [H|H]; [discriminate|].
      destruct (ends_suffix [13] [10] (or_intror H)) as [H'|H']; [discriminate|].
      revert H'. now apply ends_not_single_space. }
    cbn [lenN app hdz tlz] in *.
    replace (len <? k + 1 + 1) with false by lia. cbn [orb].
    destruct (negb (e =? 32) && negb (e =? 9)) eqn:Ee; [now left|].
    split; [reflexivity|]. split; [lia|]. split; [|cbn [length]; lia].
    apply (ends_suffix [13; 10; e] s3). exact Hends.
  - cbn [hdz tlz]. destruct (c =? 10) eqn:E10.
    + (* LF *)
      assert (Hc : c = 10) by lia. subst c.
      destruct s' as [|e s3].
      { exfalso. destruct Hends as [H|H]; [discriminate|]. revert H. now apply ends_not_single_space. }
      cbn [lenN app hdz tlz] in *.
      replace (len <? k + 1) with false by lia. cbn [orb].
      destruct (negb (e =? 32) && negb (e =? 9)) eqn:Ee; [now left|].
      split; [reflexivity|]. split; [lia|]. split; [|cbn [length]; lia].
      apply (ends_suffix [10; e] s3). exact Hends.
    + destruct (c =? 92) eqn:E92.
      * (* quoted-pair *)
        cbn [andb].
        destruct s' as [|d s''].
        { (* the backslash is the last octet of the window: (pos-start) >= len *)
          cbn [lenN app hdz tlz] in *. replace (len <=? k + 1) with true by lia. rewrite !orb_true_r. now left. }
        cbn [lenN app hdz tlz] in *.
        replace (len <=? k + 1) with false by lia. rewrite orb_false_r.
        destruct (bad_escaped d) eqn:Ed0; [now left|].
        replace (len - (k + 1 + 1)) with (lenN s'') by lia.
        rewrite (qd_run_app s'' after).
        pose proof (qd_run_split s'' (lenN s'')) as Hsp.
        destruct (qd_run (lenN s'') s'') as [run e] eqn:Er. cbn [fst snd].
        destruct e as [|e0 er].
        { cbn [app hdz]. replace (bad_ctl 0) with true by reflexivity.
          destruct (bad_ctl (hdz after)); [now left|].
          right. split; [reflexivity|].
          rewrite app_nil_r in Hsp. replace (k + 1 + 1 + lenN run) with len by (rewrite <- Hsp; lia).
          eexists. reflexivity. }
        cbn [app hdz]. destruct (bad_ctl e0); [now left|].
        split; [reflexivity|].
        pose proof Hsp as Hlen. apply (f_equal lenN) in Hlen. rewrite lenN_app in Hlen. cbn [lenN] in Hlen.
        split; [cbn [lenN]; lia|]. split.
        { apply (ends_suffix (c :: d :: run) (e0 :: er)). cbn [app]. rewrite <- Hsp. exact Hends. }
        { apply (f_equal (@length N)) in Hsp. rewrite app_length in Hsp. cbn [length] in *. lia. }
      * (* ordinary octet *)
        cbn [andb app].
        replace (len - k) with (lenN (c :: s')) by (cbn [lenN]; lia).
        change (c :: s' ++ after) with ((c :: s') ++ after).
        rewrite (qd_run_app (c :: s') after).
        pose proof (qd_run_split (c :: s') (lenN (c :: s'))) as Hsp.
        destruct (qd_char c) eqn:Eq.
        -- destruct (qd_run_progress c s' (lenN (c :: s')) ltac:(cbn [lenN]; lia) Eq) as (a & b & Hr).
           rewrite Hr in *. cbn [fst snd].
           destruct b as [|e0 er].
           { cbn [app hdz]. replace (bad_ctl 0) with true by reflexivity.
             destruct (bad_ctl (hdz after)); [now left|].
             right. split; [reflexivity|].
             rewrite app_nil_r in Hsp. replace (k + lenN (c :: a)) with len by (rewrite <- Hsp; cbn [lenN] in *; lia).
             eexists. reflexivity. }
           cbn [app hdz]. destruct (bad_ctl e0); [now left|].
           split; [reflexivity|].
           pose proof Hsp as Hlen. apply (f_equal lenN) in Hlen. rewrite lenN_app in Hlen. cbn [lenN] in Hlen.
           split; [cbn [lenN]; lia|]. split.
           { apply (ends_suffix (c :: a) (e0 :: er)). rewrite <- Hsp. exact Hends. }
           { apply (f_equal (@length N)) in Hsp. rewrite app_length in Hsp. cbn [length] in *. lia. }
        -- assert (Hr : qd_run (lenN (c :: s')) (c :: s') = ([], c :: s')).
           { cbn [qd_run]. rewrite Eq. now rewrite andb_false_r. }
           rewrite Hr. cbn [fst snd app hdz].
           rewrite (bad_ctl_not_qd c Eq E34 E92 E13 E10). now left.
Qed.

Lemma pqs_loop_local : forall f1 f2 s after k len val,
  k + lenN s = len -> (hdz after =? 34) = false -> (s = [] \/ ends_nonspace s) ->
  (length (s ++ after) < f1)%nat -> (length s < f2)%nat ->
  pqs_loop f1 (s ++ after) k len val = pqs_loop f2 s k len val.
Proof.
  induction f1 as [|f1 IH]; intros f2 s after k len val Hk Ha Hends H1 H2; [lia|].
  destruct f2 as [|f2]; [lia|]. cbn [pqs_loop].
  pose proof (pqs_iter_local s after k len val Hk Ha Hends) as Hit.
  destruct (pqs_iter s k len val) as [r|s' k' v].
  - destruct Hit as [->|(-> & v & Hv)]; [reflexivity|]. rewrite Hv.
    destruct s as [|c s0].
    { cbn [app lenN] in *. assert (k = len) by lia. subst k. rewrite (pqs_iter_end after len val Ha) in Hv. discriminate. }
    destruct f1 as [|f1]; [cbn [app length] in H1; lia|].
    cbn [pqs_loop]. now rewrite (pqs_iter_end after len v Ha).
  - destruct Hit as (-> & Hk' & Hends' & Hlen).
    apply IH; try assumption; [rewrite app_length in *; lia|lia].
Qed.

Lemma after_item_noquote more : after_item more -> (hdz more =? 34) = false.
Proof.
  intros (ws & rest & -> & Hws & Hrest). destruct ws as [|c r]; cbn [app hdz].
  - destruct Hrest as [->|(r & ->)]; reflexivity.
  - cbn [forallb] in Hws. apply andb_prop in Hws. destruct Hws as [Hc _]. unfold is_xspace in Hc. lia.
Qed.

Lemma pqs_local arg more :
  (arg = [] \/ ends_nonspace arg) -> after_item more ->
  parse_quoted_string (arg ++ more) (lenN arg) = parse_quoted_string arg (lenN arg).
Proof.
  intros Harg Hmore. pose proof (after_item_noquote more Hmore) as Hq.
  unfold parse_quoted_string. destruct arg as [|c a].
  - cbn [app hdz]. rewrite Hq. reflexivity.
  - cbn [app hdz tlz]. destruct (c =? 34); cbn [negb]; [|reflexivity].
    apply pqs_loop_local; try assumption.
    + cbn [lenN]. lia.
    + apply (ends_suffix [c] a). exact Harg.
    + cbn [length]. lia.
    + cbn [length]. lia.
Qed.

(* ---- the loop body depends on the item only ---- *)
Lemma dropN_app_exact {A} (a b : list A) : dropN (lenN a) (a ++ b) = b.
Proof.
  induction a as [|x a IH]; cbn [lenN app].
  - destruct b; reflexivity.
  - cbn [dropN]. replace (N.succ (lenN a) =? 0) with false by lia. now rewrite N.pred_succ.
Qed.

Lemma dropN_succ_app {A} (a : list A) x (b : list A) : dropN (lenN a + 1) (a ++ x :: b) = b.
Proof.
  induction a as [|y a IH]; cbn [lenN app].
  - cbn [dropN]. replace (0 + 1 =? 0) with false by lia. replace (N.pred (0 + 1)) with 0 by lia.
    destruct b; reflexivity.
  - cbn [dropN]. replace (N.succ (lenN a) + 1 =? 0) with false by lia.
    replace (N.pred (N.succ (lenN a) + 1)) with (lenN a + 1) by lia. exact IH.
Qed.

Definition step_item (st : cc) (it : bytes) : cc := cc_step st it it.

Lemma cc_step_local st it tail : wf_pair (it, tail) -> cc_step st it tail = step_item st it.
Proof.
  intros (Hends & _ & ws & rest & -> & Hws & Hrest & Hn).
  unfold step_item, cc_step, split_eq.
  pose proof (span_app (fun c => negb (c =? 61)) it) as Hsp.
  destruct (span (fun c => negb (c =? 61)) it) as [nm r] eqn:Es. cbn [fst snd] in Hsp.
  destruct r as [|e arg]; [reflexivity|].
  pose proof (span_stop (fun c => negb (c =? 61)) it) as Hst. rewrite Es in Hst. cbn [snd] in Hst.
  assert (He : e = 61) by lia. subst e. clear Hst.
  assert (Hmore : after_item (ws ++ rest)) by (exists ws, rest; tauto).
  assert (Harg : arg = [] \/ ends_nonspace arg).
  { apply (ends_suffix (nm ++ [61]) arg). right. rewrite <- app_assoc. cbn [app]. now rewrite Hsp. }
  clear Es. subst it.
  assert (Hn' : no_nul (arg ++ ws ++ rest)).
  { rewrite <- !app_assoc in Hn. apply no_nul_app in Hn. destruct Hn as [_ Hn].
    cbn [app] in Hn. unfold no_nul in *. cbn [forallb] in Hn. apply andb_prop in Hn. tauto. }
  replace ((nm ++ 61 :: arg) ++ ws ++ rest) with (nm ++ 61 :: (arg ++ ws ++ rest))
    by (rewrite <- !app_assoc; reflexivity).
  rewrite !dropN_succ_app.
  assert (Hlen : lenN (nm ++ 61 :: arg) - lenN nm - 1 = lenN arg).
  { rewrite lenN_app. cbn [lenN]. lia. }
  rewrite Hlen.
  rewrite (parse_int_local arg (ws ++ rest) Hn' Harg Hmore).
  rewrite (pqs_local arg (ws ++ rest) Harg Hmore).
  reflexivity.
Qed.

Lemma fold_step_local : forall ps st, Forall wf_pair ps ->
  fold_left step_pair ps st = fold_left step_item (map fst ps) st.
Proof.
  induction ps as [|[it tl] ps IH]; intros st H; [reflexivity|].
  inversion H as [|? ? Hp Hps]; subst. cbn [fold_left map fst].
  unfold step_pair at 2. cbn [fst snd]. rewrite (cc_step_local st it tl Hp). now apply IH.
Qed.

(* HttpHdrCc::parse = fold of the item-local loop body over strListGetItem's items *)
Theorem cc_parse_from_items st v :
  cc_parse_from st v = Some (fold_left step_item (list_items 44 v) st).
Proof.
  rewrite cc_parse_from_fold, (fold_step_local _ _ (pairs_of_wf v)), pairs_of_items. reflexivity.
Qed.

(* ====================================================================== *)
(* Part C. the parsed object is the first-match specification over the items *)

(* --- what an item says (independent of the parser state) --- *)
Definition d_name (it : bytes) : bytes := fst (span (fun c => negb (c =? 61)) it).
Definition d_arg (it : bytes) : option bytes :=
  match snd (span (fun c => negb (c =? 61)) it) with [] => None | _ :: a => Some a end.
Definition d_type (it : bytes) : N := cc_type_by_name (d_name it).
(* a non-negative int that fits *)
Definition d_num (it : bytes) : option Z :=
  match d_arg it with
  | Some a => match parse_int a with Some v => if (v <? 0)%Z then None else Some v | None => None end
  | None => None
  end.
(* the quoted-string reading of the argument, if there is an argument *)
Definition d_qs (it : bytes) : option qres :=
  match d_arg it with Some a => Some (parse_quoted_string a (lenN a)) | None => None end.
Definition qs_text (q : option qres) : bytes := match q with Some (QOk t) => t | _ => [] end.

Definition join2 (o it : bytes) : bytes := (match o with [] => [] | a :: l => (a :: l) ++ [44; 32] end) ++ it.

Definition step_spec (st : cc) (it : bytes) : cc :=
  let ty := d_type it in
  if isSet st ty && negb (ty =? CC_OTHER) then st
  else if is_numeric_type ty then
    match d_num it with
    | Some v => setMask (put_num st ty v) ty true
    | None => if ty =? CC_MAX_STALE then setValue st ty MAX_STALE_ANY true else clear_num st ty
    end
  else if ty =? CC_PRIVATE then
    setMask (match d_qs it with
             | None => with_private st []
             | Some (QOk t) => with_private st (private_ st ++ t)
             | Some _ => st end) ty true
  else if ty =? CC_NO_CACHE then
    match d_qs it with
    | None => with_no_cache (setMask st ty true) []
    | Some (QOk t) => with_no_cache (setMask st ty true) (no_cache st ++ t)
    | Some _ => st
    end
  else if is_flag_type ty then setMask st ty true
  else if ty =? CC_OTHER then with_other st (join2 (other st) it)
  else st.

Lemma step_item_spec st it : step_item st it = step_spec st it.
Proof.
  unfold step_item, cc_step, step_spec, d_type, d_num, d_qs, d_arg, d_name, split_eq, join2.
  pose proof (span_app (fun c => negb (c =? 61)) it) as Hsp.
  destruct (span (fun c => negb (c =? 61)) it) as [nm r] eqn:Es. cbn [fst snd] in *.
  destruct r as [|e arg]; [reflexivity|].
  assert (He : e = 61).
  { pose proof (span_stop (fun c => negb (c =? 61)) it) as Hst. rewrite Es in Hst. cbn [snd] in Hst. lia. }
  subst e. clear Es. subst it. rewrite !dropN_succ_app.
  assert (Hlen : lenN (nm ++ 61 :: arg) - lenN nm - 1 = lenN arg).
  { rewrite lenN_app. cbn [lenN]. lia. }
  rewrite Hlen. cbn [negb]. reflexivity.
Qed.

(* --- projections of the setters --- *)
Lemma isSet_setMask st id b F : isSet (setMask st id b) F = if F =? id then b else isSet st F.
Proof.
  unfold isSet, setMask, with_mask. cbn [cmask]. destruct b.
  - rewrite N.setbit_eqb. rewrite (N.eqb_sym id F). destruct (F =? id); reflexivity.
  - rewrite N.clearbit_eqb. rewrite (N.eqb_sym id F). destruct (F =? id); cbn [negb]; [apply andb_false_r|apply andb_true_r].
Qed.
Lemma cmask_put_num st id v : cmask (put_num st id v) = cmask st.
Proof. unfold put_num. repeat match goal with |- context [if ?c then _ else _] => destruct c end; reflexivity. Qed.
Lemma isSet_put_num st id v F : isSet (put_num st id v) F = isSet st F.
Proof. unfold isSet. now rewrite cmask_put_num. Qed.
Lemma private_put_num st id v : private_ (put_num st id v) = private_ st.
Proof. unfold put_num. repeat match goal with |- context [if ?c then _ else _] => destruct c end; reflexivity. Qed.
Lemma no_cache_put_num st id v : no_cache (put_num st id v) = no_cache st.
Proof. unfold put_num. repeat match goal with |- context [if ?c then _ else _] => destruct c end; reflexivity. Qed.
Lemma other_put_num st id v : other (put_num st id v) = other st.
Proof. unfold put_num. repeat match goal with |- context [if ?c then _ else _] => destruct c end; reflexivity. Qed.
Lemma get_num_put_num st id v F : is_numeric_type id = true ->
  get_num (put_num st id v) F = if F =? id then v else get_num st F.
Proof.
  unfold is_numeric_type, get_num, put_num, CC_MAX_AGE, CC_S_MAXAGE, CC_MAX_STALE, CC_MIN_FRESH, CC_STALE_IF_ERROR.
  intros H.
  destruct (id =? 7) eqn:E7; [assert (id = 7) by lia; subst; cbn; destruct (F =? 7) eqn:EF; reflexivity|].
  destruct (id =? 8) eqn:E8; [assert (id = 8) by lia; subst; cbn; destruct (F =? 7) eqn:EF7; [assert (F = 7) by lia; subst; reflexivity|]; destruct (F =? 8); reflexivity|].
  destruct (id =? 9) eqn:E9; [assert (id = 9) by lia; subst; cbn;
    destruct (F =? 7) eqn:EF7; [assert (F = 7) by lia; subst; reflexivity|];
    destruct (F =? 8) eqn:EF8; [assert (F = 8) by lia; subst; reflexivity|]; destruct (F =? 9); reflexivity|].
  destruct (id =? 12) eqn:E12; [assert (id = 12) by lia; subst; cbn;
    destruct (F =? 7) eqn:EF7; [assert (F = 7) by lia; subst; reflexivity|];
    destruct (F =? 8) eqn:EF8; [assert (F = 8) by lia; subst; reflexivity|];
    destruct (F =? 9) eqn:EF9; [assert (F = 9) by lia; subst; reflexivity|]; destruct (F =? 12); reflexivity|].
  destruct (id =? 10) eqn:E10; [|lia]. assert (id = 10) by lia; subst; cbn.
  destruct (F =? 7) eqn:EF7; [assert (F = 7) by lia; subst; reflexivity|].
  destruct (F =? 8) eqn:EF8; [assert (F = 8) by lia; subst; reflexivity|].
  destruct (F =? 9) eqn:EF9; [assert (F = 9) by lia; subst; reflexivity|].
  destruct (F =? 12) eqn:EF12; [assert (F = 12) by lia; subst; reflexivity|].
  destruct (F =? 10); reflexivity.
Qed.
Lemma get_num_setMask st id b F : get_num (setMask st id b) F = get_num st F.
Proof. reflexivity. Qed.
Lemma get_num_with_private st v F : get_num (with_private st v) F = get_num st F. Proof. reflexivity. Qed.
Lemma get_num_with_no_cache st v F : get_num (with_no_cache st v) F = get_num st F. Proof. reflexivity. Qed.
Lemma get_num_with_other st v F : get_num (with_other st v) F = get_num st F. Proof. reflexivity. Qed.
Lemma isSet_with_private st v F : isSet (with_private st v) F = isSet st F. Proof. reflexivity. Qed.
Lemma isSet_with_no_cache st v F : isSet (with_no_cache st v) F = isSet st F. Proof. reflexivity. Qed.
Lemma isSet_with_other st v F : isSet (with_other st v) F = isSet st F. Proof. reflexivity. Qed.

(* --- the type of an item is a table id --- *)
Lemma lookup_cc_in tbl name id : lookup_cc tbl name = Some id -> In id (map fst tbl).
Proof.
  induction tbl as [|[i n] r IH]; cbn [lookup_cc map fst]; [discriminate|].
  destruct (lookup_cc r name) as [x|].
  - intros H. injection H as ->. right. now apply IH.
  - destruct (ci_eqb n name); [|discriminate]. intros H. injection H as ->. now left.
Qed.
Lemma type_lt_end nm : cc_type_by_name nm < CC_ENUM_END.
Proof.
  unfold cc_type_by_name. destruct (lookup_cc cc_table nm) as [id|] eqn:E; [|reflexivity].
  apply lookup_cc_in in E. cbn in E. unfold CC_ENUM_END. lia.
Qed.

(* --- does the item set the bit of its own type (when that bit is not yet set)? --- *)
Definition eff (it : bytes) : bool :=
  let ty := d_type it in
  if is_numeric_type ty then (ty =? CC_MAX_STALE) || (match d_num it with Some _ => true | None => false end)
  else if ty =? CC_PRIVATE then true
  else if ty =? CC_NO_CACHE then match d_qs it with Some QFail => false | Some QFuel => false | _ => true end
  else is_flag_type ty.
(* the numeric value it stores then *)
Definition num_of (it : bytes) : Z := match d_num it with Some v => v | None => MAX_STALE_ANY end.

Lemma setValue_any st ty : setValue st ty MAX_STALE_ANY true = setMask (put_num st ty MAX_STALE_ANY) ty true.
Proof. reflexivity. Qed.
Lemma clear_num_eq st ty : clear_num st ty = setMask (put_num st ty (-1)%Z) ty false.
Proof. reflexivity. Qed.

Ltac unfold_ids :=
  unfold CC_ENUM_END, is_numeric_type, is_flag_type, CC_OTHER, CC_PRIVATE, CC_NO_CACHE, CC_MAX_STALE,
    CC_MAX_AGE, CC_S_MAXAGE, CC_MIN_FRESH, CC_STALE_IF_ERROR, CC_PUBLIC, CC_NO_STORE, CC_NO_TRANSFORM,
    CC_MUST_REVALIDATE, CC_PROXY_REVALIDATE, CC_ONLY_IF_CACHED, CC_IMMUTABLE in *.
Ltac step_cases :=
  rewrite ?setValue_any, ?clear_num_eq;
  repeat match goal with
  | |- context [match d_num ?x with _ => _ end] => destruct (d_num x) eqn:?
  | |- context [match d_qs ?x with _ => _ end] => destruct (d_qs x) as [[?| |]|] eqn:?
  | |- context [if ?c then _ else _] => destruct c eqn:?
  end.
Ltac step_rw :=
  repeat first [ rewrite isSet_setMask | rewrite isSet_put_num | rewrite isSet_with_private
               | rewrite isSet_with_no_cache | rewrite isSet_with_other
               | rewrite get_num_setMask | rewrite get_num_with_private | rewrite get_num_with_no_cache
               | rewrite get_num_with_other | rewrite private_put_num | rewrite no_cache_put_num
               | rewrite other_put_num | rewrite N.eqb_refl ].
Ltac step_fin :=
  step_rw;
  cbn [negb andb orb private_ no_cache other setMask with_mask with_private with_no_cache with_other] in *;
  step_rw;
  try reflexivity; try congruence; try lia.
(* abstracts the item's type into a variable ty < 15 *)
Ltac step_intro it ty Hlt :=
  pose proof (type_lt_end (d_name it)) as Hlt; fold (d_type it) in Hlt;
  unfold step_spec, eff, num_of; cbv zeta;
  generalize dependent (d_type it); intros ty; intros.

Lemma step_dup st it : isSet st (d_type it) = true -> d_type it <> CC_OTHER -> step_spec st it = st.
Proof.
  intros H Hn. unfold step_spec. rewrite H.
  replace (d_type it =? CC_OTHER) with false by (unfold CC_OTHER in *; lia). reflexivity.
Qed.

Lemma step_bit_own st it : isSet st (d_type it) = false -> isSet (step_spec st it) (d_type it) = eff it.
Proof.
  intros H. step_intro it ty Hlt. unfold_ids. step_cases; step_fin.
Qed.

Lemma step_bit_frame st it F : F <> d_type it -> isSet (step_spec st it) F = isSet st F.
Proof.
  intros H. step_intro it ty Hlt. unfold_ids. step_cases; step_fin;
  replace (F =? ty) with false by lia; reflexivity.
Qed.

Lemma step_num_own st it : isSet st (d_type it) = false -> is_numeric_type (d_type it) = true ->
  get_num (step_spec st it) (d_type it) = if eff it then num_of it else (-1)%Z.
Proof.
  intros H Hn. step_intro it ty Hlt. rewrite Hn. step_cases; step_fin;
  rewrite (get_num_put_num _ _ _ _ Hn), N.eqb_refl; reflexivity.
Qed.

Lemma step_num_frame st it F : F <> d_type it -> get_num (step_spec st it) F = get_num st F.
Proof.
  intros H. step_intro it ty Hlt. step_cases; step_fin;
  match goal with Hn : is_numeric_type _ = true |- _ => rewrite (get_num_put_num _ _ _ _ Hn) end;
  replace (F =? ty) with false by lia; reflexivity.
Qed.

Lemma step_priv_own st it : d_type it = CC_PRIVATE -> isSet st CC_PRIVATE = false -> private_ st = [] ->
  private_ (step_spec st it) = qs_text (d_qs it).
Proof.
  intros Ht H Hp. unfold step_spec. rewrite Ht, H. cbn [andb].
  change (is_numeric_type CC_PRIVATE) with false. change (CC_PRIVATE =? CC_PRIVATE) with true. cbv iota.
  destruct (d_qs it) as [[v| |]|]; cbn [private_ setMask with_mask with_private qs_text]; try assumption; try reflexivity.
  now rewrite Hp.
Qed.

Lemma step_priv_frame st it : d_type it <> CC_PRIVATE -> private_ (step_spec st it) = private_ st.
Proof.
  intros H. step_intro it ty Hlt. unfold_ids. step_cases; step_fin.
Qed.

Lemma step_nc_own st it : d_type it = CC_NO_CACHE -> isSet st CC_NO_CACHE = false -> no_cache st = [] ->
  no_cache (step_spec st it) = qs_text (d_qs it).
Proof.
  intros Ht H Hp. unfold step_spec. rewrite Ht, H. cbn [andb].
  change (is_numeric_type CC_NO_CACHE) with false. change (CC_NO_CACHE =? CC_PRIVATE) with false.
  change (CC_NO_CACHE =? CC_NO_CACHE) with true. cbv iota.
  destruct (d_qs it) as [[v| |]|]; cbn [no_cache setMask with_mask with_no_cache qs_text]; try assumption; try reflexivity.
  now rewrite Hp.
Qed.

Lemma step_nc_frame st it : d_type it <> CC_NO_CACHE -> no_cache (step_spec st it) = no_cache st.
Proof.
  intros H. step_intro it ty Hlt. unfold_ids. step_cases; step_fin.
Qed.

Lemma step_other st it :
  other (step_spec st it) = if d_type it =? CC_OTHER then join2 (other st) it else other st.
Proof.
  step_intro it ty Hlt. unfold_ids. step_cases; step_fin.
Qed.

(* --- invariant of the object during parsing: an unset directive holds its default --- *)
Definition cc_inv (st : cc) : Prop :=
  (forall F, is_numeric_type F = true -> isSet st F = false -> get_num st F = (-1)%Z) /\
  (isSet st CC_PRIVATE = false -> private_ st = []) /\
  (isSet st CC_NO_CACHE = false -> no_cache st = []).

Lemma cc_inv_init : cc_inv cc_init.
Proof.
  split; [|split]; try reflexivity.
  intros F HF _. unfold is_numeric_type, get_num, cc_init in *. cbn [max_age s_maxage max_stale stale_if_error min_fresh].
  repeat match goal with |- context [if ?c then _ else _] => destruct c end; reflexivity.
Qed.

Lemma eff_numeric_false_type it : eff it = false -> is_numeric_type (d_type it) = true -> d_num it = None.
Proof.
  unfold eff. intros H Hn. rewrite Hn in H. destruct (d_num it); [|reflexivity].
  rewrite orb_true_r in H. discriminate.
Qed.

Lemma cc_inv_step st it : cc_inv st -> cc_inv (step_spec st it).
Proof.
  intros (Hnum & Hp & Hc).
  destruct (isSet st (d_type it)) eqn:Eset.
  { destruct (N.eq_dec (d_type it) CC_OTHER) as [Eo|Eo].
    - (* OTHER: only `other` changes *)
      split; [|split].
      + intros F HF HS. rewrite step_num_frame by (rewrite Eo; unfold is_numeric_type, CC_OTHER in *; intros ->; discriminate).
        rewrite step_bit_frame in HS by (rewrite Eo; unfold is_numeric_type, CC_OTHER in *; intros ->; discriminate).
        now apply Hnum.
      + intros HS. rewrite step_priv_frame by (rewrite Eo; discriminate).
        rewrite step_bit_frame in HS by (rewrite Eo; discriminate). now apply Hp.
      + intros HS. rewrite step_nc_frame by (rewrite Eo; discriminate).
        rewrite step_bit_frame in HS by (rewrite Eo; discriminate). now apply Hc.
    - rewrite (step_dup st it Eset Eo). now repeat split. }
  split; [|split].
  - intros F HF HS. destruct (N.eq_dec F (d_type it)) as [->|Hne].
    + rewrite (step_bit_own st it Eset) in HS. rewrite (step_num_own st it Eset HF), HS. reflexivity.
    + rewrite (step_num_frame st it F Hne). rewrite (step_bit_frame st it F Hne) in HS. now apply Hnum.
  - intros HS. destruct (N.eq_dec (d_type it) CC_PRIVATE) as [Et|Hne].
    + rewrite <- Et in HS. rewrite (step_bit_own st it Eset) in HS. unfold eff in HS. rewrite Et in HS. discriminate.
    + rewrite (step_priv_frame st it Hne).
      rewrite (step_bit_frame st it CC_PRIVATE) in HS by congruence. now apply Hp.
  - intros HS. destruct (N.eq_dec (d_type it) CC_NO_CACHE) as [Et|Hne].
    + rewrite Et in Eset. rewrite (step_nc_own st it Et Eset (Hc Eset)).
      rewrite <- Et in HS. rewrite (step_bit_own st it) in HS by (now rewrite Et). unfold eff in HS. rewrite Et in HS.
      change (is_numeric_type CC_NO_CACHE) with false in HS. change (CC_NO_CACHE =? CC_PRIVATE) with false in HS.
      change (CC_NO_CACHE =? CC_NO_CACHE) with true in HS. cbv iota in HS.
      destruct (d_qs it) as [[v| |]|]; try discriminate; reflexivity.
    + rewrite (step_nc_frame st it Hne).
      rewrite (step_bit_frame st it CC_NO_CACHE) in HS by congruence. now apply Hc.
Qed.

(* --- the specification: first effective occurrence decides --- *)
Definition sel (F : N) (it : bytes) : bool := (d_type it =? F) && eff it.
Definition spec_bit (its : list bytes) (F : N) : bool := existsb (sel F) its.
Definition spec_num (its : list bytes) (F : N) : Z :=
  match find (sel F) its with Some it => num_of it | None => (-1)%Z end.
Definition spec_text (its : list bytes) (F : N) : bytes :=
  match find (sel F) its with Some it => qs_text (d_qs it) | None => [] end.
Definition spec_other (its : list bytes) : bytes :=
  fold_left join2 (filter (fun it => d_type it =? CC_OTHER) its) [].

Definition fold_items (its : list bytes) (st : cc) : cc := fold_left step_spec its st.

Lemma fold_bit : forall its st F,
  isSet (fold_items its st) F = isSet st F || spec_bit its F.
Proof.
  induction its as [|it its IH]; intros st F; cbn [fold_items fold_left spec_bit existsb]; [now rewrite orb_false_r|].
  fold (fold_items its (step_spec st it)). rewrite IH. fold (spec_bit its F). unfold sel at 1.
  destruct (N.eq_dec F (d_type it)) as [->|Hne].
  - rewrite N.eqb_refl. cbn [andb]. destruct (isSet st (d_type it)) eqn:Es.
    + destruct (N.eq_dec (d_type it) CC_OTHER) as [Eo|Eo].
      * (* bit CC_OTHER is never set by the parser, but the statement holds for any st *)
        assert (isSet (step_spec st it) (d_type it) = true) as ->; [|reflexivity].
        pose proof (type_lt_end (d_name it)) as Hlt. fold (d_type it) in Hlt. revert Es.
        step_intro it ty Hlt2. unfold_ids. subst ty. step_cases; step_fin.
      * rewrite (step_dup st it Es Eo), Es. reflexivity.
    + rewrite (step_bit_own st it Es). cbn [orb]. reflexivity.
  - rewrite (step_bit_frame st it F Hne). replace (d_type it =? F) with false by lia. reflexivity.
Qed.

Lemma sel_same it : sel (d_type it) it = eff it.
Proof. unfold sel. now rewrite N.eqb_refl. Qed.
Lemma sel_other F it : F <> d_type it -> sel F it = false.
Proof. intros H. unfold sel. replace (d_type it =? F) with false by lia. reflexivity. Qed.

Lemma find_sel_cons F it its : find (sel F) (it :: its) = if sel F it then Some it else find (sel F) its.
Proof. reflexivity. Qed.

Lemma fold_num : forall its st F, cc_inv st -> is_numeric_type F = true ->
  get_num (fold_items its st) F = if isSet st F then get_num st F else spec_num its F.
Proof.
  induction its as [|it its IH]; intros st F Hinv HF; cbn [fold_items fold_left].
  - unfold spec_num. cbn [find]. destruct (isSet st F) eqn:Es; [reflexivity|]. now apply Hinv.
  - fold (fold_items its (step_spec st it)). rewrite (IH _ F (cc_inv_step st it Hinv) HF).
    unfold spec_num. rewrite find_sel_cons.
    destruct (N.eq_dec F (d_type it)) as [->|Hne].
    + rewrite sel_same. destruct (isSet st (d_type it)) eqn:Es.
      * assert (Eo : d_type it <> CC_OTHER) by (intros E; rewrite E in HF; discriminate).
        rewrite (step_dup st it Es Eo), Es. reflexivity.
      * rewrite (step_bit_own st it Es), (step_num_own st it Es HF). destruct (eff it); reflexivity.
    + rewrite (step_bit_frame st it F Hne), (step_num_frame st it F Hne), (sel_other F it Hne). reflexivity.
Qed.

Lemma fold_private : forall its st, cc_inv st ->
  private_ (fold_items its st) = if isSet st CC_PRIVATE then private_ st else spec_text its CC_PRIVATE.
Proof.
  induction its as [|it its IH]; intros st Hinv; cbn [fold_items fold_left].
  - unfold spec_text. cbn [find]. destruct (isSet st CC_PRIVATE) eqn:Es; [reflexivity|]. now apply Hinv.
  - fold (fold_items its (step_spec st it)). rewrite (IH _ (cc_inv_step st it Hinv)).
    unfold spec_text. rewrite find_sel_cons.
    destruct (N.eq_dec (d_type it) CC_PRIVATE) as [Et|Hne].
    + assert (Ee : eff it = true) by (unfold eff; rewrite Et; reflexivity).
      rewrite <- Et. rewrite sel_same, Ee. destruct (isSet st (d_type it)) eqn:Es.
      * rewrite (step_dup st it Es) by (rewrite Et; discriminate). rewrite Es. reflexivity.
      * rewrite (step_bit_own st it Es), Ee. rewrite Et in Es.
        destruct Hinv as (_ & Hp & _). apply (step_priv_own st it Et Es (Hp Es)).
    + rewrite (step_bit_frame st it CC_PRIVATE) by congruence. rewrite (step_priv_frame st it Hne).
      rewrite (sel_other CC_PRIVATE it) by congruence. reflexivity.
Qed.

Lemma fold_no_cache : forall its st, cc_inv st ->
  no_cache (fold_items its st) = if isSet st CC_NO_CACHE then no_cache st else spec_text its CC_NO_CACHE.
Proof.
  induction its as [|it its IH]; intros st Hinv; cbn [fold_items fold_left].
  - unfold spec_text. cbn [find]. destruct (isSet st CC_NO_CACHE) eqn:Es; [reflexivity|]. now apply Hinv.
  - fold (fold_items its (step_spec st it)). rewrite (IH _ (cc_inv_step st it Hinv)).
    unfold spec_text. rewrite find_sel_cons.
    destruct (N.eq_dec (d_type it) CC_NO_CACHE) as [Et|Hne].
    + rewrite <- Et. rewrite sel_same. destruct (isSet st (d_type it)) eqn:Es.
      * rewrite (step_dup st it Es) by (rewrite Et; discriminate). rewrite Es. reflexivity.
      * rewrite (step_bit_own st it Es).
        destruct Hinv as (_ & _ & Hc). rewrite Et in Es. pose proof (step_nc_own st it Et Es (Hc Es)) as Hown.
        destruct (eff it) eqn:Ee; [exact Hown|reflexivity].
    + rewrite (step_bit_frame st it CC_NO_CACHE) by congruence. rewrite (step_nc_frame st it Hne).
      rewrite (sel_other CC_NO_CACHE it) by congruence. reflexivity.
Qed.

Lemma fold_other : forall its st,
  other (fold_items its st) = fold_left join2 (filter (fun it => d_type it =? CC_OTHER) its) (other st).
Proof.
  induction its as [|it its IH]; intros st; cbn [fold_items fold_left filter]; [reflexivity|].
  fold (fold_items its (step_spec st it)). rewrite IH, step_other.
  destruct (d_type it =? CC_OTHER); reflexivity.
Qed.

(* --- assembling the specification object --- *)
Definition mask_of (f : N -> bool) : N :=
  fold_left (fun m F => if f F then N.setbit m F else m) (seqN 0 (N.to_nat CC_ENUM_END)) 0.

Definition spec_cc (its : list bytes) : cc :=
  mkcc (mask_of (spec_bit its))
       (spec_num its CC_MAX_AGE) (spec_num its CC_S_MAXAGE) (spec_num its CC_MAX_STALE)
       (spec_num its CC_STALE_IF_ERROR) (spec_num its CC_MIN_FRESH)
       (spec_text its CC_PRIVATE) (spec_text its CC_NO_CACHE) (spec_other its).

Lemma testbit_fold_setbit (f : N -> bool) : forall ids m n,
  N.testbit (fold_left (fun m F => if f F then N.setbit m F else m) ids m) n =
  N.testbit m n || existsb (fun F => (F =? n) && f F) ids.
Proof.
  induction ids as [|F ids IH]; intros m n; cbn [fold_left existsb]; [now rewrite orb_false_r|].
  rewrite IH. destruct (f F).
  - rewrite N.setbit_eqb. rewrite andb_true_r. now rewrite orb_assoc, (orb_comm (F =? n)).
  - rewrite andb_false_r. reflexivity.
Qed.

Lemma testbit_mask_of f n : N.testbit (mask_of f) n = f n && (n <? CC_ENUM_END).
Proof.
  unfold mask_of. rewrite testbit_fold_setbit. rewrite N.bits_0. cbn [orb].
  change (seqN 0 (N.to_nat CC_ENUM_END)) with [0;1;2;3;4;5;6;7;8;9;10;11;12;13;14].
  unfold CC_ENUM_END. cbn [existsb].
  destruct (n <? 15) eqn:E.
  - assert (H : n = 0 \/ n = 1 \/ n = 2 \/ n = 3 \/ n = 4 \/ n = 5 \/ n = 6 \/ n = 7 \/ n = 8 \/ n = 9 \/
                n = 10 \/ n = 11 \/ n = 12 \/ n = 13 \/ n = 14) by lia.
    rewrite andb_true_r.
    repeat (destruct H as [H|H]; [rewrite H; cbn [N.eqb Pos.eqb andb orb]; destruct (f _); reflexivity|]).
    rewrite H; cbn [N.eqb Pos.eqb andb orb]; destruct (f _); reflexivity.
  - rewrite andb_false_r.
    repeat match goal with |- context [?k =? n] => replace (k =? n) with false by lia end. reflexivity.
Qed.

Lemma spec_bit_high its n : CC_ENUM_END <= n -> spec_bit its n = false.
Proof.
  intros H. unfold spec_bit. induction its as [|it its IH]; cbn [existsb]; [reflexivity|].
  rewrite IH, orb_false_r. unfold sel.
  pose proof (type_lt_end (d_name it)) as Hlt. fold (d_type it) in Hlt.
  replace (d_type it =? n) with false by lia. reflexivity.
Qed.

Lemma cc_ext a b :
  cmask a = cmask b -> max_age a = max_age b -> s_maxage a = s_maxage b -> max_stale a = max_stale b ->
  stale_if_error a = stale_if_error b -> min_fresh a = min_fresh b -> private_ a = private_ b ->
  no_cache a = no_cache b -> other a = other b -> a = b.
Proof. destruct a, b. cbn. intros. subst. reflexivity. Qed.

Lemma isSet_init F : isSet cc_init F = false.
Proof. unfold isSet, cc_init. cbn [cmask]. apply N.bits_0. Qed.

Theorem fold_items_spec its : fold_items its cc_init = spec_cc its.
Proof.
  apply cc_ext; unfold spec_cc; cbn [cmask max_age s_maxage max_stale stale_if_error min_fresh private_ no_cache other].
  - apply N.bits_inj. intros n. rewrite testbit_mask_of.
    change (N.testbit (cmask (fold_items its cc_init)) n) with (isSet (fold_items its cc_init) n).
    rewrite fold_bit, isSet_init. cbn [orb].
    destruct (n <? CC_ENUM_END) eqn:E; [now rewrite andb_true_r|].
    rewrite andb_false_r. apply spec_bit_high. lia.
  - change (max_age (fold_items its cc_init)) with (get_num (fold_items its cc_init) CC_MAX_AGE).
    rewrite (fold_num its cc_init CC_MAX_AGE cc_inv_init eq_refl), isSet_init. reflexivity.
  - change (s_maxage (fold_items its cc_init)) with (get_num (fold_items its cc_init) CC_S_MAXAGE).
    rewrite (fold_num its cc_init CC_S_MAXAGE cc_inv_init eq_refl), isSet_init. reflexivity.
  - change (max_stale (fold_items its cc_init)) with (get_num (fold_items its cc_init) CC_MAX_STALE).
    rewrite (fold_num its cc_init CC_MAX_STALE cc_inv_init eq_refl), isSet_init. reflexivity.
  - change (stale_if_error (fold_items its cc_init)) with (get_num (fold_items its cc_init) CC_STALE_IF_ERROR).
    rewrite (fold_num its cc_init CC_STALE_IF_ERROR cc_inv_init eq_refl), isSet_init. reflexivity.
  - change (min_fresh (fold_items its cc_init)) with (get_num (fold_items its cc_init) CC_MIN_FRESH).
    rewrite (fold_num its cc_init CC_MIN_FRESH cc_inv_init eq_refl), isSet_init. reflexivity.
  - rewrite (fold_private its cc_init cc_inv_init), isSet_init. reflexivity.
  - rewrite (fold_no_cache its cc_init cc_inv_init), isSet_init. reflexivity.
  - rewrite fold_other. reflexivity.
Qed.

Lemma fold_left_ext {A B} (f g : A -> B -> A) : (forall a b, f a b = g a b) ->
  forall l a, fold_left f l a = fold_left g l a.
Proof. intros H l. induction l as [|x l IH]; intros a; cbn [fold_left]; [reflexivity|]. now rewrite H, IH. Qed.

Lemma cc_parse_from_fold_items st v : cc_parse_from st v = Some (fold_items (list_items 44 v) st).
Proof.
  rewrite cc_parse_from_items. unfold fold_items. f_equal. apply fold_left_ext. apply step_item_spec.
Qed.

(* C29 main theorem 1: parse = the first-match specification over the list elements *)
Theorem cc_parse_exact v : cc_parse v = Some (spec_cc (list_items 44 v)).
Proof. unfold cc_parse. rewrite cc_parse_from_fold_items. f_equal. apply fold_items_spec. Qed.

(* ====================================================================== *)
(* Corollaries: invalid numeric arguments, max-stale *)

Definition strict_numeric (F : N) : Prop :=
  F = CC_MAX_AGE \/ F = CC_S_MAXAGE \/ F = CC_MIN_FRESH \/ F = CC_STALE_IF_ERROR.

Lemma d_num_range it v : d_num it = Some v -> (0 <= v < 2147483648)%Z.
Proof.
  unfold d_num. destruct (d_arg it) as [a|]; [|discriminate].
  destruct (parse_int a) as [w|] eqn:E; [|discriminate].
  destruct (w <? 0)%Z eqn:Ew; [discriminate|]. intros H. injection H as <-.
  pose proof (parse_int_in_int_range a w E) as Hr. unfold two31 in Hr. lia.
Qed.

Theorem cc_invalid_numeric_absent v F st :
  cc_parse v = Some st -> strict_numeric F ->
  (forall it, In it (list_items 44 v) -> d_type it = F -> d_num it = None) ->
  isSet st F = false /\ get_num st F = (-1)%Z.
Proof.
  intros Hp HF Hall. rewrite cc_parse_exact in Hp. injection Hp as <-.
  set (its := list_items 44 v) in *.
  assert (Hsel : forall it, In it its -> sel F it = false).
  { intros it Hin. unfold sel. destruct (d_type it =? F) eqn:E; [|reflexivity]. cbn [andb].
    assert (Et : d_type it = F) by lia. unfold eff. rewrite Et, (Hall it Hin Et).
    destruct HF as [-> | [-> | [-> | ->]]]; reflexivity. }
  assert (Hex : existsb (sel F) its = false).
  { clear -Hsel. induction its as [|it its IH]; [reflexivity|]. cbn [existsb].
    rewrite (Hsel it (or_introl eq_refl)), IH; [reflexivity|]. intros x Hx. apply Hsel. now right. }
  assert (Hfind : find (sel F) its = None).
  { clear -Hsel. induction its as [|it its IH]; [reflexivity|]. cbn [find].
    rewrite (Hsel it (or_introl eq_refl)). apply IH. intros x Hx. apply Hsel. now right. }
  split.
  - unfold isSet, spec_cc. cbn [cmask]. rewrite testbit_mask_of. unfold spec_bit. now rewrite Hex.
  - assert (G : get_num (spec_cc its) F = spec_num its F).
    { destruct HF as [-> | [-> | [-> | ->]]]; reflexivity. }
    rewrite G. unfold spec_num. now rewrite Hfind.
Qed.

(* max-stale: the first occurrence decides; an invalid argument means the valueless form *)
Theorem cc_max_stale_first v st it :
  cc_parse v = Some st ->
  find (fun i => d_type i =? CC_MAX_STALE) (list_items 44 v) = Some it ->
  isSet st CC_MAX_STALE = true /\
  max_stale st = match d_num it with Some n => n | None => MAX_STALE_ANY end.
Proof.
  intros Hp Hf. rewrite cc_parse_exact in Hp. injection Hp as <-.
  set (its := list_items 44 v) in *.
  assert (Hs : forall i, sel CC_MAX_STALE i = (d_type i =? CC_MAX_STALE)).
  { intros i. unfold sel. destruct (d_type i =? CC_MAX_STALE) eqn:E; [|reflexivity].
    assert (Et : d_type i = CC_MAX_STALE) by lia. unfold eff. rewrite Et. reflexivity. }
  assert (Hf' : find (sel CC_MAX_STALE) its = Some it).
  { rewrite <- Hf. clear -Hs. induction its as [|i its IH]; [reflexivity|]. cbn [find]. now rewrite Hs, IH. }
  split.
  - unfold isSet, spec_cc. cbn [cmask]. rewrite testbit_mask_of. unfold spec_bit.
    assert (existsb (sel CC_MAX_STALE) its = true) as ->; [|reflexivity].
    apply existsb_exists. apply find_some in Hf'. exists it. exact Hf'.
  - unfold spec_cc. cbn [max_stale]. unfold spec_num. rewrite Hf'. reflexivity.
Qed.

(* ====================================================================== *)
(* httpHeaderParseQuotedString = RFC quoted-string decoding, for ALL inputs *)

(* RFC 9110 5.6.4: quoted-string = DQUOTE *( qdtext / quoted-pair ) DQUOTE
     qdtext = HTAB / SP / %x21 / %x23-5B / %x5D-7E / obs-text ; quoted-pair = BACKSLASH ( HTAB / SP / VCHAR / obs-text )
   plus the two documented leniencies of the code: LWS folding inside the string ([CR] LF (SP / HTAB), RFC 2616 2.2)
   reads as one SP, and whatever follows the closing DQUOTE is ignored. Character-at-a-time reference decoder. *)
Definition rfc_qdtext (c : N) : bool :=
  (c =? 9) || (c =? 32) || (c =? 33) || ((35 <=? c) && (c <=? 91)) || ((93 <=? c) && (c <=? 126)) || (128 <=? c).
Definition rfc_pairable (c : N) : bool := (c =? 9) || ((32 <=? c) && negb (c =? 127)).
Definition is_ht_sp (c : N) : bool := (c =? 32) || (c =? 9).
Fixpoint rfc_body (l acc : bytes) : option bytes :=
  match l with
  | [] => None
  | c :: r =>
      if c =? 34 then Some acc
      else if c =? 92 then
        match r with d :: r' => if rfc_pairable d then rfc_body r' (acc ++ [d]) else None | [] => None end
      else if c =? 13 then
        match r with d :: e :: r' => if (d =? 10) && is_ht_sp e then rfc_body r' (acc ++ [32]) else None | _ => None end
      else if c =? 10 then
        match r with e :: r' => if is_ht_sp e then rfc_body r' (acc ++ [32]) else None | [] => None end
      else if rfc_qdtext c then rfc_body r (acc ++ [c]) else None
  end.
Definition rfc_unquote (arg : bytes) : option bytes :=
  match arg with c :: l => if c =? 34 then rfc_body l [] else None | [] => None end.
Definition qres_of (o : option bytes) : qres := match o with Some t => QOk t | None => QFail end.

Lemma qd_char_is_qdtext c : qd_char c = rfc_qdtext c.
Proof. unfold qd_char, rfc_qdtext. lia. Qed.
Lemma bad_escaped_is_unpairable c : bad_escaped c = negb (rfc_pairable c).
Proof. unfold bad_escaped, rfc_pairable. lia. Qed.

Lemma rfc_body_run : forall run e acc, forallb qd_char run = true ->
  rfc_body (run ++ e) acc = rfc_body e (acc ++ run).
Proof.
  induction run as [|c r IH]; intros e acc H; cbn [app]; [now rewrite app_nil_r|].
  cbn [forallb] in H. apply andb_prop in H. destruct H as [Hc Hr]. cbn [rfc_body].
  assert (Hq : rfc_qdtext c = true) by (now rewrite <- qd_char_is_qdtext).
  replace (c =? 34) with false by (unfold qd_char in Hc; lia).
  replace (c =? 92) with false by (unfold qd_char in Hc; lia).
  replace (c =? 13) with false by (unfold qd_char in Hc; lia).
  replace (c =? 10) with false by (unfold qd_char in Hc; lia).
  rewrite Hq, (IH e (acc ++ [c]) Hr), <- app_assoc. reflexivity.
Qed.

(* with the whole text as window, the run stops only at the end or at a non-qdtext octet *)
Lemma qd_run_full : forall l, let '(run, e) := qd_run (lenN l) l in
  l = run ++ e /\ forallb qd_char run = true /\ (e = [] \/ qd_char (hdz e) = false).
Proof.
  induction l as [|c r IH]; cbn [lenN qd_run]; [repeat split; now left|].
  replace (0 <? N.succ (lenN r)) with true by lia. rewrite N.pred_succ. cbn [andb].
  destruct (qd_char c) eqn:E.
  - destruct (qd_run (lenN r) r) as [a b]. destruct IH as (-> & Ha & Hb). cbn [app forallb]. rewrite E, Ha. repeat split. exact Hb.
  - repeat split. right. exact E.
Qed.

Lemma pqs_loop_rfc : forall fuel pos k len val, k + lenN pos = len -> (length pos < fuel)%nat ->
  pqs_loop fuel pos k len val = qres_of (rfc_body pos val).
Proof.
  induction fuel as [|f IH]; intros pos k len val Hk Hf; [lia|].
  cbn [pqs_loop]. destruct pos as [|c r].
  { cbn [lenN] in Hk. assert (k = len) by lia. subst k. rewrite (pqs_iter_end [] len val eq_refl). reflexivity. }
  cbn [lenN length] in Hk, Hf. unfold pqs_iter. cbn [hdz tlz]. replace (k <? len) with true by lia.
  cbn [rfc_body]. destruct (c =? 34) eqn:E34; cbn [negb andb]; [reflexivity|].
  destruct (c =? 13) eqn:E13.
  - (* CR LF (SP | HT) *)
    replace (c =? 92) with false by lia.
    replace (len <? k + 1) with false by lia. cbn [orb].
    destruct r as [|d r2]; [reflexivity|]. cbn [hdz tlz lenN length] in *.
    destruct r2 as [|e r3].
    { destruct (d =? 10) eqn:Ed; cbn [negb]; [|reflexivity]. cbn [hdz tlz].
      replace (len <? k + 1 + 1) with false by lia. reflexivity. }
    cbn [hdz tlz lenN length] in *. destruct (d =? 10) eqn:Ed; cbn [negb andb]; [|reflexivity].
    replace (len <? k + 1 + 1) with false by lia. cbn [orb]. unfold is_ht_sp.
    destruct (e =? 32) eqn:E32; destruct (e =? 9) eqn:E9; cbn [negb andb orb]; try reflexivity;
      apply IH; lia.
  - cbn [hdz tlz]. destruct (c =? 10) eqn:E10.
    + (* LF (SP | HT) *)
      replace (c =? 92) with false by lia.
      destruct r as [|e r3]; [cbn [hdz tlz]; replace (len <? k + 1) with false by lia; reflexivity|].
      cbn [hdz tlz lenN length] in *. replace (len <? k + 1) with false by lia. cbn [orb]. unfold is_ht_sp.
      destruct (e =? 32) eqn:E32; destruct (e =? 9) eqn:E9; cbn [negb andb orb]; try reflexivity;
        apply IH; lia.
    + destruct (c =? 92) eqn:E92; cbn [andb].
      * (* quoted-pair *)
        destruct r as [|d r']; [reflexivity|]. cbn [hdz tlz lenN length] in *.
        replace (len <=? k + 1) with false by lia. rewrite orb_false_r, bad_escaped_is_unpairable.
        destruct (rfc_pairable d) eqn:Ep; cbn [negb]; [|reflexivity].
        replace (len - (k + 1 + 1)) with (lenN r') by lia.
        pose proof (qd_run_full r') as Hfull. destruct (qd_run (lenN r') r') as [run e].
        destruct Hfull as (Hr' & Hrun & He).
        rewrite Hr', (rfc_body_run run e (val ++ [d]) Hrun).
        assert (Hlen : lenN r' = lenN run + lenN e) by (rewrite Hr'; apply lenN_app).
        destruct e as [|e0 er]; [reflexivity|]. destruct He as [He|He]; [discriminate|]. cbn [hdz] in *.
        destruct (bad_ctl e0) eqn:Eb.
        { cbn [rfc_body]. rewrite <- qd_char_is_qdtext, He. unfold bad_ctl in Eb.
          replace (e0 =? 34) with false by lia. replace (e0 =? 92) with false by lia.
          replace (e0 =? 13) with false by lia. replace (e0 =? 10) with false by lia. reflexivity. }
        rewrite <- app_assoc. apply IH; [cbn [lenN] in *; lia|].
        apply (f_equal (@length N)) in Hr'. rewrite app_length in Hr'. cbn [length] in *. lia.
      * (* qdtext run *)
        cbn [app]. replace (len - k) with (lenN (c :: r)) by (cbn [lenN]; lia).
        pose proof (qd_run_full (c :: r)) as Hfull. destruct (qd_run (lenN (c :: r)) (c :: r)) as [run e] eqn:Er.
        destruct Hfull as (Hr' & Hrun & He).
        destruct (qd_char c) eqn:Eq.
        -- destruct (qd_run_progress c r (lenN (c :: r)) ltac:(cbn [lenN]; lia) Eq) as (a & b & Hrp).
           rewrite Hrp in Er. injection Er as <- <-.
           change (rfc_body (c :: r) val) with (rfc_body (c :: r) val).
           assert (Hsp : rfc_body (c :: r) val = rfc_body b (val ++ c :: a)).
           { rewrite Hr'. apply rfc_body_run. exact Hrun. }
           cbn [rfc_body] in Hsp. rewrite E34, E92, E13, E10 in Hsp. rewrite Hsp.
           assert (Hlen : lenN (c :: r) = lenN (c :: a) + lenN b) by (rewrite Hr' at 1; apply lenN_app).
           destruct b as [|e0 er]; [reflexivity|]. destruct He as [He|He]; [discriminate|]. cbn [hdz] in *.
           destruct (bad_ctl e0) eqn:Eb.
           { cbn [rfc_body]. rewrite <- qd_char_is_qdtext, He. unfold bad_ctl in Eb.
             replace (e0 =? 34) with false by lia. replace (e0 =? 92) with false by lia.
             replace (e0 =? 13) with false by lia. replace (e0 =? 10) with false by lia. reflexivity. }
           apply IH; [cbn [lenN] in *; lia|].
           apply (f_equal (@length N)) in Hr'. rewrite app_length in Hr'. cbn [length] in *. lia.
        -- assert (Hrn : qd_run (lenN (c :: r)) (c :: r) = ([], c :: r)).
           { cbn [qd_run]. rewrite Eq. now rewrite andb_false_r. }
           rewrite Hrn in Er. injection Er as <- <-. cbn [hdz].
           rewrite (bad_ctl_not_qd c Eq E34 E92 E13 E10). rewrite <- qd_char_is_qdtext, Eq. reflexivity.
Qed.

(* C29: quoted-string decoding = RFC quoted-string with quoted-pairs, for all inputs *)
Theorem pqs_is_rfc arg : parse_quoted_string arg (lenN arg) = qres_of (rfc_unquote arg).
Proof.
  unfold parse_quoted_string, rfc_unquote. destruct arg as [|c l]; [reflexivity|]. cbn [hdz tlz].
  destruct (c =? 34); cbn [negb]; [|reflexivity].
  apply pqs_loop_rfc; [cbn [lenN]; lia|cbn [length]; lia].
Qed.

(* decode (encode X) = X : httpHeaderQuoteString output reads back, whatever follows *)
Definition txt_char (c : N) : bool := rfc_pairable c.
Definition esc (X : bytes) : bytes := flat_map (fun c => if is_special c then [92; c] else [c]) X.

Lemma esc_id X : existsb is_special X = false -> esc X = X.
Proof.
  unfold esc. induction X as [|c r IH]; [reflexivity|]. cbn [existsb flat_map]. intros H.
  apply orb_false_elim in H. destruct H as [Hc Hr]. rewrite Hc. cbn [app]. now rewrite IH.
Qed.

Lemma txt_no_nul X : forallb txt_char X = true -> no_nul X.
Proof.
  unfold no_nul. induction X as [|c r IH]; [reflexivity|]. cbn [forallb]. intros H. apply andb_prop in H.
  destruct H as [Hc Hr]. rewrite (IH Hr), andb_true_r. unfold txt_char, rfc_pairable in Hc. lia.
Qed.

Lemma c_str_id0 l : no_nul l -> c_str l = l.
Proof.
  unfold no_nul, c_str. induction l as [|c r IH]; intros H; [reflexivity|].
  cbn [forallb] in H. apply andb_prop in H. destruct H as [Hc Hr]. cbn [span]. rewrite Hc.
  specialize (IH Hr). destruct (span _ r) as [a b]. cbn [fst] in *. now rewrite IH.
Qed.

Lemma quote_string_eq X : forallb txt_char X = true -> quote_string X = 34 :: esc X ++ [34].
Proof.
  intros H. unfold quote_string. rewrite (c_str_id0 X (txt_no_nul X H)).
  destruct (existsb is_special X) eqn:E; [reflexivity|]. now rewrite (esc_id X E).
Qed.

Lemma rfc_body_esc : forall X junk acc, forallb txt_char X = true ->
  rfc_body (esc X ++ 34 :: junk) acc = Some (acc ++ X).
Proof.
  induction X as [|c r IH]; intros junk acc H.
  - cbn. now rewrite app_nil_r.
  - cbn [forallb] in H. apply andb_prop in H. destruct H as [Hc Hr].
    unfold esc. cbn [flat_map]. fold (esc r). destruct (is_special c) eqn:Es.
    + cbn [app rfc_body]. unfold is_special in Es.
      assert (Hcs : c = 34 \/ c = 92) by lia.
      replace (92 =? 34) with false by reflexivity. replace (92 =? 92) with true by reflexivity.
      unfold txt_char in Hc. rewrite Hc, (IH junk (acc ++ [c]) Hr), <- app_assoc. reflexivity.
    + cbn [app rfc_body]. unfold is_special in Es. unfold txt_char, rfc_pairable in Hc.
      replace (c =? 34) with false by lia. replace (c =? 92) with false by lia.
      replace (c =? 13) with false by lia. replace (c =? 10) with false by lia.
      replace (rfc_qdtext c) with true by (unfold rfc_qdtext; lia).
      rewrite (IH junk (acc ++ [c]) Hr), <- app_assoc. reflexivity.
Qed.

Theorem quote_unquote X junk : forallb txt_char X = true -> rfc_unquote (quote_string X ++ junk) = Some X.
Proof.
  intros H. rewrite (quote_string_eq X H). cbn [app rfc_unquote N.eqb Pos.eqb].
  rewrite <- app_assoc. cbn [app]. now rewrite (rfc_body_esc X junk [] H).
Qed.

Theorem pqs_quote_string X : forallb txt_char X = true ->
  parse_quoted_string (quote_string X) (lenN (quote_string X)) = QOk X.
Proof.
  intros H. rewrite pqs_is_rfc. rewrite <- (app_nil_r (quote_string X)). now rewrite (quote_unquote X [] H).
Qed.

(* the former counterexamples, now decoded as RFC 9110 says *)
Definition wit_qpair : bytes := [34; 97; 92; 34; 98; 34].      (* DQUOTE a BACKSLASH DQUOTE b DQUOTE *)
Definition wit_qback : bytes := [34; 97; 92; 92; 98; 34].      (* DQUOTE a BACKSLASH BACKSLASH b DQUOTE *)
Definition wit_htab : bytes := [34; 65; 44; 9; 66; 34].        (* DQUOTE A , HTAB B DQUOTE *)

(* ====================================================================== *)
(* Part D. packInto, and parsing the packed text *)

(* --- the scanner on concatenations --- *)
(* state after scanning all of l without meeting an unquoted ',' or ending inside an escape *)
Fixpoint scan_q (q : bool) (l : bytes) : option bool :=
  match l with
  | [] => Some q
  | c :: r =>
      if q then
        if c =? 34 then scan_q false r
        else if c =? 92 then match r with [] => None | _ :: r' => scan_q true r' end
        else scan_q true r
      else
        if c =? 34 then scan_q true r
        else if c =? 44 then None
        else scan_q false r
  end.

Lemma scan_item_app : forall a q q' b acc, scan_q q a = Some q' ->
  scan_item 44 q (a ++ b) acc = scan_item 44 q' b (rev a ++ acc).
Proof.
  fix IH 1. intros a q q' b acc H. destruct a as [|c r].
  - cbn in H. injection H as <-. reflexivity.
  - cbn [scan_q] in H. cbn [app scan_item]. destruct q.
    + destruct (c =? 34).
      * rewrite (IH r false q' b (c :: acc) H). cbn [rev]. now rewrite <- app_assoc.
      * destruct (c =? 92).
        -- destruct r as [|d r']; [discriminate|]. cbn [app].
           rewrite (IH r' true q' b (d :: c :: acc) H). cbn [rev]. now rewrite <- !app_assoc.
        -- rewrite (IH r true q' b (c :: acc) H). cbn [rev]. now rewrite <- app_assoc.
    + destruct (c =? 34).
      * rewrite (IH r true q' b (c :: acc) H). cbn [rev]. now rewrite <- app_assoc.
      * destruct (c =? 44) eqn:E44; [discriminate|]. rewrite orb_diag.
        rewrite (IH r false q' b (c :: acc) H). cbn [rev]. now rewrite <- app_assoc.
Qed.

Lemma scan_q_app : forall a q q' b, scan_q q a = Some q' -> scan_q q (a ++ b) = scan_q q' b.
Proof.
  fix IH 1. intros a q q' b H. destruct a as [|c r].
  - cbn in H. injection H as <-. reflexivity.
  - cbn [scan_q] in H. cbn [app scan_q]. destruct q.
    + destruct (c =? 34); [exact (IH r false q' b H)|].
      destruct (c =? 92); [|exact (IH r true q' b H)].
      destruct r as [|d r']; [discriminate|]. cbn [app]. exact (IH r' true q' b H).
    + destruct (c =? 34); [exact (IH r true q' b H)|].
      destruct (c =? 44); [discriminate|]. exact (IH r false q' b H).
Qed.

Definition closed (i : bytes) : Prop := scan_q false i = Some false.
Definition good_item (i : bytes) : Prop :=
  is_delim2 44 (hdz i) = false /\ ends_nonspace i /\ no_nul i /\ closed i.

(* items joined by ", " *)
Fixpoint joinr (its : list bytes) : bytes :=
  match its with
  | [] => []
  | x :: r => match r with [] => x | _ => x ++ [44; 32] ++ joinr r end
  end.

Lemma rtrim_ends i : ends_nonspace i -> rtrim i = i.
Proof.
  intros (b & c & -> & Hc). unfold rtrim. rewrite rev_app_distr. cbn [rev app drop_while]. rewrite Hc.
  cbn [rev]. now rewrite rev_involutive.
Qed.

Lemma drop_while_head_false p l : p (hdz l) = false -> l <> [] -> drop_while p l = l.
Proof. destruct l as [|c r]; [contradiction|]. cbn [hdz drop_while]. now intros ->. Qed.

Lemma ends_nonnil i : ends_nonspace i -> i <> [].
Proof. intros (b & c & -> & _). destruct b; discriminate. Qed.

Lemma items_joinr : forall its f, Forall good_item its -> (length (joinr its) < f)%nat ->
  items_fuel f 44 (joinr its) = its.
Proof.
  induction its as [|x r IH]; intros f Hg Hf.
  - destruct f; reflexivity.
  - inversion Hg as [|? ? (Hhd & Hends & Hn & Hcl) Hr]; subst.
    destruct f as [|f]; [lia|]. cbn [items_fuel joinr].
    destruct r as [|y r'].
    + rewrite (drop_while_head_false _ x Hhd (ends_nonnil x Hends)).
      rewrite <- (app_nil_r x) at 1. rewrite (scan_item_app x false false [] [] Hcl).
      cbn [scan_item]. rewrite app_nil_r, rev_involutive, (rtrim_ends x Hends).
      destruct x as [|x0 xr]; [now apply ends_nonnil in Hends|].
      destruct f; reflexivity.
    + assert (Hdw : drop_while (is_delim2 44) (x ++ [44; 32] ++ joinr (y :: r')) = x ++ [44; 32] ++ joinr (y :: r')).
      { apply drop_while_head_false; [|destruct x; [now apply ends_nonnil in Hends|discriminate]].
        destruct x as [|x0 xr]; [now apply ends_nonnil in Hends|exact Hhd]. }
      rewrite Hdw. rewrite (scan_item_app x false false _ [] Hcl).
      cbn [app scan_item N.eqb Pos.eqb orb]. rewrite app_nil_r, rev_involutive, (rtrim_ends x Hends).
      destruct x as [|x0 xr]; [now apply ends_nonnil in Hends|].
      f_equal.
      (* next iteration starts at ", " ++ joinr (y :: r'): the leading delimiters are skipped *)
      assert (Hnext : forall g, items_fuel (S g) 44 (44 :: 32 :: joinr (y :: r')) = items_fuel (S g) 44 (joinr (y :: r'))).
      { intros g. cbn [items_fuel drop_while is_delim2 N.eqb Pos.eqb orb]. reflexivity. }
      change (joinr ((x0 :: xr) :: y :: r')) with ((x0 :: xr) ++ 44 :: 32 :: joinr (y :: r')) in Hf.
      rewrite app_length in Hf. set (L := length (joinr (y :: r'))) in *. cbn [length] in Hf. fold L in Hf.
      destruct f as [|f]; [lia|]. rewrite Hnext. apply IH; [exact Hr|]. fold L. lia.
Qed.

(* --- "%d" of a non-negative int reads back through httpHeaderParseInt --- *)
Definition dz (c : N) : Z := (Z.of_N c - 48)%Z.

Lemma dec_digits_S k n :
  dec_digits (S k) n = if n <? 10 then [48 + n] else dec_digits k (n / 10) ++ [48 + n mod 10].
Proof. reflexivity. Qed.

Lemma digits_value_snoc ds d : digits_value 10 (ds ++ [d]) 0 = (digits_value 10 ds 0 * 10 + d)%Z.
Proof. unfold digits_value. rewrite fold_left_app. reflexivity. Qed.

Lemma dec_digits_spec : forall fuel n, n < 10 ^ N.of_nat (S fuel) ->
  digits_value 10 (map dz (dec_digits (S fuel) n)) 0 = Z.of_N n /\
  forallb is_digit (dec_digits (S fuel) n) = true /\ dec_digits (S fuel) n <> [].
Proof.
  induction fuel as [|k IH]; intros n Hn; rewrite dec_digits_S; destruct (n <? 10) eqn:E.
  - repeat split; [unfold digits_value, dz; cbn [map fold_left]; lia| cbn [forallb]; unfold is_digit; lia| discriminate].
  - change (10 ^ N.of_nat 1) with 10 in Hn. lia.
  - repeat split; [unfold digits_value, dz; cbn [map fold_left]; lia| cbn [forallb]; unfold is_digit; lia| discriminate].
  - assert (Hk : n / 10 < 10 ^ N.of_nat (S k)).
    { rewrite (Nat2N.inj_succ (S k)), N.pow_succ_r' in Hn. apply N.div_lt_upper_bound; lia. }
    destruct (IH _ Hk) as (Hv & Hd & Hne). repeat split.
    + rewrite map_app. cbn [map]. rewrite digits_value_snoc, Hv. unfold dz. pose proof (N.div_mod n 10). lia.
    + rewrite forallb_app, Hd. cbn [forallb]. unfold is_digit. pose proof (N.mod_lt n 10). lia.
    + intros H. apply app_eq_nil in H as [_ H]. discriminate.
Qed.

Lemma digit_run_digits : forall ds, forallb is_digit ds = true -> digit_run 10 ds = map dz ds.
Proof.
  induction ds as [|c r IH]; intros H; [reflexivity|].
  cbn [forallb] in H. apply andb_prop in H. destruct H as [Hc Hr]. cbn [digit_run map].
  assert (E : digit_of 10 c = Some (dz c)).
  { unfold digit_of, digit_raw. rewrite Hc. unfold is_digit in Hc. unfold dz.
    destruct (Z.of_N c - 48 >=? 10)%Z eqn:E; [lia|reflexivity]. }
  rewrite E. now rewrite IH.
Qed.

Lemma parse_int_dec v : (0 <= v < 2147483648)%Z -> parse_int (dec_of_Z v) = Some v.
Proof.
  intros Hv. unfold dec_of_Z. replace (v <? 0)%Z with false by lia.
  assert (Hn : Z.to_N v < 10 ^ N.of_nat 12) by (change (10 ^ N.of_nat 12) with 1000000000000; lia).
  destruct (dec_digits_spec 11 _ Hn) as (Hval & Hd & Hne).
  set (ds := dec_digits 12 (Z.to_N v)) in *.
  assert (Hnn : no_nul ds).
  { unfold no_nul. clear -Hd. induction ds as [|c r IH]; [reflexivity|]. cbn [forallb] in *.
    apply andb_prop in Hd. destruct Hd as [Hc Hr]. rewrite (IH Hr), andb_true_r. unfold is_digit in Hc. lia. }
  unfold parse_int. rewrite strtoll10_unfold, (c_string_no_nul ds Hnn).
  destruct ds as [|c r] eqn:Eds; [contradiction|].
  pose proof Hd as Hd0. cbn [forallb] in Hd. apply andb_prop in Hd. destruct Hd as [Hc _].
  assert (Hsp : skip_space (c :: r) 0 = (c :: r, 0)).
  { cbn [skip_space]. replace (is_c_space c) with false by (unfold is_c_space, is_digit in *; lia). reflexivity. }
  rewrite Hsp.
  assert (Hss : sign_split (c :: r) 0 = (false, c :: r, 0)).
  { unfold sign_split. destruct c as [|p]; [reflexivity|].
    unfold is_digit in Hc.
    destruct p as [p|p|]; try reflexivity; repeat (destruct p as [p|p|]; try reflexivity; try lia). }
  rewrite Hss. unfold strtoll10_tail. rewrite (digit_run_digits (c :: r) Hd0).
  cbn [map]. change (dz c :: map dz r) with (map dz (c :: r)). rewrite Hval.
  rewrite Z2N.id by lia. unfold two63, two31.
  repeat match goal with |- context [if ?c then _ else _] => destruct c eqn:? end; try reflexivity; try (rewrite Hc in *; cbn [negb] in *); lia.
Qed.

(* --- well-formed objects (what parse() produces) --- *)
Definition cc_wf (st : cc) : Prop :=
  (forall F, is_numeric_type F = true -> isSet st F = true -> (0 <= get_num st F < 2147483648)%Z) /\
  forallb txt_char (private_ st) = true /\ forallb txt_char (no_cache st) = true /\
  cc_inv st /\ (forall n, CC_OTHER <= n -> isSet st n = false).

(* the text httpHeaderParseQuotedString returns never contains DQUOTE, backslash or a CTL *)
Lemma qd_run_chars : forall l room, forallb qd_char (fst (qd_run room l)) = true.
Proof.
  induction l as [|c r IH]; intros room; cbn [qd_run]; [reflexivity|].
  destruct ((0 <? room) && qd_char c) eqn:E; [|reflexivity].
  specialize (IH (N.pred room)). destruct (qd_run (N.pred room) r) as [a b]. cbn [fst forallb] in *.
  apply andb_prop in E. destruct E as [_ ->]. exact IH.
Qed.

Lemma qd_txt c : qd_char c = true -> txt_char c = true.
Proof. unfold qd_char, txt_char, rfc_pairable. lia. Qed.
Lemma forallb_qd_txt l : forallb qd_char l = true -> forallb txt_char l = true.
Proof.
  induction l as [|c r IH]; [reflexivity|]. cbn [forallb]. intros H. apply andb_prop in H. destruct H as [Hc Hr].
  now rewrite (qd_txt c Hc), IH.
Qed.

Lemma pqs_iter_chars pos k len val : forallb txt_char val = true ->
  match pqs_iter pos k len val with
  | QDone (QOk t) => forallb txt_char t = true
  | QNext _ _ v => forallb txt_char v = true
  | _ => True
  end.
Proof.
  intros Hv. unfold pqs_iter.
  repeat match goal with
  | |- context [qd_run ?a ?b] =>
      let H := fresh "Hrun" in pose proof (forallb_qd_txt _ (qd_run_chars b a)) as H;
      destruct (qd_run a b) as [? ?]; cbn [fst] in H
  | |- context [if ?c then _ else _] => destruct c eqn:?
  end; try exact I; try exact Hv.
  all: rewrite ?forallb_app; cbn [forallb]; rewrite ?Hv, ?Hrun; cbn [andb]; try reflexivity.
  all: rewrite ?andb_true_r.
  all: match goal with H : true && (bad_escaped _ || _) = false |- _ =>
         cbn [andb] in H; apply orb_false_elim in H; destruct H as [H _];
         rewrite bad_escaped_is_unpairable in H; unfold txt_char end.
  all: match goal with H : negb (rfc_pairable ?x) = false |- rfc_pairable ?x = true =>
         destruct (rfc_pairable x); [reflexivity|discriminate] end.
Qed.

Lemma pqs_loop_chars : forall fuel pos k len val t, forallb txt_char val = true ->
  pqs_loop fuel pos k len val = QOk t -> forallb txt_char t = true.
Proof.
  induction fuel as [|f IH]; intros pos k len val t Hv H; [discriminate|].
  cbn [pqs_loop] in H. pose proof (pqs_iter_chars pos k len val Hv) as Hi.
  destruct (pqs_iter pos k len val) as [[t'| |]|p k' v]; try discriminate.
  - injection H as <-. exact Hi.
  - exact (IH _ _ _ _ _ Hi H).
Qed.

Lemma pqs_chars s len t : parse_quoted_string s len = QOk t -> forallb txt_char t = true.
Proof.
  unfold parse_quoted_string. destruct (negb (hdz s =? 34)); [discriminate|].
  apply pqs_loop_chars. reflexivity.
Qed.

Lemma qs_text_chars it : forallb txt_char (qs_text (d_qs it)) = true.
Proof.
  unfold d_qs. destruct (d_arg it) as [a|]; [|reflexivity]. cbn [qs_text].
  destruct (parse_quoted_string a (lenN a)) as [t| |] eqn:E; try reflexivity. exact (pqs_chars _ _ _ E).
Qed.

Lemma fold_inv : forall its st, cc_inv st -> cc_inv (fold_items its st).
Proof.
  induction its as [|it its IH]; intros st H; [exact H|]. cbn [fold_items fold_left].
  apply IH. now apply cc_inv_step.
Qed.

Lemma find_sel_some F its it : find (sel F) its = Some it -> d_type it = F /\ eff it = true.
Proof.
  intros H. apply find_some in H. destruct H as [_ H]. unfold sel in H. apply andb_prop in H.
  destruct H as [H1 H2]. split; [lia|exact H2].
Qed.

Lemma spec_cc_wf its : cc_wf (spec_cc its).
Proof.
  split; [|split; [|split; [|split]]].
  - intros F HF HS. assert (G : get_num (spec_cc its) F = spec_num its F).
    { unfold is_numeric_type in HF.
      assert (Hc : F = CC_MAX_AGE \/ F = CC_S_MAXAGE \/ F = CC_MAX_STALE \/ F = CC_MIN_FRESH \/ F = CC_STALE_IF_ERROR) by lia.
      destruct Hc as [-> | [-> | [-> | [-> | ->]]]]; reflexivity. }
    rewrite G. unfold spec_num. destruct (find (sel F) its) as [it|] eqn:E.
    2:{ exfalso. unfold isSet, spec_cc in HS. cbn [cmask] in HS. rewrite testbit_mask_of in HS.
        apply andb_prop in HS. destruct HS as [HS _]. unfold spec_bit in HS. apply existsb_exists in HS.
        destruct HS as (x & Hin & Hx). apply (find_none _ _ E x Hin) in Hx || (rewrite (find_none _ _ E x Hin) in Hx; discriminate). }
    unfold num_of. destruct (d_num it) as [n|] eqn:En; [exact (d_num_range it n En)|]. unfold MAX_STALE_ANY. lia.
  - unfold spec_cc. cbn [private_]. unfold spec_text. destruct (find _ its); [apply qs_text_chars|reflexivity].
  - unfold spec_cc. cbn [no_cache]. unfold spec_text. destruct (find _ its); [apply qs_text_chars|reflexivity].
  - rewrite <- fold_items_spec. apply fold_inv, cc_inv_init.
  - intros n Hn. unfold isSet, spec_cc. cbn [cmask]. rewrite testbit_mask_of.
    destruct (n <? CC_ENUM_END) eqn:E; [|apply andb_false_r]. rewrite andb_true_r.
    assert (n = CC_OTHER) by (unfold CC_OTHER, CC_ENUM_END in *; lia). subst n.
    unfold spec_bit. induction its as [|it its IH]; [reflexivity|]. cbn [existsb]. rewrite IH, orb_false_r.
    unfold sel. destruct (d_type it =? CC_OTHER) eqn:Et; [|reflexivity]. cbn [andb].
    assert (Ht : d_type it = CC_OTHER) by lia. unfold eff. rewrite Ht. reflexivity.
Qed.

(* --- the packed elements --- *)
Definition kn (st : cc) (F : N) : list bytes :=
  if isSet st F && negb (F =? CC_OTHER) then [pack_one st F] else [].
Definition all_flags : list N := seqN CC_PUBLIC (N.to_nat CC_ENUM_END).
Definition known (st : cc) : list bytes := flat_map (kn st) all_flags.

Definition name_char (c : N) : bool := is_lower c || (c =? 45).
Definition nm (F : N) : bytes := name_of cc_table F.

(* facts about the regenerated names of the known directives, by computation over the table *)
Definition known_ids : list N := seqN CC_PUBLIC (N.to_nat CC_OTHER).
Lemma names_ok : forallb (fun F => forallb name_char (nm F) && negb (lenN (nm F) =? 0) &&
                                   (cc_type_by_name (nm F) =? F)) known_ids = true.
Proof. vm_compute. reflexivity. Qed.

Lemma in_known_ids F : F < CC_OTHER -> In F known_ids.
Proof.
  intros H. unfold CC_OTHER in H. unfold known_ids.
  assert (Hc : F = 0 \/ F = 1 \/ F = 2 \/ F = 3 \/ F = 4 \/ F = 5 \/ F = 6 \/ F = 7 \/ F = 8 \/ F = 9 \/
               F = 10 \/ F = 11 \/ F = 12 \/ F = 13) by lia.
  repeat (destruct Hc as [Hc|Hc]; [subst F; vm_compute; tauto|]). subst F; vm_compute; tauto.
Qed.

Lemma nm_facts F : F < CC_OTHER ->
  forallb name_char (nm F) = true /\ nm F <> [] /\ cc_type_by_name (nm F) = F.
Proof.
  intros H. pose proof names_ok as Hall. rewrite forallb_forall in Hall.
  specialize (Hall F (in_known_ids F H)). apply andb_prop in Hall. destruct Hall as [Hall H3].
  apply andb_prop in Hall. destruct Hall as [H1 H2]. split; [exact H1|]. split; [|lia].
  intros E. rewrite E in H2. discriminate.
Qed.

Lemma name_char_props c : name_char c = true ->
  (c =? 61) = false /\ (c =? 34) = false /\ (c =? 44) = false /\ (c =? 92) = false /\ is_xspace c = false /\
  (c =? 0) = false /\ is_delim2 44 c = false.
Proof. unfold name_char, is_lower, is_xspace, is_delim2. lia. Qed.

(* splitting name=argument when the name has no '=' *)
Lemma span_name : forall n x, forallb name_char n = true ->
  span (fun c => negb (c =? 61)) (n ++ x) = (n ++ fst (span (fun c => negb (c =? 61)) x), snd (span (fun c => negb (c =? 61)) x)).
Proof.
  induction n as [|c r IH]; intros x H; cbn [app].
  - destruct (span _ x); reflexivity.
  - cbn [forallb] in H. apply andb_prop in H. destruct H as [Hc Hr]. cbn [span].
    destruct (name_char_props c Hc) as (E61 & _). rewrite E61. cbn [negb].
    rewrite (IH x Hr). reflexivity.
Qed.

Lemma d_name_plain n : forallb name_char n = true -> d_name n = n /\ d_arg n = None.
Proof.
  intros H. unfold d_name, d_arg. rewrite <- (app_nil_r n) at 1 3. rewrite (span_name n [] H). cbn [span fst snd].
  now rewrite app_nil_r.
Qed.
Lemma d_name_eq n a : forallb name_char n = true -> d_name (n ++ 61 :: a) = n /\ d_arg (n ++ 61 :: a) = Some a.
Proof.
  intros H. unfold d_name, d_arg. rewrite (span_name n (61 :: a) H). cbn [span N.eqb Pos.eqb negb fst snd].
  now rewrite app_nil_r.
Qed.

(* scanning names, digits and plain quoted text *)
Lemma scan_q_unq : forall l, forallb (fun c => negb (c =? 34) && negb (c =? 44)) l = true -> scan_q false l = Some false.
Proof.
  induction l as [|c r IH]; intros H; [reflexivity|].
  cbn [forallb] in H. apply andb_prop in H. destruct H as [Hc Hr]. cbn [scan_q].
  replace (c =? 34) with false by lia. replace (c =? 44) with false by lia. now apply IH.
Qed.
Lemma scan_q_quoted : forall X, forallb txt_char X = true -> scan_q true (esc X ++ [34]) = Some false.
Proof.
  induction X as [|c r IH]; intros H; [reflexivity|].
  cbn [forallb] in H. apply andb_prop in H. destruct H as [Hc Hr].
  unfold esc. cbn [flat_map]. fold (esc r). destruct (is_special c) eqn:Es.
  - cbn [app scan_q N.eqb Pos.eqb]. now apply IH.
  - cbn [app scan_q]. unfold is_special in Es.
    replace (c =? 34) with false by lia. replace (c =? 92) with false by lia. now apply IH.
Qed.
Lemma esc_no_nul X : forallb txt_char X = true -> no_nul (esc X).
Proof.
  unfold no_nul. induction X as [|c r IH]; intros H; [reflexivity|].
  cbn [forallb] in H. apply andb_prop in H. destruct H as [Hc Hr].
  unfold esc. cbn [flat_map]. fold (esc r). rewrite forallb_app, (IH Hr), andb_true_r.
  unfold txt_char, rfc_pairable in Hc. destruct (is_special c); cbn [forallb]; lia.
Qed.

Lemma forallb_impl {A} (p q : A -> bool) l : (forall x, p x = true -> q x = true) ->
  forallb p l = true -> forallb q l = true.
Proof.
  intros Hpq. induction l as [|x l IH]; [reflexivity|]. cbn [forallb]. intros H. apply andb_prop in H.
  destruct H as [Hx Hl]. now rewrite (Hpq x Hx), IH.
Qed.

Lemma ends_of_last l c : is_xspace c = false -> ends_nonspace (l ++ [c]).
Proof. intros H. now exists l, c. Qed.

Lemma ends_of_forallb l : l <> [] -> forallb (fun c => negb (is_xspace c)) l = true -> ends_nonspace l.
Proof.
  intros Hne H. destruct (@exists_last _ l Hne) as (b & c & ->).
  rewrite forallb_app in H. apply andb_prop in H. destruct H as [_ H]. cbn [forallb] in H.
  apply ends_of_last. destruct (is_xspace c); [discriminate|reflexivity].
Qed.

Definition arg_ok (a : bytes) : Prop :=
  a = [] \/ (exists ds, a = 61 :: ds /\ ds <> [] /\ forallb is_digit ds = true) \/
  (exists X, a = 61 :: 34 :: esc X ++ [34] /\ forallb txt_char X = true).

Lemma good_name_arg F a : F < CC_OTHER -> arg_ok a -> good_item (nm F ++ a).
Proof.
  intros HF Ha. destruct (nm_facts F HF) as (Hn & Hne & _).
  destruct (nm F) as [|n0 nr] eqn:En; [contradiction|].
  pose proof Hn as Hn0. cbn [forallb] in Hn. apply andb_prop in Hn. destruct Hn as [Hc0 Hnr].
  destruct (name_char_props n0 Hc0) as (_ & _ & _ & _ & _ & _ & Hd0).
  assert (Hnn : no_nul (n0 :: nr)).
  { unfold no_nul. apply (forallb_impl name_char); [|exact Hn0]. intros x Hx.
    destruct (name_char_props x Hx) as (_ & _ & _ & _ & _ & E0 & _). now rewrite E0. }
  assert (Hns : forallb (fun c => negb (is_xspace c)) (n0 :: nr) = true).
  { apply (forallb_impl name_char); [|exact Hn0]. intros x Hx.
    destruct (name_char_props x Hx) as (_ & _ & _ & _ & Es & _). now rewrite Es. }
  assert (Hsc : scan_q false (n0 :: nr) = Some false).
  { apply scan_q_unq. apply (forallb_impl name_char); [|exact Hn0]. intros x Hx.
    destruct (name_char_props x Hx) as (_ & E34 & E44 & _). now rewrite E34, E44. }
  split; [exact Hd0|].
  destruct Ha as [->|[(ds & -> & Hdne & Hds)|(X & -> & HX)]].
  - rewrite app_nil_r. split; [apply ends_of_forallb; [discriminate|exact Hns]|]. split; [exact Hnn|exact Hsc].
  - split; [|split].
    + apply ends_of_forallb; [discriminate|]. rewrite forallb_app, Hns. cbn [forallb andb].
      apply (forallb_impl is_digit); [|exact Hds]. intros x Hx. unfold is_digit, is_xspace in *. lia.
    + apply no_nul_app. split; [exact Hnn|]. unfold no_nul. cbn [forallb andb N.eqb negb].
      apply (forallb_impl is_digit); [|exact Hds]. intros x Hx. unfold is_digit in *. lia.
    + unfold closed. rewrite (scan_q_app _ false false _ Hsc). apply scan_q_unq. cbn [forallb andb N.eqb Pos.eqb negb].
      apply (forallb_impl is_digit); [|exact Hds]. intros x Hx. unfold is_digit in *. lia.
  - split; [|split].
    + replace ((n0 :: nr) ++ 61 :: 34 :: esc X ++ [34]) with (((n0 :: nr) ++ 61 :: 34 :: esc X) ++ [34])
        by (rewrite <- !app_assoc; reflexivity).
      now apply ends_of_last.
    + apply no_nul_app. split; [exact Hnn|]. unfold no_nul. cbn [forallb andb N.eqb Pos.eqb negb].
      rewrite forallb_app. cbn [forallb andb N.eqb Pos.eqb negb]. rewrite andb_true_r.
      exact (esc_no_nul X HX).
    + unfold closed. rewrite (scan_q_app _ false false _ Hsc). cbn [scan_q N.eqb Pos.eqb]. now apply scan_q_quoted.
Qed.

(* --- each packed element, read back as an item --- *)
Definition pk_arg (st : cc) (flag : N) : bytes :=
  if flag =? CC_PRIVATE then
     match private_ st with [] => [] | v => 61 :: quote_string v end
   else if flag =? CC_NO_CACHE then
     match no_cache st with [] => [] | v => 61 :: quote_string v end
   else if flag =? CC_MAX_AGE then 61 :: dec_of_Z (max_age st)
   else if flag =? CC_S_MAXAGE then 61 :: dec_of_Z (s_maxage st)
   else if flag =? CC_MAX_STALE then
     if (max_stale st =? MAX_STALE_ANY)%Z then [] else 61 :: dec_of_Z (max_stale st)
   else if flag =? CC_MIN_FRESH then 61 :: dec_of_Z (min_fresh st)
   else if flag =? CC_STALE_IF_ERROR then 61 :: dec_of_Z (stale_if_error st)
   else [].
Lemma pack_one_eq st F : pack_one st F = nm F ++ pk_arg st F.
Proof. reflexivity. Qed.

Lemma dec_of_Z_digits v : (0 <= v < 2147483648)%Z -> dec_of_Z v <> [] /\ forallb is_digit (dec_of_Z v) = true.
Proof.
  intros Hv. unfold dec_of_Z. replace (v <? 0)%Z with false by lia.
  assert (Hn : Z.to_N v < 10 ^ N.of_nat 12) by (change (10 ^ N.of_nat 12) with 1000000000000; lia).
  destruct (dec_digits_spec 11 _ Hn) as (_ & Hd & Hne). now split.
Qed.

(* what the item says, for every possible argument shape *)
Inductive item_view (st : cc) (F : N) : Prop :=
| IV : arg_ok (pk_arg st F) ->
       d_type (pack_one st F) = F -> eff (pack_one st F) = true ->
       (is_numeric_type F = true -> num_of (pack_one st F) = get_num st F) ->
       (F = CC_PRIVATE -> qs_text (d_qs (pack_one st F)) = private_ st) ->
       (F = CC_NO_CACHE -> qs_text (d_qs (pack_one st F)) = no_cache st) -> item_view st F.

Lemma d_qs_quoted F X : F < CC_OTHER -> forallb txt_char X = true ->
  d_qs (nm F ++ 61 :: quote_string X) = Some (QOk X).
Proof.
  intros HF HX. destruct (nm_facts F HF) as (Hn & _ & _).
  unfold d_qs. destruct (d_name_eq (nm F) (quote_string X) Hn) as [_ ->].
  f_equal. now apply pqs_quote_string.
Qed.

Lemma d_num_dec F v : F < CC_OTHER -> (0 <= v < 2147483648)%Z -> d_num (nm F ++ 61 :: dec_of_Z v) = Some v.
Proof.
  intros HF Hv. destruct (nm_facts F HF) as (Hn & _ & _).
  unfold d_num. destruct (d_name_eq (nm F) (dec_of_Z v) Hn) as [_ ->].
  rewrite (parse_int_dec v Hv). replace (v <? 0)%Z with false by lia. reflexivity.
Qed.

Lemma d_type_name_arg F a : F < CC_OTHER -> (a = [] \/ exists x, a = 61 :: x) -> d_type (nm F ++ a) = F.
Proof.
  intros HF Ha. destruct (nm_facts F HF) as (Hn & _ & Ht). unfold d_type.
  destruct Ha as [->|(x & ->)].
  - rewrite app_nil_r. destruct (d_name_plain (nm F) Hn) as [-> _]. exact Ht.
  - destruct (d_name_eq (nm F) x Hn) as [-> _]. exact Ht.
Qed.

Lemma d_plain F : F < CC_OTHER -> d_num (nm F) = None /\ d_qs (nm F) = None.
Proof.
  intros HF. destruct (nm_facts F HF) as (Hn & _ & _). unfold d_num, d_qs.
  destruct (d_name_plain (nm F) Hn) as [_ ->]. split; reflexivity.
Qed.

Lemma item_view_ok st F : cc_wf st -> F < CC_OTHER -> isSet st F = true -> item_view st F.
Proof.
  intros (Hrange & Hpv & Hnc & _ & _) HF HS.
  assert (Hc : F = 0 \/ F = 1 \/ F = 2 \/ F = 3 \/ F = 4 \/ F = 5 \/ F = 6 \/ F = 7 \/ F = 8 \/ F = 9 \/
               F = 10 \/ F = 11 \/ F = 12 \/ F = 13) by (unfold CC_OTHER in HF; lia).
  assert (Hnum : forall G, G = F -> is_numeric_type G = true -> (0 <= get_num st G < 2147483648)%Z).
  { intros G -> HG. now apply Hrange. }
  (* flags *)
  assert (Hflag : is_flag_type F = true -> pk_arg st F = [] -> item_view st F).
  { intros Hf Ha.
    assert (Ht : d_type (nm F) = F) by (rewrite <- (app_nil_r (nm F)); apply d_type_name_arg; [exact HF|now left]).
    constructor.
    - rewrite Ha. now left.
    - rewrite pack_one_eq, Ha, app_nil_r. exact Ht.
    - rewrite pack_one_eq, Ha, app_nil_r. unfold eff. rewrite Ht.
      unfold_ids.
      repeat match goal with |- context [if ?c then _ else _] => destruct c eqn:? end; try reflexivity; lia.
    - intros Hn. unfold_ids. lia.
    - intros ->. discriminate.
    - intros ->. discriminate. }
  (* numeric with "=value" *)
  assert (Hnumv : is_numeric_type F = true -> pk_arg st F = 61 :: dec_of_Z (get_num st F) -> item_view st F).
  { intros Hn Ha. pose proof (Hnum F eq_refl Hn) as Hr. destruct (dec_of_Z_digits _ Hr) as [Hne Hds].
    assert (Hd : d_num (pack_one st F) = Some (get_num st F)) by (rewrite pack_one_eq, Ha; now apply d_num_dec).
    assert (Ht : d_type (pack_one st F) = F) by (rewrite pack_one_eq, Ha; apply d_type_name_arg; [exact HF|right; eauto]).
    constructor.
    - rewrite Ha. right. left. eauto.
    - exact Ht.
    - unfold eff. rewrite Ht, Hn, Hd. apply orb_true_r.
    - intros _. unfold num_of. now rewrite Hd.
    - intros ->. discriminate.
    - intros ->. discriminate. }
  (* quoted *)
  assert (Hq : forall txt, (F = CC_PRIVATE \/ F = CC_NO_CACHE) -> forallb txt_char txt = true ->
                 (F = CC_PRIVATE -> txt = private_ st) -> (F = CC_NO_CACHE -> txt = no_cache st) ->
                 pk_arg st F = match txt with [] => [] | a :: l => 61 :: quote_string (a :: l) end -> item_view st F).
  { intros txt HFq Htxt Hp1 Hp2 Ha.
    assert (Ht : d_type (pack_one st F) = F).
    { rewrite pack_one_eq, Ha. apply d_type_name_arg; [exact HF|]. destruct txt; [now left|right; eexists; reflexivity]. }
    assert (Hqs : qs_text (d_qs (pack_one st F)) = txt).
    { rewrite pack_one_eq, Ha. destruct txt as [|t0 tr].
      - rewrite app_nil_r. destruct (d_plain F HF) as [_ ->]. reflexivity.
      - now rewrite (d_qs_quoted F (t0 :: tr) HF Htxt). }
    assert (Hok : match d_qs (pack_one st F) with Some QFail => false | Some QFuel => false | _ => true end = true).
    { rewrite pack_one_eq, Ha. destruct txt as [|t0 tr].
      - rewrite app_nil_r. destruct (d_plain F HF) as [_ ->]. reflexivity.
      - now rewrite (d_qs_quoted F (t0 :: tr) HF Htxt). }
    constructor.
    - rewrite Ha. destruct txt as [|t0 tr]; [now left|]. right. right. exists (t0 :: tr). split; [now rewrite (quote_string_eq _ Htxt)|exact Htxt].
    - exact Ht.
    - unfold eff. rewrite Ht. destruct HFq as [->| ->]; [reflexivity|]. exact Hok.
    - intros Hn. destruct HFq as [->| ->]; discriminate.
    - intros E. rewrite Hqs. now apply Hp1.
    - intros E. rewrite Hqs. now apply Hp2. }
  repeat (destruct Hc as [Hc|Hc]; [subst F;
    first [ apply Hflag; reflexivity
          | apply Hnumv; reflexivity
          | apply (Hq (private_ st)); [now left|exact Hpv|reflexivity|discriminate|reflexivity]
          | apply (Hq (no_cache st)); [now right|exact Hnc|discriminate|reflexivity|reflexivity]
          | idtac ] |]).
  all: try (subst F; apply Hflag; reflexivity).
  (* max-stale: valueless when it holds MAX_STALE_ANY *)
  pose proof (Hnum 9 eq_refl eq_refl) as Hr. change (get_num st 9) with (max_stale st) in Hr.
  destruct (max_stale st =? MAX_STALE_ANY)%Z eqn:Eany.
  - assert (Ha : pk_arg st 9 = []) by (unfold pk_arg; cbn; now rewrite Eany).
    assert (Ht : d_type (pack_one st 9) = 9) by (rewrite pack_one_eq, Ha; apply d_type_name_arg; [reflexivity|now left]).
    constructor.
    + rewrite Ha. now left.
    + exact Ht.
    + unfold eff. rewrite Ht. reflexivity.
    + intros _. unfold num_of. rewrite pack_one_eq, Ha, app_nil_r. destruct (d_plain 9 eq_refl) as [-> _].
      change (get_num st 9) with (max_stale st). lia.
    + discriminate.
    + discriminate.
  - apply Hnumv; [reflexivity|]. unfold pk_arg. cbn. now rewrite Eany.
Qed.

(* --- the specification of the packed elements is the object itself --- *)
Lemma find_known st : cc_wf st -> forall ids F,
  find (sel F) (flat_map (kn st) ids) =
  if existsb (N.eqb F) ids && isSet st F && negb (F =? CC_OTHER) then Some (pack_one st F) else None.
Proof.
  intros Hwf. induction ids as [|G r IH]; intros F; [reflexivity|].
  cbn [flat_map existsb]. unfold kn at 1.
  destruct (isSet st G && negb (G =? CC_OTHER)) eqn:EG.
  - apply andb_prop in EG. destruct EG as [HS HG].
    assert (HG' : G < CC_OTHER).
    { destruct Hwf as (_ & _ & _ & _ & Hhigh). destruct (G <? CC_OTHER) eqn:E; [lia|].
      rewrite (Hhigh G) in HS by lia. discriminate. }
    destruct (item_view_ok st G Hwf HG' HS) as [_ Ht He _ _ _].
    cbn [app find]. unfold sel at 1. rewrite Ht, He, andb_true_r.
    destruct (G =? F) eqn:E.
    + assert (G = F) by lia. subst G. rewrite N.eqb_refl, HS, HG. reflexivity.
    + rewrite IH. replace (F =? G) with false by lia. reflexivity.
  - cbn [app]. rewrite IH. destruct (F =? G) eqn:E; [|reflexivity].
    assert (F = G) by lia. subst G. cbn [orb andb].
    rewrite <- andb_assoc, EG, andb_false_r. reflexivity.
Qed.

Lemma in_all_flags F : F < CC_ENUM_END -> existsb (N.eqb F) all_flags = true.
Proof.
  intros H. unfold CC_ENUM_END in H.
  assert (Hc : F = 0 \/ F = 1 \/ F = 2 \/ F = 3 \/ F = 4 \/ F = 5 \/ F = 6 \/ F = 7 \/ F = 8 \/ F = 9 \/
               F = 10 \/ F = 11 \/ F = 12 \/ F = 13 \/ F = 14) by lia.
  repeat (destruct Hc as [Hc|Hc]; [subst F; reflexivity|]). subst F; reflexivity.
Qed.

Lemma find_known_all st F : cc_wf st -> F < CC_OTHER ->
  find (sel F) (known st) = if isSet st F then Some (pack_one st F) else None.
Proof.
  intros Hwf HF. unfold known. rewrite (find_known st Hwf).
  rewrite in_all_flags by (unfold CC_OTHER, CC_ENUM_END in *; lia).
  replace (F =? CC_OTHER) with false by lia. cbn [andb negb]. now rewrite andb_true_r.
Qed.

Lemma existsb_find {A} (p : A -> bool) l : existsb p l = match find p l with Some _ => true | None => false end.
Proof. induction l as [|x l IH]; [reflexivity|]. cbn [existsb find]. destruct (p x); [reflexivity|exact IH]. Qed.

Lemma known_types st : cc_wf st -> Forall (fun it => d_type it <> CC_OTHER) (known st).
Proof.
  intros Hwf. unfold known. induction all_flags as [|G r IH]; [constructor|].
  cbn [flat_map]. unfold kn at 1. destruct (isSet st G && negb (G =? CC_OTHER)) eqn:EG; [|exact IH].
  apply andb_prop in EG. destruct EG as [HS HG]. cbn [app]. constructor; [|exact IH].
  assert (HG' : G < CC_OTHER).
  { destruct Hwf as (_ & _ & _ & _ & Hhigh). destruct (G <? CC_OTHER) eqn:E; [lia|].
    rewrite (Hhigh G) in HS by lia. discriminate. }
  destruct (item_view_ok st G Hwf HG' HS) as [_ Ht _ _ _ _]. rewrite Ht. lia.
Qed.

Lemma known_good st : cc_wf st -> Forall good_item (known st).
Proof.
  intros Hwf. unfold known. induction all_flags as [|G r IH]; [constructor|].
  cbn [flat_map]. unfold kn at 1. destruct (isSet st G && negb (G =? CC_OTHER)) eqn:EG; [|exact IH].
  apply andb_prop in EG. destruct EG as [HS HG]. cbn [app]. constructor; [|exact IH].
  assert (HG' : G < CC_OTHER).
  { destruct Hwf as (_ & _ & _ & _ & Hhigh). destruct (G <? CC_OTHER) eqn:E; [lia|].
    rewrite (Hhigh G) in HS by lia. discriminate. }
  destruct (item_view_ok st G Hwf HG' HS) as [Ha _ _ _ _ _]. rewrite pack_one_eq. now apply good_name_arg.
Qed.

Theorem spec_known st : cc_wf st -> other st = [] -> spec_cc (known st) = st.
Proof.
  intros Hwf Hoth. pose proof Hwf as (Hrange & Hpv & Hnc & (Hinum & Hipv & Hinc) & Hhigh).
  symmetry. apply cc_ext; unfold spec_cc; cbn [cmask max_age s_maxage max_stale stale_if_error min_fresh private_ no_cache other].
  - apply N.bits_inj. intros n. rewrite testbit_mask_of. change (N.testbit (cmask st) n) with (isSet st n).
    destruct (n <? CC_OTHER) eqn:E.
    + unfold spec_bit. rewrite existsb_find, (find_known_all st n Hwf) by lia.
      replace (n <? CC_ENUM_END) with true by (unfold CC_OTHER, CC_ENUM_END in *; lia).
      destruct (isSet st n); reflexivity.
    + rewrite (Hhigh n) by lia. symmetry.
      destruct (n <? CC_ENUM_END) eqn:E2; [|apply andb_false_r]. rewrite andb_true_r.
      assert (n = CC_OTHER) by (unfold CC_OTHER, CC_ENUM_END in *; lia). subst n.
      unfold spec_bit. pose proof (known_types st Hwf) as Hk. induction (known st) as [|x l IHl]; [reflexivity|].
      inversion Hk; subst. cbn [existsb]. rewrite IHl by assumption. rewrite orb_false_r.
      unfold sel. replace (d_type x =? CC_OTHER) with false by lia. reflexivity.
  - assert (G : forall F, is_numeric_type F = true -> F < CC_OTHER -> get_num st F = spec_num (known st) F).
    { intros F HFn HF. unfold spec_num. rewrite (find_known_all st F Hwf HF).
      destruct (isSet st F) eqn:ES.
      - destruct (item_view_ok st F Hwf HF ES) as [_ _ _ Hn _ _]. now rewrite Hn.
      - now apply Hinum. }
    exact (G CC_MAX_AGE eq_refl eq_refl).
  - assert (G : forall F, is_numeric_type F = true -> F < CC_OTHER -> get_num st F = spec_num (known st) F).
    { intros F HFn HF. unfold spec_num. rewrite (find_known_all st F Hwf HF).
      destruct (isSet st F) eqn:ES.
      - destruct (item_view_ok st F Hwf HF ES) as [_ _ _ Hn _ _]. now rewrite Hn.
      - now apply Hinum. }
    exact (G CC_S_MAXAGE eq_refl eq_refl).
  - assert (G : forall F, is_numeric_type F = true -> F < CC_OTHER -> get_num st F = spec_num (known st) F).
    { intros F HFn HF. unfold spec_num. rewrite (find_known_all st F Hwf HF).
      destruct (isSet st F) eqn:ES.
      - destruct (item_view_ok st F Hwf HF ES) as [_ _ _ Hn _ _]. now rewrite Hn.
      - now apply Hinum. }
    exact (G CC_MAX_STALE eq_refl eq_refl).
  - assert (G : forall F, is_numeric_type F = true -> F < CC_OTHER -> get_num st F = spec_num (known st) F).
    { intros F HFn HF. unfold spec_num. rewrite (find_known_all st F Hwf HF).
      destruct (isSet st F) eqn:ES.
      - destruct (item_view_ok st F Hwf HF ES) as [_ _ _ Hn _ _]. now rewrite Hn.
      - now apply Hinum. }
    exact (G CC_STALE_IF_ERROR eq_refl eq_refl).
  - assert (G : forall F, is_numeric_type F = true -> F < CC_OTHER -> get_num st F = spec_num (known st) F).
    { intros F HFn HF. unfold spec_num. rewrite (find_known_all st F Hwf HF).
      destruct (isSet st F) eqn:ES.
      - destruct (item_view_ok st F Hwf HF ES) as [_ _ _ Hn _ _]. now rewrite Hn.
      - now apply Hinum. }
    exact (G CC_MIN_FRESH eq_refl eq_refl).
  - unfold spec_text. rewrite (find_known_all st CC_PRIVATE Hwf eq_refl).
    destruct (isSet st CC_PRIVATE) eqn:ES.
    + destruct (item_view_ok st CC_PRIVATE Hwf eq_refl ES) as [_ _ _ _ Hp _]. now rewrite Hp.
    + now apply Hipv.
  - unfold spec_text. rewrite (find_known_all st CC_NO_CACHE Hwf eq_refl).
    destruct (isSet st CC_NO_CACHE) eqn:ES.
    + destruct (item_view_ok st CC_NO_CACHE Hwf eq_refl ES) as [_ _ _ _ _ Hp]. now rewrite Hp.
    + now apply Hinc.
  - rewrite Hoth. unfold spec_other. pose proof (known_types st Hwf) as Hk.
    induction (known st) as [|x l IHl]; [reflexivity|]. inversion Hk; subst. cbn [filter].
    replace (d_type x =? CC_OTHER) with false by lia. now apply IHl.
Qed.

(* --- packInto writes the packed elements joined by ", " --- *)
Lemma fold_join2 : forall l out, Forall (fun x => x <> []) l ->
  fold_left join2 l out =
  match out, l with
  | [], _ => joinr l
  | _, [] => out
  | _, _ => out ++ [44; 32] ++ joinr l
  end.
Proof.
  induction l as [|x r IH]; intros out Hl; cbn [fold_left].
  - destruct out; reflexivity.
  - inversion Hl as [|? ? Hx Hr]; subst. rewrite (IH _ Hr).
    assert (Hj : join2 out x <> []).
    { unfold join2. destruct out; cbn [app]; [exact Hx|discriminate]. }
    destruct (join2 out x) as [|j0 jr] eqn:Ej; [contradiction|]. rewrite <- Ej. clear Hj.
    unfold join2. destruct out as [|o0 orest].
    + cbn [app joinr]. destruct r; [reflexivity|]. reflexivity.
    + cbn [joinr]. destruct r as [|y r'].
      * now rewrite <- app_assoc.
      * rewrite <- !app_assoc. reflexivity.
Qed.

Lemma pack_flags_known st : forall flags pcount out,
  (pcount = 0 <-> out = []) ->
  (forall F, In F flags -> isSet st F && negb (F =? CC_OTHER) = true -> pack_one st F <> []) ->
  pack_flags st flags pcount out =
  (fold_left join2 (flat_map (kn st) flags) out, pcount + lenN (flat_map (kn st) flags)).
Proof.
  induction flags as [|F r IH]; intros pcount out Hinv Hne; cbn [pack_flags flat_map].
  - cbn [fold_left lenN]. f_equal. lia.
  - unfold kn at 1 3. destruct (isSet st F && negb (F =? CC_OTHER)) eqn:EF.
    + pose proof (Hne F (or_introl eq_refl) EF) as Hx.
      rewrite IH.
      * cbn [app fold_left lenN]. f_equal; [|lia].
        f_equal. unfold join2, sep. destruct out as [|o0 orest].
        -- replace (pcount =? 0) with true by (destruct Hinv as [_ Hi]; rewrite (Hi eq_refl); reflexivity). reflexivity.
        -- replace (pcount =? 0) with false by (destruct Hinv as [Hi _]; destruct (pcount =? 0) eqn:E; [|reflexivity];
                                                 assert (pcount = 0) by lia; specialize (Hi H); discriminate).
           now rewrite <- app_assoc.
      * split; [lia|]. intros E. apply app_eq_nil in E. destruct E as [_ E]. apply app_eq_nil in E. destruct E as [_ E]. contradiction.
      * intros G HG. apply Hne. now right.
    + cbn [app]. apply IH; [exact Hinv|]. intros G HG. apply Hne. now right.
Qed.

Lemma cc_pack_known st : cc_wf st -> cc_ok st = true -> other st = [] -> cc_pack st = joinr (known st).
Proof.
  intros Hwf Hok Hoth. unfold cc_pack. unfold cc_ok in Hok. destruct (cmask st =? 0); [discriminate|].
  pose proof (known_good st Hwf) as Hg.
  assert (Hne : Forall (fun x => x <> []) (known st)).
  { clear -Hg. induction Hg as [|x l (_ & He & _) _ IH]; constructor; [now apply ends_nonnil|exact IH]. }
  fold all_flags. rewrite (pack_flags_known st all_flags 0 []).
  - fold (known st). rewrite Hoth. rewrite (fold_join2 _ [] Hne). reflexivity.
  - tauto.
  - intros F _ HF. apply andb_prop in HF. destruct HF as [HS HF].
    assert (HF' : F < CC_OTHER).
    { destruct Hwf as (_ & _ & _ & _ & Hhigh). destruct (F <? CC_OTHER) eqn:E; [lia|].
      rewrite (Hhigh F) in HS by lia. discriminate. }
    destruct (item_view_ok st F Hwf HF' HS) as [Ha _ _ _ _ _].
    destruct (good_name_arg F (pk_arg st F) HF' Ha) as (_ & He & _). rewrite pack_one_eq. now apply ends_nonnil.
Qed.

Lemma joinr_no_nul : forall l, Forall good_item l -> no_nul (joinr l).
Proof.
  induction l as [|x r IH]; intros H; [reflexivity|]. inversion H as [|? ? (_ & _ & Hn & _) Hr]; subst.
  cbn [joinr]. destruct r as [|y r']; [exact Hn|].
  apply no_nul_app. split; [exact Hn|]. apply no_nul_app. split; [reflexivity|]. now apply IH.
Qed.

Lemma c_str_id l : no_nul l -> c_str l = l.
Proof.
  unfold no_nul, c_str. induction l as [|c r IH]; intros H; [reflexivity|].
  cbn [forallb] in H. apply andb_prop in H. destruct H as [Hc Hr]. cbn [span]. rewrite Hc.
  specialize (IH Hr). destruct (span _ r) as [a b]. cbn [fst] in *. now rewrite IH.
Qed.

Lemma list_items_joinr l : Forall good_item l -> list_items 44 (joinr l) = l.
Proof.
  intros H. unfold list_items. rewrite (c_str_id _ (joinr_no_nul l H)). apply items_joinr; [exact H|lia].
Qed.

(* C29 main theorem 3 (partial: objects without unknown directives):
   parse (pack (parse v)) = parse v *)
Theorem cc_roundtrip_known v st :
  cc_parse v = Some st -> cc_ok st = true -> other st = [] -> cc_parse (cc_pack st) = Some st.
Proof.
  intros Hp Hok Hoth. pose proof Hp as Hp0. rewrite cc_parse_exact in Hp. injection Hp as Hst.
  assert (Hwf : cc_wf st) by (rewrite <- Hst; apply spec_cc_wf).
  rewrite (cc_pack_known st Hwf Hok Hoth), cc_parse_exact.
  rewrite (list_items_joinr _ (known_good st Hwf)). f_equal. now apply spec_known.
Qed.

(* ====================================================================== *)
(* concrete values used by the Examples of Properties_C29.v *)
(* max-age=5, private="Set-Cookie", no-store, foo, MAX-AGE=7 *)
Definition ex_value : bytes :=
  [109;97;120;45;97;103;101;61;53;44;32;112;114;105;118;97;116;101;61;34;83;101;116;45;67;111;111;107;105;101;34;44;32;
   110;111;45;115;116;111;114;101;44;32;102;111;111;44;32;77;65;88;45;65;71;69;61;55].
(* max-age=4294967396, s-maxage=-1 : both invalid, both absent *)
Definition ex_invalid : bytes :=
  [109;97;120;45;97;103;101;61;52;50;57;52;57;54;55;51;57;54;44;32;115;45;109;97;120;97;103;101;61;45;49].
(* Max-Age=60 , no-cache="Set-Cookie, Age",private, max-stale : no unknown directive *)
Definition ex_known : bytes :=
  [77;97;120;45;65;103;101;61;54;48;32;44;32;110;111;45;99;97;99;104;101;61;34;83;101;116;45;67;111;111;107;105;101;44;32;65;103;101;34;
   44;112;114;105;118;97;116;101;44;32;109;97;120;45;115;116;97;108;101].

(* statements packaged for Properties_C29.v *)
Lemma parse_fold_pairs st v :
  cc_parse_from st v = Some (fold_left step_pair (pairs_of v) st) /\ map fst (pairs_of v) = list_items 44 v.
Proof. split; [apply cc_parse_from_fold|apply pairs_of_items]. Qed.

Lemma cc_parse_wf v st : cc_parse v = Some st -> cc_wf st.
Proof. intros H. rewrite cc_parse_exact in H. injection H as <-. apply spec_cc_wf. Qed.

Lemma pack_joined st : cc_wf st -> cc_ok st = true -> other st = [] ->
  cc_pack st = joinr (known st) /\ Forall good_item (known st) /\ spec_cc (known st) = st.
Proof. intros Hwf Hok Ho. split; [now apply cc_pack_known|]. split; [now apply known_good|now apply spec_known]. Qed.

Lemma ex_invalid_all : forall F, strict_numeric F ->
  forall it, In it (list_items 44 ex_invalid) -> d_type it = F -> d_num it = None.
Proof.
  intros F _ it Hin _.
  assert (E : forallb (fun i => match d_num i with None => true | Some _ => false end) (list_items 44 ex_invalid) = true)
    by (vm_compute; reflexivity).
  rewrite forallb_forall in E. specialize (E it Hin). destruct (d_num it); [discriminate|reflexivity].
Qed.

Lemma quote_roundtrip X junk : forallb txt_char X = true ->
  rfc_unquote (quote_string X ++ junk) = Some X /\
  parse_quoted_string (quote_string X) (lenN (quote_string X)) = QOk X.
Proof. intros H. split; [now apply quote_unquote|now apply pqs_quote_string]. Qed.

Lemma pairs_local v : Forall (fun p => forall st,
  cc_step st (fst p) (snd p) = cc_step st (fst p) (fst p)) (pairs_of v).
Proof.
  pose proof (pairs_of_wf v) as H. induction H as [|[it tl] ps Hp Hps IH]; constructor; [|exact IH].
  intros st. cbn [fst snd]. apply (cc_step_local st it tl Hp).
Qed.
