"""C27: integer parsing is exact and overflow-safe."""
import random
from vlib import std, hbuild, coq, recipes, common

PID = "C27"
META = {
    "text": "Theorems (Properties_C27.v, closed under the global context): for every base selector (0, 2..36), sign setting, length limit and input, the machine algorithm of Parser::Tokenizer::int64 (cutoff/cutlim test, uint64_t accumulation with the wrap written into the model) returns exactly the arbitrary-precision value of the maximal digit run it consumes, consumes exactly those digits, returns a value in [-2^63, 2^63) and fails iff there is no digit or the value does not fit (induction over the input with an exactness invariant on the loop state); httpHeaderParseOffset/httpHeaderParseInt accept only values in the int64 / int range. The model is tied to src/parser/Tokenizer.cc and src/HttpHeaderTools.cc by differential runs under UBSan, so signed overflow in the real code is a reported failure.",
    "note": "Trusted: Coq kernel, extraction, harness/h_int.cc; strtoll/strtol (glibc) are modelled from their specification and validated by correspondence only; the sign/0x-prefix front end is shared between model and reference in the theorem and validated by correspondence plus the independent Python oracle.",
    "technique": "Coq proof (induction over the digit loop with a representation invariant; lia/nia for the cutoff arithmetic) + extracted-model differential correspondence under UBSan + independent big-integer oracle",
}
NPOS = 4294967295
FRESH = ["src/parser/Tokenizer.cc", "src/HttpHeaderTools.cc"]
I63 = 1 << 63


def impl():
    return hbuild.build("h_int", "h_int.cc", fresh=FRESH, link=recipes.HTTPREPLY, sanitize="ubsan")


def prebuild():
    impl()


def hx(b):
    return bytes(b).hex() if len(b) else "-"


def unhx(h):
    return b"" if h == "-" else bytes.fromhex(h)


DIG = b"0123456789abcdefghijklmnopqrstuvwxyzABCDEFGHIJKLMNOPQRSTUVWXYZ"


def to_base(v, base):
    if v == 0:
        return b"0"
    out = bytearray()
    while v:
        out.append(DIG[v % base]); v //= base
    return bytes(reversed(out))


def boundary_values():
    vals = set()
    for k in (0, 1, 7, 8, 15, 16, 31, 32, 53, 62, 63, 64, 65):
        for d in (-2, -1, 0, 1, 2):
            vals.add(abs((1 << k) + d))
    for base in (8, 10, 16):
        for e in range(0, 24):
            for d in (-1, 0, 1):
                vals.add(abs(base ** e + d))
    for d in range(-12, 12):
        vals.add(abs(I63 + d)); vals.add(abs((1 << 64) + d)); vals.add(abs((1 << 31) + d)); vals.add(abs((1 << 32) + d))
    vals.add((I63 - 1) // 10); vals.add(I63 // 10); vals.add(I63 // 16); vals.add(I63 // 8)
    return sorted(vals)


BV = boundary_values()


def gen_number(rng, base):
    k = rng.random()
    if k < 0.18:
        # the loop state AFTER an overflow was detected: a boundary value (in particular cutoff followed by a
        # digit above/below cutlim) extended by further digits, so that later iterations run with any < 0
        lim = rng.choice([I63 - 1, I63])
        head = to_base(lim // base, base)
        d1 = rng.randrange(base)
        tail = bytes(DIG[rng.randrange(base)] for _ in range(rng.choice([0, 1, 1, 2, 3])))
        if rng.random() < 0.5 and tail:
            tail = tail[:-1] + bytes([DIG[rng.randrange(0, (lim % base) + 1)]])
        return head + bytes([DIG[d1]]) + tail
    if k < 0.28:
        return to_base(rng.choice(BV), base) + bytes(DIG[rng.randrange(base)] for _ in range(rng.choice([1, 1, 2, 3])))
    if k < 0.6:
        v = rng.choice(BV)
    elif k < 0.8:
        v = rng.getrandbits(rng.choice([3, 8, 16, 31, 32, 62, 63, 64, 65, 70, 90]))
    else:
        v = rng.randrange(0, 2000)
    return to_base(v, base)


def gen_cases(rng, n):
    cases = []
    for _ in range(n):
        which = rng.random()
        if which < 0.6:
            base0 = rng.choice([0, 8, 10, 16, 10, 16, 0])
            digbase = rng.choice([8, 10, 16]) if base0 == 0 else base0
            s = gen_number(rng, digbase)
            if rng.random() < 0.3:
                s = s.upper() if rng.random() < 0.5 else s
            pre = b""
            if rng.random() < 0.35 and digbase == 16:
                pre = rng.choice([b"0x", b"0X"])
            if rng.random() < 0.2 and digbase == 8:
                pre = b"0"
            sign = rng.choice([b"", b"", b"-", b"-", b"+"])
            tail = rng.choice([b"", b"", b" ", b"x", b"g", b"9", b"\r\n", b"-", b"\x80", bytes([rng.randrange(256)])])
            if rng.random() < 0.08:
                s = b""
            inp = sign + pre + s + tail
            allow = rng.choice(["1", "1", "0"])
            lim = rng.choice([NPOS, NPOS, NPOS, len(inp), max(len(inp) - 1, 0), len(inp) - len(tail), 0, 1, 2, 3, rng.randrange(0, 24)])
            cases.append("tok.int64 %d %s %d %s" % (base0, allow, max(lim, 0), hx(inp)))
        else:
            s = gen_number(rng, 10)
            sign = rng.choice([b"", b"", b"-", b"-", b"+"])
            sp = rng.choice([b"", b"", b" ", b"\t ", b"\n", b"\x0b"])
            tail = rng.choice([b"", b"", b" ", b"abc", b".5", b"-", b"\x00123", b","])
            if rng.random() < 0.08:
                s = b""
            inp = sp + sign + s + tail
            cases.append("%s %s" % (rng.choice(["hdr.offset", "hdr.int"]), hx(inp)))
    return cases


def digit_val(c):
    if 48 <= c <= 57: return c - 48
    if 65 <= c <= 90: return c - 55
    if 97 <= c <= 122: return c - 87
    return 99


def spec_int64(base, allow, lim, inp):
    """independent statement of what int64 must return"""
    if not inp or lim == 0:
        return "fail"
    r = inp[:lim]
    i = 0; neg = False
    if allow:
        if r[0:1] == b"-": neg = True; i = 1
        elif r[0:1] == b"+": i = 1
        if i >= len(r): return "fail"
    if base in (0, 16) and r[i:i + 1] == b"0" and i + 1 < len(r) and r[i + 1:i + 2] in (b"x", b"X"):
        i += 2; base = 16
    if base == 0:
        base = 8 if r[i:i + 1] == b"0" else 10
    if i >= len(r): return "fail"
    j = i; v = 0
    while j < len(r) and digit_val(r[j]) < base:
        v = v * base + digit_val(r[j]); j += 1
    if j == i: return "fail"
    if neg: v = -v
    if not (-I63 <= v < I63): return "fail"
    return "ok %d %d" % (v, j)


def spec_strto(inp, lo, hi):
    s = inp.split(b"\x00")[0]
    i = 0
    while i < len(s) and s[i] in b" \t\n\v\f\r": i += 1
    neg = False
    if s[i:i + 1] == b"-": neg = True; i += 1
    elif s[i:i + 1] == b"+": i += 1
    j = i; v = 0
    while j < len(s) and 48 <= s[j] <= 57:
        v = v * 10 + s[j] - 48; j += 1
    if j == i: return None, 0, s
    if neg: v = -v
    return v, j, s


def oracle(case, out):
    a = case.split()
    if out.startswith(("CRASH", "EXC", "ERR")) or "BAD-" in out:
        return ("oracle:crash", "implementation crashed / sanitizer abort / broken accounting: " + out[:200])
    if a[0] == "tok.int64":
        exp = spec_int64(int(a[1]), a[2] == "1", int(a[3]), unhx(a[4]))
        if out != exp:
            return ("oracle:int64", "exact-value specification requires `%s`" % exp)
        return None
    inp = unhx(a[1])
    if a[0] == "hdr.offset":
        v, j, s = spec_strto(inp, -I63, I63)
        exp = "fail" if v is None or not (-I63 <= v < I63) else "ok %d %d" % (v, j)
        if out != exp:
            return ("oracle:offset", "strtoll-based offset must be `%s`" % exp)
        return None
    if a[0] == "hdr.int":
        v, j, s = spec_strto(inp, -(1 << 31), 1 << 31)
        if v is None:
            exp = "fail"
        elif not (-(1 << 31) <= v < (1 << 31)):
            exp = "fail"
        elif v == 0 and not (48 <= (s[0] if s else 0) <= 57):
            exp = "fail"
        else:
            exp = "ok %d" % v
        if out != exp:
            return ("oracle:int", "int header value must be `%s` (never a wrapped value)" % exp)
    return None


def mutate(rng, case):
    a = case.split()
    b = bytearray(unhx(a[-1]))
    if b:
        k = rng.randrange(len(b))
        b[k] = rng.choice(b"0123456789abcdefxX-+ ") if rng.random() < 0.8 else rng.randrange(256)
    a[-1] = hx(b)
    return " ".join(a)


def run(res, tier):
    res.rule = ("digit strings in bases 8/10/16 at power-of-base and 2^31/2^32/2^63/2^64 boundaries +-12, random widths up to 90 bits, "
                "signs, 0x prefixes, trailing garbage, length limits 0..len and npos; strtoll-style inputs with leading space, NUL, "
                "trailing text; a case is non-trivial when at least one digit was consumed (outcome ok, or fail by overflow)")
    std.run_standard(res, PID, tier, area="tok", build_impl=impl, gen_cases=gen_cases, oracle=oracle,
                     corr_name="TokModel.tok_int64/parse_offset/parse_int vs src/parser/Tokenizer.cc, src/HttpHeaderTools.cc",
                     n_quick=60000, n_thorough=1500000, seed_salt=27, mutate=mutate,
                     kind_fn=lambda c, o: c.split()[0] + ":" + o.split()[0],
                     nontrivial_fn=lambda c, o: o.startswith("ok") or len(c.split()[-1]) > 8)
