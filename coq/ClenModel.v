(* ClenModel.v — Content-Length interpretation as it exists in /repo:
     src/http/ContentLengthInterpreter.cc  findDigits / goodSuffix / checkValue / checkList / checkField
     src/HttpHeaderTools.cc                httpHeaderParseOffset  (strtoll semantics)
     src/StrList.cc                        strListGetItem (the list iterator checkList uses)
     src/HttpHeader.cc                     HttpHeader::parse (line loop, HttpHeaderEntry::parse, the
                                           Content-Length / Transfer-Encoding branches after the loop),
                                           putInt64 / getInt64 as used for the sanitised value.
   Executable definitions only.  Character sets come from the regenerated tables (CharSets_gen). *)
Require Import SquidV.Bytes.
Require Import SquidV.gen.CharSets_gen.
Local Open Scope N_scope.

(* ---------------- httpHeaderParseOffset = strtoll(start, &end, 10) + checks ----------------
   (self-contained: glibc strtoll in the C locale on the bytes before the first NUL) *)
Definition c_isdigit (c : N) : bool := (48 <=? c) && (c <=? 57).
Definition c_isupper (c : N) : bool := (65 <=? c) && (c <=? 90).
Definition c_isspace (c : N) : bool := (c =? 32) || ((9 <=? c) && (c <=? 13)).   (* xisspace *)
Fixpoint c_str (l : bytes) : bytes :=
  match l with [] => [] | c :: r => if c =? 0 then [] else c :: c_str r end.
Fixpoint skip_ws (l : bytes) (n : N) : bytes * N :=
  match l with
  | c :: r => if c_isspace c then skip_ws r (N.succ n) else (l, n)
  | [] => (l, n)
  end.
(* value of a string of decimal digits *)
Definition dec_val (ds : bytes) : Z := fold_left (fun a c => a * 10 + (Z.of_N c - 48))%Z ds 0%Z.
Definition two63 : Z := 9223372036854775808.

(* (value, bytes consumed, ERANGE); consumed = 0 when there are no digits (end == start) *)
Definition c_strtoll (s : bytes) : Z * N * bool :=
  let '(l1, n1) := skip_ws (c_str s) 0 in
  let '(neg, l2, n2) :=
    match l1 with
    | c :: r => if c =? 45 then (true, r, N.succ n1) else if c =? 43 then (false, r, N.succ n1)
                else (false, l1, n1)
    | [] => (false, l1, n1)
    end in
  let ds := fst (span c_isdigit l2) in
  match ds with
  | [] => (0%Z, 0, false)
  | _ =>
    let v := dec_val ds in
    if neg then (if (v >? two63)%Z then ((- two63)%Z, n2 + lenN ds, true) else ((- v)%Z, n2 + lenN ds, false))
    else (if (v >? two63 - 1)%Z then ((two63 - 1)%Z, n2 + lenN ds, true) else (v, n2 + lenN ds, false))
  end.

(* httpHeaderParseOffset(start, &value, &end): Some (value, end - start) *)
Definition parse_offset (s : bytes) : option (Z * N) :=
  let '(v, n, erange) := c_strtoll s in
  if erange then None            (* errno == ERANGE with LLONG_MIN / LLONG_MAX *)
  else if n =? 0 then None       (* start == end *)
  else Some (v, n).

(* Config.onoff.relaxed_header_parser: 1 on, 0 off, -1 warn; the code only tests it for (non)zero *)
Definition relaxed_of (mode : Z) : bool := negb (mode =? 0)%Z.

(* the white space findDigits skips and goodSuffix accepts *)
(* since "fix: only SP and HTAB are trimmed around Content-Length and Transfer-Encoding values" both are
   CharacterSet::WSP in every parser mode (the mode argument is kept for the callers) *)
Definition cl_ws (relaxed : bool) : cset := cs_WSP.
Definition cl_delim (relaxed : bool) : cset := cs_WSP.

(* ---------------- ContentLengthInterpreter ---------------- *)
(* headerWideProblem: 0 = nil, 1 = "Duplicate", 2 = "Conflicting" *)
Record clst := { cl_value : Z; cl_problem : N; cl_sawBad : bool; cl_needsSan : bool; cl_sawGood : bool }.
Definition cl_init : clst :=
  {| cl_value := (-1)%Z; cl_problem := 0; cl_sawBad := false; cl_needsSan := false; cl_sawGood := false |}.
Definition set_bad (st : clst) : clst :=
  {| cl_value := cl_value st; cl_problem := cl_problem st; cl_sawBad := true;
     cl_needsSan := cl_needsSan st; cl_sawGood := cl_sawGood st |}.
Definition set_san (st : clst) : clst :=
  {| cl_value := cl_value st; cl_problem := cl_problem st; cl_sawBad := cl_sawBad st;
     cl_needsSan := true; cl_sawGood := cl_sawGood st |}.

(* findDigits: the part of the value starting at the first digit; None = nullptr *)
Fixpoint find_digits (ws : cset) (l : bytes) : option bytes :=
  match l with
  | [] => None
  | c :: r => if cs_DIGIT c then Some l else if ws c then find_digits ws r else None
  end.

(* goodSuffix *)
Definition good_suffix (delims : cset) (s : bytes) : bool := forallb delims s.

(* checkValue(rawValue, valueSize): item = the valueSize bytes.  strtoll runs on the C string that
   starts at the digits; it stops at the first non-digit, which lies inside the item or is the
   byte right after it (NUL, ',' or white space — never a digit), so running parse_offset on the
   rest of the item is the same computation. *)
Definition check_value (relaxed : bool) (st : clst) (item : bytes) : bool * clst :=
  match find_digits (cl_ws relaxed) item with
  | None => (false, set_bad st)                                  (* leading garbage or empty *)
  | Some d =>
    match parse_offset d with
    | None => (false, set_bad st)                                (* malformed / ERANGE *)
    | Some (v, n) =>
      if (v <? 0)%Z then (false, set_bad st)                     (* negative *)
      else if negb (good_suffix (cl_delim relaxed) (dropN n d)) then (false, set_bad st)
      else if cl_sawGood st then
        let conflicting := negb (cl_value st =? v)%Z in
        (false, {| cl_value := cl_value st;
                   cl_problem := if conflicting then 2 else if cl_problem st =? 0 then 1 else cl_problem st;
                   cl_sawBad := negb relaxed || conflicting;
                   cl_needsSan := true;
                   cl_sawGood := true |})
      else
        (true, {| cl_value := v; cl_problem := cl_problem st; cl_sawBad := cl_sawBad st;
                  cl_needsSan := cl_needsSan st; cl_sawGood := true |})
    end
  end.

(* strListGetItem(&list, ',', ...) iterated from pos = nullptr over the C string of the list.
   delim[2] = " ,,\t\r\n\v\f" (every xisspace() character and ',') is skipped before an item; an item
   ends at an unquoted ','; inside double quotes a backslash escapes the next byte.  The iteration
   as a whole is one pass: *)
Definition is_lead (c : N) : bool :=
  (c =? 32) || (c =? 44) || (c =? 9) || (c =? 13) || (c =? 10) || (c =? 11) || (c =? 12).
Inductive sphase := Lead | Unq | Quo | Esc.
Fixpoint split_items (ph : sphase) (acc : bytes) (l : bytes) : list bytes :=
  match l with
  | [] => match ph with Lead => [] | _ => [rev acc] end
  | c :: r =>
    match ph with
    | Lead => if is_lead c then split_items Lead [] r
              else if c =? 34 then split_items Quo [c] r else split_items Unq [c] r
    | Unq => if c =? 34 then split_items Quo (c :: acc) r
             else if c =? 44 then rev acc :: split_items Lead [] r
             else split_items Unq (c :: acc) r
    | Quo => if c =? 34 then split_items Unq (c :: acc) r
             else if c =? 92 then split_items Esc (c :: acc) r
             else split_items Quo (c :: acc) r
    | Esc => split_items Quo (c :: acc) r
    end
  end.
(* "rtrim": while (len > 0 && xisspace(item[len-1])) --len *)
Definition rtrim (l : bytes) : bytes := rev (snd (span c_isspace (rev l))).

(* the while loop of checkList over the raw items: strListGetItem returns 0 — and the loop ends —
   when the item is empty after rtrim (since delim[2] covers all of xisspace this only happens at the
   end of the string; ClenProofs.examined_all proves it) *)
Fixpoint check_items (relaxed : bool) (st : clst) (items : list bytes) : clst :=
  match items with
  | [] => st
  | raw :: more =>
    match rtrim raw with
    | [] => st
    | item => let '(ok, st') := check_value relaxed st item in
              if negb ok && cl_sawBad st' then st' else check_items relaxed st' more
    end
  end.

Definition check_list (relaxed : bool) (st : clst) (list : bytes) : bool * clst :=
  if negb relaxed then (false, set_bad st)
  else (false, check_items relaxed (set_san st) (split_items Lead [] (c_str list))).

Definition has_comma (l : bytes) : bool := existsb (N.eqb 44) (c_str l).   (* String::pos(',') *)

Definition check_field (relaxed : bool) (st : clst) (v : bytes) : bool * clst :=
  if cl_sawBad st then (false, st)
  else if has_comma v then check_list relaxed st v else check_value relaxed st v.

(* all Content-Length field values of a header, in order *)
Fixpoint check_fields (relaxed : bool) (st : clst) (vs : list bytes) : list bool * clst :=
  match vs with
  | [] => ([], st)
  | v :: r => let '(k, st1) := check_field relaxed st v in
              let '(ks, st2) := check_fields relaxed st1 r in (k :: ks, st2)
  end.

(* ---------------- HttpHeader::parse ---------------- *)
Inductive hid := HCL | HTE | HOther.
Definition hid_eqb (a b : hid) : bool :=
  match a, b with HCL, HCL | HTE, HTE | HOther, HOther => true | _, _ => false end.
Record entry := { e_id : hid; e_value : bytes }.

Definition lower (c : N) : N := if c_isupper c then c + 32 else c.
Definition ci_eqb (a b : bytes) : bool := list_eqb (map lower a) (map lower b).
Definition name_content_length : bytes := [67;111;110;116;101;110;116;45;76;101;110;103;116;104].
Definition name_transfer_encoding : bytes :=
  [84;114;97;110;115;102;101;114;45;69;110;99;111;100;105;110;103].
Definition word_chunked : bytes := [99;104;117;110;107;101;100].
(* Http::HeaderLookupTable.lookup(name).id, reduced to the two framing ids *)
Definition lookup_id (name : bytes) : hid :=
  if ci_eqb name name_content_length then HCL
  else if ci_eqb name name_transfer_encoding then HTE else HOther.

Definition last_is (p : N -> bool) (l : bytes) : bool :=
  match rev l with c :: _ => p c | [] => false end.
Definition ltrim (l : bytes) : bytes := snd (span c_isspace l).
(* trimming with an arbitrary class; HttpHeaderEntry::parse trims SP/HTAB only around the framing fields *)
Definition is_wsp (c : N) : bool := (c =? 32) || (c =? 9).
Definition ltrim_by (p : N -> bool) (l : bytes) : bytes := snd (span p l).
Definition rtrim_by (p : N -> bool) (l : bytes) : bytes := rev (snd (span p (rev l))).

(* HttpHeaderEntry::parse(field_start, field_end, msgType); req = (msgType == hoRequest),
   the other owner modelled is hoReply *)
Definition entry_parse (relaxed req : bool) (field : bytes) : option entry :=
  let '(name, rest) := span (fun c => negb (c =? 58)) field in
  match rest with
  | [] => None                                            (* no ':' *)
  | _ :: after =>
    if lenN name =? 0 then None
    else if 65534 <? lenN name then None
    else
      let name' := if last_is c_isspace name then (if req then [] else rtrim name) else name in
      match name' with
      | [] => None
      | _ =>
        if negb (forallb cs_TCHAR name') then None
        else
          let trimmable := match lookup_id name' with HOther => c_isspace | _ => is_wsp end in
          let value := rtrim_by trimmable (ltrim_by trimmable after) in
          if 65534 <? lenN value then None
          else Some {| e_id := lookup_id name'; e_value := value |}
      end
  end.

(* lines: the bytes before each LF, and the unterminated remainder *)
Fixpoint split_lines (l : bytes) : list bytes * bytes :=
  match l with
  | [] => ([], [])
  | c :: r =>
    let '(ls, rem) := split_lines r in
    if c =? 10 then ([] :: ls, rem)
    else match ls with [] => ([], c :: rem) | x :: xs => ((c :: x) :: xs, rem) end
  end.

Definition is_cr (c : N) : bool := c =? 13.
Definition strip_last (l : bytes) : bytes := rev (tl (rev l)).

(* one pass of the inner do-loop body on one line; cont = (this_line > field_start).
   Result: (line text up to field_end after the relaxed CR->SP rewrite, CR stripped?, bare CR seen) *)
Definition proc_line (relaxed req : bool) (ln : bytes) (cont : bool) : option (bytes * bool * bool) :=
  let crlf := last_is is_cr ln in
  let fe := if crlf then strip_last ln else ln in
  if crlf && req && negb (lenN fe =? 0) && forallb is_cr fe then None       (* CR+ field in a request *)
  else
    let bare := existsb is_cr fe in
    if bare && negb relaxed then None
    else
      let fe' := if bare then map (fun c => if is_cr c then 32 else c) fe else fe in
      if (lenN fe' =? 1) && cont then None                                   (* blank continuation line *)
      else Some (fe', crlf, bare).

Definition is_framing (e : entry) : bool :=
  match e_id e with HOther => false | _ => true end.

(* the outer while loop with the inner do-while, as one pass over the lines.
   acc = bytes of the current field before this line, nl = lines already in it, bare = bare CR seen *)
Fixpoint fields_loop (relaxed req : bool) (lines : list bytes) (rem : bytes)
         (acc : bytes) (nl : N) (bare : bool) : option (list entry) :=
  match lines with
  | [] => match rem with [] => Some [] | _ => None end                     (* missing LF *)
  | ln :: rest =>
    match proc_line relaxed req ln (0 <? nl) with
    | None => None
    | Some (fe, cr, bare1) =>
      let next := match rest with [] => rem | x :: _ => x ++ [10] end in
      let cont := match next with c :: _ => (c =? 32) || (c =? 9) | [] => false end in
      if cont then
        match rest with
        | [] => None                                                        (* missing LF *)
        | _ => fields_loop relaxed req rest rem
                 (acc ++ fe ++ (if cr then [13] else []) ++ [10]) (N.succ nl) (bare || bare1)
        end
      else
        match acc ++ fe with
        | [] => match rest, rem with [], [] => Some [] | _, _ => None end   (* blank line: must be last *)
        | field =>
          match entry_parse relaxed req field with
          | None => None
          | Some e =>
            if ((0 <? nl) || bare || bare1) && is_framing e then None       (* obs-fold / bare CR in CL or TE *)
            else option_map (cons e) (fields_loop relaxed req rest rem [] 0 false)
          end
        end
    end
  end.

Definition has_nul (l : bytes) : bool := existsb (N.eqb 0) l.
Definition block_entries (relaxed req : bool) (block : bytes) : option (list entry) :=
  if has_nul block then None
  else let '(lines, rem) := split_lines block in fields_loop relaxed req lines rem [] 0 false.

(* the Content-Length test inside the loop: kept entries (addEntry order) and interpreter state *)
Fixpoint entries_loop (relaxed : bool) (es : list entry) (st : clst) : option (list entry * clst) :=
  match es with
  | [] => Some ([], st)
  | e :: r =>
    match e_id e with
    | HCL =>
      let '(keep, st') := check_field relaxed st (e_value e) in
      if keep then
        match entries_loop relaxed r st' with Some (k, s) => Some (e :: k, s) | None => None end
      else if relaxed then entries_loop relaxed r st'
      else None
    | _ => match entries_loop relaxed r st with Some (k, s) => Some (e :: k, s) | None => None end
    end
  end.

(* xint64toa for a non-negative number: decimal digits, most significant first *)
Fixpoint dec_digits (fuel : nat) (n : N) : bytes :=
  match fuel with
  | O => []
  | S k => if n <? 10 then [48 + n] else dec_digits k (n / 10) ++ [48 + n mod 10]
  end.
Definition int64_to_a (v : Z) : bytes := dec_digits 20 (Z.to_N v).

Definition del_id (i : hid) (es : list entry) : list entry := filter (fun e => negb (hid_eqb (e_id e) i)) es.
Definition has_id (i : hid) (es : list entry) : bool := existsb (fun e => hid_eqb (e_id e) i) es.
Record hres := { h_entries : list entry; h_conflicting : bool; h_teUnsupported : bool; h_cl : clst }.

(* getList(TRANSFER_ENCODING): values joined with ", " (an empty accumulated string gets no separator) *)
Definition te_joined (es : list entry) : bytes :=
  fold_left (fun s e => match e_id e with
                        | HTE => (match s with [] => [] | _ => s ++ [44; 32] end) ++ c_str (e_value e)
                        | _ => s end) es [].

(* the branches after the loop *)
Definition post_process (proh : bool) (kept : list entry) (st : clst) : hres :=
  if proh then
    {| h_entries := del_id HTE (del_id HCL kept); h_conflicting := false; h_teUnsupported := false; h_cl := st |}
  else if has_id HTE kept then
    {| h_entries := del_id HCL kept; h_conflicting := false;
       h_teUnsupported := negb (ci_eqb (te_joined kept) word_chunked); h_cl := st |}
  else if cl_sawBad st then
    {| h_entries := del_id HCL kept; h_conflicting := true; h_teUnsupported := false; h_cl := st |}
  else if cl_needsSan st then
    {| h_entries := del_id HCL kept ++
                    (if cl_sawGood st then [{| e_id := HCL; e_value := int64_to_a (cl_value st) |}] else []);
       h_conflicting := false; h_teUnsupported := false; h_cl := st |}
  else {| h_entries := kept; h_conflicting := false; h_teUnsupported := false; h_cl := st |}.

(* HttpHeader::parse on a list of already isolated entries *)
Definition parse_entries (relaxed proh : bool) (es : list entry) : option hres :=
  match entries_loop relaxed es cl_init with
  | None => None
  | Some (kept, st) => Some (post_process proh kept st)
  end.

(* HttpHeader::parse(header_start, hdrLen, clen); None = return 0 (after clean()) *)
Definition hdr_parse (relaxed req proh : bool) (block : bytes) : option hres :=
  match block_entries relaxed req block with
  | None => None
  | Some es => parse_entries relaxed proh es
  end.

(* what callers read afterwards: HttpHeader::getInt64(CONTENT_LENGTH) = httpHeaderParseOffset on the
   first Content-Length entry, -1 if there is none or it does not parse *)
Definition first_cl (es : list entry) : option bytes :=
  match filter (fun e => hid_eqb (e_id e) HCL) es with e :: _ => Some (e_value e) | [] => None end.
Definition content_length (r : hres) : Z :=
  match first_cl (h_entries r) with
  | None => (-1)%Z
  | Some v => match parse_offset v with Some (x, _) => x | None => (-1)%Z end
  end.
