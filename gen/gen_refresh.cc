// Table generator for C12 (RefreshConst_gen.v): the refreshCheck() reason codes, the implicit default
// refresh_pattern rule and the last-modified-factor product exactly as src/refresh.cc / src/RefreshPattern.h
// define them now.  refresh.cc is included textually because the enum and DefaultRefresh are file-static;
// only constants and the initialised DefaultRefresh object are read (unused functions are discarded at link time).
#include "squid.h"
#include "../src/refresh.cc"
#include <iostream>

static void def(const char *name, long long v) {
    std::cout << "Definition " << name << " : Z := " << (v < 0 ? "(" : "") << v << (v < 0 ? ")" : "") << ".\n";
}

int main() {
    std::cout << "@@FILE RefreshConst_gen.v\n";
    std::cout << "(* generated from /repo by gen/gen_refresh.cc -- do not edit *)\n"
              "From Coq Require Import ZArith List.\nImport ListNotations.\nLocal Open Scope Z_scope.\n";
    def("FRESH_REQUEST_MAX_STALE_ALL", FRESH_REQUEST_MAX_STALE_ALL);
    def("FRESH_REQUEST_MAX_STALE_VALUE", FRESH_REQUEST_MAX_STALE_VALUE);
    def("FRESH_EXPIRES", FRESH_EXPIRES);
    def("FRESH_LMFACTOR_RULE", FRESH_LMFACTOR_RULE);
    def("FRESH_MIN_RULE", FRESH_MIN_RULE);
    def("FRESH_OVERRIDE_EXPIRES", FRESH_OVERRIDE_EXPIRES);
    def("FRESH_OVERRIDE_LASTMOD", FRESH_OVERRIDE_LASTMOD);
    def("STALE_MUST_REVALIDATE", STALE_MUST_REVALIDATE);
    def("STALE_RELOAD_INTO_IMS", STALE_RELOAD_INTO_IMS);
    def("STALE_FORCED_RELOAD", STALE_FORCED_RELOAD);
    def("STALE_EXCEEDS_REQUEST_MAX_AGE_VALUE", STALE_EXCEEDS_REQUEST_MAX_AGE_VALUE);
    def("STALE_EXPIRES", STALE_EXPIRES);
    def("STALE_MAX_RULE", STALE_MAX_RULE);
    def("STALE_LMFACTOR_RULE", STALE_LMFACTOR_RULE);
    def("STALE_MAX_STALE", STALE_MAX_STALE);
    def("STALE_DEFAULT", STALE_DEFAULT);
    def("CC_MAX_STALE_ANY", HttpHdrCc::MAX_STALE_ANY);
    // the implicit rule used when no refresh_pattern line matches (static RefreshPattern DefaultRefresh(nullptr))
    def("default_rule_min", DefaultRefresh.min);
    def("default_rule_max", DefaultRefresh.max);
    def("default_rule_max_stale", DefaultRefresh.max_stale);
    const bool anyflag = DefaultRefresh.flags.refresh_ims || DefaultRefresh.flags.store_stale
#if USE_HTTP_VIOLATIONS
        || DefaultRefresh.flags.override_expire || DefaultRefresh.flags.override_lastmod
        || DefaultRefresh.flags.reload_into_ims || DefaultRefresh.flags.ignore_reload
        || DefaultRefresh.flags.ignore_no_store || DefaultRefresh.flags.ignore_private
#endif
        ;
    std::cout << "Definition default_rule_any_flag : bool := " << (anyflag ? "true" : "false") << ".\n";
#if USE_HTTP_VIOLATIONS
    std::cout << "Definition use_http_violations : bool := true.\n";
#else
    std::cout << "Definition use_http_violations : bool := false.\n";
#endif
    // samples of the floating-point product static_cast<time_t>(lastmod_delta * R->pct) of refreshStaleness()
    // for the default rule: (delta, product)
    std::cout << "Definition default_lmfactor_samples : list (Z * Z) := [";
    bool first = true;
    unsigned long long x = 88172645463325252ULL;
    for (int i = 0; i < 600; ++i) {
        time_t d;
        if (i < 200) d = i + 1;
        else { x ^= x << 13; x ^= x >> 7; x ^= x << 17; d = 1 + static_cast<time_t>(x % (i < 400 ? 4000000ULL : 4000000000ULL)); }
        const time_t v = static_cast<time_t>(d * DefaultRefresh.pct);
        std::cout << (first ? "" : ";") << ((i % 8 == 0) ? "\n  " : " ") << "(" << d << "," << v << ")";
        first = false;
    }
    std::cout << "].\n";
    return 0;
}
