(* Properties_C55.v — C55: the shared store index (src/ipc/StoreMap.cc on src/ipc/ReadWriteLock.cc) exposes only
   complete, stable entries. Statements only; proofs live in StoremapLock.v and StoremapProofs.v.

   Vocabulary (StoremapModel.v):
     sinit n scripts       a map of n anchors / n slices (StoreMap::Init(path, n)), one process per script, all idle
     sexec st sched        each schedule entry lets the named process perform ONE atomic operation (or its use step)
     sreach n scripts sched  the state after running `sched` from `sinit n scripts`: ANY number of processes, ANY
                           scripts over openForWriting(+setKey) / openForWritingAt / append-a-slice / startAppending /
                           closeForWriting / abortWriting / openForReading / chain walk / closeForReading /
                           closeForReadingAndFreeIdle / freeEntry / freeEntryByKey, ANY interleaving of single atomic
                           operations, including those inside the ReadWriteLock methods
     pri f th, tra f th    the two shares of process th in the lock of anchor f, as processes of RwlockModel (C54):
                           through the entry it opens/holds, and through its freeEntry/freeEntryByKey calls
     holdsP f th = Some m  th is between two lock calls of its primary activity and holds m of anchor f's lock
                           (MIdle | MShared | MExcl | MAppend (writer after startAppending) | MBusy (abortWriting of an
                           appending writer that found readers) | MHeaders (not used by the modelled methods))
     isReader th f k       th's openForReading(k) returned anchor f and th has not yet started to close it
     exclOn f th           an activity of th is between lock calls holding anchor f's lock exclusively
     MFree s               event: StoreMap returned slice s to the pool (StoreMapCleaner::noteFreeMapSlice)
     MRet o (OOpenR (Some k)) m   event: openForReading under key k succeeded

   PARTIAL (every theorem named ..._partial): the model contains openForUpdating / sliceContaining / the updater's
   fresh-prefix writes / closeForUpdating / abortUpdating (one transition per atomic operation, validated against the
   code like the rest), but the theorems are proved for scripts WITHOUT update operations only
   ([noupd scripts = true]: no KU/KSp/KCu/KAu). What is known about updating rests on the correspondence runs and the
   oracle (checks/c55.py): one updater per entry (headers lock), readers keep reading during an update, after an update
   every chain walk yields fresh prefix ++ old suffix, a recycled stale anchor frees exactly the replaced prefix, no
   slice of an open or current entry is freed — with ONE exception that the unchanged code really has and which is
   stated below as C55_stale_reader_loses_shared_suffix_refuted (known finding). *)
Require Import SquidV.Bytes SquidV.RwlockModel SquidV.RwlockProofs SquidV.StoremapModel SquidV.StoremapLock SquidV.StoremapProofs.
Local Open Scope Z_scope.

(* --- composition with C54: the counting invariant of the read/write lock holds for EVERY anchor in every
       reachable state, and no assert() about the lock state (writing()/reading()) can fail --- *)
Theorem C55_lock_invariant_every_anchor_partial : forall n scripts sched, noupd scripts = true -> LInvC (sreach n scripts sched).
Proof. exact sreach_linv. Qed.
Print Assumptions C55_lock_invariant_every_anchor_partial.

Theorem C55_no_lock_assertion_fires_partial : forall n scripts sched i th,
  noupd scripts = true ->
  nthN i (mths (sreach n scripts sched)) = Some th -> tpc th <> CrashedL.
Proof. exact reach_no_lock_assert. Qed.
Print Assumptions C55_no_lock_assertion_fires_partial.

(* --- no two writers hold the same entry (exclusive, appending or aborting alike) --- *)
Theorem C55_at_most_one_writer_per_entry_partial : forall n scripts sched f a i j thi thj x y,
  let st := sreach n scripts sched in
  noupd scripts = true ->
  nthN f (anchors (msh st)) = Some a ->
  i <> j -> nthN i (mths st) = Some thi -> nthN j (mths st) = Some thj ->
  holdsP f thi = Some x -> holdsP f thj = Some y -> is_writer x = true -> is_writer y = true -> False.
Proof. exact reach_one_writer. Qed.
Print Assumptions C55_at_most_one_writer_per_entry_partial.

(* --- a reader holds an entry only under the requested key ... --- *)
Theorem C55_reader_key_matches_partial : forall n scripts sched t th f k a,
  let st := sreach n scripts sched in
  noupd scripts = true ->
  nthN t (mths st) = Some th -> isReader th f k -> nthN f (anchors (msh st)) = Some a -> akey a = k.
Proof. exact reach_reader_key. Qed.
Print Assumptions C55_reader_key_matches_partial.

(* --- ... and only while the entry is complete or being appended: any writer of the entry coexisting with the
       reader has called startAppending (MAppend), or is the appending writer inside abortWriting that found the
       reader and is about to mark the entry and leave (MBusy) --- *)
Theorem C55_reader_only_with_complete_or_appending_entry_partial : forall n scripts sched f a i j thi thj k y,
  let st := sreach n scripts sched in
  noupd scripts = true ->
  nthN f (anchors (msh st)) = Some a ->
  i <> j -> nthN i (mths st) = Some thi -> nthN j (mths st) = Some thj ->
  isReader thi f k -> holdsP f thj = Some y -> is_writer y = true -> y = MAppend \/ y = MBusy.
Proof. exact reach_reader_vs_writer. Qed.
Print Assumptions C55_reader_only_with_complete_or_appending_entry_partial.

(* the same for freeEntry/freeEntryByKey calls of any process (the reader itself included): none of them holds the
   entry exclusively while it is being read *)
Theorem C55_reader_excludes_exclusive_deleter_partial : forall n scripts sched f a i j thi thj k y,
  let st := sreach n scripts sched in
  noupd scripts = true ->
  nthN f (anchors (msh st)) = Some a ->
  nthN i (mths st) = Some thi -> nthN j (mths st) = Some thj ->
  isReader thi f k -> holdsT f thj = Some y -> y = MIdle \/ y = MShared \/ y = MHeaders \/ y = MAppend \/ y = MBusy.
Proof. exact reach_reader_vs_transient. Qed.
Print Assumptions C55_reader_excludes_exclusive_deleter_partial.

(* --- a successful openForReading saw, at the moment it succeeded, an anchor that is not waitingToBeFreed and
       carries the requested key --- *)
Theorem C55_marked_entry_is_not_opened_partial : forall n scripts sched t st' evs b c k m',
  let st := sreach n scripts sched in
  noupd scripts = true ->
  sstep st t = (st', evs, b) -> In (t, MRet c (OOpenR (Some k)) m') evs ->
  exists f a, nthN f (anchors (msh st)) = Some a /\ wtbf a = false /\ akey a = k.
Proof. exact reach_open_saw_unmarked. Qed.
Print Assumptions C55_marked_entry_is_not_opened_partial.

(* --- the key of an anchor changes, and a set waitingToBeFreed mark disappears, only by a step of a process that
       holds the anchor exclusively (rewind() while freeing the entry, setKey() of the writer that created it) --- *)
Theorem C55_key_and_mark_change_only_under_exclusive_lock_partial : forall n scripts sched t st' evs b f a a',
  let st := sreach n scripts sched in
  noupd scripts = true ->
  sstep st t = (st', evs, b) ->
  nthN f (anchors (msh st)) = Some a -> nthN f (anchors (msh st')) = Some a' ->
  akey a' <> akey a \/ (wtbf a = true /\ wtbf a' = false) ->
  exists th, nthN t (mths st) = Some th /\ exclOn f th.
Proof. exact reach_step_protected. Qed.
Print Assumptions C55_key_and_mark_change_only_under_exclusive_lock_partial.

(* --- hence, while a reader holds an entry, whatever any process does: the key stays and a deletion mark stays
       (a deleted entry does not become openable again under its readers) --- *)
Theorem C55_entry_stable_while_read_partial : forall n scripts sched t st' evs b f a a' i thi k,
  let st := sreach n scripts sched in
  noupd scripts = true ->
  sstep st t = (st', evs, b) ->
  nthN f (anchors (msh st)) = Some a -> nthN f (anchors (msh st')) = Some a' ->
  nthN i (mths st) = Some thi -> isReader thi f k ->
  akey a' = akey a /\ (wtbf a = true -> wtbf a' = true).
Proof. exact reach_stable_while_read. Qed.
Print Assumptions C55_entry_stable_while_read_partial.

(* --- slices: StoreMap gives a slice back to the pool only in freeChainAt() run by an activity that holds
       exclusively the anchor g whose chain it walks; so no slice is freed through the chain of an entry while a
       process has that entry open for reading.
       PARTIAL: not proved here: that the chain walked from anchor g only contains slices that a writer of g put
       there (chains of different entries are disjoint); the correspondence runs check it on every explored
       schedule through the oracle's slice-ownership table --- *)
Theorem C55_slices_not_freed_while_read_partial : forall n scripts sched t st' evs b sid,
  let st := sreach n scripts sched in
  noupd scripts = true ->
  sstep st t = (st', evs, b) -> In (t, MFree sid) evs ->
  exists th g p, nthN t (mths st) = Some th /\ (tpc th = Prim g p \/ tpc th = Tran g p) /\
    forall a i thi k, nthN g (anchors (msh st)) = Some a -> nthN i (mths st) = Some thi -> ~ isReader thi g k.
Proof. exact reach_no_free_while_read. Qed.
Print Assumptions C55_slices_not_freed_while_read_partial.

Theorem C55_slices_freed_only_by_exclusive_holder_partial : forall n scripts sched t st' evs b sid,
  let st := sreach n scripts sched in
  noupd scripts = true ->
  sstep st t = (st', evs, b) -> In (t, MFree sid) evs ->
  exists th g p, nthN t (mths st) = Some th /\ exclOn g th /\ (tpc th = Prim g p \/ tpc th = Tran g p).
Proof. exact reach_free_by_exclusive. Qed.
Print Assumptions C55_slices_freed_only_by_exclusive_holder_partial.

(* --- after every process closed what it had opened, the lock of every anchor is idle again and can be taken in
       each of the three ways (lockExclusive is the first thing openForWritingAt and freeEntry do) --- *)
Theorem C55_all_closed_entries_lockable_again_partial : forall n scripts sched f a,
  let st := sreach n scripts sched in
  noupd scripts = true ->
  allClosed st -> nthN f (anchors (msh st)) = Some a ->
  lk a = idle_shared /\ probe (lk a) = Some [EvRet OpLX true; EvRet OpLS true; EvRet OpLH true].
Proof. exact reach_idle_when_all_closed. Qed.
Print Assumptions C55_all_closed_entries_lockable_again_partial.


(* --- KNOWN FINDING (unchanged tree), with updaters the property is FALSE: a reader that opened the entry before an
       update holds a lock on the stale anchor only; when the updated entry is then freed (here: freeEntryByKey), the
       chain suffix it shares with the stale version is cleared and returned to the pool while the reader still walks
       it: the same reader, without closing, first sees slice 1 with size 3, later (after MFree 1) with size 0.
       Reproduced on the real code: corpus/C55/known.txt --- *)
Definition k1u : key := (1%N, 0%N).
Theorem C55_stale_reader_loses_shared_suffix_refuted :
  exists scripts sched st evs n,
    srun_case 4 scripts sched = Some (st, evs, n) /\
    (* reader1_view: process 1's open / chain walks / close and every MFree, in the order they happened *)
    reader1_view evs =
      [ (1%N, MRet (KR k1u) (OOpenR (Some k1u)) (CRead 1 k1u));
        (1%N, MRet KLook (OLook [(0, 2%N); (1, 3%N)] true) (CRead 1 k1u));
        (0%N, MFree 2); (0%N, MFree 1);
        (1%N, MRet KLook (OLook [(0, 2%N); (1, 0%N)] true) (CRead 1 k1u));
        (1%N, MRet KLook (OLook [(0, 2%N); (1, 0%N)] true) (CRead 1 k1u));
        (1%N, MRet KCr OUnit CIdle) ].
Proof. exact stale_reader_witness. Qed.
Print Assumptions C55_stale_reader_loses_shared_suffix_refuted.

(* --- the hypotheses are satisfiable, non-trivially --- *)
Definition k1 : key := (1%N, 0%N).
Definition rep (t : N) (k : nat) : list N := repeat t k.

(* a reader holds entry 1 under key k1 while its writer is appending: the exception in the property is real *)
Example C55_ex_reader_with_appending_writer :
  let st := sreach 4 [[KW k1; KAdd 2; KApp; KAdd 3]; [KR k1; KLook]] (rep 0 26 ++ rep 1 7) in
  option_map cm (nthN 0%N (mths st)) = Some (CAppend 1 0) /\
  option_map (holdsP 1) (nthN 0%N (mths st)) = Some (Some MAppend) /\
  option_map cm (nthN 1%N (mths st)) = Some (CRead 1 k1) /\
  option_map (holdsP 1) (nthN 1%N (mths st)) = Some (Some MShared) /\
  option_map akey (nthN 1%N (anchors (msh st))) = Some k1.
Proof. vm_compute. repeat split; reflexivity. Qed.

(* a writer holds entry 1 exclusively while another process is inside openForReading on it; the reader fails *)
Example C55_ex_exclusive_writer_reader_fails :
  match srun_case 4 [[KW k1; KAdd 2]; [KR k1]] (rep 0 13 ++ rep 1 9) with
  | Some (st, evs, _) =>
      option_map (holdsP 1) (nthN 0%N (mths st)) = Some (Some MExcl) /\
      In (1%N, MRet (KR k1) (OOpenR None) CIdle) evs
  | None => False
  end.
Proof. vm_compute. split; [reflexivity | tauto]. Qed.

(* a successful open is reported, and a later freeEntry by another process only marks the entry (the reader stays) *)
Example C55_ex_open_event_and_mark :
  match srun_case 4 [[KW k1; KAdd 2; KCw; KR k1]; [KF 1]] (rep 0 40 ++ rep 1 12) with
  | Some (st, evs, _) =>
      In (0%N, MRet (KR k1) (OOpenR (Some k1)) (CRead 1 k1)) evs /\ In (1%N, MRet (KF 1) (OFree true) CIdle) evs /\
      option_map wtbf (nthN 1%N (anchors (msh st))) = Some true /\
      option_map akey (nthN 1%N (anchors (msh st))) = Some k1
  | None => False
  end.
Proof. vm_compute. repeat split; try reflexivity; tauto. Qed.

(* slices are given back to the pool when the entry is freed *)
Example C55_ex_slices_freed :
  match srun_case 4 [[KW k1; KAdd 2; KAdd 3; KCw; KF 1]] [] with
  | Some (st, evs, _) => In (0%N, MFree 0) evs /\ In (0%N, MFree 1) evs /\ owner (msh st) = [None; None; None; None]
  | None => False
  end.
Proof. vm_compute. repeat split; try reflexivity; tauto. Qed.

(* everybody closed: the hypothesis of the last theorem holds after a run with real contention *)
Example C55_ex_all_closed :
  match srun_case 4 [[KW k1; KAdd 2; KApp; KAdd 3; KCw]; [KR k1; KLook; KCr]; [KK k1]] (rep 0 26 ++ rep 1 12 ++ rep 2 20) with
  | Some (st, evs, _) => closedb st = true
  | None => False
  end.
Proof. vm_compute. reflexivity. Qed.

(* an update: the reader of the updated entry walks fresh prefix ++ old suffix; recycling the stale anchor (key 2 now
   maps to it) gives back exactly the replaced prefix (slice 0) *)
Example C55_ex_update_then_recycle :
  match srun_case 4 [[KW k1; KAdd 2; KAdd 3; KCw; KU k1; KSp 1; KAdd 5; KCu; KR k1; KLook; KCr; KW (2%N, 0%N)]] [] with
  | Some (st, evs, _) =>
      In (0%N, MRet (KU k1) (OUpd (Some (1%N, 2%N))) (CUpd (mkU k1 1 1 2 2 (-1) (-1) (-1)))) evs /\
      In (0%N, MRet KLook (OLook [(2, 5%N); (1, 3%N)] true) (CRead 2 k1)) evs /\
      filter (fun e => match snd e with MFree _ => true | _ => false end) evs = [(0%N, MFree 0)] /\
      fileNos (msh st) = [0; 3; 2; 0]
  | None => False
  end.
Proof. vm_compute. repeat split; try reflexivity; tauto. Qed.
